/-
  Main.lean — line-protocol driver of the model.  `seedmodel tok|ast|astexpr` reads hex-encoded
  sources from stdin, one per line, and prints the same blocks as the implementation's hooks.
-/
import SeedModel.Run
open Seed

def unhexDigit (c : Char) : Option Nat :=
  if '0' ≤ c ∧ c ≤ '9' then some (c.toNat - 48)
  else if 'a' ≤ c ∧ c ≤ 'f' then some (c.toNat - 87)
  else if 'A' ≤ c ∧ c ≤ 'F' then some (c.toNat - 55)
  else none

def unhex : List Char → Option (List UInt8)
  | [] => some []
  | [_] => none
  | a :: b :: r => do
    let h ← unhexDigit a
    let l ← unhexDigit b
    let rest ← unhex r
    pure (UInt8.ofNat (h * 16 + l) :: rest)

def decodeLine (line : String) : Option (List Char) := do
  let bs ← unhex line.trimAscii.toString.toList
  let s ← String.fromUTF8? (ByteArray.mk bs.toArray)
  pure s.toList

partial def loop (h : IO.FS.Stream) (out : IO.FS.Stream) (f : List Char → String) : IO Unit := do
  let line ← h.getLine
  if line.isEmpty then return ()
  match decodeLine line with
  | none => out.putStr "BADINPUT\nEND\n"
  | some src => out.putStr (f src ++ "END\n")
  out.flush
  loop h out f

partial def runLoop (h : IO.FS.Stream) (out : IO.FS.Stream) (nonce : String) (path : List Char) (fuel : Nat) (i : Nat) : IO Unit := do
  let line ← h.getLine
  if line.isEmpty then return ()
  out.putStr s!"BEGIN {nonce} {i}\n"
  match decodeLine line with
  | none => out.putStr s!"STATUS {nonce} badinput x\n"
  | some src =>
    let o := run fuel path src
    for l in o.out do
      out.putStr (String.ofList l ++ "\n")
    let code := match o.status with
      | .success => "0" | .failed => "103" | .crashed => "101" | .timeout => "timeout"
    out.putStr s!"STATUS {nonce} {code} {hexChars o.stderr}\n"
  out.putStr s!"END {nonce} {i}\n"
  out.flush
  runLoop h out nonce path fuel (i + 1)

def main (args : List String) : IO UInt32 := do
  let stdin ← IO.getStdin
  let stdout ← IO.getStdout
  match args with
  | ["tok"] => loop stdin stdout dumpTokens; stdout.flush; return 0
  | ["ast"] => loop stdin stdout dumpAst; stdout.flush; return 0
  | ["astexpr"] => loop stdin stdout dumpAstExpr; stdout.flush; return 0
  | ["run", nonce, path, fuel] =>
    runLoop stdin stdout nonce path.toList (fuel.toNat?.getD 100000) 0; stdout.flush; return 0
  | _ => IO.eprintln "usage: seedmodel tok|ast|astexpr|run"; return 2
