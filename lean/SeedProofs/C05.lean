/-
  C05 — containers are shared by reference; building operations return fresh ones; scalars are immutable.

  A container value is an address into the heap.  Aliasing sites store the `SVal` they are given (same address);
  an update rewrites the one cell at that address (frame: every other cell is kept), so it is seen through every
  alias and through nothing else; `===` is equality of addresses; every building operation allocates at
  `heap.size`, an address no existing value can hold, and copies the operands' element `SVal`s (sharing the
  elements, not the identity).  Scalars are not addresses: no heap update can change what a variable holding a
  scalar reads.
-/
import SeedProofs.Lemmas.C05Heap
import SeedProofs.Lemmas.C05ProgBuild
namespace Seed.C05
open Seed ScopeL HeapL

def sv (n : Int) : SVal := SVal.plain (.int n)
/-- cell 0 = scope `{a ↦ list@1, b ↦ list@1, c ↦ list@2, n ↦ 7, m ↦ 7}`, cells 1, 2 = lists, cell 3 = object `{"k": list@1}` -/
def σ₀ : State :=
  ⟨#[.scope [(c!"a", SVal.plain (.list 1), (1, 0)), (c!"b", SVal.plain (.list 1), (2, 0)), (c!"c", SVal.plain (.list 2), (3, 0)),
             (c!"n", sv 7, (4, 0)), (c!"m", sv 7, (5, 0))],
     .list [sv 1, sv 2], .list [sv 1, sv 2], .obj [(c!"k", SVal.plain (.list 1))]], []⟩

/-! ### identity -/

/-- `===` on containers is equality of addresses, and is defined only on containers and functions -/
theorem refEq_iff_addr (a b : Addr) :
    refEq (.list a) (.list b) = some (decide (a = b)) ∧ refEq (.obj a) (.obj b) = some (decide (a = b)) ∧
    refEq (.func a) (.func b) = some (decide (a = b)) := by
  have e : (a == b) = decide (a = b) := by
    by_cases h : a = b
    · subst h; simp
    · simp [h]
  refine ⟨?_, ?_, ?_⟩ <;> simp only [refEq, e]

/-- `===` is true exactly between two copies of the same reference -/
theorem refEq_true_iff (u v : Val) : refEq u v = some true ↔ u = v ∧ (refEq u v).isSome := by
  cases u <;> cases v <;> simp [refEq]

example : refEq (.list 1) (.list 1) = some true ∧ refEq (.list 1) (.list 2) = some false := by decide

/-- the operator itself: no state change, a bool that is address equality (and its negation for `!==`) -/
theorem refEq_op (fuel : Nat) (σ : State) (loc : Loc) (a b : Addr) :
    applyBinOp fuel σ .RefEq loc (.list a) (.list b) = .ok (.bool (a == b)) σ ∧
    applyBinOp fuel σ .RefNe loc (.list a) (.list b) = .ok (.bool (!(a == b))) σ ∧
    applyBinOp fuel σ .RefEq loc (.obj a) (.obj b) = .ok (.bool (a == b)) σ ∧
    applyBinOp fuel σ .RefNe loc (.obj a) (.obj b) = .ok (.bool (!(a == b))) σ := by
  refine ⟨?_, ?_, ?_, ?_⟩ <;> simp [applyBinOp, refEq]

/-- scalars have no identity: `===` on them is a type error, not a comparison -/
theorem refEq_scalars (u v : Val) (hu : u.kind = .Null ∨ u.kind = .Bool ∨ u.kind = .Int ∨ u.kind = .Str) : refEq u v = none := by
  cases u <;> simp [Val.kind] at hu <;> cases v <;> rfl

example : (Val.int 3).kind = .Null ∨ (Val.int 3).kind = .Bool ∨ (Val.int 3).kind = .Int ∨ (Val.int 3).kind = .Str := by decide

/-! ### fresh cells -/

/-- allocation returns the next free address — one that held nothing before, so no existing value refers to
    it — stores the cell there and preserves every existing cell -/
theorem alloc_fresh (σ : State) (c : Cell) :
    (σ.alloc c).1 = σ.heap.size ∧ σ.heap[σ.heap.size]? = none ∧ (σ.alloc c).2.heap[σ.heap.size]? = some c ∧
    (∀ b, b < σ.heap.size → (σ.alloc c).2.heap[b]? = σ.heap[b]?) ∧ (σ.alloc c).2.heap.size = σ.heap.size + 1 ∧
    (σ.alloc c).2.out = σ.out :=
  ⟨rfl, by simp, alloc_new σ c, fun _ hb => alloc_old σ c hb, alloc_size σ c, rfl⟩

/-- the fresh address differs from the address of every live container -/
theorem fresh_ne_live (σ : State) (c : Cell) (b : Addr) (xs : List SVal) (h : σ.getList b = some xs) : (σ.alloc c).1 ≠ b := by
  intro e
  have := getList_lt h
  rw [← e] at this
  exact Nat.lt_irrefl _ this

example : σ₀.getList 1 = some [sv 1, sv 2] := by decide

/-! ### updates: seen through every alias and through nothing else -/

/-- overwriting the cell at `a`: reading at `a` gives the new contents — whichever copy of the reference is used,
    since all copies are the number `a` — and every other address keeps its cell; nothing is allocated or printed -/
theorem set_frame (σ : State) (a : Addr) (c : Cell) (h : a < σ.heap.size) :
    (σ.set a c).heap[a]? = some c ∧ (∀ b, b ≠ a → (σ.set a c).heap[b]? = σ.heap[b]?) ∧
    (σ.set a c).heap.size = σ.heap.size ∧ (σ.set a c).out = σ.out :=
  ⟨set_same σ a c h, fun _ hb => set_other σ a c hb, set_size σ a c, rfl⟩

/-- element update `xs[i] = v` (the state change made by `bindNext` on an index target): the cell at `a` holds
    the list with position `i` replaced, every other list, object, function and scope is unchanged -/
theorem update_frame_list (σ : State) (a : Addr) (items : List SVal) (i : Nat) (v : SVal) (h : σ.getList a = some items) :
    let σ' := σ.set a (.list (listSet items i v))
    σ'.getList a = some (listSet items i v) ∧
    (∀ b, b ≠ a → σ'.getList b = σ.getList b ∧ σ'.getObj b = σ.getObj b ∧ σ'.getFunc b = σ.getFunc b) ∧
    (∀ b, σ'.getScope b = σ.getScope b) := by
  refine ⟨getList_heap.mpr (set_same σ a _ (getList_lt h)), fun b hb => ?_, fun b => ?_⟩
  · have := set_other σ a (.list (listSet items i v)) hb
    exact ⟨getList_congr this, getObj_congr this, getFunc_congr this⟩
  · exact getScope_set_nonscope σ a _ b (by rw [getScope_none_of_getList h]) (by intro m e; cases e)

/-- `listSet` replaces position `i` and nothing else -/
theorem listSet_spec (xs : List SVal) (i : Nat) (v : SVal) :
    (listSet xs i v).length = xs.length ∧ (i < xs.length → (listSet xs i v)[i]? = some v) ∧
    ∀ j, j ≠ i → (listSet xs i v)[j]? = xs[j]? :=
  ⟨listSet_length xs i v, listSet_get_same xs i v, fun j hj => listSet_get_other xs i j v hj⟩

example : listSet [sv 1, sv 2] 1 (sv 9) = [sv 1, sv 9] := by decide

/-- property update `o.k = v` / `o["k"] = v`: same frame for the object cell -/
theorem update_frame_obj (σ : State) (a : Addr) (props : ObjMap) (k : List Char) (v : SVal) (h : σ.getObj a = some props) :
    let σ' := σ.set a (.obj (objInsert k v props))
    σ'.getObj a = some (objInsert k v props) ∧
    (∀ b, b ≠ a → σ'.getList b = σ.getList b ∧ σ'.getObj b = σ.getObj b ∧ σ'.getFunc b = σ.getFunc b) ∧
    (∀ b, σ'.getScope b = σ.getScope b) := by
  refine ⟨getObj_heap.mpr (set_same σ a _ (getObj_lt h)), fun b hb => ?_, fun b => ?_⟩
  · have := set_other σ a (.obj (objInsert k v props)) hb
    exact ⟨getList_congr this, getObj_congr this, getFunc_congr this⟩
  · exact getScope_set_nonscope σ a _ b (by rw [getScope_none_of_getObj h]) (by intro m e; cases e)

example : σ₀.getObj 3 = some [(c!"k", SVal.plain (.list 1))] := by decide

/-- the whole statement `xs[i] = e` for a variable target, through the evaluator: given the value of the
    right-hand side, the list `x` refers to and a valid index, the result state is the one-cell update above -/
theorem index_assign_updates_cell (n : Nat) (σ : State) (sc : List Addr) (names : List (List Char)) (x : List Char) (lx li loc : Loc)
    (i : Int) (a : Addr) (src : Option Val) (items : List SVal) (cur rhs : SVal)
    (hx : scopeGet σ sc x = some ⟨.list a, src⟩) (hl : σ.getList a = some items) (hi : 0 ≤ i)
    (hc : items[i.toNat]? = some cur) :
    bindNext (n + 5) σ sc names (.mk (.Index (.mk (.Var x) lx) (.mk (.Int i) li)) loc) rhs none false =
      .ok names (σ.set a (.list (listSet items i.toNat rhs))) := by
  rw [bindNext.eq_def]; simp only
  rw [evalExpr.eq_def]; simp only [hx, Res.bind]
  rw [evalToIndex.eq_def]; simp only
  rw [evalToInt.eq_def]; simp only
  rw [evalExpr.eq_def]; simp only [Res.bind, SVal.plain, Int.not_lt.mpr hi, if_false, hl, hc, opAssignValue]

example : scopeGet σ₀ [0] c!"a" = some ⟨.list 1, none⟩ ∧ σ₀.getList 1 = some [sv 1, sv 2] ∧ (0 : Int) ≤ 1 ∧
    [sv 1, sv 2][(1 : Int).toNat]? = some (sv 2) := by decide

/-- … hence `a[1] = 9` in `σ₀` is seen through the alias `b` (same address), through the object property that
    holds the same list, and not through `c`, an equal but distinct list -/
example :
    let σ' := σ₀.set 1 (.list (listSet [sv 1, sv 2] 1 (sv 9)))
    scopeGet σ' [0] c!"b" = some ⟨.list 1, none⟩ ∧ σ'.getList 1 = some [sv 1, sv 9] ∧
    σ'.getObj 3 = some [(c!"k", SVal.plain (.list 1))] ∧ σ'.getList 2 = some [sv 1, sv 2] := by decide

/-! ### aliasing sites keep the address -/

/-- declaration and assignment store the `SVal` they are given, and reading the variable returns that same
    `SVal` (same address): `b := a` makes `b` the same container as `a` -/
theorem alias_by_declare {σ σ' : State} {top : Addr} {sc : List Addr} {x : List Char} {loc l : Loc} {v : SVal} (n : Nat)
    (h : scopeDeclare σ (top :: sc) x loc v = .ok σ') :
    evalExpr (n + 1) σ' (top :: sc) (.mk (.Var x) l) = .ok v σ' := by
  obtain ⟨m, h1, _, rfl⟩ := scopeDeclare_ok_iff.mp h
  rw [evalExpr]
  simp only [scopeGet_hit (getScope_set_same _ (getScope_lt h1)) (lookup_cons_same x v loc m) sc]

theorem alias_by_assign {σ σ' : State} {sc : List Addr} {x : List Char} {l : Loc} {v : SVal} (n : Nat)
    (h : scopeAssign σ sc x v = some σ') :
    evalExpr (n + 1) σ' sc (.mk (.Var x) l) = .ok v σ' := by
  obtain ⟨pre, a, post, m, w, l', rfl, hs, h1, h2, rfl⟩ := scopeAssign_some_iff.mp h
  have hs' : Skips (σ.set a (.scope (scopeSetVal x v m))) pre x := by
    intro b hb
    obtain ⟨mb, hb1, hb2⟩ := hs b hb
    have : b ≠ a := by rintro rfl; rw [h1] at hb1; cases hb1; rw [h2] at hb2; cases hb2
    exact ⟨mb, by rw [getScope_set_other _ this]; exact hb1, hb2⟩
  rw [evalExpr]
  simp only [scopeGet_skip hs', scopeGet_hit (getScope_set_same _ (getScope_lt h1)) (lookup_setVal_same h2) post]

example : ∃ σ', scopeDeclare σ₀ [0] c!"d" (5, 0) (SVal.plain (.list 2)) = .ok σ' := ⟨_, rfl⟩
example : ∃ σ', scopeAssign σ₀ [0] c!"c" (SVal.plain (.list 1)) = some σ' := ⟨_, rfl⟩

/-- a list literal stores, for a plain item, the very `SVal` the item evaluated to (so `[a]` holds `a` itself) … -/
theorem alias_by_list_item (n : Nat) (σ σ1 : State) (sc : List Addr) (e : Expr) (r : List ListItem) (acc : List SVal) (v : SVal)
    (he : evalExpr n σ sc e = .ok v σ1) :
    evalListItems (n + 1) σ sc (.mk e false :: r) acc = evalListItems n σ1 sc r (acc ++ [v]) := by
  rw [evalListItems]; simp only [he, Res.bind, Bool.not_false]; rfl

/-- … and for a spread item the element `SVal`s of the operand, not the operand: elements are shared, identity is not -/
theorem spread_copies_elements (n : Nat) (σ σ1 : State) (sc : List Addr) (e : Expr) (r : List ListItem) (acc xs : List SVal)
    (a : Addr) (s : Option Val) (he : evalExpr n σ sc e = .ok ⟨.list a, s⟩ σ1) (hl : σ1.getList a = some xs) :
    evalListItems (n + 1) σ sc (.mk e true :: r) acc = evalListItems n σ1 sc r (acc ++ xs) := by
  rw [evalListItems]; simp only [he, Res.bind, Bool.not_true, hl]; rfl

example : evalExpr 1 σ₀ [0] (.mk (.Var c!"a") (1, 1)) = .ok ⟨.list 1, none⟩ σ₀ := by rw [evalExpr]; rfl

/-- argument passing: the parameters are paired with the argument `SVal`s themselves (`C04.call_factors`:
    `bindings := fr.args.zip argVals`), and `return e` hands back the `SVal` of `e` -/
theorem alias_by_return (n : Nat) (σ : State) (sc : List Addr) (l : Loc) (e : Expr) :
    evalStmt (n + 1) σ sc (.Return l e) = (evalExpr n σ sc e).bind fun v σ1 => .ok (.ret v l) σ1 := by
  rw [evalStmt]

/-- a closure stores addresses of scope cells, never a copy of their contents (`C04.closure_shares_expr`), and
    reading a captured variable is `scopeGet` through those cells: it returns the stored reference -/
theorem alias_by_capture (n : Nat) (σ : State) (closure : List Addr) (x : List Char) (l : Loc) (v : SVal)
    (h : scopeGet σ closure x = some v) (fresh : Addr) (hf : σ.getScope fresh = some []) :
    evalExpr (n + 1) σ (fresh :: closure) (.mk (.Var x) l) = .ok v σ := by
  rw [evalExpr]; simp only [scopeGet_cons, hf, scopeLookup, h]

/-! ### building operations return a new container sharing the elements -/

/-- `xs + ys`: a new cell at `heap.size` (≠ both operands) holding exactly the operands' element values; the
    operands' cells are unchanged -/
theorem sum_fresh (fuel : Nat) (σ : State) (loc : Loc) (x y : Addr) (xs ys : List SVal)
    (hx : σ.getList x = some xs) (hy : σ.getList y = some ys) :
    applyBinOp fuel σ .Sum loc (.list x) (.list y) = .ok (.list σ.heap.size) (σ.alloc (.list (xs ++ ys))).2 ∧
    σ.heap.size ≠ x ∧ σ.heap.size ≠ y ∧
    (σ.alloc (.list (xs ++ ys))).2.getList σ.heap.size = some (xs ++ ys) ∧
    (σ.alloc (.list (xs ++ ys))).2.getList x = some xs ∧ (σ.alloc (.list (xs ++ ys))).2.getList y = some ys := by
  refine ⟨by simp [applyBinOp, hx, hy, State.alloc], fresh_ne_live σ (.list []) x xs hx, fresh_ne_live σ (.list []) y ys hy,
    getList_heap.mpr (alloc_new σ _), ?_, ?_⟩
  · rw [getList_congr (alloc_old σ _ (getList_lt hx))]; exact hx
  · rw [getList_congr (alloc_old σ _ (getList_lt hy))]; exact hy

example : σ₀.getList 1 = some [sv 1, sv 2] ∧ σ₀.getList 2 = some [sv 1, sv 2] := by decide

/-- list literal (also with spreads, via the two item lemmas above): a new cell at the heap size reached after
    evaluating the items -/
theorem list_literal_fresh (n : Nat) (σ σ1 : State) (sc : List Addr) (items : List ListItem) (loc : Loc) (vals : List SVal)
    (h : evalListItems n σ sc items [] = .ok vals σ1) :
    evalExpr (n + 1) σ sc (.mk (.List items false) loc) = .ok (SVal.plain (.list σ1.heap.size)) (σ1.alloc (.list vals)).2 := by
  rw [evalExpr]; simp only [Bool.false_eq_true, if_false, h, Res.bind]; rfl

example : evalListItems 1 σ₀ [0] [] [] = .ok [] σ₀ := by rw [evalListItems]

/-- object literal -/
theorem object_literal_fresh (n : Nat) (σ σ1 : State) (sc : List Addr) (props : List PropItem) (loc : Loc) (m : ObjMap)
    (h : evalProps n σ sc loc props [] = .ok m σ1) :
    evalExpr (n + 1) σ sc (.mk (.Object props) loc) = .ok (SVal.plain (.obj σ1.heap.size)) (σ1.alloc (.obj m)).2 := by
  rw [evalExpr]; simp only [h, Res.bind]; rfl

example : evalProps 1 σ₀ [0] (1, 0) [] [] = .ok [] σ₀ := by rw [evalProps]

/-- reading a range `xs[i:j]`: a new cell holding the selected element values (not a view) -/
theorem range_read_fresh (n : Nat) (σ σ1 σ2 σ3 : State) (sc : List Addr) (ex : Expr) (start stop : Option Expr) (loc : Loc)
    (a b : Option Nat) (addr : Addr) (s : Option Val) (items : List SVal)
    (h1 : evalOptIndex n σ sc start = .ok a σ1) (h2 : evalOptIndex n σ1 sc stop = .ok b σ2)
    (h3 : evalExpr n σ2 sc ex = .ok ⟨.list addr, s⟩ σ3) (h4 : σ3.getList addr = some items)
    (hb : a.getD 0 ≤ b.getD items.length ∧ b.getD items.length ≤ items.length) :
    evalExpr (n + 1) σ sc (.mk (.RangeIndex ex start stop) loc) =
      .ok (SVal.plain (.list σ3.heap.size))
        (σ3.alloc (.list ((items.drop (a.getD 0)).take (b.getD items.length - a.getD 0)))).2 := by
  rw [evalExpr]; simp only [h1, h2, h3, h4, Res.bind, hb.1, hb.2, decide_true, Bool.and_self, if_true]; rfl

example : evalOptIndex 1 σ₀ [0] none = .ok none σ₀ := by rw [evalOptIndex]

/-- `a .. b`: a new cell -/
theorem range_fresh (n : Nat) (σ σ1 σ2 : State) (sc : List Addr) (start stop : Expr) (loc : Loc) (a b : Int)
    (h1 : evalToInt n σ sc c!"range start" start = .ok a σ1) (h2 : evalToInt n σ1 sc c!"range end" stop = .ok b σ2) :
    evalExpr (n + 1) σ sc (.mk (.Range start stop) loc) =
      .ok (SVal.plain (.list σ2.heap.size)) (σ2.alloc (.list (intRange a b))).2 := by
  rw [evalExpr]; simp only [h1, h2, Res.bind]; rfl

/-- the collected rest of a list destructuring `[.., ..rest]`: a new cell holding the remaining element values -/
theorem collect_fresh (n : Nat) (σ : State) (sc : List Addr) (names : List (List Char)) (e : Expr) (lhsLoc : Loc) (b : Addr) (decl : Bool)
    (lhsLen : Nat) (rhsItems : List SVal) (hb : σ.getList b = some rhsItems) :
    bindList (n + 1) σ sc names [.mk e false] true lhsLoc b decl (lhsLen - 1) lhsLen =
      (bindNext n (σ.alloc (.list (rhsItems.drop (lhsLen - 1)))).2 sc names e (SVal.plain (.list σ.heap.size)) none decl).bind
        fun names' σ2 => bindList n σ2 sc names' [] true lhsLoc b decl (lhsLen - 1 + 1) lhsLen := by
  rw [bindList]; simp only [Bool.false_eq_true, if_false, hb, Bool.true_and, decide_true, if_true]; rfl

/-- `x += ys` on a variable holding a list: a **new** list is built and `x` is re-bound to it; the old cell — and so
    every other alias of it — is unchanged -/
theorem opassign_var_rebinds (fuel : Nat) (σ : State) (sc : List Addr) (names : List (List Char)) (x : List Char) (loc ol : Loc)
    (a b : Addr) (sa sb : Option Val) (xs ys : List SVal) (hx : x ≠ c!"_") (hn : names.contains x = false)
    (hg : scopeGet σ sc x = some ⟨.list a, sa⟩) (ha : σ.getList a = some xs) (hb : σ.getList b = some ys) :
    ∃ σ', bindNextName fuel σ sc names x loc ⟨.list b, sb⟩ (some (.Sum, ol)) false = .ok (x :: names) σ' ∧
      scopeGet σ' sc x = some (SVal.plain (.list σ.heap.size)) ∧ σ.heap.size ≠ a ∧
      σ'.getList σ.heap.size = some (xs ++ ys) ∧ σ'.getList a = some xs ∧ σ'.getList b = some ys := by
  have hsum := (sum_fresh fuel σ ol a b xs ys ha hb).1
  let σ1 := (σ.alloc (.list (xs ++ ys))).2
  -- the chain still resolves `x` after the allocation, so the store succeeds
  have hg1 : scopeGet σ1 sc x = some ⟨.list a, sa⟩ := by
    obtain ⟨pre, c, post, m, l, e, hs, h1, h2⟩ := scopeGet_some_iff.mp hg
    refine scopeGet_some_iff.mpr ⟨pre, c, post, m, l, e, ?_, ?_, h2⟩
    · intro d hd
      obtain ⟨md, hd1, hd2⟩ := hs d hd
      exact ⟨md, by rw [getScope_congr (alloc_old σ _ (getScope_lt hd1))]; exact hd1, hd2⟩
    · rw [getScope_congr (alloc_old σ _ (getScope_lt h1))]; exact h1
  have hsome : (scopeAssign σ1 sc x (SVal.plain (.list σ.heap.size))).isSome := by
    rw [scopeAssign_isSome, hg1]; rfl
  obtain ⟨σ', hσ'⟩ := Option.isSome_iff_exists.mp hsome
  refine ⟨σ', ?_, ?_, fresh_ne_live σ (.list []) a xs ha, ?_, ?_, ?_⟩
  · unfold bindNextName
    simp only [hx, hn, if_false, Bool.false_eq_true, hg, hsum, Res.bind]
    show (match scopeAssign σ1 sc x (SVal.plain (.list σ.heap.size)) with
      | some σ2 => Res.ok (x :: names) σ2 | none => _) = _
    rw [hσ']
  · obtain ⟨pre, c, post, m, w, l, rfl, hs, h1, h2, rfl⟩ := scopeAssign_some_iff.mp hσ'
    have hs' : Skips (σ1.set c (.scope (scopeSetVal x (SVal.plain (.list σ.heap.size)) m))) pre x := by
      intro d hd
      obtain ⟨md, hd1, hd2⟩ := hs d hd
      have : d ≠ c := by rintro rfl; rw [h1] at hd1; cases hd1; rw [h2] at hd2; cases hd2
      exact ⟨md, by rw [getScope_set_other _ this]; exact hd1, hd2⟩
    rw [scopeGet_skip hs']
    exact scopeGet_hit (getScope_set_same _ (getScope_lt h1)) (lookup_setVal_same h2) post
  all_goals
    obtain ⟨pre, c, post, m, w, l, _, _, h1, _, rfl⟩ := scopeAssign_some_iff.mp hσ'
    rw [getList_set_scope σ1 c _ _ h1]
  · exact getList_heap.mpr (alloc_new σ _)
  · rw [getList_congr (alloc_old σ _ (getList_lt ha))]; exact ha
  · rw [getList_congr (alloc_old σ _ (getList_lt hb))]; exact hb

example : c!"a" ≠ c!"_" ∧ scopeGet σ₀ [0] c!"a" = some ⟨.list 1, none⟩ ∧ σ₀.getList 1 = some [sv 1, sv 2] ∧
    σ₀.getList 2 = some [sv 1, sv 2] := by decide

/-! ### scalars are immutable values -/

/-- no update of a container cell changes what any variable reads (through any chain): a variable holding an
    int, bool, string or null keeps exactly that value — scalars are stored in the `SVal` itself, not behind an
    address — and a variable holding a container keeps the same reference -/
theorem container_update_keeps_bindings (σ : State) (a : Addr) (xs xs' : List SVal) (sc : List Addr) (x : List Char)
    (h : σ.getList a = some xs) : scopeGet (σ.set a (.list xs')) sc x = scopeGet σ sc x :=
  scopeGet_congr (fun b _ => by
    rw [getScope_set_nonscope σ a _ b (by rw [getScope_none_of_getList h]) (by intro m e; cases e)])

theorem object_update_keeps_bindings (σ : State) (a : Addr) (m m' : ObjMap) (sc : List Addr) (x : List Char)
    (h : σ.getObj a = some m) : scopeGet (σ.set a (.obj m')) sc x = scopeGet σ sc x :=
  scopeGet_congr (fun b _ => by
    rw [getScope_set_nonscope σ a _ b (by rw [getScope_none_of_getObj h]) (by intro m e; cases e)])

/-- an operation on a copy of a scalar (`m := n; m += 1`) re-binds only the variable it is applied to
    (`C04.assign_other_names`): here for `+=` on ints — `n` still reads 7 afterwards -/
theorem scalar_opassign_local (fuel : Nat) (σ σ' : State) (sc : List Addr) (names names' : List (List Char)) (x y : List Char)
    (loc : Loc) (rhs : SVal) (op : Option (BinaryOp × Loc)) (hy : y ≠ x)
    (h : bindNextName fuel σ sc names x loc rhs op false = .ok names' σ')
    (hwf : ∀ a ∈ sc, a < σ.heap.size) :
    scopeGet σ' sc y = scopeGet σ sc y := by
  unfold bindNextName at h
  by_cases hx : x = c!"_"
  · simp only [hx, if_true] at h; cases h; rfl
  · simp only [hx, if_false] at h
    split at h
    · cases h
    · simp only [Bool.false_eq_true, if_false] at h
      have store : ∀ (σ1 : State) (v : SVal), (∀ a ∈ sc, σ1.heap[a]? = σ.heap[a]?) →
          (match scopeAssign σ1 sc x v with
            | some σ2 => Res.ok (x :: names) σ2
            | none => errAt loc (Gen.Leaf.Undefined x) σ1) = .ok names' σ' → scopeGet σ' sc y = scopeGet σ sc y := by
        intro σ1 v h1 hs
        cases ha : scopeAssign σ1 sc x v with
        | none => simp only [ha] at hs; cases hs
        | some σ2 =>
          simp only [ha] at hs; cases hs
          obtain ⟨pre, a, post, m, w, l, _, _, hm, _, rfl⟩ := scopeAssign_some_iff.mp ha
          rw [← scopeGet_frame y h1]
          apply scopeGet_congr
          intro b _
          by_cases hb : b = a
          · subst hb
            rw [getScope_set_same _ (getScope_lt hm), hm]
            simp only [Option.map, lookup_setVal_other hy]
          · rw [getScope_set_other _ hb]
      cases op with
      | none => exact store σ rhs (fun _ _ => rfl) h
      | some p =>
        obtain ⟨o, ol⟩ := p
        simp only at h
        cases hg : scopeGet σ sc x with
        | none => simp only [hg] at h; cases h
        | some cur =>
          simp only [hg] at h
          cases hb : applyBinOp fuel σ o ol cur.v rhs.v with
          | ok v σ1 =>
            rw [hb] at h
            refine store σ1 (SVal.plain v) ?_ h
            rcases BindL.applyBinOp_state hb with rfl | ⟨zs, rfl⟩
            · intro _ _; rfl
            · intro a ha; exact alloc_old σ _ (hwf a ha)
          | err e σ1 => rw [hb] at h; cases h
          | crash w σ1 => rw [hb] at h; cases h
          | timeout => rw [hb] at h; cases h

example : (match bindNextName 5 σ₀ [0] [] c!"m" (5, 0) (sv 1) (some (.Sum, (5, 2))) false with
    | .ok _ σ' => (scopeGet σ' [0] c!"m", scopeGet σ' [0] c!"n") | _ => (none, none)) = (some (sv 8), some (sv 7)) := by decide

end Seed.C05

/-! # End to end: the frame theorems composed through the evaluator

  The theorems above are about the primitives, one step each.  Below they are composed through `evalStmts` /
  `evalStmt` / `evalExpr` / `bindNext` / `evalCall` into statements about small programs: which state a statement list
  leaves, what the reads `a[i]`, `a.k`, `a === b` then evaluate to, and which cells are equal to the cells of the
  initial state.  The setting is the one of a program's top level or of a function body: the chain is `A0 :: sc'`, the
  innermost scope cell `A0` holds `ms`, `a` is one of its names and `b` is a fresh name.  Sub-evaluations (the
  right-hand side `e`) are hypotheses at fuel `n`; the conclusions are equations at the exact fuel `n + c` whose
  right-hand side runs the rest of the program at the fuel the evaluator really gives it (by G1 they hold at every
  larger fuel).  The single steps with their exact fuel are in Lemmas/C05ProgStep.lean (the same steps as
  Lemmas/C14This.lean, over the `ScopeL`/`HeapL` lemma family this file uses), the reads that survive a write in
  Lemmas/C05ProgFrame.lean, the copying statements and the call of a one-parameter function in
  Lemmas/C05ProgBuild.lean.
-/
-- audit: Seed.C05P.stmts_step Seed.C05P.declare_var_stmt Seed.C05P.assign_var_stmt Seed.C05P.opassign_var_stmt Seed.C05P.index_assign_stmt Seed.C05P.prop_assign_stmt Seed.C05P.key_assign_stmt Seed.C05P.call_stmt Seed.C05P.var_read Seed.C05P.var_index_read Seed.C05P.var_prop_read Seed.C05P.var_key_read Seed.C05P.refeq_read Seed.C05P.refeq_vars Seed.C05P.toIndex_lit Seed.C05P.toStr_lit
-- audit: Seed.C05P.scopeGet_some_frame Seed.C05P.scopeGet_set_list Seed.C05P.scopeGet_set_obj Seed.C05P.scopeGet_declared Seed.C05P.scopeGet_declared_other Seed.C05P.applyBinOp_scalar_state Seed.C05P.sum_ints Seed.C05P.set_set Seed.C05P.list1_literal Seed.C05P.spread_copy Seed.C05P.sum_copy Seed.C05P.range_copy Seed.C05P.freshCopy_declare Seed.C05P.copy_by_spread Seed.C05P.copy_by_sum Seed.C05P.copy_by_range Seed.C05P.copy_by_collect Seed.C05P.call1_spec Seed.C05P.paramEntry_param Seed.C05P.paramEntry_scope Seed.C05P.paramEntry_old
namespace Seed.C05
open Seed ScopeL HeapL C05P

/-! ## (1) a mutation through one alias is seen through the other -/

/-- **`b := a; b[i] = e; rest`** -/
theorem alias_mutation_visible {n : Nat} {σ : State} {A0 : Addr} {sc' : List Addr} {ms : ScopeMap} {a b : List Char}
    {A : Addr} {sa : Option Val} {la : Loc} {items : List SVal} {i : Nat} {e : Expr} {v : SVal}
    (lb lr lb2 li ls : Loc)
    (hs : σ.getScope A0 = some ms) (ha : scopeLookup a ms = some (⟨.list A, sa⟩, la))
    (hb : b ≠ c!"_") (hfresh : scopeLookup b ms = none)
    (hl : σ.getList A = some items) (hi : i < items.length)
    (he : evalExpr n (σ.set A0 (.scope ((b, ⟨.list A, sa⟩, lb) :: ms))) (A0 :: sc') e =
      .ok v (σ.set A0 (.scope ((b, ⟨.list A, sa⟩, lb) :: ms)))) :
    let σ3 := (σ.set A0 (.scope ((b, ⟨.list A, sa⟩, lb) :: ms))).set A (.list (listSet items i v))
    (∀ rest, evalStmts (n + 7) σ (A0 :: sc')
        (.Declare (.mk (.Var b) lb) (.mk (.Var a) lr) ::
         .Assign (.mk (.Index (.mk (.Var b) lb2) (.mk (.Int (Int.ofNat i)) li)) ls) e :: rest) =
      evalStmts (n + 5) σ3 (A0 :: sc') rest) ∧
    (∀ j l1 l2 l3, evalExpr (j + 4) σ3 (A0 :: sc')
        (.mk (.Index (.mk (.Var a) l1) (.mk (.Int (Int.ofNat i)) l2)) l3) = .ok v σ3) ∧
    (∀ j l1 l2 l3 l4, evalExpr (j + 2) σ3 (A0 :: sc')
        (.mk (.BinaryOp .RefEq l3 (.mk (.Var a) l1) (.mk (.Var b) l2)) l4) = .ok (SVal.plain (.bool true)) σ3) ∧
    σ3.getScope A0 = some ((b, ⟨.list A, sa⟩, lb) :: ms) ∧ σ3.getList A = some (listSet items i v) ∧
    (∀ c, c ≠ A → c ≠ A0 → σ3.heap[c]? = σ.heap[c]?) ∧ σ3.heap.size = σ.heap.size ∧ σ3.out = σ.out := by
  intro σ3
  have hab : a ≠ b := ne_of_lookup ha hfresh
  have hld : (σ.set A0 (.scope ((b, ⟨.list A, sa⟩, lb) :: ms))).getList A = some items := by
    rw [getList_set_scope σ A0 _ A hs]; exact hl
  have hgb := scopeGet_declared sc' b ⟨.list A, sa⟩ lb hs
  have hga := scopeGet_declared_other sc' ⟨.list A, sa⟩ lb hs hab ha
  obtain ⟨cur, hcur⟩ := getElem?_of_lt hi
  have hga3 : scopeGet σ3 (A0 :: sc') a = some ⟨.list A, sa⟩ := by rw [scopeGet_set_list _ hld]; exact hga
  have hgb3 : scopeGet σ3 (A0 :: sc') b = some ⟨.list A, sa⟩ := by rw [scopeGet_set_list _ hld]; exact hgb
  have hl3 : σ3.getList A = some (listSet items i v) := getList_set_same _ hld
  refine ⟨fun rest => ?_, fun j l1 l2 l3 => ?_, fun j l1 l2 l3 l4 => ?_, ?_, hl3, fun c hc hc0 => ?_, ?_, rfl⟩
  · have hd := declare_var_stmt (n := 0) (sc := sc') lb (var_read 0 lr (scopeGet_head sc' hs ha)) hb hs hfresh
    rw [stmts_step _ hd (by omega)]
    have hst := index_assign_stmt (n := n + 2) lb2 ls
      (evalExpr_fuel_mono he ok_ne_timeout (by omega : n ≤ n + 2 + 2)) hgb (toIndex_lit n _ _ i li) hld hcur
    rw [stmts_step _ hst (by omega)]
  · exact var_index_read j l1 l2 l3 hga3 hl3 (listSet_get_same items i v hi)
  · exact refeq_vars j l1 l2 l3 l4 hga3 hgb3 (by simp [refEq])
  · rw [getScope_set_list _ hld]; exact getScope_set_same _ (getScope_lt hs)
  · rw [set_other _ _ _ hc, set_other _ _ _ hc0]
  · simp [σ3]


/-- the same when `e` has effects: whatever `e` does (`σd → σ2`: calls, other mutations, also of the list itself), as
    long as afterwards `a` and `b` still name the cell `A` and `i` is a position of it, the write goes to that one cell
    and is seen through `a` -/
theorem alias_mutation_visible_effects {n : Nat} {σ σ2 : State} {A0 : Addr} {sc' : List Addr} {ms : ScopeMap} {a b : List Char}
    {A : Addr} {sa sa2 sb2 : Option Val} {la : Loc} {items2 : List SVal} {i : Nat} {e : Expr} {v : SVal}
    (lb lr lb2 li ls : Loc)
    (hs : σ.getScope A0 = some ms) (ha : scopeLookup a ms = some (⟨.list A, sa⟩, la))
    (hb : b ≠ c!"_") (hfresh : scopeLookup b ms = none)
    (he : evalExpr n (σ.set A0 (.scope ((b, ⟨.list A, sa⟩, lb) :: ms))) (A0 :: sc') e = .ok v σ2)
    (ha2 : scopeGet σ2 (A0 :: sc') a = some ⟨.list A, sa2⟩) (hb2 : scopeGet σ2 (A0 :: sc') b = some ⟨.list A, sb2⟩)
    (hl2 : σ2.getList A = some items2) (hi : i < items2.length) :
    let σ3 := σ2.set A (.list (listSet items2 i v))
    (∀ rest, evalStmts (n + 7) σ (A0 :: sc')
        (.Declare (.mk (.Var b) lb) (.mk (.Var a) lr) ::
         .Assign (.mk (.Index (.mk (.Var b) lb2) (.mk (.Int (Int.ofNat i)) li)) ls) e :: rest) =
      evalStmts (n + 5) σ3 (A0 :: sc') rest) ∧
    (∀ j l1 l2 l3, evalExpr (j + 4) σ3 (A0 :: sc')
        (.mk (.Index (.mk (.Var a) l1) (.mk (.Int (Int.ofNat i)) l2)) l3) = .ok v σ3) ∧
    (∀ j l1 l2 l3 l4, evalExpr (j + 2) σ3 (A0 :: sc')
        (.mk (.BinaryOp .RefEq l3 (.mk (.Var a) l1) (.mk (.Var b) l2)) l4) = .ok (SVal.plain (.bool true)) σ3) ∧
    σ3.getList A = some (listSet items2 i v) ∧
    (∀ c, c ≠ A → σ3.heap[c]? = σ2.heap[c]?) ∧ σ3.heap.size = σ2.heap.size ∧ σ3.out = σ2.out := by
  intro σ3
  obtain ⟨cur, hcur⟩ := getElem?_of_lt hi
  have hga3 : scopeGet σ3 (A0 :: sc') a = some ⟨.list A, sa2⟩ := by rw [scopeGet_set_list _ hl2]; exact ha2
  have hgb3 : scopeGet σ3 (A0 :: sc') b = some ⟨.list A, sb2⟩ := by rw [scopeGet_set_list _ hl2]; exact hb2
  have hl3 : σ3.getList A = some (listSet items2 i v) := getList_set_same _ hl2
  refine ⟨fun rest => ?_, fun j l1 l2 l3 => ?_, fun j l1 l2 l3 l4 => ?_, hl3, fun c hc => set_other _ _ _ hc, ?_, rfl⟩
  · have hd := declare_var_stmt (n := 0) (sc := sc') lb (var_read 0 lr (scopeGet_head sc' hs ha)) hb hs hfresh
    rw [stmts_step _ hd (by omega)]
    have hst := index_assign_stmt (n := n + 2) lb2 ls
      (evalExpr_fuel_mono he ok_ne_timeout (by omega : n ≤ n + 2 + 2)) hb2 (toIndex_lit n _ _ i li) hl2 hcur
    rw [stmts_step _ hst (by omega)]
  · exact var_index_read j l1 l2 l3 hga3 hl3 (listSet_get_same items2 i v hi)
  · exact refeq_vars j l1 l2 l3 l4 hga3 hgb3 (by simp [refEq])
  · simp [σ3]

/-- **`b := a; b.k = e; rest`** for an object -/
theorem alias_mutation_visible_prop {n : Nat} {σ : State} {A0 : Addr} {sc' : List Addr} {ms : ScopeMap} {a b k : List Char}
    {A : Addr} {sa : Option Val} {la : Loc} {m : ObjMap} {e : Expr} {v : SVal}
    (lb lr lb2 ls : Loc)
    (hs : σ.getScope A0 = some ms) (ha : scopeLookup a ms = some (⟨.obj A, sa⟩, la))
    (hb : b ≠ c!"_") (hfresh : scopeLookup b ms = none) (hm : σ.getObj A = some m)
    (he : evalExpr n (σ.set A0 (.scope ((b, ⟨.obj A, sa⟩, lb) :: ms))) (A0 :: sc') e =
      .ok v (σ.set A0 (.scope ((b, ⟨.obj A, sa⟩, lb) :: ms)))) :
    let σ3 := (σ.set A0 (.scope ((b, ⟨.obj A, sa⟩, lb) :: ms))).set A (.obj (objInsert k v m))
    (∀ rest, evalStmts (n + 5) σ (A0 :: sc')
        (.Declare (.mk (.Var b) lb) (.mk (.Var a) lr) ::
         .Assign (.mk (.Prop (.mk (.Var b) lb2) k false) ls) e :: rest) =
      evalStmts (n + 3) σ3 (A0 :: sc') rest) ∧
    (∀ j l1 l2, evalExpr (j + 2) σ3 (A0 :: sc') (.mk (.Prop (.mk (.Var a) l1) k false) l2) =
      .ok ⟨v.v, some (.obj A)⟩ σ3) ∧
    (∀ j l1 l2 l3 l4, evalExpr (j + 2) σ3 (A0 :: sc')
        (.mk (.BinaryOp .RefEq l3 (.mk (.Var a) l1) (.mk (.Var b) l2)) l4) = .ok (SVal.plain (.bool true)) σ3) ∧
    σ3.getScope A0 = some ((b, ⟨.obj A, sa⟩, lb) :: ms) ∧ σ3.getObj A = some (objInsert k v m) ∧
    (∀ c, c ≠ A → c ≠ A0 → σ3.heap[c]? = σ.heap[c]?) ∧ σ3.heap.size = σ.heap.size ∧ σ3.out = σ.out := by
  intro σ3
  have hab : a ≠ b := ne_of_lookup ha hfresh
  have hmd : (σ.set A0 (.scope ((b, ⟨.obj A, sa⟩, lb) :: ms))).getObj A = some m := by
    rw [getObj_set_scope σ A0 _ A hs]; exact hm
  have hgb := scopeGet_declared sc' b ⟨.obj A, sa⟩ lb hs
  have hga := scopeGet_declared_other sc' ⟨.obj A, sa⟩ lb hs hab ha
  have hga3 : scopeGet σ3 (A0 :: sc') a = some ⟨.obj A, sa⟩ := by rw [scopeGet_set_obj _ hmd]; exact hga
  have hgb3 : scopeGet σ3 (A0 :: sc') b = some ⟨.obj A, sa⟩ := by rw [scopeGet_set_obj _ hmd]; exact hgb
  have hm3 : σ3.getObj A = some (objInsert k v m) := getObj_set_same _ hmd
  refine ⟨fun rest => ?_, fun j l1 l2 => ?_, fun j l1 l2 l3 l4 => ?_, ?_, hm3, fun c hc hc0 => ?_, ?_, rfl⟩
  · have hd := declare_var_stmt (n := 0) (sc := sc') lb (var_read 0 lr (scopeGet_head sc' hs ha)) hb hs hfresh
    rw [stmts_step _ hd (by omega)]
    have hst := prop_assign_stmt (n := n) (k := k) lb2 ls
      (evalExpr_fuel_mono he ok_ne_timeout (by omega : n ≤ n + 2)) hgb hmd
    rw [stmts_step _ hst (by omega)]
  · exact var_prop_read j l1 l2 hga3 hm3 (objGet_objInsert_same k v m)
  · exact refeq_vars j l1 l2 l3 l4 hga3 hgb3 (by simp [refEq])
  · rw [getScope_set_obj _ hmd]; exact getScope_set_same _ (getScope_lt hs)
  · rw [set_other _ _ _ hc, set_other _ _ _ hc0]
  · simp [σ3]

/-- **`b := a; b["k"] = e; rest`** for an object (any key expression `ke` without effects that evaluates to `k`) -/
theorem alias_mutation_visible_key {n : Nat} {σ : State} {A0 : Addr} {sc' : List Addr} {ms : ScopeMap} {a b k : List Char}
    {A : Addr} {sa : Option Val} {la : Loc} {m : ObjMap} {e ke : Expr} {v : SVal}
    (lb lr lb2 ls : Loc)
    (hs : σ.getScope A0 = some ms) (ha : scopeLookup a ms = some (⟨.obj A, sa⟩, la))
    (hb : b ≠ c!"_") (hfresh : scopeLookup b ms = none) (hm : σ.getObj A = some m)
    (he : evalExpr n (σ.set A0 (.scope ((b, ⟨.obj A, sa⟩, lb) :: ms))) (A0 :: sc') e =
      .ok v (σ.set A0 (.scope ((b, ⟨.obj A, sa⟩, lb) :: ms))))
    (hke : evalToStr (n + 1) (σ.set A0 (.scope ((b, ⟨.obj A, sa⟩, lb) :: ms))) (A0 :: sc') c!"property" ke =
      .ok k (σ.set A0 (.scope ((b, ⟨.obj A, sa⟩, lb) :: ms)))) :
    let σ3 := (σ.set A0 (.scope ((b, ⟨.obj A, sa⟩, lb) :: ms))).set A (.obj (objInsert k v m))
    (∀ rest, evalStmts (n + 5) σ (A0 :: sc')
        (.Declare (.mk (.Var b) lb) (.mk (.Var a) lr) ::
         .Assign (.mk (.Index (.mk (.Var b) lb2) ke) ls) e :: rest) =
      evalStmts (n + 3) σ3 (A0 :: sc') rest) ∧
    (∀ j l1 l2, evalExpr (j + 2) σ3 (A0 :: sc') (.mk (.Prop (.mk (.Var a) l1) k false) l2) =
      .ok ⟨v.v, some (.obj A)⟩ σ3) ∧
    (utf8Decode (utf8Encode k) = .ok k → ∀ j l1 l2 l3, evalExpr (j + 3) σ3 (A0 :: sc')
        (.mk (.Index (.mk (.Var a) l1) (.mk (.Str k none) l2)) l3) = .ok ⟨v.v, some (.obj A)⟩ σ3) ∧
    (∀ j l1 l2 l3 l4, evalExpr (j + 2) σ3 (A0 :: sc')
        (.mk (.BinaryOp .RefEq l3 (.mk (.Var a) l1) (.mk (.Var b) l2)) l4) = .ok (SVal.plain (.bool true)) σ3) ∧
    σ3.getScope A0 = some ((b, ⟨.obj A, sa⟩, lb) :: ms) ∧ σ3.getObj A = some (objInsert k v m) ∧
    (∀ c, c ≠ A → c ≠ A0 → σ3.heap[c]? = σ.heap[c]?) ∧ σ3.heap.size = σ.heap.size ∧ σ3.out = σ.out := by
  intro σ3
  have hab : a ≠ b := ne_of_lookup ha hfresh
  have hmd : (σ.set A0 (.scope ((b, ⟨.obj A, sa⟩, lb) :: ms))).getObj A = some m := by
    rw [getObj_set_scope σ A0 _ A hs]; exact hm
  have hgb := scopeGet_declared sc' b ⟨.obj A, sa⟩ lb hs
  have hga := scopeGet_declared_other sc' ⟨.obj A, sa⟩ lb hs hab ha
  have hga3 : scopeGet σ3 (A0 :: sc') a = some ⟨.obj A, sa⟩ := by rw [scopeGet_set_obj _ hmd]; exact hga
  have hgb3 : scopeGet σ3 (A0 :: sc') b = some ⟨.obj A, sa⟩ := by rw [scopeGet_set_obj _ hmd]; exact hgb
  have hm3 : σ3.getObj A = some (objInsert k v m) := getObj_set_same _ hmd
  refine ⟨fun rest => ?_, fun j l1 l2 => ?_, fun hk j l1 l2 l3 => ?_, fun j l1 l2 l3 l4 => ?_, ?_, hm3,
    fun c hc hc0 => ?_, ?_, rfl⟩
  · have hd := declare_var_stmt (n := 0) (sc := sc') lb (var_read 0 lr (scopeGet_head sc' hs ha)) hb hs hfresh
    rw [stmts_step _ hd (by omega)]
    have hst := key_assign_stmt (n := n) lb2 ls
      (evalExpr_fuel_mono he ok_ne_timeout (by omega : n ≤ n + 2)) hgb hke hmd
    rw [stmts_step _ hst (by omega)]
  · exact var_prop_read j l1 l2 hga3 hm3 (objGet_objInsert_same k v m)
  · exact var_key_read j l1 l2 l3 hk hga3 hm3 (objGet_objInsert_same k v m)
  · exact refeq_vars j l1 l2 l3 l4 hga3 hgb3 (by simp [refEq])
  · rw [getScope_set_obj _ hmd]; exact getScope_set_same _ (getScope_lt hs)
  · rw [set_other _ _ _ hc, set_other _ _ _ hc0]
  · simp [σ3]

/-! ## (3) scalars are copied -/

/-- **`b := a; b op= e; rest`** where `a` holds a scalar (null, bool, int, string) -/
theorem scalar_copy_independent {n : Nat} {σ : State} {A0 : Addr} {sc' : List Addr} {ms : ScopeMap} {a b : List Char}
    {va ve : SVal} {la : Loc} {e : Expr} {op : BinaryOp} {r : Val} {σ' : State} (lb lr lb2 ol : Loc)
    (hs : σ.getScope A0 = some ms) (ha : scopeLookup a ms = some (va, la))
    (hk : va.v.kind = .Null ∨ va.v.kind = .Bool ∨ va.v.kind = .Int ∨ va.v.kind = .Str)
    (hb : b ≠ c!"_") (hfresh : scopeLookup b ms = none)
    (he : evalExpr n (σ.set A0 (.scope ((b, va, lb) :: ms))) (A0 :: sc') e = .ok ve (σ.set A0 (.scope ((b, va, lb) :: ms))))
    (hop : applyBinOp n (σ.set A0 (.scope ((b, va, lb) :: ms))) op ol va.v ve.v = .ok r σ') :
    let σ4 := σ.set A0 (.scope ((b, SVal.plain r, lb) :: ms))
    (∀ rest, evalStmts (n + 4) σ (A0 :: sc')
        (.Declare (.mk (.Var b) lb) (.mk (.Var a) lr) :: .OpAssign (.mk (.Var b) lb2) op ol e :: rest) =
      evalStmts (n + 2) σ4 (A0 :: sc') rest) ∧
    (∀ j l, evalExpr (j + 1) σ4 (A0 :: sc') (.mk (.Var a) l) = .ok va σ4) ∧
    (∀ j l, evalExpr (j + 1) σ4 (A0 :: sc') (.mk (.Var b) l) = .ok (SVal.plain r) σ4) ∧
    (∀ c, c ≠ A0 → σ4.heap[c]? = σ.heap[c]?) ∧ σ4.heap.size = σ.heap.size ∧ σ4.out = σ.out := by
  intro σ4
  have hab : a ≠ b := ne_of_lookup ha hfresh
  have hsd : (σ.set A0 (.scope ((b, va, lb) :: ms))).getScope A0 = some ((b, va, lb) :: ms) :=
    getScope_set_same _ (getScope_lt hs)
  have hσ' : σ' = σ.set A0 (.scope ((b, va, lb) :: ms)) := applyBinOp_scalar_state hk hop
  subst hσ'
  refine ⟨fun rest => ?_, fun j l => ?_, fun j l => ?_, fun c hc => set_other _ _ _ hc, by simp [σ4], rfl⟩
  · have hd := declare_var_stmt (n := 0) (sc := sc') lb (var_read 0 lr (scopeGet_head sc' hs ha)) hb hs hfresh
    rw [stmts_step _ hd (by omega)]
    have hst := opassign_var_stmt (n := n) (sc := sc') lb2 ol
      (evalExpr_fuel_mono he ok_ne_timeout (by omega : n ≤ n + 1)) hb hsd (lookup_cons_same b va lb ms) hop hsd
    rw [setVal_head, set_set] at hst
    rw [stmts_step _ hst (by omega)]
  · exact var_read j l (scopeGet_declared_other sc' _ lb hs hab ha)
  · exact var_read j l (scopeGet_declared sc' b _ lb hs)

/-- **`b := a; b = e; rest`**: assignment re-binds `b`; whatever `a` holds (scalar or container), `a` still holds it -/
theorem copy_then_assign_independent {n : Nat} {σ : State} {A0 : Addr} {sc' : List Addr} {ms : ScopeMap} {a b : List Char}
    {va ve : SVal} {la : Loc} {e : Expr} (lb lr lb2 : Loc)
    (hs : σ.getScope A0 = some ms) (ha : scopeLookup a ms = some (va, la))
    (hb : b ≠ c!"_") (hfresh : scopeLookup b ms = none)
    (he : evalExpr n (σ.set A0 (.scope ((b, va, lb) :: ms))) (A0 :: sc') e = .ok ve (σ.set A0 (.scope ((b, va, lb) :: ms)))) :
    let σ4 := σ.set A0 (.scope ((b, ve, lb) :: ms))
    (∀ rest, evalStmts (n + 4) σ (A0 :: sc')
        (.Declare (.mk (.Var b) lb) (.mk (.Var a) lr) :: .Assign (.mk (.Var b) lb2) e :: rest) =
      evalStmts (n + 2) σ4 (A0 :: sc') rest) ∧
    (∀ j l, evalExpr (j + 1) σ4 (A0 :: sc') (.mk (.Var a) l) = .ok va σ4) ∧
    (∀ j l, evalExpr (j + 1) σ4 (A0 :: sc') (.mk (.Var b) l) = .ok ve σ4) ∧
    (∀ c, c ≠ A0 → σ4.heap[c]? = σ.heap[c]?) ∧ σ4.heap.size = σ.heap.size ∧ σ4.out = σ.out := by
  intro σ4
  have hab : a ≠ b := ne_of_lookup ha hfresh
  have hsd : (σ.set A0 (.scope ((b, va, lb) :: ms))).getScope A0 = some ((b, va, lb) :: ms) :=
    getScope_set_same _ (getScope_lt hs)
  refine ⟨fun rest => ?_, fun j l => ?_, fun j l => ?_, fun c hc => set_other _ _ _ hc, by simp [σ4], rfl⟩
  · have hd := declare_var_stmt (n := 0) (sc := sc') lb (var_read 0 lr (scopeGet_head sc' hs ha)) hb hs hfresh
    rw [stmts_step _ hd (by omega)]
    have hst := assign_var_stmt (n := n) (sc := sc') lb2
      (evalExpr_fuel_mono he ok_ne_timeout (by omega : n ≤ n + 1)) hb hsd (lookup_cons_same b va lb ms)
    rw [setVal_head, set_set] at hst
    rw [stmts_step _ hst (by omega)]
  · exact var_read j l (scopeGet_declared_other sc' _ lb hs hab ha)
  · exact var_read j l (scopeGet_declared sc' b _ lb hs)

/-- the instance `m := n; m += e` on ints: `n` keeps its value, `m` holds the sum -/
theorem int_copy_independent {n : Nat} {σ : State} {A0 : Addr} {sc' : List Addr} {ms : ScopeMap} {a b : List Char}
    {x y : Int} {sx sy : Option Val} {la : Loc} {e : Expr} (lb lr lb2 ol : Loc)
    (hs : σ.getScope A0 = some ms) (ha : scopeLookup a ms = some (⟨.int x, sx⟩, la))
    (hb : b ≠ c!"_") (hfresh : scopeLookup b ms = none)
    (he : evalExpr n (σ.set A0 (.scope ((b, ⟨.int x, sx⟩, lb) :: ms))) (A0 :: sc') e =
      .ok ⟨.int y, sy⟩ (σ.set A0 (.scope ((b, ⟨.int x, sx⟩, lb) :: ms))))
    (hr : inI64 (x + y) = true) :
    let σ4 := σ.set A0 (.scope ((b, SVal.plain (.int (x + y)), lb) :: ms))
    (∀ rest, evalStmts (n + 4) σ (A0 :: sc')
        (.Declare (.mk (.Var b) lb) (.mk (.Var a) lr) :: .OpAssign (.mk (.Var b) lb2) .Sum ol e :: rest) =
      evalStmts (n + 2) σ4 (A0 :: sc') rest) ∧
    (∀ j l, evalExpr (j + 1) σ4 (A0 :: sc') (.mk (.Var a) l) = .ok ⟨.int x, sx⟩ σ4) ∧
    (∀ j l, evalExpr (j + 1) σ4 (A0 :: sc') (.mk (.Var b) l) = .ok (SVal.plain (.int (x + y))) σ4) := by
  have h := scalar_copy_independent (r := .int (x + y)) lb lr lb2 ol hs ha (Or.inr (Or.inr (Or.inl rfl))) hb hfresh he
    (sum_ints n _ ol x y hr)
  exact ⟨h.1, h.2.1, h.2.2.1⟩

/-! ## (5) `+=` on a list re-binds, it does not mutate -/

/-- **`b := a; b += [x]; rest`** -/
theorem opassign_rebinds_not_mutates {n : Nat} {σ : State} {A0 : Addr} {sc' : List Addr} {ms : ScopeMap} {a b : List Char}
    {A : Addr} {sa : Option Val} {la : Loc} {items : List SVal} {x : Expr} {vx : SVal} (lb lr lb2 ol ll : Loc)
    (hs : σ.getScope A0 = some ms) (ha : scopeLookup a ms = some (⟨.list A, sa⟩, la))
    (hb : b ≠ c!"_") (hfresh : scopeLookup b ms = none) (hl : σ.getList A = some items)
    (hx : evalExpr n (σ.set A0 (.scope ((b, ⟨.list A, sa⟩, lb) :: ms))) (A0 :: sc') x =
      .ok vx (σ.set A0 (.scope ((b, ⟨.list A, sa⟩, lb) :: ms)))) :
    let σ4 := ((((σ.set A0 (.scope ((b, ⟨.list A, sa⟩, lb) :: ms))).alloc (.list [vx])).2.alloc
      (.list (items ++ [vx]))).2).set A0 (.scope ((b, SVal.plain (.list (σ.heap.size + 1)), lb) :: ms))
    (∀ rest, evalStmts (n + 5) σ (A0 :: sc')
        (.Declare (.mk (.Var b) lb) (.mk (.Var a) lr) ::
         .OpAssign (.mk (.Var b) lb2) .Sum ol (.mk (.List [.mk x false] false) ll) :: rest) =
      evalStmts (n + 3) σ4 (A0 :: sc') rest) ∧
    σ4.getList A = some items ∧ σ4.getList (σ.heap.size + 1) = some (items ++ [vx]) ∧
    scopeGet σ4 (A0 :: sc') a = some ⟨.list A, sa⟩ ∧
    scopeGet σ4 (A0 :: sc') b = some (SVal.plain (.list (σ.heap.size + 1))) ∧
    (∀ j l1 l2 l3 l4, evalExpr (j + 2) σ4 (A0 :: sc')
        (.mk (.BinaryOp .RefEq l3 (.mk (.Var a) l1) (.mk (.Var b) l2)) l4) = .ok (SVal.plain (.bool false)) σ4) ∧
    (∀ c, c < σ.heap.size → c ≠ A0 → σ4.heap[c]? = σ.heap[c]?) ∧ σ4.out = σ.out := by
  intro σ4
  have e4 : σ4 = ((((σ.set A0 (.scope ((b, ⟨.list A, sa⟩, lb) :: ms))).alloc (.list [vx])).2.alloc
      (.list (items ++ [vx]))).2).set A0 (.scope ((b, SVal.plain (.list (σ.heap.size + 1)), lb) :: ms)) := rfl
  clear_value σ4
  have hab : a ≠ b := ne_of_lookup ha hfresh
  generalize hσd : σ.set A0 (.scope ((b, ⟨.list A, sa⟩, lb) :: ms)) = σd at *
  have hszd : σd.heap.size = σ.heap.size := by rw [← hσd]; simp
  have hsd : σd.getScope A0 = some ((b, ⟨.list A, sa⟩, lb) :: ms) := by
    rw [← hσd]; exact getScope_set_same _ (getScope_lt hs)
  have hld : σd.getList A = some items := by rw [← hσd, getList_set_scope σ A0 _ A hs]; exact hl
  generalize hσ1 : (σd.alloc (.list [vx])).2 = σ1 at *
  have hsz1 : σ1.heap.size = σ.heap.size + 1 := by rw [← hσ1, alloc_size, hszd]
  have hs1 : σ1.getScope A0 = some ((b, ⟨.list A, sa⟩, lb) :: ms) := by rw [← hσ1]; exact getScope_alloc _ hsd
  have hl1 : σ1.getList A = some items := by rw [← hσ1]; exact getList_alloc _ hld
  have hL1 : σ1.getList σ.heap.size = some [vx] := by rw [← hσ1, ← hszd]; exact getList_alloc_new σd [vx]
  generalize hσ2 : (σ1.alloc (.list (items ++ [vx]))).2 = σ2 at *
  have hs2 : σ2.getScope A0 = some ((b, ⟨.list A, sa⟩, lb) :: ms) := by rw [← hσ2]; exact getScope_alloc _ hs1
  have hl2 : σ2.getList A = some items := by rw [← hσ2]; exact getList_alloc _ hl1
  have hN2 : σ2.getList (σ.heap.size + 1) = some (items ++ [vx]) := by
    rw [← hσ2, ← hsz1]; exact getList_alloc_new σ1 _
  have hold2 : ∀ c, c < σ.heap.size → σ2.heap[c]? = σd.heap[c]? := by
    intro c hc
    have h1 : c < σ1.heap.size := by omega
    have hd : c < σd.heap.size := by omega
    rw [← hσ2, alloc_old σ1 _ h1, ← hσ1, alloc_old σd _ hd]
  have hA : A ≠ σ.heap.size + 1 := by
    intro e
    have h := getList_lt hl
    rw [e] at h
    exact Nat.lt_irrefl _ (Nat.lt_trans (Nat.lt_succ_self _) h)
  have hl4 : σ4.getList A = some items := by rw [e4, getList_set_scope σ2 A0 _ A hs2]; exact hl2
  have hga4 : scopeGet σ4 (A0 :: sc') a = some ⟨.list A, sa⟩ := by
    rw [e4]
    exact scopeGet_hit (getScope_set_same _ (getScope_lt hs2)) (by rw [lookup_cons_other hab]; exact ha) sc'
  have hgb4 : scopeGet σ4 (A0 :: sc') b = some (SVal.plain (.list (σ.heap.size + 1))) := by
    rw [e4]
    exact scopeGet_hit (getScope_set_same _ (getScope_lt hs2)) (lookup_cons_same b _ lb ms) sc'
  refine ⟨fun rest => ?_, hl4, ?_, hga4, hgb4, fun j l1 l2 l3 l4 => ?_, fun c hc hc0 => ?_, ?_⟩
  · have hd := declare_var_stmt (n := 0) (sc := sc') lb (var_read 0 lr (scopeGet_head sc' hs ha)) hb hs hfresh
    rw [hσd] at hd
    rw [stmts_step _ hd (by omega)]
    have hlit := list1_literal ll hx
    rw [hσ1, hszd] at hlit
    have hop : applyBinOp (n + 1) σ1 .Sum ol (.list A) (.list σ.heap.size) = .ok (.list (σ.heap.size + 1)) σ2 := by
      simp only [applyBinOp, hl1, hL1]
      rw [← hσ2, ← hsz1, State.alloc]
    have hst := opassign_var_stmt (n := n + 1) (sc := sc') lb2 ol hlit hb hs1 (lookup_cons_same b _ lb ms) hop hs2
    rw [setVal_head] at hst
    rw [stmts_step _ hst (by omega), e4]
  · rw [e4, getList_set_scope σ2 A0 _ _ hs2]; exact hN2
  · exact refeq_vars j l1 l2 l3 l4 hga4 hgb4 (by simp [refEq, SVal.plain, hA])
  · rw [e4, set_other _ _ _ hc0, hold2 c hc, ← hσd, set_other _ _ _ hc0]
  · rw [e4, ← hσ2, ← hσ1, ← hσd]; rfl

/-! ## (2) a copy is a different container holding the same element values -/

/-- **`<b := copy of a>; b[i] = e; rest`**, for every statement `st` that declares `b` as a fresh copy
    (`C05P.FreshCopy`; the four forms are `copy_by_spread` `b := [a..]`, `copy_by_sum` `b := a + []`,
    `copy_by_range` `b := a[0:k]`, `copy_by_collect` `[..b] := a`): `a`'s cell and every other cell that existed are
    untouched by the mutation of `b`, `a === b` is false, and the elements are shared — position `j ≠ i` of `b` still
    reads the element value the copy put there, and where `a[j]` and `b[j]` hold the same list cell `C`,
    `b[j] === a[j]` is true. -/
theorem copy_mutation_invisible {n k : Nat} {σ σ1 : State} {A0 : Addr} {sc' : List Addr} {ms : ScopeMap} {a b : List Char}
    {A B : Addr} {sa : Option Val} {la : Loc} {items ys : List SVal} {i : Nat} {st : Stmt} {e : Expr} {v : SVal}
    (lb lb2 li ls : Loc)
    (hcopy : C05P.FreshCopy k σ A0 sc' ms st b lb B ys σ1) (hk : k ≤ n + 6)
    (hs : σ.getScope A0 = some ms) (ha : scopeLookup a ms = some (⟨.list A, sa⟩, la)) (hfresh : scopeLookup b ms = none)
    (hl : σ.getList A = some items) (hi : i < ys.length)
    (he : evalExpr n (σ1.set A0 (.scope ((b, SVal.plain (.list B), lb) :: ms))) (A0 :: sc') e =
      .ok v (σ1.set A0 (.scope ((b, SVal.plain (.list B), lb) :: ms)))) :
    let σ3 := (σ1.set A0 (.scope ((b, SVal.plain (.list B), lb) :: ms))).set B (.list (listSet ys i v))
    (∀ rest, evalStmts (n + 7) σ (A0 :: sc')
        (st :: .Assign (.mk (.Index (.mk (.Var b) lb2) (.mk (.Int (Int.ofNat i)) li)) ls) e :: rest) =
      evalStmts (n + 5) σ3 (A0 :: sc') rest) ∧
    σ3.getList A = some items ∧ σ3.getList B = some (listSet ys i v) ∧ B ≠ A ∧
    (∀ j w, items[j]? = some w → ∀ f l1 l2 l3, evalExpr (f + 4) σ3 (A0 :: sc')
        (.mk (.Index (.mk (.Var a) l1) (.mk (.Int (Int.ofNat j)) l2)) l3) = .ok w σ3) ∧
    (∀ f l1 l2 l3, evalExpr (f + 4) σ3 (A0 :: sc')
        (.mk (.Index (.mk (.Var b) l1) (.mk (.Int (Int.ofNat i)) l2)) l3) = .ok v σ3) ∧
    (∀ j w, j ≠ i → ys[j]? = some w → ∀ f l1 l2 l3, evalExpr (f + 4) σ3 (A0 :: sc')
        (.mk (.Index (.mk (.Var b) l1) (.mk (.Int (Int.ofNat j)) l2)) l3) = .ok w σ3) ∧
    (∀ f l1 l2 l3 l4, evalExpr (f + 2) σ3 (A0 :: sc')
        (.mk (.BinaryOp .RefEq l3 (.mk (.Var a) l1) (.mk (.Var b) l2)) l4) = .ok (SVal.plain (.bool false)) σ3) ∧
    (∀ j C s s', j ≠ i → items[j]? = some ⟨.list C, s⟩ → ys[j]? = some ⟨.list C, s'⟩ →
      ∀ f l1 l2 l3 l4 l5 l6 l7 l8, evalExpr (f + 5) σ3 (A0 :: sc')
        (.mk (.BinaryOp .RefEq l7
          (.mk (.Index (.mk (.Var b) l1) (.mk (.Int (Int.ofNat j)) l2)) l3)
          (.mk (.Index (.mk (.Var a) l4) (.mk (.Int (Int.ofNat j)) l5)) l6)) l8) = .ok (SVal.plain (.bool true)) σ3) ∧
    (∀ c, c < σ.heap.size → c ≠ A0 → σ3.heap[c]? = σ.heap[c]?) ∧ σ3.out = σ.out := by
  intro σ3
  have e3 : σ3 = (σ1.set A0 (.scope ((b, SVal.plain (.list B), lb) :: ms))).set B (.list (listSet ys i v)) := rfl
  clear_value σ3
  have hab : a ≠ b := ne_of_lookup ha hfresh
  have hAlt : A < σ.heap.size := getList_lt hl
  have hBA : B ≠ A := by
    intro e'
    have h := hcopy.fresh
    rw [e'] at h
    exact Nat.lt_irrefl _ (Nat.lt_of_lt_of_le hAlt h)
  have hs1 : σ1.getScope A0 = some ms := by rw [getScope_congr (hcopy.old A0 (getScope_lt hs))]; exact hs
  have hl1 : σ1.getList A = some items := by rw [getList_congr (hcopy.old A hAlt)]; exact hl
  generalize hσd : σ1.set A0 (.scope ((b, SVal.plain (.list B), lb) :: ms)) = σd at *
  have hld : σd.getList A = some items := by rw [← hσd, getList_set_scope σ1 A0 _ A hs1]; exact hl1
  have hBd : σd.getList B = some ys := by rw [← hσd, getList_set_scope σ1 A0 _ B hs1]; exact hcopy.cell
  have hgb : scopeGet σd (A0 :: sc') b = some (SVal.plain (.list B)) := by
    rw [← hσd]; exact scopeGet_declared sc' b _ lb hs1
  have hga : scopeGet σd (A0 :: sc') a = some ⟨.list A, sa⟩ := by
    rw [← hσd]; exact scopeGet_declared_other sc' _ lb hs1 hab ha
  obtain ⟨cur, hcur⟩ := getElem?_of_lt hi
  subst e3
  have hga3 : scopeGet (σd.set B (.list (listSet ys i v))) (A0 :: sc') a = some ⟨.list A, sa⟩ := by
    rw [scopeGet_set_list _ hBd]; exact hga
  have hgb3 : scopeGet (σd.set B (.list (listSet ys i v))) (A0 :: sc') b = some (SVal.plain (.list B)) := by
    rw [scopeGet_set_list _ hBd]; exact hgb
  have hB3 : (σd.set B (.list (listSet ys i v))).getList B = some (listSet ys i v) := getList_set_same _ hBd
  have hA3 : (σd.set B (.list (listSet ys i v))).getList A = some items := by
    rw [getList_set_other _ (Ne.symm hBA)]; exact hld
  have hreadA : ∀ j w, items[j]? = some w → ∀ f l1 l2 l3, evalExpr (f + 4) (σd.set B (.list (listSet ys i v))) (A0 :: sc')
      (.mk (.Index (.mk (.Var a) l1) (.mk (.Int (Int.ofNat j)) l2)) l3) = .ok w (σd.set B (.list (listSet ys i v))) :=
    fun j w hw f l1 l2 l3 => var_index_read f l1 l2 l3 hga3 hA3 hw
  have hreadB : ∀ j w, j ≠ i → ys[j]? = some w → ∀ f l1 l2 l3,
      evalExpr (f + 4) (σd.set B (.list (listSet ys i v))) (A0 :: sc')
      (.mk (.Index (.mk (.Var b) l1) (.mk (.Int (Int.ofNat j)) l2)) l3) = .ok w (σd.set B (.list (listSet ys i v))) :=
    fun j w hj hw f l1 l2 l3 => var_index_read f l1 l2 l3 hgb3 hB3 (by rw [listSet_get_other ys i j v hj]; exact hw)
  refine ⟨fun rest => ?_, hA3, hB3, hBA, hreadA, fun f l1 l2 l3 => ?_, hreadB, fun f l1 l2 l3 l4 => ?_,
    fun j C s s' hj h1 h2 f l1 l2 l3 l4 l5 l6 l7 l8 => ?_, fun c hc hc0 => ?_, ?_⟩
  · rw [stmts_step _ hcopy.run hk, hσd]
    have hst := index_assign_stmt (n := n + 2) lb2 ls
      (evalExpr_fuel_mono he ok_ne_timeout (by omega : n ≤ n + 2 + 2)) hgb (toIndex_lit n _ _ i li) hBd hcur
    rw [stmts_step _ hst (by omega)]
  · exact var_index_read f l1 l2 l3 hgb3 hB3 (listSet_get_same ys i v hi)
  · exact refeq_vars f l1 l2 l3 l4 hga3 hgb3 (by simp [refEq, SVal.plain, Ne.symm hBA])
  · exact refeq_read l7 l8 (hreadB j _ hj h2 f l1 l2 l3) (hreadA j _ h1 f l4 l5 l6) (by simp [refEq])
  · have hcB : c ≠ B := by
      intro e'
      have h := hcopy.fresh
      rw [← e'] at h
      exact Nat.lt_irrefl _ (Nat.lt_of_lt_of_le hc h)
    rw [set_other _ _ _ hcB, ← hσd, set_other _ _ _ hc0, hcopy.old c hc]
  · rw [← hσd]; exact hcopy.out

/-! ## (4) an argument is the caller's container; a parameter is the callee's variable -/

/-- **`fn f(p) { p[i] = e; }` … `f(a); rest`**: the call writes the cell `a` denotes -/
theorem argument_alias {n : Nat} {σ : State} {sc clo : List Addr} {f a p : List Char} {F A : Addr} {sa : Option Val}
    {name : Option (List Char)} {items : List SVal} {i : Nat} {e : Expr} {v : SVal} (lp lp2 li ls lf la lc : Loc)
    (hf : scopeGet σ sc f = some ⟨.func F, none⟩)
    (hfr : σ.getFunc F = some ⟨name, [.mk (.Var p) lp], false,
      [.Assign (.mk (.Index (.mk (.Var p) lp2) (.mk (.Int (Int.ofNat i)) li)) ls) e], clo⟩)
    (hp : p ≠ c!"_") (ha : scopeGet σ sc a = some ⟨.list A, sa⟩) (hl : σ.getList A = some items) (hi : i < items.length)
    (he : evalExpr n (C05P.paramEntry σ p lp ⟨.list A, sa⟩) (σ.heap.size :: clo) e =
      .ok v (C05P.paramEntry σ p lp ⟨.list A, sa⟩)) :
    let σ' := (C05P.paramEntry σ p lp ⟨.list A, sa⟩).set A (.list (listSet items i v))
    evalCall (n + 8) σ sc (.mk (.Var f) lf) [.mk (.mk (.Var a) la) false] lc = .ok (SVal.plain .null) σ' ∧
    (∀ rest, evalStmts (n + 11) σ sc
        (.Expr (.mk (.Call (.mk (.Var f) lf) [.mk (.mk (.Var a) la) false]) lc) :: rest) =
      evalStmts (n + 10) σ' sc rest) ∧
    scopeGet σ' sc a = some ⟨.list A, sa⟩ ∧ σ'.getList A = some (listSet items i v) ∧
    (∀ j l1 l2 l3, evalExpr (j + 4) σ' sc
        (.mk (.Index (.mk (.Var a) l1) (.mk (.Int (Int.ofNat i)) l2)) l3) = .ok v σ') ∧
    (∀ c, c < σ.heap.size → c ≠ A → σ'.heap[c]? = σ.heap[c]?) ∧ σ'.out = σ.out := by
  intro σ'
  have e' : σ' = (C05P.paramEntry σ p lp ⟨.list A, sa⟩).set A (.list (listSet items i v)) := rfl
  clear_value σ'
  generalize hσp : C05P.paramEntry σ p lp ⟨.list A, sa⟩ = σp at *
  have hold : ∀ c, c < σ.heap.size → σp.heap[c]? = σ.heap[c]? := fun c hc => by rw [← hσp]; exact paramEntry_old σ p lp _ hc
  have hlp : σp.getList A = some items := by rw [getList_congr (hold A (getList_lt hl))]; exact hl
  have hgp : scopeGet σp (σ.heap.size :: clo) p = some ⟨.list A, sa⟩ := by rw [← hσp]; exact paramEntry_param σ clo p lp _
  obtain ⟨cur, hcur⟩ := getElem?_of_lt hi
  have hga' : scopeGet σ' sc a = some ⟨.list A, sa⟩ := by
    rw [e', scopeGet_set_list _ hlp]; exact scopeGet_some_frame hold ha
  have hl' : σ'.getList A = some (listSet items i v) := by rw [e']; exact getList_set_same _ hlp
  have hcall : evalCall (n + 8) σ sc (.mk (.Var f) lf) [.mk (.mk (.Var a) la) false] lc = .ok (SVal.plain .null) σ' := by
    rw [call1_spec (n + 4) lf la lp lc hf hfr hp ha, hσp]
    have hst := index_assign_stmt (n := n + 2) lp2 ls
      (evalExpr_fuel_mono he ok_ne_timeout (by omega : n ≤ n + 2 + 2)) hgp (toIndex_lit n _ _ i li) hlp hcur
    rw [stmts_step _ hst (by omega), evalStmts_nil, e']
    rfl
  refine ⟨hcall, fun rest => ?_, hga', hl', fun j l1 l2 l3 => ?_, fun c hc hcA => ?_, ?_⟩
  · have hst : evalStmt (n + 10) σ sc (.Expr (.mk (.Call (.mk (.Var f) lf) [.mk (.mk (.Var a) la) false]) lc)) =
        .ok .none σ' := by rw [call_stmt, hcall]; rfl
    rw [stmts_step _ hst (Nat.le_refl _)]
  · exact var_index_read j l1 l2 l3 hga' hl' (listSet_get_same items i v hi)
  · rw [e', set_other _ _ _ hcA, hold c hc]
  · rw [e', ← hσp]; rfl

/-- **`fn g(p) { p = e; }` … `g(a); rest`**: assigning the parameter re-binds the callee's own variable — the state
    after the call is the entry state with `p ↦` the new value: no cell that existed has changed, whatever `a` holds -/
theorem argument_rebind_local {n : Nat} {σ : State} {sc clo : List Addr} {g a p : List Char} {F : Addr} {arg : SVal}
    {name : Option (List Char)} {e : Expr} {v : SVal} (lp lp2 lf la lc : Loc)
    (hf : scopeGet σ sc g = some ⟨.func F, none⟩)
    (hfr : σ.getFunc F = some ⟨name, [.mk (.Var p) lp], false, [.Assign (.mk (.Var p) lp2) e], clo⟩)
    (hp : p ≠ c!"_") (ha : scopeGet σ sc a = some arg)
    (he : evalExpr n (C05P.paramEntry σ p lp arg) (σ.heap.size :: clo) e = .ok v (C05P.paramEntry σ p lp arg)) :
    let σ' := C05P.paramEntry σ p lp v
    evalCall (n + 8) σ sc (.mk (.Var g) lf) [.mk (.mk (.Var a) la) false] lc = .ok (SVal.plain .null) σ' ∧
    (∀ rest, evalStmts (n + 11) σ sc
        (.Expr (.mk (.Call (.mk (.Var g) lf) [.mk (.mk (.Var a) la) false]) lc) :: rest) =
      evalStmts (n + 10) σ' sc rest) ∧
    scopeGet σ' sc a = some arg ∧
    (∀ c, c < σ.heap.size → σ'.heap[c]? = σ.heap[c]?) ∧
    (∀ A items, σ.getList A = some items → σ'.getList A = some items) ∧
    (∀ A m, σ.getObj A = some m → σ'.getObj A = some m) ∧ σ'.out = σ.out := by
  intro σ'
  have hold : ∀ c, c < σ.heap.size → σ'.heap[c]? = σ.heap[c]? := fun c hc => paramEntry_old σ p lp v hc
  have hcall : evalCall (n + 8) σ sc (.mk (.Var g) lf) [.mk (.mk (.Var a) la) false] lc = .ok (SVal.plain .null) σ' := by
    rw [call1_spec (n + 4) lf la lp lc hf hfr hp ha]
    have hst := assign_var_stmt (n := n) (sc := clo) lp2
      (evalExpr_fuel_mono he ok_ne_timeout (by omega : n ≤ n + 1)) hp (paramEntry_scope σ p lp arg)
      (lookup_cons_same p arg lp [])
    rw [setVal_head] at hst
    rw [stmts_step _ hst (by omega), evalStmts_nil]
    unfold C05P.paramEntry
    rw [set_set]
    rfl
  refine ⟨hcall, fun rest => ?_, scopeGet_some_frame hold ha, hold, fun A items h => ?_, fun A m h => ?_, rfl⟩
  · have hst : evalStmt (n + 10) σ sc (.Expr (.mk (.Call (.mk (.Var g) lf) [.mk (.mk (.Var a) la) false]) lc)) =
        .ok .none σ' := by rw [call_stmt, hcall]; rfl
    rw [stmts_step _ hst (Nat.le_refl _)]
  · rw [getList_congr (hold A (getList_lt h))]; exact h
  · rw [getObj_congr (hold A (getObj_lt h))]; exact h

/-! ## examples for the program-level theorems -/

def sl (a : Addr) : SVal := SVal.plain (.list a)
/-- the literal `9` -/
def e9 : Expr := .mk (.Int 9) (9, 9)
/-- `fn f(p) { p[0] = 9; }` and `fn g(p) { p = 9; }`, closed over the global scope -/
def frF : FuncRec :=
  ⟨some c!"f", [.mk (.Var c!"p") (4, 5)], false,
    [.Assign (.mk (.Index (.mk (.Var c!"p") (4, 10)) (.mk (.Int (Int.ofNat 0)) (4, 12))) (4, 11)) e9], [0]⟩
def frG : FuncRec := ⟨some c!"g", [.mk (.Var c!"p") (5, 5)], false, [.Assign (.mk (.Var c!"p") (5, 10)) e9], [0]⟩
/-- scope 0: `a ↦ list 1`, `o ↦ object 3`, `n ↦ 7`, `f ↦ func 4`, `g ↦ func 5`; list 1 = `[list 2, 5]` (its first element
    is itself a list), list 2 = `[1]`, object 3 = `{"k": 1}` -/
def msP : ScopeMap :=
  [(c!"a", sl 1, (1, 0)), (c!"o", SVal.plain (.obj 3), (2, 0)), (c!"n", sv 7, (3, 0)),
   (c!"f", SVal.plain (.func 4), (4, 3)), (c!"g", SVal.plain (.func 5), (5, 3))]
def σP : State :=
  ⟨#[.scope msP, .list [sl 2, sv 5], .list [sv 1], .obj [(c!"k", sv 1)], .func frF, .func frG], []⟩

theorem e9_pure (n : Nat) (σ : State) (sc : List Addr) : evalExpr (n + 1) σ sc e9 = .ok (sv 9) σ := by
  unfold e9; rw [evalExpr]; rfl

/-- `d := a; d[1] = 9;` in `σP`: cell 1 becomes `[list 2, 9]`, the scope cell gets `d ↦ list 1` -/
example :
    evalStmts 8 σP [0]
      [.Declare (.mk (.Var c!"d") (6, 0)) (.mk (.Var c!"a") (6, 5)),
       .Assign (.mk (.Index (.mk (.Var c!"d") (7, 0)) (.mk (.Int (Int.ofNat 1)) (7, 2))) (7, 1)) e9] =
      evalStmts 6 ((σP.set 0 (.scope ((c!"d", sl 1, (6, 0)) :: msP))).set 1 (.list [sl 2, sv 9])) [0] [] :=
  (alias_mutation_visible (n := 1) (σ := σP) (sc' := []) (ms := msP) (a := c!"a") (b := c!"d") (A := 1) (sa := none)
    (la := (1, 0)) (items := [sl 2, sv 5]) (i := 1) (e := e9) (v := sv 9) (6, 0) (6, 5) (7, 0) (7, 2) (7, 1)
    (by rfl) (by decide) (by decide) (by decide) (by rfl) (by decide) (e9_pure 0 _ _)).1 []

/-- `d := a; d[1] = [];` in `σP`: the right-hand side allocates (cell 6) before the write -/
example :
    evalStmts 9 σP [0]
      [.Declare (.mk (.Var c!"d") (6, 0)) (.mk (.Var c!"a") (6, 5)),
       .Assign (.mk (.Index (.mk (.Var c!"d") (7, 0)) (.mk (.Int (Int.ofNat 1)) (7, 2))) (7, 1)) (.mk (.List [] false) (7, 7))] =
      evalStmts 7 (((σP.set 0 (.scope ((c!"d", sl 1, (6, 0)) :: msP))).alloc (.list [])).2.set 1 (.list [sl 2, sl 6])) [0] [] :=
  (alias_mutation_visible_effects (n := 2) (σ := σP) (sc' := []) (ms := msP) (a := c!"a") (b := c!"d") (A := 1) (sa := none)
    (σ2 := ((σP.set 0 (.scope ((c!"d", sl 1, (6, 0)) :: msP))).alloc (.list [])).2) (sa2 := none) (sb2 := none)
    (la := (1, 0)) (items2 := [sl 2, sv 5]) (i := 1) (v := sl 6) (6, 0) (6, 5) (7, 0) (7, 2) (7, 1)
    (by rfl) (by decide) (by decide) (by decide) (by with_unfolding_all rfl) (by rfl) (by rfl) (by rfl) (by decide)).1 []

/-- `p := o; p.k = 9;` and `p := o; p["j"] = 9;` in `σP` -/
example :
    evalStmts 6 σP [0]
      [.Declare (.mk (.Var c!"p") (6, 0)) (.mk (.Var c!"o") (6, 5)),
       .Assign (.mk (.Prop (.mk (.Var c!"p") (7, 0)) c!"k" false) (7, 1)) e9] =
      evalStmts 4 ((σP.set 0 (.scope ((c!"p", SVal.plain (.obj 3), (6, 0)) :: msP))).set 3 (.obj [(c!"k", sv 9)])) [0] [] :=
  (alias_mutation_visible_prop (n := 1) (σ := σP) (sc' := []) (ms := msP) (a := c!"o") (b := c!"p") (k := c!"k") (A := 3)
    (sa := none) (la := (2, 0)) (m := [(c!"k", sv 1)]) (e := e9) (v := sv 9) (6, 0) (6, 5) (7, 0) (7, 1)
    (by rfl) (by decide) (by decide) (by decide) (by rfl) (e9_pure 0 _ _)).1 []

example :
    evalStmts 6 σP [0]
      [.Declare (.mk (.Var c!"p") (6, 0)) (.mk (.Var c!"o") (6, 5)),
       .Assign (.mk (.Index (.mk (.Var c!"p") (7, 0)) (.mk (.Str c!"j" none) (7, 2))) (7, 1)) e9] =
      evalStmts 4 ((σP.set 0 (.scope ((c!"p", SVal.plain (.obj 3), (6, 0)) :: msP))).set 3
        (.obj [(c!"j", sv 9), (c!"k", sv 1)])) [0] [] :=
  (alias_mutation_visible_key (n := 1) (σ := σP) (sc' := []) (ms := msP) (a := c!"o") (b := c!"p") (k := c!"j") (A := 3)
    (sa := none) (la := (2, 0)) (m := [(c!"k", sv 1)]) (e := e9) (ke := .mk (.Str c!"j" none) (7, 2)) (v := sv 9)
    (6, 0) (6, 5) (7, 0) (7, 1)
    (by rfl) (by decide) (by decide) (by decide) (by rfl) (e9_pure 0 _ _)
    (toStr_lit 0 _ _ _ c!"j" (7, 2) (by rfl))).1 []

/-- `d := [a..]; d[1] = 9;` (and the three other copying forms) in `σP`: the new cell 6 is `[list 2, 9]`, cell 1 is
    untouched, and `d[0] === a[0]` — the shared inner list, cell 2 — is true -/
example :
    let σ3 := ((σP.alloc (.list [sl 2, sv 5])).2.set 0 (.scope ((c!"d", sl 6, (6, 0)) :: msP))).set 6 (.list [sl 2, sv 9])
    evalStmts 8 σP [0]
      [.Declare (.mk (.Var c!"d") (6, 0)) (.mk (.List [.mk (.mk (.Var c!"a") (6, 6)) true] false) (6, 5)),
       .Assign (.mk (.Index (.mk (.Var c!"d") (7, 0)) (.mk (.Int (Int.ofNat 1)) (7, 2))) (7, 1)) e9] =
      evalStmts 6 σ3 [0] [] ∧
    σ3.getList 1 = some [sl 2, sv 5] ∧
    evalExpr 5 σ3 [0]
      (.mk (.BinaryOp .RefEq (8, 5)
        (.mk (.Index (.mk (.Var c!"d") (8, 0)) (.mk (.Int (Int.ofNat 0)) (8, 2))) (8, 1))
        (.mk (.Index (.mk (.Var c!"a") (8, 9)) (.mk (.Int (Int.ofNat 0)) (8, 11))) (8, 10))) (8, 5)) =
      .ok (SVal.plain (.bool true)) σ3 := by
  have h := copy_mutation_invisible (n := 1) (a := c!"a") (A := 1) (sa := none) (la := (1, 0)) (i := 1) (e := e9) (v := sv 9)
    (6, 0) (7, 0) (7, 2) (7, 1)
    (copy_by_spread (σ := σP) (A0 := 0) (sc' := []) (ms := msP) (a := c!"a") (b := c!"d") (A := 1) (s := none)
      (items := [sl 2, sv 5]) 0 (6, 0) (6, 6) (6, 5) (by rfl) (by rfl) (by rfl) (by decide) (by decide))
    (by decide) (by rfl) (by decide) (by decide) (by rfl) (by decide) (e9_pure 0 _ _)
  exact ⟨h.1 [], h.2.1, h.2.2.2.2.2.2.2.2.1 0 2 none none (by decide) (by rfl) (by rfl) 0 _ _ _ _ _ _ _ _⟩

example : C05P.FreshCopy 4 σP 0 [] msP
    (.Declare (.mk (.Var c!"d") (6, 0)) (.mk (.BinaryOp .Sum (6, 7) (.mk (.Var c!"a") (6, 5)) (.mk (.List [] false) (6, 9))) (6, 7)))
    c!"d" (6, 0) 7 [sl 2, sv 5] ((σP.alloc (.list [])).2.alloc (.list [sl 2, sv 5])).2 :=
  copy_by_sum (a := c!"a") (A := 1) (s := none) 0 (6, 0) (6, 5) (6, 7) (6, 9) (6, 7) (by rfl) (by rfl) (by rfl)
    (by decide) (by decide)

example : C05P.FreshCopy 6 σP 0 [] msP
    (.Declare (.mk (.Var c!"d") (6, 0)) (.mk (.RangeIndex (.mk (.Var c!"a") (6, 5)) (some (.mk (.Int (Int.ofNat 0)) (6, 7)))
      (some (.mk (.Int (Int.ofNat 2)) (6, 9)))) (6, 6)))
    c!"d" (6, 0) 6 [sl 2, sv 5] (σP.alloc (.list [sl 2, sv 5])).2 :=
  copy_by_range (a := c!"a") (A := 1) (s := none) (items := [sl 2, sv 5]) 0 2 (6, 0) (6, 5) (6, 7) (6, 9) (6, 6)
    (by rfl) (by rfl) (by rfl) (by decide) (by decide) (by decide)

example : C05P.FreshCopy 5 σP 0 [] msP
    (.Declare (.mk (.List [.mk (.mk (.Var c!"d") (6, 3)) false] true) (6, 0)) (.mk (.Var c!"a") (6, 10)))
    c!"d" (6, 3) 6 [sl 2, sv 5] (σP.alloc (.list [sl 2, sv 5])).2 :=
  copy_by_collect (a := c!"a") (A := 1) (s := none) 0 (6, 3) (6, 10) (6, 0) (by rfl) (by rfl) (by rfl)
    (by decide) (by decide)

/-- `m := n; m += 9;` in `σP`: `n` still reads 7, `m` reads 16 -/
example :
    let σ4 := σP.set 0 (.scope ((c!"m", sv 16, (6, 0)) :: msP))
    evalStmts 5 σP [0]
      [.Declare (.mk (.Var c!"m") (6, 0)) (.mk (.Var c!"n") (6, 5)),
       .OpAssign (.mk (.Var c!"m") (7, 0)) .Sum (7, 2) e9] = evalStmts 3 σ4 [0] [] ∧
    evalExpr 1 σ4 [0] (.mk (.Var c!"n") (8, 0)) = .ok (sv 7) σ4 := by
  have h := int_copy_independent (n := 1) (σ := σP) (A0 := 0) (sc' := []) (ms := msP) (a := c!"n") (b := c!"m") (x := 7) (y := 9)
    (sx := none) (sy := none) (la := (3, 0)) (e := e9) (6, 0) (6, 5) (7, 0) (7, 2)
    (by rfl) (by decide) (by decide) (by decide) (e9_pure 0 _ _) (by decide)
  exact ⟨h.1 [], h.2.1 0 _⟩

/-- `m := n; m = 9;` -/
example :
    evalStmts 5 σP [0]
      [.Declare (.mk (.Var c!"m") (6, 0)) (.mk (.Var c!"n") (6, 5)), .Assign (.mk (.Var c!"m") (7, 0)) e9] =
      evalStmts 3 (σP.set 0 (.scope ((c!"m", sv 9, (6, 0)) :: msP))) [0] [] :=
  (copy_then_assign_independent (n := 1) (σ := σP) (sc' := []) (ms := msP) (a := c!"n") (b := c!"m") (va := sv 7)
    (ve := sv 9) (la := (3, 0)) (e := e9) (6, 0) (6, 5) (7, 0)
    (by rfl) (by decide) (by decide) (by decide) (e9_pure 0 _ _)).1 []

/-- `d := a; d += [9];` in `σP`: cell 1 is untouched, `d` is re-bound to the new cell 7 = `[list 2, 5, 9]` -/
example :
    let σ4 := ((((σP.set 0 (.scope ((c!"d", sl 1, (6, 0)) :: msP))).alloc (.list [sv 9])).2.alloc
      (.list [sl 2, sv 5, sv 9])).2).set 0 (.scope ((c!"d", sl 7, (6, 0)) :: msP))
    evalStmts 6 σP [0]
      [.Declare (.mk (.Var c!"d") (6, 0)) (.mk (.Var c!"a") (6, 5)),
       .OpAssign (.mk (.Var c!"d") (7, 0)) .Sum (7, 2) (.mk (.List [.mk e9 false] false) (7, 5))] =
      evalStmts 4 σ4 [0] [] ∧ σ4.getList 1 = some [sl 2, sv 5] := by
  have h := opassign_rebinds_not_mutates (n := 1) (σ := σP) (A0 := 0) (sc' := []) (ms := msP) (a := c!"a") (b := c!"d") (A := 1)
    (sa := none) (la := (1, 0)) (items := [sl 2, sv 5]) (x := e9) (vx := sv 9) (6, 0) (6, 5) (7, 0) (7, 2) (7, 5)
    (by rfl) (by decide) (by decide) (by decide) (by rfl) (e9_pure 0 _ _)
  exact ⟨h.1 [], h.2.1⟩

/-- `f(a);` with `fn f(p) { p[0] = 9; }` in `σP`: cell 1 becomes `[9, 5]`; `g(a);` with `fn g(p) { p = 9; }`: no cell that
    existed changes -/
example :
    evalCall 9 σP [0] (.mk (.Var c!"f") (6, 0)) [.mk (.mk (.Var c!"a") (6, 2)) false] (6, 1) =
      .ok (SVal.plain .null) ((C05P.paramEntry σP c!"p" (4, 5) (sl 1)).set 1 (.list [sv 9, sv 5])) :=
  (argument_alias (n := 1) (σ := σP) (sc := [0]) (clo := [0]) (f := c!"f") (a := c!"a") (p := c!"p") (F := 4) (A := 1)
    (sa := none) (name := some c!"f") (items := [sl 2, sv 5]) (i := 0) (e := e9) (v := sv 9)
    (4, 5) (4, 10) (4, 12) (4, 11) (6, 0) (6, 2) (6, 1)
    (by rfl) (by rfl) (by decide) (by rfl) (by rfl) (by decide) (e9_pure 0 _ _)).1

example :
    evalCall 9 σP [0] (.mk (.Var c!"g") (6, 0)) [.mk (.mk (.Var c!"a") (6, 2)) false] (6, 1) =
      .ok (SVal.plain .null) (C05P.paramEntry σP c!"p" (5, 5) (sv 9)) ∧
    (C05P.paramEntry σP c!"p" (5, 5) (sv 9)).getList 1 = some [sl 2, sv 5] := by
  have h := argument_rebind_local (n := 1) (σ := σP) (sc := [0]) (clo := [0]) (g := c!"g") (a := c!"a") (p := c!"p") (F := 5)
    (arg := sl 1) (name := some c!"g") (e := e9) (v := sv 9) (5, 5) (5, 10) (6, 0) (6, 2) (6, 1)
    (by rfl) (by rfl) (by decide) (by rfl) (e9_pure 0 _ _)
  exact ⟨h.1, h.2.2.2.2.1 1 _ (by rfl)⟩

/-! ### the same through the whole pipeline (`run`: lex, parse, evaluate) -/

/-- (1) a mutation through an alias is seen through the other name, for lists and objects -/
example : (run 100 c!"t.sd" c!"a := [1, 2];\nb := a;\nb[0] = 9;\nprint(a[0]);\nprint(a === b);\n").out =
    [c!"9", c!"true"] := by decide +kernel

example : (run 100 c!"t.sd"
    c!"o := {\"k\": 1};\np := o;\np.k = 2;\nprint(o.k);\np[\"j\"] = 3;\nprint(o[\"j\"]);\nprint(o === p);\n").out =
    [c!"2", c!"3", c!"true"] := by decide +kernel

/-- (2) the four copying forms give a different container … -/
example : (run 100 c!"t.sd" c!"a := [1, 2];\nc := [a..];\nc[1] = 7;\nprint(a[1]);\nprint(a === c);\n").out =
    [c!"2", c!"false"] := by decide +kernel
example : (run 100 c!"t.sd" c!"a := [1, 2];\nc := a + [];\nc[1] = 7;\nprint(a[1]);\nprint(a === c);\n").out =
    [c!"2", c!"false"] := by decide +kernel
example : (run 100 c!"t.sd" c!"a := [1, 2];\nc := a[0:2];\nc[1] = 7;\nprint(a[1]);\nprint(a === c);\n").out =
    [c!"2", c!"false"] := by decide +kernel
example : (run 100 c!"t.sd" c!"a := [1, 2];\n[..c] := a;\nc[1] = 7;\nprint(a[1]);\nprint(a === c);\n").out =
    [c!"2", c!"false"] := by decide +kernel

/-- … that shares the elements: the inner list is the same cell -/
example : (run 100 c!"t.sd"
    c!"a := [[1], 2];\nc := [a..];\nc[1] = 7;\nprint(c[0] === a[0]);\nc[0][0] = 5;\nprint(a[0][0]);\n").out =
    [c!"true", c!"5"] := by decide +kernel

/-- (3) scalars are copied -/
example : (run 100 c!"t.sd"
    c!"n := 7;\nm := n;\nm += 1;\nprint(n);\nprint(m);\ns := \"x\";\nt := s;\nt += \"y\";\nprint(s);\nt = \"z\";\nprint(s);\n").out =
    [c!"7", c!"8", c!"x", c!"x"] := by decide +kernel

/-- (4) a parameter assignment is local, a mutation through the parameter is not -/
example : (run 100 c!"t.sd"
    c!"fn f(p) { p[0] = 9; }\nfn g(p) { p = [9]; }\na := [1, 2];\ng(a);\nprint(a[0]);\nf(a);\nprint(a[0]);\n").out =
    [c!"1", c!"9"] := by decide +kernel

/-- (5) `+=` on a list re-binds -/
example : (run 100 c!"t.sd" c!"a := [1, 2];\nb := a;\nb += [3];\nprint(a === b);\nprint(b[2]);\nprint(a == [1, 2]);\n").out =
    [c!"false", c!"3", c!"true"] := by decide +kernel

end Seed.C05
