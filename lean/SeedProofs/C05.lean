/-
  C05 — containers are shared by reference; building operations return fresh ones; scalars are immutable.

  A container value is an address into the heap.  Aliasing sites store the `SVal` they are given (same address);
  an update rewrites the one cell at that address (frame: every other cell is kept), so it is seen through every
  alias and through nothing else; `===` is equality of addresses; every building operation allocates at
  `heap.size`, an address no existing value can hold, and copies the operands' element `SVal`s (sharing the
  elements, not the identity).  Scalars are not addresses: no heap update can change what a variable holding a
  scalar reads.
-/
import SeedProofs.Lemmas.C05Heap
namespace Seed.C05
open Seed ScopeL HeapL

def sv (n : Int) : SVal := SVal.plain (.int n)
/-- cell 0 = scope `{a ↦ list@1, b ↦ list@1, c ↦ list@2, n ↦ 7, m ↦ 7}`, cells 1, 2 = lists, cell 3 = object `{"k": list@1}` -/
def σ₀ : State :=
  ⟨#[.scope [(c!"a", SVal.plain (.list 1), (1, 0)), (c!"b", SVal.plain (.list 1), (2, 0)), (c!"c", SVal.plain (.list 2), (3, 0)),
             (c!"n", sv 7, (4, 0)), (c!"m", sv 7, (5, 0))],
     .list [sv 1, sv 2], .list [sv 1, sv 2], .obj [(c!"k", SVal.plain (.list 1))]], []⟩

/-! ### identity -/

/-- `===` on containers is equality of addresses, and is defined only on containers and functions -/
theorem refEq_iff_addr (a b : Addr) :
    refEq (.list a) (.list b) = some (decide (a = b)) ∧ refEq (.obj a) (.obj b) = some (decide (a = b)) ∧
    refEq (.func a) (.func b) = some (decide (a = b)) := by
  have e : (a == b) = decide (a = b) := by
    by_cases h : a = b
    · subst h; simp
    · simp [h]
  refine ⟨?_, ?_, ?_⟩ <;> simp only [refEq, e]

/-- `===` is true exactly between two copies of the same reference -/
theorem refEq_true_iff (u v : Val) : refEq u v = some true ↔ u = v ∧ (refEq u v).isSome := by
  cases u <;> cases v <;> simp [refEq]

example : refEq (.list 1) (.list 1) = some true ∧ refEq (.list 1) (.list 2) = some false := by decide

/-- the operator itself: no state change, a bool that is address equality (and its negation for `!==`) -/
theorem refEq_op (fuel : Nat) (σ : State) (loc : Loc) (a b : Addr) :
    applyBinOp fuel σ .RefEq loc (.list a) (.list b) = .ok (.bool (a == b)) σ ∧
    applyBinOp fuel σ .RefNe loc (.list a) (.list b) = .ok (.bool (!(a == b))) σ ∧
    applyBinOp fuel σ .RefEq loc (.obj a) (.obj b) = .ok (.bool (a == b)) σ ∧
    applyBinOp fuel σ .RefNe loc (.obj a) (.obj b) = .ok (.bool (!(a == b))) σ := by
  refine ⟨?_, ?_, ?_, ?_⟩ <;> simp [applyBinOp, refEq]

/-- scalars have no identity: `===` on them is a type error, not a comparison -/
theorem refEq_scalars (u v : Val) (hu : u.kind = .Null ∨ u.kind = .Bool ∨ u.kind = .Int ∨ u.kind = .Str) : refEq u v = none := by
  cases u <;> simp [Val.kind] at hu <;> cases v <;> rfl

example : (Val.int 3).kind = .Null ∨ (Val.int 3).kind = .Bool ∨ (Val.int 3).kind = .Int ∨ (Val.int 3).kind = .Str := by decide

/-! ### fresh cells -/

/-- allocation returns the next free address — one that held nothing before, so no existing value refers to
    it — stores the cell there and preserves every existing cell -/
theorem alloc_fresh (σ : State) (c : Cell) :
    (σ.alloc c).1 = σ.heap.size ∧ σ.heap[σ.heap.size]? = none ∧ (σ.alloc c).2.heap[σ.heap.size]? = some c ∧
    (∀ b, b < σ.heap.size → (σ.alloc c).2.heap[b]? = σ.heap[b]?) ∧ (σ.alloc c).2.heap.size = σ.heap.size + 1 ∧
    (σ.alloc c).2.out = σ.out :=
  ⟨rfl, by simp, alloc_new σ c, fun _ hb => alloc_old σ c hb, alloc_size σ c, rfl⟩

/-- the fresh address differs from the address of every live container -/
theorem fresh_ne_live (σ : State) (c : Cell) (b : Addr) (xs : List SVal) (h : σ.getList b = some xs) : (σ.alloc c).1 ≠ b := by
  intro e
  have := getList_lt h
  rw [← e] at this
  exact Nat.lt_irrefl _ this

example : σ₀.getList 1 = some [sv 1, sv 2] := by decide

/-! ### updates: seen through every alias and through nothing else -/

/-- overwriting the cell at `a`: reading at `a` gives the new contents — whichever copy of the reference is used,
    since all copies are the number `a` — and every other address keeps its cell; nothing is allocated or printed -/
theorem set_frame (σ : State) (a : Addr) (c : Cell) (h : a < σ.heap.size) :
    (σ.set a c).heap[a]? = some c ∧ (∀ b, b ≠ a → (σ.set a c).heap[b]? = σ.heap[b]?) ∧
    (σ.set a c).heap.size = σ.heap.size ∧ (σ.set a c).out = σ.out :=
  ⟨set_same σ a c h, fun _ hb => set_other σ a c hb, set_size σ a c, rfl⟩

/-- element update `xs[i] = v` (the state change made by `bindNext` on an index target): the cell at `a` holds
    the list with position `i` replaced, every other list, object, function and scope is unchanged -/
theorem update_frame_list (σ : State) (a : Addr) (items : List SVal) (i : Nat) (v : SVal) (h : σ.getList a = some items) :
    let σ' := σ.set a (.list (listSet items i v))
    σ'.getList a = some (listSet items i v) ∧
    (∀ b, b ≠ a → σ'.getList b = σ.getList b ∧ σ'.getObj b = σ.getObj b ∧ σ'.getFunc b = σ.getFunc b) ∧
    (∀ b, σ'.getScope b = σ.getScope b) := by
  refine ⟨getList_heap.mpr (set_same σ a _ (getList_lt h)), fun b hb => ?_, fun b => ?_⟩
  · have := set_other σ a (.list (listSet items i v)) hb
    exact ⟨getList_congr this, getObj_congr this, getFunc_congr this⟩
  · exact getScope_set_nonscope σ a _ b (by rw [getScope_none_of_getList h]) (by intro m e; cases e)

/-- `listSet` replaces position `i` and nothing else -/
theorem listSet_spec (xs : List SVal) (i : Nat) (v : SVal) :
    (listSet xs i v).length = xs.length ∧ (i < xs.length → (listSet xs i v)[i]? = some v) ∧
    ∀ j, j ≠ i → (listSet xs i v)[j]? = xs[j]? :=
  ⟨listSet_length xs i v, listSet_get_same xs i v, fun j hj => listSet_get_other xs i j v hj⟩

example : listSet [sv 1, sv 2] 1 (sv 9) = [sv 1, sv 9] := by decide

/-- property update `o.k = v` / `o["k"] = v`: same frame for the object cell -/
theorem update_frame_obj (σ : State) (a : Addr) (props : ObjMap) (k : List Char) (v : SVal) (h : σ.getObj a = some props) :
    let σ' := σ.set a (.obj (objInsert k v props))
    σ'.getObj a = some (objInsert k v props) ∧
    (∀ b, b ≠ a → σ'.getList b = σ.getList b ∧ σ'.getObj b = σ.getObj b ∧ σ'.getFunc b = σ.getFunc b) ∧
    (∀ b, σ'.getScope b = σ.getScope b) := by
  refine ⟨getObj_heap.mpr (set_same σ a _ (getObj_lt h)), fun b hb => ?_, fun b => ?_⟩
  · have := set_other σ a (.obj (objInsert k v props)) hb
    exact ⟨getList_congr this, getObj_congr this, getFunc_congr this⟩
  · exact getScope_set_nonscope σ a _ b (by rw [getScope_none_of_getObj h]) (by intro m e; cases e)

example : σ₀.getObj 3 = some [(c!"k", SVal.plain (.list 1))] := by decide

/-- the whole statement `xs[i] = e` for a variable target, through the evaluator: given the value of the
    right-hand side, the list `x` refers to and a valid index, the result state is the one-cell update above -/
theorem index_assign_updates_cell (n : Nat) (σ : State) (sc : List Addr) (names : List (List Char)) (x : List Char) (lx li loc : Loc)
    (i : Int) (a : Addr) (src : Option Val) (items : List SVal) (cur rhs : SVal)
    (hx : scopeGet σ sc x = some ⟨.list a, src⟩) (hl : σ.getList a = some items) (hi : 0 ≤ i)
    (hc : items[i.toNat]? = some cur) :
    bindNext (n + 5) σ sc names (.mk (.Index (.mk (.Var x) lx) (.mk (.Int i) li)) loc) rhs none false =
      .ok names (σ.set a (.list (listSet items i.toNat rhs))) := by
  rw [bindNext.eq_def]; simp only
  rw [evalExpr.eq_def]; simp only [hx, Res.bind]
  rw [evalToIndex.eq_def]; simp only
  rw [evalToInt.eq_def]; simp only
  rw [evalExpr.eq_def]; simp only [Res.bind, SVal.plain, Int.not_lt.mpr hi, if_false, hl, hc, opAssignValue]

example : scopeGet σ₀ [0] c!"a" = some ⟨.list 1, none⟩ ∧ σ₀.getList 1 = some [sv 1, sv 2] ∧ (0 : Int) ≤ 1 ∧
    [sv 1, sv 2][(1 : Int).toNat]? = some (sv 2) := by decide

/-- … hence `a[1] = 9` in `σ₀` is seen through the alias `b` (same address), through the object property that
    holds the same list, and not through `c`, an equal but distinct list -/
example :
    let σ' := σ₀.set 1 (.list (listSet [sv 1, sv 2] 1 (sv 9)))
    scopeGet σ' [0] c!"b" = some ⟨.list 1, none⟩ ∧ σ'.getList 1 = some [sv 1, sv 9] ∧
    σ'.getObj 3 = some [(c!"k", SVal.plain (.list 1))] ∧ σ'.getList 2 = some [sv 1, sv 2] := by decide

/-! ### aliasing sites keep the address -/

/-- declaration and assignment store the `SVal` they are given, and reading the variable returns that same
    `SVal` (same address): `b := a` makes `b` the same container as `a` -/
theorem alias_by_declare {σ σ' : State} {top : Addr} {sc : List Addr} {x : List Char} {loc l : Loc} {v : SVal} (n : Nat)
    (h : scopeDeclare σ (top :: sc) x loc v = .ok σ') :
    evalExpr (n + 1) σ' (top :: sc) (.mk (.Var x) l) = .ok v σ' := by
  obtain ⟨m, h1, _, rfl⟩ := scopeDeclare_ok_iff.mp h
  rw [evalExpr]
  simp only [scopeGet_hit (getScope_set_same _ (getScope_lt h1)) (lookup_cons_same x v loc m) sc]

theorem alias_by_assign {σ σ' : State} {sc : List Addr} {x : List Char} {l : Loc} {v : SVal} (n : Nat)
    (h : scopeAssign σ sc x v = some σ') :
    evalExpr (n + 1) σ' sc (.mk (.Var x) l) = .ok v σ' := by
  obtain ⟨pre, a, post, m, w, l', rfl, hs, h1, h2, rfl⟩ := scopeAssign_some_iff.mp h
  have hs' : Skips (σ.set a (.scope (scopeSetVal x v m))) pre x := by
    intro b hb
    obtain ⟨mb, hb1, hb2⟩ := hs b hb
    have : b ≠ a := by rintro rfl; rw [h1] at hb1; cases hb1; rw [h2] at hb2; cases hb2
    exact ⟨mb, by rw [getScope_set_other _ this]; exact hb1, hb2⟩
  rw [evalExpr]
  simp only [scopeGet_skip hs', scopeGet_hit (getScope_set_same _ (getScope_lt h1)) (lookup_setVal_same h2) post]

example : ∃ σ', scopeDeclare σ₀ [0] c!"d" (5, 0) (SVal.plain (.list 2)) = .ok σ' := ⟨_, rfl⟩
example : ∃ σ', scopeAssign σ₀ [0] c!"c" (SVal.plain (.list 1)) = some σ' := ⟨_, rfl⟩

/-- a list literal stores, for a plain item, the very `SVal` the item evaluated to (so `[a]` holds `a` itself) … -/
theorem alias_by_list_item (n : Nat) (σ σ1 : State) (sc : List Addr) (e : Expr) (r : List ListItem) (acc : List SVal) (v : SVal)
    (he : evalExpr n σ sc e = .ok v σ1) :
    evalListItems (n + 1) σ sc (.mk e false :: r) acc = evalListItems n σ1 sc r (acc ++ [v]) := by
  rw [evalListItems]; simp only [he, Res.bind, Bool.not_false]; rfl

/-- … and for a spread item the element `SVal`s of the operand, not the operand: elements are shared, identity is not -/
theorem spread_copies_elements (n : Nat) (σ σ1 : State) (sc : List Addr) (e : Expr) (r : List ListItem) (acc xs : List SVal)
    (a : Addr) (s : Option Val) (he : evalExpr n σ sc e = .ok ⟨.list a, s⟩ σ1) (hl : σ1.getList a = some xs) :
    evalListItems (n + 1) σ sc (.mk e true :: r) acc = evalListItems n σ1 sc r (acc ++ xs) := by
  rw [evalListItems]; simp only [he, Res.bind, Bool.not_true, hl]; rfl

example : evalExpr 1 σ₀ [0] (.mk (.Var c!"a") (1, 1)) = .ok ⟨.list 1, none⟩ σ₀ := by rw [evalExpr]; rfl

/-- argument passing: the parameters are paired with the argument `SVal`s themselves (`C04.call_factors`:
    `bindings := fr.args.zip argVals`), and `return e` hands back the `SVal` of `e` -/
theorem alias_by_return (n : Nat) (σ : State) (sc : List Addr) (l : Loc) (e : Expr) :
    evalStmt (n + 1) σ sc (.Return l e) = (evalExpr n σ sc e).bind fun v σ1 => .ok (.ret v l) σ1 := by
  rw [evalStmt]

/-- a closure stores addresses of scope cells, never a copy of their contents (`C04.closure_shares_expr`), and
    reading a captured variable is `scopeGet` through those cells: it returns the stored reference -/
theorem alias_by_capture (n : Nat) (σ : State) (closure : List Addr) (x : List Char) (l : Loc) (v : SVal)
    (h : scopeGet σ closure x = some v) (fresh : Addr) (hf : σ.getScope fresh = some []) :
    evalExpr (n + 1) σ (fresh :: closure) (.mk (.Var x) l) = .ok v σ := by
  rw [evalExpr]; simp only [scopeGet_cons, hf, scopeLookup, h]

/-! ### building operations return a new container sharing the elements -/

/-- `xs + ys`: a new cell at `heap.size` (≠ both operands) holding exactly the operands' element values; the
    operands' cells are unchanged -/
theorem sum_fresh (fuel : Nat) (σ : State) (loc : Loc) (x y : Addr) (xs ys : List SVal)
    (hx : σ.getList x = some xs) (hy : σ.getList y = some ys) :
    applyBinOp fuel σ .Sum loc (.list x) (.list y) = .ok (.list σ.heap.size) (σ.alloc (.list (xs ++ ys))).2 ∧
    σ.heap.size ≠ x ∧ σ.heap.size ≠ y ∧
    (σ.alloc (.list (xs ++ ys))).2.getList σ.heap.size = some (xs ++ ys) ∧
    (σ.alloc (.list (xs ++ ys))).2.getList x = some xs ∧ (σ.alloc (.list (xs ++ ys))).2.getList y = some ys := by
  refine ⟨by simp [applyBinOp, hx, hy, State.alloc], fresh_ne_live σ (.list []) x xs hx, fresh_ne_live σ (.list []) y ys hy,
    getList_heap.mpr (alloc_new σ _), ?_, ?_⟩
  · rw [getList_congr (alloc_old σ _ (getList_lt hx))]; exact hx
  · rw [getList_congr (alloc_old σ _ (getList_lt hy))]; exact hy

example : σ₀.getList 1 = some [sv 1, sv 2] ∧ σ₀.getList 2 = some [sv 1, sv 2] := by decide

/-- list literal (also with spreads, via the two item lemmas above): a new cell at the heap size reached after
    evaluating the items -/
theorem list_literal_fresh (n : Nat) (σ σ1 : State) (sc : List Addr) (items : List ListItem) (loc : Loc) (vals : List SVal)
    (h : evalListItems n σ sc items [] = .ok vals σ1) :
    evalExpr (n + 1) σ sc (.mk (.List items false) loc) = .ok (SVal.plain (.list σ1.heap.size)) (σ1.alloc (.list vals)).2 := by
  rw [evalExpr]; simp only [Bool.false_eq_true, if_false, h, Res.bind]; rfl

example : evalListItems 1 σ₀ [0] [] [] = .ok [] σ₀ := by rw [evalListItems]

/-- object literal -/
theorem object_literal_fresh (n : Nat) (σ σ1 : State) (sc : List Addr) (props : List PropItem) (loc : Loc) (m : ObjMap)
    (h : evalProps n σ sc loc props [] = .ok m σ1) :
    evalExpr (n + 1) σ sc (.mk (.Object props) loc) = .ok (SVal.plain (.obj σ1.heap.size)) (σ1.alloc (.obj m)).2 := by
  rw [evalExpr]; simp only [h, Res.bind]; rfl

example : evalProps 1 σ₀ [0] (1, 0) [] [] = .ok [] σ₀ := by rw [evalProps]

/-- reading a range `xs[i:j]`: a new cell holding the selected element values (not a view) -/
theorem range_read_fresh (n : Nat) (σ σ1 σ2 σ3 : State) (sc : List Addr) (ex : Expr) (start stop : Option Expr) (loc : Loc)
    (a b : Option Nat) (addr : Addr) (s : Option Val) (items : List SVal)
    (h1 : evalOptIndex n σ sc start = .ok a σ1) (h2 : evalOptIndex n σ1 sc stop = .ok b σ2)
    (h3 : evalExpr n σ2 sc ex = .ok ⟨.list addr, s⟩ σ3) (h4 : σ3.getList addr = some items)
    (hb : a.getD 0 ≤ b.getD items.length ∧ b.getD items.length ≤ items.length) :
    evalExpr (n + 1) σ sc (.mk (.RangeIndex ex start stop) loc) =
      .ok (SVal.plain (.list σ3.heap.size))
        (σ3.alloc (.list ((items.drop (a.getD 0)).take (b.getD items.length - a.getD 0)))).2 := by
  rw [evalExpr]; simp only [h1, h2, h3, h4, Res.bind, hb.1, hb.2, decide_true, Bool.and_self, if_true]; rfl

example : evalOptIndex 1 σ₀ [0] none = .ok none σ₀ := by rw [evalOptIndex]

/-- `a .. b`: a new cell -/
theorem range_fresh (n : Nat) (σ σ1 σ2 : State) (sc : List Addr) (start stop : Expr) (loc : Loc) (a b : Int)
    (h1 : evalToInt n σ sc c!"range start" start = .ok a σ1) (h2 : evalToInt n σ1 sc c!"range end" stop = .ok b σ2) :
    evalExpr (n + 1) σ sc (.mk (.Range start stop) loc) =
      .ok (SVal.plain (.list σ2.heap.size)) (σ2.alloc (.list (intRange a b))).2 := by
  rw [evalExpr]; simp only [h1, h2, Res.bind]; rfl

/-- the collected rest of a list destructuring `[.., ..rest]`: a new cell holding the remaining element values -/
theorem collect_fresh (n : Nat) (σ : State) (sc : List Addr) (names : List (List Char)) (e : Expr) (lhsLoc : Loc) (b : Addr) (decl : Bool)
    (lhsLen : Nat) (rhsItems : List SVal) (hb : σ.getList b = some rhsItems) :
    bindList (n + 1) σ sc names [.mk e false] true lhsLoc b decl (lhsLen - 1) lhsLen =
      (bindNext n (σ.alloc (.list (rhsItems.drop (lhsLen - 1)))).2 sc names e (SVal.plain (.list σ.heap.size)) none decl).bind
        fun names' σ2 => bindList n σ2 sc names' [] true lhsLoc b decl (lhsLen - 1 + 1) lhsLen := by
  rw [bindList]; simp only [Bool.false_eq_true, if_false, hb, Bool.true_and, decide_true, if_true]; rfl

/-- `x += ys` on a variable holding a list: a **new** list is built and `x` is re-bound to it; the old cell — and so
    every other alias of it — is unchanged -/
theorem opassign_var_rebinds (fuel : Nat) (σ : State) (sc : List Addr) (names : List (List Char)) (x : List Char) (loc ol : Loc)
    (a b : Addr) (sa sb : Option Val) (xs ys : List SVal) (hx : x ≠ c!"_") (hn : names.contains x = false)
    (hg : scopeGet σ sc x = some ⟨.list a, sa⟩) (ha : σ.getList a = some xs) (hb : σ.getList b = some ys) :
    ∃ σ', bindNextName fuel σ sc names x loc ⟨.list b, sb⟩ (some (.Sum, ol)) false = .ok (x :: names) σ' ∧
      scopeGet σ' sc x = some (SVal.plain (.list σ.heap.size)) ∧ σ.heap.size ≠ a ∧
      σ'.getList σ.heap.size = some (xs ++ ys) ∧ σ'.getList a = some xs ∧ σ'.getList b = some ys := by
  have hsum := (sum_fresh fuel σ ol a b xs ys ha hb).1
  let σ1 := (σ.alloc (.list (xs ++ ys))).2
  -- the chain still resolves `x` after the allocation, so the store succeeds
  have hg1 : scopeGet σ1 sc x = some ⟨.list a, sa⟩ := by
    obtain ⟨pre, c, post, m, l, e, hs, h1, h2⟩ := scopeGet_some_iff.mp hg
    refine scopeGet_some_iff.mpr ⟨pre, c, post, m, l, e, ?_, ?_, h2⟩
    · intro d hd
      obtain ⟨md, hd1, hd2⟩ := hs d hd
      exact ⟨md, by rw [getScope_congr (alloc_old σ _ (getScope_lt hd1))]; exact hd1, hd2⟩
    · rw [getScope_congr (alloc_old σ _ (getScope_lt h1))]; exact h1
  have hsome : (scopeAssign σ1 sc x (SVal.plain (.list σ.heap.size))).isSome := by
    rw [scopeAssign_isSome, hg1]; rfl
  obtain ⟨σ', hσ'⟩ := Option.isSome_iff_exists.mp hsome
  refine ⟨σ', ?_, ?_, fresh_ne_live σ (.list []) a xs ha, ?_, ?_, ?_⟩
  · unfold bindNextName
    simp only [hx, hn, if_false, Bool.false_eq_true, hg, hsum, Res.bind]
    show (match scopeAssign σ1 sc x (SVal.plain (.list σ.heap.size)) with
      | some σ2 => Res.ok (x :: names) σ2 | none => _) = _
    rw [hσ']
  · obtain ⟨pre, c, post, m, w, l, rfl, hs, h1, h2, rfl⟩ := scopeAssign_some_iff.mp hσ'
    have hs' : Skips (σ1.set c (.scope (scopeSetVal x (SVal.plain (.list σ.heap.size)) m))) pre x := by
      intro d hd
      obtain ⟨md, hd1, hd2⟩ := hs d hd
      have : d ≠ c := by rintro rfl; rw [h1] at hd1; cases hd1; rw [h2] at hd2; cases hd2
      exact ⟨md, by rw [getScope_set_other _ this]; exact hd1, hd2⟩
    rw [scopeGet_skip hs']
    exact scopeGet_hit (getScope_set_same _ (getScope_lt h1)) (lookup_setVal_same h2) post
  all_goals
    obtain ⟨pre, c, post, m, w, l, _, _, h1, _, rfl⟩ := scopeAssign_some_iff.mp hσ'
    rw [getList_set_scope σ1 c _ _ h1]
  · exact getList_heap.mpr (alloc_new σ _)
  · rw [getList_congr (alloc_old σ _ (getList_lt ha))]; exact ha
  · rw [getList_congr (alloc_old σ _ (getList_lt hb))]; exact hb

example : c!"a" ≠ c!"_" ∧ scopeGet σ₀ [0] c!"a" = some ⟨.list 1, none⟩ ∧ σ₀.getList 1 = some [sv 1, sv 2] ∧
    σ₀.getList 2 = some [sv 1, sv 2] := by decide

/-! ### scalars are immutable values -/

/-- no update of a container cell changes what any variable reads (through any chain): a variable holding an
    int, bool, string or null keeps exactly that value — scalars are stored in the `SVal` itself, not behind an
    address — and a variable holding a container keeps the same reference -/
theorem container_update_keeps_bindings (σ : State) (a : Addr) (xs xs' : List SVal) (sc : List Addr) (x : List Char)
    (h : σ.getList a = some xs) : scopeGet (σ.set a (.list xs')) sc x = scopeGet σ sc x :=
  scopeGet_congr (fun b _ => by
    rw [getScope_set_nonscope σ a _ b (by rw [getScope_none_of_getList h]) (by intro m e; cases e)])

theorem object_update_keeps_bindings (σ : State) (a : Addr) (m m' : ObjMap) (sc : List Addr) (x : List Char)
    (h : σ.getObj a = some m) : scopeGet (σ.set a (.obj m')) sc x = scopeGet σ sc x :=
  scopeGet_congr (fun b _ => by
    rw [getScope_set_nonscope σ a _ b (by rw [getScope_none_of_getObj h]) (by intro m e; cases e)])

/-- an operation on a copy of a scalar (`m := n; m += 1`) re-binds only the variable it is applied to
    (`C04.assign_other_names`): here for `+=` on ints — `n` still reads 7 afterwards -/
theorem scalar_opassign_local (fuel : Nat) (σ σ' : State) (sc : List Addr) (names names' : List (List Char)) (x y : List Char)
    (loc : Loc) (rhs : SVal) (op : Option (BinaryOp × Loc)) (hy : y ≠ x)
    (h : bindNextName fuel σ sc names x loc rhs op false = .ok names' σ')
    (hwf : ∀ a ∈ sc, a < σ.heap.size) :
    scopeGet σ' sc y = scopeGet σ sc y := by
  unfold bindNextName at h
  by_cases hx : x = c!"_"
  · simp only [hx, if_true] at h; cases h; rfl
  · simp only [hx, if_false] at h
    split at h
    · cases h
    · simp only [Bool.false_eq_true, if_false] at h
      have store : ∀ (σ1 : State) (v : SVal), (∀ a ∈ sc, σ1.heap[a]? = σ.heap[a]?) →
          (match scopeAssign σ1 sc x v with
            | some σ2 => Res.ok (x :: names) σ2
            | none => errAt loc (Gen.Leaf.Undefined x) σ1) = .ok names' σ' → scopeGet σ' sc y = scopeGet σ sc y := by
        intro σ1 v h1 hs
        cases ha : scopeAssign σ1 sc x v with
        | none => simp only [ha] at hs; cases hs
        | some σ2 =>
          simp only [ha] at hs; cases hs
          obtain ⟨pre, a, post, m, w, l, _, _, hm, _, rfl⟩ := scopeAssign_some_iff.mp ha
          rw [← scopeGet_frame y h1]
          apply scopeGet_congr
          intro b _
          by_cases hb : b = a
          · subst hb
            rw [getScope_set_same _ (getScope_lt hm), hm]
            simp only [Option.map, lookup_setVal_other hy]
          · rw [getScope_set_other _ hb]
      cases op with
      | none => exact store σ rhs (fun _ _ => rfl) h
      | some p =>
        obtain ⟨o, ol⟩ := p
        simp only at h
        cases hg : scopeGet σ sc x with
        | none => simp only [hg] at h; cases h
        | some cur =>
          simp only [hg] at h
          cases hb : applyBinOp fuel σ o ol cur.v rhs.v with
          | ok v σ1 =>
            rw [hb] at h
            refine store σ1 (SVal.plain v) ?_ h
            rcases BindL.applyBinOp_state hb with rfl | ⟨zs, rfl⟩
            · intro _ _; rfl
            · intro a ha; exact alloc_old σ _ (hwf a ha)
          | err e σ1 => rw [hb] at h; cases h
          | crash w σ1 => rw [hb] at h; cases h
          | timeout => rw [hb] at h; cases h

example : (match bindNextName 5 σ₀ [0] [] c!"m" (5, 0) (sv 1) (some (.Sum, (5, 2))) false with
    | .ok _ σ' => (scopeGet σ' [0] c!"m", scopeGet σ' [0] c!"n") | _ => (none, none)) = (some (sv 8), some (sv 7)) := by decide

end Seed.C05
