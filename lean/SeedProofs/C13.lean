/-
  C13.lean — destructuring, spread and collect are inverse, lossless rearrangements.

  * list patterns of names: equal length (or ≥ n with `..rest`), position by position, the rest is a fresh list
    holding exactly `drop n`, and `take n ++ drop n` is the source;
  * object patterns of names / renames: each name gets the source's property, the rest is a fresh object with
    exactly the keys that were not named, and rest + named = source;
  * `_` binds nothing, a name binds once per pattern; declaration, assignment, `for` target and parameters all
    go through `bindNext`;
  * spread: `[xs.., ys..]` and `xs + ys` build the same list; `f(xs..)` and `f(xs[0], …)` evaluate to the same
    argument values; the rest parameter is a fresh list of the surplus; the argument-count rule;
  * shape errors are located diagnostics.

  The theorems of the first sections treat patterns of depth 1 with names as targets.  The last section
  (`## nested patterns`) is the general theorem over *arbitrarily nested* pure declaration patterns
  (`C13N.Pat`, Lemmas/C13NestedDefs.lean: names and `_`, list patterns with an optional collecting last item
  — itself a pattern —, object patterns of shorthand names (`_` discards), literal-key pairs `"k": p` (any key,
  `"_"` included, is looked up) and `..rest`):
      theorem bind_nested : for fuel ≥ p.size, `bindNext … p.toExpr v none true` into the scope cell `a` is ok ↔
        `proj p σ v` is defined (shape) ∧ the leaf names are new and pairwise distinct (`FreshBs`), and then the
        state is `σ` + one fresh cell per `..rest` (`drop n` / the filtered map) with exactly the leaves of
        `proj` declared in cell `a`, in pattern order, and nothing else changed (`bind_nested_frame`,
        `bind_nested_leaves`, `rest_cells`); `bind_nested_sound` is the ⇒ half at any fuel, `bind_nested_not_ok` the failing half;
      theorem bind_nested_exact / bind_nested_any_fuel : on *every* outcome (each located error at any depth,
        with the partial bindings made before it) the engine equals the pure, fuel-free `C13N.pmatch`.
  Proved by induction over the pattern tree (Lemmas/C13Nested*.lean).  Not covered (kept out of `Pat` because
  they evaluate expressions in the middle of the binding): computed / interpolated keys and index, range-index
  and property targets (`index_leaves_need_sequential_spec`, below, shows why an index leaf does not fit `proj`: the source
  is re-read at every item, so `[xs[1], xs[0]] = xs` gives `[1, 1]`).

  ASSIGNMENT mode (`=`) of nested patterns, arbitrary depth, plain-name leaves (third session, Lemmas/C13Assign*.lean):
      theorem assign_nested : for fuel ≥ p.size, `bindNext … p.toExpr v none false` is ok ↔ `proj p σ v` is defined (shape),
        the leaf names are pairwise distinct and not yet bound by this pattern, every leaf name is declared somewhere in the
        chain, and the state is `assignAll`: each leaf stored in its NEAREST binding (`assign_nested_nearest`), names, order
        and declaration positions of every scope cell kept, every other name of every scope cell — shadowed outer bindings,
        scopes outside the chain — reads as before (`assign_nested_others`, `assign_nested_frame`), each leaf reads back
        (`assign_nested_leaves`, `assign_nested_eval`); `assign_nested_exact` / `assign_nested_any_fuel`: on every outcome
        the engine is the fuel-free `amatch`; `assign_nested_not_ok`: otherwise a reported error, never ok.
-/
import SeedProofs.Lemmas.C13Obj
import SeedProofs.Lemmas.C13Call
import SeedProofs.Lemmas.C13NestedFuel
import SeedProofs.Lemmas.C13Assign3
import SeedModel.Run
namespace Seed.C13
open Seed Gen

-- audit: Seed.C13N.assign_nested Seed.C13N.assign_nested_exact Seed.C13N.assign_nested_any_fuel Seed.C13N.assign_nested_succeeds Seed.C13N.assign_nested_sound Seed.C13N.assign_nested_not_ok Seed.C13N.assign_nested_frame Seed.C13N.assign_nested_nearest Seed.C13N.assign_nested_others Seed.C13N.assign_nested_leaves Seed.C13N.assign_nested_eval Seed.C13N.assign_stmt_nested Seed.C13N.aName_dup Seed.C13N.aName_undefined
-- audit: Seed.C13N.bindNext_pat Seed.C13N.bindList_pat Seed.C13N.bindObject_pat Seed.C13N.pmatch_agree Seed.C13N.proj_ext Seed.C13N.bindNext_pat_any Seed.C13N.FreshBs_iff Seed.C13N.FreshBs.lookup

/-! ## example state -/

/-- scope 0: `xs ↦ [10, 20, 30]` (cell 1), `o ↦ {"a": 1, "k": 2, "z": 3}` (cell 2), `ys ↦ [40]` (cell 3) -/
def σex : State :=
  ⟨#[.scope [(c!"xs", SVal.plain (.list 1), (1, 0)), (c!"o", SVal.plain (.obj 2), (2, 0)), (c!"ys", SVal.plain (.list 3), (3, 0))],
     .list [SVal.plain (.int 10), SVal.plain (.int 20), SVal.plain (.int 30)],
     .obj [(c!"a", SVal.plain (.int 1)), (c!"k", SVal.plain (.int 2)), (c!"z", SVal.plain (.int 3))],
     .list [SVal.plain (.int 40)]], []⟩

example : σex.getList 1 = some [SVal.plain (.int 10), SVal.plain (.int 20), SVal.plain (.int 30)] := by rfl
example : σex.getScope 0 = some [(c!"xs", SVal.plain (.list 1), (1, 0)), (c!"o", SVal.plain (.obj 2), (2, 0)),
    (c!"ys", SVal.plain (.list 3), (3, 0))] := by rfl

/-! ## list patterns -/

theorem varItems_length (vars : List (List Char × Loc)) : (varItems vars).length = vars.length := by
  simp [varItems]

/-- `[x₀, …, xₙ₋₁] := xs` requires equal lengths and then binds the names, left to right, position by position -/
theorem bind_list_spec {σ : State} {b : Addr} {vals : List SVal} (sc : List Addr) (names : List (List Char)) (loc : Loc)
    (decl : Bool) (vars : List (List Char × Loc)) (d : Nat) (rhs : SVal)
    (hr : rhs.v = .list b) (hb : σ.getList b = some vals) :
    bindNext (vars.length + 2 + d) σ sc names (.mk (.List (varItems vars) false) loc) rhs none decl =
      if vars.length = vals.length then bindVars σ sc names decl (vars.zip vals)
      else errAt loc (Leaf.ListDestructureItemMismatch vars.length vals.length) σ := by
  have e1 : vars.length + 2 + d = (vars.length + 1 + d) + 1 := by omega
  rw [e1, bindNext]
  simp only [hr, hb, varItems_length, Bool.false_and, Bool.false_eq_true, if_false, Bool.not_false, Bool.true_and,
    decide_eq_true_eq]
  by_cases h : vars.length = vals.length
  · simp only [h, ne_eq, not_true_eq_false, if_false, if_true]
    have := bindList_vars sc loc decl vals.length vars names 0 d hb (by omega)
    rw [List.drop_zero, h] at this
    exact this
  · simp only [h, ne_eq, not_false_eq_true, if_true, if_false]

example : (SVal.plain (.list 1)).v = .list 1 ∧ σex.getList 1 = some [SVal.plain (.int 10), SVal.plain (.int 20),
    SVal.plain (.int 30)] := ⟨rfl, by rfl⟩

/-- … and for fresh, pairwise different names the declaration succeeds: afterwards the `j`-th name holds the `j`-th
    element (the stored value itself, provenance included), other names are untouched, no other cell changes -/
theorem bind_list_declares {σ : State} {a : Addr} {m : ScopeMap} (sc : List Addr) (names : List (List Char))
    (vars : List (List Char × Loc)) (vals : List SVal)
    (hs : σ.getScope a = some m) (hf : FreshRow m names vars) (hl : vars.length = vals.length) :
    ∃ names' σ' m', bindVars σ (a :: sc) names true (vars.zip vals) = .ok names' σ' ∧
      σ'.getScope a = some m' ∧
      (∀ j (h1 : j < vars.length) (h2 : j < vals.length), (scopeLookup vars[j].1 m').map Prod.fst = some vals[j]) ∧
      (∀ k, (∀ p ∈ vars, p.1 ≠ k) → scopeLookup k m' = scopeLookup k m) ∧
      (∀ b, b ≠ a → σ'.heap[b]? = σ.heap[b]?) :=
  bindVars_declare sc names vars vals hs hf hl

example : FreshRow [(c!"xs", SVal.plain (.list 1), (1, 0))] [] [(c!"p", (5, 1)), (c!"q", (5, 4))] := by
  refine ⟨by decide, by simp, by decide, ?_, by decide, by simp, by decide, ?_, trivial⟩
  · intro p hp; simp at hp; subst hp; decide
  · intro p hp; simp at hp

/-- `[x₀, …, xₙ₋₁, ..r] := xs` requires at least `n` elements; the names get the first `n`, `r` a *fresh* list
    (the address `σ1.heap.size` is new) holding exactly `xs.drop n` -/
theorem bind_list_collect {σ : State} {b : Addr} {vals : List SVal} (sc : List Addr) (names : List (List Char)) (loc : Loc)
    (decl : Bool) (vars : List (List Char × Loc)) (r : List Char) (lr : Loc) (d : Nat) (rhs : SVal)
    (hr : rhs.v = .list b) (hb : σ.getList b = some vals) :
    bindNext (vars.length + 4 + d) σ sc names
        (.mk (.List (varItems vars ++ [ListItem.mk (.mk (.Var r) lr) false]) true) loc) rhs none decl =
      if vars.length ≤ vals.length then
        (bindVars σ sc names decl (vars.zip vals)).bind fun names' σ1 =>
          bindNextName 0 (σ1.alloc (.list (vals.drop vars.length))).2 sc names' r lr
            (SVal.plain (.list σ1.heap.size)) none decl
      else errAt loc (Leaf.ListCollectTooFew (vars.length + 1) vals.length) σ := by
  have e1 : vars.length + 4 + d = (vars.length + ((d + 2) + 1)) + 1 := by omega
  rw [e1, bindNext]
  simp only [hr, hb, List.length_append, varItems_length, List.length_cons, List.length_nil, Nat.zero_add,
    Nat.add_sub_cancel, Bool.true_and, decide_eq_true_eq, Bool.not_true, Bool.false_and, Bool.false_eq_true, if_false]
  by_cases h : vars.length ≤ vals.length
  · have h' : ¬ vars.length > vals.length := by omega
    simp only [h, h', if_true, if_false]
    rw [bindList_vars_tail sc loc decl true (vars.length + 1) _ vars names 0 (d + 2) hb (by omega) (fun _ => by omega),
      List.drop_zero]
    apply res_bind_congr
    intro names' σ1 hres
    have hb1 : σ1.getList b = some vals := by rw [(bindVars_heap hres).1 b]; exact hb
    have := bindList_rest d sc loc decl (vars.length + 1) names' r lr hb1
    simp only [Nat.add_sub_cancel] at this
    simp only [Nat.zero_add]
    exact this
  · have h' : vars.length > vals.length := by omega
    simp only [h, h', if_true, if_false]

/-- collect is lossless: the named prefix and the collected rest concatenate to the source -/
theorem collect_lossless (vals : List SVal) (n : Nat) : vals.take n ++ vals.drop n = vals := List.take_append_drop n vals

/-! ## object patterns -/

/-- `{a, "k": b, ..r} := o` binds the names to the source's properties under those keys, left to right, and `r` to a
    *fresh* object holding exactly the properties whose keys were not named -/
theorem bind_obj_spec {σ : State} {b : Addr} {m : ObjMap} (sc : List Addr) (names : List (List Char)) (loc : Loc) (decl : Bool)
    (ps : List NamedProp) (vals : List SVal) (r : List Char) (lr : Loc) (d : Nat) (rhs : SVal)
    (hr : rhs.v = .obj b) (hb : σ.getObj b = some m) (hrow : NamedRow m ps vals) :
    bindNext (ps.length + 3 + d) σ sc names
        (.mk (.Object (ps.map NamedProp.item ++ [.Single (.mk (.Var r) lr) false true])) loc) rhs none decl =
      (bindVars σ sc names decl ((ps.map NamedProp.var).zip vals)).bind fun names' σ1 =>
        bindNextName 0 (σ1.alloc (.obj (restObj m (ps.map NamedProp.key)))).2 sc names' r lr
          (SVal.plain (.obj σ1.heap.size)) none decl := by
  have e1 : ps.length + 3 + d = (ps.length + (d + 2)) + 1 := by omega
  rw [e1, bindNext]
  simp only [hr, hb]
  rw [bindObject_named sc decl _ ps vals _ names 0 d _ hb hrow]
  apply res_bind_congr
  intro names' σ1 hres
  have hb1 : σ1.getObj b = some m := by rw [(bindVars_heap hres).2.1 b]; exact hb
  have := bindObject_collect (n := d) sc names' r lr decl (ps.length + 1)
    ((m.map Prod.fst).filter fun key => !(ps.map NamedProp.key).contains key) hb1
  simp only [List.length_append, List.length_map, List.length_cons, List.length_nil, Nat.zero_add, Nat.add_sub_cancel]
    at this ⊢
  rw [this, rest_filter_eq]

example : NamedRow [(c!"a", SVal.plain (.int 1)), (c!"k", SVal.plain (.int 2)), (c!"z", SVal.plain (.int 3))]
    [.short c!"a" (4, 1), .pair c!"k" (4, 4) c!"b" (4, 9)] [SVal.plain (.int 1), SVal.plain (.int 2)] := by
  refine ⟨by decide, by rfl, by decide, by decide, by rfl, by decide, trivial⟩

/-- without `..r`: the names are bound, properties that are not named are simply ignored -/
theorem bind_obj_named {σ : State} {b : Addr} {m : ObjMap} (sc : List Addr) (names : List (List Char)) (loc : Loc) (decl : Bool)
    (ps : List NamedProp) (vals : List SVal) (d : Nat) (rhs : SVal)
    (hr : rhs.v = .obj b) (hb : σ.getObj b = some m) (hrow : NamedRow m ps vals) :
    bindNext (ps.length + 3 + d) σ sc names (.mk (.Object (ps.map NamedProp.item)) loc) rhs none decl =
      bindVars σ sc names decl ((ps.map NamedProp.var).zip vals) := by
  have e1 : ps.length + 3 + d = (ps.length + (d + 2)) + 1 := by omega
  rw [e1, bindNext]
  simp only [hr, hb]
  have := bindObject_named sc decl (ps.map NamedProp.item).length ps vals [] names 0 d (m.map Prod.fst) hb hrow
  rw [List.append_nil] at this
  rw [this]
  have e : ∀ (r : Res (List (List Char))), (r.bind fun names' σ1 => Res.ok names' σ1) = r := by intro r; cases r <;> rfl
  conv => rhs; rw [← e (bindVars σ sc names decl ((ps.map NamedProp.var).zip vals))]
  apply res_bind_congr
  intro names' σ1 _
  rw [bindObject]

/-- the rest object has exactly the properties that were not named … -/
theorem rest_exact (m : ObjMap) (used : List (List Char)) (k : List Char) :
    objGet k (restObj m used) = if used.contains k then none else objGet k m := objGet_restObj m used k

/-- … so the bind is lossless: `{"a": a, "k": b, rest..} == o` (the literal inserts the named pairs into the rest) -/
theorem obj_collect_lossless {m : ObjMap} (h : Sorted m) (used : List (List Char)) :
    insertAll (restObj m used) (namedObj m used) = m := rest_plus_named h used

example : Sorted [(c!"a", SVal.plain (.int 1)), (c!"k", SVal.plain (.int 2)), (c!"z", SVal.plain (.int 3))] := by
  unfold Sorted; decide

/-- a named property the source does not have is a located error -/
theorem bind_obj_missing {n : Nat} {σ : State} {b : Addr} {m : ObjMap} (sc : List Addr) (names : List (List Char))
    (lhs : Expr) (pname : List Char) (ploc : Loc) (decl : Bool)
    (hk : pname ≠ c!"_") (hb : σ.getObj b = some m) (hv : objGet pname m = none) :
    bindObjectProp (n + 1) σ sc names lhs b pname ploc decl = errAt ploc (Leaf.PropNotFound pname) σ :=
  bindObjectProp_missing sc names lhs pname ploc decl hk hb hv

example : c!"q" ≠ c!"_" ∧ σex.getObj 2 = some [(c!"a", SVal.plain (.int 1)), (c!"k", SVal.plain (.int 2)),
    (c!"z", SVal.plain (.int 3))] ∧ objGet c!"q" [(c!"a", SVal.plain (.int 1)), (c!"k", SVal.plain (.int 2)),
    (c!"z", SVal.plain (.int 3))] = none := ⟨by decide, by rfl, by decide⟩

/-- the collect must be the last property -/
theorem obj_collect_must_be_last {n : Nat} {σ : State} {b : Addr} (sc : List Addr) (names : List (List Char))
    (x : List Char) (l : Loc) (r : List PropItem) (decl : Bool) (i total : Nat) (rem : List (List Char))
    (h : i ≠ total - 1) :
    bindObject (n + 1) σ sc names (.Single (.mk (.Var x) l) false true :: r) b decl i total rem =
      errAt l Leaf.ObjectCollectIsNotLast σ :=
  bindObject_collect_not_last sc names x l r decl i total rem h

/-! ## `_`, names once, one engine -/

/-- `_` discards: nothing is bound, the state is unchanged -/
theorem underscore_discards (n : Nat) (σ : State) (sc : List Addr) (names : List (List Char)) (loc : Loc) (rhs : SVal)
    (op : Option (BinaryOp × Loc)) (decl : Bool) :
    bindNext (n + 1) σ sc names (.mk (.Var c!"_") loc) rhs op decl = .ok names σ := by
  rw [bindNext_var, bindNextName_underscore]

/-- a name may be bound only once per pattern, in declarations and assignments alike -/
theorem name_once {n : Nat} {σ : State} {sc : List Addr} {names : List (List Char)} {name : List Char} (loc : Loc)
    (rhs : SVal) (op : Option (BinaryOp × Loc)) (decl : Bool) (h1 : name ≠ c!"_") (h2 : name ∈ names) :
    bindNext (n + 1) σ sc names (.mk (.Var name) loc) rhs op decl = errAt loc (Leaf.AlreadyInBinding name) σ := by
  rw [bindNext_var, bindNextName_twice loc rhs op decl h1 h2]

example : c!"a" ≠ c!"_" ∧ c!"a" ∈ [c!"b", c!"a"] := ⟨by decide, by simp⟩

/-- one engine: `:=` and `=` differ only in the declaration flag … -/
theorem same_engine_stmt (n : Nat) (σ : State) (sc : List Addr) (lhs rhs : Expr) :
    evalStmt (n + 1) σ sc (.Declare lhs rhs) =
      ((evalExpr n σ sc rhs).bind fun v σ1 => (bindNext n σ1 sc [] lhs v none true).bind fun _ σ2 => .ok .none σ2) ∧
    evalStmt (n + 1) σ sc (.Assign lhs rhs) =
      ((evalExpr n σ sc rhs).bind fun v σ1 => (bindNext n σ1 sc [] lhs v none false).bind fun _ σ2 => .ok .none σ2) := by
  constructor <;> rw [evalStmt]

/-- … `for` targets and parameters are declarations in the fresh scope of the body: both hand a list of
    (pattern, value) pairs to `evalBlock`, which declares them with `bindNext … true` one after the other -/
theorem same_engine_block (n : Nat) (σ : State) (sc : List Addr) (bindings : List (Expr × SVal)) (stmts : List Stmt)
    (lhs : Expr) (rhs : SVal) :
    evalBlock (n + 1) σ sc bindings stmts =
      ((declareAll n (σ.alloc (.scope [])).2 (σ.heap.size :: sc) bindings).bind fun _ σ2 =>
        evalStmts n σ2 (σ.heap.size :: sc) stmts) ∧
    declareAll (n + 1) σ sc ((lhs, rhs) :: bindings) =
      ((bindNext n σ sc [] lhs rhs none true).bind fun _ σ1 => declareAll n σ1 sc bindings) := by
  constructor
  · rw [evalBlock]; rfl
  · rw [declareAll]

theorem same_engine_for (n : Nat) (σ : State) (sc : List Addr) (lhs : Expr) (k v : SVal) (r : List (SVal × SVal))
    (stmts : List Stmt) :
    evalFor (n + 1) σ sc lhs ((k, v) :: r) stmts =
      (evalBlock n (σ.alloc (.list [k, v])).2 sc [(lhs, SVal.plain (.list σ.heap.size))] stmts).bind fun esc σ2 =>
        match esc with
        | .none => evalFor n σ2 sc lhs r stmts
        | .brk _ => .ok .none σ2
        | .cont _ => evalFor n σ2 sc lhs r stmts
        | .ret v l => .ok (.ret v l) σ2 := by
  rw [evalFor]
  rfl

/-! ## spread -/

theorem evalExpr_var {n : Nat} {σ : State} {sc : List Addr} {x : List Char} {v : SVal} (l : Loc)
    (h : scopeGet σ sc x = some v) : evalExpr (n + 1) σ sc (.mk (.Var x) l) = .ok v σ := by
  rw [evalExpr, h]

/-- `[xs.., ys..]` and `xs + ys` evaluate to the same fresh list (same cell contents, same address, same state) -/
theorem spread_concat {σ : State} {sc : List Addr} {x y : List Char} {vx vy : SVal} {ax ay : Addr} {xs ys : List SVal}
    (n : Nat) (lx ly loc opLoc : Loc)
    (hx : scopeGet σ sc x = some vx) (hvx : vx.v = .list ax) (hax : σ.getList ax = some xs)
    (hy : scopeGet σ sc y = some vy) (hvy : vy.v = .list ay) (hay : σ.getList ay = some ys) :
    evalExpr (n + 4) σ sc (.mk (.List [.mk (.mk (.Var x) lx) true, .mk (.mk (.Var y) ly) true] false) loc) =
      .ok (SVal.plain (.list σ.heap.size)) (σ.alloc (.list (xs ++ ys))).2 ∧
    evalExpr (n + 4) σ sc (.mk (.BinaryOp .Sum opLoc (.mk (.Var x) lx) (.mk (.Var y) ly)) loc) =
      .ok (SVal.plain (.list σ.heap.size)) (σ.alloc (.list (xs ++ ys))).2 := by
  constructor
  · rw [evalExpr]
    simp only [Bool.false_eq_true, if_false]
    rw [evalListItems_cons_spread _ _ (evalExpr_var lx hx) hvx hax,
      evalListItems_cons_spread _ _ (evalExpr_var ly hy) hvy hay, evalListItems_nil]
    simp only [Res.bind, List.nil_append, State.alloc]
  · rw [evalExpr, evalExpr_var lx hx]
    simp only [Res.bind]
    rw [evalExpr_var ly hy]
    simp only [hvx, hvy, applyBinOp, hax, hay, State.alloc]

example : scopeGet σex [0] c!"xs" = some (SVal.plain (.list 1)) ∧ scopeGet σex [0] c!"ys" = some (SVal.plain (.list 3)) ∧
    σex.getList 3 = some [SVal.plain (.int 40)] := ⟨by rfl, by rfl, by rfl⟩

/-- spreading something that is not a list is a located error -/
theorem spread_non_list {n : Nat} {σ σ1 : State} {sc : List Addr} {e : Expr} {v : SVal}
    (r : List ListItem) (acc : List SVal) (h : evalExpr n σ sc e = .ok v σ1) (hv : ∀ a, v.v ≠ .list a) :
    evalListItems (n + 1) σ sc (.mk e true :: r) acc = errAt e.loc (Leaf.SpreadNonListInList v.v.kind) σ1 :=
  evalListItems_cons_spread_nonlist r acc h hv

example : evalExpr 1 σex [0] (.mk (.Var c!"o") (7, 1)) = .ok (SVal.plain (.obj 2)) σex ∧
    ∀ a, (SVal.plain (.obj 2)).v ≠ .list a := ⟨by with_unfolding_all rfl, fun _ h => by cases h⟩

/-- the arguments `xs[i], xs[i+1], …` (`c` of them) -/
def indexItems (x : List Char) (l : Loc) : Nat → Nat → List ListItem
  | _, 0 => []
  | i, c + 1 => .mk (.mk (.Index (.mk (.Var x) l) (.mk (.Int (Int.ofNat i)) l)) l) false :: indexItems x l (i + 1) c

theorem evalExpr_index_var {σ : State} {sc : List Addr} {x : List Char} {vx : SVal} {ax : Addr} {xs : List SVal} (l : Loc)
    (i : Nat) (hi : i < xs.length) (m : Nat) (hm : 5 ≤ m)
    (hx : scopeGet σ sc x = some vx) (hvx : vx.v = .list ax) (hax : σ.getList ax = some xs) :
    evalExpr m σ sc (.mk (.Index (.mk (.Var x) l) (.mk (.Int (Int.ofNat i)) l)) l) = .ok xs[i] σ := by
  obtain ⟨k, rfl⟩ : ∃ k, m = k + 5 := ⟨m - 5, by omega⟩
  rw [evalExpr, evalExpr_var l hx]
  simp only [Res.bind, hvx]
  rw [evalToIndex, evalToInt, evalExpr]
  simp only [Res.bind, SVal.plain, Expr.loc, Int.ofNat_eq_natCast]
  have : ¬ ((i : Int) < 0) := by omega
  simp only [this, if_false, Int.toNat_natCast, hax, List.getElem?_eq_getElem hi]

theorem indexItems_pure {σ : State} {sc : List Addr} {x : List Char} {vx : SVal} {ax : Addr} {xs : List SVal} (l : Loc)
    (hx : scopeGet σ sc x = some vx) (hvx : vx.v = .list ax) (hax : σ.getList ax = some xs)
    (c i : Nat) (h : i + c ≤ xs.length) :
    PureItems 5 σ sc (indexItems x l i c) ((xs.drop i).take c) := by
  induction c generalizing i with
  | zero => simp [indexItems, PureItems]
  | succ c ih =>
    have hi : i < xs.length := by omega
    rw [indexItems, List.drop_eq_getElem_cons hi, List.take_succ_cons]
    exact ⟨rfl, fun m hm => evalExpr_index_var l i hi m hm hx hvx hax, ih (i + 1) (by omega)⟩

/-- `f(xs..)` and `f(xs[0], …, xs[n-1])` evaluate to the same argument values (the stored elements themselves),
    leaving the state unchanged: the call proceeds identically from there -/
theorem call_spread {σ : State} {sc : List Addr} {x : List Char} {vx : SVal} {ax : Addr} {xs : List SVal} (l : Loc) (d : Nat)
    (hx : scopeGet σ sc x = some vx) (hvx : vx.v = .list ax) (hax : σ.getList ax = some xs) :
    evalListItems (d + 3) σ sc [.mk (.mk (.Var x) l) true] [] = .ok xs σ ∧
    evalListItems (5 + xs.length + 1 + d) σ sc (indexItems x l 0 xs.length) [] = .ok xs σ := by
  constructor
  · rw [evalListItems_cons_spread _ _ (evalExpr_var l hx) hvx hax, evalListItems_nil]; rfl
  · have hp := indexItems_pure l hx hvx hax xs.length 0 (by omega)
    have hl : (indexItems x l 0 xs.length).length = xs.length := by
      have : ∀ c i, (indexItems x l i c).length = c := by
        intro c; induction c with
        | zero => intro i; rfl
        | succ c ih => intro i; simp [indexItems, ih]
      exact this _ _
    have := evalListItems_pure hp d []
    rw [hl, List.drop_zero, List.take_length, List.nil_append] at this
    exact this

/-! ## calls: count rule and rest parameter -/

/-- the count rule: exactly `n` arguments, or at least `n - 1` when the last parameter collects -/
theorem arity_rule (numParams got : Nat) :
    (arityOk false numParams got = true ↔ got = numParams) ∧
    (arityOk true numParams got = true ↔ numParams - 1 ≤ got) := by
  simp [arityOk, eq_comm]

/-- a call of a user function: count check at the call position, then the body runs in a fresh scope on the
    *closure* chain with the parameters (and `this`) declared in it -/
theorem call_spec {n : Nat} {σ σ1 σ2 : State} {sc : List Addr} {f : Expr} {args : List ListItem} {loc : Loc}
    {argVals : List SVal} {fv : SVal} {a : Addr} {fr : FuncRec}
    (hargs : evalListItems n σ sc args [] = .ok argVals σ1)
    (hf : evalExpr n σ1 sc f = .ok fv σ2) (hv : fv.v = .func a) (hfr : σ2.getFunc a = some fr) :
    evalCall (n + 1) σ sc f args loc =
      if arityOk fr.collect fr.args.length argVals.length then
        ((evalBlock n (callPlainVals σ2 fr argVals).2 fr.closure
            (callBindings fr (callPlainVals σ2 fr argVals).1 fv.src loc) fr.stmts).mapErr
          (Err.funcCall fr.name loc)).bind finishCall
      else errAt loc (arityErr fr.collect fr.args.length argVals.length) σ2 :=
  evalCall_func hargs hf hv hfr

/-- a state with a function `fn (p, ..r) { }` in cell 1 and `f` bound to it -/
def σfn : State :=
  ⟨#[.scope [(c!"f", SVal.plain (.func 1), (1, 0))],
     .func ⟨none, [.mk (.Var c!"p") (1, 8), .mk (.Var c!"r") (1, 13)], true, [], [0]⟩], []⟩

example : evalListItems 3 σfn [0] [.mk (.mk (.Int 7) (2, 2)) false, .mk (.mk (.Int 8) (2, 5)) false] [] =
      .ok [SVal.plain (.int 7), SVal.plain (.int 8)] σfn ∧
    evalExpr 3 σfn [0] (.mk (.Var c!"f") (2, 0)) = .ok (SVal.plain (.func 1)) σfn ∧
    σfn.getFunc 1 = some ⟨none, [.mk (.Var c!"p") (1, 8), .mk (.Var c!"r") (1, 13)], true, [], [0]⟩ :=
  ⟨by with_unfolding_all rfl, by with_unfolding_all rfl, by rfl⟩

/-- the rest parameter receives exactly the surplus arguments, as a *fresh* list; the parameter values put back
    together are the arguments -/
theorem rest_param {σ : State} {fr : FuncRec} (argVals : List SVal) (h : fr.collect = true) (hpos : 0 < fr.args.length)
    (hok : arityOk fr.collect fr.args.length argVals.length = true) :
    (callPlainVals σ fr argVals).1 = argVals.take (fr.args.length - 1) ++ [SVal.plain (.list σ.heap.size)] ∧
    (callPlainVals σ fr argVals).1.length = fr.args.length ∧
    (callPlainVals σ fr argVals).2.getList σ.heap.size = some (argVals.drop (fr.args.length - 1)) ∧
    (∀ b, b < σ.heap.size → (callPlainVals σ fr argVals).2.heap[b]? = σ.heap[b]?) ∧
    argVals.take (fr.args.length - 1) ++ argVals.drop (fr.args.length - 1) = argVals :=
  ⟨by rw [callPlainVals_rest argVals h], callPlainVals_rest_length argVals h hpos hok,
   (callPlainVals_rest_cell argVals h).1, (callPlainVals_rest_cell argVals h).2, List.take_append_drop _ _⟩

example : (FuncRec.mk none [.mk (.Var c!"p") (1, 8), .mk (.Var c!"r") (1, 13)] true [] [0]).collect = true ∧
    arityOk true 2 3 = true := ⟨rfl, by decide⟩

/-! ## shape errors are located diagnostics -/

theorem shape_list_vs_non_list {n : Nat} {σ : State} (sc : List Addr) (names : List (List Char)) (items : List ListItem)
    (c : Bool) (loc : Loc) (rhs : SVal) (decl : Bool) (h : ∀ b, rhs.v ≠ .list b) :
    bindNext (n + 1) σ sc names (.mk (.List items c) loc) rhs none decl =
      errAt loc (Leaf.ListDestructureOnNonList rhs.v.kind) σ := by
  rw [bindNext]
  simp only

example : ∀ b, (SVal.plain (.int 3)).v ≠ .list b := fun _ h => by cases h

theorem shape_object_vs_non_object {n : Nat} {σ : State} (sc : List Addr) (names : List (List Char)) (props : List PropItem)
    (loc : Loc) (rhs : SVal) (decl : Bool) (h : ∀ b, rhs.v ≠ .obj b) :
    bindNext (n + 1) σ sc names (.mk (.Object props) loc) rhs none decl =
      errAt loc (Leaf.ObjectDestructureOnNonObject rhs.v.kind) σ := by
  rw [bindNext]
  simp only

example : ∀ b, (SVal.plain (.list 1)).v ≠ .obj b := fun _ h => by cases h

theorem shape_spread_in_list_pattern (n : Nat) (σ : State) (sc : List Addr) (names : List (List Char)) (e : Expr)
    (r : List ListItem) (c : Bool) (loc : Loc) (b : Addr) (decl : Bool) (i len : Nat) :
    bindList (n + 1) σ sc names (.mk e true :: r) c loc b decl i len = errAt loc (Leaf.SpreadInListDestructure i) σ := by
  rw [bindList]; rfl

theorem shape_spread_in_object_pattern (n : Nat) (σ : State) (sc : List Addr) (names : List (List Char)) (e : Expr)
    (c : Bool) (r : List PropItem) (b : Addr) (decl : Bool) (i total : Nat) (rem : List (List Char)) :
    bindObject (n + 1) σ sc names (.Single e true c :: r) b decl i total rem =
      errAt e.loc Leaf.SpreadOnObjectDestructure σ := by
  rw [bindObject]; rfl

theorem shape_collect_in_expression (n : Nat) (σ : State) (sc : List Addr) (items : List ListItem) (loc : Loc)
    (e : Expr) (sp : Bool) (r : List PropItem) (acc : ObjMap) :
    evalExpr (n + 1) σ sc (.mk (.List items true) loc) = errAt loc Leaf.ListCollectOutsideDestructure σ ∧
    evalProps (n + 1) σ sc loc (.Single e sp true :: r) acc = errAt loc Leaf.ObjectCollectOutsideDestructure σ := by
  constructor
  · rw [evalExpr]; rfl
  · rw [evalProps]; rfl

theorem shape_op_on_pattern (n : Nat) (σ : State) (sc : List Addr) (names : List (List Char)) (items : List ListItem)
    (props : List PropItem) (c : Bool) (loc : Loc) (rhs : SVal) (op : BinaryOp × Loc) (decl : Bool) :
    bindNext (n + 1) σ sc names (.mk (.List items c) loc) rhs (some op) decl = errAt loc Leaf.OpOnListDestructure σ ∧
    bindNext (n + 1) σ sc names (.mk (.Object props) loc) rhs (some op) decl = errAt loc Leaf.OpOnObjectDestructure σ := by
  constructor <;> rw [bindNext]

/-! ## nested patterns

  `C13N.Pat` are the pure declaration patterns of any depth, `Pat.toExpr` the expression the parser builds for
  them.  Two fuel-free readings (Lemmas/C13NestedDefs.lean):
  * `C13N.proj p σ v = some (bs, σ1)`: `v` has the shape of `p` on the heap of `σ`; `bs` are the leaves in pattern
    order — (name, the stored value itself, position of the name), `_` leaves omitted —; `σ1` is `σ` with one
    fresh cell per `..rest` pushed, in pattern order, holding `xs.drop (len - 1)` resp. the source object filtered
    to the keys that were not named;
  * `C13N.pmatch`: the engine itself as a pure total function of the names-in-binding, the contents of the scope
    cell and an allocate-only state, with every located error.
-/

open C13N

/-- **every outcome**: with fuel at least the size of the pattern the engine on a nested declaration pattern is
    the pure engine — success, each located error at whatever depth (with the bindings made before it), crash -/
theorem bind_nested_exact {σ : State} {a : Addr} {m : ScopeMap} (sc : List Addr) (names : List (List Char)) (p : Pat)
    (v : SVal) (fuel : Nat) (hs : σ.getScope a = some m) (hf : p.size ≤ fuel) :
    bindNext fuel σ (a :: sc) names p.toExpr v none true = (pmatch p names m σ v).toRes a := by
  have h := bindNext_pat a sc p fuel names m σ v hf ⟨m, hs⟩
  rw [set_self hs] at h
  exact h

/-- … and at any fuel whatsoever it is that answer or a time-out -/
theorem bind_nested_any_fuel {σ : State} {a : Addr} {m : ScopeMap} (sc : List Addr) (names : List (List Char)) (p : Pat)
    (v : SVal) (fuel : Nat) (hs : σ.getScope a = some m) :
    bindNext fuel σ (a :: sc) names p.toExpr v none true = .timeout ∨
    bindNext fuel σ (a :: sc) names p.toExpr v none true = (pmatch p names m σ v).toRes a :=
  bindNext_pat_any sc names p v hs fuel

theorem toRes_ok_iff (a : Addr) (r : MRes) (names' : List (List Char)) (σ' : State) :
    r.toRes a = .ok names' σ' ↔ ∃ M S, r = .ok names' M S ∧ σ' = S.set a (.scope M) := by
  cases r with
  | ok N M S =>
    simp only [MRes.toRes]
    constructor
    · intro h; cases h; exact ⟨M, S, rfl, rfl⟩
    · rintro ⟨M', S', h, rfl⟩; cases h; rfl
  | err loc leaf M S =>
    simp only [MRes.toRes, errAt]
    constructor
    · intro h; cases h
    · rintro ⟨_, _, h, _⟩; cases h
  | crash w M S =>
    simp only [MRes.toRes]
    constructor
    · intro h; cases h
    · rintro ⟨_, _, h, _⟩; cases h

/-- **bind_nested**: a declaration through a pattern of any depth succeeds exactly when the value has the shape of
    the pattern and the leaf names are pairwise distinct and new; it then has declared exactly the leaves of `proj`
    (each bound to the stored value at its path) in the scope cell, newest first, the names-in-binding grew by the
    leaf names, and the rest of the state is `proj`'s: the source plus the fresh rest cells -/
theorem bind_nested {σ : State} {a : Addr} {m : ScopeMap} (sc : List Addr) (names : List (List Char)) (p : Pat)
    (v : SVal) (fuel : Nat) (hs : σ.getScope a = some m) (hf : p.size ≤ fuel) (names' : List (List Char)) (σ' : State) :
    bindNext fuel σ (a :: sc) names p.toExpr v none true = .ok names' σ' ↔
      ∃ bs σ1, proj p σ v = some (bs, σ1) ∧ FreshBs names m bs ∧
        names' = bndNames bs ++ names ∧ σ' = σ1.set a (.scope (bs.reverse ++ m)) := by
  rw [bind_nested_exact sc names p v fuel hs hf, toRes_ok_iff]
  constructor
  · rintro ⟨M, S, h, rfl⟩
    obtain ⟨bs, e, fr, rfl, rfl⟩ := (pmatch_agree p names m σ v _ _ _).mp h
    exact ⟨bs, S, e, fr, rfl, rfl⟩
  · rintro ⟨bs, σ1, e, fr, rfl, rfl⟩
    exact ⟨_, σ1, (pmatch_agree p names m σ v _ _ _).mpr ⟨bs, e, fr, rfl, rfl⟩, rfl⟩

/-- the soundness half needs no fuel bound: whenever the engine answers ok, it is with the leaves of `proj` -/
theorem bind_nested_sound {σ : State} {a : Addr} {m : ScopeMap} (sc : List Addr) (names : List (List Char)) (p : Pat)
    (v : SVal) (fuel : Nat) (hs : σ.getScope a = some m) {names' : List (List Char)} {σ' : State}
    (h : bindNext fuel σ (a :: sc) names p.toExpr v none true = .ok names' σ') :
    ∃ bs σ1, proj p σ v = some (bs, σ1) ∧ FreshBs names m bs ∧
      names' = bndNames bs ++ names ∧ σ' = σ1.set a (.scope (bs.reverse ++ m)) := by
  have h' := bindNext_stable (Nat.le_max_left fuel p.size) h (fun e => by cases e)
  exact (bind_nested sc names p v _ hs (Nat.le_max_right _ _) names' σ').mp h'

/-- what "new and pairwise distinct" means -/
theorem fresh_iff (bs : List Bnd) (names : List (List Char)) (m : ScopeMap) :
    FreshBs names m bs ↔ (bs.map Prod.fst).Nodup ∧ ∀ x ∈ bs.map Prod.fst, x ∉ names ∧ scopeLookup x m = none :=
  FreshBs_iff bs names m

/-- the frame: the scope cell holds the leaves (in reverse pattern order) on top of what it held; every other cell
    of the old heap — in particular the source lists and objects — is untouched; the cells beyond are the rest
    cells of `proj`; nothing is printed -/
theorem bind_nested_frame {σ σ1 : State} {a : Addr} {m : ScopeMap} {p : Pat} {v : SVal} {bs : List Bnd}
    (hs : σ.getScope a = some m) (hp : proj p σ v = some (bs, σ1)) :
    (σ1.set a (.scope (bs.reverse ++ m))).getScope a = some (bs.reverse ++ m) ∧
    (∀ b, b ≠ a → b < σ.heap.size → (σ1.set a (.scope (bs.reverse ++ m))).heap[b]? = σ.heap[b]?) ∧
    (∀ b, b ≠ a → (σ1.set a (.scope (bs.reverse ++ m))).heap[b]? = σ1.heap[b]?) ∧
    σ.heap.size ≤ (σ1.set a (.scope (bs.reverse ++ m))).heap.size ∧
    (σ1.set a (.scope (bs.reverse ++ m))).out = σ.out := by
  have he := proj_ext p σ v bs σ1 hp
  have hs1 : IsScope σ1 a := IsScope.ext ⟨m, hs⟩ he
  refine ⟨getScope_setScope hs1 _, fun b hb hlt => ?_, fun b hb => State.heap_set_other _ _ hb, ?_, ?_⟩
  · rw [State.heap_set_other _ _ hb]; exact he.2.1 b hlt
  · rw [State.size_set]; exact he.1
  · rw [State.out_set]; exact he.2.2

/-- the leaves can be read back: after the bind every leaf name evaluates to the value at its path, and every name
    that is not a leaf reads as before -/
theorem bind_nested_leaves {σ σ1 : State} {a : Addr} {m : ScopeMap} (sc : List Addr) {names : List (List Char)} {p : Pat}
    {v : SVal} {bs : List Bnd} (hs : σ.getScope a = some m) (hp : proj p σ v = some (bs, σ1)) (hf : FreshBs names m bs) :
    (∀ x w l, (x, w, l) ∈ bs → scopeGet (σ1.set a (.scope (bs.reverse ++ m))) (a :: sc) x = some w) ∧
    (∀ x, (∀ b ∈ bs, b.1 ≠ x) → scopeLookup x (bs.reverse ++ m) = scopeLookup x m) := by
  have hget := (bind_nested_frame hs hp).1
  refine ⟨fun x w l hm => ?_, fun x hx => lookup_other hx⟩
  simp only [scopeGet, hget, hf.lookup hm]

/-- a `:=` statement with a nested pattern on the left -/
theorem declare_nested {n : Nat} {σ σ1 σ2 : State} {a : Addr} {sc : List Addr} {m : ScopeMap} {rhs : Expr} {v : SVal}
    {p : Pat} {bs : List Bnd} (he : evalExpr n σ (a :: sc) rhs = .ok v σ1) (hs : σ1.getScope a = some m)
    (hf : p.size ≤ n) (hp : proj p σ1 v = some (bs, σ2)) (hfr : FreshBs [] m bs) :
    evalStmt (n + 1) σ (a :: sc) (.Declare p.toExpr rhs) = .ok .none (σ2.set a (.scope (bs.reverse ++ m))) := by
  rw [evalStmt, he]
  simp only [Res.bind]
  rw [(bind_nested sc [] p v n hs hf _ _).mpr ⟨bs, σ2, hp, hfr, rfl, rfl⟩]

/-- the outermost mismatch of a nested pattern is the documented located error at the pattern's own position (the
    inner ones are in `pmatch`, e.g. the example below) -/
theorem bind_nested_outer_error {σ : State} {a : Addr} {m : ScopeMap} (sc : List Addr) (names : List (List Char))
    (ps : PatList) (pr : PatProps) (c : Bool) (l : Loc) (v : SVal) (fuel : Nat) (hs : σ.getScope a = some m) :
    ((∀ b, v.v ≠ .list b) → (PatList.size ps + 1 ≤ fuel) →
      bindNext fuel σ (a :: sc) names (Pat.list ps c l).toExpr v none true =
        errAt l (Leaf.ListDestructureOnNonList v.v.kind) σ) ∧
    ((∀ b, v.v ≠ .obj b) → (PatProps.size pr + 1 ≤ fuel) →
      bindNext fuel σ (a :: sc) names (Pat.obj pr l).toExpr v none true =
        errAt l (Leaf.ObjectDestructureOnNonObject v.v.kind) σ) ∧
    (∀ b xs, v.v = .list b → σ.getList b = some xs → (PatList.size ps + 1 ≤ fuel) →
      (c = false → ps.length ≠ xs.length →
        bindNext fuel σ (a :: sc) names (Pat.list ps c l).toExpr v none true =
          errAt l (Leaf.ListDestructureItemMismatch ps.length xs.length) σ) ∧
      (c = true → ps.length - 1 > xs.length →
        bindNext fuel σ (a :: sc) names (Pat.list ps c l).toExpr v none true =
          errAt l (Leaf.ListCollectTooFew ps.length xs.length) σ)) := by
  refine ⟨fun hv hf => ?_, fun hv hf => ?_, fun b xs hv hb hf => ⟨fun hc hl => ?_, fun hc hl => ?_⟩⟩
  · rw [bind_nested_exact sc names _ v fuel hs (by simpa [Pat.size] using hf), pmatch]
    cases hvv : v.v <;> simp only [MRes.toRes, set_self hs, Val.kind]
    exact absurd hvv (hv _)
  · rw [bind_nested_exact sc names _ v fuel hs (by simpa [Pat.size] using hf), pmatch]
    cases hvv : v.v <;> simp only [MRes.toRes, set_self hs, Val.kind]
    exact absurd hvv (hv _)
  · rw [bind_nested_exact sc names _ v fuel hs (by simpa [Pat.size] using hf), pmatch]
    subst hc
    simp only [hv, hb, Bool.false_and, Bool.false_eq_true, if_false, Bool.not_false, Bool.true_and, decide_eq_true_eq, hl,
      ne_eq, not_false_eq_true, if_true, MRes.toRes, set_self hs]
  · rw [bind_nested_exact sc names _ v fuel hs (by simpa [Pat.size] using hf), pmatch]
    subst hc
    simp only [hv, hb, Bool.true_and, decide_eq_true_eq, hl, if_true, MRes.toRes, set_self hs]

/-- when the shape does not match, or a leaf name is not new, the answer is a located error (which one: `pmatch`,
    by `bind_nested_exact`) or — on an ill-typed heap only, excluded by C02 — a crash; never ok, never a time-out -/
theorem bind_nested_not_ok {σ : State} {a : Addr} {m : ScopeMap} (sc : List Addr) (names : List (List Char)) (p : Pat)
    (v : SVal) (fuel : Nat) (hs : σ.getScope a = some m) (hf : p.size ≤ fuel)
    (hno : ∀ bs σ1, proj p σ v = some (bs, σ1) → ¬ FreshBs names m bs) :
    (∃ loc leaf σ', bindNext fuel σ (a :: sc) names p.toExpr v none true = errAt loc leaf σ') ∨
    (∃ w σ', bindNext fuel σ (a :: sc) names p.toExpr v none true = .crash w σ') := by
  rw [bind_nested_exact sc names p v fuel hs hf]
  cases hr : pmatch p names m σ v with
  | ok N M S =>
    obtain ⟨bs, e, fr, _⟩ := (pmatch_agree p names m σ v N M S).mp hr
    exact absurd fr (hno bs S e)
  | err loc leaf M S => exact Or.inl ⟨loc, leaf, _, rfl⟩
  | crash w M S => exact Or.inr ⟨w, _, rfl⟩

/-- the collecting position of a list pattern and the `..rest` of an object pattern are matched against a *fresh*
    cell (its address was not in use) that holds exactly the tail `drop (len - 1)` / the properties whose keys remain -/
theorem rest_cells (σ : State) (p : Pat) (r : PatList) (xs : List SVal) (len : Nat) (x : List Char) (l : Loc) (q : PatProps)
    (o : ObjMap) (total : Nat) (rem : List (List Char)) :
    projList (.cons p r) true xs (len - 1) len σ =
      seqP (proj p (σ.alloc (.list (xs.drop (len - 1)))).2 (SVal.plain (.list σ.heap.size)))
        (fun σ' => projList r true xs (len - 1 + 1) len σ') ∧
    projProps (.rest x l q) o (total - 1) total rem σ =
      seqP (projName (σ.alloc (.obj (o.filter fun kv => rem.contains kv.1))).2 x l (SVal.plain (.obj σ.heap.size)))
        (fun σ' => projProps q o (total - 1) total rem σ') ∧
    σ.heap[σ.heap.size]? = none ∧
    (σ.alloc (.list (xs.drop (len - 1)))).2.getList σ.heap.size = some (xs.drop (len - 1)) ∧
    (σ.alloc (.obj (o.filter fun kv => rem.contains kv.1))).2.getObj σ.heap.size =
      some (o.filter fun kv => rem.contains kv.1) := by
  refine ⟨?_, ?_, ?_, ?_, ?_⟩
  · rw [projList]; simp
  · rw [projProps]; simp
  · simp
  · exact getList_eq_some.mpr (State.alloc_heap_new σ _)
  · exact getObj_eq_some.mpr (State.alloc_heap_new σ _)

/-! ### the depth-3 example `[a, {"k": [b, ..c], ..r}, _] := [1, {"k": [2, 3, 4], "z": 5}, 6]` -/

/-- `[a, {"k": [b, ..c], ..r}, _]`, with the positions the parser gives -/
def pex : Pat :=
  .list (.cons (.var c!"a" (1, 2))
        (.cons (.obj (.pair c!"k" (1, 6) (.list (.cons (.var c!"b" (1, 12)) (.cons (.var c!"c" (1, 17)) .nil)) true (1, 11))
                     (.rest c!"r" (1, 23) .nil)) (1, 5))
        (.cons (.var c!"_" (1, 27)) .nil))) false (1, 1)

/-- `Pat.toExpr` is what the parser builds -/
example : parseExprTop c!"[a, {\"k\": [b, ..c], ..r}, _]" = .ok pex.toExpr := by with_unfolding_all rfl

/-- scope cell 0 (holding `print`), cell 1 = `[1, {…}, 6]`, cell 2 = `{"k": [2, 3, 4], "z": 5}`, cell 3 = `[2, 3, 4]` -/
def σnest : State :=
  ⟨#[.scope [(c!"print", SVal.plain (.builtin c!"print" .print), (0, 0))],
     .list [SVal.plain (.int 1), SVal.plain (.obj 2), SVal.plain (.int 6)],
     .obj [(c!"k", SVal.plain (.list 3)), (c!"z", SVal.plain (.int 5))],
     .list [SVal.plain (.int 2), SVal.plain (.int 3), SVal.plain (.int 4)]], []⟩

/-- the leaves, in pattern order; `c` and `r` are bound to the fresh cells 4 = `[3, 4]` and 5 = `{"z": 5}` -/
def bsNest : List Bnd :=
  [(c!"a", SVal.plain (.int 1), (1, 2)), (c!"b", SVal.plain (.int 2), (1, 12)),
   (c!"c", SVal.plain (.list 4), (1, 17)), (c!"r", SVal.plain (.obj 5), (1, 23))]

def σnest1 : State :=
  ⟨(σnest.heap.push (.list [SVal.plain (.int 3), SVal.plain (.int 4)])).push (.obj [(c!"z", SVal.plain (.int 5))]), []⟩

/-- the hypotheses of `bind_nested` (right-hand side) hold … -/
example : σnest.getScope 0 = some [(c!"print", SVal.plain (.builtin c!"print" .print), (0, 0))] ∧
    pex.size = 18 ∧ proj pex σnest (SVal.plain (.list 1)) = some (bsNest, σnest1) ∧
    FreshBs [] [(c!"print", SVal.plain (.builtin c!"print" .print), (0, 0))] bsNest :=
  ⟨by rfl, by rfl, by rfl, by simp [FreshBs, bsNest, scopeLookup]⟩

/-- … and this is the engine's answer (the left-hand side), computed by the evaluator itself -/
example : bindNext 18 σnest [0] [] pex.toExpr (SVal.plain (.list 1)) none true =
    .ok [c!"r", c!"c", c!"b", c!"a"]
      (σnest1.set 0 (.scope (bsNest.reverse ++ [(c!"print", SVal.plain (.builtin c!"print" .print), (0, 0))]))) := by
  with_unfolding_all rfl

/-- hypotheses of `declare_nested`: `xs` holds the list of cell 1, the statement is `[a, {"k": [b, ..c], ..r}, _] := xs` -/
example : evalExpr 18 (σnest.set 0 (.scope [(c!"xs", SVal.plain (.list 1), (0, 0))])) [0] (.mk (.Var c!"xs") (1, 33)) =
      .ok (SVal.plain (.list 1)) (σnest.set 0 (.scope [(c!"xs", SVal.plain (.list 1), (0, 0))])) ∧
    (σnest.set 0 (.scope [(c!"xs", SVal.plain (.list 1), (0, 0))])).getScope 0 = some [(c!"xs", SVal.plain (.list 1), (0, 0))] ∧
    proj pex (σnest.set 0 (.scope [(c!"xs", SVal.plain (.list 1), (0, 0))])) (SVal.plain (.list 1)) =
      some (bsNest, σnest1.set 0 (.scope [(c!"xs", SVal.plain (.list 1), (0, 0))])) ∧
    FreshBs [] [(c!"xs", SVal.plain (.list 1), (0, 0))] bsNest :=
  ⟨by with_unfolding_all rfl, by rfl, by with_unfolding_all rfl, by simp [FreshBs, bsNest, scopeLookup]⟩

/-- the whole pipeline on the source text -/
example : (run 60 c!"t.sd"
      c!"[a, {\"k\": [b, ..c], ..r}, _] := [1, {\"k\": [2, 3, 4], \"z\": 5}, 6];\nprint(a); print(b); print(c); print(r);\n").out =
    [c!"1", c!"2", c!"[\n    3,\n    4,\n]", c!"{\n    \"z\": 5,\n}"] := by
  decide +kernel

/-- an inner mismatch: in `[a, [b]] := [1, 2]` the error is the inner pattern's, at the inner position, and `a` is
    already declared when it is raised (the engine does not roll back) -/
example : pmatch (.list (.cons (.var c!"a" (1, 2)) (.cons (.list (.cons (.var c!"b" (1, 6)) .nil) false (1, 5)) .nil)) false (1, 1))
      [] [] ⟨#[.scope [], .list [SVal.plain (.int 1), SVal.plain (.int 2)]], []⟩ (SVal.plain (.list 1)) =
    .err (1, 5) (Leaf.ListDestructureOnNonList .Int) [(c!"a", SVal.plain (.int 1), (1, 2))]
      ⟨#[.scope [], .list [SVal.plain (.int 1), SVal.plain (.int 2)]], []⟩ := by rfl

/-- a name used twice at different depths: `[a, [a]] := [1, [2]]` -/
example : pmatch (.list (.cons (.var c!"a" (1, 2)) (.cons (.list (.cons (.var c!"a" (1, 6)) .nil) false (1, 5)) .nil)) false (1, 1))
      [] [] ⟨#[.scope [], .list [SVal.plain (.int 1), SVal.plain (.list 2)], .list [SVal.plain (.int 2)]], []⟩
      (SVal.plain (.list 1)) =
    .err (1, 6) (Leaf.AlreadyInBinding c!"a") [(c!"a", SVal.plain (.int 1), (1, 2))]
      ⟨#[.scope [], .list [SVal.plain (.int 1), SVal.plain (.list 2)], .list [SVal.plain (.int 2)]], []⟩ := by rfl

/-- hypotheses of `bind_nested_outer_error` are satisfiable -/
example : (∀ b, (SVal.plain (.int 3)).v ≠ .list b) ∧ PatList.size (.cons (.var c!"a" (1, 2)) .nil) + 1 ≤ 4 :=
  ⟨fun _ h => (by cases h), by decide⟩

/-- in a pair the key `_` is an ordinary key: `{"_": x} := {"_": 1}` looks it up and binds `x` to `1` … -/
example : proj (.obj (.pair c!"_" (1, 2) (.var c!"x" (1, 7)) .nil) (1, 1))
      ⟨#[.scope [], .obj [(c!"_", SVal.plain (.int 1))]], []⟩ (SVal.plain (.obj 1)) =
    some ([(c!"x", SVal.plain (.int 1), (1, 7))], ⟨#[.scope [], .obj [(c!"_", SVal.plain (.int 1))]], []⟩) := by rfl

/-- … the engine itself on that pattern … -/
example : bindNext 5 ⟨#[.scope [], .obj [(c!"_", SVal.plain (.int 1))]], []⟩ [0] []
      (Pat.obj (.pair c!"_" (1, 2) (.var c!"x" (1, 7)) .nil) (1, 1)).toExpr (SVal.plain (.obj 1)) none true =
    .ok [c!"x"] ⟨#[.scope [(c!"x", SVal.plain (.int 1), (1, 7))], .obj [(c!"_", SVal.plain (.int 1))]], []⟩ := by
  with_unfolding_all rfl

/-- … and a missing key `_` is `PropNotFound` at the key, like any other key -/
example : pmatch (.obj (.pair c!"_" (1, 2) (.var c!"x" (1, 7)) .nil) (1, 1)) [] []
      ⟨#[.scope [], .obj [(c!"a", SVal.plain (.int 1))]], []⟩ (SVal.plain (.obj 1)) =
    .err (1, 2) (Leaf.PropNotFound c!"_") [] ⟨#[.scope [], .obj [(c!"a", SVal.plain (.int 1))]], []⟩ := by rfl

/-- only the shorthand `{_}` discards: nothing is looked up (the source need not have the key), nothing is bound;
    the key `_` is nevertheless taken out of what `..r` collects: `{_, ..r} := {"_": 1, "a": 2}` gives `r = {"a": 2}` -/
example : proj (.obj (.short c!"_" (1, 2) .nil) (1, 1)) ⟨#[.scope [], .obj [(c!"a", SVal.plain (.int 1))]], []⟩
      (SVal.plain (.obj 1)) = some ([], ⟨#[.scope [], .obj [(c!"a", SVal.plain (.int 1))]], []⟩) ∧
    proj (.obj (.short c!"_" (1, 2) (.rest c!"r" (1, 7) .nil)) (1, 1))
      ⟨#[.scope [], .obj [(c!"_", SVal.plain (.int 1)), (c!"a", SVal.plain (.int 2))]], []⟩ (SVal.plain (.obj 1)) =
    some ([(c!"r", SVal.plain (.obj 2), (1, 7))],
      ⟨#[.scope [], .obj [(c!"_", SVal.plain (.int 1)), (c!"a", SVal.plain (.int 2))], .obj [(c!"a", SVal.plain (.int 2))]], []⟩) :=
  ⟨by rfl, by rfl⟩

end Seed.C13
