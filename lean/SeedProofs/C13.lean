/-
  C13.lean — destructuring, spread and collect are inverse, lossless rearrangements.

  * list patterns of names: equal length (or ≥ n with `..rest`), position by position, the rest is a fresh list
    holding exactly `drop n`, and `take n ++ drop n` is the source;
  * object patterns of names / renames: each name gets the source's property, the rest is a fresh object with
    exactly the keys that were not named, and rest + named = source;
  * `_` binds nothing, a name binds once per pattern; declaration, assignment, `for` target and parameters all
    go through `bindNext`;
  * spread: `[xs.., ys..]` and `xs + ys` build the same list; `f(xs..)` and `f(xs[0], …)` evaluate to the same
    argument values; the rest parameter is a fresh list of the surplus; the argument-count rule;
  * shape errors are located diagnostics.

  Patterns are treated at depth 1 with names as targets (`bind_nested_partial` of DESIGN.md §6): the general
  statement over nested patterns with computed keys interleaves evaluation with binding,
      theorem bind_nested : bind p v succeeds ↔ shape p v ∧ names distinct, and binds each leaf to `project path v`
  and is not proved here; what is missing is the induction over the pattern tree (each nested level re-enters
  `bindNext` with the names-in-binding set threaded exactly as `bindVars` threads it below).
-/
import SeedProofs.Lemmas.C13Obj
import SeedProofs.Lemmas.C13Call
namespace Seed.C13
open Seed Gen

/-! ## example state -/

/-- scope 0: `xs ↦ [10, 20, 30]` (cell 1), `o ↦ {"a": 1, "k": 2, "z": 3}` (cell 2), `ys ↦ [40]` (cell 3) -/
def σex : State :=
  ⟨#[.scope [(c!"xs", SVal.plain (.list 1), (1, 0)), (c!"o", SVal.plain (.obj 2), (2, 0)), (c!"ys", SVal.plain (.list 3), (3, 0))],
     .list [SVal.plain (.int 10), SVal.plain (.int 20), SVal.plain (.int 30)],
     .obj [(c!"a", SVal.plain (.int 1)), (c!"k", SVal.plain (.int 2)), (c!"z", SVal.plain (.int 3))],
     .list [SVal.plain (.int 40)]], []⟩

example : σex.getList 1 = some [SVal.plain (.int 10), SVal.plain (.int 20), SVal.plain (.int 30)] := by rfl
example : σex.getScope 0 = some [(c!"xs", SVal.plain (.list 1), (1, 0)), (c!"o", SVal.plain (.obj 2), (2, 0)),
    (c!"ys", SVal.plain (.list 3), (3, 0))] := by rfl

/-! ## list patterns -/

theorem varItems_length (vars : List (List Char × Loc)) : (varItems vars).length = vars.length := by
  simp [varItems]

/-- `[x₀, …, xₙ₋₁] := xs` requires equal lengths and then binds the names, left to right, position by position -/
theorem bind_list_spec {σ : State} {b : Addr} {vals : List SVal} (sc : List Addr) (names : List (List Char)) (loc : Loc)
    (decl : Bool) (vars : List (List Char × Loc)) (d : Nat) (rhs : SVal)
    (hr : rhs.v = .list b) (hb : σ.getList b = some vals) :
    bindNext (vars.length + 2 + d) σ sc names (.mk (.List (varItems vars) false) loc) rhs none decl =
      if vars.length = vals.length then bindVars σ sc names decl (vars.zip vals)
      else errAt loc (Leaf.ListDestructureItemMismatch vars.length vals.length) σ := by
  have e1 : vars.length + 2 + d = (vars.length + 1 + d) + 1 := by omega
  rw [e1, bindNext]
  simp only [hr, hb, varItems_length, Bool.false_and, Bool.false_eq_true, if_false, Bool.not_false, Bool.true_and,
    decide_eq_true_eq]
  by_cases h : vars.length = vals.length
  · simp only [h, ne_eq, not_true_eq_false, if_false, if_true]
    have := bindList_vars sc loc decl vals.length vars names 0 d hb (by omega)
    rw [List.drop_zero, h] at this
    exact this
  · simp only [h, ne_eq, not_false_eq_true, if_true, if_false]

example : (SVal.plain (.list 1)).v = .list 1 ∧ σex.getList 1 = some [SVal.plain (.int 10), SVal.plain (.int 20),
    SVal.plain (.int 30)] := ⟨rfl, by rfl⟩

/-- … and for fresh, pairwise different names the declaration succeeds: afterwards the `j`-th name holds the `j`-th
    element (the stored value itself, provenance included), other names are untouched, no other cell changes -/
theorem bind_list_declares {σ : State} {a : Addr} {m : ScopeMap} (sc : List Addr) (names : List (List Char))
    (vars : List (List Char × Loc)) (vals : List SVal)
    (hs : σ.getScope a = some m) (hf : FreshRow m names vars) (hl : vars.length = vals.length) :
    ∃ names' σ' m', bindVars σ (a :: sc) names true (vars.zip vals) = .ok names' σ' ∧
      σ'.getScope a = some m' ∧
      (∀ j (h1 : j < vars.length) (h2 : j < vals.length), (scopeLookup vars[j].1 m').map Prod.fst = some vals[j]) ∧
      (∀ k, (∀ p ∈ vars, p.1 ≠ k) → scopeLookup k m' = scopeLookup k m) ∧
      (∀ b, b ≠ a → σ'.heap[b]? = σ.heap[b]?) :=
  bindVars_declare sc names vars vals hs hf hl

example : FreshRow [(c!"xs", SVal.plain (.list 1), (1, 0))] [] [(c!"p", (5, 1)), (c!"q", (5, 4))] := by
  refine ⟨by decide, by simp, by decide, ?_, by decide, by simp, by decide, ?_, trivial⟩
  · intro p hp; simp at hp; subst hp; decide
  · intro p hp; simp at hp

/-- `[x₀, …, xₙ₋₁, ..r] := xs` requires at least `n` elements; the names get the first `n`, `r` a *fresh* list
    (the address `σ1.heap.size` is new) holding exactly `xs.drop n` -/
theorem bind_list_collect {σ : State} {b : Addr} {vals : List SVal} (sc : List Addr) (names : List (List Char)) (loc : Loc)
    (decl : Bool) (vars : List (List Char × Loc)) (r : List Char) (lr : Loc) (d : Nat) (rhs : SVal)
    (hr : rhs.v = .list b) (hb : σ.getList b = some vals) :
    bindNext (vars.length + 4 + d) σ sc names
        (.mk (.List (varItems vars ++ [ListItem.mk (.mk (.Var r) lr) false]) true) loc) rhs none decl =
      if vars.length ≤ vals.length then
        (bindVars σ sc names decl (vars.zip vals)).bind fun names' σ1 =>
          bindNextName 0 (σ1.alloc (.list (vals.drop vars.length))).2 sc names' r lr
            (SVal.plain (.list σ1.heap.size)) none decl
      else errAt loc (Leaf.ListCollectTooFew (vars.length + 1) vals.length) σ := by
  have e1 : vars.length + 4 + d = (vars.length + ((d + 2) + 1)) + 1 := by omega
  rw [e1, bindNext]
  simp only [hr, hb, List.length_append, varItems_length, List.length_cons, List.length_nil, Nat.zero_add,
    Nat.add_sub_cancel, Bool.true_and, decide_eq_true_eq, Bool.not_true, Bool.false_and, Bool.false_eq_true, if_false]
  by_cases h : vars.length ≤ vals.length
  · have h' : ¬ vars.length > vals.length := by omega
    simp only [h, h', if_true, if_false]
    rw [bindList_vars_tail sc loc decl true (vars.length + 1) _ vars names 0 (d + 2) hb (by omega) (fun _ => by omega),
      List.drop_zero]
    apply res_bind_congr
    intro names' σ1 hres
    have hb1 : σ1.getList b = some vals := by rw [(bindVars_heap hres).1 b]; exact hb
    have := bindList_rest d sc loc decl (vars.length + 1) names' r lr hb1
    simp only [Nat.add_sub_cancel] at this
    simp only [Nat.zero_add]
    exact this
  · have h' : vars.length > vals.length := by omega
    simp only [h, h', if_true, if_false]

/-- collect is lossless: the named prefix and the collected rest concatenate to the source -/
theorem collect_lossless (vals : List SVal) (n : Nat) : vals.take n ++ vals.drop n = vals := List.take_append_drop n vals

/-! ## object patterns -/

/-- `{a, "k": b, ..r} := o` binds the names to the source's properties under those keys, left to right, and `r` to a
    *fresh* object holding exactly the properties whose keys were not named -/
theorem bind_obj_spec {σ : State} {b : Addr} {m : ObjMap} (sc : List Addr) (names : List (List Char)) (loc : Loc) (decl : Bool)
    (ps : List NamedProp) (vals : List SVal) (r : List Char) (lr : Loc) (d : Nat) (rhs : SVal)
    (hr : rhs.v = .obj b) (hb : σ.getObj b = some m) (hrow : NamedRow m ps vals) :
    bindNext (ps.length + 3 + d) σ sc names
        (.mk (.Object (ps.map NamedProp.item ++ [.Single (.mk (.Var r) lr) false true])) loc) rhs none decl =
      (bindVars σ sc names decl ((ps.map NamedProp.var).zip vals)).bind fun names' σ1 =>
        bindNextName 0 (σ1.alloc (.obj (restObj m (ps.map NamedProp.key)))).2 sc names' r lr
          (SVal.plain (.obj σ1.heap.size)) none decl := by
  have e1 : ps.length + 3 + d = (ps.length + (d + 2)) + 1 := by omega
  rw [e1, bindNext]
  simp only [hr, hb]
  rw [bindObject_named sc decl _ ps vals _ names 0 d _ hb hrow]
  apply res_bind_congr
  intro names' σ1 hres
  have hb1 : σ1.getObj b = some m := by rw [(bindVars_heap hres).2.1 b]; exact hb
  have := bindObject_collect (n := d) sc names' r lr decl (ps.length + 1)
    ((m.map Prod.fst).filter fun key => !(ps.map NamedProp.key).contains key) hb1
  simp only [List.length_append, List.length_map, List.length_cons, List.length_nil, Nat.zero_add, Nat.add_sub_cancel]
    at this ⊢
  rw [this, rest_filter_eq]

example : NamedRow [(c!"a", SVal.plain (.int 1)), (c!"k", SVal.plain (.int 2)), (c!"z", SVal.plain (.int 3))]
    [.short c!"a" (4, 1), .pair c!"k" (4, 4) c!"b" (4, 9)] [SVal.plain (.int 1), SVal.plain (.int 2)] := by
  refine ⟨by decide, by rfl, by decide, by decide, by rfl, by decide, trivial⟩

/-- without `..r`: the names are bound, properties that are not named are simply ignored -/
theorem bind_obj_named {σ : State} {b : Addr} {m : ObjMap} (sc : List Addr) (names : List (List Char)) (loc : Loc) (decl : Bool)
    (ps : List NamedProp) (vals : List SVal) (d : Nat) (rhs : SVal)
    (hr : rhs.v = .obj b) (hb : σ.getObj b = some m) (hrow : NamedRow m ps vals) :
    bindNext (ps.length + 3 + d) σ sc names (.mk (.Object (ps.map NamedProp.item)) loc) rhs none decl =
      bindVars σ sc names decl ((ps.map NamedProp.var).zip vals) := by
  have e1 : ps.length + 3 + d = (ps.length + (d + 2)) + 1 := by omega
  rw [e1, bindNext]
  simp only [hr, hb]
  have := bindObject_named sc decl (ps.map NamedProp.item).length ps vals [] names 0 d (m.map Prod.fst) hb hrow
  rw [List.append_nil] at this
  rw [this]
  have e : ∀ (r : Res (List (List Char))), (r.bind fun names' σ1 => Res.ok names' σ1) = r := by intro r; cases r <;> rfl
  conv => rhs; rw [← e (bindVars σ sc names decl ((ps.map NamedProp.var).zip vals))]
  apply res_bind_congr
  intro names' σ1 _
  rw [bindObject]

/-- the rest object has exactly the properties that were not named … -/
theorem rest_exact (m : ObjMap) (used : List (List Char)) (k : List Char) :
    objGet k (restObj m used) = if used.contains k then none else objGet k m := objGet_restObj m used k

/-- … so the bind is lossless: `{"a": a, "k": b, rest..} == o` (the literal inserts the named pairs into the rest) -/
theorem obj_collect_lossless {m : ObjMap} (h : Sorted m) (used : List (List Char)) :
    insertAll (restObj m used) (namedObj m used) = m := rest_plus_named h used

example : Sorted [(c!"a", SVal.plain (.int 1)), (c!"k", SVal.plain (.int 2)), (c!"z", SVal.plain (.int 3))] := by
  unfold Sorted; decide

/-- a named property the source does not have is a located error -/
theorem bind_obj_missing {n : Nat} {σ : State} {b : Addr} {m : ObjMap} (sc : List Addr) (names : List (List Char))
    (lhs : Expr) (pname : List Char) (ploc : Loc) (decl : Bool)
    (hk : pname ≠ c!"_") (hb : σ.getObj b = some m) (hv : objGet pname m = none) :
    bindObjectProp (n + 1) σ sc names lhs b pname ploc decl = errAt ploc (Leaf.PropNotFound pname) σ :=
  bindObjectProp_missing sc names lhs pname ploc decl hk hb hv

example : c!"q" ≠ c!"_" ∧ σex.getObj 2 = some [(c!"a", SVal.plain (.int 1)), (c!"k", SVal.plain (.int 2)),
    (c!"z", SVal.plain (.int 3))] ∧ objGet c!"q" [(c!"a", SVal.plain (.int 1)), (c!"k", SVal.plain (.int 2)),
    (c!"z", SVal.plain (.int 3))] = none := ⟨by decide, by rfl, by decide⟩

/-- the collect must be the last property -/
theorem obj_collect_must_be_last {n : Nat} {σ : State} {b : Addr} (sc : List Addr) (names : List (List Char))
    (x : List Char) (l : Loc) (r : List PropItem) (decl : Bool) (i total : Nat) (rem : List (List Char))
    (h : i ≠ total - 1) :
    bindObject (n + 1) σ sc names (.Single (.mk (.Var x) l) false true :: r) b decl i total rem =
      errAt l Leaf.ObjectCollectIsNotLast σ :=
  bindObject_collect_not_last sc names x l r decl i total rem h

/-! ## `_`, names once, one engine -/

/-- `_` discards: nothing is bound, the state is unchanged -/
theorem underscore_discards (n : Nat) (σ : State) (sc : List Addr) (names : List (List Char)) (loc : Loc) (rhs : SVal)
    (op : Option (BinaryOp × Loc)) (decl : Bool) :
    bindNext (n + 1) σ sc names (.mk (.Var c!"_") loc) rhs op decl = .ok names σ := by
  rw [bindNext_var, bindNextName_underscore]

/-- a name may be bound only once per pattern, in declarations and assignments alike -/
theorem name_once {n : Nat} {σ : State} {sc : List Addr} {names : List (List Char)} {name : List Char} (loc : Loc)
    (rhs : SVal) (op : Option (BinaryOp × Loc)) (decl : Bool) (h1 : name ≠ c!"_") (h2 : name ∈ names) :
    bindNext (n + 1) σ sc names (.mk (.Var name) loc) rhs op decl = errAt loc (Leaf.AlreadyInBinding name) σ := by
  rw [bindNext_var, bindNextName_twice loc rhs op decl h1 h2]

example : c!"a" ≠ c!"_" ∧ c!"a" ∈ [c!"b", c!"a"] := ⟨by decide, by simp⟩

/-- one engine: `:=` and `=` differ only in the declaration flag … -/
theorem same_engine_stmt (n : Nat) (σ : State) (sc : List Addr) (lhs rhs : Expr) :
    evalStmt (n + 1) σ sc (.Declare lhs rhs) =
      ((evalExpr n σ sc rhs).bind fun v σ1 => (bindNext n σ1 sc [] lhs v none true).bind fun _ σ2 => .ok .none σ2) ∧
    evalStmt (n + 1) σ sc (.Assign lhs rhs) =
      ((evalExpr n σ sc rhs).bind fun v σ1 => (bindNext n σ1 sc [] lhs v none false).bind fun _ σ2 => .ok .none σ2) := by
  constructor <;> rw [evalStmt]

/-- … `for` targets and parameters are declarations in the fresh scope of the body: both hand a list of
    (pattern, value) pairs to `evalBlock`, which declares them with `bindNext … true` one after the other -/
theorem same_engine_block (n : Nat) (σ : State) (sc : List Addr) (bindings : List (Expr × SVal)) (stmts : List Stmt)
    (lhs : Expr) (rhs : SVal) :
    evalBlock (n + 1) σ sc bindings stmts =
      ((declareAll n (σ.alloc (.scope [])).2 (σ.heap.size :: sc) bindings).bind fun _ σ2 =>
        evalStmts n σ2 (σ.heap.size :: sc) stmts) ∧
    declareAll (n + 1) σ sc ((lhs, rhs) :: bindings) =
      ((bindNext n σ sc [] lhs rhs none true).bind fun _ σ1 => declareAll n σ1 sc bindings) := by
  constructor
  · rw [evalBlock]; rfl
  · rw [declareAll]

theorem same_engine_for (n : Nat) (σ : State) (sc : List Addr) (lhs : Expr) (k v : SVal) (r : List (SVal × SVal))
    (stmts : List Stmt) :
    evalFor (n + 1) σ sc lhs ((k, v) :: r) stmts =
      (evalBlock n (σ.alloc (.list [k, v])).2 sc [(lhs, SVal.plain (.list σ.heap.size))] stmts).bind fun esc σ2 =>
        match esc with
        | .none => evalFor n σ2 sc lhs r stmts
        | .brk _ => .ok .none σ2
        | .cont _ => evalFor n σ2 sc lhs r stmts
        | .ret v l => .ok (.ret v l) σ2 := by
  rw [evalFor]
  rfl

/-! ## spread -/

theorem evalExpr_var {n : Nat} {σ : State} {sc : List Addr} {x : List Char} {v : SVal} (l : Loc)
    (h : scopeGet σ sc x = some v) : evalExpr (n + 1) σ sc (.mk (.Var x) l) = .ok v σ := by
  rw [evalExpr, h]

/-- `[xs.., ys..]` and `xs + ys` evaluate to the same fresh list (same cell contents, same address, same state) -/
theorem spread_concat {σ : State} {sc : List Addr} {x y : List Char} {vx vy : SVal} {ax ay : Addr} {xs ys : List SVal}
    (n : Nat) (lx ly loc opLoc : Loc)
    (hx : scopeGet σ sc x = some vx) (hvx : vx.v = .list ax) (hax : σ.getList ax = some xs)
    (hy : scopeGet σ sc y = some vy) (hvy : vy.v = .list ay) (hay : σ.getList ay = some ys) :
    evalExpr (n + 4) σ sc (.mk (.List [.mk (.mk (.Var x) lx) true, .mk (.mk (.Var y) ly) true] false) loc) =
      .ok (SVal.plain (.list σ.heap.size)) (σ.alloc (.list (xs ++ ys))).2 ∧
    evalExpr (n + 4) σ sc (.mk (.BinaryOp .Sum opLoc (.mk (.Var x) lx) (.mk (.Var y) ly)) loc) =
      .ok (SVal.plain (.list σ.heap.size)) (σ.alloc (.list (xs ++ ys))).2 := by
  constructor
  · rw [evalExpr]
    simp only [Bool.false_eq_true, if_false]
    rw [evalListItems_cons_spread _ _ (evalExpr_var lx hx) hvx hax,
      evalListItems_cons_spread _ _ (evalExpr_var ly hy) hvy hay, evalListItems_nil]
    simp only [Res.bind, List.nil_append, State.alloc]
  · rw [evalExpr, evalExpr_var lx hx]
    simp only [Res.bind]
    rw [evalExpr_var ly hy]
    simp only [hvx, hvy, applyBinOp, hax, hay, State.alloc]

example : scopeGet σex [0] c!"xs" = some (SVal.plain (.list 1)) ∧ scopeGet σex [0] c!"ys" = some (SVal.plain (.list 3)) ∧
    σex.getList 3 = some [SVal.plain (.int 40)] := ⟨by rfl, by rfl, by rfl⟩

/-- spreading something that is not a list is a located error -/
theorem spread_non_list {n : Nat} {σ σ1 : State} {sc : List Addr} {e : Expr} {v : SVal}
    (r : List ListItem) (acc : List SVal) (h : evalExpr n σ sc e = .ok v σ1) (hv : ∀ a, v.v ≠ .list a) :
    evalListItems (n + 1) σ sc (.mk e true :: r) acc = errAt e.loc (Leaf.SpreadNonListInList v.v.kind) σ1 :=
  evalListItems_cons_spread_nonlist r acc h hv

example : evalExpr 1 σex [0] (.mk (.Var c!"o") (7, 1)) = .ok (SVal.plain (.obj 2)) σex ∧
    ∀ a, (SVal.plain (.obj 2)).v ≠ .list a := ⟨by with_unfolding_all rfl, fun _ h => by cases h⟩

/-- the arguments `xs[i], xs[i+1], …` (`c` of them) -/
def indexItems (x : List Char) (l : Loc) : Nat → Nat → List ListItem
  | _, 0 => []
  | i, c + 1 => .mk (.mk (.Index (.mk (.Var x) l) (.mk (.Int (Int.ofNat i)) l)) l) false :: indexItems x l (i + 1) c

theorem evalExpr_index_var {σ : State} {sc : List Addr} {x : List Char} {vx : SVal} {ax : Addr} {xs : List SVal} (l : Loc)
    (i : Nat) (hi : i < xs.length) (m : Nat) (hm : 5 ≤ m)
    (hx : scopeGet σ sc x = some vx) (hvx : vx.v = .list ax) (hax : σ.getList ax = some xs) :
    evalExpr m σ sc (.mk (.Index (.mk (.Var x) l) (.mk (.Int (Int.ofNat i)) l)) l) = .ok xs[i] σ := by
  obtain ⟨k, rfl⟩ : ∃ k, m = k + 5 := ⟨m - 5, by omega⟩
  rw [evalExpr, evalExpr_var l hx]
  simp only [Res.bind, hvx]
  rw [evalToIndex, evalToInt, evalExpr]
  simp only [Res.bind, SVal.plain, Expr.loc, Int.ofNat_eq_natCast]
  have : ¬ ((i : Int) < 0) := by omega
  simp only [this, if_false, Int.toNat_natCast, hax, List.getElem?_eq_getElem hi]

theorem indexItems_pure {σ : State} {sc : List Addr} {x : List Char} {vx : SVal} {ax : Addr} {xs : List SVal} (l : Loc)
    (hx : scopeGet σ sc x = some vx) (hvx : vx.v = .list ax) (hax : σ.getList ax = some xs)
    (c i : Nat) (h : i + c ≤ xs.length) :
    PureItems 5 σ sc (indexItems x l i c) ((xs.drop i).take c) := by
  induction c generalizing i with
  | zero => simp [indexItems, PureItems]
  | succ c ih =>
    have hi : i < xs.length := by omega
    rw [indexItems, List.drop_eq_getElem_cons hi, List.take_succ_cons]
    exact ⟨rfl, fun m hm => evalExpr_index_var l i hi m hm hx hvx hax, ih (i + 1) (by omega)⟩

/-- `f(xs..)` and `f(xs[0], …, xs[n-1])` evaluate to the same argument values (the stored elements themselves),
    leaving the state unchanged: the call proceeds identically from there -/
theorem call_spread {σ : State} {sc : List Addr} {x : List Char} {vx : SVal} {ax : Addr} {xs : List SVal} (l : Loc) (d : Nat)
    (hx : scopeGet σ sc x = some vx) (hvx : vx.v = .list ax) (hax : σ.getList ax = some xs) :
    evalListItems (d + 3) σ sc [.mk (.mk (.Var x) l) true] [] = .ok xs σ ∧
    evalListItems (5 + xs.length + 1 + d) σ sc (indexItems x l 0 xs.length) [] = .ok xs σ := by
  constructor
  · rw [evalListItems_cons_spread _ _ (evalExpr_var l hx) hvx hax, evalListItems_nil]; rfl
  · have hp := indexItems_pure l hx hvx hax xs.length 0 (by omega)
    have hl : (indexItems x l 0 xs.length).length = xs.length := by
      have : ∀ c i, (indexItems x l i c).length = c := by
        intro c; induction c with
        | zero => intro i; rfl
        | succ c ih => intro i; simp [indexItems, ih]
      exact this _ _
    have := evalListItems_pure hp d []
    rw [hl, List.drop_zero, List.take_length, List.nil_append] at this
    exact this

/-! ## calls: count rule and rest parameter -/

/-- the count rule: exactly `n` arguments, or at least `n - 1` when the last parameter collects -/
theorem arity_rule (numParams got : Nat) :
    (arityOk false numParams got = true ↔ got = numParams) ∧
    (arityOk true numParams got = true ↔ numParams - 1 ≤ got) := by
  simp [arityOk, eq_comm]

/-- a call of a user function: count check at the call position, then the body runs in a fresh scope on the
    *closure* chain with the parameters (and `this`) declared in it -/
theorem call_spec {n : Nat} {σ σ1 σ2 : State} {sc : List Addr} {f : Expr} {args : List ListItem} {loc : Loc}
    {argVals : List SVal} {fv : SVal} {a : Addr} {fr : FuncRec}
    (hargs : evalListItems n σ sc args [] = .ok argVals σ1)
    (hf : evalExpr n σ1 sc f = .ok fv σ2) (hv : fv.v = .func a) (hfr : σ2.getFunc a = some fr) :
    evalCall (n + 1) σ sc f args loc =
      if arityOk fr.collect fr.args.length argVals.length then
        ((evalBlock n (callPlainVals σ2 fr argVals).2 fr.closure
            (callBindings fr (callPlainVals σ2 fr argVals).1 fv.src loc) fr.stmts).mapErr
          (Err.funcCall fr.name loc)).bind finishCall
      else errAt loc (arityErr fr.collect fr.args.length argVals.length) σ2 :=
  evalCall_func hargs hf hv hfr

/-- a state with a function `fn (p, ..r) { }` in cell 1 and `f` bound to it -/
def σfn : State :=
  ⟨#[.scope [(c!"f", SVal.plain (.func 1), (1, 0))],
     .func ⟨none, [.mk (.Var c!"p") (1, 8), .mk (.Var c!"r") (1, 13)], true, [], [0]⟩], []⟩

example : evalListItems 3 σfn [0] [.mk (.mk (.Int 7) (2, 2)) false, .mk (.mk (.Int 8) (2, 5)) false] [] =
      .ok [SVal.plain (.int 7), SVal.plain (.int 8)] σfn ∧
    evalExpr 3 σfn [0] (.mk (.Var c!"f") (2, 0)) = .ok (SVal.plain (.func 1)) σfn ∧
    σfn.getFunc 1 = some ⟨none, [.mk (.Var c!"p") (1, 8), .mk (.Var c!"r") (1, 13)], true, [], [0]⟩ :=
  ⟨by with_unfolding_all rfl, by with_unfolding_all rfl, by rfl⟩

/-- the rest parameter receives exactly the surplus arguments, as a *fresh* list; the parameter values put back
    together are the arguments -/
theorem rest_param {σ : State} {fr : FuncRec} (argVals : List SVal) (h : fr.collect = true) (hpos : 0 < fr.args.length)
    (hok : arityOk fr.collect fr.args.length argVals.length = true) :
    (callPlainVals σ fr argVals).1 = argVals.take (fr.args.length - 1) ++ [SVal.plain (.list σ.heap.size)] ∧
    (callPlainVals σ fr argVals).1.length = fr.args.length ∧
    (callPlainVals σ fr argVals).2.getList σ.heap.size = some (argVals.drop (fr.args.length - 1)) ∧
    (∀ b, b < σ.heap.size → (callPlainVals σ fr argVals).2.heap[b]? = σ.heap[b]?) ∧
    argVals.take (fr.args.length - 1) ++ argVals.drop (fr.args.length - 1) = argVals :=
  ⟨by rw [callPlainVals_rest argVals h], callPlainVals_rest_length argVals h hpos hok,
   (callPlainVals_rest_cell argVals h).1, (callPlainVals_rest_cell argVals h).2, List.take_append_drop _ _⟩

example : (FuncRec.mk none [.mk (.Var c!"p") (1, 8), .mk (.Var c!"r") (1, 13)] true [] [0]).collect = true ∧
    arityOk true 2 3 = true := ⟨rfl, by decide⟩

/-! ## shape errors are located diagnostics -/

theorem shape_list_vs_non_list {n : Nat} {σ : State} (sc : List Addr) (names : List (List Char)) (items : List ListItem)
    (c : Bool) (loc : Loc) (rhs : SVal) (decl : Bool) (h : ∀ b, rhs.v ≠ .list b) :
    bindNext (n + 1) σ sc names (.mk (.List items c) loc) rhs none decl =
      errAt loc (Leaf.ListDestructureOnNonList rhs.v.kind) σ := by
  rw [bindNext]
  simp only

example : ∀ b, (SVal.plain (.int 3)).v ≠ .list b := fun _ h => by cases h

theorem shape_object_vs_non_object {n : Nat} {σ : State} (sc : List Addr) (names : List (List Char)) (props : List PropItem)
    (loc : Loc) (rhs : SVal) (decl : Bool) (h : ∀ b, rhs.v ≠ .obj b) :
    bindNext (n + 1) σ sc names (.mk (.Object props) loc) rhs none decl =
      errAt loc (Leaf.ObjectDestructureOnNonObject rhs.v.kind) σ := by
  rw [bindNext]
  simp only

example : ∀ b, (SVal.plain (.list 1)).v ≠ .obj b := fun _ h => by cases h

theorem shape_spread_in_list_pattern (n : Nat) (σ : State) (sc : List Addr) (names : List (List Char)) (e : Expr)
    (r : List ListItem) (c : Bool) (loc : Loc) (b : Addr) (decl : Bool) (i len : Nat) :
    bindList (n + 1) σ sc names (.mk e true :: r) c loc b decl i len = errAt loc (Leaf.SpreadInListDestructure i) σ := by
  rw [bindList]; rfl

theorem shape_spread_in_object_pattern (n : Nat) (σ : State) (sc : List Addr) (names : List (List Char)) (e : Expr)
    (c : Bool) (r : List PropItem) (b : Addr) (decl : Bool) (i total : Nat) (rem : List (List Char)) :
    bindObject (n + 1) σ sc names (.Single e true c :: r) b decl i total rem =
      errAt e.loc Leaf.SpreadOnObjectDestructure σ := by
  rw [bindObject]; rfl

theorem shape_collect_in_expression (n : Nat) (σ : State) (sc : List Addr) (items : List ListItem) (loc : Loc)
    (e : Expr) (sp : Bool) (r : List PropItem) (acc : ObjMap) :
    evalExpr (n + 1) σ sc (.mk (.List items true) loc) = errAt loc Leaf.ListCollectOutsideDestructure σ ∧
    evalProps (n + 1) σ sc loc (.Single e sp true :: r) acc = errAt loc Leaf.ObjectCollectOutsideDestructure σ := by
  constructor
  · rw [evalExpr]; rfl
  · rw [evalProps]; rfl

theorem shape_op_on_pattern (n : Nat) (σ : State) (sc : List Addr) (names : List (List Char)) (items : List ListItem)
    (props : List PropItem) (c : Bool) (loc : Loc) (rhs : SVal) (op : BinaryOp × Loc) (decl : Bool) :
    bindNext (n + 1) σ sc names (.mk (.List items c) loc) rhs (some op) decl = errAt loc Leaf.OpOnListDestructure σ ∧
    bindNext (n + 1) σ sc names (.mk (.Object props) loc) rhs (some op) decl = errAt loc Leaf.OpOnObjectDestructure σ := by
  constructor <;> rw [bindNext]

end Seed.C13
