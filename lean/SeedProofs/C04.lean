/-
  C04 — lexical scoping; closures capture their defining scope by reference.

  Certain part (scope layer): `scopeGet` finds the innermost scope that holds the name, `scopeAssign` rewrites
  exactly that cell, `scopeDeclare` touches only the innermost scope cell and shadows without disturbing outer
  scopes; an update is seen through *every* chain that reaches the same cell (capture by reference).
  Evaluator part (one unfolding each): every block / branch / iteration / call body runs in one fresh scope
  cell pushed on the chain it is given; a function value stores the defining chain itself; `evalCall` uses the
  caller's chain only for the arguments and the callee expression — the body runs on `closure`.
  Renaming: the scope layer and `bindNextName` are equivariant under an injective renaming that fixes `_`
  (`alpha_equivariance_partial`, `bindNextName_equivariant`), and — through the whole evaluator, by induction on the
  fuel over all 23 functions (Lemmas/C04Equiv{Defs,Prim,Eval}.lean) — the run of the renamed program is the renaming
  of the run: `alpha_equivariance`, with the corollary `renaming_preserves_output`.
-/
import SeedProofs.Lemmas.C04Scope
import SeedProofs.Lemmas.C04Rename
import SeedProofs.Lemmas.C04EquivEval
namespace Seed.C04
open Seed ScopeL

/-! ### concrete states used by the `example`s: scope 0 = globals `{x ↦ 1}`, scope 1 = a block `{y ↦ 2}`,
    scope 2 = an inner block `{x ↦ 3}` shadowing the global -/

def sv (n : Int) : SVal := SVal.plain (.int n)
def σ₀ : State :=
  ⟨#[.scope [(c!"x", sv 1, (1, 0))], .scope [(c!"y", sv 2, (2, 4))], .scope [(c!"x", sv 3, (3, 8))]], []⟩

/-! ### lookup -/

/-- the chain is walked innermost first: the top scope answers if it has the name, otherwise the rest does -/
theorem get_innermost (σ : State) (top : Addr) (sc : List Addr) (x : List Char) (m : ScopeMap)
    (h : σ.getScope top = some m) :
    scopeGet σ (top :: sc) x = ((scopeLookup x m).map Prod.fst).orElse (fun _ => scopeGet σ sc x) := by
  rw [scopeGet_cons, h]
  cases hl : scopeLookup x m with
  | none => simp only [hl]; rfl
  | some p => obtain ⟨v, l⟩ := p; simp only [hl]; rfl

example : σ₀.getScope 2 = some [(c!"x", sv 3, (3, 8))] := by decide

/-- `scopeGet` returns the value held by the innermost scope of the chain that has the name: every scope
    before it is a scope cell without the name -/
theorem get_finds_innermost {σ : State} {sc : List Addr} {x : List Char} {v : SVal} :
    scopeGet σ sc x = some v ↔
      ∃ pre a post m l, sc = pre ++ a :: post ∧ Skips σ pre x ∧ σ.getScope a = some m ∧ scopeLookup x m = some (v, l) :=
  scopeGet_some_iff

example : scopeGet σ₀ [2, 1, 0] c!"x" = some (sv 3) := by decide      -- the shadowing declaration wins
example : scopeGet σ₀ [1, 0] c!"x" = some (sv 1) := by decide         -- outside the inner block: the global
example : scopeGet σ₀ [2, 1, 0] c!"y" = some (sv 2) := by decide
example : scopeGet σ₀ [2, 1, 0] c!"z" = none := by decide

/-- a name that no scope of the chain holds is not found -/
theorem get_none_of_skips {σ : State} {sc : List Addr} {x : List Char} (h : Skips σ sc x) : scopeGet σ sc x = none := by
  have := scopeGet_skip h []
  rw [List.append_nil] at this; rw [this]; rfl

example : Skips σ₀ [2, 1, 0] c!"z" := by
  intro b hb
  simp only [List.mem_cons, List.not_mem_nil, or_false] at hb
  rcases hb with rfl | rfl | rfl
  · exact ⟨[(c!"x", sv 3, (3, 8))], by decide, by decide⟩
  · exact ⟨[(c!"y", sv 2, (2, 4))], by decide, by decide⟩
  · exact ⟨[(c!"x", sv 1, (1, 0))], by decide, by decide⟩

/-! ### assignment -/

/-- `scopeAssign` changes exactly the nearest scope cell that has the name: the cell keeps the declaration
    position and every other name, every other address keeps its cell, nothing is printed or allocated -/
theorem assign_nearest {σ σ' : State} {sc : List Addr} {x : List Char} {v : SVal}
    (h : scopeAssign σ sc x v = some σ') :
    ∃ pre a post m w l, sc = pre ++ a :: post ∧ Skips σ pre x ∧ σ.getScope a = some m ∧ scopeLookup x m = some (w, l) ∧
      σ'.getScope a = some (scopeSetVal x v m) ∧
      scopeLookup x (scopeSetVal x v m) = some (v, l) ∧
      (∀ y, y ≠ x → scopeLookup y (scopeSetVal x v m) = scopeLookup y m) ∧
      (∀ b, b ≠ a → σ'.heap[b]? = σ.heap[b]?) ∧ σ'.out = σ.out ∧ σ'.heap.size = σ.heap.size := by
  obtain ⟨pre, a, post, m, w, l, e, hs, h1, h2, rfl⟩ := scopeAssign_some_iff.mp h
  exact ⟨pre, a, post, m, w, l, e, hs, h1, h2, getScope_set_same _ (getScope_lt h1), lookup_setVal_same h2,
    fun y hy => lookup_setVal_other hy m, fun b hb => set_other σ a _ hb, rfl, set_size σ a _⟩

example : ∃ σ', scopeAssign σ₀ [1, 0] c!"x" (sv 7) = some σ' := ⟨_, rfl⟩

/-- after an assignment through a chain, reading through **any** chain that reaches the same cell first
    (a closure's chain, the caller's chain, a deeper block) yields the new value -/
theorem assign_seen_through_every_chain {σ σ' : State} {sc : List Addr} {x : List Char} {v : SVal}
    (h : scopeAssign σ sc x v = some σ') :
    ∃ a, (∃ pre post, sc = pre ++ a :: post ∧ Skips σ pre x) ∧
      ∀ pre' post', Skips σ pre' x → scopeGet σ' (pre' ++ a :: post') x = some v := by
  obtain ⟨pre, a, post, m, w, l, e, hs, h1, h2, rfl⟩ := scopeAssign_some_iff.mp h
  refine ⟨a, ⟨pre, post, e, hs⟩, ?_⟩
  intro pre' post' hs'
  have hs'' : Skips (σ.set a (.scope (scopeSetVal x v m))) pre' x := by
    intro b hb
    obtain ⟨mb, hb1, hb2⟩ := hs' b hb
    have : b ≠ a := by
      rintro rfl
      rw [h1] at hb1; cases hb1; rw [h2] at hb2; cases hb2
    exact ⟨mb, by rw [getScope_set_other _ this]; exact hb1, hb2⟩
  rw [scopeGet_skip hs'']
  exact scopeGet_hit (getScope_set_same _ (getScope_lt h1)) (lookup_setVal_same h2) post'

/-- in particular through the chain that was used for the assignment -/
theorem assign_then_get {σ σ' : State} {sc : List Addr} {x : List Char} {v : SVal}
    (h : scopeAssign σ sc x v = some σ') : scopeGet σ' sc x = some v := by
  obtain ⟨a, ⟨pre, post, e, hs⟩, hall⟩ := assign_seen_through_every_chain h
  rw [e]; exact hall pre post hs

/-- an assignment to `x` leaves every other name as it was, through every chain -/
theorem assign_other_names {σ σ' : State} {sc : List Addr} {x : List Char} {v : SVal}
    (h : scopeAssign σ sc x v = some σ') (sc' : List Addr) (y : List Char) (hy : y ≠ x) :
    scopeGet σ' sc' y = scopeGet σ sc' y := by
  obtain ⟨pre, a, post, m, w, l, e, hs, h1, h2, rfl⟩ := scopeAssign_some_iff.mp h
  apply scopeGet_congr
  intro b _
  by_cases hb : b = a
  · subst hb
    rw [getScope_set_same _ (getScope_lt h1), h1]
    simp only [Option.map, lookup_setVal_other hy]
  · rw [getScope_set_other _ hb]

/-- the shadowed outer variable is untouched: assigning `x` inside the inner block of `σ₀` changes scope 2,
    and the global `x` read from outside is still 1 -/
example : (scopeAssign σ₀ [2, 1, 0] c!"x" (sv 7)).map (fun σ' => (scopeGet σ' [2, 1, 0] c!"x", scopeGet σ' [1, 0] c!"x"))
    = some (some (sv 7), some (sv 1)) := by decide

/-- assignment fails exactly when the name cannot be read (`Undefined`) -/
theorem assign_fails_iff (σ : State) (sc : List Addr) (x : List Char) (v : SVal) :
    scopeAssign σ sc x v = none ↔ scopeGet σ sc x = none := scopeAssign_none_iff σ sc x v

/-! ### declaration -/

/-- only the innermost scope is consulted: the rest of the chain is irrelevant to `declare` -/
theorem declare_ignores_outer (σ : State) (top : Addr) (sc sc' : List Addr) (x : List Char) (loc : Loc) (v : SVal) :
    scopeDeclare σ (top :: sc) x loc v = scopeDeclare σ (top :: sc') x loc v := rfl

/-- `scopeDeclare` touches only the innermost scope cell -/
theorem declare_top_only {σ σ' : State} {top : Addr} {sc : List Addr} {x : List Char} {loc : Loc} {v : SVal}
    (h : scopeDeclare σ (top :: sc) x loc v = .ok σ') :
    (∀ b, b ≠ top → σ'.heap[b]? = σ.heap[b]?) ∧ σ'.out = σ.out ∧ σ'.heap.size = σ.heap.size ∧
      ∃ m, σ.getScope top = some m ∧ σ'.getScope top = some ((x, v, loc) :: m) := by
  obtain ⟨m, h1, _, rfl⟩ := scopeDeclare_ok_iff.mp h
  exact ⟨fun b hb => set_other σ top _ hb, rfl, set_size σ top _, m, h1, getScope_set_same _ (getScope_lt h1)⟩

example : ∃ σ', scopeDeclare σ₀ [1, 0] c!"x" (9, 9) (sv 5) = .ok σ' := ⟨_, rfl⟩

/-- it fails, reporting the previous position, iff the innermost scope already has the name -/
theorem declare_dup_iff {σ : State} {top : Addr} {sc : List Addr} {x : List Char} {loc prev : Loc} {v : SVal} :
    scopeDeclare σ (top :: sc) x loc v = .dup prev ↔ ∃ m w, σ.getScope top = some m ∧ scopeLookup x m = some (w, prev) :=
  scopeDeclare_dup_iff

/-- it succeeds iff the innermost scope does not have it — whatever the outer scopes hold (shadowing) -/
theorem declare_ok_iff {σ σ' : State} {top : Addr} {sc : List Addr} {x : List Char} {loc : Loc} {v : SVal} :
    scopeDeclare σ (top :: sc) x loc v = .ok σ' ↔
      ∃ m, σ.getScope top = some m ∧ scopeLookup x m = none ∧ σ' = σ.set top (.scope ((x, v, loc) :: m)) :=
  scopeDeclare_ok_iff

/-- shadowing: a declaration in the top scope leaves every lookup through the outer chain unchanged
    (the outer `x` included) -/
theorem shadow_frame {σ σ' : State} {top : Addr} {sc : List Addr} {x : List Char} {loc : Loc} {v : SVal}
    (h : scopeDeclare σ (top :: sc) x loc v = .ok σ') (hfresh : top ∉ sc) (y : List Char) :
    scopeGet σ' sc y = scopeGet σ sc y := by
  obtain ⟨m, _, _, rfl⟩ := scopeDeclare_ok_iff.mp h
  exact scopeGet_frame y (fun a ha => set_other σ top _ (fun e => hfresh (e ▸ ha)))

example : (match scopeDeclare σ₀ [1, 0] c!"x" (9, 9) (sv 5) with
    | .ok σ' => (scopeGet σ' [1, 0] c!"x", scopeGet σ' [0] c!"x") | _ => (none, none)) = (some (sv 5), some (sv 1)) := by
  decide
example : (1 : Addr) ∉ ([0] : List Addr) := by decide

/-- the declared name is then read through the declaring chain — which is also the chain stored in every
    closure created in this scope *before* the declaration (the same address list) -/
theorem declare_then_get {σ σ' : State} {top : Addr} {sc : List Addr} {x : List Char} {loc : Loc} {v : SVal}
    (h : scopeDeclare σ (top :: sc) x loc v = .ok σ') : scopeGet σ' (top :: sc) x = some v := by
  obtain ⟨m, h1, _, rfl⟩ := scopeDeclare_ok_iff.mp h
  exact scopeGet_hit (getScope_set_same _ (getScope_lt h1)) (lookup_cons_same x v loc m) sc

/-- declaring `x` leaves every other name as it was, through every chain -/
theorem declare_other_names {σ σ' : State} {top : Addr} {sc : List Addr} {x : List Char} {loc : Loc} {v : SVal}
    (h : scopeDeclare σ (top :: sc) x loc v = .ok σ') (sc' : List Addr) (y : List Char) (hy : y ≠ x) :
    scopeGet σ' sc' y = scopeGet σ sc' y := by
  obtain ⟨m, h1, _, rfl⟩ := scopeDeclare_ok_iff.mp h
  apply scopeGet_congr
  intro b _
  by_cases hb : b = top
  · subst hb
    rw [getScope_set_same _ (getScope_lt h1), h1]
    simp only [Option.map, lookup_cons_other hy]
  · rw [getScope_set_other _ hb]

/-! ### one fresh scope per block, branch, iteration and call -/

/-- `evalBlock` allocates one new, empty scope cell at the next free address, pushes it on the chain it was
    given, binds there and runs the statements there -/
theorem block_fresh_scope (n : Nat) (σ : State) (sc : List Addr) (bs : List (Expr × SVal)) (ss : List Stmt) :
    evalBlock (n + 1) σ sc bs ss =
      (declareAll n (σ.alloc (.scope [])).2 (σ.heap.size :: sc) bs).bind fun _ σ2 =>
        evalStmts n σ2 (σ.heap.size :: sc) ss := by
  rw [evalBlock]; rfl

/-- the new address is not in the chain (all live addresses are below the heap size) and every existing cell
    is preserved; through the new chain every name still resolves as before -/
theorem fresh_scope_is_new (σ : State) (sc : List Addr) (hwf : ∀ a ∈ sc, a < σ.heap.size) :
    σ.heap.size ∉ sc ∧ (∀ b, b < σ.heap.size → (σ.alloc (.scope [])).2.heap[b]? = σ.heap[b]?) ∧
      (σ.alloc (.scope [])).2.getScope σ.heap.size = some [] ∧
      ∀ x, scopeGet (σ.alloc (.scope [])).2 (σ.heap.size :: sc) x = scopeGet σ sc x := by
  refine ⟨fun h => Nat.lt_irrefl _ (hwf _ h), fun b hb => alloc_old σ _ hb, getScope_heap.mpr (alloc_new σ _), ?_⟩
  intro x
  rw [scopeGet_cons, getScope_heap.mpr (alloc_new σ _)]
  exact scopeGet_frame x (fun a ha => alloc_old σ _ (hwf a ha))

example : ∀ a ∈ ([2, 1, 0] : List Addr), a < σ₀.heap.size := by decide

/-- bare block, `if` branch, `else`, `while` body, `for` body: all are `evalBlock` on the current chain -/
theorem block_stmt_uses_evalBlock (n : Nat) (σ : State) (sc : List Addr) (b : List Stmt) :
    evalStmt (n + 1) σ sc (.Block b) = evalBlock n σ sc [] b := by
  rw [evalStmt]

theorem else_uses_evalBlock (n : Nat) (σ : State) (sc : List Addr) (ss : List Stmt) :
    evalIf (n + 1) σ sc [] (some ss) = evalBlock n σ sc [] ss := by
  rw [evalIf]

theorem branch_uses_evalBlock (n : Nat) (σ : State) (sc : List Addr) (c : Expr) (ss : List Stmt) (r : List Branch)
    (els : Option (List Stmt)) :
    evalIf (n + 1) σ sc (.mk c ss :: r) els =
      (evalToBool n σ sc c!"condition" c).bind fun b σ1 => if b then evalBlock n σ1 sc [] ss else evalIf n σ1 sc r els := by
  rw [evalIf]

/-- each iteration of `while` gets its own `evalBlock` (hence its own fresh scope) -/
theorem while_iteration_fresh (n : Nat) (σ : State) (sc : List Addr) (c : Expr) (ss : List Stmt) :
    evalWhile (n + 1) σ sc c ss =
      (evalToBool n σ sc c!"condition" c).bind fun b σ1 =>
        if !b then .ok .none σ1
        else (evalBlock n σ1 sc [] ss).bind fun esc σ2 =>
          match esc with
          | .none => evalWhile n σ2 sc c ss
          | .brk _ => .ok .none σ2
          | .cont _ => evalWhile n σ2 sc c ss
          | .ret v l => .ok (.ret v l) σ2 := by
  rw [evalWhile]; rfl

/-- each iteration of `for` gets its own `evalBlock`, with the target declared in that same fresh scope -/
theorem for_iteration_fresh (n : Nat) (σ : State) (sc : List Addr) (lhs : Expr) (k v : SVal) (r : List (SVal × SVal))
    (ss : List Stmt) :
    evalFor (n + 1) σ sc lhs ((k, v) :: r) ss =
      (evalBlock n (σ.alloc (.list [k, v])).2 sc [(lhs, SVal.plain (.list σ.heap.size))] ss).bind fun esc σ2 =>
        match esc with
        | .none => evalFor n σ2 sc lhs r ss
        | .brk _ => .ok .none σ2
        | .cont _ => evalFor n σ2 sc lhs r ss
        | .ret v l => .ok (.ret v l) σ2 := by
  rw [evalFor]; rfl

/-! ### closures -/

/-- a function expression stores the defining chain itself — the same address list, so the same cells:
    later declarations and assignments in those scopes are what the body reads, and the cells stay
    reachable after the block ends (cells are never freed) -/
theorem closure_shares_expr (n : Nat) (σ : State) (sc : List Addr) (args : List Expr) (c : Bool) (ss : List Stmt) (loc : Loc) :
    evalExpr (n + 1) σ sc (.mk (.Func args c ss) loc) =
        .ok (SVal.plain (.func σ.heap.size)) (σ.alloc (.func ⟨none, args, c, ss, sc⟩)).2 ∧
      ((σ.alloc (.func ⟨none, args, c, ss, sc⟩)).2.getFunc σ.heap.size).map (·.closure) = some sc := by
  constructor
  · rw [evalExpr]; rfl
  · unfold State.getFunc; rw [alloc_new]; rfl

/-- the same for `fn name(…) {…}`: the chain is stored, then the name is declared in the top scope of that
    very chain, so the function can call itself -/
theorem closure_shares_stmt (n : Nat) (σ : State) (sc : List Addr) (name : List Char) (nl : Loc) (args : List Expr) (c : Bool)
    (ss : List Stmt) (hv : validateArgs n args [] = some none) :
    evalStmt (n + 1) σ sc (.Func name nl args c ss) =
      (bindNextName n (σ.alloc (.func ⟨some name, args, c, ss, sc⟩)).2 sc [] name nl (SVal.plain (.func σ.heap.size)) none true).bind
        fun _ σ2 => .ok .none σ2 := by
  rw [evalStmt]; simp only [validateArgsRes, hv, Res.bind]; rfl

example : validateArgs 5 [Expr.mk (.Var c!"p") (1, 5)] [] = some none := by rfl

/-! ### calls never see the caller's scopes -/

/-- what a call does once the arguments and the callee value are known: **no scope chain is a parameter** -/
def callValue (n : Nat) (σ2 : State) (fv : SVal) (argVals : List SVal) (loc : Loc) : Res SVal :=
  match fv.v with
  | .builtin name id =>
    (callBuiltin n σ2 id (fv.src.map SVal.plain) argVals).mapErr (Err.builtinCall (some name) loc)
  | .func a =>
    match σ2.getFunc a with
    | none => crashHeap σ2
    | some fr =>
      let numParams := fr.args.length
      let got := argVals.length
      if fr.collect && numParams - 1 > got then errAt loc (Gen.Leaf.TooFewArgs (numParams - 1) got) σ2
      else if !fr.collect && numParams ≠ got then errAt loc (Gen.Leaf.ArgNumMismatch numParams got) σ2
      else
        let (plainVals, σ3) :=
          if fr.collect then
            let (ra, σ3) := σ2.alloc (.list (argVals.drop (numParams - 1)))
            (argVals.take (numParams - 1) ++ [SVal.plain (.list ra)], σ3)
          else (argVals, σ2)
        let bindings := fr.args.zip plainVals
        let bindings :=
          match fv.src with
          | some this => bindings ++ [(Expr.mk (.Var c!"this") loc, SVal.plain this)]
          | none => bindings
        ((evalBlock n σ3 fr.closure bindings fr.stmts).mapErr (Err.funcCall fr.name loc)).bind fun esc σ4 =>
        match esc with
        | .none => .ok (SVal.plain .null) σ4
        | .brk l => errAt l Gen.Leaf.BreakOutsideLoop σ4
        | .cont l => errAt l Gen.Leaf.ContinueOutsideLoop σ4
        | .ret v _ => .ok v σ4
  | v => errAt loc (Gen.Leaf.CannotCallNonFunc v.kind) σ2

/-- `evalCall` uses the caller's chain `sc` to evaluate the arguments and the callee expression and for nothing
    else: the body runs in a fresh scope pushed on `fr.closure` (see `block_fresh_scope`) -/
theorem call_factors (n : Nat) (σ : State) (sc : List Addr) (f : Expr) (args : List ListItem) (loc : Loc) :
    evalCall (n + 1) σ sc f args loc =
      (evalListItems n σ sc args []).bind fun argVals σ1 =>
      (evalExpr n σ1 sc f).bind fun fv σ2 => callValue n σ2 fv argVals loc := by
  rw [evalCall]; rfl

/-- two call sites with different scope chains (different callers, different depths of blocks) that produce the
    same argument values, the same function value and the same state behave identically: the callee cannot
    observe its caller's variables (no dynamic scoping) -/
theorem call_ignores_caller_scopes (n : Nat) (σ σ' : State) (sc sc' : List Addr) (f f' : Expr) (args args' : List ListItem)
    (loc : Loc) (argVals : List SVal) (σ1 : State) (fv : SVal) (σ2 : State)
    (ha : evalListItems n σ sc args [] = .ok argVals σ1) (ha' : evalListItems n σ' sc' args' [] = .ok argVals σ1)
    (hf : evalExpr n σ1 sc f = .ok fv σ2) (hf' : evalExpr n σ1 sc' f' = .ok fv σ2) :
    evalCall (n + 1) σ sc f args loc = evalCall (n + 1) σ' sc' f' args' loc := by
  rw [call_factors, call_factors, ha, ha']
  simp only [Res.bind, hf, hf']

/-- hypotheses satisfiable: the global `x` holds the same value seen from chain `[0]` and from chain `[1, 0]` -/
example : evalExpr 1 σ₀ [0] (.mk (.Var c!"x") (1, 0)) = .ok (sv 1) σ₀ ∧
          evalExpr 1 σ₀ [1, 0] (.mk (.Var c!"x") (5, 5)) = .ok (sv 1) σ₀ ∧
          evalListItems 1 σ₀ [0] [] [] = .ok [] σ₀ ∧ evalListItems 1 σ₀ [1, 0] [] [] = .ok [] σ₀ := by
  refine ⟨?_, ?_, ?_, ?_⟩
  · rw [evalExpr]; rfl
  · rw [evalExpr]; rfl
  · rw [evalListItems]
  · rw [evalListItems]

/-! ### consistent renaming

  `alpha_equivariance` (below, after the two partial results it grew from): for an injective renaming `π` of variable
  names that keeps `_`, `this` and `print` apart, the run of the renamed program is the renaming of the run — same
  addresses, same heap shape, scope cells with renamed keys, function cells with renamed code, the *same printed
  lines*, the same outcome, and a diagnostic that differs only in the variable name it mentions.

  The action `Eqv.rStmts π` renames every variable occurrence (`Var`), every parameter and every `fn` statement name.
  Two kinds of name are not only variables, and `π` has to fix them (`Eqv.okStmts π P prog`):
    * the name of a `fn name(…)` statement, which `print(f)` and stack traces show;
    * a name used in object shorthand `{a}` (expression or pattern), which is also the property key — the harness
      expands `{a}` to `{"a": a'}` instead, which is the same program up to one evaluation step of fuel.
  Interpolation slots are parsed from the text of the literal at run time, so no action on syntax trees reaches
  them: `P` is any set of slot expressions that `π` leaves alone (`hP`); `P := fun _ => False` covers programs
  without slots.
-/

/-- the scope layer is equivariant: renaming the keys of every scope cell with an injective `π` and looking
    up / assigning / declaring `π x` is the renaming of doing it with `x` -/
theorem alpha_equivariance_partial (π : List Char → List Char) (hπ : ∀ a b, π a = π b → a = b)
    (σ : State) (sc : List Addr) (x : List Char) (v : SVal) (loc : Loc) :
    scopeGet (Ren.state π σ) sc (π x) = scopeGet σ sc x ∧
    scopeAssign (Ren.state π σ) sc (π x) v = (scopeAssign σ sc x v).map (Ren.state π) ∧
    scopeDeclare (Ren.state π σ) sc (π x) loc v = Ren.decl π (scopeDeclare σ sc x loc v) :=
  ⟨Ren.scopeGet_ren π hπ σ sc x, Ren.scopeAssign_ren π hπ σ sc x v, Ren.scopeDeclare_ren π hπ σ sc x loc v⟩

/-- … and so is the name binder (`:=`, `=`, `fn`, parameters, `for` targets all end here), for a renaming that
    keeps `_` apart: same outcome, with the name in the diagnostic renamed -/
theorem bindNextName_equivariant (π : List Char → List Char) (hπ : ∀ a b, π a = π b → a = b)
    (hu : ∀ a, π a = c!"_" ↔ a = c!"_")
    (fuel : Nat) (σ : State) (sc : List Addr) (names : List (List Char)) (x : List Char) (loc : Loc) (rhs : SVal) (decl : Bool) :
    bindNextName fuel (Ren.state π σ) sc (names.map π) (π x) loc rhs none decl =
      Ren.res π (bindNextName fuel σ sc names x loc rhs none decl) :=
  Ren.bindNextName_ren π hπ hu fuel σ sc names x loc rhs decl

/-- a renaming satisfying the hypotheses: append a prime to every name except `_` -/
example : ∃ π : List Char → List Char, (∀ a b, π a = π b → a = b) ∧ (∀ a, π a = c!"_" ↔ a = c!"_") ∧ π c!"x" ≠ c!"x" := by
  refine ⟨fun a => if a = c!"_" then a else a ++ c!"'", ?_, ?_, by decide⟩
  · intro a b h
    by_cases ha : a = c!"_" <;> by_cases hb : b = c!"_" <;> simp only [ha, hb, if_true, if_false] at h
    · rw [ha, hb]
    · have := congrArg List.length h; simp at this
      cases b with
      | nil => simp at h
      | cons c r => cases r with
        | nil => simp at h
        | cons d r => simp at this
    · have := congrArg List.length h; simp at this
      cases a with
      | nil => simp at h
      | cons c r => cases r with
        | nil => simp at h
        | cons d r => simp at this
    · exact List.append_cancel_right h
  · intro a
    by_cases ha : a = c!"_"
    · simp [ha]
    · simp only [ha, if_false, iff_false]
      intro h
      have := congrArg List.length h; simp at this
      cases a with
      | nil => simp at h
      | cons c r => simp at this


/-! ### the full theorem -/

open Eqv in
/-- **Consistent renaming never changes what a program prints**: the whole run of the renamed program is the renaming
    of the run.  (`Eqv.rRes π id` keeps the result value, renames the final state — which leaves `out` untouched — and
    renames the variable name inside the diagnostic.) -/
theorem alpha_equivariance (π : List Char → List Char) (P : Expr → Prop)
    (hπ : ∀ a b, π a = π b → a = b) (hu : ∀ a, π a = c!"_" ↔ a = c!"_")
    (hthis : π c!"this" = c!"this") (hprint : π c!"print" = c!"print")
    (hP : ∀ ast, P ast → rExpr π ast = ast ∧ okExpr π P ast)
    (n : Nat) (prog : List Stmt) (hok : okStmts π P prog) :
    evalProg n (rStmts π prog) = rRes π id (evalProg n prog) :=
  evalProg_ren hπ hu hthis hP hprint n prog hok

/-- what `seed` shows of a run: the printed lines and whether it succeeded / failed / crashed / ran out of fuel -/
def observable : Res Unit → List (List Char) × Nat
  | .ok _ σ => (σ.out, 0)
  | .err _ σ => (σ.out, 103)
  | .crash _ σ => (σ.out, 101)
  | .timeout => ([], 1)

open Eqv in
/-- the printed lines and the exit status of the renamed program are those of the program -/
theorem renaming_preserves_output (π : List Char → List Char) (P : Expr → Prop)
    (hπ : ∀ a b, π a = π b → a = b) (hu : ∀ a, π a = c!"_" ↔ a = c!"_")
    (hthis : π c!"this" = c!"this") (hprint : π c!"print" = c!"print")
    (hP : ∀ ast, P ast → rExpr π ast = ast ∧ okExpr π P ast)
    (n : Nat) (prog : List Stmt) (hok : okStmts π P prog) :
    observable (evalProg n (rStmts π prog)) = observable (evalProg n prog) := by
  rw [alpha_equivariance π P hπ hu hthis hprint hP n prog hok]
  cases evalProg n prog <;> rfl

open Eqv in
/-- … and the diagnostic is the same up to the renamed variable name -/
theorem renaming_renames_diagnostic (π : List Char → List Char) (P : Expr → Prop)
    (hπ : ∀ a b, π a = π b → a = b) (hu : ∀ a, π a = c!"_" ↔ a = c!"_")
    (hthis : π c!"this" = c!"this") (hprint : π c!"print" = c!"print")
    (hP : ∀ ast, P ast → rExpr π ast = ast ∧ okExpr π P ast)
    (n : Nat) (prog : List Stmt) (hok : okStmts π P prog) (e : Err) (σ : State)
    (h : evalProg n prog = .err e σ) :
    evalProg n (rStmts π prog) = .err (rErr π e) (rSt π σ) := by
  rw [alpha_equivariance π P hπ hu hthis hprint hP n prog hok, h]; rfl

/-! the hypotheses are satisfiable: the renaming that swaps `a` and `b`, and the program

        a := 1
        fn f(p) { return p + a; }
        print(f(2))                                                                                  -/

def swapAB (x : List Char) : List Char := if x = c!"a" then c!"b" else if x = c!"b" then c!"a" else x

theorem swapAB_invol (x : List Char) : swapAB (swapAB x) = x := by
  unfold swapAB
  by_cases h1 : x = c!"a"
  · simp [h1]
  · by_cases h2 : x = c!"b"
    · simp [h2]
    · simp [h1, h2]

def progEx : List Stmt :=
  [ .Declare (.mk (.Var c!"a") (1, 0)) (.mk (.Int 1) (1, 5)),
    .Func c!"f" (2, 3) [.mk (.Var c!"p") (2, 5)] false
      [.Return (2, 10) (.mk (.BinaryOp .Sum (2, 19) (.mk (.Var c!"p") (2, 17)) (.mk (.Var c!"a") (2, 21))) (2, 17))],
    .Expr (.mk (.Call (.mk (.Var c!"print") (3, 0))
      [.mk (.mk (.Call (.mk (.Var c!"f") (3, 6)) [.mk (.mk (.Int 2) (3, 8)) false]) (3, 6)) false]) (3, 0)) ]

example : (∀ a b, swapAB a = swapAB b → a = b) ∧ (∀ a, swapAB a = c!"_" ↔ a = c!"_") ∧
    swapAB c!"this" = c!"this" ∧ swapAB c!"print" = c!"print" ∧
    (∀ ast, (fun _ => False) ast → Eqv.rExpr swapAB ast = ast ∧ Eqv.okExpr swapAB (fun _ => False) ast) ∧
    Eqv.okStmts swapAB (fun _ => False) progEx ∧
    (Eqv.rStmts swapAB progEx).head? = some (.Declare (.mk (.Var c!"b") (1, 0)) (.mk (.Int 1) (1, 5))) := by
  refine ⟨?_, ?_, by decide, by decide, fun _ h => h.elim, ?_, ?_⟩
  · intro a b h
    have := congrArg swapAB h
    rwa [swapAB_invol, swapAB_invol] at this
  · intro a
    constructor
    · intro h
      have := congrArg swapAB h
      rw [swapAB_invol] at this
      rw [this]; decide
    · intro h; rw [h]; decide
  · simp only [progEx, Eqv.okStmts, Eqv.okStmt, Eqv.okExpr, Eqv.okRaw, Eqv.okExprs, Eqv.okItems, Eqv.okItem, and_self]
    decide
  · simp only [progEx, Eqv.rStmts, Eqv.rStmt, Eqv.rExpr, Eqv.rRaw, List.head?]
    rfl

/-- the instance: running `progEx` with `a` and `b` swapped prints the same lines -/
example (n : Nat) : observable (evalProg n (Eqv.rStmts swapAB progEx)) = observable (evalProg n progEx) := by
  refine renaming_preserves_output swapAB (fun _ => False) ?_ ?_ (by decide) (by decide) (fun _ h => h.elim) n progEx ?_
  · intro a b h
    have := congrArg swapAB h
    rwa [swapAB_invol, swapAB_invol] at this
  · intro a
    constructor
    · intro h
      have := congrArg swapAB h
      rw [swapAB_invol] at this
      rw [this]; decide
    · intro h; rw [h]; decide
  · simp only [progEx, Eqv.okStmts, Eqv.okStmt, Eqv.okExpr, Eqv.okRaw, Eqv.okExprs, Eqv.okItems, Eqv.okItem, and_self]
    decide

end Seed.C04
