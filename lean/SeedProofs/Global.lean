/-
  Global.lean — theorems about the whole evaluator, reused by the property files.
  G1 (fuel independence) in its user-facing forms.
-/
import SeedProofs.Lemmas.EvalMono
import SeedModel.Run
namespace Seed

/-- lift a one-step monotonicity fact to `m ≤ n` -/
theorem Res.Le.of_step {α} (f : Nat → Res α) (h : ∀ n, Res.Le (f n) (f (n + 1))) {m n : Nat} (hmn : m ≤ n) :
    Res.Le (f m) (f n) := by
  induction hmn with
  | refl => exact Res.Le.refl _
  | step _ ih => exact Res.Le.trans ih (h _)

/-- G1 for statements lists: a result other than a time-out is the result at every larger fuel -/
theorem evalStmts_fuel_mono {n m : Nat} {σ : State} {sc : List Addr} {ss : List Stmt} {r : Res Escape}
    (h : evalStmts n σ sc ss = r) (hr : r ≠ .timeout) (hnm : n ≤ m) : evalStmts m σ sc ss = r := by
  have := Res.Le.of_step (fun k => evalStmts k σ sc ss) (fun k => (monoAll k).evalStmts σ sc ss) hnm
  rcases this with h' | h'
  · exact absurd (h ▸ h') hr
  · exact h' ▸ h

theorem evalExpr_fuel_mono {n m : Nat} {σ : State} {sc : List Addr} {e : Expr} {r : Res SVal}
    (h : evalExpr n σ sc e = r) (hr : r ≠ .timeout) (hnm : n ≤ m) : evalExpr m σ sc e = r := by
  have := Res.Le.of_step (fun k => evalExpr k σ sc e) (fun k => (monoAll k).evalExpr σ sc e) hnm
  rcases this with h' | h'
  · exact absurd (h ▸ h') hr
  · exact h' ▸ h

theorem evalBlock_fuel_mono {n m : Nat} {σ : State} {sc : List Addr} {bs : List (Expr × SVal)} {ss : List Stmt}
    {r : Res Escape} (h : evalBlock n σ sc bs ss = r) (hr : r ≠ .timeout) (hnm : n ≤ m) :
    evalBlock m σ sc bs ss = r := by
  have := Res.Le.of_step (fun k => evalBlock k σ sc bs ss) (fun k => (monoAll k).evalBlock σ sc bs ss) hnm
  rcases this with h' | h'
  · exact absurd (h ▸ h') hr
  · exact h' ▸ h

theorem evalProg_Le (stmts : List Stmt) {n m : Nat} (hnm : n ≤ m) : Res.Le (evalProg n stmts) (evalProg m stmts) := by
  unfold evalProg
  apply Res.Le.bind
  · exact Res.Le.of_step (fun k => evalBlock k State.init [] _ stmts) (fun k => (monoAll k).evalBlock _ _ _ _) hnm
  · intro _ _; exact Res.Le.refl _

/-- G1 for whole runs: if a run with fuel `n` does not time out, every run with more fuel has the same outcome -/
theorem run_fuel_independent (path src : List Char) {n m : Nat} (hnm : n ≤ m)
    (h : (run n path src).status ≠ .timeout) : run m path src = run n path src := by
  unfold run at *
  cases hp : parseProg src with
  | timeout => simp [hp] at h
  | err e => rfl
  | ok stmts =>
    simp only [hp] at h ⊢
    rcases evalProg_Le stmts hnm with h' | h'
    · rw [h'] at h; simp at h
    · rw [h']

end Seed
