/-
  C16x — property theorems of C16 that are proved on top of C16.lean (Lemmas/C16RangeAssign.lean imports it).

  Range assignment and `===` as typed contexts (third session).
  `range_assign_rhs_kinds`: in `t[a:b] = rhs` with `t` a list, `rhs` is accepted exactly when it is a list or a string; every
  other kind is the located error naming that kind, WHATEVER its size (an object with as many properties as the range is long
  included) and BEFORE the bounds are evaluated (`range_assign_reject_ignores_bounds`); `range_assign_target_kinds`: a target
  that is not a list is rejected first.  `ref_eq_kinds`: `===` / `!==` answer exactly on two lists, two objects, two functions
  and are the type error naming both kinds otherwise (`ref_eq_list_object`).
-/
import SeedProofs.Lemmas.C16RangeAssign
-- audit: Seed.C16R.range_assign_rhs_kinds Seed.C16R.range_assign_rhs_cases Seed.C16R.range_assign_rejects Seed.C16R.range_assign_reject_ignores_bounds Seed.C16R.range_opassign Seed.C16R.range_assign_target_kinds Seed.C16R.ref_eq_kinds Seed.C16R.ref_eq_ok_only_on_domain Seed.C16R.ref_eq_list_object Seed.C16R.ref_eq_source_arms
