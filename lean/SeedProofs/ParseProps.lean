/-
  ParseProps.lean — properties of the parser model (SeedModel/Parse.lean); entry point of the parser proofs.

  Index (everything below is imported by this file):
    P1  Lemmas/ParseMono.lean      `pmonoAll n : PMonoAll n`   fuel monotonicity of all 22 functions
                                   (`parseExpr_mono`, `parseStmts_mono`, … in `m ≤ n` form)
    P2  Lemmas/ParseProgress.lean  `pbndAll n : PBndAll n`     the rest is a suffix / strictly shorter
                                   (`parseExpr_progress`, `parseStmts_suffix`, … in plain form)
    P3  Lemmas/ParseTotal.lean     `ptotAll n : PTotAll n`     no time-out on `10 * ts.length + c_f` fuel;
                                   `parse_total`, `parseProg_ne_timeout`, `parseExprTop_ne_timeout`
    P4  this file                  grouping theorems (below)
    P5  Lemmas/ParseRoundTrip.lean printer `pr`, erasure `eraseR`/`eraseE`, `roundtrip_parseExpr1`,
                                   `roundtrip_parseExpr`, `roundtrip_parseFuel` (restated at the end)
        Lemmas/ParseRel.lean       fuel-free relations `PAtom/PTier/TLoop/RLoop/PExpr1`, constructor lemmas,
                                   `PTier.descend`, `PExpr1.at_fuel`

  Grouping theorems (P4):
  "Operators of one tier group left to right; a tighter tier groups first; `..` is the loosest;
  `-` directly before an integer literal in operand position is a negative literal; parentheses override."

  Atoms `a b c` are arbitrary single-token atoms (`atomOf sp.tok = some a`: identifiers, literals, `null`,
  `true`, `false`), operators are arbitrary rows of the generated table `Gen.binOps`, positions are those
  the parser stores: a left operand (accumulator) carries the position `loc` of the start of the whole
  expression, a right operand carries the position of its first token, an operator node carries the
  position of the operator token.  Every theorem comes in a fuel-free form (`…_rel`) and for every fuel
  `≥ 10 * (number of tokens) + 7` (which `parseFuel` exceeds).
-/
import SeedProofs.Lemmas.ParseRoundTrip
namespace Seed

/-- the token after the expression (if any) is not a binary operator, a postfix opener or `..` -/
def stopsExpr (rest : List Span) : Prop := noPostfix rest ∧ headTier rest = 0 ∧ noDotDot rest

theorem stopsExpr_nil : stopsExpr [] := ⟨True.intro, rfl, True.intro⟩

/-- a sufficient syntactic criterion: closing brackets, `;`, `,`, `:`, `=`, … stop an expression -/
theorem stopsExpr_of_tok {sp : Span} {r : List Span}
    (h : sp.tok = .ParenClose ∨ sp.tok = .BracketClose ∨ sp.tok = .BraceClose ∨ sp.tok = .StmtEnd ∨
      sp.tok = .Comma ∨ sp.tok = .Colon ∨ sp.tok = .Equals ∨ sp.tok = .ColonEquals ∨ sp.tok = .BraceOpen) :
    stopsExpr (sp :: r) := by
  rcases h with h | h | h | h | h | h | h | h | h <;>
    simp [stopsExpr, noPostfix, headTier, noDotDot, h, isPostfixOpen, lookupAssoc, Gen.binOps]

private theorem hP : Gen.postfixTier = 5 := rfl
private theorem hF : Gen.firstTier = 2 := rfl

section
variable {sa sb sc s1 s2 : Span} {a b c : RawExpr} {o1 o2 : BinaryOp} {k1 k2 : Nat} {rest : List Span}

/-- a single-token atom at tier `k` -/
theorem PTier.tokAtom {k : Nat} {loc : Loc} {sp : Span} {r : List Span} {a : RawExpr}
    (ha : atomOf sp.tok = some a) (hp : noPostfix r) (hr : headTier r < k) : PTier k loc none (sp :: r) a r :=
  PTier.ofAtom (PAtom.tok ha) hp hr

/-- `a o b` followed by something that is not an operator of tier `≥ k`, parsed at tier `k ≤ tier o` -/
theorem PTier.binary {k : Nat} {loc : Loc} {r : List Span}
    (ha : atomOf sa.tok = some a) (hb : atomOf sb.tok = some b)
    (h1 : lookupAssoc s1.tok Gen.binOps = some (o1, k1)) (hk : k ≤ k1)
    (hp : noPostfix r) (hr : headTier r < k) :
    PTier k loc none (sa :: s1 :: sb :: r)
      (.BinaryOp o1 s1.start (.mk a loc) (.mk b sb.start)) r := by
  have f1 := binOp_facts h1
  have t1 : headTier (s1 :: sb :: r) = k1 := headTier_op h1
  have := hP
  refine PTier.descend (j := k1) ?_ (by omega) k hk (Or.inl hr)
  refine PTier.step (by omega) (PTier.tokAtom ha (noPostfix_op h1) (by omega)) ?_
  refine TLoop.step h1 (PTier.tokAtom hb hp (by omega)) ?_
  exact TLoop.stop (by omega)

/-! ### operators of one tier group left to right -/

theorem left_assoc_rel (s : Bool) (loc : Loc)
    (ha : atomOf sa.tok = some a) (hb : atomOf sb.tok = some b) (hc : atomOf sc.tok = some c)
    (h1 : lookupAssoc s1.tok Gen.binOps = some (o1, k1)) (h2 : lookupAssoc s2.tok Gen.binOps = some (o2, k2))
    (hk : k1 = k2) (hstop : stopsExpr rest) :
    PExpr1 s loc none (sa :: s1 :: sb :: s2 :: sc :: rest)
      (.BinaryOp o2 s2.start (.mk (.BinaryOp o1 s1.start (.mk a loc) (.mk b sb.start)) loc) (.mk c sc.start))
      rest := by
  subst hk
  obtain ⟨hp, ht, hd⟩ := hstop
  have f1 := binOp_facts h1
  have t1 : headTier (s1 :: sb :: s2 :: sc :: rest) = k1 := headTier_op h1
  have t2 : headTier (s2 :: sc :: rest) = k1 := headTier_op h2
  have := hP; have := hF
  refine PExpr1.mk ?_ (RLoop.stop hd)
  refine PTier.descend (j := k1) ?_ (by omega) Gen.firstTier (by omega) (Or.inl (by omega))
  refine PTier.step (by omega) (PTier.tokAtom ha (noPostfix_op h1) (by omega)) ?_
  refine TLoop.step h1 (PTier.tokAtom hb (noPostfix_op h2) (by omega)) ?_
  refine TLoop.step h2 (PTier.tokAtom hc hp (by omega)) ?_
  exact TLoop.stop (by omega)

/-! ### a tighter tier groups first -/

/-- `a o1 b o2 c` with `o2` tighter: `a o1 (b o2 c)` -/
theorem tighter_right_rel (s : Bool) (loc : Loc)
    (ha : atomOf sa.tok = some a) (hb : atomOf sb.tok = some b) (hc : atomOf sc.tok = some c)
    (h1 : lookupAssoc s1.tok Gen.binOps = some (o1, k1)) (h2 : lookupAssoc s2.tok Gen.binOps = some (o2, k2))
    (hk : k1 < k2) (hstop : stopsExpr rest) :
    PExpr1 s loc none (sa :: s1 :: sb :: s2 :: sc :: rest)
      (.BinaryOp o1 s1.start (.mk a loc)
        (.mk (.BinaryOp o2 s2.start (.mk b sb.start) (.mk c sc.start)) sb.start))
      rest := by
  obtain ⟨hp, ht, hd⟩ := hstop
  have f1 := binOp_facts h1
  have f2 := binOp_facts h2
  have t1 : headTier (s1 :: sb :: s2 :: sc :: rest) = k1 := headTier_op h1
  have := hP; have := hF
  refine PExpr1.mk ?_ (RLoop.stop hd)
  refine PTier.descend (j := k1) ?_ (by omega) Gen.firstTier (by omega) (Or.inl (by omega))
  refine PTier.step (by omega) (PTier.tokAtom ha (noPostfix_op h1) (by omega)) ?_
  refine TLoop.step h1 (PTier.binary hb hc h2 (by omega) hp (by omega)) ?_
  exact TLoop.stop (by omega)

/-- `a o1 b o2 c` with `o1` tighter: `(a o1 b) o2 c` -/
theorem tighter_left_rel (s : Bool) (loc : Loc)
    (ha : atomOf sa.tok = some a) (hb : atomOf sb.tok = some b) (hc : atomOf sc.tok = some c)
    (h1 : lookupAssoc s1.tok Gen.binOps = some (o1, k1)) (h2 : lookupAssoc s2.tok Gen.binOps = some (o2, k2))
    (hk : k2 < k1) (hstop : stopsExpr rest) :
    PExpr1 s loc none (sa :: s1 :: sb :: s2 :: sc :: rest)
      (.BinaryOp o2 s2.start (.mk (.BinaryOp o1 s1.start (.mk a loc) (.mk b sb.start)) loc) (.mk c sc.start))
      rest := by
  obtain ⟨hp, ht, hd⟩ := hstop
  have f1 := binOp_facts h1
  have f2 := binOp_facts h2
  have t2 : headTier (s2 :: sc :: rest) = k2 := headTier_op h2
  have := hP; have := hF
  refine PExpr1.mk ?_ (RLoop.stop hd)
  refine PTier.descend (j := k2) ?_ (by omega) Gen.firstTier (by omega) (Or.inl (by omega))
  refine PTier.step (by omega) (PTier.binary ha hb h1 (by omega) (noPostfix_op h2) (by omega)) ?_
  refine TLoop.step h2 (PTier.tokAtom hc hp (by omega)) ?_
  exact TLoop.stop (by omega)

/-! ### `..` is looser than every binary operator -/

/-- `a .. b o c` is `a .. (b o c)` -/
theorem range_loosest_right_rel (loc : Loc) {sd : Span}
    (ha : atomOf sa.tok = some a) (hb : atomOf sb.tok = some b) (hc : atomOf sc.tok = some c)
    (hd : sd.tok = .DotDot) (h1 : lookupAssoc s1.tok Gen.binOps = some (o1, k1)) (hstop : stopsExpr rest) :
    PExpr1 false loc none (sa :: sd :: sb :: s1 :: sc :: rest)
      (.Range (.mk a loc) (.mk (.BinaryOp o1 s1.start (.mk b sb.start) (.mk c sc.start)) sb.start))
      rest := by
  obtain ⟨hp, ht, hdd⟩ := hstop
  have f1 := binOp_facts h1
  have := hP; have := hF
  have hnp : noPostfix (sd :: sb :: s1 :: sc :: rest) := by simp [noPostfix, hd, isPostfixOpen]
  have htd : headTier (sd :: sb :: s1 :: sc :: rest) = 0 := by simp [headTier, hd, lookupAssoc, Gen.binOps]
  refine PExpr1.mk (PTier.tokAtom ha hnp (by omega)) ?_
  refine RLoop.step hd rfl (PTier.binary hb hc h1 (by omega) hp (by omega)) ?_
  exact RLoop.stop hdd

/-- `a o b .. c` is `(a o b) .. c` -/
theorem range_loosest_left_rel (loc : Loc) {sd : Span}
    (ha : atomOf sa.tok = some a) (hb : atomOf sb.tok = some b) (hc : atomOf sc.tok = some c)
    (hd : sd.tok = .DotDot) (h1 : lookupAssoc s1.tok Gen.binOps = some (o1, k1)) (hstop : stopsExpr rest) :
    PExpr1 false loc none (sa :: s1 :: sb :: sd :: sc :: rest)
      (.Range (.mk (.BinaryOp o1 s1.start (.mk a loc) (.mk b sb.start)) loc) (.mk c sc.start))
      rest := by
  obtain ⟨hp, ht, hdd⟩ := hstop
  have f1 := binOp_facts h1
  have := hP; have := hF
  have hnp : noPostfix (sd :: sc :: rest) := by simp [noPostfix, hd, isPostfixOpen]
  have htd : headTier (sd :: sc :: rest) = 0 := by simp [headTier, hd, lookupAssoc, Gen.binOps]
  refine PExpr1.mk (PTier.binary ha hb h1 (by omega) hnp (by omega)) ?_
  refine RLoop.step hd rfl (PTier.tokAtom hc hp (by omega)) ?_
  exact RLoop.stop hdd

/-- `..` itself groups left to right: `a .. b .. c` is `(a .. b) .. c` -/
theorem range_left_assoc_rel (loc : Loc) {sd sd2 : Span}
    (ha : atomOf sa.tok = some a) (hb : atomOf sb.tok = some b) (hc : atomOf sc.tok = some c)
    (hd : sd.tok = .DotDot) (hd2 : sd2.tok = .DotDot) (hstop : stopsExpr rest) :
    PExpr1 false loc none (sa :: sd :: sb :: sd2 :: sc :: rest)
      (.Range (.mk (.Range (.mk a loc) (.mk b sb.start)) loc) (.mk c sc.start))
      rest := by
  obtain ⟨hp, ht, hdd⟩ := hstop
  have := hP; have := hF
  have hnp : ∀ r, noPostfix (sd :: r) := fun r => by simp [noPostfix, hd, isPostfixOpen]
  have htd : ∀ r, headTier (sd :: r) = 0 := fun r => by simp [headTier, hd, lookupAssoc, Gen.binOps]
  have hnp2 : ∀ r, noPostfix (sd2 :: r) := fun r => by simp [noPostfix, hd2, isPostfixOpen]
  have htd2 : ∀ r, headTier (sd2 :: r) = 0 := fun r => by simp [headTier, hd2, lookupAssoc, Gen.binOps]
  refine PExpr1.mk (PTier.tokAtom ha (hnp _) (by rw [htd]; omega)) ?_
  refine RLoop.step hd rfl (PTier.tokAtom hb (hnp2 _) (by rw [htd2]; omega)) ?_
  refine RLoop.step hd2 rfl (PTier.tokAtom hc hp (by omega)) ?_
  exact RLoop.stop hdd

/-! ### negative literals -/

/-- in operand position, `-` directly followed by an integer literal is the literal `-n` -/
theorem neg_literal_operand_rel (s : Bool) (loc : Loc) {sm sn : Span} {n : Int}
    (hm : sm.tok = .Sub) (hn : sn.tok = .IntLiteral n) (hstop : stopsExpr rest) :
    PExpr1 s loc none (sm :: sn :: rest) (.Int (-n)) rest := by
  obtain ⟨hp, ht, hdd⟩ := hstop
  have := hF
  exact PExpr1.mk (PTier.ofAtom (PAtom.neg hm hn) hp (by omega)) (RLoop.stop hdd)

/-- after an operand, `-` is the subtraction operator: `a - n` -/
theorem neg_literal_after_operand_rel (s : Bool) (loc : Loc) {sm sn : Span} {n : Int}
    (ha : atomOf sa.tok = some a) (hm : sm.tok = .Sub) (hn : sn.tok = .IntLiteral n) (hstop : stopsExpr rest) :
    PExpr1 s loc none (sa :: sm :: sn :: rest)
      (.BinaryOp .Sub sm.start (.mk a loc) (.mk (.Int n) sn.start)) rest := by
  obtain ⟨hp, ht, hdd⟩ := hstop
  have := hF
  have hl : lookupAssoc sm.tok Gen.binOps = some (BinaryOp.Sub, 3) := by rw [hm]; rfl
  have hnn : atomOf sn.tok = some (.Int n) := by rw [hn]; rfl
  exact PExpr1.mk (PTier.binary ha hnn hl (by omega) hp (by omega)) (RLoop.stop hdd)

/-- `a - - n` is `a - (-n)`: the second `-` is in operand position -/
theorem neg_literal_after_operator_rel (s : Bool) (loc : Loc) {sm sm2 sn : Span} {n : Int}
    (ha : atomOf sa.tok = some a) (hm : sm.tok = .Sub) (hm2 : sm2.tok = .Sub) (hn : sn.tok = .IntLiteral n)
    (hstop : stopsExpr rest) :
    PExpr1 s loc none (sa :: sm :: sm2 :: sn :: rest)
      (.BinaryOp .Sub sm.start (.mk a loc) (.mk (.Int (-n)) sm2.start)) rest := by
  obtain ⟨hp, ht, hdd⟩ := hstop
  have := hF; have := hP
  have hl : lookupAssoc sm.tok Gen.binOps = some (BinaryOp.Sub, 3) := by rw [hm]; rfl
  have t1 : headTier (sm :: sm2 :: sn :: rest) = 3 := headTier_op hl
  refine PExpr1.mk ?_ (RLoop.stop hdd)
  refine PTier.descend (j := 3) ?_ (by omega) Gen.firstTier (by omega) (Or.inl (by omega))
  refine PTier.step (by omega) (PTier.tokAtom ha (noPostfix_op hl) (by omega)) ?_
  refine TLoop.step hl (PTier.ofAtom (PAtom.neg hm2 hn) hp (by omega)) ?_
  exact TLoop.stop (by omega)

/-- there is no unary minus: `-` followed by anything but an integer literal is a syntax error -/
theorem no_unary_minus (fuel : Nat) {sm sx : Span} (hm : sm.tok = .Sub) (hx : ∀ n, sx.tok ≠ .IntLiteral n)
    (hfuel : 7 ≤ fuel) (s : Bool) (loc : Loc) :
    parseExpr1 fuel s loc none (sm :: sx :: rest) = .err (.tok sx) := by
  obtain ⟨n, rfl⟩ : ∃ n, fuel = n + 7 := ⟨fuel - 7, by omega⟩
  have hat : parseAtom (n + 1) none (sm :: sx :: rest) = .err (.tok sx) := by
    unfold parseAtom
    simp only [hm]
  unfold parseExpr1
  simp only [Gen.firstTier]
  unfold parseTier; simp only [Gen.postfixTier, ge_iff_le, Nat.reduceLeDiff, if_false, Nat.reduceAdd]
  unfold parseTier; simp only [Gen.postfixTier, ge_iff_le, Nat.reduceLeDiff, if_false, Nat.reduceAdd]
  unfold parseTier; simp only [Gen.postfixTier, ge_iff_le, Nat.reduceLeDiff, if_false, Nat.reduceAdd]
  unfold parseTier; simp only [Gen.postfixTier, ge_iff_le, Nat.le_refl, if_true]
  unfold parsePostfix
  simp only [hat, PRes.bind]

/-! ### parentheses override the tiers -/

/-- `( a o1 b ) o2 c` is `(a o1 b) o2 c`, whatever the tiers -/
theorem parens_override_left_rel (s : Bool) (loc : Loc) {sl sr : Span}
    (ha : atomOf sa.tok = some a) (hb : atomOf sb.tok = some b) (hc : atomOf sc.tok = some c)
    (hl : sl.tok = .ParenOpen) (hr : sr.tok = .ParenClose)
    (h1 : lookupAssoc s1.tok Gen.binOps = some (o1, k1)) (h2 : lookupAssoc s2.tok Gen.binOps = some (o2, k2))
    (hstop : stopsExpr rest) :
    PExpr1 s loc none (sl :: sa :: s1 :: sb :: sr :: s2 :: sc :: rest)
      (.BinaryOp o2 s2.start
        (.mk (.BinaryOp o1 s1.start (.mk a sa.start) (.mk b sb.start)) loc) (.mk c sc.start))
      rest := by
  obtain ⟨hp, ht, hdd⟩ := hstop
  have f1 := binOp_facts h1
  have f2 := binOp_facts h2
  have t2 : headTier (s2 :: sc :: rest) = k2 := headTier_op h2
  have := hP; have := hF
  have hnpr : noPostfix (sr :: s2 :: sc :: rest) := by simp [noPostfix, hr, isPostfixOpen]
  have htr : headTier (sr :: s2 :: sc :: rest) = 0 := by simp [headTier, hr, lookupAssoc, Gen.binOps]
  have hddr : noDotDot (sr :: s2 :: sc :: rest) := by simp [noDotDot, hr]
  -- the parenthesised part
  have inner : PAtom none (sl :: sa :: s1 :: sb :: sr :: s2 :: sc :: rest)
      (.BinaryOp o1 s1.start (.mk a sa.start) (.mk b sb.start)) (s2 :: sc :: rest) :=
    PAtom.paren hl (PExpr1.mk (PTier.binary ha hb h1 (by omega) hnpr (by omega)) (RLoop.stop hddr)) hr
  refine PExpr1.mk ?_ (RLoop.stop hdd)
  refine PTier.descend (j := k2) ?_ (by omega) Gen.firstTier (by omega) (Or.inl (by omega))
  refine PTier.step (by omega) (PTier.ofAtom inner (noPostfix_op h2) (by omega)) ?_
  refine TLoop.step h2 (PTier.tokAtom hc hp (by omega)) ?_
  exact TLoop.stop (by omega)

/-- `a o1 ( b o2 c )` is `a o1 (b o2 c)`, whatever the tiers -/
theorem parens_override_right_rel (s : Bool) (loc : Loc) {sl sr : Span}
    (ha : atomOf sa.tok = some a) (hb : atomOf sb.tok = some b) (hc : atomOf sc.tok = some c)
    (hl : sl.tok = .ParenOpen) (hr : sr.tok = .ParenClose)
    (h1 : lookupAssoc s1.tok Gen.binOps = some (o1, k1)) (h2 : lookupAssoc s2.tok Gen.binOps = some (o2, k2))
    (hstop : stopsExpr rest) :
    PExpr1 s loc none (sa :: s1 :: sl :: sb :: s2 :: sc :: sr :: rest)
      (.BinaryOp o1 s1.start (.mk a loc)
        (.mk (.BinaryOp o2 s2.start (.mk b sb.start) (.mk c sc.start)) sl.start))
      rest := by
  obtain ⟨hp, ht, hdd⟩ := hstop
  have f1 := binOp_facts h1
  have f2 := binOp_facts h2
  have t1 : headTier (s1 :: sl :: sb :: s2 :: sc :: sr :: rest) = k1 := headTier_op h1
  have := hP; have := hF
  have hnpr : noPostfix (sr :: rest) := by simp [noPostfix, hr, isPostfixOpen]
  have htr : headTier (sr :: rest) = 0 := by simp [headTier, hr, lookupAssoc, Gen.binOps]
  have hddr : noDotDot (sr :: rest) := by simp [noDotDot, hr]
  have inner : PAtom none (sl :: sb :: s2 :: sc :: sr :: rest)
      (.BinaryOp o2 s2.start (.mk b sb.start) (.mk c sc.start)) rest :=
    PAtom.paren hl (PExpr1.mk (PTier.binary hb hc h2 (by omega) hnpr (by omega)) (RLoop.stop hddr)) hr
  refine PExpr1.mk ?_ (RLoop.stop hdd)
  refine PTier.descend (j := k1) ?_ (by omega) Gen.firstTier (by omega) (Or.inl (by omega))
  refine PTier.step (by omega) (PTier.tokAtom ha (noPostfix_op h1) (by omega)) ?_
  refine TLoop.step h1 (PTier.ofAtom inner hp (by omega)) ?_
  exact TLoop.stop (by omega)

end

/-! ### the same statements for concrete fuel

  `10 * (number of tokens) + 7` units are enough (P3); `parseFuel ts = 40 * (ts.length + 2)` is more. -/

section
variable {sa sb sc s1 s2 : Span} {a b c : RawExpr} {o1 o2 : BinaryOp} {k1 k2 : Nat} {rest : List Span}

theorem left_assoc (s : Bool) (loc : Loc)
    (ha : atomOf sa.tok = some a) (hb : atomOf sb.tok = some b) (hc : atomOf sc.tok = some c)
    (h1 : lookupAssoc s1.tok Gen.binOps = some (o1, k1)) (h2 : lookupAssoc s2.tok Gen.binOps = some (o2, k2))
    (hk : k1 = k2) (hstop : stopsExpr rest) (fuel : Nat) (hf : 10 * (rest.length + 5) + 7 ≤ fuel) :
    parseExpr1 fuel s loc none (sa :: s1 :: sb :: s2 :: sc :: rest) =
      .ok (.BinaryOp o2 s2.start (.mk (.BinaryOp o1 s1.start (.mk a loc) (.mk b sb.start)) loc)
        (.mk c sc.start)) rest :=
  (left_assoc_rel s loc ha hb hc h1 h2 hk hstop).at_fuel fuel (by simp only [List.length_cons]; omega)

theorem tighter_first_lt (s : Bool) (loc : Loc)
    (ha : atomOf sa.tok = some a) (hb : atomOf sb.tok = some b) (hc : atomOf sc.tok = some c)
    (h1 : lookupAssoc s1.tok Gen.binOps = some (o1, k1)) (h2 : lookupAssoc s2.tok Gen.binOps = some (o2, k2))
    (hk : k1 < k2) (hstop : stopsExpr rest) (fuel : Nat) (hf : 10 * (rest.length + 5) + 7 ≤ fuel) :
    parseExpr1 fuel s loc none (sa :: s1 :: sb :: s2 :: sc :: rest) =
      .ok (.BinaryOp o1 s1.start (.mk a loc)
        (.mk (.BinaryOp o2 s2.start (.mk b sb.start) (.mk c sc.start)) sb.start)) rest :=
  (tighter_right_rel s loc ha hb hc h1 h2 hk hstop).at_fuel fuel (by simp only [List.length_cons]; omega)

theorem tighter_first_gt (s : Bool) (loc : Loc)
    (ha : atomOf sa.tok = some a) (hb : atomOf sb.tok = some b) (hc : atomOf sc.tok = some c)
    (h1 : lookupAssoc s1.tok Gen.binOps = some (o1, k1)) (h2 : lookupAssoc s2.tok Gen.binOps = some (o2, k2))
    (hk : k2 < k1) (hstop : stopsExpr rest) (fuel : Nat) (hf : 10 * (rest.length + 5) + 7 ≤ fuel) :
    parseExpr1 fuel s loc none (sa :: s1 :: sb :: s2 :: sc :: rest) =
      .ok (.BinaryOp o2 s2.start (.mk (.BinaryOp o1 s1.start (.mk a loc) (.mk b sb.start)) loc)
        (.mk c sc.start)) rest :=
  (tighter_left_rel s loc ha hb hc h1 h2 hk hstop).at_fuel fuel (by simp only [List.length_cons]; omega)

theorem range_loosest_right (loc : Loc) {sd : Span}
    (ha : atomOf sa.tok = some a) (hb : atomOf sb.tok = some b) (hc : atomOf sc.tok = some c)
    (hd : sd.tok = .DotDot) (h1 : lookupAssoc s1.tok Gen.binOps = some (o1, k1)) (hstop : stopsExpr rest)
    (fuel : Nat) (hf : 10 * (rest.length + 5) + 7 ≤ fuel) :
    parseExpr1 fuel false loc none (sa :: sd :: sb :: s1 :: sc :: rest) =
      .ok (.Range (.mk a loc) (.mk (.BinaryOp o1 s1.start (.mk b sb.start) (.mk c sc.start)) sb.start)) rest :=
  (range_loosest_right_rel loc ha hb hc hd h1 hstop).at_fuel fuel (by simp only [List.length_cons]; omega)

theorem range_loosest_left (loc : Loc) {sd : Span}
    (ha : atomOf sa.tok = some a) (hb : atomOf sb.tok = some b) (hc : atomOf sc.tok = some c)
    (hd : sd.tok = .DotDot) (h1 : lookupAssoc s1.tok Gen.binOps = some (o1, k1)) (hstop : stopsExpr rest)
    (fuel : Nat) (hf : 10 * (rest.length + 5) + 7 ≤ fuel) :
    parseExpr1 fuel false loc none (sa :: s1 :: sb :: sd :: sc :: rest) =
      .ok (.Range (.mk (.BinaryOp o1 s1.start (.mk a loc) (.mk b sb.start)) loc) (.mk c sc.start)) rest :=
  (range_loosest_left_rel loc ha hb hc hd h1 hstop).at_fuel fuel (by simp only [List.length_cons]; omega)

theorem range_left_assoc (loc : Loc) {sd sd2 : Span}
    (ha : atomOf sa.tok = some a) (hb : atomOf sb.tok = some b) (hc : atomOf sc.tok = some c)
    (hd : sd.tok = .DotDot) (hd2 : sd2.tok = .DotDot) (hstop : stopsExpr rest)
    (fuel : Nat) (hf : 10 * (rest.length + 5) + 7 ≤ fuel) :
    parseExpr1 fuel false loc none (sa :: sd :: sb :: sd2 :: sc :: rest) =
      .ok (.Range (.mk (.Range (.mk a loc) (.mk b sb.start)) loc) (.mk c sc.start)) rest :=
  (range_left_assoc_rel loc ha hb hc hd hd2 hstop).at_fuel fuel (by simp only [List.length_cons]; omega)

theorem neg_literal_operand (s : Bool) (loc : Loc) {sm sn : Span} {n : Int}
    (hm : sm.tok = .Sub) (hn : sn.tok = .IntLiteral n) (hstop : stopsExpr rest)
    (fuel : Nat) (hf : 10 * (rest.length + 2) + 7 ≤ fuel) :
    parseExpr1 fuel s loc none (sm :: sn :: rest) = .ok (.Int (-n)) rest :=
  (neg_literal_operand_rel s loc hm hn hstop).at_fuel fuel (by simp only [List.length_cons]; omega)

theorem neg_literal_after_operand (s : Bool) (loc : Loc) {sm sn : Span} {n : Int}
    (ha : atomOf sa.tok = some a) (hm : sm.tok = .Sub) (hn : sn.tok = .IntLiteral n) (hstop : stopsExpr rest)
    (fuel : Nat) (hf : 10 * (rest.length + 3) + 7 ≤ fuel) :
    parseExpr1 fuel s loc none (sa :: sm :: sn :: rest) =
      .ok (.BinaryOp .Sub sm.start (.mk a loc) (.mk (.Int n) sn.start)) rest :=
  (neg_literal_after_operand_rel s loc ha hm hn hstop).at_fuel fuel (by simp only [List.length_cons]; omega)

theorem neg_literal_after_operator (s : Bool) (loc : Loc) {sm sm2 sn : Span} {n : Int}
    (ha : atomOf sa.tok = some a) (hm : sm.tok = .Sub) (hm2 : sm2.tok = .Sub) (hn : sn.tok = .IntLiteral n)
    (hstop : stopsExpr rest) (fuel : Nat) (hf : 10 * (rest.length + 4) + 7 ≤ fuel) :
    parseExpr1 fuel s loc none (sa :: sm :: sm2 :: sn :: rest) =
      .ok (.BinaryOp .Sub sm.start (.mk a loc) (.mk (.Int (-n)) sm2.start)) rest :=
  (neg_literal_after_operator_rel s loc ha hm hm2 hn hstop).at_fuel fuel
    (by simp only [List.length_cons]; omega)

theorem parens_override_left (s : Bool) (loc : Loc) {sl sr : Span}
    (ha : atomOf sa.tok = some a) (hb : atomOf sb.tok = some b) (hc : atomOf sc.tok = some c)
    (hl : sl.tok = .ParenOpen) (hr : sr.tok = .ParenClose)
    (h1 : lookupAssoc s1.tok Gen.binOps = some (o1, k1)) (h2 : lookupAssoc s2.tok Gen.binOps = some (o2, k2))
    (hstop : stopsExpr rest) (fuel : Nat) (hf : 10 * (rest.length + 7) + 7 ≤ fuel) :
    parseExpr1 fuel s loc none (sl :: sa :: s1 :: sb :: sr :: s2 :: sc :: rest) =
      .ok (.BinaryOp o2 s2.start
        (.mk (.BinaryOp o1 s1.start (.mk a sa.start) (.mk b sb.start)) loc) (.mk c sc.start)) rest :=
  (parens_override_left_rel s loc ha hb hc hl hr h1 h2 hstop).at_fuel fuel
    (by simp only [List.length_cons]; omega)

theorem parens_override_right (s : Bool) (loc : Loc) {sl sr : Span}
    (ha : atomOf sa.tok = some a) (hb : atomOf sb.tok = some b) (hc : atomOf sc.tok = some c)
    (hl : sl.tok = .ParenOpen) (hr : sr.tok = .ParenClose)
    (h1 : lookupAssoc s1.tok Gen.binOps = some (o1, k1)) (h2 : lookupAssoc s2.tok Gen.binOps = some (o2, k2))
    (hstop : stopsExpr rest) (fuel : Nat) (hf : 10 * (rest.length + 7) + 7 ≤ fuel) :
    parseExpr1 fuel s loc none (sa :: s1 :: sl :: sb :: s2 :: sc :: sr :: rest) =
      .ok (.BinaryOp o1 s1.start (.mk a loc)
        (.mk (.BinaryOp o2 s2.start (.mk b sb.start) (.mk c sc.start)) sl.start)) rest :=
  (parens_override_right_rel s loc ha hb hc hl hr h1 h2 hstop).at_fuel fuel
    (by simp only [List.length_cons]; omega)

/-- every operator of the table has one of the three tiers 2, 3, 4, so for two operators exactly one of
    `left_assoc`, `tighter_first_lt`, `tighter_first_gt` applies -/
theorem binOps_tiers : Gen.binOps.map (fun x => x.2.2) = [2, 2, 3, 3, 4, 4, 4, 4, 4, 4, 4, 4, 4, 4, 4] := by
  decide

end

/-! ### P5: parsing a printed tree gives the tree back -/

/-- `parse (print e) = e` up to positions: for every tree `e` over printable atoms, the 15 binary operators
    and `..`, every token list spelling `pr 1 e` (whatever the positions) is parsed by `parseExpr` with the
    driver's fuel to an expression whose erasure is `e`, consuming all tokens. -/
theorem parse_print (e : BE) (hwf : e.WF) (ts : List Span) (hts : ts.map Span.tok = pr 1 e) :
    ∃ ex, parseExpr (parseFuel ts) false ts = .ok ex [] ∧ eraseE ex = e :=
  roundtrip_parseFuel e hwf ts hts

/-! the printer puts parentheses exactly where the grouping would otherwise change -/
example : pr 1 (.bin .Mul (.bin .Sum (.atom (.Var ['a'])) (.atom (.Var ['b']))) (.atom (.Int (-3)))) =
    [.ParenOpen, .Ident ['a'], .Sum, .Ident ['b'], .ParenClose, .Mul, .Sub, .IntLiteral 3] := by decide
example : pr 1 (.bin .Sum (.bin .Sum (.atom (.Var ['a'])) (.atom (.Var ['b']))) (.atom (.Var ['c']))) =
    [.Ident ['a'], .Sum, .Ident ['b'], .Sum, .Ident ['c']] := by decide
example : pr 1 (.bin .Sum (.atom (.Var ['a'])) (.bin .Sum (.atom (.Var ['b'])) (.atom (.Var ['c'])))) =
    [.Ident ['a'], .Sum, .ParenOpen, .Ident ['b'], .Sum, .Ident ['c'], .ParenClose] := by decide
example : pr 1 (.range (.atom (.Var ['a'])) (.range (.atom (.Var ['b'])) (.atom (.Var ['c'])))) =
    [.Ident ['a'], .DotDot, .ParenOpen, .Ident ['b'], .DotDot, .Ident ['c'], .ParenClose] := by decide

end Seed
