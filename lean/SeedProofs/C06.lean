/-
  C06 — integer arithmetic is exact over 64 bits or reports an error.

  Property theorems about the model's primitives (`applyBinOp`/`arith`, `lexInt`, `parseAtom`, `intRange`,
  `bindNextName`, `opAssignValue`) and, for op-assignment, through the fuel-indexed evaluator (using fuel
  monotonicity G1 from `Lemmas/EvalMono.lean`).
-/
import SeedProofs.Lemmas.C06Int
import SeedProofs.Lemmas.C06Fuel
import SeedModel.Run
namespace Seed.C06
open Seed

/-! ## the reference: exact integer arithmetic -/

/-- the mathematically exact result of an arithmetic operator (`/` truncates toward zero, `%` is its remainder) -/
def exact : BinaryOp → Int → Int → Int
  | .Sum, a, b => a + b
  | .Sub, a, b => a - b
  | .Mul, a, b => a * b
  | .Div, a, b => Int.tdiv a b
  | .Mod, a, b => Int.tmod a b
  | _, _, _ => 0

def IsArith (op : BinaryOp) : Prop := op = .Sum ∨ op = .Sub ∨ op = .Mul ∨ op = .Div ∨ op = .Mod
def NeedsDivisor (op : BinaryOp) : Prop := op = .Div ∨ op = .Mod

/-- the operation has a result: it fits 64 bits and the divisor (if the operator has one) is not zero -/
def Defined (op : BinaryOp) (a b : Int) : Prop := inI64 (exact op a b) = true ∧ (NeedsDivisor op → b ≠ 0)

instance (op : BinaryOp) : Decidable (IsArith op) := by unfold IsArith; infer_instance
instance (op : BinaryOp) : Decidable (NeedsDivisor op) := by unfold NeedsDivisor; infer_instance
instance (op : BinaryOp) (a b : Int) : Decidable (Defined op a b) := by unfold Defined; infer_instance

/-- on two integers every arithmetic operator is `arith` (no other arm of `apply_binary_operation` is taken) -/
theorem applyBinOp_int {op : BinaryOp} (hop : IsArith op) (fuel : Nat) (σ : State) (loc : Loc) (a b : Int) :
    applyBinOp fuel σ op loc (.int a) (.int b) = arith op loc a b σ := by
  rcases hop with rfl | rfl | rfl | rfl | rfl <;> rfl

example : IsArith .Mul ∧ ¬ IsArith .Lt := by decide

/-! ## exact or error -/

/-- whenever the exact result exists it is the answer, and the state is untouched -/
theorem arith_exact_ok {op : BinaryOp} (hop : IsArith op) {a b : Int} (hd : Defined op a b)
    (fuel : Nat) (σ : State) (loc : Loc) :
    applyBinOp fuel σ op loc (.int a) (.int b) = .ok (.int (exact op a b)) σ := by
  rw [applyBinOp_int hop]
  obtain ⟨hr, hz⟩ := hd
  rcases hop with rfl | rfl | rfl | rfl | rfl
  · simp only [arith, exact] at *; simp [hr]
  · simp only [arith, exact] at *; simp [hr]
  · simp only [arith, exact] at *; simp [hr]
  · have hb : b ≠ 0 := hz (Or.inl rfl)
    simp only [arith, exact] at *; simp [hr, hb]
  · have hb : b ≠ 0 := hz (Or.inr rfl)
    simp only [arith, exact] at *; simp [hb]

example : Defined .Mul 3037000499 3037000499 := by decide
example : Defined .Div (-9223372036854775807) (-1) := by decide
example : Defined .Mod (-9223372036854775808) (-1) := by decide

/-- otherwise — the exact result does not fit, or the divisor is zero — the answer is the overflow diagnostic naming
    the operator and both operands; nothing is wrapped or saturated -/
theorem arith_exact_err {op : BinaryOp} (hop : IsArith op) {a b : Int} (ha : inI64 a = true)
    (hd : ¬ Defined op a b) (fuel : Nat) (σ : State) (loc : Loc) :
    applyBinOp fuel σ op loc (.int a) (.int b) = .err (intOverflow op loc a b) σ := by
  rw [applyBinOp_int hop]
  unfold Defined at hd
  rcases hop with rfl | rfl | rfl | rfl | rfl
  · have : inI64 (a + b) = false := by
      cases h : inI64 (a + b) <;> simp_all [exact, NeedsDivisor]
    simp [arith, this]
  · have : inI64 (a - b) = false := by
      cases h : inI64 (a - b) <;> simp_all [exact, NeedsDivisor]
    simp [arith, this]
  · have : inI64 (a * b) = false := by
      cases h : inI64 (a * b) <;> simp_all [exact, NeedsDivisor]
    simp [arith, this]
  · by_cases hb : b = 0
    · simp [arith, hb]
    · have : inI64 (Int.tdiv a b) = false := by
        cases h : inI64 (Int.tdiv a b) <;> simp_all [exact, NeedsDivisor]
      simp [arith, hb, this]
  · by_cases hb : b = 0
    · simp [arith, hb]
    · exact absurd ⟨tmod_inI64 b ha, fun _ => hb⟩ hd

example : inI64 (-9223372036854775808) = true ∧ ¬ Defined .Div (-9223372036854775808) (-1) := by decide
example : ¬ Defined .Mod 1 0 := by decide
example : ¬ Defined .Mul 3037000500 3037000500 := by decide
example : ¬ Defined .Sub (-9223372036854775808) 1 := by decide

/-- **C06, arithmetic.**  On 64-bit operands the answer is the exact result iff that result exists, and is the
    overflow diagnostic iff it does not; there is no third outcome. -/
theorem arith_exact {op : BinaryOp} (hop : IsArith op) {a b : Int} (ha : inI64 a = true)
    (fuel : Nat) (σ : State) (loc : Loc) :
    (Defined op a b → applyBinOp fuel σ op loc (.int a) (.int b) = .ok (.int (exact op a b)) σ) ∧
    (¬ Defined op a b → applyBinOp fuel σ op loc (.int a) (.int b) = .err (intOverflow op loc a b) σ) :=
  ⟨fun hd => arith_exact_ok hop hd fuel σ loc, fun hd => arith_exact_err hop ha hd fuel σ loc⟩

/-- a value that comes back is the exact result, fits 64 bits, and the state is the one given -/
theorem never_wrapped {op : BinaryOp} (hop : IsArith op) {a b : Int} (ha : inI64 a = true)
    {fuel : Nat} {σ σ' : State} {loc : Loc} {v : Val}
    (h : applyBinOp fuel σ op loc (.int a) (.int b) = .ok v σ') :
    v = .int (exact op a b) ∧ inI64 (exact op a b) = true ∧ σ' = σ := by
  by_cases hd : Defined op a b
  · rw [arith_exact_ok hop hd] at h
    cases h
    exact ⟨rfl, hd.1, rfl⟩
  · rw [arith_exact_err hop ha hd] at h
    cases h

example : applyBinOp 0 State.init .Div (1, 1) (.int (-7)) (.int 2) = .ok (.int (-3)) State.init := by rfl

/-- the diagnostic text names the operation and both operands: `'<a> <op> <b>' caused an integer overflow` -/
theorem overflow_msg (op : BinaryOp) (a b : Int) :
    (Gen.Leaf.IntOverflow op a b).msg =
      c!"'" ++ intToChars a ++ c!" " ++ Gen.opSymbol op ++ c!" " ++ intToChars b ++ c!"' caused an integer overflow" := rfl

/-- the symbols printed for the five arithmetic operators -/
theorem arith_symbols :
    Gen.opSymbol .Sum = c!"+" ∧ Gen.opSymbol .Sub = c!"-" ∧ Gen.opSymbol .Mul = c!"*" ∧
    Gen.opSymbol .Div = c!"/" ∧ Gen.opSymbol .Mod = c!"%" := ⟨rfl, rfl, rfl, rfl, rfl⟩

/-- where the operators can fail at all: `%` only on a zero divisor … -/
theorem mod_defined_iff {a b : Int} (ha : inI64 a = true) : Defined .Mod a b ↔ b ≠ 0 :=
  ⟨fun h => h.2 (Or.inr rfl), fun hb => ⟨tmod_inI64 b ha, fun _ => hb⟩⟩

/-- … and `/` only on a zero divisor or on `-2^63 / -1` -/
theorem div_defined_iff {a b : Int} (ha : inI64 a = true) :
    Defined .Div a b ↔ b ≠ 0 ∧ ¬ (a = -9223372036854775808 ∧ b = -1) := by
  unfold Defined
  simp only [exact]
  constructor
  · rintro ⟨hr, hz⟩
    refine ⟨hz (Or.inl rfl), ?_⟩
    rintro ⟨rfl, rfl⟩
    revert hr; decide
  · rintro ⟨hb, hne⟩
    refine ⟨?_, fun _ => hb⟩
    rw [inI64_iff] at *
    have hq := Int.natAbs_tdiv a b
    have hle := tdiv_between a b
    by_cases h1 : b.natAbs = 1
    · have hb1 : b = 1 ∨ b = -1 := by omega
      rcases hb1 with rfl | rfl
      · rw [Int.tdiv_one]; omega
      · have : Int.tdiv a (-1) = -a := by rw [Int.tdiv_neg, Int.tdiv_one]
        rw [this]; omega
    · have h2 : 2 ≤ b.natAbs := by omega
      have : a.natAbs / b.natAbs ≤ a.natAbs / 2 := Nat.div_le_div_left h2 (by omega)
      have hq' : (Int.tdiv a b).natAbs = a.natAbs / b.natAbs := hq
      omega

/-! ## division and remainder -/

/-- `(a/b)*b + a%b = a` -/
theorem div_mod_law (a b : Int) : Int.tdiv a b * b + Int.tmod a b = a := Int.tdiv_mul_add_tmod a b

/-- the remainder is zero or has the dividend's sign -/
theorem mod_sign (a b : Int) : Int.tmod a b = 0 ∨ (Int.tmod a b).sign = a.sign := by
  have hb := tmod_between a b
  by_cases h0 : Int.tmod a b = 0
  · exact Or.inl h0
  · right
    by_cases ha : 0 ≤ a
    · have := hb.1 ha
      have hr : 0 < Int.tmod a b := by omega
      rw [Int.sign_eq_one_of_pos hr, Int.sign_eq_one_of_pos (by omega)]
    · have := hb.2 (by omega)
      have hr : Int.tmod a b < 0 := by omega
      rw [Int.sign_eq_neg_one_of_neg hr, Int.sign_eq_neg_one_of_neg (by omega)]

/-- the remainder is smaller in magnitude than the divisor -/
theorem mod_lt_divisor (a b : Int) (hb : b ≠ 0) : (Int.tmod a b).natAbs < b.natAbs := by
  have := tmod_bounds a b hb
  by_cases ha : 0 ≤ a
  · have := this.1 ha; omega
  · have := this.2 (by omega); omega

/-- “truncating toward zero, remainder with the dividend's sign” determines quotient and remainder:
    `Int.tdiv`/`Int.tmod` are the only pair satisfying the three clauses of the statement -/
theorem trunc_div_unique {a b q r : Int} (hb : b ≠ 0) (hlaw : q * b + r = a) (hlt : r.natAbs < b.natAbs)
    (hsign : r = 0 ∨ r.sign = a.sign) : q = Int.tdiv a b ∧ r = Int.tmod a b := by
  by_cases ha : 0 ≤ a
  · have hr : 0 ≤ r := by
      rcases hsign with h | h
      · omega
      · by_cases ha0 : a = 0
        · subst ha0
          simp only [Int.sign_zero] at h
          have := Int.sign_eq_zero_iff_zero.mp h
          omega
        · rw [Int.sign_eq_one_of_pos (show 0 < a by omega)] at h
          have := Int.sign_eq_one_iff_pos.mp h
          omega
    have := (Int.tdiv_tmod_unique (a := a) (q := q) (r := r) ha hb).mpr
      ⟨by rw [Int.mul_comm b q]; omega, hr, by omega⟩
    exact ⟨this.1.symm, this.2.symm⟩
  · have hr : r ≤ 0 := by
      rcases hsign with h | h
      · omega
      · rw [Int.sign_eq_neg_one_of_neg (show a < 0 by omega)] at h
        have := Int.sign_eq_neg_one_iff_neg.mp h
        omega
    have := (Int.tdiv_tmod_unique' (a := a) (q := q) (r := r) (by omega) hb).mpr
      ⟨by rw [Int.mul_comm b q]; omega, by omega, hr⟩
    exact ⟨this.1.symm, this.2.symm⟩

example : (-3 : Int) * 2 + (-1) = -7 ∧ (-1 : Int).natAbs < (2 : Int).natAbs ∧ (-1 : Int).sign = (-7 : Int).sign := by decide

/-- the law holds *in the language*: whenever `a / b` has a result, `(a / b) * b + a % b` evaluates, without
    overflow in any intermediate step, to `a` -/
theorem div_mod_law_evaluates {a b : Int} (ha : inI64 a = true) (hd : Defined .Div a b)
    (fuel : Nat) (σ : State) (loc : Loc) :
    applyBinOp fuel σ .Div loc (.int a) (.int b) = .ok (.int (Int.tdiv a b)) σ ∧
    applyBinOp fuel σ .Mod loc (.int a) (.int b) = .ok (.int (Int.tmod a b)) σ ∧
    applyBinOp fuel σ .Mul loc (.int (Int.tdiv a b)) (.int b) = .ok (.int (Int.tdiv a b * b)) σ ∧
    applyBinOp fuel σ .Sum loc (.int (Int.tdiv a b * b)) (.int (Int.tmod a b)) = .ok (.int a) σ := by
  have hb : b ≠ 0 := hd.2 (Or.inl rfl)
  have hlaw := div_mod_law a b
  have hbet := tmod_between a b
  have ha' := (inI64_iff a).mp ha
  have hprod : inI64 (Int.tdiv a b * b) = true := by
    rw [inI64_iff]
    by_cases h0 : 0 ≤ a
    · have := hbet.1 h0; omega
    · have := hbet.2 (by omega); omega
  refine ⟨arith_exact_ok (Or.inr (Or.inr (Or.inr (Or.inl rfl)))) hd fuel σ loc,
    arith_exact_ok (Or.inr (Or.inr (Or.inr (Or.inr rfl)))) ((mod_defined_iff ha).mpr hb) fuel σ loc,
    arith_exact_ok (Or.inr (Or.inr (Or.inl rfl))) ⟨hprod, by rintro (h | h) <;> cases h⟩ fuel σ loc, ?_⟩
  have := arith_exact_ok (op := .Sum) (Or.inl rfl) (a := Int.tdiv a b * b) (b := Int.tmod a b)
    ⟨by simp only [exact]; rw [hlaw]; exact ha, by rintro (h | h) <;> cases h⟩ fuel σ loc
  simp only [exact] at this
  rw [hlaw] at this
  exact this

example : inI64 (-9223372036854775808) = true ∧ Defined .Div (-9223372036854775808) 3 := by decide

/-! ## comparisons -/

/-- `< <= > >=` on integers are the mathematical order; `==`/`!=` are equality and its negation -/
theorem cmp_exact (fuel : Nat) (σ : State) (loc : Loc) (a b : Int) :
    applyBinOp fuel σ .Lt loc (.int a) (.int b) = .ok (.bool (decide (a < b))) σ ∧
    applyBinOp fuel σ .Lte loc (.int a) (.int b) = .ok (.bool (decide (a ≤ b))) σ ∧
    applyBinOp fuel σ .Gt loc (.int a) (.int b) = .ok (.bool (decide (b < a))) σ ∧
    applyBinOp fuel σ .Gte loc (.int a) (.int b) = .ok (.bool (decide (b ≤ a))) σ ∧
    applyBinOp (fuel + 1) σ .Eq loc (.int a) (.int b) = .ok (.bool (decide (a = b))) σ ∧
    applyBinOp (fuel + 1) σ .Ne loc (.int a) (.int b) = .ok (.bool (decide (a ≠ b))) σ := by
  have hbeq : (a == b) = decide (a = b) := by by_cases h : a = b <;> simp [h]
  refine ⟨rfl, rfl, rfl, rfl, ?_, ?_⟩
  · simp [applyBinOp, eqVal, hbeq]
  · simp [applyBinOp, eqVal, hbeq]

/-- exactly one of `a < b`, `a == b`, `a > b` is answered `true` -/
theorem cmp_trichotomy (a b : Int) :
    (decide (a < b) = true ∧ decide (a = b) = false ∧ decide (b < a) = false) ∨
    (decide (a < b) = false ∧ decide (a = b) = true ∧ decide (b < a) = false) ∨
    (decide (a < b) = false ∧ decide (a = b) = false ∧ decide (b < a) = true) := by
  simp only [decide_eq_true_eq, decide_eq_false_iff_not]
  omega

/-! ## integer literals -/

theorem takeWhile_run {α} (p : α → Bool) (raw tail : List α) (hraw : ∀ c ∈ raw, p c = true)
    (htail : ∀ c, tail.head? = some c → p c = false) : (raw ++ tail).takeWhile p = raw := by
  induction raw with
  | nil =>
    cases tail with
    | nil => rfl
    | cons c t => simp [htail c rfl]
  | cons c r ih =>
    have hc := hraw c List.mem_cons_self
    simp only [List.cons_append, List.takeWhile, hc]
    rw [ih (fun d hd => hraw d (List.mem_cons_of_mem _ hd))]

/-- the digits of a literal: the run of digits and `_` with the `_` removed -/
def digitsOf (raw : List Char) : List Char := raw.filter (fun c => c ≠ '_')

/-- **C06, literals.**  A literal whose text is `raw` (digits and `_`, ended by any other character or the end of
    input) denotes the decimal value of its digits when that is at most 2^63-1, and is a lexical error naming the
    text otherwise. -/
theorem int_literal_value (s : Scanner) (raw tail : List Char) (hs : s.rest = raw ++ tail)
    (hraw : ∀ c ∈ raw, isIntChar c = true) (htail : ∀ c, tail.head? = some c → isIntChar c = false) :
    lexInt s =
      if decimalValue (digitsOf raw) ≤ 9223372036854775807
      then .ok (Token.IntLiteral (Int.ofNat (decimalValue (digitsOf raw))), s.advance raw.length)
      else .error (LexError.IntOverflow s.loc raw) := by
  unfold lexInt
  rw [hs, takeWhile_run isIntChar raw tail hraw htail]
  rfl

example : (⟨c!"1_0 + 2", 1, 1⟩ : Scanner).rest = c!"1_0" ++ c!" + 2" ∧ (∀ c ∈ c!"1_0", isIntChar c = true) ∧
    (∀ c, (c!" + 2").head? = some c → isIntChar c = false) := by
  refine ⟨rfl, by decide, ?_⟩
  intro c h; cases h; decide

/-- the value of a literal that lexes is its decimal value and fits 64 bits -/
theorem int_literal_in_range {s s' : Scanner} {n : Int} (h : lexInt s = .ok (Token.IntLiteral n, s')) :
    n = Int.ofNat (decimalValue (digitsOf (s.rest.takeWhile isIntChar))) ∧ 0 ≤ n ∧ inI64 n = true := by
  unfold lexInt at h
  simp only at h
  split at h
  · rename_i hle
    cases h
    refine ⟨rfl, Int.natCast_nonneg _, ?_⟩
    rw [inI64_iff]
    simp only [i64Max] at hle
    have : (Int.ofNat (decimalValue (List.filter (fun c => decide (c ≠ '_')) (List.takeWhile isIntChar s.rest)))) ≤
        9223372036854775807 := by
      exact Int.ofNat_le.mpr hle
    constructor
    · have := Int.natCast_nonneg (decimalValue (List.filter (fun c => decide (c ≠ '_')) (List.takeWhile isIntChar s.rest)))
      exact Int.le_trans (by decide) this
    · exact this
  · cases h

example : lexInt ⟨c!"9_223_372_036_854_775_807;", 1, 1⟩ =
    .ok (Token.IntLiteral 9223372036854775807, ⟨c!";", 1, 26⟩) := by rfl

/-- `_` separators are ignored: the outcome depends on the digits only -/
theorem underscores_ignored (s₁ s₂ : Scanner)
    (h : digitsOf (s₁.rest.takeWhile isIntChar) = digitsOf (s₂.rest.takeWhile isIntChar)) :
    (∀ n s₁', lexInt s₁ = .ok (Token.IntLiteral n, s₁') → ∃ s₂', lexInt s₂ = .ok (Token.IntLiteral n, s₂')) ∧
    ((∃ e, lexInt s₁ = .error e) → ∃ e, lexInt s₂ = .error e) := by
  unfold digitsOf at h
  constructor
  · intro n s₁' h1
    unfold lexInt at h1 ⊢
    simp only at h1 ⊢
    rw [← h]
    split at h1
    · rename_i hle
      cases h1
      exact ⟨_, by rw [if_pos hle]⟩
    · cases h1
  · rintro ⟨e, h1⟩
    unfold lexInt at h1 ⊢
    simp only at h1 ⊢
    rw [← h]
    split at h1
    · cases h1
    · rename_i hgt
      exact ⟨_, by rw [if_neg hgt]⟩

example : digitsOf ((⟨c!"1_000_000 ", 1, 1⟩ : Scanner).rest.takeWhile isIntChar) =
    digitsOf ((⟨c!"10__00000", 3, 4⟩ : Scanner).rest.takeWhile isIntChar) := by decide

/-- the decimal value is positional: empty string 0, leading digit weighs 10^(digits after it), appending a digit
    multiplies by ten; leading zeros do not matter -/
theorem decimal_value_positional (d : Char) (ds : List Char) :
    decimalValue [] = 0 ∧
    decimalValue (d :: ds) = digitVal d * 10 ^ ds.length + decimalValue ds ∧
    decimalValue (ds ++ [d]) = decimalValue ds * 10 + digitVal d ∧
    decimalValue ('0' :: ds) = decimalValue ds :=
  ⟨rfl, decimalValue_cons d ds, decimalValue_snoc ds d, foldl_dec_zero_cons ds⟩

/-- the ten digit characters have the values 0 … 9 -/
theorem digit_values : (c!"0123456789").map digitVal = [0, 1, 2, 3, 4, 5, 6, 7, 8, 9] := by decide

/-- the boundary is exactly 2^63-1: `9223372036854775807` is a literal, `9223372036854775808` is an error
    carrying the literal's text and position -/
theorem literal_boundary :
    lexInt ⟨c!"9223372036854775807", 1, 1⟩ = .ok (Token.IntLiteral 9223372036854775807, ⟨[], 1, 19⟩) ∧
    lexInt ⟨c!"9223372036854775808", 1, 1⟩ = .error (LexError.IntOverflow (1, 1) c!"9223372036854775808") :=
  ⟨by rfl, by rfl⟩

/-- a `-` directly before an integer literal in operand position forms the negative literal -/
theorem neg_literal (fuel : Nat) (sp sp2 : Span) (k : Int) (r : List Span)
    (h1 : sp.tok = .Sub) (h2 : sp2.tok = .IntLiteral k) :
    parseAtom (fuel + 1) none (sp :: sp2 :: r) = .ok (.Int (-k)) r := by
  simp [parseAtom, h1, h2]

example : (⟨(1, 1), Token.Sub, (1, 1)⟩ : Span).tok = .Sub ∧ (⟨(1, 2), Token.IntLiteral 5, (1, 2)⟩ : Span).tok = .IntLiteral 5 :=
  ⟨rfl, rfl⟩

/-- every negative literal is in range, and `-2^63` is not the negation of any literal -/
theorem neg_literal_range {s s' : Scanner} {n : Int} (h : lexInt s = .ok (Token.IntLiteral n, s')) :
    inI64 (-n) = true ∧ -n ≠ -9223372036854775808 := by
  have := int_literal_in_range h
  have h2 := (inI64_iff n).mp this.2.2
  rw [inI64_iff]
  omega

/-! ## ranges -/

/-- **C06, ranges.**  `a .. b` has `(b - a).toNat` elements and its `i`-th element is `a + i` -/
theorem range_spec (a b : Int) :
    (intRange a b).length = (b - a).toNat ∧
    ∀ i (h : i < (intRange a b).length), (intRange a b)[i] = SVal.plain (.int (a + Int.ofNat i)) := by
  unfold intRange
  refine ⟨by simp, ?_⟩
  intro i h
  simp

/-- membership: exactly the integers `i` with `a ≤ i < b` -/
theorem range_mem (a b : Int) (v : SVal) :
    v ∈ intRange a b ↔ ∃ i : Int, a ≤ i ∧ i < b ∧ v = SVal.plain (.int i) := by
  unfold intRange
  simp only [List.mem_map, List.mem_range]
  constructor
  · rintro ⟨k, hk, rfl⟩
    exact ⟨a + Int.ofNat k, by simp only [Int.ofNat_eq_natCast]; omega, by simp only [Int.ofNat_eq_natCast]; omega, rfl⟩
  · rintro ⟨i, h1, h2, rfl⟩
    refine ⟨(i - a).toNat, by omega, ?_⟩
    have : a + Int.ofNat (i - a).toNat = i := by simp only [Int.ofNat_eq_natCast]; omega
    rw [this]

/-- an empty or reversed range is the empty list -/
theorem range_empty (a b : Int) (h : b ≤ a) : intRange a b = [] := by
  unfold intRange
  have : (b - a).toNat = 0 := by omega
  rw [this]; rfl

example : intRange 9223372036854775804 9223372036854775807 =
    [SVal.plain (.int 9223372036854775804), SVal.plain (.int 9223372036854775805), SVal.plain (.int 9223372036854775806)] := by
  decide

/-- with 64-bit bounds every element is a 64-bit integer -/
theorem range_inI64 (a b : Int) (ha : inI64 a = true) (hb : inI64 b = true) (v : SVal) (hv : v ∈ intRange a b) :
    ∃ i, v = SVal.plain (.int i) ∧ inI64 i = true := by
  obtain ⟨i, h1, h2, rfl⟩ := (range_mem a b v).mp hv
  refine ⟨i, rfl, ?_⟩
  rw [inI64_iff] at *
  omega

/-! ## `x op= y` is `x = x op y` -/

/-- element / property targets: the stored value is the operator applied to the current and the new value -/
theorem opassign_slot (fuel : Nat) (σ : State) (cur rhs : SVal) (op : BinaryOp) (oloc : Loc) :
    opAssignValue fuel σ cur rhs (some (op, oloc)) = (applyBinOp fuel σ op oloc cur.v rhs.v).map SVal.plain := rfl

/-- variable targets: `x op= rhs` is “compute `x op rhs`, then do what `x = …` does with the result” -/
theorem opassign_var (fuel : Nat) (σ : State) (sc : List Addr) (names : List (List Char)) (name : List Char)
    (loc : Loc) (rhs cur : SVal) (op : BinaryOp) (oloc : Loc)
    (hn : name ≠ c!"_") (hfresh : name ∉ names) (hcur : scopeGet σ sc name = some cur) :
    bindNextName fuel σ sc names name loc rhs (some (op, oloc)) false =
      (applyBinOp fuel σ op oloc cur.v rhs.v).bind fun v σ1 =>
        bindNextName fuel σ1 sc names name loc (SVal.plain v) none false := by
  unfold bindNextName
  simp [hn, hfresh, hcur]

example : c!"x" ≠ c!"_" ∧ c!"x" ∉ ([] : List (List Char)) ∧
    scopeGet ⟨#[.scope [(c!"x", SVal.plain (.int 7), (1, 1))]], []⟩ [0] c!"x" = some (SVal.plain (.int 7)) := by decide

/-- **C06, op-assignment.**  `x op= rhs` equals `x = x op rhs` for every right-hand side whose evaluation terminates
    with a value and leaves `x` as it was (hypothesis `hpure`; a right-hand side that assigns `x` is the documented
    exception shown at the end of this file): with enough fuel both statements give the same result and state.
    `m` is fuel enough for `rhs`, `k` fuel enough for the operator (which needs fuel only for `==` on containers). -/
theorem opassign_eq_assign (n m k : Nat) (σ σ1 : State) (sc : List Addr) (x : List Char) (loc bloc : Loc)
    (op : BinaryOp) (oloc : Loc) (rhs : Expr) (cur v : SVal) (r : Res Val)
    (hx : x ≠ c!"_") (hget : scopeGet σ sc x = some cur)
    (hrhs : evalExpr m σ sc rhs = .ok v σ1) (hpure : scopeGet σ1 sc x = some cur)
    (hop : applyBinOp k σ1 op oloc cur.v v.v = r) (hr : r ≠ .timeout) (hm : m ≤ n + 2) (hk : k ≤ n + 2) :
    evalStmt (n + 4) σ sc (.OpAssign (.mk (.Var x) loc) op oloc rhs) =
    evalStmt (n + 4) σ sc (.Assign (.mk (.Var x) loc) (.mk (.BinaryOp op oloc (.mk (.Var x) bloc) rhs) bloc)) := by
  have e3 : evalExpr (n + 3) σ sc rhs = .ok v σ1 := evalExpr_stable (by omega) hrhs (by simp)
  have e2 : evalExpr (n + 2) σ sc rhs = .ok v σ1 := evalExpr_stable hm hrhs (by simp)
  have o2 : applyBinOp (n + 2) σ1 op oloc cur.v v.v = r := applyBinOp_stable hk hop hr
  simp only [evalStmt, evalExpr, e3, e2, hget, Res.bind, bindNext, bindNextName, hx, if_false, List.contains_nil,
    Bool.false_eq_true, hpure, o2]
  cases r with
  | ok w σ2 => rfl
  | err e σ2 => rfl
  | crash w σ2 => rfl
  | timeout => exact absurd rfl hr

/-- the hypotheses are met by `x := 7; x *= x + 1` (the right-hand side reads `x` and leaves it alone) -/
example : ∃ (σ σ1 : State) (sc : List Addr) (rhs : Expr) (cur v : SVal) (r : Res Val),
    c!"x" ≠ c!"_" ∧ scopeGet σ sc c!"x" = some cur ∧ evalExpr 3 σ sc rhs = .ok v σ1 ∧ scopeGet σ1 sc c!"x" = some cur ∧
    applyBinOp 0 σ1 .Mul (2, 3) cur.v v.v = r ∧ r ≠ .timeout :=
  ⟨⟨#[.scope [(c!"x", SVal.plain (.int 7), (1, 1))]], []⟩, ⟨#[.scope [(c!"x", SVal.plain (.int 7), (1, 1))]], []⟩, [0],
   .mk (.BinaryOp .Sum (2, 8) (.mk (.Var c!"x") (2, 6)) (.mk (.Int 1) (2, 10))) (2, 6),
   SVal.plain (.int 7), SVal.plain (.int 8), .ok (.int 56) ⟨#[.scope [(c!"x", SVal.plain (.int 7), (1, 1))]], []⟩,
   by decide, by decide, by simp [evalExpr, scopeGet, State.getScope, scopeLookup, applyBinOp, arith, inI64, i64Min, i64MaxI, Res.bind, SVal.plain],
   by decide, by rfl, by simp⟩

/-- the special case of an integer literal on the right, with explicit fuel on both sides -/
theorem opassign_eq_assign_literal (n : Nat) (σ : State) (sc : List Addr) (x : List Char) (loc rloc bloc : Loc)
    (op : BinaryOp) (oloc : Loc) (i k : Int) (cur : SVal) (hop : IsArith op) (hx : x ≠ c!"_")
    (hget : scopeGet σ sc x = some cur) (hv : cur.v = .int i) :
    evalStmt (n + 3) σ sc (.OpAssign (.mk (.Var x) loc) op oloc (.mk (.Int k) rloc)) =
    evalStmt (n + 4) σ sc
      (.Assign (.mk (.Var x) loc) (.mk (.BinaryOp op oloc (.mk (.Var x) bloc) (.mk (.Int k) rloc)) bloc)) := by
  have hb : ∀ f, applyBinOp f σ op oloc (.int i) (.int k) = arith op oloc i k σ := fun f => applyBinOp_int hop f σ oloc i k
  simp only [evalStmt, evalExpr, bindNext, Res.bind, hget, bindNextName, SVal.plain, hv, hb]
  simp only [hx, if_false, List.contains_nil, Bool.false_eq_true]
  cases arith op oloc i k σ <;> rfl

/-- the hypotheses are met by `x := 7; x *= 6` … -/
example : c!"x" ≠ c!"_" ∧ ∃ σ sc cur, scopeGet σ sc c!"x" = some cur ∧ cur.v = .int 7 :=
  ⟨by decide, ⟨#[.scope [(c!"x", SVal.plain (.int 7), (1, 1))]], []⟩, [0], SVal.plain (.int 7), by decide, rfl⟩

/-- … and the side condition of the full statement is necessary: when the right-hand side is a call that assigns `x`,
    `x += f()` reads `x` after the call (11) while `x = x + f()` reads it before (2).  A documented choice of the
    language, not a finding: the property quantifies over integer operands. -/
example :
    (run 200 c!"t.sd" c!"x := 1\nfn f() { x = 10; return 1; }\nx += f()\nprint(x)\n").out = [c!"11"] ∧
    (run 200 c!"t.sd" c!"x := 1\nfn f() { x = 10; return 1; }\nx = x + f()\nprint(x)\n").out = [c!"2"] := by
  decide +kernel

/-- whole-pipeline instances of the property on boundary inputs (lexer, parser, evaluator, renderer together) -/
example :
    (run 200 c!"t.sd" c!"print(9_223_372_036_854_775_807 + 0)\nprint(-7 / 2)\nprint(-7 % 2)\nx := 3037000499\nx *= x\nprint(x)\n").out =
      [c!"9223372036854775807", c!"-3", c!"-1", c!"9223372030926249001"] ∧
    (run 200 c!"t.sd" c!"print((0 - 9223372036854775807 - 1) / -1)\n").stderr =
      c!"t.sd:1:37: '-9223372036854775808 / -1' caused an integer overflow\n" ∧
    (run 200 c!"t.sd" c!"print(1 % 0)\n").stderr = c!"t.sd:1:9: '1 % 0' caused an integer overflow\n" := by
  decide +kernel

/-! ## the host primitives, read off the source on every run

`Gen.binopPrims` is regenerated by tools/extract.py from the arms of `apply_binary_operation`: which `i64` method (and
which other arithmetic or bit operator, listed as `raw …`) each arm computes with.  The model's `arith` is "the exact
result if it fits 64 bits, else the overflow diagnostic"; that is what `checked_add/sub/mul/div` are, and what a zero test
followed by `wrapping_rem` is (only `MIN % -1` differs from `%`, and there the exact result `0` fits).  A wrapping or
saturating method, or a hand-written shortcut next to the primitive, changes this table and the theorem no longer checks. -/
theorem source_primitives_as_modelled :
    Gen.binopPrims =
      [(c!"Sum:Int:Int", [c!"checked_add(b)"]), (c!"Sum:Str:Str", [c!"concat"]), (c!"Sum:List:List", [c!"concat"]),
       (c!"Sub:Int:Int", [c!"checked_sub(b)"]), (c!"Mul:Int:Int", [c!"checked_mul(b)"]), (c!"Div:Int:Int", [c!"checked_div(b)"]),
       (c!"Mod:Int:Int", [c!"wrapping_rem(b)", c!"b == 0 -> overflow"]),
       (c!"And:Bool:Bool", [c!"a && b"]), (c!"Or:Bool:Bool", [c!"a || b"]),
       (c!"Gt:Int:Int", [c!"a > b"]), (c!"Gte:Int:Int", [c!"a >= b"]), (c!"Lt:Int:Int", [c!"a < b"]), (c!"Lte:Int:Int", [c!"a <= b"])] := by
  decide

end Seed.C06
