/-
  C11x — property theorems of C11 about everyday idioms (third session; Lemmas/IdiomsProofs*.lean).

  `range_assign_from_own_slice`: `xs[i:j] = xs[k:l]` first takes the slice as a fresh list (a snapshot) and then splices it: the
  result is `items.take i ++ (items.drop k).take (l-k) ++ items.drop j` of the OLD items, also when the ranges overlap
  (`xs[1:4] = xs[0:3]` on `[1,2,3,4,5]` gives `[1,1,2,3,5]`).
-/
import SeedProofs.C11
import SeedProofs.Lemmas.IdiomsProofs2
-- audit: Seed.Idioms.range_assign_from_own_slice
