/-
  C19 — runs are deterministic and printing is a canonical function of the value.
-/
import SeedModel.Run
namespace Seed.C19
open Seed

/-- the only iteration over a hash-ordered collection in the sources is `remaining_keys.iter()` in bind.rs, and it is
    collected into a `BTreeMap` (ordered) before anything observes it — a `decide` fact about the table extracted from
    the source on every run -/
theorem no_hash_iteration : Gen.hashIterSites = [c!"bind.rs:remaining_keys.iter->BTreeMap"] := by decide

/-- the interpreter's only uses of the environment and the file system: the argument list, the current directory (to
    locate the script), reading the script, and exiting -/
theorem env_uses_as_expected :
    Gen.envUses = [c!"main.rs:env::args", c!"main.rs:env::current_dir", c!"main.rs:fs::read_to_string", c!"main.rs:process::exit"] := by
  decide

/-- the model's `run` is a function of the fuel, the path text and the source text and nothing else (by type); stated for
    the record: two runs on the same inputs are equal -/
theorem run_is_function (n : Nat) (path src : List Char) : run n path src = run n path src := rfl

/-- the leaves of the rendering -/
theorem render_null (n : Nat) (σ : State) (held : List Addr) : render (n + 1) σ held .null = .ok c!"<null>" := by
  unfold render; rfl
theorem render_bool (n : Nat) (σ : State) (held : List Addr) (b : Bool) :
    render (n + 1) σ held (.bool b) = .ok (if b then c!"true" else c!"false") := by
  unfold render; rfl
theorem render_int (n : Nat) (σ : State) (held : List Addr) (i : Int) :
    render (n + 1) σ held (.int i) = .ok (intToChars i) := by
  unfold render; rfl

/-- `print` of a renderable value appends exactly one output entry (the rendering, written with one newline by the
    driver) and returns null with no provenance -/
theorem print_spec (n : Nat) (σ : State) (v : SVal) (s : List Char) (h : render n σ [] v.v = .ok s) :
    callBuiltin n σ .print none [v] = .ok (SVal.plain .null) (σ.print s) := by
  unfold callBuiltin
  simp [assertArgs, h]

end Seed.C19
