/-
  C19 — runs are deterministic and printing is a canonical function of the value.
-/
import SeedModel.Run
import SeedProofs.Lemmas.C19Spec
import SeedProofs.Lemmas.C19Held
namespace Seed.C19
open Seed Seed.C10

/-- the only iteration over a hash-ordered collection in the sources is the `.iter()` over a `HashSet` in `bind_object` (bind.rs), and it is
    collected into a `BTreeMap` (ordered) before anything observes it — a `decide` fact about the table extracted from
    the source on every run -/
theorem no_hash_iteration : Gen.hashIterSites = [c!"bind.rs:bind_object:HashSet.iter->BTreeMap"] := by decide

/-- the interpreter's only uses of the environment and the file system: the argument list, the current directory (to
    locate the script), reading the script, and exiting -/
theorem env_uses_as_expected :
    Gen.envUses = [c!"env::args", c!"env::current_dir", c!"fs::read_to_string", c!"process::exit"] := by
  decide

/-- the model's `run` is a function of the fuel, the path text and the source text and nothing else (by type); stated for
    the record: two runs on the same inputs are equal -/
theorem run_is_function (n : Nat) (path src : List Char) : run n path src = run n path src := rfl

/-- the leaves of the rendering -/
theorem render_null (n : Nat) (σ : State) (held : List Addr) : render (n + 1) σ held .null = .ok c!"<null>" := by
  unfold render; rfl
theorem render_bool (n : Nat) (σ : State) (held : List Addr) (b : Bool) :
    render (n + 1) σ held (.bool b) = .ok (if b then c!"true" else c!"false") := by
  unfold render; rfl
theorem render_int (n : Nat) (σ : State) (held : List Addr) (i : Int) :
    render (n + 1) σ held (.int i) = .ok (intToChars i) := by
  unfold render; rfl

/-- `print` of a renderable value appends exactly one output entry (the rendering, written with one newline by the
    driver) and returns null with no provenance -/
theorem print_spec (n : Nat) (σ : State) (v : SVal) (s : List Char) (h : render n σ [] v.v = .ok s) :
    callBuiltin n σ .print none [v] = .ok (SVal.plain .null) (σ.print s) := by
  unfold callBuiltin
  simp [assertArgs, h]

/-! ## printing is a function of the unfolding

`C10.Tree` is the inductive unfolding of a value, `C10.Unf σ v t`: "`t` is the unfolding of `v` in the heap of `σ`" (it exists
exactly when no container is reachable from itself).  `renderTree` (`Lemmas/C19Render.lean`) is the renderer on trees,
`specPrint σ d t` (`Lemmas/C19Spec.lean`) the direct depth-passing printer of the property text. -/

-- audit: Seed.C19.render_link Seed.C19.render_unfold Seed.C19.render_unfold_held Seed.C19.render_unfold_le Seed.C19.renderTree_cleanB Seed.C19.renderTree_no_lock Seed.C19.renderTree_fnfree Seed.C19.spec_indent Seed.C19.render_eq_spec Seed.C19.render_spec Seed.C19.indent_append Seed.C19.indent_reindent Seed.C19.iterate_indent
-- audit: Seed.C19.render_held_frame Seed.C19.render_noheld Seed.C19.render_unfold_noheld Seed.C19.Reach.unf Seed.C19.unf_acyclic_list Seed.C19.unf_acyclic_obj Seed.C19.Unf.canon

/-- **C19 (R1+R2).** with enough fuel, and with any larger amount, `render` of an acyclic value is the direct printer
    applied to its unfolding at depth 0 — whatever the addresses, the sharing and the history of the heap; it is never
    the failed `try_lock` and never a time-out -/
theorem print_is_spec {σ : State} {v : Val} {t : Tree} (h : Unf σ v t) :
    (∃ n, ∀ m, n ≤ m → render m σ [] v = specPrint σ 0 t) ∧ specPrint σ 0 t ≠ .lock ∧ specPrint σ 0 t ≠ .timeout := by
  refine ⟨render_spec h, ?_⟩
  rw [← render_eq_spec]
  exact renderTree_no_lock σ t

/-- at every fuel: a time-out or the direct printer's answer -/
theorem print_is_spec_le {σ : State} {v : Val} {t : Tree} (h : Unf σ v t) (n : Nat) :
    render n σ [] v = .timeout ∨ render n σ [] v = specPrint σ 0 t := by
  rw [← render_eq_spec]; exact render_unfold_le h n

/-- the shape of the direct printer, as in the property text -/
theorem spec_shapes (σ : State) (d : Nat) :
    specPrint σ d .null = .ok c!"<null>" ∧
    specPrint σ d (.bool true) = .ok c!"true" ∧ specPrint σ d (.bool false) = .ok c!"false" ∧
    (∀ i, specPrint σ d (.int i) = .ok (intToChars i)) ∧
    (∀ cs, specPrint σ 0 (.str (utf8Encode cs)) = match utf8Decode (utf8Encode cs) with
      | .ok cs' => .ok cs' | .error e => .err (Gen.Leaf.BuiltinFuncErr (c!"couldn't convert error message to UTF-8: " ++ e.msg))) ∧
    specPrint σ d (.list .nil) = .ok (c!"[\n" ++ pad d ++ c!"]") ∧
    specPrint σ d (.obj .nil) = .ok (c!"{\n" ++ pad d ++ c!"}") ∧
    (∀ t r s rest, specPrint σ (d + 1) t = .ok s → specItems σ d r = .ok rest →
      specItems σ d (.cons t r) = .ok (pad (d + 1) ++ s ++ c!",\n" ++ rest)) ∧
    (∀ k t r s rest, specPrint σ (d + 1) t = .ok s → specProps σ d r = .ok rest →
      specProps σ d (.cons k t r) = .ok (pad (d + 1) ++ c!"\"" ++ reindent d k ++ c!"\": " ++ s ++ c!",\n" ++ rest)) := by
  refine ⟨rfl, rfl, rfl, fun _ => rfl, ?_, rfl, rfl, ?_, ?_⟩
  · intro cs
    simp only [specPrint, reindent_zero]
    cases utf8Decode (utf8Encode cs) <;> rfl
  · intro t r s rest h1 h2; simp only [specItems, h1, h2, RenderRes.bind]
  · intro k t r s rest h1 h2; simp only [specProps, h1, h2, RenderRes.bind]

/-- a list in a list holding a two-line string: each enclosing container re-indents the inner line once -/
example :
    specPrint State.init 0 (.list (.cons (.list (.cons (.str [97, 10, 98]) (.cons (.int (-7)) .nil))) (.cons .null .nil))) =
      .ok c!"[\n    [\n        a\n        b,\n        -7,\n    ],\n    <null>,\n]" := by
  rfl

/-- the same through the heap: cell 0 is `["a\nb"]`, cell 1 is the object `{"k": cell 0, "l": cell 0}` (shared) -/
example :
    render 6 ⟨#[.list [SVal.plain (.str [97, 10, 98])], .obj [(c!"k", SVal.plain (.list 0)), (c!"l", SVal.plain (.list 0))]], []⟩
        [] (.obj 1) =
      .ok c!"{\n    \"k\": [\n        a\n        b,\n    ],\n    \"l\": [\n        a\n        b,\n    ],\n}" := by
  rfl

/-- a container that contains itself has no unfolding, and `render` answers `.lock` (a crash of `print`) -/
example : render 6 ⟨#[.list [SVal.plain (.list 0)]], []⟩ [] (.list 0) = .lock := by rfl

/-! ## values with the same unfolding print identically -/

/-- **C19 (R3).** two values with the same function-free unfolding — in the same or in different heaps, at any
    addresses, with any sharing, however they were built — render identically (a text or the UTF-8 error) -/
theorem eq_print_same {σ σ' : State} {v w : Val} {t : Tree} (hv : Unf σ v t) (hw : Unf σ' w t) (hf : t.FnFree) :
    ∃ n, ∀ m, n ≤ m → render m σ [] v = render m σ' [] w ∧ Clean (render m σ [] v) := by
  obtain ⟨n1, h1⟩ := render_unfold hv
  obtain ⟨n2, h2⟩ := render_unfold hw
  refine ⟨max n1 n2, fun m hm => ?_⟩
  rw [h1 m (by omega), h2 m (by omega)]
  exact ⟨(renderTree_fnfree σ σ' t hf).2, (renderTree_fnfree σ σ' t hf).1⟩

/-- in one heap functions may occur too -/
theorem eq_print_same_state {σ : State} {v w : Val} {t : Tree} (hv : Unf σ v t) (hw : Unf σ w t) :
    ∃ n, ∀ m, n ≤ m → render m σ [] v = render m σ [] w := by
  obtain ⟨n1, h1⟩ := render_unfold hv
  obtain ⟨n2, h2⟩ := render_unfold hw
  exact ⟨max n1 n2, fun m hm => by rw [h1 m (by omega), h2 m (by omega)]⟩

/-- whatever the two fuels: two answers that are not time-outs are the same answer -/
theorem eq_print_same_any_fuel {σ σ' : State} {v w : Val} {t : Tree} (hv : Unf σ v t) (hw : Unf σ' w t) (hf : t.FnFree)
    (n m : Nat) (h1 : render n σ [] v ≠ .timeout) (h2 : render m σ' [] w ≠ .timeout) :
    render n σ [] v = render m σ' [] w := by
  rcases render_unfold_le hv n with h | h
  · exact absurd h h1
  · rcases render_unfold_le hw m with h' | h'
    · exact absurd h' h2
    · rw [h, h', (renderTree_fnfree σ σ' t hf).2]

/-- `print` uses its argument only through `render` -/
theorem print_depends_on_render (n : Nat) (σ : State) (x y : SVal) (h : render n σ [] x.v = render n σ [] y.v) :
    callBuiltin n σ .print none [x] = callBuiltin n σ .print none [y] := by
  unfold callBuiltin
  simp [assertArgs, h]

/-- **C19 (R3).** values that are `==` print identically: if `a == b` answers `true` on function-free acyclic data
    (`Canon`: keys of every object in increasing order, as `BTreeMap` keeps them), the two `print` calls do exactly the
    same thing — the same line appended to the output, or the same error -/
theorem eq_values_print_same {σ : State} {x y : SVal} {s t : Tree} (k : Nat) (hx : Unf σ x.v s) (hy : Unf σ y.v t)
    (hf : s.FnFree) (hs : s.Canon) (ht : t.Canon) (he : eqVal k σ x.v y.v = .ok true) :
    (∃ n, ∀ m, n ≤ m → render m σ [] x.v = render m σ [] y.v ∧
      callBuiltin m σ .print none [x] = callBuiltin m σ .print none [y]) ∧
    (∀ n m, render n σ [] x.v ≠ .timeout → render m σ [] y.v ≠ .timeout → render n σ [] x.v = render m σ [] y.v) := by
  have hst : s = t := by
    rcases (eq_link σ k).1 x.v y.v s t hx hy hf (Tree.Canon.KO s hs) with h | h
    · rw [he] at h; cases h
    · exact eqT_true_eq s t hs ht (by rw [← h, he])
  subst hst
  constructor
  · obtain ⟨n, hn⟩ := eq_print_same_state hx hy
    exact ⟨n, fun m hm => ⟨hn m hm, print_depends_on_render m σ x y (hn m hm)⟩⟩
  · exact fun n m => eq_print_same_any_fuel hx hy hf n m

/-- the same with the canonical-form hypotheses discharged from the heap invariant "every object cell is key-sorted" -/
theorem eq_values_print_same_sorted {σ : State} {x y : SVal} {s t : Tree} (k : Nat) (hσ : HeapSorted σ)
    (hx : Unf σ x.v s) (hy : Unf σ y.v t) (hf : s.FnFree) (he : eqVal k σ x.v y.v = .ok true) :
    (∃ n, ∀ m, n ≤ m → render m σ [] x.v = render m σ [] y.v ∧
      callBuiltin m σ .print none [x] = callBuiltin m σ .print none [y]) ∧
    (∀ n m, render n σ [] x.v ≠ .timeout → render m σ [] y.v ≠ .timeout → render n σ [] x.v = render m σ [] y.v) :=
  eq_values_print_same k hx hy hf (Unf.canon hσ s _ hx) (Unf.canon hσ t _ hy) he

/-! ## the lines of an object are in the stored key order -/

/-- element-wise relation between two lists of the same length -/
inductive Forall2 {α β : Type} (R : α → β → Prop) : List α → List β → Prop
  | nil : Forall2 R [] []
  | cons {a : α} {b : β} {as : List α} {bs : List β} : R a b → Forall2 R as bs → Forall2 R (a :: as) (b :: bs)

/-- the line of one property -/
def propLine (k s : List Char) : List Char := c!"    \"" ++ k ++ c!"\": " ++ indent s ++ c!",\n"

theorem renderProps_lines (σ : State) (held : List Addr) : ∀ (n : Nat) (props : ObjMap) (body : List Char),
    renderProps n σ held props = .ok body →
    ∃ rs : List (List Char), Forall2 (fun p s => ∃ m, render m σ held p.2.v = .ok s) props rs ∧
      body = (List.zipWith (fun p s => propLine p.1 s) props rs).flatten
  | 0, _, _, h => by simp [renderProps] at h
  | n + 1, [], body, h => by
    simp only [renderProps, RenderRes.ok.injEq] at h
    exact ⟨[], .nil, by simp [← h]⟩
  | n + 1, (k, x) :: r, body, h => by
    simp only [renderProps] at h
    cases h1 : render n σ held x.v with
    | ok s =>
      rw [h1] at h
      cases h2 : renderProps n σ held r with
      | ok rest =>
        rw [h2] at h
        simp only [RenderRes.ok.injEq] at h
        obtain ⟨rs, hrs, hb⟩ := renderProps_lines σ held n r rest h2
        refine ⟨s :: rs, .cons ⟨n, h1⟩ hrs, ?_⟩
        simp [← h, hb, propLine]
      | err l => rw [h2] at h; cases h
      | lock => rw [h2] at h; cases h
      | bad => rw [h2] at h; cases h
      | timeout => rw [h2] at h; cases h
    | err l => rw [h1] at h; cases h
    | lock => rw [h1] at h; cases h
    | bad => rw [h1] at h; cases h
    | timeout => rw [h1] at h; cases h

/-- **C19.** what `print` writes for an object: `{`, then one `    "key": value,` line per stored property **in the
    stored order** — which is ascending key order when the cell is sorted, as every `BTreeMap` is — then `}`; the value
    texts are the re-indented renderings of the property values -/
theorem render_keys_ascending {σ : State} {a : Addr} {props : ObjMap} {n : Nat} {out : List Char}
    (hg : σ.getObj a = some props) (hs : props.Pairwise fun p q => keyLt p.1 q.1 = true)
    (hr : render n σ [] (.obj a) = .ok out) :
    ∃ rs : List (List Char), Forall2 (fun p s => ∃ m, render m σ [a] p.2.v = .ok s) props rs ∧
      out = c!"{\n" ++ (List.zipWith (fun p s => propLine p.1 s) props rs).flatten ++ c!"}" ∧
      (props.map Prod.fst).Pairwise (fun k k' => keyLt k k' = true) := by
  cases n with
  | zero => simp [render] at hr
  | succ n =>
    simp only [render, hg, List.contains_nil, Bool.false_eq_true, if_false] at hr
    cases h : renderProps n σ [a] props with
    | ok body =>
      rw [h] at hr
      simp only [RenderRes.ok.injEq] at hr
      obtain ⟨rs, hrs, hb⟩ := renderProps_lines σ [a] n props body h
      exact ⟨rs, hrs, by rw [← hr, hb], List.pairwise_map.mpr hs⟩
    | err l => rw [h] at hr; simp at hr
    | lock => rw [h] at hr; simp at hr
    | bad => rw [h] at hr; simp at hr
    | timeout => rw [h] at hr; simp at hr

end Seed.C19
