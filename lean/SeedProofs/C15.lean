/-
  C15.lean — first facts for "strings: exact escapes, interpolation equals concatenation".

  First the one-step behaviour of the string scanner (`strStep`, SeedModel/Lex.lean: one iteration of the
  loop of `next_str_literal`) and a few whole-literal evaluations; then the theorems of DESIGN.md §6 C15:
  T1 `str_roundtrip`, T2 `hex_escape`, T3 `slots_exact`, T4 `interpolate_concat`, T5 `utf8_roundtrip`,
  `len_is_bytes`, `concat_bytes`, `str_eq` (helper lemmas in Lemmas/C15Lex.lean, C15Interp.lean, C15Utf8.lean).
-/
import SeedModel.Lex
import SeedModel.Prim
import SeedModel.Eval
import SeedProofs.Lemmas.C15Lex
import SeedProofs.Lemmas.C15Utf8
import SeedProofs.Lemmas.C15Interp
namespace Seed.C15
open Seed

/-- the five simple escapes decode to exactly their character, and `\x` starts a hex escape -/
theorem escape_step (interp : Bool) (a : StrAcc) (loc : Loc) (h : a.state = .Escape) :
    strStep interp a '\\' loc = .cont ({ a with state := .None }.push '\\') ∧
    strStep interp a '"' loc = .cont ({ a with state := .None }.push '"') ∧
    strStep interp a '$' loc = .cont ({ a with state := .None }.push '$') ∧
    strStep interp a 'n' loc = .cont ({ a with state := .None }.push '\n') ∧
    strStep interp a 'r' loc = .cont ({ a with state := .None }.push '\r') ∧
    strStep interp a 'x' loc = .cont { a with state := .Hex } := by
  simp [strStep, h]

example : ({ StrAcc.init with state := .Escape } : StrAcc).state = .Escape := rfl

/-- any other character after a backslash is an error located at that character -/
theorem invalid_escape_step (interp : Bool) (a : StrAcc) (c : Char) (loc : Loc) (h : a.state = .Escape)
    (hc : c ≠ '\\' ∧ c ≠ '"' ∧ c ≠ '$' ∧ c ≠ 'n' ∧ c ≠ 'r' ∧ c ≠ 'x') :
    strStep interp a c loc = .fail (LexError.InvalidEscapeChar loc c) := by
  obtain ⟨h1, h2, h3, h4, h5, h6⟩ := hc
  simp [strStep, h, h1, h2, h3, h4, h5, h6]

example : ('q' ≠ '\\' ∧ 'q' ≠ '"' ∧ 'q' ≠ '$' ∧ 'q' ≠ 'n' ∧ 'q' ≠ 'r' ∧ 'q' ≠ 'x') := by decide

/-- an unescaped `$` in a plain literal is an error located at the `$` -/
theorem unescaped_dollar_step (a : StrAcc) (loc : Loc) (h : a.state = .None) :
    strStep false a '$' loc = .fail (LexError.UnescapedDollar loc) := by
  simp [strStep, h]

/-- in an interpolated literal the character after `$` must be `{`; otherwise an error located at it -/
theorem invalid_interpolation_start_step (a : StrAcc) (c : Char) (loc : Loc) (h : a.state = .Interpolate)
    (h1 : a.curStart + 1 = a.n) (hc : c ≠ '{') :
    strStep true a c loc = .fail (LexError.InvalidInterpolationStart loc c) := by
  simp [strStep, h, h1, hc]

/-- a character that is not a hex digit inside `\xHH` is an error located at it -/
theorem invalid_hex_step (interp : Bool) (a : StrAcc) (c : Char) (loc : Loc) (h : a.state = .Hex)
    (hc : hexVal c = none) :
    strStep interp a c loc = .fail (LexError.InvalidHexChar loc c) := by
  simp [strStep, h, hc]

example : hexVal 'g' = none := by decide

/-- the second hex digit completes the escape: the character U+00HH is appended -/
theorem hex_step (interp : Bool) (a : StrAcc) (c : Char) (loc : Loc) (hi lo : Nat) (h : a.state = .Hex)
    (h1 : a.firstHex = some hi) (hc : hexVal c = some lo) :
    strStep interp a c loc =
      .cont ({ a with firstHex := none, state := .None }.push (Char.ofNat (hi * 16 + lo))) := by
  simp [strStep, h, h1, hc]

example : hexVal '4' = some 4 ∧ hexVal '1' = some 1 ∧ Char.ofNat (4 * 16 + 1) = 'A' := by decide

/-! ### whole literals (kernel evaluation of the lexer model) -/

/-- `"a\x41\n\\\"\$é"` denotes `aA⏎\"$é` -/
theorem literal_example :
    (lexAll c!"\"a\\x41\\n\\\\\\\"\\$é\"").1.map (·.tok) = [Token.StrLiteral c!"aA\n\\\"$é"] ∧
    (lexAll c!"\"a\\x41\\n\\\\\\\"\\$é\"").2 = none := by
  decide

/-- `$"é${x}}{${f({})}"`: two slots, recorded in characters of the decoded text, braces balanced -/
theorem slots_example :
    (lexAll c!"$\"é${x}}{${f({})}\"").1.map (·.tok) =
      [Token.InterpStrLiteral c!"é${x}}{${f({})}" [(1, 5), (7, 15)]] := by
  decide

/-- errors carry the position of the offending character (line 2 here: the literal spans a line break) -/
theorem error_examples :
    (lexAll c!"\"é\n\\q\"").2 = some (LexError.InvalidEscapeChar (2, 2) 'q') ∧
    (lexAll c!"\"é€\\x4g\"").2 = some (LexError.InvalidHexChar (1, 7) 'g') ∧
    (lexAll c!"\"a$b\"").2 = some (LexError.UnescapedDollar (1, 3)) ∧
    (lexAll c!"$\"a$b\"").2 = some (LexError.InvalidInterpolationStart (1, 5) 'b') := by
  decide

/-- the hexadecimal digits are exactly `0-9`, `a-f`, `A-F`: nothing else has a value — not a sign, not a blank, not a
    letter past `f` — so nothing else is accepted in either position of `\xHH` (`invalid_hex_step`) -/
theorem hexVal_domain (c : Char) :
    (hexVal c).isSome = true ↔
      (48 ≤ c.toNat ∧ c.toNat ≤ 57) ∨ (97 ≤ c.toNat ∧ c.toNat ≤ 102) ∨ (65 ≤ c.toNat ∧ c.toNat ≤ 70) := by
  unfold hexVal isAsciiDigit
  have h0 : '0'.toNat = 48 := rfl
  have h9 : '9'.toNat = 57 := rfl
  have ha : 'a'.toNat = 97 := rfl
  have hf : 'f'.toNat = 102 := rfl
  have hA : 'A'.toNat = 65 := rfl
  have hF : 'F'.toNat = 70 := rfl
  simp only [h0, h9, ha, hf, hA, hF]
  split <;> rename_i h1
  · simp at h1 ⊢; omega
  · split <;> rename_i h2
    · simp at h1 h2 ⊢; omega
    · split <;> rename_i h3
      · simp at h1 h2 h3 ⊢; omega
      · simp at h1 h2 h3 ⊢; omega

/-- a sign is not a digit: `\x+9` and `\x9-` are rejected at the sign, in plain and interpolated literals -/
theorem hex_sign_rejected :
    (lexAll c!"\"é \\x+9\"").2 = some (LexError.InvalidHexChar (1, 6) '+') ∧
    (lexAll c!"\"é \\x9-\"").2 = some (LexError.InvalidHexChar (1, 7) '-') ∧
    (lexAll c!"$\"é \\x+9\"").2 = some (LexError.InvalidHexChar (1, 7) '+') ∧
    (lexAll c!"\"\\x 9\"").2 = some (LexError.InvalidHexChar (1, 4) ' ') := by
  decide

/-! ## T1 — a literal denotes exactly its characters (`str_roundtrip`)

`escapeChars`, `Seg` and the segment lemmas are in `Lemmas/C15Lex.lean`.  The scanner after a literal is the
scanner before it advanced over its characters (`Scanner.advance`, whose line/column are `posOf`, `Scan.lean`). -/

/-- the loop, any accumulator in the `None` state: `escapeChars cs` followed by the closing quote decodes to
    `cs` (pushed on what was there) and stops just behind the quote — for arbitrary Unicode `cs` -/
theorem str_roundtrip_acc (interp : Bool) (cs rest : List Char) (l c : Nat) (a : StrAcc) (h : a.state = .None) :
    strLoop interp (escapeChars cs ++ '"' :: rest) l c a =
      .ok (a.pushAll cs, (Scanner.mk (escapeChars cs ++ '"' :: rest) l c).advance ((escapeChars cs).length + 1)) := by
  have h1 := piece_run interp cs ⟨escapeChars cs ++ '"' :: rest, l, c⟩ ('"' :: rest) a rfl h
  have hr : ((Scanner.mk (escapeChars cs ++ '"' :: rest) l c).advance (escapeChars cs).length).rest = '"' :: rest := by
    rw [Scanner.advance_rest]; simp
  have h2 := strLoopS_done hr (step_quote interp (a.pushAll cs) _ h)
  rw [Scanner.advance_succ', ← h2, ← h1]; rfl

example : ({ StrAcc.init with chars := c!"é", n := 1 } : StrAcc).state = .None := rfl

/-- from the initial accumulator: the decoded characters are `cs`, and there are no slots -/
theorem str_roundtrip_loop (interp : Bool) (cs rest : List Char) (l c : Nat) :
    ∃ acc, strLoop interp (escapeChars cs ++ '"' :: rest) l c StrAcc.init =
        .ok (acc, (Scanner.mk (escapeChars cs ++ '"' :: rest) l c).advance ((escapeChars cs).length + 1)) ∧
      acc.chars.reverse = cs ∧ acc.slots = [] ∧ acc.n = cs.length := by
  refine ⟨_, str_roundtrip_acc interp cs rest l c StrAcc.init rfl, ?_, rfl, ?_⟩
  · simp [StrAcc.pushAll, StrAcc.init]
  · simp [StrAcc.pushAll, StrAcc.init]

/-- T1: the literal `"…"` whose body is `escapeChars cs` is the token `StrLiteral cs` -/
theorem str_roundtrip (cs rest : List Char) (l c : Nat) :
    lexStr false ⟨'"' :: (escapeChars cs ++ '"' :: rest), l, c⟩ =
      .ok (Token.StrLiteral cs,
        (Scanner.mk ('"' :: (escapeChars cs ++ '"' :: rest)) l c).advance ((escapeChars cs).length + 2)) :=
  (Seg.piece false cs).lexStr '"' rest l c

/-- T1, interpolating variant: `escapeChars` never leaves a `$` unescaped, so there are no slots -/
theorem str_roundtrip_interp (cs rest : List Char) (q : Char) (l c : Nat) :
    lexStr true ⟨q :: (escapeChars cs ++ '"' :: rest), l, c⟩ =
      .ok (Token.InterpStrLiteral cs [],
        (Scanner.mk (q :: (escapeChars cs ++ '"' :: rest)) l c).advance ((escapeChars cs).length + 2)) :=
  (Seg.piece true cs).lexStr q rest l c

/-- T1 for a whole source text: `"…"` is exactly one token, and lexing reports no error -/
theorem str_roundtrip_source (cs : List Char) :
    (lexAll ('"' :: (escapeChars cs ++ ['"']))).1.map (·.tok) = [Token.StrLiteral cs] ∧
    (lexAll ('"' :: (escapeChars cs ++ ['"']))).2 = none :=
  (Seg.piece false cs).lexAll_plain

example : escapeChars c!"aé\\\"$\n\r€{}😀" = c!"aé\\\\\\\"\\$\\n\\r€{}😀" := by decide
example : lexStr false ⟨c!"\"aé\\\\\\\"\\$\\n\\r€{}😀\" + 1", 1, 1⟩ =
    .ok (Token.StrLiteral c!"aé\\\"$\n\r€{}😀", ⟨c!" + 1", 1, 19⟩) := by rfl

/-! ## T2 — `\xHH` (`hex_escape`) -/

/-- T2: between any escaped texts, `\xh1h2` contributes exactly the character with code `a * 16 + b` -/
theorem hex_escape (interp : Bool) (p r rest : List Char) (h1 h2 q : Char) (a b n : Nat) (l c : Nat)
    (e1 : hexVal h1 = some a) (e2 : hexVal h2 = some b) (hn : n = a * 16 + b) :
    lexStr interp ⟨q :: ((escapeChars p ++ ['\\', 'x', h1, h2] ++ escapeChars r) ++ '"' :: rest), l, c⟩ =
      .ok (strTok interp (p ++ [Char.ofNat n] ++ r) [],
        (Scanner.mk (q :: ((escapeChars p ++ ['\\', 'x', h1, h2] ++ escapeChars r) ++ '"' :: rest)) l c).advance
          ((escapeChars p ++ ['\\', 'x', h1, h2] ++ escapeChars r).length + 2)) := by
  subst hn
  exact (((Seg.piece interp p).append (Seg.hex interp h1 h2 a b e1 e2)).append (Seg.piece interp r)).lexStr q rest l c

example : hexVal 'e' = some 14 ∧ hexVal '9' = some 9 ∧ 233 = 14 * 16 + 9 ∧ Char.ofNat 233 = 'é' := by decide

/-- the two-digit lower-case hex spelling of a code below 256 -/
def hexDigit (k : Nat) : Char := if k < 10 then Char.ofNat (48 + k) else Char.ofNat (87 + k)
def hexEscape (ch : Char) : List Char := ['\\', 'x', hexDigit (ch.toNat / 16), hexDigit (ch.toNat % 16)]

theorem hexVal_hexDigit : ∀ k, k < 16 → hexVal (hexDigit k) = some k := by decide

/-- T2: a character below U+0100 other than `" \ $` may be written raw or as its `\xHH` escape: same token -/
theorem hex_escape_same_token (p r rest : List Char) (ch : Char) (l c : Nat) (hlt : ch.toNat < 256)
    (n1 : ch ≠ '\\') (n2 : ch ≠ '"') (n3 : ch ≠ '$') :
    (∃ s1, lexStr false ⟨'"' :: ((escapeChars p ++ hexEscape ch ++ escapeChars r) ++ '"' :: rest), l, c⟩ =
      .ok (Token.StrLiteral (p ++ [ch] ++ r), s1)) ∧
    (∃ s2, lexStr false ⟨'"' :: ((escapeChars p ++ [ch] ++ escapeChars r) ++ '"' :: rest), l, c⟩ =
      .ok (Token.StrLiteral (p ++ [ch] ++ r), s2)) := by
  constructor
  · have h := hex_escape false p r rest (hexDigit (ch.toNat / 16)) (hexDigit (ch.toNat % 16)) '"'
      (ch.toNat / 16) (ch.toNat % 16) ch.toNat l c (hexVal_hexDigit _ (by omega)) (hexVal_hexDigit _ (by omega))
      (by omega)
    rw [Char.ofNat_toNat] at h
    exact ⟨_, h⟩
  · exact ⟨_, (((Seg.piece false p).append (Seg.raw false ch n1 n2 n3)).append (Seg.piece false r)).lexStr '"' rest l c⟩

example : hexEscape 'A' = c!"\\x41" ∧ hexEscape '\n' = c!"\\x0a" ∧ hexEscape 'é' = c!"\\xe9" ∧
    'é'.toNat < 256 ∧ 'é' ≠ '\\' ∧ 'é' ≠ '"' ∧ 'é' ≠ '$' := by decide

/-! ## T3 — slots are recorded exactly (`slots_exact`)

`Balanced`, `render`, `decoded`, `slotsOf` are in `Lemmas/C15Lex.lean`; `SlotsOK` in `Lemmas/C15Interp.lean`. -/

/-- T3, one slot: pieces `p0`, `p1` (any text, written escaped) around `${e}` with `e` brace-balanced (any
    other characters, quotes and backslashes included, are copied raw).  The token carries the decoded pieces and
    the raw slot; the slot is `(offset of "$", offset just past "}")` in characters; and the slices the
    evaluator takes are `p0`, `e`, `p1`. -/
theorem slots_exact_one (p0 e p1 rest : List Char) (q : Char) (l c : Nat) (hb : Balanced e) :
    lexStr true ⟨q :: ((escapeChars p0 ++ ('$' :: '{' :: e ++ ['}']) ++ escapeChars p1) ++ '"' :: rest), l, c⟩ =
      .ok (Token.InterpStrLiteral (p0 ++ ('$' :: '{' :: e ++ ['}']) ++ p1) [(p0.length, p0.length + e.length + 3)],
        (Scanner.mk (q :: ((escapeChars p0 ++ ('$' :: '{' :: e ++ ['}']) ++ escapeChars p1) ++ '"' :: rest)) l c).advance
          ((escapeChars p0 ++ ('$' :: '{' :: e ++ ['}']) ++ escapeChars p1).length + 2)) ∧
    sliceChars (p0 ++ ('$' :: '{' :: e ++ ['}']) ++ p1) 0 p0.length = p0 ∧
    sliceChars (p0 ++ ('$' :: '{' :: e ++ ['}']) ++ p1) (p0.length + 2) (p0.length + e.length + 3 - 1) = e ∧
    (p0 ++ ('$' :: '{' :: e ++ ['}']) ++ p1).drop (p0.length + e.length + 3) = p1 := by
  refine ⟨?_, ?_, ?_, ?_⟩
  · have h := (((Seg.piece true p0).append (Seg.slot e hb)).append (Seg.piece true p1)).lexStr q rest l c
    simpa [strTok] using h
  · have : p0 ++ ('$' :: '{' :: e ++ ['}']) ++ p1 = [] ++ p0 ++ (('$' :: '{' :: e ++ ['}']) ++ p1) := by simp
    rw [this]; exact sliceChars_mid _ _ _ _ _ rfl (by simp)
  · have : p0 ++ ('$' :: '{' :: e ++ ['}']) ++ p1 = (p0 ++ ['$', '{']) ++ e ++ ('}' :: p1) := by simp
    rw [this]; exact sliceChars_mid _ _ _ _ _ (by simp) (by simp; omega)
  · have : p0 ++ ('$' :: '{' :: e ++ ['}']) ++ p1 = (p0 ++ ('$' :: '{' :: e ++ ['}'])) ++ p1 := by simp
    rw [this]; exact List.drop_left' (by simp; omega)

example : Balanced c!"f({\"{}\": \"\\\"\"})" := by decide
example : ¬ Balanced c!"}{" ∧ ¬ Balanced c!"{" := by decide

/-- T3: any number of slots.  The body `render p0 [(e1, p1), …]` lexes to the text `decoded p0 [(e1, p1), …]`
    with the slot list `slotsOf 0 …`, i.e. the `i`-th slot is (offset of the `i`-th `${`, offset just past its
    `}`), counted in characters of the decoded text. -/
theorem slots_exact (p0 : List Char) (segs : List (List Char × List Char)) (rest : List Char) (q : Char) (l c : Nat)
    (hb : ∀ x ∈ segs, Balanced x.1) :
    lexStr true ⟨q :: (render p0 segs ++ '"' :: rest), l, c⟩ =
      .ok (Token.InterpStrLiteral (decoded p0 segs) (slotsOf 0 p0 segs),
        (Scanner.mk (q :: (render p0 segs ++ '"' :: rest)) l c).advance ((render p0 segs).length + 2)) := by
  simpa [strTok] using (Seg.render segs p0 hb).lexStr q rest l c

/-- T3 for a whole source text `$"…"` -/
theorem slots_exact_source (p0 : List Char) (segs : List (List Char × List Char)) (hb : ∀ x ∈ segs, Balanced x.1) :
    (lexAll ('$' :: '"' :: (render p0 segs ++ ['"']))).1.map (·.tok) =
      [Token.InterpStrLiteral (decoded p0 segs) (slotsOf 0 p0 segs)] ∧
    (lexAll ('$' :: '"' :: (render p0 segs ++ ['"']))).2 = none :=
  (Seg.render segs p0 hb).lexAll_interp

/-- T3, consequence: cutting the decoded text at the recorded offsets gives back the pieces and slot texts, in
    the very pattern `interpolate` uses (`SlotsOK`) -/
theorem slots_exact_slices (p0 : List Char) (segs : List (List Char × List Char)) :
    SlotsOK (decoded p0 segs) 0 p0 segs (slotsOf 0 p0 segs) := by
  simpa using slotsOK_decoded segs [] p0

/-- T3, by index: the `i`-th recorded slot delimits the `i`-th slot text -/
theorem slots_exact_get {s : List Char} : ∀ {last : Nat} {p0 : List Char} {segs : List (List Char × List Char)}
    {slots : List (Nat × Nat)}, SlotsOK s last p0 segs slots → ∀ (i : Nat) (h : i < segs.length),
      ∃ start stop, slots[i]? = some (start, stop) ∧ sliceChars s (start + 2) (stop - 1) = (segs[i]'h).1 := by
  intro last p0 segs
  induction segs generalizing last p0 with
  | nil => intro slots _ i h; simp at h
  | cons x r ih =>
    obtain ⟨e, p⟩ := x
    intro slots hs i h
    obtain ⟨start, stop, rest, rfl, _, h2, h3⟩ := hs
    cases i with
    | zero => exact ⟨start, stop, rfl, h2⟩
    | succ i => simpa using ih h3 i (by simpa using h)

example : render c!"é\n" [(c!"x", c!"}{"), (c!"f({})", c!"$")] = c!"é\\n${x}}{${f({})}\\$" ∧
    decoded c!"é\n" [(c!"x", c!"}{"), (c!"f({})", c!"$")] = c!"é\n${x}}{${f({})}$" ∧
    slotsOf 0 c!"é\n" [(c!"x", c!"}{"), (c!"f({})", c!"$")] = [(2, 6), (8, 16)] ∧
    (∀ x ∈ [(c!"x", c!"}{"), (c!"f({})", c!"$")], Balanced x.1) := by decide

/-! ## T4 — interpolation is concatenation (`interpolate_concat`)

`SlotsEval sc s n σ slots vs σ'` (Lemmas/C15Interp.lean): every slot's text parses, and evaluates **in the
caller's scope chain `sc`** — with the state left by the previous slot and the fuel `interpolate n` gives it —
to a string whose bytes decode to the corresponding `vs`; `σ'` is the final state. -/

/-- T4: the result is `acc ++ piece_0 ++ v_1 ++ piece_1 ++ … ++ v_k ++ piece_k`, the pieces being the
    `sliceChars` of `s` between the slots (`joinPieces`) -/
theorem interpolate_concat {sc : List Addr} {s : List Char} {n : Nat} {σ σ' : State} {slots : List (Nat × Nat)}
    {vs : List (List Char)} (h : SlotsEval sc s n σ slots vs σ') (hn : slots.length < n) (loc : Loc) (last : Nat)
    (acc : List Char) :
    interpolate n σ sc s slots loc last acc = .ok (acc ++ joinPieces s last slots vs) σ' := by
  have h1 := interpolate_prefix h [] loc last acc
  rw [List.append_nil] at h1
  obtain ⟨k, hk⟩ : ∃ k, n - slots.length = k + 1 := ⟨n - slots.length - 1, by omega⟩
  rw [h1, hk, interpolate_nil]
  simp [joinPieces, List.append_assoc]

/-- T4 with one fuel `m` for all slots (fuel monotonicity, `evalExpr_fuel_mono`) -/
theorem interpolate_concat_uniform {sc : List Addr} {s : List Char} {m n : Nat} {σ σ' : State}
    {slots : List (Nat × Nat)} {vs : List (List Char)} (h : SlotsEvalU sc s m σ slots vs σ')
    (hn : m + slots.length < n) (loc : Loc) (last : Nat) (acc : List Char) :
    interpolate n σ sc s slots loc last acc = .ok (acc ++ joinPieces s last slots vs) σ' :=
  interpolate_concat (h.toEval n (by omega)) (by omega) loc last acc

/-- T4, error: after any successfully evaluated slots, a slot whose value is not a string is reported at the
    slot (`line`, `col + start + 4`) with the kind of the value -/
theorem interpolate_not_string {sc : List Addr} {s : List Char} {n k : Nat} {σ σ1 σ2 : State}
    {pre r : List (Nat × Nat)} {vs : List (List Char)} {start stop : Nat} {ast : Expr} {v : SVal}
    (h : SlotsEval sc s n σ pre vs σ1) (hn : n = pre.length + (k + 1))
    (hp : parseExprTop (sliceChars s (start + 2) (stop - 1)) = .ok ast)
    (he : evalExpr k σ1 sc ast = .ok v σ2) (hv : ∀ bs, v.v ≠ .str bs) (loc : Loc) (last : Nat) (acc : List Char) :
    interpolate n σ sc s (pre ++ (start, stop) :: r) loc last acc =
      .err (.atLoc loc.1 (loc.2 + start + 4) (.leaf (Gen.Leaf.InterpolatedValueNotString v.v.kind))) σ2 := by
  rw [interpolate_prefix h, show n - pre.length = k + 1 by omega, interpolate_cons_not_string hp he hv]

/-- T4, error: a slot whose evaluation fails reports that error, located at the slot -/
theorem interpolate_slot_error {sc : List Addr} {s : List Char} {n k : Nat} {σ σ1 σ2 : State}
    {pre r : List (Nat × Nat)} {vs : List (List Char)} {start stop : Nat} {ast : Expr} {e : Err}
    (h : SlotsEval sc s n σ pre vs σ1) (hn : n = pre.length + (k + 1))
    (hp : parseExprTop (sliceChars s (start + 2) (stop - 1)) = .ok ast)
    (he : evalExpr k σ1 sc ast = .err e σ2) (loc : Loc) (last : Nat) (acc : List Char) :
    interpolate n σ sc s (pre ++ (start, stop) :: r) loc last acc = .err (.atLoc loc.1 (loc.2 + start + 4) e) σ2 := by
  rw [interpolate_prefix h, show n - pre.length = k + 1 by omega, interpolate_cons_err hp he]

theorem slotsOf_length (segs : List (List Char × List Char)) : ∀ (off : Nat) (p0 : List Char),
    (slotsOf off p0 segs).length = segs.length := by
  induction segs with
  | nil => intro _ _; rfl
  | cons x r ih => obtain ⟨e, p⟩ := x; intro off p0; simp [slotsOf, ih]

/-- T3 + T4: for a literal written as `render p0 [(e1, p1), …]`, the value is `p0 ++ v1 ++ p1 ++ … ++ vk ++ pk` -/
theorem interpolate_lexed {sc : List Addr} {n : Nat} {σ σ' : State} (p0 : List Char)
    (segs : List (List Char × List Char)) {vs : List (List Char)}
    (h : SlotsEval sc (decoded p0 segs) n σ (slotsOf 0 p0 segs) vs σ') (hn : (slotsOf 0 p0 segs).length < n)
    (loc : Loc) :
    interpolate n σ sc (decoded p0 segs) (slotsOf 0 p0 segs) loc 0 [] = .ok (weave p0 segs vs) σ' := by
  rw [interpolate_concat h hn, List.nil_append]
  rw [joinPieces_of_slotsOK _ segs 0 p0 _ vs (slots_exact_slices p0 segs) (by rw [h.length_le.2, slotsOf_length])]

/-- the value of an interpolated literal expression is the UTF-8 encoding of that concatenation -/
theorem interp_literal_value {sc : List Addr} {s : List Char} {n : Nat} {σ σ' : State} {slots : List (Nat × Nat)}
    {vs : List (List Char)} (h : SlotsEval sc s n σ slots vs σ') (hn : slots.length < n) (loc : Loc) :
    evalExpr (n + 1) σ sc (.mk (.Str s (some slots)) loc) =
      .ok (SVal.plain (.str (utf8Encode (joinPieces s 0 slots vs)))) σ' := by
  rw [evalExpr, interpolate_concat h hn]
  simp [Res.bind]

/-- a plain literal expression denotes the UTF-8 encoding of its characters -/
theorem plain_literal_value (n : Nat) (σ : State) (sc : List Addr) (s : List Char) (loc : Loc) :
    evalExpr (n + 1) σ sc (.mk (.Str s none) loc) = .ok (SVal.plain (.str (utf8Encode s))) σ := by
  rw [evalExpr]

/-- a state for the examples: scope 0 holds `x = "é"` and `k = 7` -/
def σi : State :=
  ⟨#[.scope [(c!"x", SVal.plain (.str (utf8Encode c!"é")), (1, 0)), (c!"k", SVal.plain (.int 7), (2, 0))]], []⟩

/-- `$"a${x}b${x}"` in that state: both slots evaluate in scope chain `[0]` -/
example : SlotsEval [0] c!"a${x}b${x}" 3 σi [(1, 5), (6, 10)] [c!"é", c!"é"] σi :=
  .cons (ast := .mk (.Var c!"x") (1, 1)) (v := SVal.plain (.str (utf8Encode c!"é"))) (by with_unfolding_all rfl)
    (by with_unfolding_all rfl) rfl (by rfl)
    (.cons (ast := .mk (.Var c!"x") (1, 1)) (v := SVal.plain (.str (utf8Encode c!"é"))) (by with_unfolding_all rfl)
      (by with_unfolding_all rfl) rfl (by rfl) (.nil _ _))

example : joinPieces c!"a${x}b${x}" 0 [(1, 5), (6, 10)] [c!"é", c!"é"] = c!"aébé" := by decide

/-- `$"a${k}"`: the slot is an integer -/
example : parseExprTop (sliceChars c!"a${k}" (1 + 2) (5 - 1)) = .ok (.mk (.Var c!"k") (1, 1)) ∧
    evalExpr 1 σi [0] (.mk (.Var c!"k") (1, 1)) = .ok (SVal.plain (.int 7)) σi ∧
    ∀ bs, (SVal.plain (.int 7)).v ≠ .str bs :=
  ⟨by with_unfolding_all rfl, by with_unfolding_all rfl, fun _ h => by cases h⟩

/-- the theorems applied: `$"a${x}b${x}"` is `aébé`; and with one fuel for both slots -/
example : interpolate 3 σi [0] c!"a${x}b${x}" [(1, 5), (6, 10)] (4, 2) 0 [] = .ok c!"aébé" σi := by
  have h : SlotsEval [0] c!"a${x}b${x}" 3 σi [(1, 5), (6, 10)] [c!"é", c!"é"] σi :=
    .cons (ast := .mk (.Var c!"x") (1, 1)) (v := SVal.plain (.str (utf8Encode c!"é"))) (by with_unfolding_all rfl)
      (by with_unfolding_all rfl) rfl (by rfl)
      (.cons (ast := .mk (.Var c!"x") (1, 1)) (v := SVal.plain (.str (utf8Encode c!"é"))) (by with_unfolding_all rfl)
        (by with_unfolding_all rfl) rfl (by rfl) (.nil _ _))
  exact interpolate_lexed c!"a" [(c!"x", c!"b"), (c!"x", c!"")] h (by decide) (4, 2)

example : SlotsEvalU [0] c!"a${x}" 1 σi [(1, 5)] [c!"é"] σi ∧ 1 + [(1, 5)].length < 3 :=
  ⟨.cons (ast := .mk (.Var c!"x") (1, 1)) (v := SVal.plain (.str (utf8Encode c!"é"))) (by with_unfolding_all rfl)
    (by with_unfolding_all rfl) rfl (by rfl) (.nil _), by decide⟩

/-- `$"a${k}"` at `(4, 2)`: "interpolated values can only be strings", at column `2 + 1 + 4` -/
example : interpolate 2 σi [0] c!"a${k}" [(1, 5)] (4, 2) 0 [] =
    .err (.atLoc 4 7 (.leaf (Gen.Leaf.InterpolatedValueNotString .Int))) σi :=
  interpolate_not_string (pre := []) (k := 1) (.nil _ _) rfl (ast := .mk (.Var c!"k") (1, 1))
    (v := SVal.plain (.int 7)) (by with_unfolding_all rfl) (by with_unfolding_all rfl) (fun _ h => by cases h) (4, 2) 0 []

/-- `$"a${z}"`: the slot's own error (`z` is not defined), located at the slot -/
example : interpolate 2 σi [0] c!"a${z}" [(1, 5)] (4, 2) 0 [] =
    .err (.atLoc 4 7 (.atLoc 1 1 (.leaf (Gen.Leaf.Undefined c!"z")))) σi :=
  interpolate_slot_error (pre := []) (k := 1) (.nil _ _) rfl (ast := .mk (.Var c!"z") (1, 1))
    (by with_unfolding_all rfl) (by with_unfolding_all rfl) (4, 2) 0 []

example : SlotsOK c!"a${x}b" 0 c!"a" [(c!"x", c!"b")] [(1, 5)] := slots_exact_slices c!"a" [(c!"x", c!"b")]

/-! ## T5 — bytes -/

/-- the encoder/decoder round trip, for arbitrary Unicode text -/
theorem utf8_roundtrip (cs : List Char) : utf8Decode (utf8Encode cs) = .ok cs := by
  unfold utf8Decode
  rw [C15U.decode_encode_aux cs _ 0 [] (by have := C15U.length_le_encode cs; omega)]
  simp

/-- encoding distributes over concatenation -/
theorem concat_bytes (a b : List Char) : utf8Encode (a ++ b) = utf8Encode a ++ utf8Encode b := by
  simp [utf8Encode]

/-- `+` on strings concatenates the byte sequences, hence the texts -/
theorem plus_concat (n : Nat) (σ : State) (loc : Loc) (a b : List Char) :
    applyBinOp n σ .Sum loc (.str (utf8Encode a)) (.str (utf8Encode b)) = .ok (.str (utf8Encode (a ++ b))) σ := by
  simp [applyBinOp, concat_bytes]

/-- `->len()` is the number of bytes -/
theorem len_is_bytes (n : Nat) (σ : State) (bs : Bytes) (src : Option Val) (cs : List Char)
    (h : utf8Decode bs = .ok cs) :
    callBuiltin n σ .strLen (some ⟨.str bs, src⟩) [] = .ok (SVal.plain (.int (Int.ofNat bs.length))) σ := by
  simp [callBuiltin, assertArgs, h]

example : utf8Decode [0xC3, 0xA9, 0x61] = .ok c!"éa" := by rfl

/-- … so for a text it is the length of its UTF-8 encoding (not the number of characters) -/
theorem len_of_text (n : Nat) (σ : State) (cs : List Char) (src : Option Val) :
    callBuiltin n σ .strLen (some ⟨.str (utf8Encode cs), src⟩) [] =
      .ok (SVal.plain (.int (Int.ofNat (utf8Encode cs).length))) σ :=
  len_is_bytes n σ _ src cs (utf8_roundtrip cs)

example : (utf8Encode c!"é€😀a").length = 10 ∧ c!"é€😀a".length = 4 := by decide

/-- `==` on strings is equality of the byte sequences -/
theorem str_eq (n : Nat) (σ : State) (a b : Bytes) : eqVal (n + 1) σ (.str a) (.str b) = .ok (a == b) := by
  rw [eqVal]

/-- equal texts are `==`, different texts are not (the encoding is injective) -/
theorem str_eq_text (n : Nat) (σ : State) (a b : List Char) :
    eqVal (n + 1) σ (.str (utf8Encode a)) (.str (utf8Encode b)) = .ok (decide (a = b)) := by
  rw [str_eq]
  congr 1
  by_cases h : a = b
  · subst h; simp
  · have : utf8Encode a ≠ utf8Encode b := by
      intro e
      have h1 := utf8_roundtrip a
      rw [e, utf8_roundtrip b] at h1
      exact h (by injection h1 with h1; exact h1.symm)
    simp [h, this]

end Seed.C15
