/-
  C15.lean — first facts for "strings: exact escapes, interpolation equals concatenation".

  Only the one-step behaviour of the string scanner (`strStep`, SeedModel/Lex.lean: one iteration of the
  loop of `next_str_literal`) and a few whole-literal evaluations are stated here; the theorems of
  DESIGN.md §6 C15 (`str_roundtrip`, `slots_exact`, `interpolate_concat`, …) are still to be added.
-/
import SeedModel.Lex
namespace Seed.C15
open Seed

/-- the five simple escapes decode to exactly their character, and `\x` starts a hex escape -/
theorem escape_step (interp : Bool) (a : StrAcc) (loc : Loc) (h : a.state = .Escape) :
    strStep interp a '\\' loc = .cont ({ a with state := .None }.push '\\') ∧
    strStep interp a '"' loc = .cont ({ a with state := .None }.push '"') ∧
    strStep interp a '$' loc = .cont ({ a with state := .None }.push '$') ∧
    strStep interp a 'n' loc = .cont ({ a with state := .None }.push '\n') ∧
    strStep interp a 'r' loc = .cont ({ a with state := .None }.push '\r') ∧
    strStep interp a 'x' loc = .cont { a with state := .Hex } := by
  simp [strStep, h]

example : ({ StrAcc.init with state := .Escape } : StrAcc).state = .Escape := rfl

/-- any other character after a backslash is an error located at that character -/
theorem invalid_escape_step (interp : Bool) (a : StrAcc) (c : Char) (loc : Loc) (h : a.state = .Escape)
    (hc : c ≠ '\\' ∧ c ≠ '"' ∧ c ≠ '$' ∧ c ≠ 'n' ∧ c ≠ 'r' ∧ c ≠ 'x') :
    strStep interp a c loc = .fail (LexError.InvalidEscapeChar loc c) := by
  obtain ⟨h1, h2, h3, h4, h5, h6⟩ := hc
  simp [strStep, h, h1, h2, h3, h4, h5, h6]

example : ('q' ≠ '\\' ∧ 'q' ≠ '"' ∧ 'q' ≠ '$' ∧ 'q' ≠ 'n' ∧ 'q' ≠ 'r' ∧ 'q' ≠ 'x') := by decide

/-- an unescaped `$` in a plain literal is an error located at the `$` -/
theorem unescaped_dollar_step (a : StrAcc) (loc : Loc) (h : a.state = .None) :
    strStep false a '$' loc = .fail (LexError.UnescapedDollar loc) := by
  simp [strStep, h]

/-- in an interpolated literal the character after `$` must be `{`; otherwise an error located at it -/
theorem invalid_interpolation_start_step (a : StrAcc) (c : Char) (loc : Loc) (h : a.state = .Interpolate)
    (h1 : a.curStart + 1 = a.n) (hc : c ≠ '{') :
    strStep true a c loc = .fail (LexError.InvalidInterpolationStart loc c) := by
  simp [strStep, h, h1, hc]

/-- a character that is not a hex digit inside `\xHH` is an error located at it -/
theorem invalid_hex_step (interp : Bool) (a : StrAcc) (c : Char) (loc : Loc) (h : a.state = .Hex)
    (hc : hexVal c = none) :
    strStep interp a c loc = .fail (LexError.InvalidHexChar loc c) := by
  simp [strStep, h, hc]

example : hexVal 'g' = none := by decide

/-- the second hex digit completes the escape: the character U+00HH is appended -/
theorem hex_step (interp : Bool) (a : StrAcc) (c : Char) (loc : Loc) (hi lo : Nat) (h : a.state = .Hex)
    (h1 : a.firstHex = some hi) (hc : hexVal c = some lo) :
    strStep interp a c loc =
      .cont ({ a with firstHex := none, state := .None }.push (Char.ofNat (hi * 16 + lo))) := by
  simp [strStep, h, h1, hc]

example : hexVal '4' = some 4 ∧ hexVal '1' = some 1 ∧ Char.ofNat (4 * 16 + 1) = 'A' := by decide

/-! ### whole literals (kernel evaluation of the lexer model) -/

/-- `"a\x41\n\\\"\$é"` denotes `aA⏎\"$é` -/
theorem literal_example :
    (lexAll c!"\"a\\x41\\n\\\\\\\"\\$é\"").1.map (·.tok) = [Token.StrLiteral c!"aA\n\\\"$é"] ∧
    (lexAll c!"\"a\\x41\\n\\\\\\\"\\$é\"").2 = none := by
  decide

/-- `$"é${x}}{${f({})}"`: two slots, recorded in characters of the decoded text, braces balanced -/
theorem slots_example :
    (lexAll c!"$\"é${x}}{${f({})}\"").1.map (·.tok) =
      [Token.InterpStrLiteral c!"é${x}}{${f({})}" [(1, 5), (7, 15)]] := by
  decide

/-- errors carry the position of the offending character (line 2 here: the literal spans a line break) -/
theorem error_examples :
    (lexAll c!"\"é\n\\q\"").2 = some (LexError.InvalidEscapeChar (2, 2) 'q') ∧
    (lexAll c!"\"é€\\x4g\"").2 = some (LexError.InvalidHexChar (1, 7) 'g') ∧
    (lexAll c!"\"a$b\"").2 = some (LexError.UnescapedDollar (1, 3)) ∧
    (lexAll c!"$\"a$b\"").2 = some (LexError.InvalidInterpolationStart (1, 5) 'b') := by
  decide

end Seed.C15
