/-
  C14.lean — calls bind arguments to fresh parameters; `this` follows the access path.

  * arguments: evaluated once each, left to right, before the callee expression; the count rule; errors carry
    both numbers;
  * parameters: declared in a scope cell allocated by the call (address = heap size, so it is no existing cell),
    pushed on the *closure* chain; assigning a parameter writes only that cell (the caller's variables and every
    other cell are unchanged) while writing into a passed container writes the shared cell;
  * provenance (`src`): `.k` / `["k"]` on an object return the stored value with `src := that object`, whatever
    source was stored; variable reads, list-index reads, declarations, arguments, list items, object-literal
    values and `return` carry the value (with its `src`) unchanged; operators and literals give `src = none`;
  * the call binds `this := src` in the parameter scope iff `src ≠ none`; otherwise `this` is whatever the closure
    chain has (an enclosing function's `this`) or undefined.

  The statements are about one step of the evaluator at a time (with the sub-evaluations as hypotheses), which is
  how the code is written; the whole-program reading (a function value moved along any route keeps its source)
  is their composition, exercised end to end by the `this_routes` stream.
-/
import SeedProofs.Lemmas.C13Call
import SeedProofs.Lemmas.C13Bind
import SeedProofs.Lemmas.C14Scope
import SeedProofs.Lemmas.C14This
import SeedProofs.Lemmas.C14ThisPat
import SeedProofs.Lemmas.C11Prog3
import SeedProofs.C11
import SeedProofs.Lemmas.C14Routes3
namespace Seed.C14
open Seed Gen

/-! ## example state -/

/-- scope 0: `o ↦ object 1`, `xs ↦ list 3`, `g ↦ ⟨func 2, some (obj 1)⟩` (a function value read from `o` earlier);
    object 1 = `{"f": ⟨func 2, some (obj 9)⟩}` (stored with a stale source); func 2 = `fn (p) { }` closed over scope 0;
    list 3 = `[⟨func 2, some (obj 1)⟩]` -/
def fr2 : FuncRec := ⟨none, [.mk (.Var c!"p") (1, 8)], false, [], [0]⟩

def σex : State :=
  ⟨#[.scope [(c!"o", SVal.plain (.obj 1), (1, 0)), (c!"xs", SVal.plain (.list 3), (2, 0)),
             (c!"g", ⟨.func 2, some (.obj 1)⟩, (3, 0))],
     .obj [(c!"f", ⟨.func 2, some (.obj 9)⟩)],
     .func fr2,
     .list [⟨.func 2, some (.obj 1)⟩]], []⟩

def eO : Expr := .mk (.Var c!"o") (4, 0)

example : evalExpr 2 σex [0] eO = .ok ⟨.obj 1, none⟩ σex := by with_unfolding_all rfl
example : σex.getObj 1 = some [(c!"f", ⟨.func 2, some (.obj 9)⟩)] := by rfl

/-! ## arguments -/

/-- left to right, each once: the first argument is evaluated in the current state, the remaining ones in the
    state it leaves, and its value is appended before theirs -/
theorem args_left_to_right_once (n : Nat) (σ : State) (sc : List Addr) (e : Expr) (r : List ListItem) (acc : List SVal) :
    evalListItems (n + 1) σ sc (.mk e false :: r) acc =
      (evalExpr n σ sc e).bind fun v σ1 => evalListItems n σ1 sc r (acc ++ [v]) :=
  evalListItems_cons_plain n σ sc e r acc

/-- an argument that fails ends the call: later arguments and the callee are never evaluated -/
theorem args_error_stops {n : Nat} {σ σ1 : State} {sc : List Addr} {e f : Expr} {er : Err} (sp : Bool) (r : List ListItem)
    (loc : Loc) (h : evalExpr n σ sc e = .err er σ1) :
    evalListItems (n + 1) σ sc (.mk e sp :: r) [] = .err er σ1 ∧
    evalCall (n + 2) σ sc f (.mk e sp :: r) loc = .err er σ1 :=
  ⟨evalListItems_cons_err sp r [] h, evalCall_args_err (evalListItems_cons_err sp r [] h)⟩

example : ∃ er, evalExpr 1 σex [0] (.mk (.Var c!"nope") (5, 2)) = .err er σex := ⟨_, by with_unfolding_all rfl⟩

/-- arguments come before the callee expression: the callee is evaluated in the state the arguments leave -/
theorem args_before_callee {n : Nat} {σ σ1 : State} {sc : List Addr} {f : Expr} {args : List ListItem} {loc : Loc}
    {argVals : List SVal} {e : Err} {σ2 : State}
    (hargs : evalListItems n σ sc args [] = .ok argVals σ1) (hf : evalExpr n σ1 sc f = .err e σ2) :
    evalCall (n + 1) σ sc f args loc = .err e σ2 := by
  rw [evalCall, hargs]
  simp only [Res.bind, hf]

example : evalListItems 2 σex [0] [] [] = .ok [] σex ∧
    ∃ er, evalExpr 2 σex [0] (.mk (.Var c!"nope") (5, 2)) = .err er σex := ⟨by with_unfolding_all rfl, _, by with_unfolding_all rfl⟩

/-- the count rule, and the diagnostics carry both numbers -/
theorem arity_spec (numParams got : Nat) :
    (arityOk false numParams got = true ↔ got = numParams) ∧
    (arityOk true numParams got = true ↔ numParams - 1 ≤ got) ∧
    arityErr false numParams got = Leaf.ArgNumMismatch numParams got ∧
    arityErr true numParams got = Leaf.TooFewArgs (numParams - 1) got := by
  simp [arityOk, arityErr, eq_comm]

/-- the call, as one equation: count check at the call position (outside the call frame), then the body in a fresh
    scope on the closure chain -/
theorem call_spec {n : Nat} {σ σ1 σ2 : State} {sc : List Addr} {f : Expr} {args : List ListItem} {loc : Loc}
    {argVals : List SVal} {fv : SVal} {a : Addr} {fr : FuncRec}
    (hargs : evalListItems n σ sc args [] = .ok argVals σ1)
    (hf : evalExpr n σ1 sc f = .ok fv σ2) (hv : fv.v = .func a) (hfr : σ2.getFunc a = some fr) :
    evalCall (n + 1) σ sc f args loc =
      if arityOk fr.collect fr.args.length argVals.length then
        ((evalBlock n (callPlainVals σ2 fr argVals).2 fr.closure
            (callBindings fr (callPlainVals σ2 fr argVals).1 fv.src loc) fr.stmts).mapErr
          (Err.funcCall fr.name loc)).bind finishCall
      else errAt loc (arityErr fr.collect fr.args.length argVals.length) σ2 :=
  evalCall_func hargs hf hv hfr

example : evalListItems 3 σex [0] [.mk (.mk (.Int 7) (6, 2)) false] [] = .ok [SVal.plain (.int 7)] σex ∧
    evalExpr 3 σex [0] (.mk (.Var c!"g") (6, 0)) = .ok ⟨.func 2, some (.obj 1)⟩ σex ∧ σex.getFunc 2 = some fr2 :=
  ⟨by with_unfolding_all rfl, by with_unfolding_all rfl, by rfl⟩

/-! ## parameters are fresh variables of the call -/

/-- the parameters are declared in a scope cell the call allocates — its address is the heap size, so it is none of
    the cells that existed — pushed on the function's *closure* chain (not on the caller's chain) -/
theorem params_fresh (n : Nat) (σ : State) (closure : List Addr) (bindings : List (Expr × SVal)) (stmts : List Stmt) :
    evalBlock (n + 1) σ closure bindings stmts =
      ((declareAll n (σ.alloc (.scope [])).2 (σ.heap.size :: closure) bindings).bind fun _ σ2 =>
        evalStmts n σ2 (σ.heap.size :: closure) stmts) ∧
    (σ.alloc (.scope [])).2.getScope σ.heap.size = some [] ∧
    σ.heap[σ.heap.size]? = none ∧
    (∀ b, b < σ.heap.size → (σ.alloc (.scope [])).2.heap[b]? = σ.heap[b]?) := by
  refine ⟨?_, getScope_eq_some.mpr (σ.alloc_heap_new _), Array.getElem?_eq_none (Nat.le_refl _),
    fun b hb => σ.alloc_heap_old _ hb⟩
  rw [evalBlock]; rfl

/-- each parameter is declared with the argument value itself (provenance included) under its own name -/
theorem param_declared {σ : State} {a : Addr} {sc : List Addr} {name : List Char} {m : ScopeMap} (loc : Loc)
    (arg : SVal) (n : Nat)
    (h1 : name ≠ c!"_") (hs : σ.getScope a = some m) (hf : scopeLookup name m = none) :
    declareAll (n + 2) σ (a :: sc) [(.mk (.Var name) loc, arg)] =
      .ok () (σ.set a (.scope ((name, arg, loc) :: m))) := by
  rw [declareAll, bindNext_var, bindNextName_declare loc arg h1 (by simp) hs hf]
  simp only [Res.bind]
  rw [declareAll]

/-- assigning to a parameter writes the call's own scope cell and nothing else: every other cell of the heap — in
    particular every scope of the caller — is unchanged, so the caller's variables keep their values -/
theorem param_assign_frame {σ : State} {a : Addr} {m : ScopeMap} {name : List Char} {p : SVal × Loc} (closure : List Addr)
    (v : SVal) (hs : σ.getScope a = some m) (hl : scopeLookup name m = some p) :
    ∃ σ', scopeAssign σ (a :: closure) name v = some σ' ∧
      scopeGet σ' (a :: closure) name = some v ∧
      (∀ b, b ≠ a → σ'.heap[b]? = σ.heap[b]?) ∧
      (∀ callerChain k, a ∉ callerChain → scopeGet σ' callerChain k = scopeGet σ callerChain k) := by
  refine ⟨_, scopeAssign_head closure v hs hl, ?_, fun b hb => σ.heap_set_other _ hb,
    fun chain k hc => scopeGet_set_other _ hc k⟩
  exact scopeGet_head_hit closure (getScope_set_same (getScope_lt hs) _) (scopeLookup_setVal_same hl)

example : σex.getScope 0 = some [(c!"o", SVal.plain (.obj 1), (1, 0)), (c!"xs", SVal.plain (.list 3), (2, 0)),
    (c!"g", ⟨.func 2, some (.obj 1)⟩, (3, 0))] ∧
    scopeLookup c!"xs" [(c!"o", SVal.plain (.obj 1), (1, 0)), (c!"xs", SVal.plain (.list 3), (2, 0)),
      (c!"g", ⟨.func 2, some (.obj 1)⟩, (3, 0))] = some (SVal.plain (.list 3), (2, 0)) := ⟨by rfl, by decide⟩

/-- mutating a passed list or object writes the cell the argument denotes: the caller's variable still denotes that
    cell and therefore sees the new contents -/
theorem mutation_shared {σ : State} {b : Addr} {xs : List SVal} (ys : List SVal) (h : σ.getList b = some xs)
    (callerChain : List Addr) (x : List Char) :
    scopeGet (σ.set b (.list ys)) callerChain x = scopeGet σ callerChain x ∧
    (σ.set b (.list ys)).getList b = some ys :=
  ⟨scopeGet_set_list ys h callerChain x, getList_set_same (getList_lt h) ys⟩

theorem mutation_shared_obj {σ : State} {b : Addr} {m : ObjMap} (m' : ObjMap) (h : σ.getObj b = some m)
    (callerChain : List Addr) (x : List Char) :
    scopeGet (σ.set b (.obj m')) callerChain x = scopeGet σ callerChain x ∧
    (σ.set b (.obj m')).getObj b = some m' :=
  ⟨scopeGet_set_obj m' h callerChain x, getObj_set_same (getObj_lt h) m'⟩

example : σex.getList 3 = some [⟨.func 2, some (.obj 1)⟩] := by rfl

/-! ## provenance -/

/-- `e.k` on an object returns the stored value with `src :=` that object — whatever source was stored -/
theorem prop_read_sets_src {n : Nat} {σ σ1 : State} {sc : List Addr} {ex : Expr} {loc : Loc} {name : List Char}
    {s : Option Val} {a : Addr} {m : ObjMap} {v : SVal}
    (h : evalExpr n σ sc ex = .ok ⟨.obj a, s⟩ σ1) (hm : σ1.getObj a = some m) (hk : objGet name m = some v) :
    evalExpr (n + 1) σ sc (.mk (.Prop ex name false) loc) = .ok ⟨v.v, some (.obj a)⟩ σ1 := by
  rw [evalExpr, h]
  simp only [Res.bind, Bool.false_eq_true, if_false, hm, hk]

example : objGet c!"f" [(c!"f", (⟨.func 2, some (.obj 9)⟩ : SVal))] = some ⟨.func 2, some (.obj 9)⟩ := by decide

/-- the same through `e["k"]` -/
theorem index_read_sets_src {n : Nat} {σ σ1 : State} {sc : List Addr} {ex : Expr} {loc lk : Loc} {name : List Char}
    {s : Option Val} {a : Addr} {m : ObjMap} {v : SVal}
    (hname : utf8Decode (utf8Encode name) = .ok name)
    (h : evalExpr (n + 2) σ sc ex = .ok ⟨.obj a, s⟩ σ1) (hm : σ1.getObj a = some m) (hk : objGet name m = some v) :
    evalExpr (n + 3) σ sc (.mk (.Index ex (.mk (.Str name none) lk)) loc) = .ok ⟨v.v, some (.obj a)⟩ σ1 := by
  rw [evalExpr, h]
  simp only [Res.bind]
  rw [evalToStr, evalExpr]
  simp only [Res.bind, SVal.plain, hname, hm, hk]

/-- reading a variable returns the stored value, source included -/
theorem src_preserved_var {n : Nat} {σ : State} {sc : List Addr} {x : List Char} {v : SVal} (l : Loc)
    (h : scopeGet σ sc x = some v) : evalExpr (n + 1) σ sc (.mk (.Var x) l) = .ok v σ := by
  rw [evalExpr, h]

example : scopeGet σex [0] c!"g" = some ⟨.func 2, some (.obj 1)⟩ := by rfl

/-- reading a list element returns the stored value, source included (the list is *not* attached as source) -/
theorem src_preserved_list_index {n : Nat} {σ σ1 σ2 : State} {sc : List Addr} {ex ix : Expr} {loc : Loc}
    {s : Option Val} {a : Addr} {items : List SVal} {i : Nat} {v : SVal}
    (h : evalExpr n σ sc ex = .ok ⟨.list a, s⟩ σ1) (hi : evalToIndex n σ1 sc ix = .ok i σ2)
    (hl : σ2.getList a = some items) (hv : items[i]? = some v) :
    evalExpr (n + 1) σ sc (.mk (.Index ex ix) loc) = .ok v σ2 := by
  rw [evalExpr, h]
  simp only [Res.bind, hi, hl, hv]

example : evalExpr 3 σex [0] (.mk (.Var c!"xs") (7, 0)) = .ok ⟨.list 3, none⟩ σex ∧
    evalToIndex 3 σex [0] (.mk (.Int 0) (7, 3)) = .ok 0 σex ∧
    ([⟨.func 2, some (.obj 1)⟩] : List SVal)[0]? = some ⟨.func 2, some (.obj 1)⟩ :=
  ⟨by with_unfolding_all rfl, by with_unfolding_all rfl, rfl⟩

/-- declaration and assignment store the value they are given, source included -/
theorem src_preserved_declare {f : Nat} {σ : State} {a : Addr} {sc : List Addr} {names : List (List Char)} {name : List Char}
    {m : ScopeMap} (loc : Loc) (rhs : SVal)
    (h1 : name ≠ c!"_") (h2 : name ∉ names) (hs : σ.getScope a = some m) (hf : scopeLookup name m = none) :
    bindNextName f σ (a :: sc) names name loc rhs none true =
      .ok (name :: names) (σ.set a (.scope ((name, rhs, loc) :: m))) :=
  bindNextName_declare loc rhs h1 h2 hs hf

theorem src_preserved_assign {f : Nat} {σ : State} {a : Addr} {sc : List Addr} {names : List (List Char)} {name : List Char}
    {m : ScopeMap} {p : SVal × Loc} (loc : Loc) (rhs : SVal)
    (h1 : name ≠ c!"_") (h2 : name ∉ names) (hs : σ.getScope a = some m) (hl : scopeLookup name m = some p) :
    bindNextName f σ (a :: sc) names name loc rhs none false =
      .ok (name :: names) (σ.set a (.scope (scopeSetVal name rhs m))) ∧
    scopeLookup name (scopeSetVal name rhs m) = some (rhs, p.2) := by
  refine ⟨?_, scopeLookup_setVal_same hl⟩
  simp [bindNextName, h1, h2, scopeAssign_head sc rhs hs hl]

/-- argument values reach the parameters unchanged; list items and object-literal values are stored unchanged;
    `return` hands the value back unchanged -/
theorem src_preserved_moves (n : Nat) (σ : State) (sc : List Addr) (e : Expr) (r : List ListItem) (acc : List SVal)
    (fr : FuncRec) (argVals : List SVal) (hc : fr.collect = false) (loc l : Loc) (v : SVal) :
    (callPlainVals σ fr argVals).1 = argVals ∧
    callBindings fr argVals none loc = fr.args.zip argVals ∧
    evalListItems (n + 1) σ sc (.mk e false :: r) acc =
      ((evalExpr n σ sc e).bind fun v σ1 => evalListItems n σ1 sc r (acc ++ [v])) ∧
    evalStmt (n + 1) σ sc (.Return l e) = ((evalExpr n σ sc e).bind fun v σ1 => .ok (.ret v l) σ1) ∧
    finishCall (.ret v l) σ = .ok v σ := by
  refine ⟨by rw [callPlainVals_no_rest argVals hc], rfl, evalListItems_cons_plain n σ sc e r acc, ?_, rfl⟩
  rw [evalStmt]

/-- the result of an operator never has a source … -/
theorem binop_src_none {n : Nat} {σ σ' : State} {sc : List Addr} {op : BinaryOp} {opLoc loc : Loc} {lhs rhs : Expr} {r : SVal}
    (h : evalExpr (n + 1) σ sc (.mk (.BinaryOp op opLoc lhs rhs) loc) = .ok r σ') : r.src = none := by
  rw [evalExpr] at h
  cases h1 : evalExpr n σ sc lhs with
  | ok l σ1 =>
    rw [h1] at h
    simp only [Res.bind] at h
    cases h2 : evalExpr n σ1 sc rhs with
    | ok r2 σ2 =>
      rw [h2] at h
      simp only at h
      cases h3 : applyBinOp n σ2 op opLoc l.v r2.v with
      | ok v σ3 => rw [h3] at h; simp only at h; cases h; rfl
      | err e σ3 => rw [h3] at h; cases h
      | crash w σ3 => rw [h3] at h; cases h
      | timeout => rw [h3] at h; cases h
    | err e σ2 => rw [h2] at h; cases h
    | crash w σ2 => rw [h2] at h; cases h
    | timeout => rw [h2] at h; cases h
  | err e σ1 => rw [h1] at h; cases h
  | crash w σ1 => rw [h1] at h; cases h
  | timeout => rw [h1] at h; cases h

example : evalExpr 2 σex [0] (.mk (.BinaryOp .Sum (8, 2) (.mk (.Int 1) (8, 0)) (.mk (.Int 2) (8, 4))) (8, 0)) =
    .ok (SVal.plain (.int 3)) σex := by with_unfolding_all rfl

/-- … nor has a literal, a fresh list, object or function -/
theorem literal_src_none (n : Nat) (σ : State) (sc : List Addr) (loc : Loc) (b : Bool) (i : Int) (s : List Char)
    (args : List Expr) (c : Bool) (stmts : List Stmt) :
    evalExpr (n + 1) σ sc (.mk .Null loc) = .ok ⟨.null, none⟩ σ ∧
    evalExpr (n + 1) σ sc (.mk (.Bool b) loc) = .ok ⟨.bool b, none⟩ σ ∧
    evalExpr (n + 1) σ sc (.mk (.Int i) loc) = .ok ⟨.int i, none⟩ σ ∧
    evalExpr (n + 1) σ sc (.mk (.Str s none) loc) = .ok ⟨.str (utf8Encode s), none⟩ σ ∧
    evalExpr (n + 1) σ sc (.mk (.Func args c stmts) loc) =
      .ok ⟨.func σ.heap.size, none⟩ (σ.alloc (.func ⟨none, args, c, stmts, sc⟩)).2 := by
  refine ⟨?_, ?_, ?_, ?_, ?_⟩ <;> rw [evalExpr] <;> rfl

/-! ## `this` -/

/-- the call binds `this := src` (after the parameters, in the same fresh scope) iff the callee value has a source -/
theorem this_bound (fr : FuncRec) (plainVals : List SVal) (loc : Loc) (t : Val) :
    callBindings fr plainVals (some t) loc = fr.args.zip plainVals ++ [(Expr.mk (.Var c!"this") loc, SVal.plain t)] ∧
    callBindings fr plainVals none loc = fr.args.zip plainVals :=
  ⟨rfl, rfl⟩

/-- without a source nothing named `this` is declared by the call: inside the body `this` is whatever the closure
    chain has — an enclosing function's `this` — or is undefined -/
theorem this_absent {σ : State} {a : Addr} {m : ScopeMap} (closure : List Addr) (n : Nat) (loc : Loc)
    (hs : σ.getScope a = some m) (hl : scopeLookup c!"this" m = none) :
    scopeGet σ (a :: closure) c!"this" = scopeGet σ closure c!"this" ∧
    (scopeGet σ closure c!"this" = none →
      evalExpr (n + 1) σ (a :: closure) (.mk (.Var c!"this") loc) = errAt loc (Leaf.Undefined c!"this") σ) := by
  refine ⟨scopeGet_head_miss closure hs hl, fun h => ?_⟩
  rw [evalExpr, scopeGet_head_miss closure hs hl, h]

example : scopeLookup c!"this" [(c!"o", SVal.plain (.obj 1), (1, 0))] = none := by decide

/-- with a source, `this` is that object, in the innermost scope, shadowing any `this` of the closure chain -/
theorem this_is_source {σ : State} {a : Addr} {m : ScopeMap} {t : Val} {l : Loc} (closure : List Addr) (n : Nat) (loc : Loc)
    (hs : σ.getScope a = some m) (hl : scopeLookup c!"this" m = some (SVal.plain t, l)) :
    evalExpr (n + 1) σ (a :: closure) (.mk (.Var c!"this") loc) = .ok (SVal.plain t) σ := by
  rw [evalExpr, scopeGet_head_hit closure hs hl]

example : scopeLookup c!"this" [(c!"this", SVal.plain (.obj 1), (1, 0))] = some (SVal.plain (.obj 1), (1, 0)) := by decide

end Seed.C14

/-! # End to end: the pieces composed through the evaluator

  The theorems above are one evaluator step each.  Below they are composed through `evalCall` / `evalStmts` /
  `evalBlock` / `declareAll` into statements about whole calls and small programs: which `evalBlock` instance a call
  reduces to, and (`BodyThis`, Lemmas/C14This.lean) that in the state the body's statements start in the chain
  `fresh parameter scope :: closure` resolves `this` to the stated object.  Fuel is explicit: sub-evaluations are
  hypotheses at fuel `n` (by G1, `evalExpr_fuel_mono`, they hold at every larger fuel), the conclusion is an equation
  at `n + c` whose right-hand side runs the callee's body at the fuel the evaluator really gives it.
-/
-- audit: Seed.bodyThis Seed.declareAll_this_last Seed.declareAll_vars Seed.scopeAssign_get Seed.scopeAssign_hit Seed.scopeAssign_of_get Seed.scopeGet_congr Seed.prop_read_src Seed.index_read_src Seed.declare_var_stmt Seed.assign_var_stmt Seed.func_stmt Seed.evalCall_func_ok Seed.call_stmt_then Seed.getFunc_after_items Seed.getFunc_after_expr Seed.callPlainVals_length_ge Seed.callPlainVals_heap_old
-- audit: Seed.freeAll Seed.freeAll_succ Seed.freeAll_zero Seed.bindNextName_free Seed.scopeAssign_free Seed.applyBinOp_free Seed.callBuiltin_free Seed.opAssignValue_free Seed.declareAll_keeps_free Seed.body_without_this Seed.not_mem_bindingsVars_zip
namespace Seed.C14
open Seed Gen

/-! ## end to end: `this` is the object the function was read from, for this call -/

/-- **`o.name(args)`.**  Arguments first (`σ → σ1`), then `o` (`σ1 → σ2`, an object `a`); if `a`'s property `name` holds
    a user function `fa` — *stored with any source `s`*, e.g. a method borrowed from another object — and the count
    fits, the call is the body of `fa` run with the binding list ending in `this := a`: `this` is the object the
    function was read from for THIS call, not the one it was defined in or stored with. -/
theorem method_call_this {n : Nat} {σ σ1 σ2 : State} {sc : List Addr} {o : Expr} {args : List ListItem}
    {argVals : List SVal} {ov : SVal} {a fa : Addr} {m : ObjMap} {name : List Char} {s : Option Val} {fr : FuncRec}
    (l loc : Loc)
    (hargs : evalListItems (n + 1) σ sc args [] = .ok argVals σ1)
    (ho : evalExpr n σ1 sc o = .ok ov σ2) (hov : ov.v = .obj a)
    (hm : σ2.getObj a = some m) (hk : objGet name m = some ⟨.func fa, s⟩)
    (hfr : σ2.getFunc fa = some fr) (hok : arityOk fr.collect fr.args.length argVals.length = true) :
    evalCall (n + 2) σ sc (.mk (.Prop o name false) l) args loc =
      ((evalBlock (n + 1) (callPlainVals σ2 fr argVals).2 fr.closure
          (callBindings fr (callPlainVals σ2 fr argVals).1 (some (.obj a)) loc) fr.stmts).mapErr
        (Err.funcCall fr.name loc)).bind finishCall ∧
    BodyThis (callPlainVals σ2 fr argVals).2 fr (callPlainVals σ2 fr argVals).1 (some (.obj a)) loc (.obj a) :=
  ⟨evalCall_func_ok loc hargs (prop_read_src l ho hov hm hk) rfl hfr hok, bodyThis _ _ _ _ _⟩

/-- **`o[key](args)`**, for any key expression `ke` that evaluates to the string `name` -/
theorem method_call_this_index {n : Nat} {σ σ1 σ2 σ3 : State} {sc : List Addr} {o ke : Expr} {args : List ListItem}
    {argVals : List SVal} {ov : SVal} {a fa : Addr} {m : ObjMap} {name : List Char} {s : Option Val} {fr : FuncRec}
    (l loc : Loc)
    (hargs : evalListItems (n + 1) σ sc args [] = .ok argVals σ1)
    (ho : evalExpr n σ1 sc o = .ok ov σ2) (hov : ov.v = .obj a)
    (hke : evalToStr n σ2 sc c!"property" ke = .ok name σ3)
    (hm : σ3.getObj a = some m) (hk : objGet name m = some ⟨.func fa, s⟩)
    (hfr : σ3.getFunc fa = some fr) (hok : arityOk fr.collect fr.args.length argVals.length = true) :
    evalCall (n + 2) σ sc (.mk (.Index o ke) l) args loc =
      ((evalBlock (n + 1) (callPlainVals σ3 fr argVals).2 fr.closure
          (callBindings fr (callPlainVals σ3 fr argVals).1 (some (.obj a)) loc) fr.stmts).mapErr
        (Err.funcCall fr.name loc)).bind finishCall ∧
    BodyThis (callPlainVals σ3 fr argVals).2 fr (callPlainVals σ3 fr argVals).1 (some (.obj a)) loc (.obj a) :=
  ⟨evalCall_func_ok loc hargs (index_read_src l ho hov hke hm hk) rfl hfr hok, bodyThis _ _ _ _ _⟩

/-- calling through a variable: the source stored with the variable's value becomes `this` -/
theorem call_var_this {n : Nat} {σ σ1 : State} {sc : List Addr} {h : List Char} {args : List ListItem}
    {argVals : List SVal} {fa : Addr} {t : Val} {fr : FuncRec} (lh loc : Loc)
    (hargs : evalListItems (n + 1) σ sc args [] = .ok argVals σ1)
    (hh : scopeGet σ1 sc h = some ⟨.func fa, some t⟩)
    (hfr : σ1.getFunc fa = some fr) (hok : arityOk fr.collect fr.args.length argVals.length = true) :
    evalCall (n + 2) σ sc (.mk (.Var h) lh) args loc =
      ((evalBlock (n + 1) (callPlainVals σ1 fr argVals).2 fr.closure
          (callBindings fr (callPlainVals σ1 fr argVals).1 (some t) loc) fr.stmts).mapErr
        (Err.funcCall fr.name loc)).bind finishCall ∧
    BodyThis (callPlainVals σ1 fr argVals).2 fr (callPlainVals σ1 fr argVals).1 (some t) loc t :=
  ⟨evalCall_func_ok loc hargs (src_preserved_var lh hh) rfl hfr hok, bodyThis _ _ _ _ _⟩

/-- **`h := o.name; h(args); rest`.**  The call binds `this` to the object `a` that `o` evaluated to at the time of the
    READ (first statement).  Between the read and the call only the argument list runs; whatever it does (reassign
    `o`, replace `o.name`, …), as long as `h` still resolves to the value read (`hstill`, automatic for arguments
    without effects) `this` is `a`. -/
theorem stored_method_keeps_this_var {n : Nat} {σ σ1 σ3 : State} {A0 : Addr} {sc' : List Addr} {o : Expr}
    {args : List ListItem} {argVals : List SVal} {ov : SVal} {a fa : Addr} {m : ObjMap} {ms : ScopeMap}
    {name h : List Char} {s : Option Val} {fr : FuncRec} (lh lp lh2 lc : Loc) (rest : List Stmt)
    (ho : evalExpr n σ (A0 :: sc') o = .ok ov σ1) (hov : ov.v = .obj a)
    (hm : σ1.getObj a = some m) (hk : objGet name m = some ⟨.func fa, s⟩)
    (hh : h ≠ c!"_") (hs : σ1.getScope A0 = some ms) (hfresh : scopeLookup h ms = none)
    (hargs : evalListItems (n + 1) (σ1.set A0 (.scope ((h, ⟨.func fa, some (.obj a)⟩, lh) :: ms))) (A0 :: sc') args [] =
      .ok argVals σ3)
    (hstill : scopeGet σ3 (A0 :: sc') h = some ⟨.func fa, some (.obj a)⟩)
    (hfr : σ3.getFunc fa = some fr) (hok : arityOk fr.collect fr.args.length argVals.length = true) :
    evalStmts (n + 6) σ (A0 :: sc')
        (.Declare (.mk (.Var h) lh) (.mk (.Prop o name false) lp) ::
         .Expr (.mk (.Call (.mk (.Var h) lh2) args) lc) :: rest) =
      ((((evalBlock (n + 1) (callPlainVals σ3 fr argVals).2 fr.closure
            (callBindings fr (callPlainVals σ3 fr argVals).1 (some (.obj a)) lc) fr.stmts).mapErr
          (Err.funcCall fr.name lc)).bind finishCall).bind fun _ σ5 => evalStmts (n + 4) σ5 (A0 :: sc') rest) ∧
    BodyThis (callPlainVals σ3 fr argVals).2 fr (callPlainVals σ3 fr argVals).1 (some (.obj a)) lc (.obj a) := by
  refine ⟨?_, bodyThis _ _ _ _ _⟩
  have hd := declare_var_stmt lh (prop_read_src lp ho hov hm hk) hh hs hfresh
  rw [evalStmts_cons_ok _ (evalStmt_mono hd (by simp) (by omega : n + 2 ≤ n + 5)), call_stmt_then,
    (call_var_this lh2 lc hargs hstill hfr hok).1]


/-- the state in which the body of `fn ap(f) { … }` starts when it is called from `σ2` with the one argument `v`:
    a fresh scope cell (address `σ2.heap.size`) holding `f ↦ v` -/
def apEntry (σ2 : State) (f : List Char) (lf : Loc) (v : SVal) : State :=
  (σ2.alloc (.scope [])).2.set σ2.heap.size (.scope [(f, v, lf)])

/-- **`ap(o.name)` with `fn ap(f) { return f(); }`** (`ap`: any plain function value with exactly that shape).  Inside
    `ap` the call `f()` runs the body of `fa` with `this :=` the object `o` evaluated to when the argument was read;
    the result of the whole call is the result of that inner call, its error wrapped in `ap`'s frame. -/
theorem stored_method_keeps_this_arg {n : Nat} {σ σ1 σ2 : State} {sc clo : List Addr} {o g : Expr} {ov : SVal}
    {a fa pa : Addr} {m : ObjMap} {name f : List Char} {s : Option Val} {fr : FuncRec} {apName : Option (List Char)}
    (lf lr lf2 lc2 lp loc : Loc)
    (ho : evalExpr n σ sc o = .ok ov σ1) (hov : ov.v = .obj a)
    (hm : σ1.getObj a = some m) (hk : objGet name m = some ⟨.func fa, s⟩)
    (hg : evalExpr n σ1 sc g = .ok ⟨.func pa, none⟩ σ2)
    (hap : σ2.getFunc pa =
      some ⟨apName, [.mk (.Var f) lf], false, [.Return lr (.mk (.Call (.mk (.Var f) lf2) []) lc2)], clo⟩)
    (hf : f ≠ c!"_") (hfr : σ2.getFunc fa = some fr) (hok : arityOk fr.collect fr.args.length 0 = true) :
    evalCall (n + 6) σ sc g [.mk (.mk (.Prop o name false) lp) false] loc =
      (((evalBlock n (callPlainVals (apEntry σ2 f lf ⟨.func fa, some (.obj a)⟩) fr []).2 fr.closure
            (callBindings fr (callPlainVals (apEntry σ2 f lf ⟨.func fa, some (.obj a)⟩) fr []).1 (some (.obj a)) lc2)
            fr.stmts).mapErr
          (Err.funcCall fr.name lc2)).bind finishCall).mapErr (Err.funcCall apName loc) ∧
    BodyThis (callPlainVals (apEntry σ2 f lf ⟨.func fa, some (.obj a)⟩) fr []).2 fr
      (callPlainVals (apEntry σ2 f lf ⟨.func fa, some (.obj a)⟩) fr []).1 (some (.obj a)) lc2 (.obj a) := by
  refine ⟨?_, bodyThis _ _ _ _ _⟩
  obtain ⟨k, rfl⟩ := evalExpr_ok_pos ho
  have hsA : (σ2.alloc (.scope [])).2.getScope σ2.heap.size = some [] := getScope_eq_some.mpr (σ2.alloc_heap_new _)
  -- the inner call `f()` in the body of `ap`
  have hfr3 : (apEntry σ2 f lf ⟨.func fa, some (.obj a)⟩).getFunc fa = some fr :=
    funcsStable_good.setScope _ _ [] _ hsA fa fr (funcsStable_good.alloc σ2 _ fa fr hfr)
  have hcall := evalCall_func_ok lc2
    (evalListItems_nil k (apEntry σ2 f lf ⟨.func fa, some (.obj a)⟩) (σ2.heap.size :: clo) [])
    (src_preserved_var (n := k) lf2 (scopeGet_declared clo f ⟨.func fa, some (.obj a)⟩ lf hsA)) rfl hfr3 hok
  suffices H : ∀ X : Res SVal,
      evalCall (k + 2) (apEntry σ2 f lf ⟨.func fa, some (.obj a)⟩) (σ2.heap.size :: clo) (.mk (.Var f) lf2) [] lc2 = X →
      evalCall (k + 1 + 6) σ sc g [.mk (.mk (.Prop o name false) lp) false] loc = X.mapErr (Err.funcCall apName loc) from
    H _ hcall
  intro X hX
  -- the argument list `[o.name]`
  have hread := prop_read_src lp (evalExpr_fuel_mono ho (by simp) (by omega : k + 1 ≤ k + 4)) hov hm hk
  have hargs : evalListItems (k + 6) σ sc [.mk (.mk (.Prop o name false) lp) false] [] =
      .ok [⟨.func fa, some (.obj a)⟩] σ1 := by
    rw [evalListItems_cons_plain, hread]
    simp only [Res.bind]
    rw [evalListItems_nil]; rfl
  -- the call of `ap`: its parameter scope, then its body `return f();`
  rw [evalCall_func_ok loc hargs (evalExpr_fuel_mono hg (by simp) (by omega : k + 1 ≤ k + 6)) rfl hap (by rfl)]
  rw [callPlainVals_no_rest _ rfl]
  simp only [callBindings, List.zip_cons_cons, List.zip_nil_left]
  rw [evalBlock_succ, declareAll_cons, bindNext_var,
    bindNextName_declare lf _ hf (by simp) hsA (by rfl)]
  simp only [Res.bind]
  rw [declareAll_nil]
  simp only []
  rw [evalStmts_cons, evalStmt, evalExpr]
  show ((((evalCall (k + 2) (apEntry σ2 f lf ⟨.func fa, some (.obj a)⟩) (σ2.heap.size :: clo) (.mk (.Var f) lf2) [] lc2).bind
    _).bind _).mapErr _).bind _ = _
  rw [hX]
  cases X <;> rfl


/-- the state after `xs := [v]` in a state `σ1` whose innermost scope cell `A0` holds `ms`: a new list cell (address
    `σ1.heap.size`) holding `[v]`, and `xs ↦` that list -/
def listDeclared (σ1 : State) (A0 : Addr) (xs : List Char) (lx : Loc) (ms : ScopeMap) (v : SVal) : State :=
  (σ1.alloc (.list [v])).2.set A0 (.scope ((xs, SVal.plain (.list σ1.heap.size), lx) :: ms))

/-- **`xs := [o.name]; xs[ix](args); rest`.**  The list element carries the source: if after the arguments and the index
    the list built by the first statement (cell `σ1.heap.size`) still holds the value at position `i`, the call binds
    `this` to the object `o` evaluated to at the time of the read. -/
theorem stored_method_keeps_this_list {n : Nat} {σ σ1 σ3 σ4 : State} {A0 : Addr} {sc' : List Addr} {o ix : Expr}
    {args : List ListItem} {argVals : List SVal} {ov : SVal} {a fa : Addr} {m : ObjMap} {ms : ScopeMap}
    {name xs : List Char} {s sx : Option Val} {fr : FuncRec} {i : Nat} {items : List SVal}
    (lx ll lp lx2 li lc : Loc) (rest : List Stmt)
    (ho : evalExpr n σ (A0 :: sc') o = .ok ov σ1) (hov : ov.v = .obj a)
    (hm : σ1.getObj a = some m) (hk : objGet name m = some ⟨.func fa, s⟩)
    (hxs : xs ≠ c!"_") (hs : σ1.getScope A0 = some ms) (hfresh : scopeLookup xs ms = none)
    (hargs : evalListItems (n + 1) (listDeclared σ1 A0 xs lx ms ⟨.func fa, some (.obj a)⟩) (A0 :: sc') args [] =
      .ok argVals σ3)
    (hstill : scopeGet σ3 (A0 :: sc') xs = some ⟨.list σ1.heap.size, sx⟩)
    (hix : evalToIndex n σ3 (A0 :: sc') ix = .ok i σ4)
    (hl : σ4.getList σ1.heap.size = some items) (hi : items[i]? = some ⟨.func fa, some (.obj a)⟩)
    (hfr : σ4.getFunc fa = some fr) (hok : arityOk fr.collect fr.args.length argVals.length = true) :
    evalStmts (n + 6) σ (A0 :: sc')
        (.Declare (.mk (.Var xs) lx) (.mk (.List [.mk (.mk (.Prop o name false) lp) false] false) ll) ::
         .Expr (.mk (.Call (.mk (.Index (.mk (.Var xs) lx2) ix) li) args) lc) :: rest) =
      ((((evalBlock (n + 1) (callPlainVals σ4 fr argVals).2 fr.closure
            (callBindings fr (callPlainVals σ4 fr argVals).1 (some (.obj a)) lc) fr.stmts).mapErr
          (Err.funcCall fr.name lc)).bind finishCall).bind fun _ σ5 => evalStmts (n + 4) σ5 (A0 :: sc') rest) ∧
    BodyThis (callPlainVals σ4 fr argVals).2 fr (callPlainVals σ4 fr argVals).1 (some (.obj a)) lc (.obj a) := by
  refine ⟨?_, bodyThis _ _ _ _ _⟩
  -- `[o.name]`
  have hlist : evalExpr (n + 3) σ (A0 :: sc') (.mk (.List [.mk (.mk (.Prop o name false) lp) false] false) ll) =
      .ok (SVal.plain (.list σ1.heap.size)) (σ1.alloc (.list [⟨.func fa, some (.obj a)⟩])).2 := by
    rw [evalExpr]
    simp only [Bool.false_eq_true, if_false]
    rw [evalListItems_cons_plain, prop_read_src lp ho hov hm hk]
    simp only [Res.bind]
    rw [evalListItems_nil]; rfl
  have hs' : (σ1.alloc (.list [⟨.func fa, some (.obj a)⟩])).2.getScope A0 = some ms := by
    rw [getScope_eq_some] at hs ⊢
    rw [σ1.alloc_heap_old _ (heap_lt_of_some hs)]; exact hs
  have hd := declare_var_stmt lx hlist hxs hs' hfresh
  -- `xs[ix]`
  have hvar : evalExpr n σ3 (A0 :: sc') (.mk (.Var xs) lx2) = .ok ⟨.list σ1.heap.size, sx⟩ σ3 := by
    obtain ⟨k, hk'⟩ := evalExpr_ok_pos ho
    rw [hk']; exact src_preserved_var lx2 hstill
  have hcallee : evalExpr (n + 1) σ3 (A0 :: sc') (.mk (.Index (.mk (.Var xs) lx2) ix) li) =
      .ok ⟨.func fa, some (.obj a)⟩ σ4 :=
    src_preserved_list_index hvar hix hl hi
  unfold listDeclared at hargs
  rw [evalStmts_cons_ok _ (evalStmt_mono hd (by simp) (by omega : n + 2 + 2 ≤ n + 5)), call_stmt_then,
    evalCall_func_ok lc hargs hcallee rfl hfr hok]

/-! ## a function value that was never read from an object -/

/-- **A function value with no source** (`src = none`: the value of a `fn` statement's name, `fn_stmt_value_has_no_source`,
    or of a function literal, `literal_src_none`, moved along variables, arguments, list elements) **is called without a
    `this` binding**: the binding list is just parameters × values, declared into the fresh cell on top of the closure
    chain.  So — unless a parameter pattern itself binds the name `this` (`fn f([this]) …` does, see the example) —
    whenever the parameters can be bound, `this` resolves through the closure chain only in the state the body starts
    in: it is an enclosing function's `this`, or `'this' is not defined`.  Parameters may be arbitrary patterns
    (`patVars`: the names a pattern binds; Lemmas/C14ThisPat.lean shows over the whole evaluator that evaluating the
    expressions inside a pattern never declares into the cell). -/
theorem plain_function_has_no_this {n : Nat} {σ σ1 σ2 : State} {sc : List Addr} {f : Expr} {args : List ListItem}
    {argVals : List SVal} {fa : Addr} {fr : FuncRec} (loc : Loc)
    (hargs : evalListItems n σ sc args [] = .ok argVals σ1)
    (hf : evalExpr n σ1 sc f = .ok ⟨.func fa, none⟩ σ2)
    (hfr : σ2.getFunc fa = some fr) (hok : arityOk fr.collect fr.args.length argVals.length = true) :
    evalCall (n + 1) σ sc f args loc =
      ((evalBlock n (callPlainVals σ2 fr argVals).2 fr.closure (fr.args.zip (callPlainVals σ2 fr argVals).1)
          fr.stmts).mapErr (Err.funcCall fr.name loc)).bind finishCall ∧
    (∀ k, evalBlock (k + 1) (callPlainVals σ2 fr argVals).2 fr.closure (fr.args.zip (callPlainVals σ2 fr argVals).1)
        fr.stmts =
      (declareAll k ((callPlainVals σ2 fr argVals).2.alloc (.scope [])).2
          ((callPlainVals σ2 fr argVals).2.heap.size :: fr.closure) (fr.args.zip (callPlainVals σ2 fr argVals).1)).bind
        fun _ σb => evalStmts k σb ((callPlainVals σ2 fr argVals).2.heap.size :: fr.closure) fr.stmts) ∧
    ((∀ p ∈ fr.args, c!"this" ∉ patVars p) → ∀ k σb,
      declareAll k ((callPlainVals σ2 fr argVals).2.alloc (.scope [])).2
          ((callPlainVals σ2 fr argVals).2.heap.size :: fr.closure) (fr.args.zip (callPlainVals σ2 fr argVals).1) =
        .ok () σb →
      scopeGet σb ((callPlainVals σ2 fr argVals).2.heap.size :: fr.closure) c!"this" = scopeGet σb fr.closure c!"this" ∧
      (scopeGet σb fr.closure c!"this" = none → ∀ j l,
        evalExpr (j + 1) σb ((callPlainVals σ2 fr argVals).2.heap.size :: fr.closure) (.mk (.Var c!"this") l) =
          errAt l (Leaf.Undefined c!"this") σb) ∧
      (∀ w, scopeGet σb fr.closure c!"this" = some w → ∀ j l,
        evalExpr (j + 1) σb ((callPlainVals σ2 fr argVals).2.heap.size :: fr.closure) (.mk (.Var c!"this") l) =
          .ok w σb)) :=
  ⟨evalCall_func_ok loc hargs hf rfl hfr hok, fun k => evalBlock_succ k _ _ _ _,
    fun hno _ _ h => body_without_this hno h⟩

/-- the same for the common case of plain parameter names (pairwise different, none `_`, none `this`), where more can
    be said: the parameters can always be bound (at every fuel `≥ number of parameters + 2`), and `this` in the body's
    initial state is what the closure chain had *at the call* (state `σ2`) -/
theorem plain_function_plain_params {σ2 : State} {argVals : List SVal} {fr : FuncRec}
    (hok : arityOk fr.collect fr.args.length argVals.length = true)
    (vars : List (List Char × Loc)) (hvars : fr.args = varExprs vars) (hfreshrow : FreshRow [] [] vars)
    (hnothis : ∀ p ∈ vars, p.1 ≠ c!"this") (hclo : ∀ b ∈ fr.closure, b < σ2.heap.size)
    (k : Nat) (hk : vars.length + 2 ≤ k) :
    ∃ σb,
      evalBlock (k + 1) (callPlainVals σ2 fr argVals).2 fr.closure (fr.args.zip (callPlainVals σ2 fr argVals).1) fr.stmts =
        evalStmts k σb ((callPlainVals σ2 fr argVals).2.heap.size :: fr.closure) fr.stmts ∧
      scopeGet σb ((callPlainVals σ2 fr argVals).2.heap.size :: fr.closure) c!"this" = scopeGet σ2 fr.closure c!"this" ∧
      (scopeGet σ2 fr.closure c!"this" = none → ∀ j l,
        evalExpr (j + 1) σb ((callPlainVals σ2 fr argVals).2.heap.size :: fr.closure) (.mk (.Var c!"this") l) =
          errAt l (Leaf.Undefined c!"this") σb) ∧
      (∀ w, scopeGet σ2 fr.closure c!"this" = some w → ∀ j l,
        evalExpr (j + 1) σb ((callPlainVals σ2 fr argVals).2.heap.size :: fr.closure) (.mk (.Var c!"this") l) =
          .ok w σb) := by
  generalize hσ3 : (callPlainVals σ2 fr argVals).2 = σ3
  generalize hpv : (callPlainVals σ2 fr argVals).1 = pv
  have hlen : vars.length ≤ pv.length := by
    have := callPlainVals_length_ge (σ := σ2) hok
    rw [hpv, hvars] at this
    simpa [varExprs] using this
  have hsA : (σ3.alloc (.scope [])).2.getScope σ3.heap.size = some [] := getScope_eq_some.mpr (σ3.alloc_heap_new _)
  obtain ⟨d, rfl⟩ : ∃ d, k = vars.length + 2 + d := ⟨k - (vars.length + 2), by omega⟩
  obtain ⟨σb, mb, hdecl, hsb, _, hother, hheap⟩ :=
    declareAll_vars fr.closure vars (pv.take vars.length) d hsA hfreshrow (by simp; omega)
  have hzip : fr.args.zip pv = (varExprs vars).zip (pv.take vars.length) := by
    rw [hvars, zip_take_left]; simp [varExprs]
  have hthis : scopeLookup c!"this" mb = none := by rw [hother _ hnothis]; rfl
  have hcl : scopeGet σb fr.closure c!"this" = scopeGet σ2 fr.closure c!"this" := by
    apply scopeGet_congr
    intro b hb
    have hb2 : b < σ2.heap.size := hclo b hb
    have h3 := callPlainVals_heap_old (σ := σ2) (fr := fr) argVals hb2
    rw [hσ3] at h3
    have hb3 : b < σ3.heap.size := Nat.lt_of_lt_of_le hb2 h3.2
    rw [hheap b (Nat.ne_of_lt hb3), σ3.alloc_heap_old _ hb3, h3.1]
  have hget := (this_absent fr.closure 0 (0, 0) hsb hthis).1
  refine ⟨σb, ?_, hget.trans hcl, ?_, ?_⟩
  · rw [evalBlock_succ, hzip, hdecl]; rfl
  · intro hnone j l
    exact (this_absent fr.closure j l hsb hthis).2 (hcl.trans hnone)
  · intro w hw j l
    rw [evalExpr, hget, hcl, hw]

/-! ## assignment replaces the value together with its source -/

/-- **`h = o2.name; h(args); rest`** for a defined `h` (`hassign` — it exists whenever `h` resolves, `scopeAssign_of_get` —
    whatever `h` held before, e.g. a method read from another object): afterwards `h` resolves to the function with
    source `a2`, and the call binds `this` to `a2`.  The old source is neither kept nor is the new one dropped. -/
theorem assign_replaces_provenance {n : Nat} {σ σ1 σ2 σ3 : State} {sc : List Addr} {o2 : Expr}
    {args : List ListItem} {argVals : List SVal} {ov : SVal} {a2 fa : Addr} {m2 : ObjMap}
    {name h : List Char} {s : Option Val} {fr : FuncRec} (lh lp lh2 lc : Loc) (rest : List Stmt)
    (ho : evalExpr n σ sc o2 = .ok ov σ1) (hov : ov.v = .obj a2)
    (hm : σ1.getObj a2 = some m2) (hk : objGet name m2 = some ⟨.func fa, s⟩)
    (hh : h ≠ c!"_") (hassign : scopeAssign σ1 sc h ⟨.func fa, some (.obj a2)⟩ = some σ2)
    (hargs : evalListItems (n + 1) σ2 sc args [] = .ok argVals σ3)
    (hstill : scopeGet σ3 sc h = some ⟨.func fa, some (.obj a2)⟩)
    (hfr : σ3.getFunc fa = some fr) (hok : arityOk fr.collect fr.args.length argVals.length = true) :
    scopeGet σ2 sc h = some ⟨.func fa, some (.obj a2)⟩ ∧
    evalStmts (n + 6) σ sc
        (.Assign (.mk (.Var h) lh) (.mk (.Prop o2 name false) lp) ::
         .Expr (.mk (.Call (.mk (.Var h) lh2) args) lc) :: rest) =
      ((((evalBlock (n + 1) (callPlainVals σ3 fr argVals).2 fr.closure
            (callBindings fr (callPlainVals σ3 fr argVals).1 (some (.obj a2)) lc) fr.stmts).mapErr
          (Err.funcCall fr.name lc)).bind finishCall).bind fun _ σ5 => evalStmts (n + 4) σ5 sc rest) ∧
    BodyThis (callPlainVals σ3 fr argVals).2 fr (callPlainVals σ3 fr argVals).1 (some (.obj a2)) lc (.obj a2) := by
  refine ⟨scopeAssign_get hassign, ?_, bodyThis _ _ _ _ _⟩
  have hst : evalStmt (n + 2) σ sc (.Assign (.mk (.Var h) lh) (.mk (.Prop o2 name false) lp)) = .ok .none σ2 := by
    rw [evalStmt, prop_read_src lp ho hov hm hk]
    simp only [Res.bind]
    rw [bindNext_var]
    simp [bindNextName, hh, hassign]
  rw [evalStmts_cons_ok _ (evalStmt_mono hst (by simp) (by omega : n + 2 ≤ n + 5)), call_stmt_then,
    (call_var_this lh2 lc hargs hstill hfr hok).1]


/-- **`h := o1.k1; h = o2.k2; h(args); rest`**: `this` is `o2`'s object -/
theorem assign_after_declare_replaces_provenance {n : Nat} {σ σ1 σ3 σ4 σ5 : State} {A0 : Addr} {sc' : List Addr}
    {o1 o2 : Expr} {args : List ListItem} {argVals : List SVal} {ov1 ov2 : SVal} {a1 a2 f1 fa : Addr}
    {m1 m2 : ObjMap} {ms : ScopeMap} {k1 k2 h : List Char} {s1 s2 : Option Val} {fr : FuncRec}
    (lh lp lh' lp' lh2 lc : Loc) (rest : List Stmt)
    (ho1 : evalExpr n σ (A0 :: sc') o1 = .ok ov1 σ1) (hov1 : ov1.v = .obj a1)
    (hm1 : σ1.getObj a1 = some m1) (hk1 : objGet k1 m1 = some ⟨.func f1, s1⟩)
    (hh : h ≠ c!"_") (hs : σ1.getScope A0 = some ms) (hfresh : scopeLookup h ms = none)
    (ho2 : evalExpr n (σ1.set A0 (.scope ((h, ⟨.func f1, some (.obj a1)⟩, lh) :: ms))) (A0 :: sc') o2 = .ok ov2 σ3)
    (hov2 : ov2.v = .obj a2) (hm2 : σ3.getObj a2 = some m2) (hk2 : objGet k2 m2 = some ⟨.func fa, s2⟩)
    (hassign : scopeAssign σ3 (A0 :: sc') h ⟨.func fa, some (.obj a2)⟩ = some σ4)
    (hargs : evalListItems (n + 1) σ4 (A0 :: sc') args [] = .ok argVals σ5)
    (hstill : scopeGet σ5 (A0 :: sc') h = some ⟨.func fa, some (.obj a2)⟩)
    (hfr : σ5.getFunc fa = some fr) (hok : arityOk fr.collect fr.args.length argVals.length = true) :
    evalStmts (n + 7) σ (A0 :: sc')
        (.Declare (.mk (.Var h) lh) (.mk (.Prop o1 k1 false) lp) ::
         .Assign (.mk (.Var h) lh') (.mk (.Prop o2 k2 false) lp') ::
         .Expr (.mk (.Call (.mk (.Var h) lh2) args) lc) :: rest) =
      ((((evalBlock (n + 1) (callPlainVals σ5 fr argVals).2 fr.closure
            (callBindings fr (callPlainVals σ5 fr argVals).1 (some (.obj a2)) lc) fr.stmts).mapErr
          (Err.funcCall fr.name lc)).bind finishCall).bind fun _ σ6 => evalStmts (n + 4) σ6 (A0 :: sc') rest) ∧
    BodyThis (callPlainVals σ5 fr argVals).2 fr (callPlainVals σ5 fr argVals).1 (some (.obj a2)) lc (.obj a2) := by
  refine ⟨?_, bodyThis _ _ _ _ _⟩
  have hd := declare_var_stmt lh (prop_read_src lp ho1 hov1 hm1 hk1) hh hs hfresh
  rw [evalStmts_cons_ok _ (evalStmt_mono hd (by simp) (by omega : n + 2 ≤ n + 6))]
  exact (assign_replaces_provenance lh' lp' lh2 lc rest ho2 hov2 hm2 hk2 hh hassign hargs hstill hfr hok).2.1

/-- `fn x(…) { … }` binds `x` to a function value without a source -/
theorem fn_stmt_value_has_no_source {n : Nat} {σ : State} {a : Addr} {sc : List Addr} {x : List Char} {m : ScopeMap}
    (lx : Loc) (params : List Expr) (collect : Bool) (body : List Stmt)
    (hv : validateArgs (n + 1) params [] = some none) (hx : x ≠ c!"_")
    (hs : σ.getScope a = some m) (hf : scopeLookup x m = none) :
    ∃ σ', evalStmt (n + 2) σ (a :: sc) (.Func x lx params collect body) = .ok .none σ' ∧
      scopeGet σ' (a :: sc) x = some ⟨.func σ.heap.size, none⟩ ∧
      σ'.getFunc σ.heap.size = some ⟨some x, params, collect, body, a :: sc⟩ ∧
      ∀ j l, evalExpr (j + 1) σ' (a :: sc) (.mk (.Var x) l) = .ok ⟨.func σ.heap.size, none⟩ σ' := by
  have hs' : (σ.alloc (.func ⟨some x, params, collect, body, a :: sc⟩)).2.getScope a = some m := by
    rw [getScope_eq_some] at hs ⊢
    rw [σ.alloc_heap_old _ (heap_lt_of_some hs)]; exact hs
  have hg := scopeGet_declared sc x ⟨.func σ.heap.size, none⟩ lx hs'
  refine ⟨_, func_stmt lx params collect body hv hx hs hf, hg, ?_, fun j l => src_preserved_var l hg⟩
  have hne : σ.heap.size ≠ a := Nat.ne_of_gt (getScope_lt hs)
  rw [getFunc_set_other _ hne]
  exact getFunc_eq_some.mpr (σ.alloc_heap_new _)


/-! ## examples for the end-to-end theorems -/

/-- `return this.n;` -/
def getBody : List Stmt :=
  [.Return (1, 28) (.mk (.Prop (.mk (.Var c!"this") (1, 35)) c!"n" false) (1, 39))]
/-- `fn() { return this.n; }`, closed over the global scope -/
def frGet : FuncRec := ⟨none, [], false, getBody, [0]⟩
/-- `fn g() { return this; }` -/
def frG : FuncRec := ⟨some c!"g", [], false, [.Return (3, 9) (.mk (.Var c!"this") (3, 16))], [0]⟩
/-- `fn ap(f) { return f(); }` -/
def frAp : FuncRec :=
  ⟨some c!"ap", [.mk (.Var c!"f") (4, 6)], false,
    [.Return (4, 11) (.mk (.Call (.mk (.Var c!"f") (4, 18)) []) (4, 19))], [0]⟩

/-- scope 0: `a ↦ object 1`, `b ↦ object 3`, `g ↦ func 4`, `ap ↦ func 5`;
    object 1 = `{"get": fn() { return this.n; }, "n": 1}` (the function is cell 2);
    object 3 = `{"get": a.get, "n": 2}` — its `get` is the same function, *stored with source `a`* -/
def ms0 : ScopeMap :=
  [(c!"a", SVal.plain (.obj 1), (1, 0)), (c!"b", SVal.plain (.obj 3), (2, 0)),
   (c!"g", SVal.plain (.func 4), (3, 3)), (c!"ap", SVal.plain (.func 5), (4, 3))]

def σm : State :=
  ⟨#[.scope ms0,
     .obj [(c!"get", ⟨.func 2, none⟩), (c!"n", SVal.plain (.int 1))],
     .func frGet,
     .obj [(c!"get", ⟨.func 2, some (.obj 1)⟩), (c!"n", SVal.plain (.int 2))],
     .func frG,
     .func frAp], []⟩

def eA : Expr := .mk (.Var c!"a") (5, 0)
def eB : Expr := .mk (.Var c!"b") (5, 0)

/-- `b.get()`: `this` is `b` (object 3) although the function was defined in, and is stored with source, `a` -/
example :
    evalCall 4 σm [0] (.mk (.Prop eB c!"get" false) (5, 1)) [] (5, 5) =
      ((evalBlock 3 σm [0] [(.mk (.Var c!"this") (5, 5), SVal.plain (.obj 3))] getBody).mapErr
        (Err.funcCall none (5, 5))).bind finishCall ∧
    BodyThis σm frGet [] (some (.obj 3)) (5, 5) (.obj 3) :=
  method_call_this (n := 2) (σ1 := σm) (σ2 := σm) (argVals := []) (ov := SVal.plain (.obj 3)) (a := 3) (fa := 2)
    (m := [(c!"get", ⟨.func 2, some (.obj 1)⟩), (c!"n", SVal.plain (.int 2))]) (s := some (.obj 1)) (fr := frGet)
    (5, 1) (5, 5) (by with_unfolding_all rfl) (by with_unfolding_all rfl) rfl (by rfl) (by decide) (by rfl) (by decide)

example : ∃ σ', evalCall 8 σm [0] (.mk (.Prop eB c!"get" false) (5, 1)) [] (5, 5) = .ok ⟨.int 2, some (.obj 3)⟩ σ' :=
  ⟨_, by with_unfolding_all rfl⟩

/-- `b["get"]()` -/
example :
    evalCall 5 σm [0] (.mk (.Index eB (.mk (.Str c!"get" none) (5, 2))) (5, 1)) [] (5, 5) =
      ((evalBlock 4 σm [0] [(.mk (.Var c!"this") (5, 5), SVal.plain (.obj 3))] getBody).mapErr
        (Err.funcCall none (5, 5))).bind finishCall ∧
    BodyThis σm frGet [] (some (.obj 3)) (5, 5) (.obj 3) :=
  method_call_this_index (n := 3) (σ1 := σm) (σ2 := σm) (σ3 := σm) (argVals := []) (ov := SVal.plain (.obj 3)) (a := 3)
    (fa := 2) (name := c!"get")
    (m := [(c!"get", ⟨.func 2, some (.obj 1)⟩), (c!"n", SVal.plain (.int 2))]) (s := some (.obj 1)) (fr := frGet)
    (5, 1) (5, 5) (by with_unfolding_all rfl) (by with_unfolding_all rfl) rfl (by with_unfolding_all rfl) (by rfl)
    (by decide) (by rfl) (by decide)

/-- the body really gets there: the parameter scope is cell 6, and `this` reads as object 3 -/
example : declareAll 2 (σm.alloc (.scope [])).2 [6, 0] (callBindings frGet [] (some (.obj 3)) (5, 5)) =
    .ok () ((σm.alloc (.scope [])).2.set 6 (.scope [(c!"this", SVal.plain (.obj 3), (5, 5))])) := by
  with_unfolding_all rfl


/-- `h := a.get; h();` — `this` is `a` (object 1), the object read from, at the call two statements later -/
example :
    evalStmts 8 σm [0]
        [.Declare (.mk (.Var c!"h") (6, 0)) (.mk (.Prop eA c!"get" false) (6, 6)),
         .Expr (.mk (.Call (.mk (.Var c!"h") (7, 0)) []) (7, 1))] =
      ((((evalBlock 3 (σm.set 0 (.scope ((c!"h", ⟨.func 2, some (.obj 1)⟩, (6, 0)) :: ms0))) [0]
            [(.mk (.Var c!"this") (7, 1), SVal.plain (.obj 1))] getBody).mapErr
          (Err.funcCall none (7, 1))).bind finishCall).bind fun _ σ5 => evalStmts 6 σ5 [0] []) ∧
    BodyThis (σm.set 0 (.scope ((c!"h", ⟨.func 2, some (.obj 1)⟩, (6, 0)) :: ms0))) frGet [] (some (.obj 1)) (7, 1)
      (.obj 1) :=
  stored_method_keeps_this_var (n := 2) (σ1 := σm) (ov := SVal.plain (.obj 1)) (a := 1) (fa := 2) (ms := ms0)
    (m := [(c!"get", ⟨.func 2, none⟩), (c!"n", SVal.plain (.int 1))]) (s := none) (fr := frGet) (argVals := [])
    (σ3 := σm.set 0 (.scope ((c!"h", ⟨.func 2, some (.obj 1)⟩, (6, 0)) :: ms0)))
    (6, 0) (6, 6) (7, 0) (7, 1) [] (by with_unfolding_all rfl) rfl (by rfl) (by decide) (by decide) (by rfl) (by decide)
    (by with_unfolding_all rfl) (by rfl) (by rfl) (by decide)

/-- `ap(b.get)` with `fn ap(f) { return f(); }` — inside `ap`, `f()` runs with `this = b` (object 3) -/
example :
    evalCall 8 σm [0] (.mk (.Var c!"ap") (8, 0)) [.mk (.mk (.Prop eB c!"get" false) (8, 4)) false] (8, 2) =
      (((evalBlock 2 (apEntry σm c!"f" (4, 6) ⟨.func 2, some (.obj 3)⟩) [0]
            [(.mk (.Var c!"this") (4, 19), SVal.plain (.obj 3))] getBody).mapErr
          (Err.funcCall none (4, 19))).bind finishCall).mapErr (Err.funcCall (some c!"ap") (8, 2)) ∧
    BodyThis (apEntry σm c!"f" (4, 6) ⟨.func 2, some (.obj 3)⟩) frGet [] (some (.obj 3)) (4, 19) (.obj 3) :=
  stored_method_keeps_this_arg (n := 2) (σ1 := σm) (σ2 := σm) (ov := SVal.plain (.obj 3)) (a := 3) (fa := 2) (pa := 5)
    (m := [(c!"get", ⟨.func 2, some (.obj 1)⟩), (c!"n", SVal.plain (.int 2))]) (s := some (.obj 1)) (fr := frGet)
    (clo := [0]) (apName := some c!"ap")
    (4, 6) (4, 11) (4, 18) (4, 19) (8, 4) (8, 2) (by with_unfolding_all rfl) rfl (by rfl) (by decide)
    (by with_unfolding_all rfl) (by rfl) (by decide) (by rfl) (by decide)

/-- `xs := [b.get]; xs[0]();` — the list element carries the source `b` -/
example :
    evalStmts 10 σm [0]
        [.Declare (.mk (.Var c!"xs") (9, 0))
           (.mk (.List [.mk (.mk (.Prop eB c!"get" false) (9, 8)) false] false) (9, 6)),
         .Expr (.mk (.Call (.mk (.Index (.mk (.Var c!"xs") (10, 0)) (.mk (.Int 0) (10, 3))) (10, 2)) []) (10, 5))] =
      ((((evalBlock 5 (listDeclared σm 0 c!"xs" (9, 0) ms0 ⟨.func 2, some (.obj 3)⟩) [0]
            [(.mk (.Var c!"this") (10, 5), SVal.plain (.obj 3))] getBody).mapErr
          (Err.funcCall none (10, 5))).bind finishCall).bind fun _ σ5 => evalStmts 8 σ5 [0] []) ∧
    BodyThis (listDeclared σm 0 c!"xs" (9, 0) ms0 ⟨.func 2, some (.obj 3)⟩) frGet [] (some (.obj 3)) (10, 5) (.obj 3) :=
  stored_method_keeps_this_list (n := 4) (σ1 := σm) (ov := SVal.plain (.obj 3)) (a := 3) (fa := 2) (ms := ms0)
    (m := [(c!"get", ⟨.func 2, some (.obj 1)⟩), (c!"n", SVal.plain (.int 2))]) (s := some (.obj 1)) (fr := frGet)
    (argVals := []) (sx := none) (i := 0) (items := [⟨.func 2, some (.obj 3)⟩])
    (σ3 := listDeclared σm 0 c!"xs" (9, 0) ms0 ⟨.func 2, some (.obj 3)⟩)
    (σ4 := listDeclared σm 0 c!"xs" (9, 0) ms0 ⟨.func 2, some (.obj 3)⟩)
    (9, 0) (9, 6) (9, 8) (10, 0) (10, 2) (10, 5) [] (by with_unfolding_all rfl) rfl (by rfl) (by decide) (by decide)
    (by rfl) (by decide) (by with_unfolding_all rfl) (by rfl) (by with_unfolding_all rfl) (by rfl) (by rfl) (by rfl)
    (by decide)

/-- `g()` with `fn g() { return this; }` bound by a `fn` statement: no `this` is declared, the closure chain (the
    global scope) has none, so the body's `this` is undefined -/
example :
    evalCall 3 σm [0] (.mk (.Var c!"g") (11, 0)) [] (11, 1) =
      ((evalBlock 2 σm [0] [] frG.stmts).mapErr (Err.funcCall (some c!"g") (11, 1))).bind finishCall ∧
    ∃ σb, evalBlock 3 σm [0] [] frG.stmts = evalStmts 2 σb [6, 0] frG.stmts ∧
      scopeGet σb [6, 0] c!"this" = none ∧
      evalExpr 1 σb [6, 0] (.mk (.Var c!"this") (3, 16)) = errAt (3, 16) (Leaf.Undefined c!"this") σb := by
  have h := plain_function_has_no_this (n := 2) (σ := σm) (σ1 := σm) (σ2 := σm) (sc := [0])
    (f := .mk (.Var c!"g") (11, 0)) (args := []) (argVals := []) (fa := 4) (fr := frG) (11, 1)
    (by with_unfolding_all rfl) (by with_unfolding_all rfl) (by rfl) (by decide)
  refine ⟨h.1, ?_⟩
  obtain ⟨σb, h1, h2, h3, _⟩ := plain_function_plain_params (σ2 := σm) (argVals := []) (fr := frG) (by decide) [] rfl
    trivial (fun _ hp => nomatch hp) (fun b hb => by simp [frG] at hb; subst hb; decide) 2 (by decide)
  exact ⟨σb, h1, h2.trans (by rfl), h3 (by rfl) 0 (3, 16)⟩

example : ∃ σ', evalCall 8 σm [0] (.mk (.Var c!"g") (11, 0)) [] (11, 1) =
    .err (.funcCall (some c!"g") (11, 1) (Err.at (3, 16) (Leaf.Undefined c!"this"))) σ' :=
  ⟨_, by with_unfolding_all rfl⟩


/-- the parameter pattern `[x, y]` -/
def patXY : Expr := .mk (.List [.mk (.mk (.Var c!"x") (1, 6)) false, .mk (.mk (.Var c!"y") (1, 9)) false] false) (1, 5)
/-- `σm` with one more cell: the list `[1, 2]` (address 6) -/
def σl : State := (σm.alloc (.list [SVal.plain (.int 1), SVal.plain (.int 2)])).2

/-- binding `[x, y]` to the list `[1, 2]` in the fresh cell 7 succeeds, and `this` still resolves through the closure -/
example : ∃ σb, declareAll 6 (σl.alloc (.scope [])).2 [7, 0] ([patXY].zip [SVal.plain (.list 6)]) = .ok () σb ∧
    scopeGet σb [7, 0] c!"this" = scopeGet σb [0] c!"this" ∧ scopeGet σb [7, 0] c!"y" = some (SVal.plain (.int 2)) := by
  have hd : declareAll 6 (σl.alloc (.scope [])).2 [7, 0] ([patXY].zip [SVal.plain (.list 6)]) =
      .ok () ((σl.alloc (.scope [])).2.set 7 (.scope [(c!"y", SVal.plain (.int 2), (1, 9)), (c!"x", SVal.plain (.int 1), (1, 6))])) := by
    with_unfolding_all rfl
  refine ⟨_, hd, ?_, by rfl⟩
  exact (body_without_this (σ3 := σl) (closure := [0]) (params := [patXY]) (pv := [SVal.plain (.list 6)])
    (by intro p hp; simp at hp; subst hp; decide +kernel) hd).1

/-- `h := a.get; h = b.get; h();` — the call binds `this` to `b` (object 3): the source `a` stored by the declaration
    is neither kept nor merely dropped -/
example :
    evalStmts 9 σm [0]
        [.Declare (.mk (.Var c!"h") (6, 0)) (.mk (.Prop eA c!"get" false) (6, 6)),
         .Assign (.mk (.Var c!"h") (7, 0)) (.mk (.Prop eB c!"get" false) (7, 5)),
         .Expr (.mk (.Call (.mk (.Var c!"h") (8, 0)) []) (8, 1))] =
      ((((evalBlock 3 (σm.set 0 (.scope ((c!"h", ⟨.func 2, some (.obj 3)⟩, (6, 0)) :: ms0))) [0]
            [(.mk (.Var c!"this") (8, 1), SVal.plain (.obj 3))] getBody).mapErr
          (Err.funcCall none (8, 1))).bind finishCall).bind fun _ σ6 => evalStmts 6 σ6 [0] []) ∧
    BodyThis (σm.set 0 (.scope ((c!"h", ⟨.func 2, some (.obj 3)⟩, (6, 0)) :: ms0))) frGet [] (some (.obj 3)) (8, 1)
      (.obj 3) := by
  have h := assign_after_declare_replaces_provenance (n := 2) (σ := σm) (σ1 := σm) (A0 := 0) (sc' := [])
    (o1 := eA) (o2 := eB) (k1 := c!"get") (k2 := c!"get") (h := c!"h") (args := [])
    (ov1 := SVal.plain (.obj 1)) (ov2 := SVal.plain (.obj 3)) (a1 := 1) (a2 := 3) (f1 := 2) (fa := 2) (ms := ms0)
    (m1 := [(c!"get", ⟨.func 2, none⟩), (c!"n", SVal.plain (.int 1))]) (s1 := none)
    (m2 := [(c!"get", ⟨.func 2, some (.obj 1)⟩), (c!"n", SVal.plain (.int 2))]) (s2 := some (.obj 1))
    (fr := frGet) (argVals := [])
    (σ3 := σm.set 0 (.scope ((c!"h", ⟨.func 2, some (.obj 1)⟩, (6, 0)) :: ms0)))
    (σ4 := (σm.set 0 (.scope ((c!"h", ⟨.func 2, some (.obj 1)⟩, (6, 0)) :: ms0))).set 0
      (.scope ((c!"h", ⟨.func 2, some (.obj 3)⟩, (6, 0)) :: ms0)))
    (σ5 := (σm.set 0 (.scope ((c!"h", ⟨.func 2, some (.obj 1)⟩, (6, 0)) :: ms0))).set 0
      (.scope ((c!"h", ⟨.func 2, some (.obj 3)⟩, (6, 0)) :: ms0)))
    (6, 0) (6, 6) (7, 0) (7, 5) (8, 0) (8, 1) [] (by with_unfolding_all rfl) rfl (by rfl) (by decide) (by decide)
    (by rfl) (by decide) (by with_unfolding_all rfl) rfl (by rfl) (by decide) (by with_unfolding_all rfl)
    (by with_unfolding_all rfl) (by rfl) (by rfl) (by decide)
  exact h

/-! ### the same through the whole pipeline (`run`: lex, parse, evaluate) -/

def progObjs : List Char :=
  c!"a := {\"n\": 1, \"get\": fn() { return this.n; }};\nb := {\"n\": 2, \"get\": a.get};\n"

/-- (1) a borrowed method sees the object it is called on, through `.` and through `[…]` -/
example : (run 100 c!"t.sd" (progObjs ++ c!"print(b.get());\nprint(b[\"get\"]());\nprint(a.get());\n")).out =
    [c!"2", c!"2", c!"1"] := by decide +kernel

/-- (2) a method value keeps the object it was read from — also when the variable it was read through is
    reassigned afterwards — through a variable, a list element and an argument -/
example : (run 100 c!"t.sd" (progObjs ++
    c!"o := a;\nh := o.get;\no = b;\nprint(h());\nxs := [b.get];\nprint(xs[0]());\nfn ap(f) { return f(); }\nprint(ap(b.get));\n")).out =
    [c!"1", c!"2", c!"2"] := by decide +kernel

/-- (3) a plain function has no `this` of its own: undefined at top level, the enclosing method's inside one -/
example : (run 100 c!"t.sd" c!"fn f() { return this; }\nprint(f());\n").stderr =
    c!"t.sd:1:17: in 'f': 'this' is not defined\nStacktrace:\n  t.sd:2:7: in '<root>'\n" := by decide +kernel

example : (run 100 c!"t.sd"
    c!"o := {\"n\": 5, \"m\": fn() { fn inner() { return this.n; }; return inner(); }};\nprint(o.m());\n").out =
    [c!"5"] := by decide +kernel

/-- (3) destructuring parameters make no difference — unless the pattern itself binds the name `this` -/
example : (run 100 c!"t.sd" c!"fn f([x, y]) { return this; }\nprint(f([1, 2]));\n").stderr =
    c!"t.sd:1:23: in 'f': 'this' is not defined\nStacktrace:\n  t.sd:2:7: in '<root>'\n" := by decide +kernel

example : (run 100 c!"t.sd"
    c!"o := {\"n\": 5, \"m\": fn() { fn inner([x, {y}]) { return this.n + x + y; }; return inner([1, {\"y\": 2}]); }};\nprint(o.m());\n").out =
    [c!"8"] := by decide +kernel

example : (run 100 c!"t.sd" c!"fn f([this]) { return this; }\nprint(f([7]));\n").out = [c!"7"] := by decide +kernel

/-- the pattern `[x, {y}]` binds `x` and `y`, not `this` -/
example : c!"this" ∉ patVars (.mk (.List [.mk (.mk (.Var c!"x") (1, 6)) false,
    .mk (.mk (.Object [.Single (.mk (.Var c!"y") (1, 10)) false false]) (1, 9)) false] false) (1, 5)) := by
  decide +kernel

/-- (4) assignment replaces the source together with the value -/
example : (run 100 c!"t.sd" (progObjs ++ c!"h := a.get;\nh = b.get;\nprint(h());\nh = a.get;\nprint(h());\n")).out =
    [c!"2", c!"1"] := by decide +kernel

/-! ### function values through a range assignment -/

/-- the items a list contributes as the right-hand side of `xs[a:b] = ys` are its stored items — each with the source it
    was stored with -/
theorem range_rhs_keeps_sources (σ : State) (b : Addr) : rangeRhs σ (.list b) = σ.getList b := rfl

/-- … and the range assignment stores them unchanged: position `lo + i` of the target holds item `i` of the right-hand
    side, value *and* source (a method read from an object and assigned through a range is later called with that object
    as `this`, like one stored by `xs[i] = o.f`) -/
theorem range_assign_keeps_item (xs ys : List SVal) (lo i : Nat) (h : lo + ys.length ≤ xs.length) (hi : i < ys.length) :
    (listSplice xs lo ys)[lo + i]? = ys[i]? := by
  rw [C11.listSplice_get xs ys lo (lo + i) h, if_neg (by omega), if_pos (by omega)]
  congr 1; omega

/-- (5) a method stored through a range assignment keeps its object -/
example : (run 100 c!"t.sd" (progObjs ++ c!"hs := [0, 0];
hs[0:2] = [b.get, a.get];
print(hs[0]());
print(hs[1]());
")).out =
    [c!"2", c!"1"] := by decide +kernel

end Seed.C14

/-! ### routes a function value can travel (third session; `Lemmas/C14Routes*.lean`)

A function value read from an object keeps that object as `this` on every route through a LIST: `xs[i]` returns the stored item
itself, value and source (`index_list_returns_stored_item`) — also when the list was itself read from an object
(`index_list_through_prop`: in `b.handlers[0]` the list carries `b`, the item does not inherit it), a spread hands the stored
items over unchanged in argument lists and list literals (`spread_keeps_item_src`, `call_spread_args`,
`spread_args_eq_index_args`: `f(x..)` and `f(x[0], …, x[n-1])` evaluate to the same argument values, sources included), a slice
is a fresh list of the stored items (`slice_keeps_item_src`), `for` pairs every index with the stored item and binds the loop
variable to it (`toPairs_list_keeps_items`, `for_item_keeps_src`).  End to end: `stored_method_keeps_this_for` /
`_spread` / `_handlers` (a method read as `a.who`, kept in a list, reached as the `for` item / through a spread argument /
as `b.handlers[0]`, runs with `this = a`), `plain_function_in_handlers_has_no_this`. -/
-- audit: Seed.C14R.index_list_returns_stored_item Seed.C14R.index_list_through_prop Seed.C14R.call_list_item Seed.C14R.call_handlers_item Seed.C14R.spread_keeps_item_src Seed.C14R.list_literal_spread Seed.C14R.call_spread_args Seed.C14R.spread_args_eq_index_args Seed.C14R.slice_keeps_item_src Seed.C14R.toPairs_list_keeps_items Seed.C14R.bindNext_pair Seed.C14R.for_item_keeps_src Seed.C14R.for_item_call
-- audit: Seed.C14R.queue_for_call Seed.C14R.stored_method_keeps_this_for Seed.C14R.queue_spread_call Seed.C14R.stored_method_keeps_this_spread Seed.C14R.queue_handlers_call Seed.C14R.stored_method_keeps_this_handlers Seed.C14R.plain_function_in_handlers_has_no_this
