/-
  C14.lean — calls bind arguments to fresh parameters; `this` follows the access path.

  * arguments: evaluated once each, left to right, before the callee expression; the count rule; errors carry
    both numbers;
  * parameters: declared in a scope cell allocated by the call (address = heap size, so it is no existing cell),
    pushed on the *closure* chain; assigning a parameter writes only that cell (the caller's variables and every
    other cell are unchanged) while writing into a passed container writes the shared cell;
  * provenance (`src`): `.k` / `["k"]` on an object return the stored value with `src := that object`, whatever
    source was stored; variable reads, list-index reads, declarations, arguments, list items, object-literal
    values and `return` carry the value (with its `src`) unchanged; operators and literals give `src = none`;
  * the call binds `this := src` in the parameter scope iff `src ≠ none`; otherwise `this` is whatever the closure
    chain has (an enclosing function's `this`) or undefined.

  The statements are about one step of the evaluator at a time (with the sub-evaluations as hypotheses), which is
  how the code is written; the whole-program reading (a function value moved along any route keeps its source)
  is their composition, exercised end to end by the `this_routes` stream.
-/
import SeedProofs.Lemmas.C13Call
import SeedProofs.Lemmas.C13Bind
import SeedProofs.Lemmas.C14Scope
namespace Seed.C14
open Seed Gen

/-! ## example state -/

/-- scope 0: `o ↦ object 1`, `xs ↦ list 3`, `g ↦ ⟨func 2, some (obj 1)⟩` (a function value read from `o` earlier);
    object 1 = `{"f": ⟨func 2, some (obj 9)⟩}` (stored with a stale source); func 2 = `fn (p) { }` closed over scope 0;
    list 3 = `[⟨func 2, some (obj 1)⟩]` -/
def fr2 : FuncRec := ⟨none, [.mk (.Var c!"p") (1, 8)], false, [], [0]⟩

def σex : State :=
  ⟨#[.scope [(c!"o", SVal.plain (.obj 1), (1, 0)), (c!"xs", SVal.plain (.list 3), (2, 0)),
             (c!"g", ⟨.func 2, some (.obj 1)⟩, (3, 0))],
     .obj [(c!"f", ⟨.func 2, some (.obj 9)⟩)],
     .func fr2,
     .list [⟨.func 2, some (.obj 1)⟩]], []⟩

def eO : Expr := .mk (.Var c!"o") (4, 0)

example : evalExpr 2 σex [0] eO = .ok ⟨.obj 1, none⟩ σex := by with_unfolding_all rfl
example : σex.getObj 1 = some [(c!"f", ⟨.func 2, some (.obj 9)⟩)] := by rfl

/-! ## arguments -/

/-- left to right, each once: the first argument is evaluated in the current state, the remaining ones in the
    state it leaves, and its value is appended before theirs -/
theorem args_left_to_right_once (n : Nat) (σ : State) (sc : List Addr) (e : Expr) (r : List ListItem) (acc : List SVal) :
    evalListItems (n + 1) σ sc (.mk e false :: r) acc =
      (evalExpr n σ sc e).bind fun v σ1 => evalListItems n σ1 sc r (acc ++ [v]) :=
  evalListItems_cons_plain n σ sc e r acc

/-- an argument that fails ends the call: later arguments and the callee are never evaluated -/
theorem args_error_stops {n : Nat} {σ σ1 : State} {sc : List Addr} {e f : Expr} {er : Err} (sp : Bool) (r : List ListItem)
    (loc : Loc) (h : evalExpr n σ sc e = .err er σ1) :
    evalListItems (n + 1) σ sc (.mk e sp :: r) [] = .err er σ1 ∧
    evalCall (n + 2) σ sc f (.mk e sp :: r) loc = .err er σ1 :=
  ⟨evalListItems_cons_err sp r [] h, evalCall_args_err (evalListItems_cons_err sp r [] h)⟩

example : ∃ er, evalExpr 1 σex [0] (.mk (.Var c!"nope") (5, 2)) = .err er σex := ⟨_, by with_unfolding_all rfl⟩

/-- arguments come before the callee expression: the callee is evaluated in the state the arguments leave -/
theorem args_before_callee {n : Nat} {σ σ1 : State} {sc : List Addr} {f : Expr} {args : List ListItem} {loc : Loc}
    {argVals : List SVal} {e : Err} {σ2 : State}
    (hargs : evalListItems n σ sc args [] = .ok argVals σ1) (hf : evalExpr n σ1 sc f = .err e σ2) :
    evalCall (n + 1) σ sc f args loc = .err e σ2 := by
  rw [evalCall, hargs]
  simp only [Res.bind, hf]

example : evalListItems 2 σex [0] [] [] = .ok [] σex ∧
    ∃ er, evalExpr 2 σex [0] (.mk (.Var c!"nope") (5, 2)) = .err er σex := ⟨by with_unfolding_all rfl, _, by with_unfolding_all rfl⟩

/-- the count rule, and the diagnostics carry both numbers -/
theorem arity_spec (numParams got : Nat) :
    (arityOk false numParams got = true ↔ got = numParams) ∧
    (arityOk true numParams got = true ↔ numParams - 1 ≤ got) ∧
    arityErr false numParams got = Leaf.ArgNumMismatch numParams got ∧
    arityErr true numParams got = Leaf.TooFewArgs (numParams - 1) got := by
  simp [arityOk, arityErr, eq_comm]

/-- the call, as one equation: count check at the call position (outside the call frame), then the body in a fresh
    scope on the closure chain -/
theorem call_spec {n : Nat} {σ σ1 σ2 : State} {sc : List Addr} {f : Expr} {args : List ListItem} {loc : Loc}
    {argVals : List SVal} {fv : SVal} {a : Addr} {fr : FuncRec}
    (hargs : evalListItems n σ sc args [] = .ok argVals σ1)
    (hf : evalExpr n σ1 sc f = .ok fv σ2) (hv : fv.v = .func a) (hfr : σ2.getFunc a = some fr) :
    evalCall (n + 1) σ sc f args loc =
      if arityOk fr.collect fr.args.length argVals.length then
        ((evalBlock n (callPlainVals σ2 fr argVals).2 fr.closure
            (callBindings fr (callPlainVals σ2 fr argVals).1 fv.src loc) fr.stmts).mapErr
          (Err.funcCall fr.name loc)).bind finishCall
      else errAt loc (arityErr fr.collect fr.args.length argVals.length) σ2 :=
  evalCall_func hargs hf hv hfr

example : evalListItems 3 σex [0] [.mk (.mk (.Int 7) (6, 2)) false] [] = .ok [SVal.plain (.int 7)] σex ∧
    evalExpr 3 σex [0] (.mk (.Var c!"g") (6, 0)) = .ok ⟨.func 2, some (.obj 1)⟩ σex ∧ σex.getFunc 2 = some fr2 :=
  ⟨by with_unfolding_all rfl, by with_unfolding_all rfl, by rfl⟩

/-! ## parameters are fresh variables of the call -/

/-- the parameters are declared in a scope cell the call allocates — its address is the heap size, so it is none of
    the cells that existed — pushed on the function's *closure* chain (not on the caller's chain) -/
theorem params_fresh (n : Nat) (σ : State) (closure : List Addr) (bindings : List (Expr × SVal)) (stmts : List Stmt) :
    evalBlock (n + 1) σ closure bindings stmts =
      ((declareAll n (σ.alloc (.scope [])).2 (σ.heap.size :: closure) bindings).bind fun _ σ2 =>
        evalStmts n σ2 (σ.heap.size :: closure) stmts) ∧
    (σ.alloc (.scope [])).2.getScope σ.heap.size = some [] ∧
    σ.heap[σ.heap.size]? = none ∧
    (∀ b, b < σ.heap.size → (σ.alloc (.scope [])).2.heap[b]? = σ.heap[b]?) := by
  refine ⟨?_, getScope_eq_some.mpr (σ.alloc_heap_new _), Array.getElem?_eq_none (Nat.le_refl _),
    fun b hb => σ.alloc_heap_old _ hb⟩
  rw [evalBlock]; rfl

/-- each parameter is declared with the argument value itself (provenance included) under its own name -/
theorem param_declared {σ : State} {a : Addr} {sc : List Addr} {name : List Char} {m : ScopeMap} (loc : Loc)
    (arg : SVal) (n : Nat)
    (h1 : name ≠ c!"_") (hs : σ.getScope a = some m) (hf : scopeLookup name m = none) :
    declareAll (n + 2) σ (a :: sc) [(.mk (.Var name) loc, arg)] =
      .ok () (σ.set a (.scope ((name, arg, loc) :: m))) := by
  rw [declareAll, bindNext_var, bindNextName_declare loc arg h1 (by simp) hs hf]
  simp only [Res.bind]
  rw [declareAll]

/-- assigning to a parameter writes the call's own scope cell and nothing else: every other cell of the heap — in
    particular every scope of the caller — is unchanged, so the caller's variables keep their values -/
theorem param_assign_frame {σ : State} {a : Addr} {m : ScopeMap} {name : List Char} {p : SVal × Loc} (closure : List Addr)
    (v : SVal) (hs : σ.getScope a = some m) (hl : scopeLookup name m = some p) :
    ∃ σ', scopeAssign σ (a :: closure) name v = some σ' ∧
      scopeGet σ' (a :: closure) name = some v ∧
      (∀ b, b ≠ a → σ'.heap[b]? = σ.heap[b]?) ∧
      (∀ callerChain k, a ∉ callerChain → scopeGet σ' callerChain k = scopeGet σ callerChain k) := by
  refine ⟨_, scopeAssign_head closure v hs hl, ?_, fun b hb => σ.heap_set_other _ hb,
    fun chain k hc => scopeGet_set_other _ hc k⟩
  exact scopeGet_head_hit closure (getScope_set_same (getScope_lt hs) _) (scopeLookup_setVal_same hl)

example : σex.getScope 0 = some [(c!"o", SVal.plain (.obj 1), (1, 0)), (c!"xs", SVal.plain (.list 3), (2, 0)),
    (c!"g", ⟨.func 2, some (.obj 1)⟩, (3, 0))] ∧
    scopeLookup c!"xs" [(c!"o", SVal.plain (.obj 1), (1, 0)), (c!"xs", SVal.plain (.list 3), (2, 0)),
      (c!"g", ⟨.func 2, some (.obj 1)⟩, (3, 0))] = some (SVal.plain (.list 3), (2, 0)) := ⟨by rfl, by decide⟩

/-- mutating a passed list or object writes the cell the argument denotes: the caller's variable still denotes that
    cell and therefore sees the new contents -/
theorem mutation_shared {σ : State} {b : Addr} {xs : List SVal} (ys : List SVal) (h : σ.getList b = some xs)
    (callerChain : List Addr) (x : List Char) :
    scopeGet (σ.set b (.list ys)) callerChain x = scopeGet σ callerChain x ∧
    (σ.set b (.list ys)).getList b = some ys :=
  ⟨scopeGet_set_list ys h callerChain x, getList_set_same (getList_lt h) ys⟩

theorem mutation_shared_obj {σ : State} {b : Addr} {m : ObjMap} (m' : ObjMap) (h : σ.getObj b = some m)
    (callerChain : List Addr) (x : List Char) :
    scopeGet (σ.set b (.obj m')) callerChain x = scopeGet σ callerChain x ∧
    (σ.set b (.obj m')).getObj b = some m' :=
  ⟨scopeGet_set_obj m' h callerChain x, getObj_set_same (getObj_lt h) m'⟩

example : σex.getList 3 = some [⟨.func 2, some (.obj 1)⟩] := by rfl

/-! ## provenance -/

/-- `e.k` on an object returns the stored value with `src :=` that object — whatever source was stored -/
theorem prop_read_sets_src {n : Nat} {σ σ1 : State} {sc : List Addr} {ex : Expr} {loc : Loc} {name : List Char}
    {s : Option Val} {a : Addr} {m : ObjMap} {v : SVal}
    (h : evalExpr n σ sc ex = .ok ⟨.obj a, s⟩ σ1) (hm : σ1.getObj a = some m) (hk : objGet name m = some v) :
    evalExpr (n + 1) σ sc (.mk (.Prop ex name false) loc) = .ok ⟨v.v, some (.obj a)⟩ σ1 := by
  rw [evalExpr, h]
  simp only [Res.bind, Bool.false_eq_true, if_false, hm, hk]

example : objGet c!"f" [(c!"f", (⟨.func 2, some (.obj 9)⟩ : SVal))] = some ⟨.func 2, some (.obj 9)⟩ := by decide

/-- the same through `e["k"]` -/
theorem index_read_sets_src {n : Nat} {σ σ1 : State} {sc : List Addr} {ex : Expr} {loc lk : Loc} {name : List Char}
    {s : Option Val} {a : Addr} {m : ObjMap} {v : SVal}
    (hname : utf8Decode (utf8Encode name) = .ok name)
    (h : evalExpr (n + 2) σ sc ex = .ok ⟨.obj a, s⟩ σ1) (hm : σ1.getObj a = some m) (hk : objGet name m = some v) :
    evalExpr (n + 3) σ sc (.mk (.Index ex (.mk (.Str name none) lk)) loc) = .ok ⟨v.v, some (.obj a)⟩ σ1 := by
  rw [evalExpr, h]
  simp only [Res.bind]
  rw [evalToStr, evalExpr]
  simp only [Res.bind, SVal.plain, hname, hm, hk]

/-- reading a variable returns the stored value, source included -/
theorem src_preserved_var {n : Nat} {σ : State} {sc : List Addr} {x : List Char} {v : SVal} (l : Loc)
    (h : scopeGet σ sc x = some v) : evalExpr (n + 1) σ sc (.mk (.Var x) l) = .ok v σ := by
  rw [evalExpr, h]

example : scopeGet σex [0] c!"g" = some ⟨.func 2, some (.obj 1)⟩ := by rfl

/-- reading a list element returns the stored value, source included (the list is *not* attached as source) -/
theorem src_preserved_list_index {n : Nat} {σ σ1 σ2 : State} {sc : List Addr} {ex ix : Expr} {loc : Loc}
    {s : Option Val} {a : Addr} {items : List SVal} {i : Nat} {v : SVal}
    (h : evalExpr n σ sc ex = .ok ⟨.list a, s⟩ σ1) (hi : evalToIndex n σ1 sc ix = .ok i σ2)
    (hl : σ2.getList a = some items) (hv : items[i]? = some v) :
    evalExpr (n + 1) σ sc (.mk (.Index ex ix) loc) = .ok v σ2 := by
  rw [evalExpr, h]
  simp only [Res.bind, hi, hl, hv]

example : evalExpr 3 σex [0] (.mk (.Var c!"xs") (7, 0)) = .ok ⟨.list 3, none⟩ σex ∧
    evalToIndex 3 σex [0] (.mk (.Int 0) (7, 3)) = .ok 0 σex ∧
    ([⟨.func 2, some (.obj 1)⟩] : List SVal)[0]? = some ⟨.func 2, some (.obj 1)⟩ :=
  ⟨by with_unfolding_all rfl, by with_unfolding_all rfl, rfl⟩

/-- declaration and assignment store the value they are given, source included -/
theorem src_preserved_declare {f : Nat} {σ : State} {a : Addr} {sc : List Addr} {names : List (List Char)} {name : List Char}
    {m : ScopeMap} (loc : Loc) (rhs : SVal)
    (h1 : name ≠ c!"_") (h2 : name ∉ names) (hs : σ.getScope a = some m) (hf : scopeLookup name m = none) :
    bindNextName f σ (a :: sc) names name loc rhs none true =
      .ok (name :: names) (σ.set a (.scope ((name, rhs, loc) :: m))) :=
  bindNextName_declare loc rhs h1 h2 hs hf

theorem src_preserved_assign {f : Nat} {σ : State} {a : Addr} {sc : List Addr} {names : List (List Char)} {name : List Char}
    {m : ScopeMap} {p : SVal × Loc} (loc : Loc) (rhs : SVal)
    (h1 : name ≠ c!"_") (h2 : name ∉ names) (hs : σ.getScope a = some m) (hl : scopeLookup name m = some p) :
    bindNextName f σ (a :: sc) names name loc rhs none false =
      .ok (name :: names) (σ.set a (.scope (scopeSetVal name rhs m))) ∧
    scopeLookup name (scopeSetVal name rhs m) = some (rhs, p.2) := by
  refine ⟨?_, scopeLookup_setVal_same hl⟩
  simp [bindNextName, h1, h2, scopeAssign_head sc rhs hs hl]

/-- argument values reach the parameters unchanged; list items and object-literal values are stored unchanged;
    `return` hands the value back unchanged -/
theorem src_preserved_moves (n : Nat) (σ : State) (sc : List Addr) (e : Expr) (r : List ListItem) (acc : List SVal)
    (fr : FuncRec) (argVals : List SVal) (hc : fr.collect = false) (loc l : Loc) (v : SVal) :
    (callPlainVals σ fr argVals).1 = argVals ∧
    callBindings fr argVals none loc = fr.args.zip argVals ∧
    evalListItems (n + 1) σ sc (.mk e false :: r) acc =
      ((evalExpr n σ sc e).bind fun v σ1 => evalListItems n σ1 sc r (acc ++ [v])) ∧
    evalStmt (n + 1) σ sc (.Return l e) = ((evalExpr n σ sc e).bind fun v σ1 => .ok (.ret v l) σ1) ∧
    finishCall (.ret v l) σ = .ok v σ := by
  refine ⟨by rw [callPlainVals_no_rest argVals hc], rfl, evalListItems_cons_plain n σ sc e r acc, ?_, rfl⟩
  rw [evalStmt]

/-- the result of an operator never has a source … -/
theorem binop_src_none {n : Nat} {σ σ' : State} {sc : List Addr} {op : BinaryOp} {opLoc loc : Loc} {lhs rhs : Expr} {r : SVal}
    (h : evalExpr (n + 1) σ sc (.mk (.BinaryOp op opLoc lhs rhs) loc) = .ok r σ') : r.src = none := by
  rw [evalExpr] at h
  cases h1 : evalExpr n σ sc lhs with
  | ok l σ1 =>
    rw [h1] at h
    simp only [Res.bind] at h
    cases h2 : evalExpr n σ1 sc rhs with
    | ok r2 σ2 =>
      rw [h2] at h
      simp only at h
      cases h3 : applyBinOp n σ2 op opLoc l.v r2.v with
      | ok v σ3 => rw [h3] at h; simp only at h; cases h; rfl
      | err e σ3 => rw [h3] at h; cases h
      | crash w σ3 => rw [h3] at h; cases h
      | timeout => rw [h3] at h; cases h
    | err e σ2 => rw [h2] at h; cases h
    | crash w σ2 => rw [h2] at h; cases h
    | timeout => rw [h2] at h; cases h
  | err e σ1 => rw [h1] at h; cases h
  | crash w σ1 => rw [h1] at h; cases h
  | timeout => rw [h1] at h; cases h

example : evalExpr 2 σex [0] (.mk (.BinaryOp .Sum (8, 2) (.mk (.Int 1) (8, 0)) (.mk (.Int 2) (8, 4))) (8, 0)) =
    .ok (SVal.plain (.int 3)) σex := by with_unfolding_all rfl

/-- … nor has a literal, a fresh list, object or function -/
theorem literal_src_none (n : Nat) (σ : State) (sc : List Addr) (loc : Loc) (b : Bool) (i : Int) (s : List Char)
    (args : List Expr) (c : Bool) (stmts : List Stmt) :
    evalExpr (n + 1) σ sc (.mk .Null loc) = .ok ⟨.null, none⟩ σ ∧
    evalExpr (n + 1) σ sc (.mk (.Bool b) loc) = .ok ⟨.bool b, none⟩ σ ∧
    evalExpr (n + 1) σ sc (.mk (.Int i) loc) = .ok ⟨.int i, none⟩ σ ∧
    evalExpr (n + 1) σ sc (.mk (.Str s none) loc) = .ok ⟨.str (utf8Encode s), none⟩ σ ∧
    evalExpr (n + 1) σ sc (.mk (.Func args c stmts) loc) =
      .ok ⟨.func σ.heap.size, none⟩ (σ.alloc (.func ⟨none, args, c, stmts, sc⟩)).2 := by
  refine ⟨?_, ?_, ?_, ?_, ?_⟩ <;> rw [evalExpr] <;> rfl

/-! ## `this` -/

/-- the call binds `this := src` (after the parameters, in the same fresh scope) iff the callee value has a source -/
theorem this_bound (fr : FuncRec) (plainVals : List SVal) (loc : Loc) (t : Val) :
    callBindings fr plainVals (some t) loc = fr.args.zip plainVals ++ [(Expr.mk (.Var c!"this") loc, SVal.plain t)] ∧
    callBindings fr plainVals none loc = fr.args.zip plainVals :=
  ⟨rfl, rfl⟩

/-- without a source nothing named `this` is declared by the call: inside the body `this` is whatever the closure
    chain has — an enclosing function's `this` — or is undefined -/
theorem this_absent {σ : State} {a : Addr} {m : ScopeMap} (closure : List Addr) (n : Nat) (loc : Loc)
    (hs : σ.getScope a = some m) (hl : scopeLookup c!"this" m = none) :
    scopeGet σ (a :: closure) c!"this" = scopeGet σ closure c!"this" ∧
    (scopeGet σ closure c!"this" = none →
      evalExpr (n + 1) σ (a :: closure) (.mk (.Var c!"this") loc) = errAt loc (Leaf.Undefined c!"this") σ) := by
  refine ⟨scopeGet_head_miss closure hs hl, fun h => ?_⟩
  rw [evalExpr, scopeGet_head_miss closure hs hl, h]

example : scopeLookup c!"this" [(c!"o", SVal.plain (.obj 1), (1, 0))] = none := by decide

/-- with a source, `this` is that object, in the innermost scope, shadowing any `this` of the closure chain -/
theorem this_is_source {σ : State} {a : Addr} {m : ScopeMap} {t : Val} {l : Loc} (closure : List Addr) (n : Nat) (loc : Loc)
    (hs : σ.getScope a = some m) (hl : scopeLookup c!"this" m = some (SVal.plain t, l)) :
    evalExpr (n + 1) σ (a :: closure) (.mk (.Var c!"this") loc) = .ok (SVal.plain t) σ := by
  rw [evalExpr, scopeGet_head_hit closure hs hl]

example : scopeLookup c!"this" [(c!"this", SVal.plain (.obj 1), (1, 0))] = some (SVal.plain (.obj 1), (1, 0)) := by decide

end Seed.C14
