/-
  C12.lean — objects behave as string-keyed maps with a deterministic (ascending) key order.

  The object map of the model is an association list kept strictly sorted by `keyLt` (the order of
  Rust's `BTreeMap<String, _>`).  Part 1 proves that such lists are finite maps whose representation
  does not depend on the insertion order; part 2 connects the laws to the evaluator: literals,
  the `.k` / `["k"]` paths for read, assign and op-assign, missing properties, iteration order.
-/
import SeedProofs.Lemmas.C12Map
import SeedProofs.Lemmas.C12Heap
import SeedProofs.Lemmas.C12Lit
import SeedProofs.Lemmas.NoCrash
import SeedProofs.C19
-- audit: Seed.WF.sorted Seed.Safe.state_wf Seed.Safe.state_sorted Seed.safeAll Seed.keepsWF Seed.evalProg_safe Seed.evalProg_state_wf Seed.evalProg_ok_sorted Seed.evalProg_err_wf Seed.evalProg_err_sorted Seed.evalProg_state_sorted
-- audit: Seed.evalExpr_keeps_sorted Seed.evalStmts_keeps_sorted Seed.evalStmt_keeps_sorted Seed.evalExpr_obj_sorted Seed.objInsert_sorted Seed.objInsert_foldl_sorted Seed.Sorted.filter Seed.set_obj_wf Seed.alloc_wf Seed.wf_init
namespace Seed.C12
open Seed Gen

/-! ## Part 1 — sorted association lists are finite maps -/

/-- `keyLt` is a strict total order on keys -/
theorem keyLt_strict_total :
    (∀ a, keyLt a a = false) ∧
    (∀ a b c, keyLt a b = true → keyLt b c = true → keyLt a c = true) ∧
    (∀ a b, keyLt a b = true ∨ a = b ∨ keyLt b a = true) :=
  ⟨keyLt_irrefl, fun _ _ _ => keyLt_trans, keyLt_trichotomy⟩

example : keyLt c!"A" c!"a" = true ∧ keyLt c!"a" c!"a b" = true ∧ keyLt c!"" c!"0" = true ∧ keyLt c!"b" c!"é" = true := by
  decide

theorem insert_sorted {m : ObjMap} (k : List Char) (v : SVal) (h : Sorted m) : Sorted (objInsert k v m) :=
  objInsert_sorted h

example : Sorted [(c!"A", SVal.plain .null), (c!"a", SVal.plain (.int 1))] := by
  unfold Sorted; decide

theorem lookup_insert (m : ObjMap) (k k' : List Char) (v : SVal) :
    objGet k' (objInsert k v m) = if k' = k then some v else objGet k' m :=
  objGet_objInsert k k' v m

/-- a new key is added exactly when it was absent -/
theorem insert_size {m : ObjMap} (k : List Char) (v : SVal) (h : Sorted m) :
    (objInsert k v m).length = m.length + (if (objGet k m).isSome then 0 else 1) :=
  objInsert_length k v h

theorem ext {m m' : ObjMap} (h : Sorted m) (h' : Sorted m') (e : ∀ k, objGet k m = objGet k m') : m = m' :=
  sorted_ext h h' e

/-- any two insertion orders of the same key/value pairs (distinct keys) give the *same list* -/
theorem order_independent {ps qs : List (List Char × SVal)} (p : ps.Perm qs) (hd : DistinctKeys ps)
    {acc : ObjMap} (h : Sorted acc) : insertAll acc ps = insertAll acc qs :=
  insertAll_perm p hd h

example : insertAll [] [(c!"b", SVal.plain (.int 2)), (c!"", SVal.plain (.int 0)), (c!"a", SVal.plain (.int 1))]
    = [(c!"", SVal.plain (.int 0)), (c!"a", SVal.plain (.int 1)), (c!"b", SVal.plain (.int 2))] := by decide

example : DistinctKeys [(c!"b", SVal.plain (.int 2)), (c!"", SVal.plain (.int 0)), (c!"a", SVal.plain (.int 1))] := by
  unfold DistinctKeys; decide

/-- every sorted map is the result of inserting its pairs in any order -/
theorem built_by_inserts {m : ObjMap} (h : Sorted m) {ps : List (List Char × SVal)} (p : ps.Perm m) :
    insertAll [] ps = m := by
  rw [insertAll_perm p (h.distinct.perm p.symm) Sorted.nil]
  exact insertAll_self h

/-- a later entry for the same key replaces an earlier one -/
theorem later_entry_wins (k : List Char) (v1 v2 : SVal) {m : ObjMap} (h : Sorted m) :
    objInsert k v2 (objInsert k v1 m) = objInsert k v2 m :=
  objInsert_overwrite k v1 v2 h

/-- inlining `x..`: every property of `x` replaces or adds, all others stay -/
theorem spread_lookup (k : List Char) {x : ObjMap} (hx : Sorted x) (acc : ObjMap) :
    objGet k (insertAll acc x) = match objGet k x with | some v => some v | none => objGet k acc :=
  objGet_insertAll_sorted k hx acc

/-! ## Part 2 — the evaluator -/

/-- `for` over an object visits the stored list front to back, i.e. in ascending key order -/
theorem for_ascending {σ : State} {a : Addr} {m : ObjMap} (h : σ.getObj a = some m) :
    toPairs σ (.obj a) = some (some (m.map fun (k, x) => (SVal.plain (.str (utf8Encode k)), x))) := by
  simp only [toPairs, h]

/-- the keys `for` produces are strictly ascending when the cell is sorted -/
theorem for_keys_ascending {m : ObjMap} (h : Sorted m) : (m.map Prod.fst).Pairwise fun a b => keyLt a b = true :=
  List.pairwise_map.mpr h

/-- two objects built from the same pairs in different orders are the same cell contents, hence give the
    same `for` sequence (and the same `print` text and `==` verdict, which are functions of the list) -/
theorem order_unobservable {σ : State} {a b : Addr} {ps qs : List (List Char × SVal)}
    (ha : σ.getObj a = some (insertAll [] ps)) (hb : σ.getObj b = some (insertAll [] qs))
    (p : ps.Perm qs) (hd : DistinctKeys ps) :
    σ.getObj a = σ.getObj b ∧ toPairs σ (.obj a) = toPairs σ (.obj b) := by
  have e := insertAll_perm p hd Sorted.nil
  refine ⟨by rw [ha, hb, e], ?_⟩
  rw [for_ascending ha, for_ascending hb, e]

/-- a state used by the examples: scope 0 holds `o` (object 1 = `{"A": null, "a": 1}`), `x` and `k` -/
def σex : State :=
  ⟨#[.scope [(c!"o", SVal.plain (.obj 1), (1, 0)), (c!"x", SVal.plain (.int 7), (2, 0)),
             (c!"k", SVal.plain (.str (utf8Encode c!"a")), (3, 0))],
     .obj [(c!"A", SVal.plain .null), (c!"a", SVal.plain (.int 1))]], []⟩

def eO : Expr := .mk (.Var c!"o") (4, 0)

example : evalExpr 1 σex [0] eO = .ok (SVal.plain (.obj 1)) σex := by with_unfolding_all rfl
example : σex.getObj 1 = some [(c!"A", SVal.plain .null), (c!"a", SVal.plain (.int 1))] := by rfl

/-! ### literals -/

/-- a `name: value` entry: the name, then the value, then the insert into what was built so far -/
theorem literal_pair_step (n : Nat) (σ : State) (sc : List Addr) (l : Loc) (nameE value : Expr) (r : List PropItem)
    (acc : ObjMap) :
    evalProps (n + 1) σ sc l (.Pair nameE value :: r) acc =
      (evalToStr n σ sc c!"property name" nameE).bind fun name σ1 =>
      (evalExpr n σ1 sc value).bind fun v σ2 =>
      evalProps n σ2 sc l r (objInsert name v acc) := by
  rw [evalProps]

/-- computed names must be strings -/
theorem literal_name_must_be_string {n : Nat} {σ σ1 : State} {sc : List Addr} {l : Loc} {nameE value : Expr}
    {r : List PropItem} {acc : ObjMap} {v : SVal}
    (h : evalExpr n σ sc nameE = .ok v σ1) (hv : ∀ bs, v.v ≠ .str bs) :
    evalProps (n + 2) σ sc l (.Pair nameE value :: r) acc =
      errAt nameE.loc (Leaf.IncorrectType c!"property name" c!"string" v.v.kind) σ1 := by
  rw [evalProps, evalToStr, h]
  simp only [Res.bind]
  cases hvv : v.v with
  | str bs => exact absurd hvv (hv bs)
  | _ => rfl

example : evalExpr 1 σex [0] (.mk (.Var c!"x") (5, 1)) = .ok (SVal.plain (.int 7)) σex ∧
    ∀ bs, (SVal.plain (.int 7)).v ≠ .str bs := ⟨by with_unfolding_all rfl, fun _ h => by cases h⟩


/-- a whole literal `{n₁: v₁, …}` whose names and values evaluate without side effects: the entries are folded left
    to right with later-wins insertion into the empty map, and the result is a fresh object -/
theorem literal_spec {k : Nat} {σ : State} {sc : List Addr} {props : List PropItem} {pairs : List (List Char × SVal)}
    (h : PureProps k σ sc props pairs) (loc : Loc) (d : Nat) :
    evalExpr (k + props.length + 2 + d) σ sc (.mk (.Object props) loc) =
      .ok (SVal.plain (.obj σ.heap.size)) (σ.alloc (.obj (insertAll [] pairs))).2 := by
  have e1 : k + props.length + 2 + d = (k + props.length + 1 + d) + 1 := by omega
  rw [e1, evalExpr, evalProps_pure h]
  rfl

example : PureProps 3 σex [0]
    [.Pair (.mk (.Str c!"b" none) (1, 1)) (.mk (.Int 2) (1, 6)), .Pair (.mk (.Var c!"k") (1, 9)) (.mk (.Var c!"x") (1, 12))]
    [(c!"b", SVal.plain (.int 2)), (c!"a", SVal.plain (.int 7))] := by
  refine ⟨?_, ?_, ?_, ?_, trivial⟩
  · intro m hm; obtain ⟨j, rfl⟩ : ∃ j, m = j + 3 := ⟨m - 3, by omega⟩
    rw [evalToStr, evalExpr]; rfl
  · intro m hm; obtain ⟨j, rfl⟩ : ∃ j, m = j + 3 := ⟨m - 3, by omega⟩
    rw [evalExpr]
  · intro m hm; obtain ⟨j, rfl⟩ : ∃ j, m = j + 3 := ⟨m - 3, by omega⟩
    rw [evalToStr, evalExpr]; rfl
  · intro m hm; obtain ⟨j, rfl⟩ : ∃ j, m = j + 3 := ⟨m - 3, by omega⟩
    rw [evalExpr]; rfl

/-- writing the same entries (distinct keys) in another order gives an object with the same contents -/
theorem literal_order_independent {k : Nat} {σ : State} {sc : List Addr} {props props' : List PropItem}
    {pairs pairs' : List (List Char × SVal)}
    (h : PureProps k σ sc props pairs) (h' : PureProps k σ sc props' pairs')
    (p : pairs.Perm pairs') (hd : DistinctKeys pairs) (loc loc' : Loc) (d : Nat) :
    evalExpr (k + props.length + 2 + d) σ sc (.mk (.Object props) loc) =
    evalExpr (k + props'.length + 2 + d) σ sc (.mk (.Object props') loc') := by
  rw [literal_spec h, literal_spec h', insertAll_perm p hd Sorted.nil]

/-- names made of ASCII characters — every identifier, so every `.k` and every shorthand `{k}` — satisfy the
    round-trip hypothesis of the theorems above and below -/
theorem ascii_name_roundtrip {name : List Char} (h : IsAscii name) : utf8Decode (utf8Encode name) = .ok name :=
  utf8_roundtrip_ascii h

example : IsAscii c!"a_B9" := by intro c hc; simp at hc; rcases hc with h | h | h | h <;> subst h <;> decide

/-- `{a}` means `{"a": a}` -/
theorem literal_shorthand (n : Nat) (σ : State) (sc : List Addr) (l la lb : Loc) (a : List Char) (r : List PropItem)
    (acc : ObjMap) (hname : utf8Decode (utf8Encode a) = .ok a) :
    evalProps (n + 3) σ sc l (.Single (.mk (.Var a) la) false false :: r) acc =
    evalProps (n + 3) σ sc l (.Pair (.mk (.Str a none) lb) (.mk (.Var a) la) :: r) acc := by
  rw [evalProps, evalProps, evalToStr, evalExpr]
  simp only [Res.bind, SVal.plain, hname, Expr.raw, Expr.loc]
  rw [evalExpr]
  cases scopeGet σ sc a <;> rfl

example : utf8Decode (utf8Encode c!"a") = .ok c!"a" := by rfl

/-- `x..` inlines the properties of object `x` into what was built so far (later wins, see `spread_lookup`) -/
theorem literal_spread_step {n : Nat} {σ σ1 : State} {sc : List Addr} {l : Loc} {e : Expr} {r : List PropItem}
    {acc : ObjMap} {v : SVal} {a : Addr} {m : ObjMap}
    (h : evalExpr n σ sc e = .ok v σ1) (hv : v.v = .obj a) (hm : σ1.getObj a = some m) :
    evalProps (n + 1) σ sc l (.Single e true false :: r) acc = evalProps n σ1 sc l r (insertAll acc m) := by
  rw [evalProps]
  simp only [Bool.false_eq_true, if_false, if_true, h, Res.bind, hv, hm, insertAll]

example : evalExpr 1 σex [0] eO = .ok (SVal.plain (.obj 1)) σex ∧ (SVal.plain (.obj 1)).v = .obj 1 ∧
    σex.getObj 1 = some [(c!"A", SVal.plain .null), (c!"a", SVal.plain (.int 1))] := ⟨by with_unfolding_all rfl, rfl, by rfl⟩

/-- entries are evaluated in source order: an error in an earlier entry means later ones are never evaluated -/
theorem literal_source_order {n : Nat} {σ σ1 : State} {sc : List Addr} {l : Loc} {nameE value : Expr}
    {r : List PropItem} {acc : ObjMap} {e : Err}
    (h : evalToStr n σ sc c!"property name" nameE = .err e σ1) :
    evalProps (n + 1) σ sc l (.Pair nameE value :: r) acc = .err e σ1 := by
  rw [evalProps, h]; rfl

/-! ### reading: `.k` and `["k"]` -/

/-- reading `e.k` on an object -/
theorem read_prop {n : Nat} {σ σ1 : State} {sc : List Addr} {ex : Expr} {loc : Loc} {name : List Char} {s : Option Val}
    {a : Addr} {m : ObjMap}
    (h : evalExpr n σ sc ex = .ok ⟨.obj a, s⟩ σ1) (hm : σ1.getObj a = some m) :
    evalExpr (n + 1) σ sc (.mk (.Prop ex name false) loc) =
      match objGet name m with
      | some v => .ok ⟨v.v, some (.obj a)⟩ σ1
      | none => errAt loc (Leaf.PropNotFound name) σ1 := by
  rw [evalExpr, h]
  simp only [Res.bind, Bool.false_eq_true, if_false, hm]
  rfl

/-- `e.k` and `e["k"]` read the same property: same value, same state, same error -/
theorem prop_eq_index_read {n : Nat} {σ σ1 : State} {sc : List Addr} {ex : Expr} {loc lk : Loc} {name : List Char}
    {s : Option Val} {a : Addr}
    (hname : utf8Decode (utf8Encode name) = .ok name)
    (h : evalExpr (n + 2) σ sc ex = .ok ⟨.obj a, s⟩ σ1) :
    evalExpr (n + 3) σ sc (.mk (.Index ex (.mk (.Str name none) lk)) loc) =
    evalExpr (n + 3) σ sc (.mk (.Prop ex name false) loc) := by
  rw [evalExpr, evalExpr, h]
  simp only [Res.bind, Bool.false_eq_true, if_false]
  rw [evalToStr, evalExpr]
  simp only [Res.bind, SVal.plain, hname]

example : evalExpr 2 σex [0] eO = .ok ⟨.obj 1, none⟩ σex := by with_unfolding_all rfl

/-- reading a missing property is a reported (located) error, on both paths -/
theorem read_missing {n : Nat} {σ σ1 : State} {sc : List Addr} {ex : Expr} {loc : Loc} {name : List Char} {s : Option Val}
    {a : Addr} {m : ObjMap}
    (h : evalExpr n σ sc ex = .ok ⟨.obj a, s⟩ σ1) (hm : σ1.getObj a = some m) (hk : objGet name m = none) :
    evalExpr (n + 1) σ sc (.mk (.Prop ex name false) loc) = errAt loc (Leaf.PropNotFound name) σ1 := by
  rw [read_prop h hm, hk]

example : objGet c!"b" [(c!"A", SVal.plain .null), (c!"a", SVal.plain (.int 1))] = none := by decide

/-! ### writing: `o[k] = v`, `o.k = v`, `o.k op= v` -/

/-- plain assignment to a property: update-or-insert of that key, whatever path was used -/
theorem assign_prop {σ : State} {a : Addr} {props : ObjMap} (n : Nat) (name : List Char) (loc : Loc) (rhs : SVal)
    (names : List (List Char)) (via : Bool) (hm : σ.getObj a = some props) :
    bindProp (n + 1) σ a name loc rhs none names via = .ok names (σ.set a (.obj (objInsert name rhs props))) := by
  rw [bindProp, hm]
  simp only
  cases hk : objGet name props with
  | none => rfl
  | some cur => simp only [opAssignValue, Res.bind, hm]

/-- after `o[k] = v`: `o[k]` is `v`, every other property is unchanged, the object stays sorted, its size grows
    by one exactly when `k` was absent, and no other cell of the heap changes -/
theorem assign_then_read {σ : State} {a : Addr} {props : ObjMap} (name : List Char) (rhs : SVal)
    (hm : σ.getObj a = some props) (hs : Sorted props) :
    let σ' := σ.set a (.obj (objInsert name rhs props))
    ∃ props', σ'.getObj a = some props' ∧ Sorted props' ∧
      objGet name props' = some rhs ∧
      (∀ k, k ≠ name → objGet k props' = objGet k props) ∧
      props'.length = props.length + (if (objGet name props).isSome then 0 else 1) ∧
      (∀ b, b ≠ a → σ'.heap[b]? = σ.heap[b]?) := by
  refine ⟨_, getObj_set_same (getObj_lt hm) _, objInsert_sorted hs, objGet_objInsert_same _ _ _,
    fun k hk => objGet_objInsert_other hk _ _, objInsert_length _ _ hs, fun b hb => σ.heap_set_other _ hb⟩

/-- the `.k` and `["k"]` write paths do the same thing; they differ only in the wording of the error for an
    op-assign on a missing key -/
theorem prop_eq_index_write {σ : State} {a : Addr} {props : ObjMap} (fuel : Nat) (name : List Char) (loc : Loc)
    (rhs : SVal) (op : Option (BinaryOp × Loc)) (names : List (List Char))
    (hm : σ.getObj a = some props) (hok : op = none ∨ (objGet name props).isSome) :
    bindProp fuel σ a name loc rhs op names true = bindProp fuel σ a name loc rhs op names false := by
  cases fuel with
  | zero => rw [bindProp, bindProp]
  | succ n =>
    rw [bindProp, bindProp, hm]
    simp only
    cases hk : objGet name props with
    | some cur => rfl
    | none =>
      rcases hok with h | h
      · subst h; rfl
      · rw [hk] at h; cases h

/-- the two assignment forms reach `bindProp` with the same object, key and value -/
theorem prop_eq_index_assign {n : Nat} {σ σ1 : State} {sc : List Addr} {ex : Expr} {loc lk : Loc} {name : List Char}
    {s : Option Val} {a : Addr} {props : ObjMap} (rhs : SVal) (op : Option (BinaryOp × Loc)) (names : List (List Char))
    (decl : Bool)
    (hname : utf8Decode (utf8Encode name) = .ok name)
    (h : evalExpr (n + 2) σ sc ex = .ok ⟨.obj a, s⟩ σ1)
    (hm : σ1.getObj a = some props) (hok : op = none ∨ (objGet name props).isSome) :
    bindNext (n + 3) σ sc names (.mk (.Index ex (.mk (.Str name none) lk)) loc) rhs op decl =
    bindNext (n + 3) σ sc names (.mk (.Prop ex name false) loc) rhs op decl := by
  rw [bindNext, bindNext, h]
  simp only [Res.bind, Bool.false_eq_true, if_false]
  rw [evalToStr, evalExpr]
  simp only [Res.bind, SVal.plain, hname]
  exact prop_eq_index_write _ _ _ _ _ _ hm hok

/-- op-assign on a missing key is an error and inserts nothing (the state is returned unchanged) -/
theorem opassign_missing {σ : State} {a : Addr} {props : ObjMap} (n : Nat) (name : List Char) (loc : Loc) (rhs : SVal)
    (op : BinaryOp × Loc) (names : List (List Char)) (via : Bool)
    (hm : σ.getObj a = some props) (hk : objGet name props = none) :
    bindProp (n + 1) σ a name loc rhs (some op) names via =
      errAt loc (if via then Leaf.OpOnUndefinedIndex name else Leaf.OpOnUndefinedProp name) σ := by
  rw [bindProp, hm]
  simp only [hk]
  cases via <;> rfl

/-- op-assign on a present key stores `cur op rhs` under that key (when the operation succeeds without
    touching the object) -/
theorem opassign_present {σ : State} {a : Addr} {props : ObjMap} (n : Nat) (name : List Char) (loc : Loc) (rhs cur : SVal)
    (o : BinaryOp) (ol : Loc) (names : List (List Char)) (via : Bool) (v : Val)
    (hm : σ.getObj a = some props) (hk : objGet name props = some cur)
    (hop : applyBinOp n σ o ol cur.v rhs.v = .ok v σ) :
    bindProp (n + 1) σ a name loc rhs (some (o, ol)) names via =
      .ok names (σ.set a (.obj (objInsert name (SVal.plain v) props))) := by
  rw [bindProp, hm]
  simp only [hk, opAssignValue, hop, Res.map, Res.bind, hm]

example : applyBinOp 1 σex .Sum (9, 2) (Val.int 1) (Val.int 2) = .ok (.int 3) σex := by rfl

/-! ## Part 3 — the sortedness invariant holds in every reachable state

`Sorted` was a hypothesis of the theorems above.  It is an invariant of the evaluator: `WF σ` (Lemmas/WF.lean)
contains "every object cell of `σ` is `Sorted`", the initial state is `WF`, and every one of the 23 evaluator
functions, started in a `WF` state, ends in a `WF` state — whether it succeeds, reports an error or crashes with
`lock` (`Seed.safeAll`, `Seed.keepsWF`; object cells are written at four places: the literal, whose accumulator
only grows by `objInsert`; the two `objInsert`s of `bindProp`; the `filter` of the rest pattern `{…, ..r}`). -/

/-- **C12.** when a program ends normally, every object cell of its final heap is strictly sorted by key -/
theorem objects_always_sorted {n : Nat} {stmts : List Stmt} {σ : State} (h : evalProg n stmts = .ok () σ)
    {a : Addr} {m : ObjMap} (hm : σ.getObj a = some m) : Sorted m :=
  evalProg_ok_sorted n stmts σ h a m hm

/-- … and the same when it ends in a reported error … -/
theorem objects_always_sorted_err {n : Nat} {stmts : List Stmt} {e : Err} {σ : State} (h : evalProg n stmts = .err e σ)
    {a : Addr} {m : ObjMap} (hm : σ.getObj a = some m) : Sorted m :=
  evalProg_err_sorted n stmts e σ h a m hm

/-- … or in any outcome that carries a state at all (success, error, `lock` crash) -/
theorem objects_always_sorted_any {n : Nat} {stmts : List Stmt} {σ : State} (h : (evalProg n stmts).state? = some σ)
    {a : Addr} {m : ObjMap} (hm : σ.getObj a = some m) : Sorted m :=
  evalProg_state_sorted n stmts σ h a m hm

/-- **C12.** the invariant at every point of evaluation: each of the 23 evaluator functions, at every fuel, takes
    a well-formed state (all object cells sorted) to a well-formed state, whatever the outcome.  Since every state an
    evaluator function is called with is either `State.init` or the state carried by the result of an earlier call,
    all reachable states are well-formed. -/
theorem reachable_sorted (n : Nat) : KeepsWF n := keepsWF n

/-- `reachable_sorted` spelled out for expressions -/
theorem reachable_sorted_expr {n : Nat} {σ σ' : State} {sc : List Addr} {e : Expr} (hw : WF σ) (hs : ScOK σ sc)
    (h : (evalExpr n σ sc e).state? = some σ') : WF σ' ∧ ∀ a m, σ'.getObj a = some m → Sorted m :=
  evalExpr_keeps_sorted n σ sc e hw hs σ' h

/-- `reachable_sorted` spelled out for statement sequences -/
theorem reachable_sorted_stmts {n : Nat} {σ σ' : State} {sc : List Addr} {stmts : List Stmt} (hw : WF σ) (hs : ScOK σ sc)
    (h : (evalStmts n σ sc stmts).state? = some σ') : WF σ' ∧ ∀ a m, σ'.getObj a = some m → Sorted m :=
  evalStmts_keeps_sorted n σ sc stmts hw hs σ' h

/-- the example state is well-formed -/
theorem σex_wf : WF σex ∧ ScOK σex [0] := by
  refine ⟨?_, by simp, ?_⟩
  · intro a cell h
    match a with
    | 0 =>
      cases h
      intro e he
      simp only [List.mem_cons, List.not_mem_nil, or_false] at he
      rcases he with rfl | rfl | rfl
      · exact SValOK.plain (v := .obj 1) (by rfl)
      · exact SValOK.plain trivial
      · exact SValOK.plain trivial
    | 1 =>
      cases h
      refine ⟨?_, by unfold Sorted; decide⟩
      intro e he
      simp only [List.mem_cons, List.not_mem_nil, or_false] at he
      rcases he with rfl | rfl
      · exact SValOK.plain trivial
      · exact SValOK.plain trivial
    | k + 2 => simp [σex] at h
  · intro a ha
    simp only [List.mem_cons, List.not_mem_nil, or_false] at ha
    subst ha; rfl

example : (evalExpr 1 σex [0] eO).state? = some σex := by with_unfolding_all rfl

/-- a program used by the examples: a literal written out of order, the three write paths, a rest pattern and a
    spread -/
def srcSorted : List Char :=
  c!"o := {\"b\": 1, \"a\": 2};\no.A = 3;\no[\"b\"] += 1;\n{a, ..r} := o;\nq := {\"z\": 0, o.., \"A\": 9};\n"
def progSorted : List Stmt := match parseProg srcSorted with | .ok s => s | _ => []
def isOk {α : Type} : Res α → Bool | .ok _ _ => true | _ => false
def keysAt {α : Type} (r : Res α) (a : Addr) : Option (List (List Char)) :=
  (r.state?.bind (·.getObj a)).map (·.map Prod.fst)

example : progSorted.length = 5 := by decide +kernel
/-- the hypotheses of `objects_always_sorted` on a concrete run: `o`, `r` and `q` are the cells 1, 2, 3 -/
example : isOk (evalProg 30 progSorted) = true ∧
    keysAt (evalProg 30 progSorted) 1 = some [c!"A", c!"a", c!"b"] ∧
    keysAt (evalProg 30 progSorted) 2 = some [c!"A", c!"b"] ∧
    keysAt (evalProg 30 progSorted) 3 = some [c!"A", c!"a", c!"b", c!"z"] := by decide +kernel

example : ∃ σ m, evalProg 30 progSorted = .ok () σ ∧ σ.getObj 3 = some m ∧ m.map Prod.fst = [c!"A", c!"a", c!"b", c!"z"] := by
  have hk : keysAt (evalProg 30 progSorted) 3 = some [c!"A", c!"a", c!"b", c!"z"] := by decide +kernel
  have ho : isOk (evalProg 30 progSorted) = true := by decide +kernel
  unfold keysAt at hk
  cases h : evalProg 30 progSorted with
  | ok u σ =>
    rw [h] at hk
    cases hm : σ.getObj 3 with
    | none => simp [Res.state?, hm] at hk
    | some m => exact ⟨σ, m, rfl, hm, by simpa [Res.state?, hm] using hk⟩
  | err e σ => rw [h] at ho; cases ho
  | crash w σ => rw [h] at ho; cases ho
  | timeout => rw [h] at ho; cases ho

/-- an error outcome carrying a state with an object (hypotheses of `objects_always_sorted_err`) -/
def progSortedErr : List Stmt :=
  match parseProg c!"o := {\"b\": 1, \"a\": 2};\no.c += 1;\n" with | .ok s => s | _ => []
example : isOk (evalProg 30 progSortedErr) = false ∧ keysAt (evalProg 30 progSortedErr) 1 = some [c!"a", c!"b"] := by
  decide +kernel

/-! ### the theorems of part 2 without the `Sorted` hypothesis -/

/-- in a well-formed state `for` over an object visits its keys in strictly ascending order -/
theorem for_keys_ascending_wf {σ : State} {a : Addr} {m : ObjMap} (hw : WF σ) (hm : σ.getObj a = some m) :
    toPairs σ (.obj a) = some (some (m.map fun (k, x) => (SVal.plain (.str (utf8Encode k)), x))) ∧
    (m.map Prod.fst).Pairwise fun k k' => keyLt k k' = true :=
  ⟨for_ascending hm, for_keys_ascending (hw.sorted hm)⟩

/-- … in particular in the final state of any program -/
theorem for_keys_ascending_reached {n : Nat} {stmts : List Stmt} {σ : State} (h : evalProg n stmts = .ok () σ)
    {a : Addr} {m : ObjMap} (hm : σ.getObj a = some m) :
    toPairs σ (.obj a) = some (some (m.map fun (k, x) => (SVal.plain (.str (utf8Encode k)), x))) ∧
    (m.map Prod.fst).Pairwise fun k k' => keyLt k k' = true :=
  for_keys_ascending_wf (evalProg_ok_wf n stmts σ h) hm

/-- … and at the point where it matters: a `for` statement met anywhere during evaluation (the state `σ` it starts in
    is well-formed) whose iterable evaluates to an object runs its body over that object's keys in strictly ascending
    order -/
theorem for_stmt_keys_ascending {n : Nat} {σ σ1 : State} {sc : List Addr} {lhs iter : Expr} {stmts : List Stmt} {a : Addr}
    {s : Option Val} (hw : WF σ) (hs : ScOK σ sc) (h : evalExpr n σ sc iter = .ok ⟨.obj a, s⟩ σ1) :
    ∃ m, σ1.getObj a = some m ∧ (m.map Prod.fst).Pairwise (fun k k' => keyLt k k' = true) ∧
      evalStmt (n + 1) σ sc (.For lhs iter stmts) =
        evalFor n σ1 sc lhs (m.map fun (k, x) => (SVal.plain (.str (utf8Encode k)), x)) stmts := by
  obtain ⟨m, hm, hsm⟩ := evalExpr_obj_sorted n σ sc iter hw hs a s σ1 h
  refine ⟨m, hm, for_keys_ascending hsm, ?_⟩
  rw [evalStmt, h]
  simp only [Res.bind, toPairs, hm]

example : WF σex ∧ ScOK σex [0] ∧ evalExpr 1 σex [0] eO = .ok ⟨.obj 1, none⟩ σex :=
  ⟨σex_wf.1, σex_wf.2, by with_unfolding_all rfl⟩

/-- `Seed.C19.render_keys_ascending` in a well-formed state: what `print` writes for an object lists the keys in
    strictly ascending order -/
theorem render_keys_ascending_wf {σ : State} {a : Addr} {props : ObjMap} {n : Nat} {out : List Char} (hw : WF σ)
    (hg : σ.getObj a = some props) (hr : render n σ [] (.obj a) = .ok out) :
    ∃ rs : List (List Char), C19.Forall2 (fun p s => ∃ m, render m σ [a] p.2.v = .ok s) props rs ∧
      out = c!"{\n" ++ (List.zipWith (fun p s => C19.propLine p.1 s) props rs).flatten ++ c!"}" ∧
      (props.map Prod.fst).Pairwise (fun k k' => keyLt k k' = true) :=
  C19.render_keys_ascending hg (hw.sorted hg) hr

/-- … in particular in the final state of any program -/
theorem render_keys_ascending_reached {k : Nat} {stmts : List Stmt} {σ : State} (h : evalProg k stmts = .ok () σ)
    {a : Addr} {props : ObjMap} {n : Nat} {out : List Char}
    (hg : σ.getObj a = some props) (hr : render n σ [] (.obj a) = .ok out) :
    ∃ rs : List (List Char), C19.Forall2 (fun p s => ∃ m, render m σ [a] p.2.v = .ok s) props rs ∧
      out = c!"{\n" ++ (List.zipWith (fun p s => C19.propLine p.1 s) props rs).flatten ++ c!"}" ∧
      (props.map Prod.fst).Pairwise (fun k k' => keyLt k k' = true) :=
  render_keys_ascending_wf (evalProg_ok_wf k stmts σ h) hg hr

example : σex.getObj 1 = some [(c!"A", SVal.plain .null), (c!"a", SVal.plain (.int 1))] ∧
    render 5 σex [] (.obj 1) = .ok c!"{\n    \"A\": <null>,\n    \"a\": 1,\n}" := ⟨by rfl, by with_unfolding_all rfl⟩

/-- `assign_then_read` in a well-formed state (no `Sorted` hypothesis), with the new state well-formed again -/
theorem assign_then_read_wf {σ : State} {a : Addr} {props : ObjMap} (name : List Char) {rhs : SVal} (hw : WF σ)
    (hr : SValOK σ rhs) (hm : σ.getObj a = some props) :
    let σ' := σ.set a (.obj (objInsert name rhs props))
    WF σ' ∧ ∃ props', σ'.getObj a = some props' ∧ Sorted props' ∧
      objGet name props' = some rhs ∧
      (∀ k, k ≠ name → objGet k props' = objGet k props) ∧
      props'.length = props.length + (if (objGet name props).isSome then 0 else 1) ∧
      (∀ b, b ≠ a → σ'.heap[b]? = σ.heap[b]?) :=
  ⟨set_obj_wf hw hm (objInsert_ok (hw.obj hm) hr) (objInsert_sorted (hw.sorted hm)),
    assign_then_read name rhs hm (hw.sorted hm)⟩

example : WF σex ∧ SValOK σex (SVal.plain (.int 5)) ∧
    σex.getObj 1 = some [(c!"A", SVal.plain .null), (c!"a", SVal.plain (.int 1))] :=
  ⟨σex_wf.1, SValOK.plain trivial, by rfl⟩

/-- in a well-formed state an object is determined by its lookups: two objects that agree on every key have the
    same cell contents, hence the same `for` sequence -/
theorem wf_obj_ext {σ : State} {a b : Addr} {m m' : ObjMap} (hw : WF σ) (ha : σ.getObj a = some m)
    (hb : σ.getObj b = some m') (e : ∀ k, objGet k m = objGet k m') :
    m = m' ∧ toPairs σ (.obj a) = toPairs σ (.obj b) := by
  have := sorted_ext (hw.sorted ha) (hw.sorted hb) e
  subst this
  exact ⟨rfl, by rw [for_ascending ha, for_ascending hb]⟩

example : WF σex ∧ σex.getObj 1 = some [(c!"A", SVal.plain .null), (c!"a", SVal.plain (.int 1))] := ⟨σex_wf.1, by rfl⟩

/-! ### keys are text -/

/-- a computed key is text: a string value whose bytes are not valid UTF-8 (a byte-wise piece of a multi-byte character) is
    rejected where the key expression stands, on every path that takes a computed key — reading, assigning, op-assigning,
    literal entries and pattern keys all go through `evalToStr` — so it never names, or collides with, a property -/
theorem key_must_be_text (n : Nat) (σ σ1 : State) (sc : List Addr) (descr : List Char) (e : Expr) (v : SVal) (bs : Bytes)
    (er : Utf8Err) (he : evalExpr n σ sc e = .ok v σ1) (hv : v.v = .str bs) (hd : utf8Decode bs = .error er) :
    evalToStr (n + 1) σ sc descr e = errAt e.loc (Gen.Leaf.StringConstructionFailed er.msg descr) σ1 := by
  unfold evalToStr; simp [he, Res.bind, hv, hd]

/-- … and a string that is text names exactly the property spelt by its decoded characters -/
theorem key_is_decoded_text (n : Nat) (σ σ1 : State) (sc : List Addr) (descr : List Char) (e : Expr) (v : SVal) (bs : Bytes)
    (cs : List Char) (he : evalExpr n σ sc e = .ok v σ1) (hv : v.v = .str bs) (hd : utf8Decode bs = .ok cs) :
    evalToStr (n + 1) σ sc descr e = .ok cs σ1 := by
  unfold evalToStr; simp [he, Res.bind, hv, hd]

/-- anything but a string is rejected as a key, naming its kind -/
theorem key_must_be_string (n : Nat) (σ σ1 : State) (sc : List Addr) (descr : List Char) (e : Expr) (v : SVal)
    (he : evalExpr n σ sc e = .ok v σ1) (hv : ∀ bs, v.v ≠ .str bs) :
    evalToStr (n + 1) σ sc descr e = errAt e.loc (Gen.Leaf.IncorrectType descr c!"string" v.v.kind) σ1 := by
  unfold evalToStr
  rw [he]
  show (match v.v with
    | .str bs => (match utf8Decode bs with
      | .ok cs => Res.ok cs σ1
      | .error er => errAt e.loc (Gen.Leaf.StringConstructionFailed er.msg descr) σ1)
    | w => errAt e.loc (Gen.Leaf.IncorrectType descr c!"string" w.kind) σ1) = _
  split
  · rename_i bs hb; exact absurd hb (hv bs)
  · rfl

/-- the two bytes of `é`, taken one at a time, are both not text (so neither can be a key, and they cannot collide) -/
example : utf8Decode [0xC3] = .error (.incomplete 0) ∧ utf8Decode [0xA9] = .error (.invalid 1 0) ∧
    utf8Decode [0xC3, 0xA9] = .ok c!"é" := ⟨by rfl, by rfl, by rfl⟩

end Seed.C12
