/-
  C05x — property theorems of C05 that are proved on top of C05.lean (Lemmas/C05SelfStore.lean imports it).

  A container in its own slot; builders are fresh even when the result is empty (third session).
  `self_store_is_alias` / `_obj`: `x[i] = x`, `o.k = o`, `o["k"] = o` store the container ITSELF (same address, nothing
  allocated): `x[i] === x` is true and a later write through one path is read through the other (`self_store_then_write`).
  `builders_fresh_even_when_empty`: the eight building forms — `[]`, `[ys..]`, `xs + ys`, `a .. b`, `xs[k:k]`, `xs[len:]`, the
  collector of a list pattern with nothing left, a rest parameter with no surplus — each allocate a new cell at the old heap
  size whose contents are `[]`; `later_build_differs`: two evaluations never give the same address (`refEq` false both ways).
-/
import SeedProofs.Lemmas.C05SelfStore
-- audit: Seed.C05S.self_store_is_alias Seed.C05S.self_store_then_write Seed.C05S.self_store_is_alias_obj Seed.C05S.self_store_then_write_obj Seed.C05S.builders_fresh_even_when_empty Seed.C05S.later_build_differs Seed.C05S.builds_around_stmts_differ Seed.C05S.range_empty_fresh Seed.C05S.range_tail_empty_fresh Seed.C05S.collect_rest_empty Seed.C05S.rest_param_fresh Seed.C05S.rest_param_fresh_empty Seed.C05S.sum_empty_fresh Seed.C05S.int_range_empty_fresh
