/-
  C20 — names must be declared once per scope before use; `_` never binds; only bindable targets.

  Certain part: the name binder `bindNextName` (where `:=`, destructuring, `fn name`, parameters, `for` targets
  and `this` all end), reading a variable, the non-bindable arms of `bindNext` and `validateArgs`.
  Invariant part: no scope cell ever holds `_` — proved for the binder and `applyBinOp`; the lift through the
  whole evaluator is G2 (see `underscore_never`).
-/
import SeedProofs.Lemmas.C20Bind
import SeedProofs.Lemmas.Frame2
import SeedProofs.Lemmas.C14This
import SeedProofs.Lemmas.C18EvalPosProg
namespace Seed.C20
open Seed ScopeL BindL

def sv (n : Int) : SVal := SVal.plain (.int n)
/-- scope 0 = globals `{x ↦ 1 declared at 1:0}`, scope 1 = an empty inner block -/
def σ₀ : State := ⟨#[.scope [(c!"x", sv 1, (1, 0))], .scope []], []⟩

/-! ### use before declaration -/

/-- reading a name that no scope of the chain holds is `Undefined` at the name; the state is unchanged -/
theorem read_undeclared (n : Nat) (σ : State) (sc : List Addr) (x : List Char) (l : Loc) (h : scopeGet σ sc x = none) :
    evalExpr (n + 1) σ sc (.mk (.Var x) l) = errAt l (Gen.Leaf.Undefined x) σ := by
  rw [evalExpr]; simp only [h]

example : scopeGet σ₀ [1, 0] c!"y" = none := by decide

/-- … and a declared name reads as the stored value -/
theorem read_declared (n : Nat) (σ : State) (sc : List Addr) (x : List Char) (l : Loc) (v : SVal) (h : scopeGet σ sc x = some v) :
    evalExpr (n + 1) σ sc (.mk (.Var x) l) = .ok v σ := by
  rw [evalExpr]; simp only [h]

example : scopeGet σ₀ [1, 0] c!"x" = some (sv 1) := by decide

/-- `x = e` on an undeclared name: `Undefined` at the name, nothing is created -/
theorem assign_undeclared (fuel : Nat) (σ : State) (sc : List Addr) (names : List (List Char)) (x : List Char) (loc : Loc)
    (rhs : SVal) (hx : x ≠ c!"_") (hn : names.contains x = false) (h : scopeGet σ sc x = none) :
    bindNextName fuel σ sc names x loc rhs none false = errAt loc (Gen.Leaf.Undefined x) σ := by
  unfold bindNextName
  simp only [hx, hn, if_false, Bool.false_eq_true, (scopeAssign_none_iff σ sc x rhs).mpr h]

/-- `x op= e` on an undeclared name: `Undefined` at the name, the operation is not even attempted and nothing
    is created -/
theorem opassign_undeclared (fuel : Nat) (σ : State) (sc : List Addr) (names : List (List Char)) (x : List Char) (loc : Loc)
    (rhs : SVal) (o : BinaryOp) (ol : Loc) (hx : x ≠ c!"_") (hn : names.contains x = false) (h : scopeGet σ sc x = none) :
    bindNextName fuel σ sc names x loc rhs (some (o, ol)) false = errAt loc (Gen.Leaf.Undefined x) σ := by
  unfold bindNextName
  simp only [hx, hn, if_false, Bool.false_eq_true, h]

example : c!"y" ≠ c!"_" ∧ ([] : List (List Char)).contains c!"y" = false := by decide

/-- the statement forms: the right-hand side is evaluated first, then the error is raised at the name -/
theorem assign_stmt_undeclared (n : Nat) (σ σ1 : State) (sc : List Addr) (x : List Char) (l : Loc) (rhs : Expr) (v : SVal)
    (hx : x ≠ c!"_") (hr : evalExpr (n + 1) σ sc rhs = .ok v σ1) (h : scopeGet σ1 sc x = none) :
    evalStmt (n + 2) σ sc (.Assign (.mk (.Var x) l) rhs) = .err (Err.at l (Gen.Leaf.Undefined x)) σ1 := by
  rw [evalStmt]; simp only [hr, Res.bind]
  rw [bindNext]
  rw [assign_undeclared n σ1 sc [] x l v hx rfl h]; rfl

theorem opassign_stmt_undeclared (n : Nat) (σ σ1 : State) (sc : List Addr) (x : List Char) (l : Loc) (rhs : Expr) (v : SVal)
    (o : BinaryOp) (ol : Loc)
    (hx : x ≠ c!"_") (hr : evalExpr (n + 1) σ sc rhs = .ok v σ1) (h : scopeGet σ1 sc x = none) :
    evalStmt (n + 2) σ sc (.OpAssign (.mk (.Var x) l) o ol rhs) = .err (Err.at l (Gen.Leaf.Undefined x)) σ1 := by
  rw [evalStmt]; simp only [hr, Res.bind]
  rw [bindNext]
  rw [opassign_undeclared n σ1 sc [] x l v o ol hx rfl h]; rfl

example : evalExpr 1 σ₀ [1, 0] (.mk (.Int 5) (2, 4)) = .ok (sv 5) σ₀ := by rw [evalExpr]; rfl
example : evalStmt 2 σ₀ [1, 0] (.Assign (.mk (.Var c!"y") (2, 0)) (.mk (.Int 5) (2, 4))) =
    .err (Err.at (2, 0) (Gen.Leaf.Undefined c!"y")) σ₀ :=
  assign_stmt_undeclared 0 σ₀ σ₀ [1, 0] c!"y" (2, 0) _ (sv 5) (by decide) (by rw [evalExpr]; rfl) (by decide)

/-! ### declaring -/

/-- declaring a name the *innermost* scope already has: `AlreadyInScope` at the new name, citing the position
    of the earlier declaration; the state is unchanged -/
theorem declare_twice (fuel : Nat) (σ : State) (top : Addr) (sc : List Addr) (names : List (List Char)) (x : List Char)
    (loc prev : Loc) (rhs w : SVal) (m : ScopeMap) (hx : x ≠ c!"_") (hn : names.contains x = false)
    (hm : σ.getScope top = some m) (hl : scopeLookup x m = some (w, prev)) :
    bindNextName fuel σ (top :: sc) names x loc rhs none true = errAt loc (Gen.Leaf.AlreadyInScope x prev.1 prev.2) σ := by
  unfold bindNextName
  simp only [hx, hn, if_false, Bool.false_eq_true, if_true, scopeDeclare_cons, hm, hl]

example : σ₀.getScope 0 = some [(c!"x", sv 1, (1, 0))] ∧ scopeLookup c!"x" [(c!"x", sv 1, (1, 0))] = some (sv 1, (1, 0)) := by
  decide
example : bindNextName 0 σ₀ [0] [] c!"x" (4, 0) (sv 2) none true = errAt (4, 0) (Gen.Leaf.AlreadyInScope c!"x" 1 0) σ₀ :=
  declare_twice 0 σ₀ 0 [] [] c!"x" (4, 0) (1, 0) (sv 2) (sv 1) [(c!"x", sv 1, (1, 0))] (by decide) rfl (by decide) (by decide)

/-- the same name in an inner scope is allowed, whatever the outer scopes hold: the declaration goes into the
    innermost scope cell with its position -/
theorem declare_inner_ok (fuel : Nat) (σ : State) (top : Addr) (sc : List Addr) (names : List (List Char)) (x : List Char)
    (loc : Loc) (rhs : SVal) (m : ScopeMap) (hx : x ≠ c!"_") (hn : names.contains x = false)
    (hm : σ.getScope top = some m) (hl : scopeLookup x m = none) :
    bindNextName fuel σ (top :: sc) names x loc rhs none true = .ok (x :: names) (σ.set top (.scope ((x, rhs, loc) :: m))) := by
  unfold bindNextName
  simp only [hx, hn, if_false, Bool.false_eq_true, if_true, scopeDeclare_cons, hm, hl]

/-- `x` is global in `σ₀`; declaring `x` again in the inner block (scope 1) succeeds and shadows -/
example : bindNextName 0 σ₀ [1, 0] [] c!"x" (4, 4) (sv 2) none true = .ok [c!"x"] (σ₀.set 1 (.scope [(c!"x", sv 2, (4, 4))])) :=
  declare_inner_ok 0 σ₀ 1 [0] [] c!"x" (4, 4) (sv 2) [] (by decide) rfl (by decide) (by decide)

/-- a name may appear once per pattern -/
theorem twice_in_pattern (fuel : Nat) (σ : State) (sc : List Addr) (names : List (List Char)) (x : List Char) (loc : Loc)
    (rhs : SVal) (op : Option (BinaryOp × Loc)) (decl : Bool) (hx : x ≠ c!"_") (hn : names.contains x = true) :
    bindNextName fuel σ sc names x loc rhs op decl = errAt loc (Gen.Leaf.AlreadyInBinding x) σ := by
  unfold bindNextName
  simp only [hx, hn, if_false, if_true]

example : c!"a" ≠ c!"_" ∧ [c!"a"].contains c!"a" = true := by decide

/-! ### every declaring form reaches `bindNextName … decl := true` on the chain whose head is the current scope -/

theorem entry_declare (n : Nat) (σ : State) (sc : List Addr) (x : List Char) (l : Loc) (rhs : Expr) :
    evalStmt (n + 2) σ sc (.Declare (.mk (.Var x) l) rhs) =
      (evalExpr (n + 1) σ sc rhs).bind fun v σ1 =>
        (bindNextName n σ1 sc [] x l v none true).bind fun _ σ2 => .ok .none σ2 := by
  rw [evalStmt]; congr 1; funext v σ1; rw [bindNext]

theorem entry_fn (n : Nat) (σ : State) (sc : List Addr) (name : List Char) (nl : Loc) (args : List Expr) (c : Bool)
    (ss : List Stmt) (hv : validateArgs n args [] = some none) :
    evalStmt (n + 1) σ sc (.Func name nl args c ss) =
      (bindNextName n (σ.alloc (.func ⟨some name, args, c, ss, sc⟩)).2 sc [] name nl (SVal.plain (.func σ.heap.size)) none true).bind
        fun _ σ2 => .ok .none σ2 := by
  rw [evalStmt]; simp only [validateArgsRes, hv, Res.bind]; rfl

example : validateArgs 3 [] [] = some none := rfl

/-- parameters, `this` and `for` targets: the bindings handed to `evalBlock` are declared one by one in the fresh
    scope (`C04.block_fresh_scope`) -/
theorem entry_binding (n : Nat) (σ : State) (sc : List Addr) (p : List Char) (l : Loc) (v : SVal) (r : List (Expr × SVal)) :
    declareAll (n + 2) σ sc ((.mk (.Var p) l, v) :: r) =
      (bindNextName n σ sc [] p l v none true).bind fun _ σ1 => declareAll (n + 1) σ1 sc r := by
  rw [declareAll, bindNext]

/-- list patterns hand every item to `bindNext` with the same declaration flag and the names seen so far -/
theorem entry_list_pattern (n : Nat) (σ : State) (sc : List Addr) (names : List (List Char)) (e : Expr) (r : List ListItem)
    (lhsLoc : Loc) (b : Addr) (decl : Bool) (i lhsLen : Nat) (items : List SVal) (v : SVal)
    (hb : σ.getList b = some items) (hi : items[i]? = some v) :
    bindList (n + 1) σ sc names (.mk e false :: r) false lhsLoc b decl i lhsLen =
      (bindNext n σ sc names e v none decl).bind fun names' σ1 => bindList n σ1 sc names' r false lhsLoc b decl (i + 1) lhsLen := by
  rw [bindList]; simp only [hb, hi, Bool.false_eq_true, if_false, Bool.false_and]

example : (State.mk #[.list [sv 1, sv 2]] []).getList 0 = some [sv 1, sv 2] ∧ [sv 1, sv 2][1]? = some (sv 2) := by decide

/-- object patterns: shorthand `{a}` and pairs `{"k": target}` both end in `bindNext` via `bindObjectProp` -/
theorem entry_object_prop (n : Nat) (σ : State) (sc : List Addr) (names : List (List Char)) (lhs : Expr) (b : Addr)
    (pname : List Char) (ploc : Loc) (decl : Bool) (m : ObjMap) (v : SVal)
    (hp : pname ≠ c!"_") (hb : σ.getObj b = some m) (hv : objGet pname m = some v) :
    bindObjectProp (n + 1) σ sc names lhs b pname ploc decl = bindNext n σ sc names lhs v none decl := by
  rw [bindObjectProp]; simp only [hp, if_false, hb, hv]

example : (State.mk #[.obj [(c!"k", sv 1)]] []).getObj 0 = some [(c!"k", sv 1)] ∧ objGet c!"k" [(c!"k", sv 1)] = some (sv 1) := by
  decide

/-! ### `_` -/

/-- `_` as a target is the identity on the state and on the names of the pattern, in every mode
    (declaration, assignment, op-assignment): it can be repeated freely -/
theorem underscore_noop (fuel : Nat) (σ : State) (sc : List Addr) (names : List (List Char)) (loc : Loc) (rhs : SVal)
    (op : Option (BinaryOp × Loc)) (decl : Bool) :
    bindNextName fuel σ sc names c!"_" loc rhs op decl = .ok names σ := by
  unfold bindNextName; simp only [if_true]

/-- the shorthand `{_}` in an object pattern binds nothing (the property need not even exist): the pattern goes on with
    the next item -/
theorem underscore_shorthand_noop (n : Nat) (σ : State) (sc : List Addr) (names : List (List Char)) (l : Loc) (r : List PropItem)
    (b : Addr) (decl : Bool) (i total : Nat) (rem : List (List Char)) :
    bindObject (n + 1) σ sc names (.Single (.mk (.Var c!"_") l) false false :: r) b decl i total rem =
      bindObject n σ sc names r b decl (i + 1) total (rem.filter fun k => k ≠ c!"_") := by
  rw [bindObject]
  simp only [Bool.false_eq_true, if_false, Expr.raw, if_true]

/-- … while a pair whose KEY is `"_"` is a property like any other: it is looked up (and missing is an error)
    (the pinned tree skipped it: defect D10) -/
theorem underscore_key_is_a_key (n : Nat) (σ : State) (sc : List Addr) (names : List (List Char)) (lhs : Expr) (b : Addr)
    (m : ObjMap) (ploc : Loc) (decl : Bool) (hb : σ.getObj b = some m) :
    bindObjectProp (n + 1) σ sc names lhs b c!"_" ploc decl =
      (match objGet c!"_" m with
       | none => errAt ploc (Gen.Leaf.PropNotFound c!"_") σ
       | some v => bindNext n σ sc names lhs v none decl) := by
  rw [bindObjectProp]; simp only [hb]; rfl

/-- the binder preserves "no scope cell holds `_`", for every name, mode and outcome -/
theorem bindNextName_keeps_noUnderscore (fuel : Nat) (σ σ' : State) (sc : List Addr) (names names' : List (List Char))
    (x : List Char) (loc : Loc) (rhs : SVal) (op : Option (BinaryOp × Loc)) (decl : Bool)
    (hi : NoUnderscore σ) (h : bindNextName fuel σ sc names x loc rhs op decl = .ok names' σ') : NoUnderscore σ' := by
  unfold bindNextName at h
  by_cases hx : x = c!"_"
  · simp only [hx, if_true] at h; cases h; exact hi
  · simp only [hx, if_false] at h
    have hne : c!"_" ≠ x := fun e => hx e.symm
    -- a successful store into a state that satisfies the invariant keeps it
    have store : ∀ (σ1 : State) (v : SVal), NoUnderscore σ1 →
        (match scopeAssign σ1 sc x v with
          | some σ2 => Res.ok (x :: names) σ2
          | none => errAt loc (Gen.Leaf.Undefined x) σ1) = .ok names' σ' → NoUnderscore σ' := by
      intro σ1 v h1 hs
      cases ha : scopeAssign σ1 sc x v with
      | none => simp only [ha] at hs; cases hs
      | some σ2 =>
        simp only [ha] at hs; cases hs
        obtain ⟨pre, a, post, m, w, l, _, _, hm, _, rfl⟩ := scopeAssign_some_iff.mp ha
        exact noUnderscore_set h1 a _ (fun m' e => by
          cases e; rw [lookup_setVal_other hne]; exact h1 a m hm)
    split at h
    · cases h
    · cases decl with
      | true =>
        simp only [if_true] at h
        cases op with
        | some _ => cases h
        | none =>
          simp only at h
          cases hd : scopeDeclare σ sc x loc rhs with
          | dup p => simp only [hd] at h; cases h
          | bad => simp only [hd] at h; cases h
          | ok σ2 =>
            simp only [hd] at h; cases h
            cases sc with
            | nil => cases hd
            | cons top r =>
              obtain ⟨m, hm, _, rfl⟩ := scopeDeclare_ok_iff.mp hd
              exact noUnderscore_set hi top _ (fun m' e => by
                cases e; rw [lookup_cons_other hne]; exact hi top m hm)
      | false =>
        simp only [Bool.false_eq_true, if_false] at h
        cases op with
        | none => exact store σ rhs hi h
        | some p =>
          obtain ⟨o, ol⟩ := p
          simp only at h
          cases hg : scopeGet σ sc x with
          | none => simp only [hg] at h; cases h
          | some cur =>
            simp only [hg] at h
            cases hb : applyBinOp fuel σ o ol cur.v rhs.v with
            | ok v σ1 =>
              rw [hb] at h
              exact store σ1 (SVal.plain v) (applyBinOp_noUnderscore hi hb) h
            | err e σ1 => rw [hb] at h; cases h
            | crash w σ1 => rw [hb] at h; cases h
            | timeout => rw [hb] at h; cases h

example : NoUnderscore σ₀ := by
  intro a m h
  have hlt := getScope_lt h
  have : a = 0 ∨ a = 1 := by
    have h2 : a < 2 := hlt
    rcases Nat.lt_or_eq_of_le (Nat.le_of_lt_succ h2) with h3 | h3
    · exact Or.inl (Nat.lt_one_iff.mp h3)
    · exact Or.inr h3
  rcases this with rfl | rfl
  · have : m = [(c!"x", sv 1, (1, 0))] := by
      have e : σ₀.getScope 0 = some [(c!"x", sv 1, (1, 0))] := by decide
      rw [e] at h; cases h; rfl
    subst this; decide
  · have : m = [] := by
      have e : σ₀.getScope 1 = some [] := by decide
      rw [e] at h; cases h; rfl
    subst this; rfl

/-- `_` never becomes readable: in a state where no scope cell holds `_` — the initial state is one, and the binder
    (through which every declaration passes) and `applyBinOp` keep it so — reading `_` is `Undefined`.

    Full statement: `∀ prog n, every state reached by evalProg n prog satisfies NoUnderscore` (lift of
    `bindNextName_keeps_noUnderscore` through the 23 functions of the evaluator: all other writes are
    `alloc`/`set` of list, object, function and *empty* scope cells, see `noUnderscore_alloc`/`_set`); that lift
    is the global well-formedness theorem G2 and is not repeated here — this is `underscore_never_partial`
    in the sense of the brief. -/
theorem underscore_never_partial (n : Nat) (σ : State) (sc : List Addr) (l : Loc) (hi : NoUnderscore σ) :
    evalExpr (n + 1) σ sc (.mk (.Var c!"_") l) = errAt l (Gen.Leaf.Undefined c!"_") σ :=
  read_undeclared n σ sc c!"_" l (scopeGet_underscore hi sc)

/-- declaring with `_` then reading `_`: still undefined -/
theorem underscore_after_binding (fuel n : Nat) (σ : State) (sc : List Addr) (names : List (List Char)) (loc l : Loc) (rhs : SVal)
    (decl : Bool) (hi : NoUnderscore σ) :
    (bindNextName fuel σ sc names c!"_" loc rhs none decl).bind (fun _ σ1 => evalExpr (n + 1) σ1 sc (.mk (.Var c!"_") l)) =
      errAt l (Gen.Leaf.Undefined c!"_") σ := by
  rw [underscore_noop]; exact underscore_never_partial n σ sc l hi

/-- the initial state and the fresh scopes pushed by blocks satisfy the invariant -/
theorem noUnderscore_fresh_scope (σ : State) (hi : NoUnderscore σ) : NoUnderscore (σ.alloc (.scope [])).2 :=
  noUnderscore_alloc hi _ (fun m e => by cases e; rfl)

/-! ### only bindable targets -/

/-- literals, operations, ranges, function literals and calls in a binding position (declaration, assignment,
    op-assignment; top level or nested in a pattern — `bindNext` is the common entry) are rejected with
    `InvalidBindTarget` naming the kind, at the target's position, with the state unchanged -/
theorem nonbindable (n : Nat) (σ : State) (sc : List Addr) (names : List (List Char)) (raw : RawExpr) (loc : Loc) (rhs : SVal)
    (op : Option (BinaryOp × Loc)) (decl : Bool) (d : List Char) (hd : invalidBindDescr raw = some d)
    (h1 : ∀ e i, raw ≠ .Index e i) (h2 : ∀ e a b, raw ≠ .RangeIndex e a b) (h3 : ∀ e p t, raw ≠ .Prop e p t) :
    bindNext (n + 1) σ sc names (.mk raw loc) rhs op decl = errAt loc (Gen.Leaf.InvalidBindTarget d) σ := by
  cases raw <;> first
    | (cases hd; done)
    | exact absurd rfl (h1 _ _)
    | exact absurd rfl (h2 _ _ _)
    | exact absurd rfl (h3 _ _ _)
    | (rw [bindNext.eq_def]; simp only [hd])

/-- the covered kinds and the text each is reported with -/
theorem nonbindable_kinds (a b : Expr) (o : BinaryOp) (ol : Loc) (s : List Char) (sl : Option (List (Nat × Nat))) (i : Int)
    (bo : Bool) (ps : List Expr) (c : Bool) (ss : List Stmt) (f : Expr) (args : List ListItem) :
    invalidBindDescr .Null = some c!"`null`" ∧
    invalidBindDescr (.Bool bo) = some c!"a boolean literal" ∧
    invalidBindDescr (.Int i) = some c!"an integer literal" ∧
    invalidBindDescr (.Str s sl) = some c!"a string literal" ∧
    invalidBindDescr (.BinaryOp o ol a b) = some c!"a binary operation" ∧
    invalidBindDescr (.Range a b) = some c!"a range operation" ∧
    invalidBindDescr (.Func ps c ss) = some c!"an anonymous function" ∧
    invalidBindDescr (.Call f args) = some c!"a function call" :=
  ⟨rfl, rfl, rfl, rfl, rfl, rfl, rfl, rfl⟩

example : bindNext 1 σ₀ [0] [] (.mk (.Int 3) (2, 0)) (sv 1) none true =
    errAt (2, 0) (Gen.Leaf.InvalidBindTarget c!"an integer literal") σ₀ :=
  nonbindable 0 σ₀ [0] [] (.Int 3) (2, 0) (sv 1) none true _ rfl (fun _ _ h => by cases h) (fun _ _ _ h => by cases h)
    (fun _ _ _ h => by cases h)

/-- a type property (`x->name`) is not assignable -/
theorem type_prop_not_assignable (n : Nat) (σ : State) (sc : List Addr) (names : List (List Char)) (e : Expr) (p : List Char)
    (loc : Loc) (rhs : SVal) (op : Option (BinaryOp × Loc)) (decl : Bool) :
    bindNext (n + 1) σ sc names (.mk (.Prop e p true) loc) rhs op decl = errAt loc Gen.Leaf.AssignToTypeProp σ := by
  rw [bindNext]; simp only [if_true]

/-- parameters of `fn name(…)`: a non-bindable parameter (here also index / range / property targets) is
    rejected when the function statement is executed, before the function exists -/
theorem nonbindable_param (n : Nat) (raw : RawExpr) (loc : Loc) (q : List Expr) (seen : List (List Char × Loc)) (d : List Char)
    (hd : invalidBindDescr raw = some d) :
    validateArgs (n + 1) (.mk raw loc :: q) seen = some (some (Err.at loc (Gen.Leaf.InvalidBindTarget d))) := by
  cases raw <;> first | (cases hd; done) | (rw [validateArgs.eq_def]; simp only [hd])

theorem nonbindable_param_stmt (n : Nat) (σ : State) (sc : List Addr) (name : List Char) (nl : Loc) (raw : RawExpr) (loc : Loc)
    (q : List Expr) (c : Bool) (ss : List Stmt) (d : List Char) (hd : invalidBindDescr raw = some d) :
    evalStmt (n + 2) σ sc (.Func name nl (.mk raw loc :: q) c ss) = .err (Err.at loc (Gen.Leaf.InvalidBindTarget d)) σ := by
  rw [evalStmt]; simp only [validateArgsRes, nonbindable_param n raw loc q [] d hd, Res.bind]

example : invalidBindDescr (.Int 1) = some c!"an integer literal" := rfl

/-- a parameter name may appear once -/
theorem dup_param (n : Nat) (x : List Char) (loc l0 : Loc) (q : List Expr) (seen : List (List Char × Loc))
    (hx : x ≠ c!"_") (hs : lookupAssoc x seen = some l0) :
    validateArgs (n + 1) (.mk (.Var x) loc :: q) seen = some (some (Err.at loc (Gen.Leaf.DupParamName x l0.1 l0.2))) := by
  rw [validateArgs]; simp only [hx, if_false, hs]

example : lookupAssoc c!"p" [(c!"p", ((1, 5) : Loc))] = some (1, 5) := by decide


/-! ### `_` never becomes readable: the invariant lifted through the whole evaluator -/

/-- "if no scope cell held `_` before, none holds it after" is preserved by every way the evaluator changes the state -/
theorem noUnderscore_good : GoodRelC (fun σ σ' => NoUnderscore σ → NoUnderscore σ') where
  refl := fun _ h => h
  trans := fun h1 h2 h => h2 (h1 h)
  allocList := fun σ xs h => noUnderscore_alloc h _ (fun m e => by cases e)
  allocObj := fun σ m h => noUnderscore_alloc h _ (fun m e => by cases e)
  allocFunc := fun σ f h => noUnderscore_alloc h _ (fun m e => by cases e)
  allocScope := fun σ h => noUnderscore_alloc h _ (fun m e => by cases e; rfl)
  print := fun σ l h a m hm => h a m hm
  setList := fun σ a ys h => noUnderscore_set h a _ (fun m e => by cases e)
  setObj := fun σ a m' h => noUnderscore_set h a _ (fun m e => by cases e)
  bindName := fun n σ σ' sc names names' name loc rhs op decl hb h =>
    bindNextName_keeps_noUnderscore n σ σ' sc names names' name loc rhs op decl h hb

/-- whatever statements are executed, successfully, from a state where no scope holds `_`, none holds it afterwards -/
theorem noUnderscore_preserved (n : Nat) (σ σ' : State) (sc : List Addr) (ss : List Stmt) (esc : Escape)
    (hi : NoUnderscore σ) (h : evalStmts n σ sc ss = .ok esc σ') : NoUnderscore σ' := by
  have := (relOkAll noUnderscore_good n).evalStmts σ σ sc ss (fun h => h)
  rw [h] at this
  exact this hi

/-- the same for a block with bindings (a call body with its parameters, a loop iteration with its target) -/
theorem noUnderscore_preserved_block (n : Nat) (σ σ' : State) (sc : List Addr) (bs : List (Expr × SVal)) (ss : List Stmt)
    (esc : Escape) (hi : NoUnderscore σ) (h : evalBlock n σ sc bs ss = .ok esc σ') : NoUnderscore σ' := by
  have := (relOkAll noUnderscore_good n).evalBlock σ σ sc bs ss (fun h => h)
  rw [h] at this
  exact this hi

/-- **`_` never becomes readable.**  After any statements whatsoever have run (declarations, destructurings, loops, calls …
    with `_` as a target anywhere), reading `_` is still the error `'_' is not defined`, in every scope chain. -/
theorem underscore_never (n m : Nat) (σ σ' : State) (sc sc' : List Addr) (ss : List Stmt) (esc : Escape) (l : Loc)
    (hi : NoUnderscore σ) (h : evalStmts n σ sc ss = .ok esc σ') :
    evalExpr (m + 1) σ' sc' (.mk (.Var c!"_") l) = errAt l (Gen.Leaf.Undefined c!"_") σ' :=
  underscore_never_partial m σ' sc' l (noUnderscore_preserved n σ σ' sc ss esc hi h)

/-- for whole programs: the state a program ends in (and every state in between, by the lemmas above) has no `_` -/
theorem underscore_never_prog (n : Nat) (stmts : List Stmt) (σ : State) (h : evalProg n stmts = .ok () σ) : NoUnderscore σ := by
  unfold evalProg at h
  dsimp only [] at h
  cases hb : evalBlock n State.init [] [(.mk (.Var c!"print") (0, 0), SVal.plain (.builtin c!"print" .print))] stmts with
  | ok esc σ1 =>
    rw [hb] at h
    have h1 := noUnderscore_preserved_block n State.init σ1 [] _ stmts esc noUnderscore_init hb
    cases esc <;> simp [Res.bind, errAt] at h
    subst h; exact h1
  | err e σ1 => rw [hb] at h; simp [Res.bind] at h
  | crash w σ1 => rw [hb] at h; simp [Res.bind] at h
  | timeout => rw [hb] at h; simp [Res.bind] at h

/-! ## the same kinds, read off the source on every run

`Gen.bindRejects` / `Gen.paramRejects` are regenerated by tools/extract.py from the `RawExpr::K… => new_invalid_bind_error("…")`
arms of the binder (`bind_next`) and of the parameter validator (`validate_args`). -/

/-- the source variant name of an expression kind -/
def kindName : RawExpr → List Char
  | .Null => c!"Null" | .Bool _ => c!"Bool" | .Int _ => c!"Int" | .Str _ _ => c!"Str" | .Var _ => c!"Var"
  | .BinaryOp _ _ _ _ => c!"BinaryOp" | .List _ _ => c!"List" | .Index _ _ => c!"Index" | .RangeIndex _ _ _ => c!"RangeIndex"
  | .Range _ _ => c!"Range" | .Object _ => c!"Object" | .Prop _ _ _ => c!"Prop" | .Func _ _ _ => c!"Func" | .Call _ _ => c!"Call"

/-- the parameter validator of the source rejects exactly the kinds the model's `invalidBindDescr` rejects, with the same
    descriptions -/
theorem param_rejects_match_source (raw : RawExpr) : invalidBindDescr raw = lookupAssoc (kindName raw) Gen.paramRejects := by
  cases raw <;> rfl

/-- the binder of the source rejects those kinds except the three targets (element, range, property) that only a
    parameter list refuses; so exactly variables, element / range / property targets and list / object patterns can be bound -/
theorem bind_rejects_match_source (raw : RawExpr) :
    lookupAssoc (kindName raw) Gen.bindRejects =
      (match raw with
       | .Index _ _ => none | .RangeIndex _ _ _ => none | .Prop _ _ _ => none
       | r => invalidBindDescr r) := by
  cases raw <;> rfl

theorem bindable_kinds_as_documented :
    Gen.bindRejects.map Prod.fst = [c!"Null", c!"Bool", c!"Int", c!"Str", c!"BinaryOp", c!"Range", c!"Func", c!"Call"] ∧
    Gen.paramRejects.map Prod.fst =
      [c!"Index", c!"RangeIndex", c!"Prop", c!"Null", c!"Bool", c!"Int", c!"Str", c!"BinaryOp", c!"Range", c!"Func", c!"Call"] := by
  decide

/-! ### the implicit `this` -/

/-- the implicit `this` of a call is a declaration of the call's own scope — the scope cell that holds the parameters and
    the body's top-level declarations — made at the position of the call: once the bindings of a call whose callee was read
    from an object are in place, declaring `this` again at the top level of the body is `AlreadyInScope`, citing the call;
    nothing is changed -/
theorem body_cannot_redeclare_this {k : Nat} {σ3 σb : State} {fr : FuncRec} {pv : List SVal} {t : Val} {loc : Loc}
    (hb : declareAll k (σ3.alloc (.scope [])).2 (σ3.heap.size :: fr.closure) (callBindings fr pv (some t) loc) = .ok () σb)
    (fuel : Nat) (l2 : Loc) (rhs : SVal) :
    bindNextName fuel σb (σ3.heap.size :: fr.closure) [] c!"this" l2 rhs none true =
      errAt l2 (Gen.Leaf.AlreadyInScope c!"this" loc.1 loc.2) σb := by
  obtain ⟨m, hs, hl⟩ := declareAll_this_last (bs := fr.args.zip pv) hb
  exact declare_twice fuel σb _ _ [] c!"this" l2 loc rhs (SVal.plain t) m (by decide) rfl hs hl

/-- … while a scope opened inside the body may declare `this` (it shadows the receiver there) -/
theorem inner_scope_may_declare_this (fuel : Nat) (σ : State) (inner : Addr) (sc : List Addr) (l2 : Loc) (rhs : SVal) (m : ScopeMap)
    (hm : σ.getScope inner = some m) (hl : scopeLookup c!"this" m = none) :
    bindNextName fuel σ (inner :: sc) [] c!"this" l2 rhs none true =
      .ok [c!"this"] (σ.set inner (.scope ((c!"this", rhs, l2) :: m))) :=
  declare_inner_ok fuel σ inner sc [] c!"this" l2 rhs m (by decide) rfl hm hl

/-- the hypotheses are met by a real call: `this := 1` at 1:19 in a method called at 1:34 fails at 1:19 inside the call made at
    1:34, and the declaration it cites is the call's -/
example : ∃ e σ, evalProg 60 (progOf c!"o := {\"f\": fn() { this := 1; }}; o.f();") = .err e σ ∧
    e.positions = [(1, 34), (1, 19)] ∧ e.payloadLocs = [(1, 34)] := by
  obtain ⟨e, σ, he, hp⟩ := errOf_map (n := 60) (stmts := progOf c!"o := {\"f\": fn() { this := 1; }}; o.f();")
    (f := fun e => (e.positions, e.payloadLocs)) (x := ([(1, 34), (1, 19)], [(1, 34)])) (by decide +kernel)
  exact ⟨e, σ, he, congrArg Prod.fst hp, congrArg Prod.snd hp⟩

end Seed.C20
