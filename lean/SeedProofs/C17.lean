/-
  C17 — a failure is one well-formed located diagnostic after the output so far.
-/
import SeedProofs.Lemmas.Located
import SeedProofs.Lemmas.Instances
namespace Seed.C17
open Seed

/-- every context wrapper of `Error` is looked through by the CLI renderer, or is one of the three variants that carry a
    position or a call frame and have an arm of their own (a `decide` fact about the two lists extracted from
    src/eval/error.rs and src/main.rs on every run).  This is what justifies erasing the other wrappers in the model. -/
theorem all_wrappers_peeled :
    Gen.wrapperVariants.all (fun w => Gen.peeledVariants.contains w || Gen.handledVariants.contains w) = true := by
  decide

/-- the renderer only peels actual wrappers, and the three special arms are wrappers too -/
theorem peeled_are_wrappers :
    (Gen.peeledVariants ++ Gen.handledVariants).all (fun w => Gen.wrapperVariants.contains w) = true := by
  decide

/-- the variants with an arm of their own are exactly the position / frame carriers the model keeps -/
theorem handled_are_the_carriers :
    Gen.handledVariants.all (fun w => [c!"AtLoc", c!"EvalFuncCallFailed", c!"EvalBuiltinFuncCallFailed"].contains w) = true ∧
    [c!"AtLoc", c!"EvalFuncCallFailed", c!"EvalBuiltinFuncCallFailed"].all (fun w => Gen.handledVariants.contains w) = true := by
  decide

/-- G5: whatever program is run, with whatever fuel, an evaluation error is located -/
theorem err_located (n : Nat) (stmts : List Stmt) (e : Err) (σ : State) (h : evalProg n stmts = .err e σ) : Located e := by
  have := evalProg_located n stmts
  rw [h] at this
  exact this

/-- number of user-function call frames around the failure -/
def frames : Err → Nat
  | .leaf _ => 0
  | .atLoc _ _ e => frames e
  | .builtinCall _ _ e => frames e
  | .funcCall _ _ e => frames e + 1

/-- the stack trace has exactly one line per active user-function call -/
theorem trace_length (path : List Char) (func : Option (List Char)) (e : Err) :
    (renderErr path func e).2.length = frames e := by
  induction e generalizing func with
  | leaf l => simp [renderErr, frames]
  | atLoc line col e ih => simp only [renderErr, frames]; exact ih _
  | builtinCall name loc e ih => simp only [renderErr, frames]; exact ih _
  | funcCall name loc e ih => simp only [renderErr, frames, List.length_append, List.length_cons, List.length_nil]; rw [ih]

/-- a located error renders as `<line>:<col>:` + (` in '<f>':` when inside a called function) + ` ` + message -/
theorem located_msg_shape (path : List Char) (func : Option (List Char)) (e : Err) (h : Located e) :
    ∃ (l c : Nat) (f' : Option (List Char)) (rest : List Char),
      (renderErr path func e).1 =
        natToChars l ++ c!":" ++ natToChars c ++ c!":" ++
          inFunc f' ++ c!" " ++ rest := by
  induction e generalizing func with
  | leaf l => exact absurd h (by simp [Located])
  | atLoc line col e _ => exact ⟨line, col, func, (renderErr path func e).1, by simp [renderErr]⟩
  | builtinCall name loc e _ =>
    exact ⟨loc.1, loc.2, func, (renderErr path (some (name.getD c!"<unnamed function>")) e).1, by simp [renderErr]⟩
  | funcCall name loc e ih =>
    obtain ⟨l, c, f', rest, hr⟩ := ih (some (name.getD c!"<unnamed function>")) h
    exact ⟨l, c, f', rest, by simp only [renderErr]; exact hr⟩

/-- the innermost frame's trace line names the function that contains that call, the outermost names `<root>` -/
theorem trace_last_is_root (path : List Char) (name : Option (List Char)) (loc : Loc) (e : Err) :
    (renderErr path none (.funcCall name loc e)).2.getLast? =
      some (path ++ c!":" ++ natToChars loc.1 ++ c!":" ++ natToChars loc.2 ++ c!": in '<root>'") := by
  simp [renderErr]

/-- the whole text written to stderr for a located error: one first line `<path>:<l>:<c>:…`, then the trace -/
theorem stderr_shape (path : List Char) (e : Err) (h : Located e) :
    ∃ (l c : Nat) (f' : Option (List Char)) (rest : List Char),
      evalErrText path e =
        path ++ c!":" ++ (natToChars l ++ c!":" ++ natToChars c ++ c!":" ++
          inFunc f' ++ c!" " ++ rest) ++
        (if (renderErr path none e).2.isEmpty then [] else c!"\nStacktrace:\n  " ++ joinWith c!"\n  " (renderErr path none e).2) ++
        c!"\n" := by
  obtain ⟨l, c, f', rest, hr⟩ := located_msg_shape path none e h
  refine ⟨l, c, f', rest, ?_⟩
  unfold evalErrText
  simp only []
  rw [← hr]

/-- a successful run writes nothing to stderr; a failed one exits with the failure status and keeps the lines printed so far -/
theorem ok_silent (n : Nat) (path src : List Char) (h : (run n path src).status = .success) : (run n path src).stderr = [] := by
  unfold run at *
  split at h <;> try (simp at h)
  split at h <;> simp_all

/-- evaluation errors keep the output of the prints completed before them: the state carried by the error is the one
    whose output is reported -/
theorem failed_keeps_output (n : Nat) (path src : List Char) (stmts : List Stmt) (e : Err) (σ : State)
    (hp : parseProg src = .ok stmts) (he : evalProg n stmts = .err e σ) :
    run n path src = ⟨σ.out.reverse, .failed, evalErrText path e⟩ := by
  unfold run
  simp only [hp, he]

/-- G3 instance: the output of a statement list extends the output it started from (nothing is ever retracted),
    whether it completes, fails or crashes -/
theorem out_only_grows (n : Nat) (σ : State) (sc : List Addr) (ss : List Stmt) :
    Res.Rel OutGrows σ (evalStmts n σ sc ss) :=
  (relAll outGrows_good n).evalStmts σ σ sc ss (outGrows_good.refl σ)

/-- non-vacuity: a concrete located error with one call frame, and its rendering -/
example : Located (.funcCall (some c!"f") (4, 1) (Err.at (2, 14) (Gen.Leaf.Undefined c!"x"))) := trivial
example : frames (.funcCall (some c!"f") (4, 1) (Err.at (2, 14) (Gen.Leaf.Undefined c!"x"))) = 1 := rfl

end Seed.C17
