/-
  C17 — a failure is one well-formed located diagnostic after the output so far.
-/
import SeedProofs.Lemmas.Located
import SeedProofs.Lemmas.Instances
import SeedProofs.Lemmas.C18EvalPosProg
import SeedProofs.Lemmas.C17LineBound3
-- audit: Seed.progMark_slot_piece Seed.lexAll_slotsIn Seed.parseProg_strs
namespace Seed.C17
open Seed

/-- every context wrapper of `Error` is looked through by the CLI renderer, or is one of the three variants that carry a
    position or a call frame and have an arm of their own (a `decide` fact about the two lists extracted from
    src/eval/error.rs and src/main.rs on every run).  This is what justifies erasing the other wrappers in the model. -/
theorem all_wrappers_peeled :
    Gen.wrapperVariants.all (fun w => Gen.peeledVariants.contains w || Gen.handledVariants.contains w) = true := by
  decide

/-- the renderer only peels actual wrappers, and the three special arms are wrappers too -/
theorem peeled_are_wrappers :
    (Gen.peeledVariants ++ Gen.handledVariants).all (fun w => Gen.wrapperVariants.contains w) = true := by
  decide

/-- the variants with an arm of their own are exactly the position / frame carriers the model keeps -/
theorem handled_are_the_carriers :
    Gen.handledVariants.all (fun w => [c!"AtLoc", c!"EvalFuncCallFailed", c!"EvalBuiltinFuncCallFailed"].contains w) = true ∧
    [c!"AtLoc", c!"EvalFuncCallFailed", c!"EvalBuiltinFuncCallFailed"].all (fun w => Gen.handledVariants.contains w) = true := by
  decide

/-- G5: whatever program is run, with whatever fuel, an evaluation error is located -/
theorem err_located (n : Nat) (stmts : List Stmt) (e : Err) (σ : State) (h : evalProg n stmts = .err e σ) : Located e := by
  have := evalProg_located n stmts
  rw [h] at this
  exact this

/-- number of user-function call frames around the failure -/
def frames : Err → Nat
  | .leaf _ => 0
  | .atLoc _ _ e => frames e
  | .builtinCall _ _ e => frames e
  | .funcCall _ _ e => frames e + 1

/-- the stack trace has exactly one line per active user-function call -/
theorem trace_length (path : List Char) (func : Option (List Char)) (e : Err) :
    (renderErr path func e).2.length = frames e := by
  induction e generalizing func with
  | leaf l => simp [renderErr, frames]
  | atLoc line col e ih => simp only [renderErr, frames]; exact ih _
  | builtinCall name loc e ih => simp only [renderErr, frames]; exact ih _
  | funcCall name loc e ih => simp only [renderErr, frames, List.length_append, List.length_cons, List.length_nil]; rw [ih]

/-- a located error renders as `<line>:<col>:` + (` in '<f>':` when inside a called function) + ` ` + message -/
theorem located_msg_shape (path : List Char) (func : Option (List Char)) (e : Err) (h : Located e) :
    ∃ (l c : Nat) (f' : Option (List Char)) (rest : List Char),
      (renderErr path func e).1 =
        natToChars l ++ c!":" ++ natToChars c ++ c!":" ++
          inFunc f' ++ c!" " ++ rest := by
  induction e generalizing func with
  | leaf l => exact absurd h (by simp [Located])
  | atLoc line col e _ => exact ⟨line, col, func, (renderErr path func e).1, by simp [renderErr]⟩
  | builtinCall name loc e _ =>
    exact ⟨loc.1, loc.2, func, (renderErr path (some (name.getD c!"<unnamed function>")) e).1, by simp [renderErr]⟩
  | funcCall name loc e ih =>
    obtain ⟨l, c, f', rest, hr⟩ := ih (some (name.getD c!"<unnamed function>")) h
    exact ⟨l, c, f', rest, by simp only [renderErr]; exact hr⟩

/-- the innermost frame's trace line names the function that contains that call, the outermost names `<root>` -/
theorem trace_last_is_root (path : List Char) (name : Option (List Char)) (loc : Loc) (e : Err) :
    (renderErr path none (.funcCall name loc e)).2.getLast? =
      some (path ++ c!":" ++ natToChars loc.1 ++ c!":" ++ natToChars loc.2 ++ c!": in '<root>'") := by
  simp [renderErr]

/-- the whole text written to stderr for a located error: one first line `<path>:<l>:<c>:…`, then the trace -/
theorem stderr_shape (path : List Char) (e : Err) (h : Located e) :
    ∃ (l c : Nat) (f' : Option (List Char)) (rest : List Char),
      evalErrText path e =
        path ++ c!":" ++ (natToChars l ++ c!":" ++ natToChars c ++ c!":" ++
          inFunc f' ++ c!" " ++ rest) ++
        (if (renderErr path none e).2.isEmpty then [] else c!"\nStacktrace:\n  " ++ joinWith c!"\n  " (renderErr path none e).2) ++
        c!"\n" := by
  obtain ⟨l, c, f', rest, hr⟩ := located_msg_shape path none e h
  refine ⟨l, c, f', rest, ?_⟩
  unfold evalErrText
  simp only []
  rw [← hr]

/-- a successful run writes nothing to stderr; a failed one exits with the failure status and keeps the lines printed so far -/
theorem ok_silent (n : Nat) (path src : List Char) (h : (run n path src).status = .success) : (run n path src).stderr = [] := by
  unfold run at *
  split at h <;> try (simp at h)
  split at h <;> simp_all

/-- evaluation errors keep the output of the prints completed before them: the state carried by the error is the one
    whose output is reported -/
theorem failed_keeps_output (n : Nat) (path src : List Char) (stmts : List Stmt) (e : Err) (σ : State)
    (hp : parseProg src = .ok stmts) (he : evalProg n stmts = .err e σ) :
    run n path src = ⟨σ.out.reverse, .failed, evalErrText path e⟩ := by
  unfold run
  simp only [hp, he]

/-- G3 instance: the output of a statement list extends the output it started from (nothing is ever retracted),
    whether it completes, fails or crashes -/
theorem out_only_grows (n : Nat) (σ : State) (sc : List Addr) (ss : List Stmt) :
    Res.Rel OutGrows σ (evalStmts n σ sc ss) :=
  (relAll outGrows_good n).evalStmts σ σ sc ss (outGrows_good.refl σ)

/-- non-vacuity: a concrete located error with one call frame, and its rendering -/
example : Located (.funcCall (some c!"f") (4, 1) (Err.at (2, 14) (Gen.Leaf.Undefined c!"x"))) := trivial
example : frames (.funcCall (some c!"f") (4, 1) (Err.at (2, 14) (Gen.Leaf.Undefined c!"x"))) = 1 := rfl

/-! ### the positions of a run-time diagnostic lie in the source (Lemmas/C18EvalPos*.lean; C18 `eval_uses_node_pos`) -/

-- audit: Seed.evalPosAll Seed.evalProg_pos Seed.eval_uses_node_pos Seed.progMark_line_ge_one Seed.TokStart.line Seed.Err.allPos_iff

/-- **`diag_line_ge_one`.**  a source that parses and fails at run time: every position in the error — the `line:col`
    of every `atLoc` node, the call position of every call frame, at any depth, interpolation slots included — has
    line ≥ 1 (a position in the leaf's payload has line ≥ 1 or is the `0:0` of the built-in `print`) -/
theorem diag_line_ge_one {src : List Char} {stmts : List Stmt} {n : Nat} {e : Err} {σ : State}
    (hp : parseProg src = .ok stmts) (h : evalProg n stmts = .err e σ) : e.AllPos (fun l => 1 ≤ l.1) :=
  Seed.diag_line_ge_one hp h

/-- **every position of every runtime diagnostic is a line of the source**, for every program — interpolation slots
    included.  A slot's text is parsed on its own at run time and positions inside it are relative to that text, but the
    lexer copies slot characters verbatim (no escape processing inside `${…}`), so every slot text that can ever be parsed,
    at any nesting depth, is a contiguous piece of the source (`progMark_slot_piece`) and has no more line breaks than it;
    the decoded literal around it may have more (escapes `\n`), which is why the bound is on the slot text and not on the
    literal.  (Until the third session this was proved only for programs without slots: `diag_line_in_source_partial`.) -/
theorem diag_line_in_source {src : List Char} {stmts : List Stmt} {n : Nat} {e : Err} {σ : State}
    (hp : parseProg src = .ok stmts) (h : evalProg n stmts = .err e σ) :
    e.AllPos (fun l => 1 ≤ l.1 ∧ l.1 ≤ 1 + src.count '\n') :=
  Seed.diag_line_in_source hp h

/-- the special case that was proved first (no slots) -/
theorem diag_line_in_source_partial {src : List Char} {stmts : List Stmt} {n : Nat} {e : Err} {σ : State}
    (hp : parseProg src = .ok stmts) (_hns : NoSlots stmts) (h : evalProg n stmts = .err e σ) :
    e.AllPos (fun l => 1 ≤ l.1 ∧ l.1 ≤ 1 + src.count '\n') :=
  diag_line_in_source hp h

/-- non-vacuity with nested slots and escaped line feeds: a one-line source whose decoded literal has line feeds the
    source lacks still reports line 1 -/
example : ∃ stmts e σ, parseProg c!"x := 1;\nprint($\"a\\n\\n${\n\nx + y}\");" = .ok stmts ∧
    evalProg 60 stmts = .err e σ ∧ e.headPos = some (2, 14) ∧ ¬ NoSlots stmts := by
  obtain ⟨e, σ, he, hp⟩ := errOf_map (n := 60) (stmts := progOf c!"x := 1;\nprint($\"a\\n\\n${\n\nx + y}\");")
    (f := Err.headPos) (x := some (2, 14)) (by decide +kernel)
  exact ⟨_, e, σ, parseProg_progOf (by decide +kernel), he, hp, by decide +kernel⟩

/-- a located error has a first position, and the message starts with it -/
theorem located_head_pos (path : List Char) (func : Option (List Char)) (e : Err) (h : Located e) :
    ∃ (l : Loc) (f' : Option (List Char)) (rest : List Char), e.headPos = some l ∧
      (renderErr path func e).1 = natToChars l.1 ++ c!":" ++ natToChars l.2 ++ c!":" ++ inFunc f' ++ c!" " ++ rest := by
  induction e generalizing func with
  | leaf l => exact absurd h (by simp [Located])
  | atLoc line col e _ => exact ⟨(line, col), func, (renderErr path func e).1, rfl, by simp [renderErr]⟩
  | builtinCall name loc e _ =>
    exact ⟨loc, func, (renderErr path (some (name.getD c!"<unnamed function>")) e).1, rfl, by simp [renderErr]⟩
  | funcCall name loc e ih =>
    obtain ⟨l, f', rest, hl, hr⟩ := ih (some (name.getD c!"<unnamed function>")) h
    exact ⟨l, f', rest, hl, by simp only [renderErr]; exact hr⟩

/-- the diagnostic line of a failed run: `<path>:<l>:<c>:…` with `l ≥ 1` -/
theorem stderr_line_ge_one (path : List Char) {src : List Char} {stmts : List Stmt} {n : Nat} {e : Err} {σ : State}
    (hp : parseProg src = .ok stmts) (h : evalProg n stmts = .err e σ) :
    ∃ (l c : Nat) (f' : Option (List Char)) (rest : List Char), 1 ≤ l ∧
      (renderErr path none e).1 = natToChars l ++ c!":" ++ natToChars c ++ c!":" ++ inFunc f' ++ c!" " ++ rest := by
  obtain ⟨l, f', rest, hl, hr⟩ := located_head_pos path none e (err_located n stmts e σ h)
  exact ⟨l.1, l.2, f', rest, (Seed.diag_line_ge_one hp h).headPos hl, hr⟩

/-- … and `l` is a line of the source, whatever the program (slots included) -/
theorem stderr_line_in_source (path : List Char) {src : List Char} {stmts : List Stmt} {n : Nat} {e : Err} {σ : State}
    (hp : parseProg src = .ok stmts) (h : evalProg n stmts = .err e σ) :
    ∃ (l c : Nat) (f' : Option (List Char)) (rest : List Char), 1 ≤ l ∧ l ≤ 1 + src.count '\n' ∧
      (renderErr path none e).1 = natToChars l ++ c!":" ++ natToChars c ++ c!":" ++ inFunc f' ++ c!" " ++ rest := by
  obtain ⟨l, f', rest, hl, hr⟩ := located_head_pos path none e (err_located n stmts e σ h)
  have hb := Seed.diag_head_line_in_source hp h hl
  exact ⟨l.1, l.2, f', rest, hb.1, hb.2, hr⟩

/-- non-vacuity: a failure inside a called function (its body comes out of a heap cell); both positions are on lines
    1 … 4 of the four-line source -/
example : ∃ stmts e σ, parseProg c!"fn f(a) {\n    return a + x;\n}\nf(1);\n" = .ok stmts ∧ NoSlots stmts ∧
    evalProg 40 stmts = .err e σ ∧ e.positions = [(4, 1), (2, 16)] := by
  obtain ⟨e, σ, he, hp⟩ := errOf_map (n := 40) (stmts := progOf c!"fn f(a) {\n    return a + x;\n}\nf(1);\n")
    (f := Err.positions) (x := [(4, 1), (2, 16)]) (by decide +kernel)
  exact ⟨_, e, σ, parseProg_progOf (by decide +kernel), by decide +kernel, he, hp⟩

example : (run 40 c!"p.sd" c!"fn f(a) {\n    return a + x;\n}\nf(1);\n").stderr =
    c!"p.sd:2:16: in 'f': 'x' is not defined\nStacktrace:\n  p.sd:4:1: in '<root>'\n" := by decide +kernel

end Seed.C17
