import SeedModel.Run
namespace Seed.C17

/-- every context wrapper of `Error` is looked through by the CLI renderer, or is one of the three variants that carry a
    position or a call frame and have an arm of their own (a `decide` fact about the two lists extracted from
    src/eval/error.rs and src/main.rs) -/
theorem all_wrappers_peeled :
    Gen.wrapperVariants.all (fun w => Gen.peeledVariants.contains w || Gen.handledVariants.contains w) = true := by
  decide

/-- the renderer only peels actual wrappers -/
theorem peeled_are_wrappers : Gen.peeledVariants.all (fun w => Gen.wrapperVariants.contains w) = true := by
  decide

end Seed.C17
