/-
  C16 — no implicit conversions: out-of-domain operands are type errors naming the types.

  `allowed` is transcribed from the property statement; the theorems say that `applyBinOp` answers exactly on
  `allowed`, and with the located `InvalidOpTypes` / `InvalidEqOpTypes` diagnostic everywhere else; that the two
  extracted type-name tables agree; and, one evaluator step deep, that every typed context rejects every other kind
  with its specific located diagnostic.
-/
import SeedProofs.Lemmas.C16Kinds
import SeedModel.Run
namespace Seed.C16
open Seed

/-! ## the operator × kind × kind matrix -/

/-- **C16.**  Only the documented operand kinds are ever answered with a value. -/
theorem binop_domain {fuel : Nat} {σ σ' : State} {op : BinaryOp} {loc : Loc} {a b v : Val}
    (h : applyBinOp fuel σ op loc a b = .ok v σ') : allowed op a.kind b.kind = true := by
  by_cases heq : op = .Eq ∨ op = .Ne
  · have : ∃ r, eqVal fuel σ a b = .ok r := by
      rcases heq with rfl | rfl
      all_goals
        simp only [applyBinOp] at h
        cases hr : eqVal fuel σ a b <;> rw [hr] at h <;> first | exact ⟨_, rfl⟩ | cases h
    obtain ⟨r, hr⟩ := this
    have := eqVal_ok_kinds hr
    rcases heq with rfl | rfl <;> exact this
  · exact domain_noneq (fun h => heq (Or.inl h)) (fun h => heq (Or.inr h)) h

example : applyBinOp 0 State.init .Sum (1, 1) (.str [65]) (.str [66]) = .ok (.str [65, 66]) State.init := rfl

/-- **C16.**  Every other combination of a non-equality operator stops with the diagnostic that carries the operator
    and both operand kinds, in order, at the operator's position — whatever the fuel and the state. -/
theorem binop_reject {op : BinaryOp} {a b : Val} (h : allowed op a.kind b.kind = false)
    (hne1 : op ≠ .Eq) (hne2 : op ≠ .Ne) (fuel : Nat) (σ : State) (loc : Loc) :
    applyBinOp fuel σ op loc a b = .err (invalidOpTypes op loc a b) σ :=
  reject_noneq h hne1 hne2 fuel σ loc

example : allowed .Sum (Val.int 1).kind (Val.str []).kind = false ∧ BinaryOp.Sum ≠ .Eq ∧ BinaryOp.Sum ≠ .Ne := by decide
example : allowed .RefEq (Val.str []).kind (Val.str []).kind = false := by decide
example : allowed .And (Val.int 1).kind (Val.int 0).kind = false := by decide

/-- **C16.**  `==`/`!=` on operands of different kinds, or on two functions, is the error naming both types in order -/
theorem eq_kind_mismatch {op : BinaryOp} (hop : op = .Eq ∨ op = .Ne) {a b : Val}
    (h : allowed op a.kind b.kind = false) (fuel : Nat) (σ : State) (loc : Loc) :
    applyBinOp (fuel + 1) σ op loc a b =
      .err (Err.at loc (Gen.Leaf.InvalidEqOpTypes op (Gen.typeNameDiag a.kind) (Gen.typeNameDiag b.kind) [])) σ := by
  have hm : eqVal (fuel + 1) σ a b = .mismatch [] (Gen.typeNameDiag a.kind) (Gen.typeNameDiag b.kind) := by
    apply eqVal_mismatch
    rcases hop with rfl | rfl <;> exact h
  rcases hop with rfl | rfl <;> simp [applyBinOp, hm]

example : allowed .Eq (Val.int 1).kind (Val.bool true).kind = false := by decide
example : allowed .Ne (Val.func 0).kind (Val.func 0).kind = false := by decide

/-- the shape of the operator diagnostic: `can't apply '<op>' to '<lhs type>' and '<rhs type>'`, left operand first -/
theorem binop_msg (op : BinaryOp) (l r : Kind) :
    (Gen.Leaf.InvalidOpTypes op l r).msg =
      c!"can't apply '" ++ Gen.opSymbol op ++ c!"' to '" ++ Gen.typeNameDiag l ++ c!"' and '" ++ Gen.typeNameDiag r ++ c!"'" := rfl

/-- the same shape for `==`/`!=`, with the optional path suffix -/
theorem eq_msg (op : BinaryOp) (lt rt msg : List Char) :
    (Gen.Leaf.InvalidEqOpTypes op lt rt msg).msg =
      c!"can't apply '" ++ Gen.opSymbol op ++ c!"' to '" ++ lt ++ c!"' and '" ++ rt ++ c!"'" ++ msg := rfl

/-- the operand order in the message is the operand order of the expression (an asymmetric instance) -/
theorem binop_msg_order :
    (Gen.Leaf.InvalidOpTypes .Sum .Int .Str).msg = c!"can't apply '+' to 'int' and 'string'" ∧
    (Gen.Leaf.InvalidOpTypes .Sum .Str .Int).msg = c!"can't apply '+' to 'string' and 'int'" := ⟨rfl, rfl⟩

/-- the fifteen operator symbols are the documented ones, and pairwise distinct -/
theorem op_symbols :
    [BinaryOp.Sum, .Sub, .Mul, .Div, .Mod, .And, .Or, .Eq, .Ne, .Gt, .Gte, .Lt, .Lte, .RefEq, .RefNe].map Gen.opSymbol =
      [c!"+", c!"-", c!"*", c!"/", c!"%", c!"&&", c!"||", c!"==", c!"!=", c!">", c!">=", c!"<", c!"<=", c!"===", c!"!=="] := rfl

theorem op_symbols_injective (o₁ o₂ : BinaryOp) (h : Gen.opSymbol o₁ = Gen.opSymbol o₂) : o₁ = o₂ := by
  cases o₁ <;> cases o₂ <;> first | rfl | (revert h; decide)

example : Gen.opSymbol .Lte = Gen.opSymbol .Lte := rfl

/-- no coercion of results either: the kind of the answer is fixed by the operator (and, for `+`, the operands' kind) -/
theorem no_coercion {fuel : Nat} {σ σ' : State} {op : BinaryOp} {loc : Loc} {a b v : Val}
    (h : applyBinOp fuel σ op loc a b = .ok v σ') : v.kind = resultKind op a.kind := by
  by_cases heq : op = .Eq ∨ op = .Ne
  · rcases heq with rfl | rfl
    all_goals
      simp only [applyBinOp] at h
      cases hr : eqVal fuel σ a b <;> rw [hr] at h <;> first | (cases h; rfl) | cases h
  · exact result_kind_noneq (fun h => heq (Or.inl h)) (fun h => heq (Or.inr h)) h

example : applyBinOp 0 State.init .Lt (1, 1) (.int 1) (.int 2) = .ok (.bool true) State.init := rfl

/-! ## type names -/

/-- **C16.**  The names used in diagnostics are the names `->type()` returns (two separately extracted tables) -/
theorem type_names_agree : Gen.typeNameDiag = Gen.typeNameFn := by
  funext k; cases k <;> rfl

/-- and they are the documented ones -/
theorem type_names_documented :
    [Kind.Null, .Bool, .Int, .Str, .List, .Object, .Func, .BuiltinFunc].map Gen.typeNameFn =
      [c!"null", c!"bool", c!"int", c!"string", c!"list", c!"object", c!"func", c!"func"] := rfl

/-- `v->type()` is defined for every kind except null: the namespace exists and holds `type` … -/
theorem type_fn_total (k : Kind) (hk : k ≠ .Null) :
    ∃ ns name, typeNamespace k = some ns ∧ typeFnLookup ns c!"type" Gen.typeFnTable = some (.builtin name .anyType) := by
  cases k
  · exact absurd rfl hk
  all_goals exact ⟨_, _, rfl, rfl⟩

example : Kind.Func ≠ .Null := by decide

/-- … null has no type functions … -/
theorem type_fn_null : typeNamespace .Null = none := rfl

/-- … and calling it returns the type name of the receiver, for any receiver -/
theorem type_fn_value (fuel : Nat) (σ : State) (t : SVal) :
    callBuiltin fuel σ .anyType (some t) [] = .ok (SVal.plain (.str (utf8Encode (Gen.typeNameFn t.v.kind)))) σ := by
  simp [callBuiltin, assertArgs]

/-- `e->type` one evaluator step deep: a located error on null, the `type` builtin bound to the receiver otherwise -/
theorem type_prop_step (n : Nat) (σ σ1 : State) (sc : List Addr) (ex : Expr) (loc : Loc) (src : SVal)
    (h : evalExpr n σ sc ex = .ok src σ1) :
    (src.v.kind = .Null →
      evalExpr (n + 1) σ sc (.mk (.Prop ex c!"type" true) loc) = errAt loc Gen.Leaf.TypeFunctionOnNull σ1) ∧
    (src.v.kind ≠ .Null → ∃ name,
      evalExpr (n + 1) σ sc (.mk (.Prop ex c!"type" true) loc) = .ok ⟨.builtin name .anyType, some src.v⟩ σ1) := by
  constructor
  · intro hk
    simp only [evalExpr, h, Res.bind, hk, typeNamespace, if_true]
  · intro hk
    obtain ⟨ns, name, h1, h2⟩ := type_fn_total src.v.kind hk
    exact ⟨name, by simp only [evalExpr, h, Res.bind, h1, h2, if_true]⟩

example : evalExpr 1 State.init [] (.mk (.Int 3) (1, 1)) = .ok (SVal.plain (.int 3)) State.init ∧
    (SVal.plain (.int 3)).v.kind ≠ .Null := ⟨by simp [evalExpr], by decide⟩

/-! ## typed contexts, one evaluator step deep

Each theorem takes the result of evaluating the sub-expression as a hypothesis and shows what the context does with a
value of the wrong kind: the specific located diagnostic carrying the offending kind, nothing else (no coercion, no
crash).  `example`s exhibit a sub-expression meeting the hypotheses. -/

/-- conditions of `if`/`while` and every other boolean context -/
theorem ctx_bool (n : Nat) (σ σ1 : State) (sc : List Addr) (descr : List Char) (e : Expr) (v : SVal)
    (h : evalExpr n σ sc e = .ok v σ1) :
    (∀ b, v.v = .bool b → evalToBool (n + 1) σ sc descr e = .ok b σ1) ∧
    (v.v.kind ≠ .Bool → evalToBool (n + 1) σ sc descr e = errAt e.loc (Gen.Leaf.IncorrectType descr c!"bool" v.v.kind) σ1) := by
  constructor
  · intro b hb
    simp only [evalToBool, h, Res.bind, hb]
  · intro hk
    simp only [evalToBool, h, Res.bind]
    cases hv : v.v <;> simp_all [Val.kind]

example : evalExpr 1 State.init [] (.mk (.Int 0) (1, 4)) = .ok (SVal.plain (.int 0)) State.init ∧
    (SVal.plain (.int 0)).v.kind ≠ .Bool := ⟨by simp [evalExpr], by decide⟩

/-- range bounds, indices and every other integer context -/
theorem ctx_int (n : Nat) (σ σ1 : State) (sc : List Addr) (descr : List Char) (e : Expr) (v : SVal)
    (h : evalExpr n σ sc e = .ok v σ1) :
    (∀ i, v.v = .int i → evalToInt (n + 1) σ sc descr e = .ok i σ1) ∧
    (v.v.kind ≠ .Int → evalToInt (n + 1) σ sc descr e = errAt e.loc (Gen.Leaf.IncorrectType descr c!"int" v.v.kind) σ1) := by
  constructor
  · intro b hb
    simp only [evalToInt, h, Res.bind, hb]
  · intro hk
    simp only [evalToInt, h, Res.bind]
    cases hv : v.v <;> simp_all [Val.kind]

example : evalExpr 1 State.init [] (.mk (.Bool true) (1, 4)) = .ok (SVal.plain (.bool true)) State.init ∧
    (SVal.plain (.bool true)).v.kind ≠ .Int := ⟨by simp [evalExpr], by decide⟩

/-- an index is an integer context named `index` -/
theorem ctx_index (n : Nat) (σ σ1 : State) (sc : List Addr) (e : Expr) (v : SVal)
    (h : evalExpr n σ sc e = .ok v σ1) (hk : v.v.kind ≠ .Int) :
    evalToIndex (n + 2) σ sc e = errAt e.loc (Gen.Leaf.IncorrectType c!"index" c!"int" v.v.kind) σ1 := by
  have := (ctx_int n σ σ1 sc c!"index" e v h).2 hk
  simp only [evalToIndex, this, errAt, Res.bind]

/-- both operands of `..` are integer contexts named `range start` / `range end` -/
theorem ctx_range (n : Nat) (σ σ1 : State) (sc : List Addr) (a b : Expr) (loc : Loc) (v : SVal)
    (h : evalExpr n σ sc a = .ok v σ1) (hk : v.v.kind ≠ .Int) :
    evalExpr (n + 2) σ sc (.mk (.Range a b) loc) =
      errAt a.loc (Gen.Leaf.IncorrectType c!"range start" c!"int" v.v.kind) σ1 := by
  have := (ctx_int n σ σ1 sc c!"range start" a v h).2 hk
  simp only [evalExpr, this, errAt, Res.bind]

/-- property names and every other string context -/
theorem ctx_str (n : Nat) (σ σ1 : State) (sc : List Addr) (descr : List Char) (e : Expr) (v : SVal)
    (h : evalExpr n σ sc e = .ok v σ1) (hk : v.v.kind ≠ .Str) :
    evalToStr (n + 1) σ sc descr e = errAt e.loc (Gen.Leaf.IncorrectType descr c!"string" v.v.kind) σ1 := by
  simp only [evalToStr, h, Res.bind]
  cases hv : v.v <;> simp_all [Val.kind]

example : evalExpr 1 State.init [] (.mk .Null (2, 4)) = .ok (SVal.plain .null) State.init ∧
    (SVal.plain Val.null).v.kind ≠ .Str := ⟨by simp [evalExpr], by decide⟩

/-- spread inside a list literal needs a list -/
theorem ctx_spread_list (n : Nat) (σ σ1 : State) (sc : List Addr) (e : Expr) (r : List ListItem) (acc : List SVal) (v : SVal)
    (h : evalExpr n σ sc e = .ok v σ1) (hk : v.v.kind ≠ .List) :
    evalListItems (n + 1) σ sc (.mk e true :: r) acc = errAt e.loc (Gen.Leaf.SpreadNonListInList v.v.kind) σ1 := by
  simp only [evalListItems, h, Res.bind]
  cases hv : v.v <;> simp_all [Val.kind]

/-- spread inside an object literal needs an object -/
theorem ctx_spread_object (n : Nat) (σ σ1 : State) (sc : List Addr) (objLoc : Loc) (e : Expr) (r : List PropItem)
    (acc : ObjMap) (v : SVal) (h : evalExpr n σ sc e = .ok v σ1) (hk : v.v.kind ≠ .Object) :
    evalProps (n + 1) σ sc objLoc (.Single e true false :: r) acc =
      errAt e.loc (Gen.Leaf.SpreadNonObjectInObject v.v.kind) σ1 := by
  simp only [evalProps, h, Res.bind]
  cases hv : v.v <;> simp_all [Val.kind]

/-- `e.name` needs an object -/
theorem ctx_prop (n : Nat) (σ σ1 : State) (sc : List Addr) (ex : Expr) (name : List Char) (loc : Loc) (v : SVal)
    (h : evalExpr n σ sc ex = .ok v σ1) (hk : v.v.kind ≠ .Object) :
    evalExpr (n + 1) σ sc (.mk (.Prop ex name false) loc) = errAt loc (Gen.Leaf.PropAccessOnNonObject v.v.kind) σ1 := by
  simp only [evalExpr, h, Res.bind]
  cases hv : v.v <;> simp_all [Val.kind]

/-- the callee must be a function -/
theorem ctx_call (n : Nat) (σ σ1 σ2 : State) (sc : List Addr) (f : Expr) (args : List ListItem) (loc : Loc)
    (argVals : List SVal) (fv : SVal)
    (ha : evalListItems n σ sc args [] = .ok argVals σ1) (hf : evalExpr n σ1 sc f = .ok fv σ2)
    (hk : fv.v.kind ≠ .Func ∧ fv.v.kind ≠ .BuiltinFunc) :
    evalCall (n + 1) σ sc f args loc = errAt loc (Gen.Leaf.CannotCallNonFunc fv.v.kind) σ2 := by
  simp only [evalCall, ha, hf, Res.bind]
  cases hv : fv.v <;> simp_all [Val.kind]

example : evalListItems 1 State.init [] [] [] = .ok [] State.init ∧
    evalExpr 1 State.init [] (.mk (.Int 3) (1, 1)) = .ok (SVal.plain (.int 3)) State.init ∧
    ((SVal.plain (.int 3)).v.kind ≠ .Func ∧ (SVal.plain (.int 3)).v.kind ≠ .BuiltinFunc) :=
  ⟨by simp [evalListItems], by simp [evalExpr], by decide⟩

/-- `for` iterates strings, lists and objects only -/
theorem ctx_for (n : Nat) (σ σ1 : State) (sc : List Addr) (lhs iter : Expr) (stmts : List Stmt) (it : SVal)
    (h : evalExpr n σ sc iter = .ok it σ1)
    (hk : it.v.kind ≠ .Str ∧ it.v.kind ≠ .List ∧ it.v.kind ≠ .Object) :
    evalStmt (n + 1) σ sc (.For lhs iter stmts) = errAt iter.loc Gen.Leaf.ForIterNotIterable σ1 := by
  simp only [evalStmt, h, Res.bind]
  cases hv : it.v <;> simp_all [Val.kind, toPairs]

/-- a list pattern destructures lists only, an object pattern objects only -/
theorem ctx_destructure (n : Nat) (σ : State) (sc : List Addr) (names : List (List Char)) (loc : Loc) (rhs : SVal) (decl : Bool) :
    (∀ items collect, rhs.v.kind ≠ .List →
      bindNext (n + 1) σ sc names (.mk (.List items collect) loc) rhs none decl =
        errAt loc (Gen.Leaf.ListDestructureOnNonList rhs.v.kind) σ) ∧
    (∀ props, rhs.v.kind ≠ .Object →
      bindNext (n + 1) σ sc names (.mk (.Object props) loc) rhs none decl =
        errAt loc (Gen.Leaf.ObjectDestructureOnNonObject rhs.v.kind) σ) := by
  constructor
  · intro items collect hk
    simp only [bindNext]
    cases hv : rhs.v <;> simp_all [Val.kind]
  · intro props hk
    simp only [bindNext]
    cases hv : rhs.v <;> simp_all [Val.kind]

example : (SVal.plain (.str [])).v.kind ≠ .List ∧ (SVal.plain (.list 0)).v.kind ≠ .Object := by decide

/-- an interpolation slot must evaluate to a string -/
theorem ctx_slot (n : Nat) (σ σ1 : State) (sc : List Addr) (s : List Char) (start stop : Nat) (r : List (Nat × Nat))
    (loc : Loc) (last : Nat) (acc : List Char) (ast : Expr) (v : SVal)
    (hp : parseExprTop (sliceChars s (start + 2) (stop - 1)) = .ok ast)
    (h : evalExpr n σ sc ast = .ok v σ1) (hk : v.v.kind ≠ .Str) :
    interpolate (n + 1) σ sc s ((start, stop) :: r) loc last acc =
      .err (.atLoc loc.1 (loc.2 + start + 4) (.leaf (Gen.Leaf.InterpolatedValueNotString v.v.kind))) σ1 := by
  simp only [interpolate, hp, h, Res.mapErr, Res.bind]
  cases hv : v.v <;> simp_all [Val.kind]

/-- the situations of the context theorems occur, through the whole pipeline (lexer, parser, evaluator, renderer) -/
example :
    (run 300 c!"t.sd" c!"print($\"a${1}b\")\n").stderr = c!"t.sd:1:12: interpolated values can only be strings, got 'int'\n" ∧
    (run 300 c!"t.sd" c!"print([1..])\n").stderr = c!"t.sd:1:8: only lists can be spread in lists, got 'int'\n" ∧
    (run 300 c!"t.sd" c!"print({1..})\n").stderr = c!"t.sd:1:8: only objects can be spread in objects, got 'int'\n" ∧
    (run 300 c!"t.sd" c!"for [i, v] in 1 { print(v); }\n").stderr = c!"t.sd:1:15: 'for' iterator must be a 'list', 'object' or 'string'\n" ∧
    (run 300 c!"t.sd" c!"x := 1\nprint(x.a)\n").stderr = c!"t.sd:2:7: properties can only be accessed on objects, got 'int'\n" ∧
    (run 300 c!"t.sd" c!"print(1 .. \"a\")\n").stderr = c!"t.sd:1:12: range end must be 'int', got 'string'\n" ∧
    (run 300 c!"t.sd" c!"print(null->type())\n").stderr = c!"t.sd:1:7: cannot access type function on 'null'\n" ∧
    (run 300 c!"t.sd" c!"print(print->type())\nprint([]->type())\n").out = [c!"func", c!"list"] := by
  decide +kernel

/-- the texts of the context diagnostics name the offending type with the same table -/
theorem ctx_msgs (descr exp : List Char) (k : Kind) :
    (Gen.Leaf.IncorrectType descr exp k).msg = descr ++ c!" must be '" ++ exp ++ c!"', got '" ++ Gen.typeNameDiag k ++ c!"'" ∧
    (Gen.Leaf.CannotCallNonFunc k).msg = c!"can't call '" ++ Gen.typeNameDiag k ++ c!"' as a function" ∧
    (Gen.Leaf.SpreadNonListInList k).msg = c!"only lists can be spread in lists, got '" ++ Gen.typeNameDiag k ++ c!"'" ∧
    (Gen.Leaf.SpreadNonObjectInObject k).msg = c!"only objects can be spread in objects, got '" ++ Gen.typeNameDiag k ++ c!"'" ∧
    (Gen.Leaf.PropAccessOnNonObject k).msg = c!"properties can only be accessed on objects, got '" ++ Gen.typeNameDiag k ++ c!"'" ∧
    (Gen.Leaf.InterpolatedValueNotString k).msg = c!"interpolated values can only be strings, got '" ++ Gen.typeNameDiag k ++ c!"'" :=
  ⟨rfl, rfl, rfl, rfl, rfl, rfl⟩

/-! ## the same domain, read off the source on every run

`Gen.binopArms` / `Gen.binopDelegates` are regenerated by tools/extract.py from `apply_binary_operation` (src/eval/mod.rs):
for every operator the `(Value::K(a), Value::K(b))` arms of its operand match (everything else falls to the
`InvalidOpTypes` default arm; a guard, a one-sided wildcard or any other arm shape is an extraction error).  -/

/-- the arms present in the source are exactly the documented domain … -/
theorem source_arms_are_the_documented_domain :
    ∀ op ∈ [BinaryOp.Sum, .Sub, .Mul, .Div, .Mod, .And, .Or, .Gt, .Gte, .Lt, .Lte],
    ∀ l ∈ [Kind.Null, .Bool, .Int, .Str, .List, .Object, .BuiltinFunc, .Func],
    ∀ r ∈ [Kind.Null, .Bool, .Int, .Str, .List, .Object, .BuiltinFunc, .Func],
      allowed op l r = ((lookupAssoc op Gen.binopArms).getD []).contains (l, r) := by decide

/-- … every operator is either in that table or handed to `eq` / `ref_eq` (which the C10 theorems cover) … -/
theorem source_operators_partition :
    Gen.binopArms.map Prod.fst = [.Sum, .Sub, .Mul, .Div, .Mod, .And, .Or, .Gt, .Gte, .Lt, .Lte] ∧
    Gen.binopDelegates = [(.Eq, c!"eq"), (.Ne, c!"eq"), (.RefEq, c!"ref_eq"), (.RefNe, c!"ref_eq")] := by decide

/-- … so the model answers with a value exactly where the source has an arm -/
theorem model_domain_is_source_domain {fuel : Nat} {σ σ' : State} {op : BinaryOp} {loc : Loc} {a b v : Val}
    (hop : op ∈ [BinaryOp.Sum, .Sub, .Mul, .Div, .Mod, .And, .Or, .Gt, .Gte, .Lt, .Lte])
    (h : applyBinOp fuel σ op loc a b = .ok v σ') :
    ((lookupAssoc op Gen.binopArms).getD []).contains (a.kind, b.kind) = true := by
  have hd := binop_domain h
  have hk : ∀ k : Kind, k ∈ [Kind.Null, .Bool, .Int, .Str, .List, .Object, .BuiltinFunc, .Func] := by
    intro k; cases k <;> decide
  rw [← source_arms_are_the_documented_domain op hop a.kind (hk _) b.kind (hk _)]
  exact hd

/-- the arms of `eq` and `ref_eq` in the source are the documented domains of `== !=` and `=== !==` (top level; inside
    containers `eq` recurses with the same arms, which is what the C10 theorems are about) -/
theorem source_eq_arms_are_the_documented_domain :
    ∀ l ∈ [Kind.Null, .Bool, .Int, .Str, .List, .Object, .BuiltinFunc, .Func],
    ∀ r ∈ [Kind.Null, .Bool, .Int, .Str, .List, .Object, .BuiltinFunc, .Func],
      allowed .Eq l r = Gen.eqArms.contains (l, r) ∧ allowed .Ne l r = Gen.eqArms.contains (l, r) ∧
      allowed .RefEq l r = Gen.refEqArms.contains (l, r) ∧ allowed .RefNe l r = Gen.refEqArms.contains (l, r) := by decide

end Seed.C16
