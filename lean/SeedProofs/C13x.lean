/-
  C13x — property theorems of C13 about everyday idioms (third session; Lemmas/IdiomsProofs*.lean).

  `swap_by_destructuring` / `rotate_by_destructuring`: `[a, b] = [b, a]` (and `[a, b, c] = [c, a, b]`) evaluates the right-hand side COMPLETELY into one fresh list
  and then binds: `a` reads the old `b`, `b` the old `a` (values with their sources), every other name of every scope reads as
  before, one cell is allocated.
-/
import SeedProofs.C13
import SeedProofs.Lemmas.IdiomsProofs
-- audit: Seed.Idioms.swap_by_destructuring Seed.Idioms.rotate_by_destructuring Seed.Idioms.evalExpr_varList
