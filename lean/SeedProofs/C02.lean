/-
  C02 — evaluation never crashes: it completes or reports a diagnostic.

  The model has a `crash` outcome at exactly the places where the Rust code can panic (a failed `try_lock`, an index or
  slice out of range, an arithmetic trap, an `expect`/`unreachable`).  G4 (file Lemmas/NoCrash.lean, by induction over all
  23 evaluator functions from the well-formedness invariant of Lemmas/WF.lean) shows that none of them is reachable,
  with the single exception the statement itself makes: rendering a value that contains itself.
-/
import SeedProofs.Lemmas.NoCrash
namespace Seed.C02
open Seed

-- audit: Seed.safeAll Seed.evalProg_safe Seed.evalProg_ok_wf Seed.evalExpr_no_crash Seed.evalStmts_no_crash Seed.bindList_no_index_crash Seed.eq_no_bad Seed.render_no_bad Seed.applyBinOp_safe Seed.callBuiltin_safe Seed.bindNextName_safe Seed.wf_init

/-- **G4.** Whatever the program and the fuel, the only crash evaluation can end in is `print` meeting a container that
    contains itself (`lock`): no dangling address, no empty scope chain, no out-of-range index, no arithmetic trap. -/
theorem no_crash (n : Nat) (stmts : List Stmt) (w : List Char) (σ : State) (h : evalProg n stmts = .crash w σ) :
    w = c!"lock" :=
  evalProg_no_crash n stmts w σ h

/-- the same for whole runs (lexing and parsing cannot crash in the model at all: their result types have no such outcome) -/
theorem run_no_crash (n : Nat) (path src : List Char) (h : (run n path src).status = .crashed) :
    (run n path src).stderr = c!"lock" :=
  run_crashed_lock n path src h

/-- arithmetic never crashes, also at zero divisors and at the ends of the 64-bit range -/
theorem arith_no_crash (op : BinaryOp) (loc : Loc) (a b : Int) (σ : State) :
    ∀ w σ', arith op loc a b σ ≠ .crash w σ' := by
  intro w σ'
  unfold arith
  cases op <;> simp only [] <;> (repeat' split) <;> simp

/-- `%`: a zero divisor is a reported error, and `MIN % -1` is the exact value 0 (the pinned tree panicked on both) -/
theorem mod_zero_is_error (loc : Loc) (a : Int) (σ : State) :
    arith .Mod loc a 0 σ = .err (intOverflow .Mod loc a 0) σ := by simp [arith]
theorem mod_min_neg1 (loc : Loc) (σ : State) : arith .Mod loc i64Min (-1) σ = .ok (.int 0) σ := by
  simp [arith, i64Min]

/-- the `lock` exception is not vacuous: a list stored inside itself is well-formed, and printing it is the one crash -/
example : (run 100 c!"t.sd" c!"x := [1]\nx[0] = x\nprint(x)\n").status = .crashed := by decide +kernel

/-- …while comparing, concatenating and op-assigning through aliases does not crash (these aborted the pinned tree) -/
example : (run 100 c!"t.sd" c!"a := [[]]\nprint([a] == a)\n").status = .success := by decide +kernel
example : (run 100 c!"t.sd" c!"xs := [[1]]\nxs[0] += xs\nprint(xs[0][1] === xs)\n").status = .success := by decide +kernel

end Seed.C02
