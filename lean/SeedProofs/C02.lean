import SeedModel.Eval
namespace Seed.C02

/-- arithmetic never crashes, also at zero divisors and at the ends of the 64-bit range -/
theorem arith_no_crash (op : BinaryOp) (loc : Loc) (a b : Int) (σ : State) :
    ∀ w σ', arith op loc a b σ ≠ .crash w σ' := by
  intro w σ'
  unfold arith
  cases op <;> simp only [] <;> (repeat' split) <;> simp

end Seed.C02
