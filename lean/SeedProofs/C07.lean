import SeedModel.Eval
namespace Seed.C07

/-- `break`, `continue` and `return` statements evaluate to the corresponding escape and leave the state alone -/
theorem break_escapes (n : Nat) (σ : State) (sc : List Addr) (l : Loc) :
    evalStmt (n + 1) σ sc (.Break l) = .ok (.brk l) σ := by
  rw [evalStmt]

theorem continue_escapes (n : Nat) (σ : State) (sc : List Addr) (l : Loc) :
    evalStmt (n + 1) σ sc (.Continue l) = .ok (.cont l) σ := by
  rw [evalStmt]

end Seed.C07
