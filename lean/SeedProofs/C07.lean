/-
  C07 — control flow: branches, loops, break/continue/return reach exactly their target.
-/
import SeedProofs.Global
import SeedProofs.C01
import SeedProofs.Lemmas.Located
namespace Seed.C07
open Seed

/-! ### generic consequence of G1 -/

theorem le_eq {α} {r r' : Res α} (h : Res.Le r r') (hr : r ≠ .timeout) : r' = r := by
  rcases h with h | h
  · exact absurd h hr
  · exact h.symm

theorem stmt_mono {n m : Nat} {σ sc st} {r : Res Escape} (h : evalStmt n σ sc st = r) (hr : r ≠ .timeout) (hnm : n ≤ m) :
    evalStmt m σ sc st = r := by
  have := Res.Le.of_step (fun k => evalStmt k σ sc st) (fun k => (monoAll k).evalStmt σ sc st) hnm
  rw [← h] at hr ⊢; exact le_eq this hr

theorem stmts_mono {n m : Nat} {σ sc ss} {r : Res Escape} (h : evalStmts n σ sc ss = r) (hr : r ≠ .timeout) (hnm : n ≤ m) :
    evalStmts m σ sc ss = r := evalStmts_fuel_mono h hr hnm

theorem bool_mono {n m : Nat} {σ sc d e} {r : Res Bool} (h : evalToBool n σ sc d e = r) (hr : r ≠ .timeout) (hnm : n ≤ m) :
    evalToBool m σ sc d e = r := by
  have := Res.Le.of_step (fun k => evalToBool k σ sc d e) (fun k => (monoAll k).evalToBool σ sc d e) hnm
  rw [← h] at hr ⊢; exact le_eq this hr

/-! ### one-step facts: what each construct does with an escape -/

/-- `break`, `continue` evaluate to the corresponding escape and leave the state alone -/
theorem break_escapes (n : Nat) (σ : State) (sc : List Addr) (l : Loc) :
    evalStmt (n + 1) σ sc (.Break l) = .ok (.brk l) σ := by unfold evalStmt; rfl

theorem continue_escapes (n : Nat) (σ : State) (sc : List Addr) (l : Loc) :
    evalStmt (n + 1) σ sc (.Continue l) = .ok (.cont l) σ := by unfold evalStmt; rfl

/-- `return e` evaluates `e` once and escapes with its value -/
theorem return_escapes (n : Nat) (σ σ' : State) (sc : List Addr) (l : Loc) (e : Expr) (v : SVal)
    (h : evalExpr n σ sc e = .ok v σ') : evalStmt (n + 1) σ sc (.Return l e) = .ok (.ret v l) σ' := by
  unfold evalStmt; simp [h, Res.bind]

/-- statements after an escaping statement in the same body do not run -/
theorem escape_skips_rest (n : Nat) (σ σ' : State) (sc : List Addr) (st : Stmt) (rest : List Stmt) (esc : Escape)
    (h : evalStmt n σ sc st = .ok esc σ') (hesc : esc ≠ .none) :
    evalStmts (n + 1) σ sc (st :: rest) = .ok esc σ' := by
  cases esc with
  | none => exact absurd rfl hesc
  | brk l => unfold evalStmts; simp only [h, Res.bind]
  | cont l => unfold evalStmts; simp only [h, Res.bind]
  | ret v l => unfold evalStmts; simp only [h, Res.bind]

/-- a statement that completes normally hands over to the rest of the body -/
theorem normal_continues (n : Nat) (σ σ' : State) (sc : List Addr) (st : Stmt) (rest : List Stmt)
    (h : evalStmt n σ sc st = .ok .none σ') : evalStmts (n + 1) σ sc (st :: rest) = evalStmts n σ' sc rest := by
  conv => lhs; unfold evalStmts
  simp only [h, Res.bind]

/-- a bare block forwards whatever its statements produce, escape included (this is what the pinned tree got wrong) -/
theorem block_forwards (n : Nat) (σ : State) (sc : List Addr) (b : List Stmt) :
    evalStmt (n + 1) σ sc (.Block b) = evalBlock n σ sc [] b := by unfold evalStmt; rfl

/-- a block with no bindings: a fresh scope cell, then the statements on the extended chain -/
theorem block_fresh_scope (n : Nat) (σ : State) (sc : List Addr) (b : List Stmt) :
    evalBlock (n + 2) σ sc [] b = evalStmts (n + 1) (σ.alloc (.scope [])).2 ((σ.alloc (.scope [])).1 :: sc) b := by
  conv => lhs; unfold evalBlock
  have h : declareAll (n + 1) (σ.alloc (.scope [])).2 ((σ.alloc (.scope [])).1 :: sc) [] = .ok () (σ.alloc (.scope [])).2 := by
    conv => lhs; unfold declareAll
    all_goals (try rfl)
  simp only [h, Res.bind]
  all_goals (try rfl)

/-- an `if` chain: conditions are evaluated in order; the first true one selects its block, whose result (escape
    included) is the result of the statement; later conditions are not evaluated -/
theorem if_cons (n : Nat) (σ : State) (sc : List Addr) (cond : Expr) (stmts : List Stmt) (r : List Branch) (els : Option (List Stmt)) :
    evalIf (n + 1) σ sc (.mk cond stmts :: r) els =
      (evalToBool n σ sc c!"condition" cond).bind fun b σ1 =>
        if b then evalBlock n σ1 sc [] stmts else evalIf n σ1 sc r els := by
  conv => lhs; unfold evalIf
  all_goals (try rfl)

theorem if_true_selects (n : Nat) (σ σ1 : State) (sc : List Addr) (cond : Expr) (stmts : List Stmt) (r : List Branch)
    (els : Option (List Stmt)) (h : evalToBool n σ sc c!"condition" cond = .ok true σ1) :
    evalIf (n + 1) σ sc (.mk cond stmts :: r) els = evalBlock n σ1 sc [] stmts := by
  rw [if_cons, h]; simp [Res.bind]

theorem if_false_moves_on (n : Nat) (σ σ1 : State) (sc : List Addr) (cond : Expr) (stmts : List Stmt) (r : List Branch)
    (els : Option (List Stmt)) (h : evalToBool n σ sc c!"condition" cond = .ok false σ1) :
    evalIf (n + 1) σ sc (.mk cond stmts :: r) els = evalIf n σ1 sc r els := by
  rw [if_cons, h]; simp [Res.bind]

theorem if_else (n : Nat) (σ : State) (sc : List Addr) (stmts : List Stmt) :
    evalIf (n + 1) σ sc [] (some stmts) = evalBlock n σ sc [] stmts := by unfold evalIf; rfl

theorem if_no_branch (n : Nat) (σ : State) (sc : List Addr) : evalIf (n + 1) σ sc [] none = .ok .none σ := by
  unfold evalIf; rfl

/-- `while`: the condition is evaluated before every iteration; `break` ends the loop normally, `continue` and normal
    completion re-enter it, `return` is forwarded -/
theorem while_step (n : Nat) (σ : State) (sc : List Addr) (cond : Expr) (stmts : List Stmt) :
    evalWhile (n + 1) σ sc cond stmts =
      (evalToBool n σ sc c!"condition" cond).bind fun b σ1 =>
        if !b then .ok .none σ1
        else (evalBlock n σ1 sc [] stmts).bind fun esc σ2 =>
          match esc with
          | .none => evalWhile n σ2 sc cond stmts
          | .brk _ => .ok .none σ2
          | .cont _ => evalWhile n σ2 sc cond stmts
          | .ret v l => .ok (.ret v l) σ2 := by
  conv => lhs; unfold evalWhile
  all_goals (try rfl)

/-- `for` walks the list of pairs computed once at entry (a snapshot: the pairs are a parameter of the loop, the
    container is not consulted again), binding the two-element list `[key, value]` in a fresh scope each time -/
theorem for_step (n : Nat) (σ : State) (sc : List Addr) (lhs : Expr) (k v : SVal) (r : List (SVal × SVal)) (stmts : List Stmt) :
    evalFor (n + 1) σ sc lhs ((k, v) :: r) stmts =
      (evalBlock n (σ.alloc (.list [k, v])).2 sc [(lhs, SVal.plain (.list (σ.alloc (.list [k, v])).1))] stmts).bind fun esc σ2 =>
        match esc with
        | .none => evalFor n σ2 sc lhs r stmts
        | .brk _ => .ok .none σ2
        | .cont _ => evalFor n σ2 sc lhs r stmts
        | .ret v l => .ok (.ret v l) σ2 := by
  conv => lhs; unfold evalFor
  all_goals (try rfl)

theorem for_done (n : Nat) (σ : State) (sc : List Addr) (lhs : Expr) (stmts : List Stmt) :
    evalFor (n + 1) σ sc lhs [] stmts = .ok .none σ := by unfold evalFor; rfl

/-- the snapshot: a list is walked by index, a string byte by byte, an object by ascending key (its stored order) -/
theorem pairs_of_list (σ : State) (a : Addr) (items : List SVal) (h : σ.getList a = some items) :
    toPairs σ (.list a) = some (some ((enumFrom 0 items).map fun (i, x) => (SVal.plain (.int (Int.ofNat i)), x))) := by
  simp [toPairs, h]

theorem pairs_of_obj (σ : State) (a : Addr) (m : ObjMap) (h : σ.getObj a = some m) :
    toPairs σ (.obj a) = some (some (m.map fun (k, x) => (SVal.plain (.str (utf8Encode k)), x))) := by
  simp [toPairs, h]

theorem pairs_of_str (σ : State) (bs : Bytes) :
    toPairs σ (.str bs) = some (some ((enumFrom 0 bs).map fun (i, b) => (SVal.plain (.int (Int.ofNat i)), SVal.plain (.str [b])))) := by
  simp [toPairs]

/-- outside any loop or function the three jumps are reported as located errors, not ignored -/
theorem toplevel_jump_is_error (n : Nat) (stmts : List Stmt) (σ : State) (esc : Escape) (hesc : esc ≠ .none)
    (h : evalBlock n State.init [] [(.mk (.Var c!"print") (0, 0), SVal.plain (.builtin c!"print" .print))] stmts = .ok esc σ) :
    ∃ e, evalProg n stmts = .err e σ ∧ Located e := by
  unfold evalProg
  simp only [h, Res.bind]
  cases esc with
  | none => exact absurd rfl hesc
  | brk l => exact ⟨_, rfl, trivial⟩
  | cont l => exact ⟨_, rfl, trivial⟩
  | ret v l => exact ⟨_, rfl, trivial⟩

/-! ### jumps through any depth of blocks, branches and statement prefixes -/

/-- a nesting of: a completed statement prefix (and an ignored suffix), a bare block, a chosen `if` branch (after
    any number of branches whose conditions were false) or the `else` block -/
inductive JCtx where
  | hole
  | seq (pre : List Stmt) (c : JCtx) (post : List Stmt)
  | block (c : JCtx)
  | ifBranch (falses : List Branch) (cond : Expr) (c : JCtx) (later : List Branch) (els : Option (List Stmt))
  | ifElse (falses : List Branch) (c : JCtx)

/-- the body obtained by putting the jump statement `j` in the hole -/
def JCtx.plug : JCtx → Stmt → List Stmt
  | .hole, j => [j]
  | .seq pre c post, j => pre ++ c.plug j ++ post
  | .block c, j => [.Block (c.plug j)]
  | .ifBranch falses cond c later els, j => [.If (falses ++ .mk cond (c.plug j) :: later) els]
  | .ifElse falses c, j => [.If falses (some (c.plug j))]

/-- the conditions of these branches all evaluate to `false`, one after the other -/
inductive AllFalse : State → List Addr → List Branch → State → Prop where
  | nil (σ sc) : AllFalse σ sc [] σ
  | cons {σ σ1 σ2 sc cond stmts r} (n : Nat) (h : evalToBool n σ sc c!"condition" cond = .ok false σ1)
      (t : AllFalse σ1 sc r σ2) : AllFalse σ sc (.mk cond stmts :: r) σ2

/-- the path to the hole is taken: prefixes complete normally, chosen conditions are true; `σ'`/`sc'` are the state and
    scope chain in which the jump statement itself is evaluated -/
inductive Taken : JCtx → State → List Addr → State → List Addr → Prop where
  | hole (σ sc) : Taken .hole σ sc σ sc
  | seq {pre c post σ σ1 σ' sc sc'} (n : Nat) (h : evalStmts n σ sc pre = .ok .none σ1) (t : Taken c σ1 sc σ' sc') :
      Taken (.seq pre c post) σ sc σ' sc'
  | block {c σ σ' sc sc'} (t : Taken c (σ.alloc (.scope [])).2 ((σ.alloc (.scope [])).1 :: sc) σ' sc') :
      Taken (.block c) σ sc σ' sc'
  | ifBranch {falses cond c later els σ σ1 σ2 σ' sc sc'} (n : Nat) (hf : AllFalse σ sc falses σ1)
      (h : evalToBool n σ1 sc c!"condition" cond = .ok true σ2)
      (t : Taken c (σ2.alloc (.scope [])).2 ((σ2.alloc (.scope [])).1 :: sc) σ' sc') :
      Taken (.ifBranch falses cond c later els) σ sc σ' sc'
  | ifElse {falses c σ σ1 σ' sc sc'} (hf : AllFalse σ sc falses σ1)
      (t : Taken c (σ1.alloc (.scope [])).2 ((σ1.alloc (.scope [])).1 :: sc) σ' sc') :
      Taken (.ifElse falses c) σ sc σ' sc'

theorem stmts_append_none {n m : Nat} {σ σ1 sc pre rest} {r : Res Escape}
    (h1 : evalStmts n σ sc pre = .ok .none σ1) (h2 : evalStmts m σ1 sc rest = r) (hr : r ≠ .timeout) :
    ∃ k, evalStmts k σ sc (pre ++ rest) = r := by
  induction pre generalizing n σ with
  | nil =>
    cases n with
    | zero => unfold evalStmts at h1; simp at h1
    | succ n =>
      unfold evalStmts at h1; simp at h1; subst h1
      exact ⟨m, h2⟩
  | cons st pre ih =>
    cases n with
    | zero => unfold evalStmts at h1; simp at h1
    | succ n =>
      unfold evalStmts at h1
      cases hst : evalStmt n σ sc st with
      | timeout => simp [hst, Res.bind] at h1
      | err e σ2 => simp [hst, Res.bind] at h1
      | crash w σ2 => simp [hst, Res.bind] at h1
      | ok esc σ2 =>
        cases esc with
        | none =>
          simp only [hst, Res.bind] at h1
          obtain ⟨k, hk⟩ := ih h1
          refine ⟨max n k + 1, ?_⟩
          rw [List.cons_append, normal_continues _ _ _ _ _ _ (stmt_mono hst (by simp) (Nat.le_max_left n k))]
          exact stmts_mono hk hr (Nat.le_max_right n k)
        | brk l => simp [hst, Res.bind] at h1
        | cont l => simp [hst, Res.bind] at h1
        | ret v l => simp [hst, Res.bind] at h1

theorem stmts_escape_ignores_suffix {n : Nat} {σ σ' sc ss post} {esc : Escape}
    (h : evalStmts n σ sc ss = .ok esc σ') (hesc : esc ≠ .none) : ∃ k, evalStmts k σ sc (ss ++ post) = .ok esc σ' := by
  refine ⟨n, ?_⟩
  induction ss generalizing n σ with
  | nil =>
    cases n with
    | zero => unfold evalStmts at h; simp at h
    | succ n => unfold evalStmts at h; simp at h; exact absurd h.1.symm hesc
  | cons st ss ih =>
    cases n with
    | zero => unfold evalStmts at h; simp at h
    | succ n =>
      rw [List.cons_append]
      unfold evalStmts at h ⊢
      cases hst : evalStmt n σ sc st with
      | timeout => simp [hst, Res.bind] at h
      | err e σ2 => simp [hst, Res.bind] at h
      | crash w σ2 => simp [hst, Res.bind] at h
      | ok e2 σ2 =>
        cases e2 with
        | none =>
          simp only [hst, Res.bind] at h ⊢
          exact ih h
        | brk l => simpa [hst, Res.bind] using h
        | cont l => simpa [hst, Res.bind] using h
        | ret v l => simpa [hst, Res.bind] using h

theorem if_mono {n m : Nat} {σ sc bs els} {r : Res Escape} (h : evalIf n σ sc bs els = r) (hr : r ≠ .timeout) (hnm : n ≤ m) :
    evalIf m σ sc bs els = r := by
  have := Res.Le.of_step (fun k => evalIf k σ sc bs els) (fun k => (monoAll k).evalIf σ sc bs els) hnm
  rw [← h] at hr ⊢; exact le_eq this hr

theorem allFalse_if {σ σ1 sc falses} (hf : AllFalse σ sc falses σ1) (rest : List Branch) (els : Option (List Stmt))
    {m : Nat} {r : Res Escape} (h : evalIf m σ1 sc rest els = r) (hr : r ≠ .timeout) :
    ∃ k, evalIf k σ sc (falses ++ rest) els = r := by
  induction hf with
  | nil σ sc => exact ⟨m, h⟩
  | cons n hb _ ih =>
    obtain ⟨k, hk⟩ := ih h
    refine ⟨max n k + 1, ?_⟩
    rw [List.cons_append, if_false_moves_on _ _ _ _ _ _ _ _ (bool_mono hb (by simp) (Nat.le_max_left n k))]
    exact if_mono hk hr (Nat.le_max_right n k)

/-- **Jumps reach exactly their target, at any depth.**  If the path to the hole is taken and the jump statement `j`,
    evaluated in the state and scope reached there, escapes with `esc`, then the whole body escapes with the same `esc`
    in the same state: no enclosing block, branch or statement prefix absorbs, alters or delays it, and nothing after
    it runs. -/
theorem jump_through_ctx (C : JCtx) (j : Stmt) {σ σ' σ'' : State} {sc sc' : List Addr} {esc : Escape}
    (ht : Taken C σ sc σ' sc') {n : Nat} (hj : evalStmt n σ' sc' j = .ok esc σ'') (hesc : esc ≠ .none) :
    ∃ k, evalStmts k σ sc (C.plug j) = .ok esc σ'' := by
  induction ht with
  | hole σ sc => exact ⟨n + 1, escape_skips_rest n _ _ _ _ [] esc hj hesc⟩
  | @seq pre c post σ0 σ1 σ2 sc0 sc1 n1 h1 _ ih =>
    obtain ⟨k, hk⟩ := ih hj
    obtain ⟨k2, hk2⟩ := stmts_escape_ignores_suffix (post := post) hk hesc
    obtain ⟨k3, hk3⟩ := stmts_append_none h1 hk2 (by simp)
    exact ⟨k3, by simpa [JCtx.plug, List.append_assoc] using hk3⟩
  | @block c σ0 σ1 sc0 sc1 _ ih =>
    obtain ⟨k, hk⟩ := ih hj
    refine ⟨k + 4, ?_⟩
    have h1 : evalStmt (k + 3) σ0 sc0 (.Block (c.plug j)) = .ok esc σ'' := by
      rw [block_forwards, block_fresh_scope]
      exact stmts_mono hk (by simp) (Nat.le_succ k)
    exact escape_skips_rest _ _ _ _ _ [] esc h1 hesc
  | @ifBranch falses cond c later els σ0 σ1 σ2 σ3 sc0 sc1 n1 hf hb _ ih =>
    obtain ⟨k, hk⟩ := ih hj
    have hblock : evalBlock (max n1 k + 2) σ2 sc0 [] (c.plug j) = .ok esc σ'' := by
      rw [block_fresh_scope]
      exact stmts_mono hk (by simp) (by have := Nat.le_max_right n1 k; omega)
    have hif : evalIf (max n1 k + 3) σ1 sc0 (.mk cond (c.plug j) :: later) els = .ok esc σ'' := by
      rw [if_true_selects _ _ _ _ _ _ _ _ (bool_mono hb (by simp) (by have := Nat.le_max_left n1 k; omega))]
      exact hblock
    obtain ⟨k2, hk2⟩ := allFalse_if hf _ _ hif (by simp)
    refine ⟨k2 + 2, ?_⟩
    have h1 : evalStmt (k2 + 1) σ0 sc0 (.If (falses ++ .mk cond (c.plug j) :: later) els) = .ok esc σ'' := by
      unfold evalStmt
      exact hk2
    exact escape_skips_rest _ _ _ _ _ [] esc h1 hesc
  | @ifElse falses c σ0 σ1 σ2 sc0 sc1 hf _ ih =>
    obtain ⟨k, hk⟩ := ih hj
    have hblock : evalBlock (k + 2) σ1 sc0 [] (c.plug j) = .ok esc σ'' := by
      rw [block_fresh_scope]
      exact stmts_mono hk (by simp) (Nat.le_succ k)
    have hif : evalIf (k + 3) σ1 sc0 [] (some (c.plug j)) = .ok esc σ'' := by rw [if_else]; exact hblock
    obtain ⟨k2, hk2⟩ := allFalse_if hf [] _ hif (by simp)
    refine ⟨k2 + 2, ?_⟩
    have h1 : evalStmt (k2 + 1) σ0 sc0 (.If falses (some (c.plug j))) = .ok esc σ'' := by
      unfold evalStmt
      simpa using hk2
    exact escape_skips_rest _ _ _ _ _ [] esc h1 hesc

/-- non-vacuity: the context `{ { □ } }` is taken from any state -/
example (σ : State) (sc : List Addr) : ∃ σ' sc', Taken (.block (.block .hole)) σ sc σ' sc' :=
  ⟨_, _, Taken.block (Taken.block (Taken.hole _ _))⟩

end Seed.C07
