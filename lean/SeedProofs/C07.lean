/-
  C07 — control flow: branches, loops, break/continue/return reach exactly their target.
-/
import SeedProofs.Global
import SeedProofs.C01
import SeedProofs.Lemmas.Located
import SeedProofs.Lemmas.C07Loops
import SeedProofs.Lemmas.C07Call
-- audit: Seed.C07.fuel_stable Seed.C07.FuelEq.of_shift Seed.C07.FuelEq.of_const Seed.C07.for_enters Seed.C07.block_scope Seed.C07.block_after_decl Seed.C07.call_unfold Seed.C07.call_boundary Seed.C07.call_return Seed.C07.call_falls_off Seed.C07.call_break_is_error Seed.C07.call_continue_is_error Seed.C07.call_error_framed Seed.C07.expr_stmt_never_escapes Seed.C07.declare_never_escapes Seed.C07.assign_never_escapes Seed.C07.opassign_never_escapes Seed.C07.return_of_call
namespace Seed.C07
open Seed

/-! ### generic consequence of G1 -/

theorem le_eq {α} {r r' : Res α} (h : Res.Le r r') (hr : r ≠ .timeout) : r' = r := by
  rcases h with h | h
  · exact absurd h hr
  · exact h.symm

theorem stmt_mono {n m : Nat} {σ sc st} {r : Res Escape} (h : evalStmt n σ sc st = r) (hr : r ≠ .timeout) (hnm : n ≤ m) :
    evalStmt m σ sc st = r := by
  have := Res.Le.of_step (fun k => evalStmt k σ sc st) (fun k => (monoAll k).evalStmt σ sc st) hnm
  rw [← h] at hr ⊢; exact le_eq this hr

theorem stmts_mono {n m : Nat} {σ sc ss} {r : Res Escape} (h : evalStmts n σ sc ss = r) (hr : r ≠ .timeout) (hnm : n ≤ m) :
    evalStmts m σ sc ss = r := evalStmts_fuel_mono h hr hnm

theorem bool_mono {n m : Nat} {σ sc d e} {r : Res Bool} (h : evalToBool n σ sc d e = r) (hr : r ≠ .timeout) (hnm : n ≤ m) :
    evalToBool m σ sc d e = r := by
  have := Res.Le.of_step (fun k => evalToBool k σ sc d e) (fun k => (monoAll k).evalToBool σ sc d e) hnm
  rw [← h] at hr ⊢; exact le_eq this hr

/-! ### one-step facts: what each construct does with an escape -/

/-- `break`, `continue` evaluate to the corresponding escape and leave the state alone -/
theorem break_escapes (n : Nat) (σ : State) (sc : List Addr) (l : Loc) :
    evalStmt (n + 1) σ sc (.Break l) = .ok (.brk l) σ := by unfold evalStmt; rfl

theorem continue_escapes (n : Nat) (σ : State) (sc : List Addr) (l : Loc) :
    evalStmt (n + 1) σ sc (.Continue l) = .ok (.cont l) σ := by unfold evalStmt; rfl

/-- `return e` evaluates `e` once and escapes with its value -/
theorem return_escapes (n : Nat) (σ σ' : State) (sc : List Addr) (l : Loc) (e : Expr) (v : SVal)
    (h : evalExpr n σ sc e = .ok v σ') : evalStmt (n + 1) σ sc (.Return l e) = .ok (.ret v l) σ' := by
  unfold evalStmt; simp [h, Res.bind]

/-- statements after an escaping statement in the same body do not run -/
theorem escape_skips_rest (n : Nat) (σ σ' : State) (sc : List Addr) (st : Stmt) (rest : List Stmt) (esc : Escape)
    (h : evalStmt n σ sc st = .ok esc σ') (hesc : esc ≠ .none) :
    evalStmts (n + 1) σ sc (st :: rest) = .ok esc σ' := by
  cases esc with
  | none => exact absurd rfl hesc
  | brk l => unfold evalStmts; simp only [h, Res.bind]
  | cont l => unfold evalStmts; simp only [h, Res.bind]
  | ret v l => unfold evalStmts; simp only [h, Res.bind]

/-- a statement that completes normally hands over to the rest of the body -/
theorem normal_continues (n : Nat) (σ σ' : State) (sc : List Addr) (st : Stmt) (rest : List Stmt)
    (h : evalStmt n σ sc st = .ok .none σ') : evalStmts (n + 1) σ sc (st :: rest) = evalStmts n σ' sc rest := by
  conv => lhs; unfold evalStmts
  simp only [h, Res.bind]

/-- a bare block forwards whatever its statements produce, escape included (this is what the pinned tree got wrong) -/
theorem block_forwards (n : Nat) (σ : State) (sc : List Addr) (b : List Stmt) :
    evalStmt (n + 1) σ sc (.Block b) = evalBlock n σ sc [] b := by unfold evalStmt; rfl

/-- a block with no bindings: a fresh scope cell, then the statements on the extended chain -/
theorem block_fresh_scope (n : Nat) (σ : State) (sc : List Addr) (b : List Stmt) :
    evalBlock (n + 2) σ sc [] b = evalStmts (n + 1) (σ.alloc (.scope [])).2 ((σ.alloc (.scope [])).1 :: sc) b := by
  conv => lhs; unfold evalBlock
  have h : declareAll (n + 1) (σ.alloc (.scope [])).2 ((σ.alloc (.scope [])).1 :: sc) [] = .ok () (σ.alloc (.scope [])).2 := by
    conv => lhs; unfold declareAll
    all_goals (try rfl)
  simp only [h, Res.bind]
  all_goals (try rfl)

/-- an `if` chain: conditions are evaluated in order; the first true one selects its block, whose result (escape
    included) is the result of the statement; later conditions are not evaluated -/
theorem if_cons (n : Nat) (σ : State) (sc : List Addr) (cond : Expr) (stmts : List Stmt) (r : List Branch) (els : Option (List Stmt)) :
    evalIf (n + 1) σ sc (.mk cond stmts :: r) els =
      (evalToBool n σ sc c!"condition" cond).bind fun b σ1 =>
        if b then evalBlock n σ1 sc [] stmts else evalIf n σ1 sc r els := by
  conv => lhs; unfold evalIf
  all_goals (try rfl)

theorem if_true_selects (n : Nat) (σ σ1 : State) (sc : List Addr) (cond : Expr) (stmts : List Stmt) (r : List Branch)
    (els : Option (List Stmt)) (h : evalToBool n σ sc c!"condition" cond = .ok true σ1) :
    evalIf (n + 1) σ sc (.mk cond stmts :: r) els = evalBlock n σ1 sc [] stmts := by
  rw [if_cons, h]; simp [Res.bind]

theorem if_false_moves_on (n : Nat) (σ σ1 : State) (sc : List Addr) (cond : Expr) (stmts : List Stmt) (r : List Branch)
    (els : Option (List Stmt)) (h : evalToBool n σ sc c!"condition" cond = .ok false σ1) :
    evalIf (n + 1) σ sc (.mk cond stmts :: r) els = evalIf n σ1 sc r els := by
  rw [if_cons, h]; simp [Res.bind]

theorem if_else (n : Nat) (σ : State) (sc : List Addr) (stmts : List Stmt) :
    evalIf (n + 1) σ sc [] (some stmts) = evalBlock n σ sc [] stmts := by unfold evalIf; rfl

theorem if_no_branch (n : Nat) (σ : State) (sc : List Addr) : evalIf (n + 1) σ sc [] none = .ok .none σ := by
  unfold evalIf; rfl

/-- `while`: the condition is evaluated before every iteration; `break` ends the loop normally, `continue` and normal
    completion re-enter it, `return` is forwarded -/
theorem while_step (n : Nat) (σ : State) (sc : List Addr) (cond : Expr) (stmts : List Stmt) :
    evalWhile (n + 1) σ sc cond stmts =
      (evalToBool n σ sc c!"condition" cond).bind fun b σ1 =>
        if !b then .ok .none σ1
        else (evalBlock n σ1 sc [] stmts).bind fun esc σ2 =>
          match esc with
          | .none => evalWhile n σ2 sc cond stmts
          | .brk _ => .ok .none σ2
          | .cont _ => evalWhile n σ2 sc cond stmts
          | .ret v l => .ok (.ret v l) σ2 := by
  conv => lhs; unfold evalWhile
  all_goals (try rfl)

/-- `for` walks the list of pairs computed once at entry (a snapshot: the pairs are a parameter of the loop, the
    container is not consulted again), binding the two-element list `[key, value]` in a fresh scope each time -/
theorem for_step (n : Nat) (σ : State) (sc : List Addr) (lhs : Expr) (k v : SVal) (r : List (SVal × SVal)) (stmts : List Stmt) :
    evalFor (n + 1) σ sc lhs ((k, v) :: r) stmts =
      (evalBlock n (σ.alloc (.list [k, v])).2 sc [(lhs, SVal.plain (.list (σ.alloc (.list [k, v])).1))] stmts).bind fun esc σ2 =>
        match esc with
        | .none => evalFor n σ2 sc lhs r stmts
        | .brk _ => .ok .none σ2
        | .cont _ => evalFor n σ2 sc lhs r stmts
        | .ret v l => .ok (.ret v l) σ2 := by
  conv => lhs; unfold evalFor
  all_goals (try rfl)

theorem for_done (n : Nat) (σ : State) (sc : List Addr) (lhs : Expr) (stmts : List Stmt) :
    evalFor (n + 1) σ sc lhs [] stmts = .ok .none σ := by unfold evalFor; rfl

/-- entry of `for`: the iterable expression — whatever it is: a name, a property, an element, a call, a range — is evaluated
    exactly once; the pairs are computed from its value in the state of that moment; the loop then runs on that fixed list -/
theorem for_entry (n : Nat) (σ : State) (sc : List Addr) (lhs iter : Expr) (stmts : List Stmt) :
    evalStmt (n + 1) σ sc (.For lhs iter stmts) =
      (evalExpr n σ sc iter).bind fun it σ1 =>
        match toPairs σ1 it.v with
        | none => crashHeap σ1
        | some none => errAt iter.loc Gen.Leaf.ForIterNotIterable σ1
        | some (some pairs) => evalFor n σ1 sc lhs pairs stmts := by
  conv => lhs; unfold evalStmt
  all_goals (try rfl)

/-- … so a loop over a list walks the items the list held when the iterable expression had been evaluated: what the body
    does to the list afterwards (through any alias) is not seen by the loop -/
theorem for_list_snapshot (n : Nat) (σ σ1 : State) (sc : List Addr) (lhs iter : Expr) (stmts : List Stmt) (it : SVal) (a : Addr)
    (items : List SVal) (he : evalExpr n σ sc iter = .ok it σ1) (hv : it.v = .list a) (hl : σ1.getList a = some items) :
    evalStmt (n + 1) σ sc (.For lhs iter stmts) =
      evalFor n σ1 sc lhs ((enumFrom 0 items).map fun (i, x) => (SVal.plain (.int (Int.ofNat i)), x)) stmts := by
  rw [for_entry, he]; simp [Res.bind, hv, toPairs, hl]

theorem for_obj_snapshot (n : Nat) (σ σ1 : State) (sc : List Addr) (lhs iter : Expr) (stmts : List Stmt) (it : SVal) (a : Addr)
    (m : ObjMap) (he : evalExpr n σ sc iter = .ok it σ1) (hv : it.v = .obj a) (hl : σ1.getObj a = some m) :
    evalStmt (n + 1) σ sc (.For lhs iter stmts) =
      evalFor n σ1 sc lhs (m.map fun (k, x) => (SVal.plain (.str (utf8Encode k)), x)) stmts := by
  rw [for_entry, he]; simp [Res.bind, hv, toPairs, hl]

/-- a value that cannot be iterated is reported at the iterable expression, before anything of the body runs -/
theorem for_not_iterable (n : Nat) (σ σ1 : State) (sc : List Addr) (lhs iter : Expr) (stmts : List Stmt) (it : SVal)
    (he : evalExpr n σ sc iter = .ok it σ1) (hp : toPairs σ1 it.v = some none) :
    evalStmt (n + 1) σ sc (.For lhs iter stmts) = errAt iter.loc Gen.Leaf.ForIterNotIterable σ1 := by
  rw [for_entry, he]; simp [Res.bind, hp]

/-- the snapshot: a list is walked by index, a string byte by byte, an object by ascending key (its stored order) -/
theorem pairs_of_list (σ : State) (a : Addr) (items : List SVal) (h : σ.getList a = some items) :
    toPairs σ (.list a) = some (some ((enumFrom 0 items).map fun (i, x) => (SVal.plain (.int (Int.ofNat i)), x))) := by
  simp [toPairs, h]

theorem pairs_of_obj (σ : State) (a : Addr) (m : ObjMap) (h : σ.getObj a = some m) :
    toPairs σ (.obj a) = some (some (m.map fun (k, x) => (SVal.plain (.str (utf8Encode k)), x))) := by
  simp [toPairs, h]

theorem pairs_of_str (σ : State) (bs : Bytes) :
    toPairs σ (.str bs) = some (some ((enumFrom 0 bs).map fun (i, b) => (SVal.plain (.int (Int.ofNat i)), SVal.plain (.str [b])))) := by
  simp [toPairs]

/-- outside any loop or function the three jumps are reported as located errors, not ignored -/
theorem toplevel_jump_is_error (n : Nat) (stmts : List Stmt) (σ : State) (esc : Escape) (hesc : esc ≠ .none)
    (h : evalBlock n State.init [] [(.mk (.Var c!"print") (0, 0), SVal.plain (.builtin c!"print" .print))] stmts = .ok esc σ) :
    ∃ e, evalProg n stmts = .err e σ ∧ Located e := by
  unfold evalProg
  simp only [h, Res.bind]
  cases esc with
  | none => exact absurd rfl hesc
  | brk l => exact ⟨_, rfl, trivial⟩
  | cont l => exact ⟨_, rfl, trivial⟩
  | ret v l => exact ⟨_, rfl, trivial⟩

/-! ### jumps through any depth of blocks, branches and statement prefixes -/

/-- a nesting of: a completed statement prefix (and an ignored suffix), a bare block, a chosen `if` branch (after
    any number of branches whose conditions were false) or the `else` block -/
inductive JCtx where
  | hole
  | seq (pre : List Stmt) (c : JCtx) (post : List Stmt)
  | block (c : JCtx)
  | ifBranch (falses : List Branch) (cond : Expr) (c : JCtx) (later : List Branch) (els : Option (List Stmt))
  | ifElse (falses : List Branch) (c : JCtx)

/-- the body obtained by putting the jump statement `j` in the hole -/
def JCtx.plug : JCtx → Stmt → List Stmt
  | .hole, j => [j]
  | .seq pre c post, j => pre ++ c.plug j ++ post
  | .block c, j => [.Block (c.plug j)]
  | .ifBranch falses cond c later els, j => [.If (falses ++ .mk cond (c.plug j) :: later) els]
  | .ifElse falses c, j => [.If falses (some (c.plug j))]

/-- the conditions of these branches all evaluate to `false`, one after the other -/
inductive AllFalse : State → List Addr → List Branch → State → Prop where
  | nil (σ sc) : AllFalse σ sc [] σ
  | cons {σ σ1 σ2 sc cond stmts r} (n : Nat) (h : evalToBool n σ sc c!"condition" cond = .ok false σ1)
      (t : AllFalse σ1 sc r σ2) : AllFalse σ sc (.mk cond stmts :: r) σ2

/-- the path to the hole is taken: prefixes complete normally, chosen conditions are true; `σ'`/`sc'` are the state and
    scope chain in which the jump statement itself is evaluated -/
inductive Taken : JCtx → State → List Addr → State → List Addr → Prop where
  | hole (σ sc) : Taken .hole σ sc σ sc
  | seq {pre c post σ σ1 σ' sc sc'} (n : Nat) (h : evalStmts n σ sc pre = .ok .none σ1) (t : Taken c σ1 sc σ' sc') :
      Taken (.seq pre c post) σ sc σ' sc'
  | block {c σ σ' sc sc'} (t : Taken c (σ.alloc (.scope [])).2 ((σ.alloc (.scope [])).1 :: sc) σ' sc') :
      Taken (.block c) σ sc σ' sc'
  | ifBranch {falses cond c later els σ σ1 σ2 σ' sc sc'} (n : Nat) (hf : AllFalse σ sc falses σ1)
      (h : evalToBool n σ1 sc c!"condition" cond = .ok true σ2)
      (t : Taken c (σ2.alloc (.scope [])).2 ((σ2.alloc (.scope [])).1 :: sc) σ' sc') :
      Taken (.ifBranch falses cond c later els) σ sc σ' sc'
  | ifElse {falses c σ σ1 σ' sc sc'} (hf : AllFalse σ sc falses σ1)
      (t : Taken c (σ1.alloc (.scope [])).2 ((σ1.alloc (.scope [])).1 :: sc) σ' sc') :
      Taken (.ifElse falses c) σ sc σ' sc'

theorem stmts_append_none {n m : Nat} {σ σ1 sc pre rest} {r : Res Escape}
    (h1 : evalStmts n σ sc pre = .ok .none σ1) (h2 : evalStmts m σ1 sc rest = r) (hr : r ≠ .timeout) :
    ∃ k, evalStmts k σ sc (pre ++ rest) = r := by
  induction pre generalizing n σ with
  | nil =>
    cases n with
    | zero => unfold evalStmts at h1; simp at h1
    | succ n =>
      unfold evalStmts at h1; simp at h1; subst h1
      exact ⟨m, h2⟩
  | cons st pre ih =>
    cases n with
    | zero => unfold evalStmts at h1; simp at h1
    | succ n =>
      unfold evalStmts at h1
      cases hst : evalStmt n σ sc st with
      | timeout => simp [hst, Res.bind] at h1
      | err e σ2 => simp [hst, Res.bind] at h1
      | crash w σ2 => simp [hst, Res.bind] at h1
      | ok esc σ2 =>
        cases esc with
        | none =>
          simp only [hst, Res.bind] at h1
          obtain ⟨k, hk⟩ := ih h1
          refine ⟨max n k + 1, ?_⟩
          rw [List.cons_append, normal_continues _ _ _ _ _ _ (stmt_mono hst (by simp) (Nat.le_max_left n k))]
          exact stmts_mono hk hr (Nat.le_max_right n k)
        | brk l => simp [hst, Res.bind] at h1
        | cont l => simp [hst, Res.bind] at h1
        | ret v l => simp [hst, Res.bind] at h1

theorem stmts_escape_ignores_suffix {n : Nat} {σ σ' sc ss post} {esc : Escape}
    (h : evalStmts n σ sc ss = .ok esc σ') (hesc : esc ≠ .none) : ∃ k, evalStmts k σ sc (ss ++ post) = .ok esc σ' := by
  refine ⟨n, ?_⟩
  induction ss generalizing n σ with
  | nil =>
    cases n with
    | zero => unfold evalStmts at h; simp at h
    | succ n => unfold evalStmts at h; simp at h; exact absurd h.1.symm hesc
  | cons st ss ih =>
    cases n with
    | zero => unfold evalStmts at h; simp at h
    | succ n =>
      rw [List.cons_append]
      unfold evalStmts at h ⊢
      cases hst : evalStmt n σ sc st with
      | timeout => simp [hst, Res.bind] at h
      | err e σ2 => simp [hst, Res.bind] at h
      | crash w σ2 => simp [hst, Res.bind] at h
      | ok e2 σ2 =>
        cases e2 with
        | none =>
          simp only [hst, Res.bind] at h ⊢
          exact ih h
        | brk l => simpa [hst, Res.bind] using h
        | cont l => simpa [hst, Res.bind] using h
        | ret v l => simpa [hst, Res.bind] using h

theorem if_mono {n m : Nat} {σ sc bs els} {r : Res Escape} (h : evalIf n σ sc bs els = r) (hr : r ≠ .timeout) (hnm : n ≤ m) :
    evalIf m σ sc bs els = r := by
  have := Res.Le.of_step (fun k => evalIf k σ sc bs els) (fun k => (monoAll k).evalIf σ sc bs els) hnm
  rw [← h] at hr ⊢; exact le_eq this hr

theorem allFalse_if {σ σ1 sc falses} (hf : AllFalse σ sc falses σ1) (rest : List Branch) (els : Option (List Stmt))
    {m : Nat} {r : Res Escape} (h : evalIf m σ1 sc rest els = r) (hr : r ≠ .timeout) :
    ∃ k, evalIf k σ sc (falses ++ rest) els = r := by
  induction hf with
  | nil σ sc => exact ⟨m, h⟩
  | cons n hb _ ih =>
    obtain ⟨k, hk⟩ := ih h
    refine ⟨max n k + 1, ?_⟩
    rw [List.cons_append, if_false_moves_on _ _ _ _ _ _ _ _ (bool_mono hb (by simp) (Nat.le_max_left n k))]
    exact if_mono hk hr (Nat.le_max_right n k)

/-- **Jumps reach exactly their target, at any depth.**  If the path to the hole is taken and the jump statement `j`,
    evaluated in the state and scope reached there, escapes with `esc`, then the whole body escapes with the same `esc`
    in the same state: no enclosing block, branch or statement prefix absorbs, alters or delays it, and nothing after
    it runs. -/
theorem jump_through_ctx (C : JCtx) (j : Stmt) {σ σ' σ'' : State} {sc sc' : List Addr} {esc : Escape}
    (ht : Taken C σ sc σ' sc') {n : Nat} (hj : evalStmt n σ' sc' j = .ok esc σ'') (hesc : esc ≠ .none) :
    ∃ k, evalStmts k σ sc (C.plug j) = .ok esc σ'' := by
  induction ht with
  | hole σ sc => exact ⟨n + 1, escape_skips_rest n _ _ _ _ [] esc hj hesc⟩
  | @seq pre c post σ0 σ1 σ2 sc0 sc1 n1 h1 _ ih =>
    obtain ⟨k, hk⟩ := ih hj
    obtain ⟨k2, hk2⟩ := stmts_escape_ignores_suffix (post := post) hk hesc
    obtain ⟨k3, hk3⟩ := stmts_append_none h1 hk2 (by simp)
    exact ⟨k3, by simpa [JCtx.plug, List.append_assoc] using hk3⟩
  | @block c σ0 σ1 sc0 sc1 _ ih =>
    obtain ⟨k, hk⟩ := ih hj
    refine ⟨k + 4, ?_⟩
    have h1 : evalStmt (k + 3) σ0 sc0 (.Block (c.plug j)) = .ok esc σ'' := by
      rw [block_forwards, block_fresh_scope]
      exact stmts_mono hk (by simp) (Nat.le_succ k)
    exact escape_skips_rest _ _ _ _ _ [] esc h1 hesc
  | @ifBranch falses cond c later els σ0 σ1 σ2 σ3 sc0 sc1 n1 hf hb _ ih =>
    obtain ⟨k, hk⟩ := ih hj
    have hblock : evalBlock (max n1 k + 2) σ2 sc0 [] (c.plug j) = .ok esc σ'' := by
      rw [block_fresh_scope]
      exact stmts_mono hk (by simp) (by have := Nat.le_max_right n1 k; omega)
    have hif : evalIf (max n1 k + 3) σ1 sc0 (.mk cond (c.plug j) :: later) els = .ok esc σ'' := by
      rw [if_true_selects _ _ _ _ _ _ _ _ (bool_mono hb (by simp) (by have := Nat.le_max_left n1 k; omega))]
      exact hblock
    obtain ⟨k2, hk2⟩ := allFalse_if hf _ _ hif (by simp)
    refine ⟨k2 + 2, ?_⟩
    have h1 : evalStmt (k2 + 1) σ0 sc0 (.If (falses ++ .mk cond (c.plug j) :: later) els) = .ok esc σ'' := by
      unfold evalStmt
      exact hk2
    exact escape_skips_rest _ _ _ _ _ [] esc h1 hesc
  | @ifElse falses c σ0 σ1 σ2 sc0 sc1 hf _ ih =>
    obtain ⟨k, hk⟩ := ih hj
    have hblock : evalBlock (k + 2) σ1 sc0 [] (c.plug j) = .ok esc σ'' := by
      rw [block_fresh_scope]
      exact stmts_mono hk (by simp) (Nat.le_succ k)
    have hif : evalIf (k + 3) σ1 sc0 [] (some (c.plug j)) = .ok esc σ'' := by rw [if_else]; exact hblock
    obtain ⟨k2, hk2⟩ := allFalse_if hf [] _ hif (by simp)
    refine ⟨k2 + 2, ?_⟩
    have h1 : evalStmt (k2 + 1) σ0 sc0 (.If falses (some (c.plug j))) = .ok esc σ'' := by
      unfold evalStmt
      simpa using hk2
    exact escape_skips_rest _ _ _ _ _ [] esc h1 hesc

/-- non-vacuity: the context `{ { □ } }` is taken from any state -/
example (σ : State) (sc : List Addr) : ∃ σ' sc', Taken (.block (.block .hole)) σ sc σ' sc' :=
  ⟨_, _, Taken.block (Taken.block (Taken.hole _ _))⟩

/-! ### loops as targets: a jump that leaves a loop body acts on exactly that loop -/

section loops
variable {σ σ1 σ2 : State} {sc : List Addr} {cond : Expr} {stmts : List Stmt}

/-- `break` escaping the body of a `while`: the loop is finished, normally — nothing propagates — in the state at the
    `break`; the condition is not evaluated again -/
theorem while_break_exits (n : Nat) {l : Loc} (hc : evalToBool n σ sc c!"condition" cond = .ok true σ1)
    (hb : evalBlock n σ1 sc [] stmts = .ok (.brk l) σ2) : evalWhile (n + 1) σ sc cond stmts = .ok .none σ2 := by
  rw [while_step, hc]; simp only [Res.bind, hb]; rfl

/-- … so that the statements after the loop run, in that state -/
theorem while_break_then_rest (n : Nat) {l : Loc} (rest : List Stmt) (hc : evalToBool n σ sc c!"condition" cond = .ok true σ1)
    (hb : evalBlock n σ1 sc [] stmts = .ok (.brk l) σ2) :
    evalStmts (n + 3) σ sc (.While cond stmts :: rest) = evalStmts (n + 2) σ2 sc rest := by
  apply normal_continues
  rw [while_enters]
  exact while_break_exits n hc hb

/-- `continue` escaping the body: the loop is re-entered at the state after the body; the condition is evaluated again -/
theorem while_continue_reenters (n : Nat) {l : Loc} (hc : evalToBool n σ sc c!"condition" cond = .ok true σ1)
    (hb : evalBlock n σ1 sc [] stmts = .ok (.cont l) σ2) :
    evalWhile (n + 1) σ sc cond stmts = evalWhile n σ2 sc cond stmts := by
  rw [while_step, hc]; simp only [Res.bind, hb]; rfl

/-- the same, free of fuel: the loop started at `σ` and the loop started at the post-body state have the same outcome -/
theorem while_continue_reenters_upto {n1 n2 : Nat} {l : Loc} (hc : evalToBool n1 σ sc c!"condition" cond = .ok true σ1)
    (hb : evalBlock n2 σ1 sc [] stmts = .ok (.cont l) σ2) :
    FuelEq (fun k => evalWhile k σ sc cond stmts) (fun k => evalWhile k σ2 sc cond stmts) :=
  FuelEq.of_shift (fun k => (monoAll k).evalWhile _ _ _ _) (fun k => (monoAll k).evalWhile _ _ _ _) (max n1 n2)
    fun m hm => while_continue_reenters m (bool_mono hc (by simp) (by have := Nat.le_max_left n1 n2; omega))
      (block_mono hb (by simp) (by have := Nat.le_max_right n1 n2; omega))

/-- a body that completes normally re-enters the loop in the same way (`continue` = "go to the end of the body") -/
theorem while_normal_reenters (n : Nat) (hc : evalToBool n σ sc c!"condition" cond = .ok true σ1)
    (hb : evalBlock n σ1 sc [] stmts = .ok .none σ2) :
    evalWhile (n + 1) σ sc cond stmts = evalWhile n σ2 sc cond stmts := by
  rw [while_step, hc]; simp only [Res.bind, hb]; rfl

theorem while_normal_reenters_upto {n1 n2 : Nat} (hc : evalToBool n1 σ sc c!"condition" cond = .ok true σ1)
    (hb : evalBlock n2 σ1 sc [] stmts = .ok .none σ2) :
    FuelEq (fun k => evalWhile k σ sc cond stmts) (fun k => evalWhile k σ2 sc cond stmts) :=
  FuelEq.of_shift (fun k => (monoAll k).evalWhile _ _ _ _) (fun k => (monoAll k).evalWhile _ _ _ _) (max n1 n2)
    fun m hm => while_normal_reenters m (bool_mono hc (by simp) (by have := Nat.le_max_left n1 n2; omega))
      (block_mono hb (by simp) (by have := Nat.le_max_right n1 n2; omega))

/-- `return` escaping the body is forwarded by the loop, value, position and state unchanged: it goes on to the
    enclosing call -/
theorem while_return_propagates (n : Nat) {v : SVal} {l : Loc} (hc : evalToBool n σ sc c!"condition" cond = .ok true σ1)
    (hb : evalBlock n σ1 sc [] stmts = .ok (.ret v l) σ2) : evalWhile (n + 1) σ sc cond stmts = .ok (.ret v l) σ2 := by
  rw [while_step, hc]; simp only [Res.bind, hb]; rfl

/-- a false condition ends the loop -/
theorem while_false_exits (n : Nat) (hc : evalToBool n σ sc c!"condition" cond = .ok false σ1) :
    evalWhile (n + 1) σ sc cond stmts = .ok .none σ1 := by
  rw [while_step, hc]; rfl

variable {lhs : Expr} {k v : SVal} {r : List (SVal × SVal)}

/-- `break` escaping the body of a `for`: the loop is finished, the remaining pairs `r` are dropped -/
theorem for_break_exits (n : Nat) {l : Loc}
    (hb : evalBlock n (σ.alloc (.list [k, v])).2 sc [(lhs, SVal.plain (.list (σ.alloc (.list [k, v])).1))] stmts = .ok (.brk l) σ2) :
    evalFor (n + 1) σ sc lhs ((k, v) :: r) stmts = .ok .none σ2 := by
  rw [for_step, hb]; rfl

theorem for_break_then_rest (n : Nat) {l : Loc} (rest : List Stmt)
    (hb : evalBlock n (σ.alloc (.list [k, v])).2 sc [(lhs, SVal.plain (.list (σ.alloc (.list [k, v])).1))] stmts = .ok (.brk l) σ2)
    {σ0 : State} {iter : Expr} {it : SVal} (hi : evalExpr (n + 1) σ0 sc iter = .ok it σ)
    (hp : toPairs σ it.v = some (some ((k, v) :: r))) :
    evalStmts (n + 3) σ0 sc (.For lhs iter stmts :: rest) = evalStmts (n + 2) σ2 sc rest := by
  apply normal_continues
  rw [for_enters _ _ _ _ _ _ _ _ _ hi hp]
  exact for_break_exits n hb

/-- `continue` escaping the body of a `for`: on to the next pair of the snapshot -/
theorem for_continue_next (n : Nat) {l : Loc}
    (hb : evalBlock n (σ.alloc (.list [k, v])).2 sc [(lhs, SVal.plain (.list (σ.alloc (.list [k, v])).1))] stmts = .ok (.cont l) σ2) :
    evalFor (n + 1) σ sc lhs ((k, v) :: r) stmts = evalFor n σ2 sc lhs r stmts := by
  rw [for_step, hb]; rfl

theorem for_continue_next_upto {n : Nat} {l : Loc}
    (hb : evalBlock n (σ.alloc (.list [k, v])).2 sc [(lhs, SVal.plain (.list (σ.alloc (.list [k, v])).1))] stmts = .ok (.cont l) σ2) :
    FuelEq (fun m => evalFor m σ sc lhs ((k, v) :: r) stmts) (fun m => evalFor m σ2 sc lhs r stmts) :=
  FuelEq.of_shift (fun m => (monoAll m).evalFor _ _ _ _ _) (fun m => (monoAll m).evalFor _ _ _ _ _) n
    fun m hm => for_continue_next m (block_mono hb (by simp) hm)

theorem for_normal_next (n : Nat)
    (hb : evalBlock n (σ.alloc (.list [k, v])).2 sc [(lhs, SVal.plain (.list (σ.alloc (.list [k, v])).1))] stmts = .ok .none σ2) :
    evalFor (n + 1) σ sc lhs ((k, v) :: r) stmts = evalFor n σ2 sc lhs r stmts := by
  rw [for_step, hb]; rfl

theorem for_normal_next_upto {n : Nat}
    (hb : evalBlock n (σ.alloc (.list [k, v])).2 sc [(lhs, SVal.plain (.list (σ.alloc (.list [k, v])).1))] stmts = .ok .none σ2) :
    FuelEq (fun m => evalFor m σ sc lhs ((k, v) :: r) stmts) (fun m => evalFor m σ2 sc lhs r stmts) :=
  FuelEq.of_shift (fun m => (monoAll m).evalFor _ _ _ _ _) (fun m => (monoAll m).evalFor _ _ _ _ _) n
    fun m hm => for_normal_next m (block_mono hb (by simp) hm)

/-- `return` escaping the body of a `for` is forwarded -/
theorem for_return_propagates (n : Nat) {w : SVal} {l : Loc}
    (hb : evalBlock n (σ.alloc (.list [k, v])).2 sc [(lhs, SVal.plain (.list (σ.alloc (.list [k, v])).1))] stmts = .ok (.ret w l) σ2) :
    evalFor (n + 1) σ sc lhs ((k, v) :: r) stmts = .ok (.ret w l) σ2 := by
  rw [for_step, hb]; rfl

end loops

/-! ### … through any depth of blocks and branches inside the body -/

/-- a body `C[j]` run as a block with bindings: once the bindings are declared in the fresh scope and the path to the
    hole is taken from there, the block yields the escape of `j`, at every sufficient fuel -/
theorem block_jump_through_ctx (C : JCtx) (j : Stmt) {σ σb σ' σ'' : State} {sc sc' : List Addr} {bs : List (Expr × SVal)}
    {esc : Escape} {nd n : Nat}
    (hd : declareAll nd (σ.alloc (.scope [])).2 ((σ.alloc (.scope [])).1 :: sc) bs = .ok () σb)
    (ht : Taken C σb ((σ.alloc (.scope [])).1 :: sc) σ' sc') (hj : evalStmt n σ' sc' j = .ok esc σ'') (hesc : esc ≠ .none) :
    ∃ k, ∀ m, k ≤ m → evalBlock m σ sc bs (C.plug j) = .ok esc σ'' := by
  obtain ⟨k, hk⟩ := jump_through_ctx C j ht hj hesc
  refine ⟨max nd k + 1, fun m hm => ?_⟩
  have h1 : evalBlock (max nd k + 1) σ sc bs (C.plug j) = .ok esc σ'' := by
    rw [block_after_decl _ (declareAll_mono hd (by simp) (Nat.le_max_left nd k))]
    exact stmts_mono hk (by simp) (Nat.le_max_right nd k)
  exact block_mono h1 (by simp) hm

/-- a block without bindings declares nothing -/
theorem declareAll_nil (n : Nat) (σ : State) (sc : List Addr) : declareAll (n + 1) σ sc [] = .ok () σ := by
  unfold declareAll; rfl

section through
variable {σ σ1 σ' σ'' : State} {sc sc' : List Addr} {cond : Expr}

/-- **`break` targets the enclosing `while`, from any depth.**  The condition holds, the path through the body to the
    `break` is taken: the `while` statement completes normally in the state at the `break`. -/
theorem while_break_through_ctx (C : JCtx) (l : Loc) {n : Nat} (hc : evalToBool n σ sc c!"condition" cond = .ok true σ1)
    (ht : Taken C (σ1.alloc (.scope [])).2 ((σ1.alloc (.scope [])).1 :: sc) σ' sc') :
    ∃ k, ∀ m, k ≤ m → evalStmt m σ sc (.While cond (C.plug (.Break l))) = .ok .none σ' := by
  obtain ⟨k, hk⟩ := block_jump_through_ctx C (.Break l) (declareAll_nil 0 _ _) ht (break_escapes 0 σ' sc' l) (by simp)
  refine ⟨max n k + 2, fun m hm => ?_⟩
  have h1 : evalStmt (max n k + 2) σ sc (.While cond (C.plug (.Break l))) = .ok .none σ' := by
    rw [while_enters]
    exact while_break_exits _ (bool_mono hc (by simp) (Nat.le_max_left n k)) (hk _ (Nat.le_max_right n k))
  exact stmt_mono h1 (by simp) hm

/-- **`continue` targets the enclosing `while`, from any depth**: the loop goes on from the state at the `continue`,
    starting with the condition; the rest of the body is skipped. -/
theorem while_continue_through_ctx (C : JCtx) (l : Loc) {n : Nat} (hc : evalToBool n σ sc c!"condition" cond = .ok true σ1)
    (ht : Taken C (σ1.alloc (.scope [])).2 ((σ1.alloc (.scope [])).1 :: sc) σ' sc') :
    FuelEq (fun k => evalWhile k σ sc cond (C.plug (.Continue l))) (fun k => evalWhile k σ' sc cond (C.plug (.Continue l))) := by
  obtain ⟨k, hk⟩ := block_jump_through_ctx C (.Continue l) (declareAll_nil 0 _ _) ht (continue_escapes 0 σ' sc' l) (by simp)
  exact while_continue_reenters_upto hc (hk k (Nat.le_refl k))

/-- **`return` passes through the enclosing `while`, from any depth**, with the value of its expression -/
theorem while_return_through_ctx (C : JCtx) (l : Loc) (e : Expr) {v : SVal} {n ne : Nat}
    (hc : evalToBool n σ sc c!"condition" cond = .ok true σ1)
    (ht : Taken C (σ1.alloc (.scope [])).2 ((σ1.alloc (.scope [])).1 :: sc) σ' sc')
    (he : evalExpr ne σ' sc' e = .ok v σ'') :
    ∃ k, ∀ m, k ≤ m → evalStmt m σ sc (.While cond (C.plug (.Return l e))) = .ok (.ret v l) σ'' := by
  obtain ⟨k, hk⟩ := block_jump_through_ctx C (.Return l e) (declareAll_nil 0 _ _) ht (return_escapes ne _ _ sc' l e v he) (by simp)
  refine ⟨max n k + 2, fun m hm => ?_⟩
  have h1 : evalStmt (max n k + 2) σ sc (.While cond (C.plug (.Return l e))) = .ok (.ret v l) σ'' := by
    rw [while_enters]
    exact while_return_propagates _ (bool_mono hc (by simp) (Nat.le_max_left n k)) (hk _ (Nat.le_max_right n k))
  exact stmt_mono h1 (by simp) hm

variable {σb : State} {lhs : Expr} {key val : SVal} {r : List (SVal × SVal)}

/-- **`break` targets the enclosing `for`, from any depth**: the remaining pairs are dropped.  `σb` is the state after the
    loop variable(s) have been bound to the pair in the fresh scope. -/
theorem for_break_through_ctx (C : JCtx) (l : Loc) {nd : Nat}
    (hd : declareAll nd ((σ.alloc (.list [key, val])).2.alloc (.scope [])).2 (((σ.alloc (.list [key, val])).2.alloc (.scope [])).1 :: sc)
      [(lhs, SVal.plain (.list (σ.alloc (.list [key, val])).1))] = .ok () σb)
    (ht : Taken C σb (((σ.alloc (.list [key, val])).2.alloc (.scope [])).1 :: sc) σ' sc') :
    ∃ k, ∀ m, k ≤ m → evalFor m σ sc lhs ((key, val) :: r) (C.plug (.Break l)) = .ok .none σ' := by
  obtain ⟨k, hk⟩ := block_jump_through_ctx C (.Break l) hd ht (break_escapes 0 σ' sc' l) (by simp)
  refine ⟨k + 1, fun m hm => ?_⟩
  exact for_mono (for_break_exits k (hk k (Nat.le_refl k))) (by simp) hm

theorem for_continue_through_ctx (C : JCtx) (l : Loc) {nd : Nat}
    (hd : declareAll nd ((σ.alloc (.list [key, val])).2.alloc (.scope [])).2 (((σ.alloc (.list [key, val])).2.alloc (.scope [])).1 :: sc)
      [(lhs, SVal.plain (.list (σ.alloc (.list [key, val])).1))] = .ok () σb)
    (ht : Taken C σb (((σ.alloc (.list [key, val])).2.alloc (.scope [])).1 :: sc) σ' sc') :
    FuelEq (fun m => evalFor m σ sc lhs ((key, val) :: r) (C.plug (.Continue l)))
      (fun m => evalFor m σ' sc lhs r (C.plug (.Continue l))) := by
  obtain ⟨k, hk⟩ := block_jump_through_ctx C (.Continue l) hd ht (continue_escapes 0 σ' sc' l) (by simp)
  exact for_continue_next_upto (hk k (Nat.le_refl k))

theorem for_return_through_ctx (C : JCtx) (l : Loc) (e : Expr) {v : SVal} {nd ne : Nat}
    (hd : declareAll nd ((σ.alloc (.list [key, val])).2.alloc (.scope [])).2 (((σ.alloc (.list [key, val])).2.alloc (.scope [])).1 :: sc)
      [(lhs, SVal.plain (.list (σ.alloc (.list [key, val])).1))] = .ok () σb)
    (ht : Taken C σb (((σ.alloc (.list [key, val])).2.alloc (.scope [])).1 :: sc) σ' sc')
    (he : evalExpr ne σ' sc' e = .ok v σ'') :
    ∃ k, ∀ m, k ≤ m → evalFor m σ sc lhs ((key, val) :: r) (C.plug (.Return l e)) = .ok (.ret v l) σ'' := by
  obtain ⟨k, hk⟩ := block_jump_through_ctx C (.Return l e) hd ht (return_escapes ne _ _ sc' l e v he) (by simp)
  refine ⟨k + 1, fun m hm => ?_⟩
  exact for_mono (for_return_propagates k (hk k (Nat.le_refl k))) (by simp) hm

end through

/-! ### nested loops: the innermost one is the target -/

/-- a statement that completes normally (from some fuel on) is transparent: the list continues with the rest -/
theorem stmts_cons_fuelEq {σ σ1 : State} {sc : List Addr} {st : Stmt} (rest : List Stmt) {k0 : Nat}
    (h : ∀ m, k0 ≤ m → evalStmt m σ sc st = .ok .none σ1) :
    FuelEq (fun k => evalStmts k σ sc (st :: rest)) (fun k => evalStmts k σ1 sc rest) :=
  FuelEq.of_shift (fun k => (monoAll k).evalStmts _ _ _) (fun k => (monoAll k).evalStmts _ _ _) k0
    fun m hm => normal_continues m _ _ _ _ _ (h m hm)

/-- a prefix that completes normally is transparent -/
theorem stmts_prefix_fuelEq {σ σ1 : State} {sc : List Addr} {pre : List Stmt} (rest : List Stmt) {n : Nat}
    (h : evalStmts n σ sc pre = .ok .none σ1) :
    FuelEq (fun k => evalStmts k σ sc (pre ++ rest)) (fun k => evalStmts k σ1 sc rest) := by
  induction pre generalizing n σ with
  | nil =>
    cases n with
    | zero => unfold evalStmts at h; simp at h
    | succ n => unfold evalStmts at h; simp at h; subst h; exact FuelEq.refl _
  | cons st pre ih =>
    cases n with
    | zero => unfold evalStmts at h; simp at h
    | succ n =>
      unfold evalStmts at h
      cases hst : evalStmt n σ sc st with
      | timeout => simp [hst, Res.bind] at h
      | err e σ2 => simp [hst, Res.bind] at h
      | crash w σ2 => simp [hst, Res.bind] at h
      | ok esc σ2 =>
        cases esc with
        | none =>
          simp only [hst, Res.bind] at h
          exact FuelEq.trans (stmts_cons_fuelEq (pre ++ rest) (k0 := n) fun m hm => stmt_mono hst (by simp) hm) (ih h)
        | brk l => simp [hst, Res.bind] at h
        | cont l => simp [hst, Res.bind] at h
        | ret v l => simp [hst, Res.bind] at h

/-- a block without bindings is its statements in the fresh scope -/
theorem block_fuelEq (σ : State) (sc : List Addr) (b : List Stmt) :
    FuelEq (fun k => evalBlock k σ sc [] b) (fun k => evalStmts k (σ.alloc (.scope [])).2 ((σ.alloc (.scope [])).1 :: sc) b) := by
  refine FuelEq.of_shift (fun k => (monoAll k).evalBlock _ _ _ _) (fun k => (monoAll k).evalStmts _ _ _) 1 fun m hm => ?_
  obtain ⟨m', rfl⟩ : ∃ m', m = m' + 1 := ⟨m - 1, by omega⟩
  exact block_fresh_scope m' σ sc b

/-- **`break` targets the innermost loop.**  In `while c1 { pre; while c2 { C[break] }; post }`, when the path to the
    `break` is taken, (a) the body of the outer loop goes on with `post`, in the outer body's scope and in the state at
    the `break` — the outer loop has not been left — and (b) if `post` completes normally the outer loop is re-entered
    (its condition is evaluated again) from the state after `post`. -/
theorem break_targets_innermost (C : JCtx) (l : Loc) (c1 c2 : Expr) (pre post : List Stmt)
    {σ σ1 σp σq σ' : State} {sc sc' : List Addr} {n1 n2 n3 : Nat}
    (hc1 : evalToBool n1 σ sc c!"condition" c1 = .ok true σ1)
    (hpre : evalStmts n2 (σ1.alloc (.scope [])).2 ((σ1.alloc (.scope [])).1 :: sc) pre = .ok .none σp)
    (hc2 : evalToBool n3 σp ((σ1.alloc (.scope [])).1 :: sc) c!"condition" c2 = .ok true σq)
    (ht : Taken C (σq.alloc (.scope [])).2 ((σq.alloc (.scope [])).1 :: (σ1.alloc (.scope [])).1 :: sc) σ' sc') :
    FuelEq (fun k => evalBlock k σ1 sc [] (pre ++ .While c2 (C.plug (.Break l)) :: post))
      (fun k => evalStmts k σ' ((σ1.alloc (.scope [])).1 :: sc) post) ∧
    ∀ {n4 : Nat} {σ'' : State}, evalStmts n4 σ' ((σ1.alloc (.scope [])).1 :: sc) post = .ok .none σ'' →
      FuelEq (fun k => evalWhile k σ sc c1 (pre ++ .While c2 (C.plug (.Break l)) :: post))
        (fun k => evalWhile k σ'' sc c1 (pre ++ .While c2 (C.plug (.Break l)) :: post)) := by
  have ha : FuelEq (fun k => evalBlock k σ1 sc [] (pre ++ .While c2 (C.plug (.Break l)) :: post))
      (fun k => evalStmts k σ' ((σ1.alloc (.scope [])).1 :: sc) post) := by
    obtain ⟨k, hk⟩ := while_break_through_ctx C l hc2 ht
    exact (block_fuelEq _ _ _).trans ((stmts_prefix_fuelEq _ hpre).trans (stmts_cons_fuelEq post hk))
  refine ⟨ha, fun {n4 σ''} hpost => ?_⟩
  obtain ⟨k, hk⟩ := (ha (.ok .none σ'') (by simp)).2 ⟨n4, hpost⟩
  exact while_normal_reenters_upto hc1 hk

/-- the same with a `for` as the outer loop is `for_normal_next_upto` after (a); with a `for` as the inner loop: -/
theorem break_targets_innermost_for (C : JCtx) (l : Loc) (c1 lhs iter : Expr) (pre post : List Stmt)
    {σ σ1 σp σi σb σ' : State} {sc sc' : List Addr} {n1 n2 n3 nd : Nat} {it key val : SVal} {r : List (SVal × SVal)}
    (hc1 : evalToBool n1 σ sc c!"condition" c1 = .ok true σ1)
    (hpre : evalStmts n2 (σ1.alloc (.scope [])).2 ((σ1.alloc (.scope [])).1 :: sc) pre = .ok .none σp)
    (hi : evalExpr n3 σp ((σ1.alloc (.scope [])).1 :: sc) iter = .ok it σi)
    (hp : toPairs σi it.v = some (some ((key, val) :: r)))
    (hd : declareAll nd ((σi.alloc (.list [key, val])).2.alloc (.scope [])).2
      (((σi.alloc (.list [key, val])).2.alloc (.scope [])).1 :: (σ1.alloc (.scope [])).1 :: sc)
      [(lhs, SVal.plain (.list (σi.alloc (.list [key, val])).1))] = .ok () σb)
    (ht : Taken C σb (((σi.alloc (.list [key, val])).2.alloc (.scope [])).1 :: (σ1.alloc (.scope [])).1 :: sc) σ' sc') :
    FuelEq (fun k => evalBlock k σ1 sc [] (pre ++ .For lhs iter (C.plug (.Break l)) :: post))
      (fun k => evalStmts k σ' ((σ1.alloc (.scope [])).1 :: sc) post) ∧
    ∀ {n4 : Nat} {σ'' : State}, evalStmts n4 σ' ((σ1.alloc (.scope [])).1 :: sc) post = .ok .none σ'' →
      FuelEq (fun k => evalWhile k σ sc c1 (pre ++ .For lhs iter (C.plug (.Break l)) :: post))
        (fun k => evalWhile k σ'' sc c1 (pre ++ .For lhs iter (C.plug (.Break l)) :: post)) := by
  suffices ha : FuelEq (fun k => evalBlock k σ1 sc [] (pre ++ .For lhs iter (C.plug (.Break l)) :: post))
      (fun k => evalStmts k σ' ((σ1.alloc (.scope [])).1 :: sc) post) by
    refine ⟨ha, fun {n4 σ''} hpost => ?_⟩
    obtain ⟨k, hk⟩ := (ha (.ok .none σ'') (by simp)).2 ⟨n4, hpost⟩
    exact while_normal_reenters_upto hc1 hk
  obtain ⟨k, hk⟩ := for_break_through_ctx (r := r) C l hd ht
  have hfor : ∀ m, max n3 k + 1 ≤ m →
      evalStmt m σp ((σ1.alloc (.scope [])).1 :: sc) (.For lhs iter (C.plug (.Break l))) = .ok .none σ' := by
    intro m hm
    have h1 : evalStmt (max n3 k + 1) σp ((σ1.alloc (.scope [])).1 :: sc) (.For lhs iter (C.plug (.Break l))) = .ok .none σ' := by
      rw [for_enters _ _ _ _ _ _ _ _ _ (evalExpr_fuel_mono hi (by simp) (Nat.le_max_left n3 k)) hp]
      exact hk _ (Nat.le_max_right n3 k)
    exact stmt_mono h1 (by simp) hm
  exact (block_fuelEq _ _ _).trans ((stmts_prefix_fuelEq _ hpre).trans (stmts_cons_fuelEq post hfor))

/-! ### the call boundary: `return` ends exactly the innermost enclosing call -/

/-- **`return` ends exactly the innermost enclosing call.**  A user function whose body is `C[return e]`, called with
    matching arity: when the path to the `return` is taken (through any blocks, branches — and, by
    `while_return_through_ctx` / `for_return_through_ctx`, loops), the call expression evaluates to the value of `e`,
    in the state after evaluating `e`.  The caller sees a value: it goes on with whatever follows the call. -/
theorem return_ends_call (C : JCtx) (l : Loc) (e : Expr) {n nd ne : Nat} {σ σ1 σ2 σb σ' σ'' : State} {sc sc' : List Addr}
    {f : Expr} {args : List ListItem} (loc : Loc) {argVals : List SVal} {fv : SVal} {a : Addr} {fr : FuncRec} {v : SVal}
    (hargs : evalListItems n σ sc args [] = .ok argVals σ1) (hf : evalExpr n σ1 sc f = .ok fv σ2)
    (hv : fv.v = .func a) (hfr : σ2.getFunc a = some fr) (har : ArityOK fr argVals.length)
    (hbody : fr.stmts = C.plug (.Return l e))
    (hd : declareAll nd ((callVals σ2 fr argVals).2.alloc (.scope [])).2 (((callVals σ2 fr argVals).2.alloc (.scope [])).1 :: fr.closure)
      (callBindings σ2 fr fv.src argVals loc) = .ok () σb)
    (ht : Taken C σb (((callVals σ2 fr argVals).2.alloc (.scope [])).1 :: fr.closure) σ' sc')
    (he : evalExpr ne σ' sc' e = .ok v σ'') :
    ∃ k, ∀ m, k ≤ m → evalCall m σ sc f args loc = .ok v σ'' := by
  obtain ⟨k, hk⟩ := block_jump_through_ctx C (.Return l e) hd ht (return_escapes ne _ _ sc' l e v he) (by simp)
  refine ⟨max n k + 1, fun m hm => ?_⟩
  have h1 : evalCall (max n k + 1) σ sc f args loc = .ok v σ'' := by
    refine call_return loc (listItems_mono hargs (by simp) (Nat.le_max_left n k))
      (evalExpr_fuel_mono hf (by simp) (Nat.le_max_left n k)) hv hfr har (l := l) ?_
    rw [hbody]
    exact hk _ (Nat.le_max_right n k)
  exact call_mono h1 (by simp) hm

/-- and a `break` / `continue` that would leave the function body is an error at the call, whatever loop surrounds the
    call: it cannot act on a loop of the caller -/
theorem break_stops_at_call (C : JCtx) (l : Loc) {n nd : Nat} {σ σ1 σ2 σb σ' : State} {sc sc' : List Addr}
    {f : Expr} {args : List ListItem} (loc : Loc) {argVals : List SVal} {fv : SVal} {a : Addr} {fr : FuncRec}
    (hargs : evalListItems n σ sc args [] = .ok argVals σ1) (hf : evalExpr n σ1 sc f = .ok fv σ2)
    (hv : fv.v = .func a) (hfr : σ2.getFunc a = some fr) (har : ArityOK fr argVals.length)
    (hbody : fr.stmts = C.plug (.Break l))
    (hd : declareAll nd ((callVals σ2 fr argVals).2.alloc (.scope [])).2 (((callVals σ2 fr argVals).2.alloc (.scope [])).1 :: fr.closure)
      (callBindings σ2 fr fv.src argVals loc) = .ok () σb)
    (ht : Taken C σb (((callVals σ2 fr argVals).2.alloc (.scope [])).1 :: fr.closure) σ' sc') :
    ∃ k, ∀ m, k ≤ m → evalCall m σ sc f args loc = .err (Err.at l Gen.Leaf.BreakOutsideLoop) σ' := by
  obtain ⟨k, hk⟩ := block_jump_through_ctx C (.Break l) hd ht (break_escapes 0 σ' sc' l) (by simp)
  refine ⟨max n k + 1, fun m hm => ?_⟩
  have h1 : evalCall (max n k + 1) σ sc f args loc = .err (Err.at l Gen.Leaf.BreakOutsideLoop) σ' := by
    refine call_break_is_error loc (listItems_mono hargs (by simp) (Nat.le_max_left n k))
      (evalExpr_fuel_mono hf (by simp) (Nat.le_max_left n k)) hv hfr har (l := l) ?_
    rw [hbody]
    exact hk _ (Nat.le_max_right n k)
  exact call_mono h1 (by simp) hm

/-! ### non-vacuity: the hypotheses of the theorems above on concrete programs -/
section examples

private def tt : Expr := .mk (.Bool true) (1, 7)
private def seven : Expr := .mk (.Int 7) (3, 9)
private def σa : State := (State.init.alloc (.scope [])).2

/-- `while true { break }`: hypotheses of `while_break_exits`, and the loop followed by another statement -/
example : evalToBool 3 State.init [] c!"condition" tt = .ok true State.init ∧
    evalBlock 3 State.init [] [] [.Break (1, 14)] = .ok (.brk (1, 14)) σa :=
  ⟨by with_unfolding_all rfl, by with_unfolding_all rfl⟩
example : evalStmts 6 State.init [] [.While tt [.Break (1, 14)], .Break (2, 1)] = .ok (.brk (2, 1)) σa := by
  rw [while_break_then_rest 3 (l := (1, 14)) _ (σ1 := State.init) (σ2 := σa) (by with_unfolding_all rfl) (by with_unfolding_all rfl)]
  with_unfolding_all rfl
/-- `while true { continue }`, `while true { return 7 }`: hypotheses of `while_continue_reenters`, `while_return_propagates` -/
example : evalBlock 3 State.init [] [] [.Continue (1, 14)] = .ok (.cont (1, 14)) σa := by with_unfolding_all rfl
example : evalBlock 4 State.init [] [] [.Return (1, 14) seven] = .ok (.ret (SVal.plain (.int 7)) (1, 14)) σa := by
  with_unfolding_all rfl
example : evalWhile 5 State.init [] tt [.Return (1, 14) seven] = .ok (.ret (SVal.plain (.int 7)) (1, 14)) σa :=
  while_return_propagates 4 (σ1 := State.init) (by with_unfolding_all rfl) (by with_unfolding_all rfl)

/-- a `for` body over the pair `[0, 10]` bound to `p`: hypotheses of `for_break_exits`, `for_continue_next`, `for_return_propagates` -/
private def σl : State := (State.init.alloc (.list [SVal.plain (.int 0), SVal.plain (.int 10)])).2
private def pvar : Expr := .mk (.Var c!"p") (1, 5)
example : ∃ σ2, evalBlock 6 σl [] [(pvar, SVal.plain (.list 0))] [.Break (1, 14)] = .ok (.brk (1, 14)) σ2 :=
  ⟨_, by with_unfolding_all rfl⟩
example : ∃ σ2, evalBlock 6 σl [] [(pvar, SVal.plain (.list 0))] [.Continue (1, 14)] = .ok (.cont (1, 14)) σ2 :=
  ⟨_, by with_unfolding_all rfl⟩
example : ∃ σ2, evalBlock 6 σl [] [(pvar, SVal.plain (.list 0))] [.Return (1, 14) seven] = .ok (.ret (SVal.plain (.int 7)) (1, 14)) σ2 :=
  ⟨_, by with_unfolding_all rfl⟩
example : ∃ σb, declareAll 5 (σl.alloc (.scope [])).2 [(σl.alloc (.scope [])).1] [(pvar, SVal.plain (.list 0))] = .ok () σb :=
  ⟨_, by with_unfolding_all rfl⟩

/-- the context `if true { □ }; continue` (the trailing `continue` must not run) -/
private def Cif : JCtx := .seq [] (.ifBranch [] tt .hole [] none) [.Continue (9, 9)]
example : Cif.plug (.Break (2, 3)) = [.If [.mk tt [.Break (2, 3)]] none, .Continue (9, 9)] := rfl
private theorem cif_taken (σ : State) (sc : List Addr) : Taken Cif σ sc (σ.alloc (.scope [])).2 ((σ.alloc (.scope [])).1 :: sc) :=
  Taken.seq 1 (by unfold evalStmts; rfl) (Taken.ifBranch 2 (AllFalse.nil _ _) (by with_unfolding_all rfl) (Taken.hole _ _))

/-- `while true { if true { break }; continue }` ends, at the state of the `break` -/
example : ∃ k, ∀ m, k ≤ m → evalStmt m State.init [] (.While tt (Cif.plug (.Break (2, 3)))) = .ok .none (σa.alloc (.scope [])).2 :=
  while_break_through_ctx Cif (2, 3) (n := 2) (σ1 := State.init) (by with_unfolding_all rfl) (cif_taken _ _)

/-- `while true { while true { if true { break }; continue }; return 7 }`: after the inner `break` the outer body goes
    on with `return 7` -/
example : FuelEq (fun k => evalBlock k State.init [] [] ([] ++ .While tt (Cif.plug (.Break (2, 3))) :: [.Return (3, 2) seven]))
    (fun k => evalStmts k ((σa.alloc (.scope [])).2.alloc (.scope [])).2 [0] [.Return (3, 2) seven]) :=
  (break_targets_innermost Cif (2, 3) tt tt [] [.Return (3, 2) seven] (σ := State.init) (σ1 := State.init) (σp := σa) (σq := σa)
    (n1 := 2) (n2 := 1) (n3 := 2) (by with_unfolding_all rfl) (by with_unfolding_all rfl) (by with_unfolding_all rfl) (cif_taken _ _)).1

/-- the same programs, whole: inner `break` leaves only the inner loop; `return` inside two loops and a branch ends the
    call; a `break` in a function called from a loop is an error, not a `break` of that loop -/
example : (run 200 c!"t.sd" c!"i := 0;\nwhile i < 3 {\n j := 0;\n while true {\n if j == 2 { break; }\n j += 1;\n }\n print(j);\n i += 1;\n}\nprint(\"done\");\n").out
    = [c!"2", c!"2", c!"2", c!"done"] := by decide +kernel
example : (run 200 c!"t.sd" c!"for [i, x] in [10, 20, 30] {\n if i == 1 { continue; }\n print(x);\n}\n").out = [c!"10", c!"30"] := by
  decide +kernel
example : (run 200 c!"t.sd" c!"fn f() {\n while true {\n for x in [1] {\n if true { return 7; }\n }\n }\n}\nprint(f());\nprint(1);\n").out
    = [c!"7", c!"1"] := by decide +kernel
example : (run 200 c!"t.sd" c!"fn f() { break; }\nwhile true { f(); }\n").stderr = c!"t.sd:1:10: 'break' can't be used outside of a loop\n" := by
  decide +kernel

/-- a heap with `fn f() { if true { return 7 }; continue }` at address 1, bound to `f` in scope 0 -/
private def σf : State :=
  ⟨#[.scope [(c!"f", SVal.plain (.func 1), (1, 3))], .func ⟨some c!"f", [], false, Cif.plug (.Return (2, 3) seven), [0]⟩], []⟩
private def fvar : Expr := .mk (.Var c!"f") (5, 0)
example : ∃ k σ'', ∀ m, k ≤ m → evalCall m σf [0] fvar [] (5, 1) = .ok (SVal.plain (.int 7)) σ'' := by
  obtain ⟨k, hk⟩ := return_ends_call Cif (2, 3) seven (5, 1) (n := 2) (nd := 1) (ne := 1) (σ := σf) (σ1 := σf) (σ2 := σf) (sc := [0]) (f := fvar) (args := []) (argVals := [])
    (fv := SVal.plain (.func 1)) (a := 1) (fr := ⟨some c!"f", [], false, Cif.plug (.Return (2, 3) seven), [0]⟩)
    (v := SVal.plain (.int 7))
    (by with_unfolding_all rfl) (by with_unfolding_all rfl) rfl (by with_unfolding_all rfl) (by decide) rfl
    (by with_unfolding_all rfl) (cif_taken _ _) (by with_unfolding_all rfl)
  exact ⟨k, _, hk⟩

end examples
/-! ## what `for` can walk, read off the source on every run

`Gen.iterableKinds` is regenerated by tools/extract.py from the arms of the function that turns a value into `[key, value]`
pairs (`value_to_pairs`). -/

theorem iterable_kinds_as_documented : Gen.iterableKinds = [Kind.Str, Kind.List, Kind.Object] := by decide

/-- the model walks exactly the kinds the source has an arm for: every other kind is "not iterable" (`some none`), and a
    well-addressed value of a listed kind yields its pairs -/
theorem model_iterables_are_the_source_kinds (σ : State) (v : Val) :
    (toPairs σ v = some none ↔ Gen.iterableKinds.contains v.kind = false) := by
  cases v <;> simp [toPairs, Val.kind, Gen.iterableKinds] <;> (try (split <;> simp))

end Seed.C07
