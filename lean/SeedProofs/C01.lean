/-
  C01 — whole-program behaviour equals the documented semantics; constructs compose.
  The Lean evaluator is the independent executable reading.  What can be proved about it:
  G1 the meaning of a terminating program does not depend on the fuel, and statement sequences compose.
-/
import SeedProofs.Global
import SeedProofs.Lemmas.C01Ctx
import SeedProofs.Lemmas.C01FnCtx4
-- audit: Seed.C01.simAll Seed.C01.stmts_sim Seed.C01.stmts_sim_same Seed.C01.prog_sim Seed.C01.prog_outcome_refines Seed.C01.fn_ctx_refines_stmts Seed.C01.fn_ctx_refines_stmts_rel Seed.C01.fn_ctx_refines Seed.C01.fn_ctx_congr_upto Seed.C01.fn_ctx_run Seed.C01.FCtx.plug_rel Seed.C01.uptoEq_not_preserved_by_fn_bodies Seed.C01.results_differ_in_a_body
-- audit: Seed.C01.exact_ctx_gen Seed.C01.exact_ctx Seed.C01.refines_ctx Seed.C01.uptoEq_ctx Seed.C01.reaches_bind Seed.C01.stmts_append_exact Seed.C01.uptoEq_iff
namespace Seed.C01
open Seed.C07 (FuelEq)
open Seed

/-- G1: a run that does not time out has the same outcome with any larger fuel: "terminating program" is well defined -/
theorem run_fuel_independent (path src : List Char) {n m : Nat} (hnm : n ≤ m)
    (h : (run n path src).status ≠ .timeout) : run m path src = run n path src :=
  Seed.run_fuel_independent path src hnm h

/-- G1 for all 23 functions of the evaluator at once -/
theorem eval_fuel_monotone (n : Nat) : MonoAll n := monoAll n

/-- continue with `k` after a statement list that did not escape -/
def thenStmts (r : Res Escape) (k : State → Res Escape) : Res Escape :=
  r.bind fun esc σ => match esc with
    | .none => k σ
    | other => .ok other σ

theorem thenStmts_le {r r' : Res Escape} {k k' : State → Res Escape} (h : Res.Le r r') (hk : ∀ σ, Res.Le (k σ) (k' σ)) :
    Res.Le (thenStmts r k) (thenStmts r' k') := by
  unfold thenStmts
  apply Res.Le.bind h
  intro esc σ
  cases esc <;> first | exact hk σ | exact Res.Le.refl _

/-- G6 (sequencing): running `s₁ ++ s₂` is running `s₁` and, if it did not escape, `s₂` in the resulting state — up to
    fuel (the right-hand side gives `s₂` at least as much fuel) -/
theorem seq_compose (n : Nat) (σ : State) (sc : List Addr) (s₁ s₂ : List Stmt) :
    Res.Le (evalStmts n σ sc (s₁ ++ s₂)) (thenStmts (evalStmts n σ sc s₁) fun σ' => evalStmts n σ' sc s₂) := by
  induction s₁ generalizing n σ with
  | nil =>
    cases n with
    | zero => left; unfold evalStmts; rfl
    | succ n =>
      right
      conv => rhs; unfold thenStmts; arg 1; unfold evalStmts
      simp [Res.bind]
  | cons st r ih =>
    cases n with
    | zero => left; unfold evalStmts; rfl
    | succ n =>
      conv => arg 1; unfold evalStmts
      conv => arg 2; unfold thenStmts; arg 1; unfold evalStmts
      simp only [List.cons_append]
      cases hst : evalStmt n σ sc st with
      | timeout => left; rfl
      | err e σ1 => right; rfl
      | crash w σ1 => right; rfl
      | ok esc σ1 =>
        cases esc with
        | none =>
          simp only [Res.bind]
          refine Res.Le.trans (ih n σ1) ?_
          apply thenStmts_le (Res.Le.refl _)
          intro σ'
          exact (monoAll n).evalStmts σ' sc s₂
        | brk l => right; rfl
        | cont l => right; rfl
        | ret v l => right; rfl

/-- a statement after an escaping statement list does not run: `break`, `continue`, `return` cut the sequence -/
theorem escape_cuts (n : Nat) (σ σ' : State) (sc : List Addr) (s₁ s₂ : List Stmt) (esc : Escape)
    (h : evalStmts n σ sc s₁ = .ok esc σ') (hesc : esc ≠ .none) :
    Res.Le (evalStmts n σ sc (s₁ ++ s₂)) (.ok esc σ') := by
  have := seq_compose n σ sc s₁ s₂
  rw [h] at this
  unfold thenStmts at this
  simp only [Res.bind] at this
  cases esc with
  | none => exact absurd rfl hesc
  | brk l => exact this
  | cont l => exact this
  | ret v l => exact this

/-- G6 in both directions: up to fuel, `s₁ ++ s₂` IS `s₁` followed — if it did not escape — by `s₂` in the resulting
    state: every result other than a time-out that one side reaches (at some fuel) the other reaches too.  The direction
    `seq_compose` does not give (whatever the two-step reading yields, the concatenation yields with `s₁.length` more
    units of fuel) comes from the fuel-exact equation `stmts_append_exact`. -/
theorem seq_compose_upto (σ : State) (sc : List Addr) (s₁ s₂ : List Stmt) :
    FuelEq (fun n => evalStmts n σ sc (s₁ ++ s₂))
      (fun n => thenStmts (evalStmts n σ sc s₁) fun σ' => evalStmts n σ' sc s₂) := by
  intro r hr
  constructor
  · rintro ⟨k, hk⟩
    refine ⟨k, ?_⟩
    replace hk : evalStmts k σ sc (s₁ ++ s₂) = r := hk
    show thenStmts (evalStmts k σ sc s₁) (fun σ' => evalStmts k σ' sc s₂) = r
    rcases seq_compose k σ sc s₁ s₂ with h | h
    · exact absurd (hk.symm.trans h) hr
    · exact h.symm.trans hk
  · rintro ⟨k, hk⟩
    refine ⟨k + s₁.length, ?_⟩
    show evalStmts (k + s₁.length) σ sc (s₁ ++ s₂) = r
    replace hk : thenStmts (evalStmts k σ sc s₁) (fun σ' => evalStmts k σ' sc s₂) = r := hk
    rw [stmts_append_exact]
    simp only [thenStmts] at hk
    cases h1 : evalStmts k σ sc s₁ with
    | timeout => rw [h1] at hk; exact absurd hk.symm hr
    | err e σ1 =>
      rw [h1] at hk
      rw [Seed.C07.fuel_stable (mono_stmts σ sc s₁) h1 (by simp) (Nat.le_add_right _ _)]
      exact hk
    | crash w σ1 =>
      rw [h1] at hk
      rw [Seed.C07.fuel_stable (mono_stmts σ sc s₁) h1 (by simp) (Nat.le_add_right _ _)]
      exact hk
    | ok esc σ1 =>
      rw [h1] at hk
      rw [Seed.C07.fuel_stable (mono_stmts σ sc s₁) h1 (by simp) (Nat.le_add_right _ _)]
      cases esc with
      | none => simpa [Res.bind] using hk
      | brk l => exact hk
      | cont l => exact hk
      | ret v l => exact hk

/-- non-vacuity: `x := 1; x()` in a scope of its own — both readings reach the same (non-time-out) result at fuel 8 -/
example :
    let s₁ : List Stmt := [.Declare (.mk (.Var c!"x") (1, 1)) (.mk (.Int 1) (1, 6))]
    let s₂ : List Stmt := [.Expr (.mk (.Call (.mk (.Var c!"x") (2, 1)) []) (2, 1))]
    ∃ e σ', evalStmts 8 (State.init.alloc (.scope [])).2 [0] (s₁ ++ s₂) = .err e σ' ∧
      thenStmts (evalStmts 8 (State.init.alloc (.scope [])).2 [0] s₁)
        (fun σ' => evalStmts 8 σ' [0] s₂) = .err e σ' :=
  ⟨_, _, by with_unfolding_all rfl, by with_unfolding_all rfl⟩

/-! ### observational congruence for statement contexts -/

/-- **Congruence, same result at every fuel.**  If `s` and `t` have the same result at every fuel, state and scope
    chain, so have `K[s]` and `K[t]`, for every one-hole context `K` built from statement sequences, bare blocks, the
    bodies of `if` / `else if` / `else` branches, `while` bodies and `for` bodies — provided `s` and `t` have the same
    number of statements or nothing follows the hole in its own statement list (`exact_not_congruent_in_general` shows
    that this proviso cannot be dropped: the fuel-exact equality counts statements). -/
theorem stmt_ctx_congr (K : SCtx) {s t : List Stmt} (h : ∀ n σ sc, evalStmts n σ sc s = evalStmts n σ sc t)
    (hok : s.length = t.length ∨ K.HoleLast) :
    ∀ n σ sc, evalStmts n σ sc (K.plug s) = evalStmts n σ sc (K.plug t) := exact_ctx_gen K h hok

/-- **Congruence up to fuel** (the full statement: no proviso).  If in every state and scope chain `s` and `t` reach the
    same results — whatever one yields at some fuel, other than a time-out, the other yields at some fuel — then so do
    `K[s]` and `K[t]`, for every context `K`. -/
theorem stmt_ctx_congr_upto (K : SCtx) {s t : List Stmt}
    (h : ∀ σ sc, FuelEq (fun n => evalStmts n σ sc s) (fun n => evalStmts n σ sc t)) :
    ∀ σ sc, FuelEq (fun n => evalStmts n σ sc (K.plug s)) (fun n => evalStmts n σ sc (K.plug t)) := uptoEq_ctx K h

/-- the one-directional form: if `t` can do whatever `s` does, `K[t]` can do whatever `K[s]` does -/
theorem stmt_ctx_refines (K : SCtx) {s t : List Stmt}
    (h : ∀ n σ sc, evalStmts n σ sc s ≠ .timeout → ∃ m, evalStmts m σ sc t = evalStmts n σ sc s) :
    ∀ n σ sc, evalStmts n σ sc (K.plug s) ≠ .timeout → ∃ m, evalStmts m σ sc (K.plug t) = evalStmts n σ sc (K.plug s) :=
  refines_ctx K h

private def tt : Expr := .mk (.Bool true) (1, 0)
private def andtt : Expr := .mk (.BinaryOp .And (1, 5) tt tt) (1, 0)

/-- `true; true;` and `true && true;` have the same result at every fuel (a time-out below 4, normal completion in the
    same state from 4 on) … -/
theorem two_vs_one : ExactEq [.Expr tt, .Expr tt] [.Expr andtt] := by
  intro n σ sc
  match n with
  | 0 => with_unfolding_all rfl
  | 1 => with_unfolding_all rfl
  | 2 => with_unfolding_all rfl
  | 3 => with_unfolding_all rfl
  | n + 4 =>
    have hs : ∀ k σ, evalStmt (k + 2) σ sc (.Expr tt) = .ok .none σ := by
      intro k σ; unfold evalStmt; unfold evalExpr; rfl
    have ht : ∀ k σ, evalStmt (k + 3) σ sc (.Expr andtt) = .ok .none σ := by
      intro k σ; unfold evalStmt; unfold evalExpr; unfold evalExpr; rfl
    rw [stmts_cons, stmts_cons, hs (n + 1), ht n]
    simp only [Res.bind, stmts_nil]
    rw [stmts_cons, hs n]
    simp only [Res.bind, stmts_nil]

/-- … but followed by a third statement they differ at fuel 4: without the proviso of `stmt_ctx_congr` the fuel-exact
    equality is not a congruence (the up-to-fuel one is: `stmt_ctx_congr_upto`) -/
theorem exact_not_congruent_in_general :
    ∃ (K : SCtx) (s t : List Stmt), (∀ n σ sc, evalStmts n σ sc s = evalStmts n σ sc t) ∧
      ¬ ∀ n σ sc, evalStmts n σ sc (K.plug s) = evalStmts n σ sc (K.plug t) := by
  refine ⟨.seq [] .hole [.Expr tt], _, _, two_vs_one, fun h => ?_⟩
  have h4 := h 4 State.init []
  have hl : evalStmts 4 State.init [] ((SCtx.seq [] .hole [.Expr tt]).plug [.Expr tt, .Expr tt]) = .timeout := by
    with_unfolding_all rfl
  have hr : evalStmts 4 State.init [] ((SCtx.seq [] .hole [.Expr tt]).plug [.Expr andtt]) = .ok .none State.init := by
    with_unfolding_all rfl
  rw [hl, hr] at h4
  cases h4

/-- non-vacuity of `stmt_ctx_congr`: the pair above in `while c { pre; □ }` (nothing follows the hole) -/
example (c : Expr) (pre : Stmt) (n : Nat) (σ : State) (sc : List Addr) :
    evalStmts n σ sc [.While c [pre, .Expr tt, .Expr tt]] = evalStmts n σ sc [.While c [pre, .Expr andtt]] :=
  stmt_ctx_congr (.whileBody c (.seq [pre] .hole [])) two_vs_one (Or.inr ⟨trivial, fun _ => rfl⟩) n σ sc

/-- `true;` is equivalent to no statement at all up to fuel (not at every fuel: it needs two more units) … -/
theorem true_stmt_skip (σ : State) (sc : List Addr) :
    FuelEq (fun n => evalStmts n σ sc [.Expr tt]) (fun n => evalStmts n σ sc []) := by
  refine FuelEq.of_shift (fun k => (monoAll k).evalStmts _ _ _) (fun k => (monoAll k).evalStmts _ _ _) 2 fun m hm => ?_
  obtain ⟨k, rfl⟩ : ∃ k, m = k + 2 := ⟨m - 2, by omega⟩
  have hs : evalStmt (k + 2) σ sc (.Expr tt) = .ok .none σ := by unfold evalStmt; unfold evalExpr; rfl
  rw [stmts_cons, hs]; rfl

example : evalStmts 1 State.init [] [.Expr tt] ≠ evalStmts 1 State.init [] [] := by
  have h1 : evalStmts 1 State.init [] [.Expr tt] = .timeout := by with_unfolding_all rfl
  have h2 : evalStmts 1 State.init [] [] = .ok .none State.init := by with_unfolding_all rfl
  rw [h1, h2]; simp

/-- … hence removable anywhere: in the body of a `for` inside an `else` inside a `while`, with statements before and
    after it (non-vacuity of `stmt_ctx_congr_upto`, lists of different lengths, a hole followed by a statement) -/
example (c lhs iter : Expr) (bs : List Branch) (a b : Stmt) (σ : State) (sc : List Addr) :
    FuelEq (fun n => evalStmts n σ sc [.While c [.If bs (some [.For lhs iter [a, .Expr tt, b]])]])
      (fun n => evalStmts n σ sc [.While c [.If bs (some [.For lhs iter [a, b]])]]) :=
  stmt_ctx_congr_upto (.whileBody c (.ifElse bs (.forBody lhs iter (.seq [a] .hole [b])))) true_stmt_skip σ sc

end Seed.C01

/-! ### contexts through function bodies (third session; `Lemmas/C01FnCtx*.lean`)

`stmt_ctx_congr_upto` stops at function bodies because a body is not run where it stands: it is stored in a heap cell and run
at the calls.  `fn_ctx_congr_upto` closes this: for EVERY one-hole context `K : FCtx` — all of `SCtx`, the bodies and parameter
patterns of `fn` statements and function literals, every expression position, at any depth — and statement lists `s`, `t` that
are equivalent up to fuel, the programs `K[s]` and `K[t]` have the same outcomes (stdout, exit status, stderr): every outcome
other than a time-out that one reaches, the other reaches.  The proof is a simulation over all 23 evaluator functions
(`simAll`): the two runs go through states that are equal except for the CODE stored in function cells (`wb β σ`), which is
related by "same syntax except `s` for `t` at any number of positions"; no hypothesis about related states is needed, because
the left occurrence of `s` is first matched by the right run of the same `s` and the equivalence is applied inside the right
state.  The conclusion is about outcomes and not about result states, and that cannot be improved:
`uptoEq_not_preserved_by_fn_bodies` (the stored code itself differs).  Not covered: a hole inside the TEXT of an interpolated
literal (slot expressions are parsed at run time from the text). -/
