/-
  C01 — whole-program behaviour equals the documented semantics; constructs compose.
  The Lean evaluator is the independent executable reading.  What can be proved about it:
  G1 the meaning of a terminating program does not depend on the fuel, and statement sequences compose.
-/
import SeedProofs.Global
namespace Seed.C01
open Seed

/-- G1: a run that does not time out has the same outcome with any larger fuel: "terminating program" is well defined -/
theorem run_fuel_independent (path src : List Char) {n m : Nat} (hnm : n ≤ m)
    (h : (run n path src).status ≠ .timeout) : run m path src = run n path src :=
  Seed.run_fuel_independent path src hnm h

/-- G1 for all 23 functions of the evaluator at once -/
theorem eval_fuel_monotone (n : Nat) : MonoAll n := monoAll n

/-- continue with `k` after a statement list that did not escape -/
def thenStmts (r : Res Escape) (k : State → Res Escape) : Res Escape :=
  r.bind fun esc σ => match esc with
    | .none => k σ
    | other => .ok other σ

theorem thenStmts_le {r r' : Res Escape} {k k' : State → Res Escape} (h : Res.Le r r') (hk : ∀ σ, Res.Le (k σ) (k' σ)) :
    Res.Le (thenStmts r k) (thenStmts r' k') := by
  unfold thenStmts
  apply Res.Le.bind h
  intro esc σ
  cases esc <;> first | exact hk σ | exact Res.Le.refl _

/-- G6 (sequencing): running `s₁ ++ s₂` is running `s₁` and, if it did not escape, `s₂` in the resulting state — up to
    fuel (the right-hand side gives `s₂` at least as much fuel) -/
theorem seq_compose (n : Nat) (σ : State) (sc : List Addr) (s₁ s₂ : List Stmt) :
    Res.Le (evalStmts n σ sc (s₁ ++ s₂)) (thenStmts (evalStmts n σ sc s₁) fun σ' => evalStmts n σ' sc s₂) := by
  induction s₁ generalizing n σ with
  | nil =>
    cases n with
    | zero => left; unfold evalStmts; rfl
    | succ n =>
      right
      conv => rhs; unfold thenStmts; arg 1; unfold evalStmts
      simp [Res.bind]
  | cons st r ih =>
    cases n with
    | zero => left; unfold evalStmts; rfl
    | succ n =>
      conv => arg 1; unfold evalStmts
      conv => arg 2; unfold thenStmts; arg 1; unfold evalStmts
      simp only [List.cons_append]
      cases hst : evalStmt n σ sc st with
      | timeout => left; rfl
      | err e σ1 => right; rfl
      | crash w σ1 => right; rfl
      | ok esc σ1 =>
        cases esc with
        | none =>
          simp only [Res.bind]
          refine Res.Le.trans (ih n σ1) ?_
          apply thenStmts_le (Res.Le.refl _)
          intro σ'
          exact (monoAll n).evalStmts σ' sc s₂
        | brk l => right; rfl
        | cont l => right; rfl
        | ret v l => right; rfl

/-- a statement after an escaping statement list does not run: `break`, `continue`, `return` cut the sequence -/
theorem escape_cuts (n : Nat) (σ σ' : State) (sc : List Addr) (s₁ s₂ : List Stmt) (esc : Escape)
    (h : evalStmts n σ sc s₁ = .ok esc σ') (hesc : esc ≠ .none) :
    Res.Le (evalStmts n σ sc (s₁ ++ s₂)) (.ok esc σ') := by
  have := seq_compose n σ sc s₁ s₂
  rw [h] at this
  unfold thenStmts at this
  simp only [Res.bind] at this
  cases esc with
  | none => exact absurd rfl hesc
  | brk l => exact this
  | cont l => exact this
  | ret v l => exact this

end Seed.C01
