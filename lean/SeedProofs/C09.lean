/-
  C09.lean — table facts and terminator-suppression lemmas for "newline equals `;`; layout never
  changes meaning".

  * `continuation_as_documented`: the extracted list of tokens after which a terminator is dropped is
    the documented one: `+ - * / % == != < <= > >= && || = := += -= *= /= %= , . ( [ {` and `StmtEnd`.
  * `suppress_*`: the model of `Iterator::next for Lexer` (`Seed.suppress`, SeedModel/Lex.lean) keeps every
    token that is not a terminator and drops a terminator exactly when it is first or follows a
    terminator or a continuation token; consequently extra terminators at those places, and the choice
    between `;` and newline (both are the token `StmtEnd`), do not change the stream the parser sees.

  * second half ("The lexer and layout", helpers in Lemmas/C09*.lean): `tokens_independent_of_position`,
    `skipWs_spec`, `layout_invariance(_at_boundary)`, `newline_is_semicolon(_at_boundary)`, `int_separators`.

  * third part ("The lexer round trip", helpers in Lemmas/LexRT*.lean): `lex_render_token`, `lex_render`,
    `lex_render_boundaries`, `lex_render_lexAll`, `lex_render_exact`.

  Not in this file (DESIGN.md §6 C09): `hex_escape_ascii`.
-/
import SeedModel.Lex
import SeedProofs.Lemmas.Scan
import SeedProofs.Lemmas.C09Pos
import SeedProofs.Lemmas.C09Layout
import SeedProofs.Lemmas.C09Local
import SeedProofs.Lemmas.C09Tok
import SeedProofs.Lemmas.C09Raw
import SeedProofs.Lemmas.C09Int
import SeedProofs.Lemmas.LexRT
import SeedProofs.Lemmas.C09StrBoundary
namespace Seed.C09
open Seed

/-- the 25 documented continuation tokens -/
def documentedContinuation : List Token := [
  .Sum, .Sub, .Mul, .Div, .Mod,                                         -- + - * / %
  .EqualsEquals, .BangEquals, .LessThan, .LessThanEquals, .GreaterThan, .GreaterThanEquals,  -- == != < <= > >=
  .AmpAmp, .PipePipe,                                                   -- && ||
  .Equals, .ColonEquals, .SumEquals, .SubEquals, .MulEquals, .DivEquals, .ModEquals,         -- = := += -= *= /= %=
  .Comma, .Dot, .ParenOpen, .BracketOpen, .BraceOpen]                   -- , . ( [ {

/-- the same, as a predicate on all tokens (identifiers and literals included) -/
def isDocumentedContinuation : Token → Bool
  | .Sum | .Sub | .Mul | .Div | .Mod => true
  | .EqualsEquals | .BangEquals | .LessThan | .LessThanEquals | .GreaterThan | .GreaterThanEquals => true
  | .AmpAmp | .PipePipe => true
  | .Equals | .ColonEquals | .SumEquals | .SubEquals | .MulEquals | .DivEquals | .ModEquals => true
  | .Comma | .Dot | .ParenOpen | .BracketOpen | .BraceOpen => true
  | .StmtEnd => true
  | _ => false

/-- the extracted continuation list, as a set, is the 25 documented tokens plus `StmtEnd` -/
theorem continuation_as_documented :
    documentedContinuation.length = 25 ∧ documentedContinuation.Nodup ∧
    Gen.continuation.all ((Token.StmtEnd :: documentedContinuation).contains ·) = true ∧
    (Token.StmtEnd :: documentedContinuation).all (Gen.continuation.contains ·) = true := by
  refine ⟨rfl, by decide, by decide, by decide⟩

/-- … and as a predicate over *every* token: in particular `.. -> : === !== ) ] }`, identifiers,
    literals and keywords are not continuation tokens -/
theorem isContinuation_as_documented (t : Token) : isContinuation t = isDocumentedContinuation t := by
  cases t <;> rfl

theorem ineligible_not_continuation :
    isContinuation .DotDot = false ∧ isContinuation .DashGreaterThan = false ∧
    isContinuation .Colon = false ∧ isContinuation .EqualsEqualsEquals = false ∧
    isContinuation .BangEqualsEquals = false ∧ isContinuation .ParenClose = false ∧
    isContinuation .BracketClose = false ∧ isContinuation .BraceClose = false ∧
    (∀ s, isContinuation (.Ident s) = false) ∧ (∀ n, isContinuation (.IntLiteral n) = false) ∧
    (∀ s, isContinuation (.StrLiteral s) = false) ∧ (∀ s sl, isContinuation (.InterpStrLiteral s sl) = false) := by
  refine ⟨rfl, rfl, rfl, rfl, rfl, rfl, rfl, rfl, fun _ => rfl, fun _ => rfl, fun _ => rfl, fun _ _ => rfl⟩

/-! ### `suppress` -/

/-- "a terminator arriving now would be dropped": nothing has been emitted yet, or the last raw token
    was a continuation token (a terminator is one) -/
def dropsAfter : Option Token → Bool
  | none => true
  | some t => isContinuation t

/-- a token that is not a terminator is always kept -/
theorem suppress_keeps (last : Option Token) (sp : Span) (r : List Span) (h : sp.tok ≠ Token.StmtEnd) :
    suppress last (sp :: r) = sp :: suppress (some sp.tok) r := by
  rw [suppress.eq_def]; simp [h]

example : (⟨(1, 1), Token.Sum, (1, 1)⟩ : Span).tok ≠ Token.StmtEnd := by decide

/-- a terminator is dropped iff it is first or follows a terminator or a continuation token -/
theorem suppress_stmtEnd (last : Option Token) (sp : Span) (r : List Span) (h : sp.tok = Token.StmtEnd) :
    suppress last (sp :: r) =
      if dropsAfter last then suppress (some Token.StmtEnd) r else sp :: suppress (some Token.StmtEnd) r := by
  rw [suppress.eq_def]
  cases last with
  | none => simp [h, dropsAfter]
  | some t => cases hc : isContinuation t <;> simp [h, dropsAfter, hc]

example : (⟨(1, 2), Token.StmtEnd, (1, 2)⟩ : Span).tok = Token.StmtEnd := rfl

theorem dropsAfter_stmtEnd : dropsAfter (some Token.StmtEnd) = true := rfl

/-- whether `sp`, arriving after `prev`, survives suppression -/
def kept (prev : Option Token) (sp : Span) : Bool :=
  sp.tok ≠ Token.StmtEnd || !dropsAfter prev

/-- the token that precedes each element of `ts` in the raw stream -/
def prevs (last : Option Token) (ts : List Span) : List (Option Token) :=
  last :: ts.map (fun sp => some sp.tok)

/-- specification of `suppress`: it is the raw stream with exactly those terminators removed that are
    first or follow a terminator or a continuation token (looking at the *raw* predecessor, dropped
    terminators included); all other tokens are kept, in order -/
theorem suppress_spec (last : Option Token) (ts : List Span) :
    suppress last ts = ((ts.zip (prevs last ts)).filter (fun p => kept p.2 p.1)).map Prod.fst := by
  induction ts generalizing last with
  | nil => simp [suppress]
  | cons sp r ih =>
    by_cases h : sp.tok = Token.StmtEnd
    · rw [suppress_stmtEnd last sp r h, ← h, ih]
      cases hd : dropsAfter last <;> simp [prevs, kept, h, hd]
    · rw [suppress_keeps last sp r h, ih]
      simp [prevs, kept, h]

/-- `suppress` looks at the previous token only through `dropsAfter` -/
theorem suppress_congr_last (l1 l2 : Option Token) (ts : List Span) (h : dropsAfter l1 = dropsAfter l2) :
    suppress l1 ts = suppress l2 ts := by
  cases ts with
  | nil => simp [suppress]
  | cons sp r =>
    by_cases hs : sp.tok = Token.StmtEnd
    · rw [suppress_stmtEnd l1 sp r hs, suppress_stmtEnd l2 sp r hs, h]
    · rw [suppress_keeps l1 sp r hs, suppress_keeps l2 sp r hs]

example : dropsAfter none = dropsAfter (some Token.Comma) := rfl

/-- an extra terminator at the very start changes nothing -/
theorem suppress_insert_start (se : Span) (ts : List Span) (h : se.tok = Token.StmtEnd) :
    suppress none (se :: ts) = suppress none ts := by
  rw [suppress_stmtEnd none se ts h]
  simp only [dropsAfter, if_true]
  exact suppress_congr_last _ _ ts rfl

/-- an extra terminator where a terminator would be dropped anyway changes nothing to what follows -/
theorem suppress_insert_here (last : Option Token) (se : Span) (post : List Span)
    (h : se.tok = Token.StmtEnd) (hd : dropsAfter last = true) :
    suppress last (se :: post) = suppress last post := by
  rw [suppress_stmtEnd last se post h, hd]
  simp only [if_true]
  exact suppress_congr_last _ _ post (by rw [hd]; rfl)

/-- the last raw token after `pre`, starting from `last` -/
def lastTok : Option Token → List Span → Option Token
  | last, [] => last
  | _, sp :: r => lastTok (some sp.tok) r

theorem lastTok_cons (last : Option Token) (sp : Span) (pre : List Span) :
    lastTok last (sp :: pre) = lastTok (some sp.tok) pre := rfl

theorem lastTok_eq_getLast (last : Option Token) (pre : List Span) :
    lastTok last pre = match pre.getLast? with
      | none => last
      | some sp => some sp.tok := by
  induction pre generalizing last with
  | nil => rfl
  | cons a r ih =>
    rw [lastTok_cons, ih]
    cases r with
    | nil => rfl
    | cons b r' =>
      rw [List.getLast?_cons_cons]
      cases h : (b :: r').getLast? with
      | none => simp at h
      | some x => rfl

/-- inserting an extra terminator right after a terminator or a continuation token (or at the start),
    anywhere in the stream, does not change what the parser sees -/
theorem suppress_layout_invariant (last : Option Token) (pre post : List Span) (se : Span)
    (h : se.tok = Token.StmtEnd) (hd : dropsAfter (lastTok last pre) = true) :
    suppress last (pre ++ se :: post) = suppress last (pre ++ post) := by
  induction pre generalizing last with
  | nil => exact suppress_insert_here last se post h (by simpa [lastTok] using hd)
  | cons sp r ih =>
    rw [lastTok_cons] at hd
    simp only [List.cons_append]
    by_cases hs : sp.tok = Token.StmtEnd
    · have ih' := ih _ hd
      rw [hs] at ih'
      rw [suppress_stmtEnd last sp _ hs, suppress_stmtEnd last sp _ hs, ih']
    · rw [suppress_keeps last sp _ hs, suppress_keeps last sp _ hs, ih _ hd]

-- the hypotheses are satisfiable: `x = ⏎ 1` — a terminator after `=` is dropped
example :
    let x : Span := ⟨(1, 1), .Ident c!"x", (1, 1)⟩
    let eq : Span := ⟨(1, 3), .Equals, (1, 3)⟩
    let nl : Span := ⟨(2, 0), .StmtEnd, (2, 0)⟩
    let one : Span := ⟨(2, 1), .IntLiteral 1, (2, 1)⟩
    dropsAfter (lastTok none [x, eq]) = true ∧
    suppress none ([x, eq] ++ nl :: [one]) = suppress none ([x, eq] ++ [one]) := by
  decide

/-- conversely, a terminator after a token that is not a continuation token is kept: a line break
    there does split the statement -/
theorem suppress_break_splits (last : Option Token) (pre post : List Span) (se : Span)
    (h : se.tok = Token.StmtEnd) (hd : dropsAfter (lastTok last pre) = false) :
    suppress last (pre ++ se :: post) = suppress last pre ++ se :: suppress (some Token.StmtEnd) post := by
  induction pre generalizing last with
  | nil =>
    have : dropsAfter last = false := by simpa [lastTok] using hd
    rw [List.nil_append, suppress_stmtEnd last se post h, this]
    simp [suppress]
  | cons sp r ih =>
    rw [lastTok_cons] at hd
    simp only [List.cons_append]
    by_cases hs : sp.tok = Token.StmtEnd
    · have ih' := ih _ hd
      rw [hs] at ih'
      rw [suppress_stmtEnd last sp _ hs, suppress_stmtEnd last sp _ hs, ih']
      cases dropsAfter last <;> simp
    · rw [suppress_keeps last sp _ hs, suppress_keeps last sp _ hs, ih _ hd]
      simp

example : dropsAfter (lastTok none [(⟨(1, 1), .DotDot, (1, 2)⟩ : Span)]) = false := by decide

/-- `;` and newline are the same token: the suppressed stream, positions erased, depends only on the
    raw stream with positions erased -/
theorem suppress_tok_only (last : Option Token) (ts ts' : List Span)
    (h : ts.map (·.tok) = ts'.map (·.tok)) :
    (suppress last ts).map (·.tok) = (suppress last ts').map (·.tok) := by
  induction ts generalizing last ts' with
  | nil =>
    cases ts' with
    | nil => rfl
    | cons _ _ => simp at h
  | cons sp r ih =>
    cases ts' with
    | nil => simp at h
    | cons sp' r' =>
      simp only [List.map_cons, List.cons.injEq] at h
      obtain ⟨h1, h2⟩ := h
      by_cases hs : sp.tok = Token.StmtEnd
      · have hs' : sp'.tok = Token.StmtEnd := h1 ▸ hs
        rw [suppress_stmtEnd last sp r hs, suppress_stmtEnd last sp' r' hs']
        cases dropsAfter last
        · simp only [Bool.false_eq_true, if_false, List.map_cons, h1, ih _ _ h2]
        · simp only [if_true, ih _ _ h2]
      · have hs' : sp'.tok ≠ Token.StmtEnd := h1 ▸ hs
        rw [suppress_keeps last sp r hs, suppress_keeps last sp' r' hs']
        simp only [List.map_cons, h1, ih _ _ h2]

-- `a ; b` and `a ⏎ b`: same tokens, different positions
example :
    ([⟨(1, 1), .Ident c!"a", (1, 1)⟩, ⟨(1, 2), .StmtEnd, (1, 2)⟩, ⟨(1, 3), .Ident c!"b", (1, 3)⟩] : List Span).map (·.tok)
      = ([⟨(1, 1), .Ident c!"a", (2, 0)⟩, ⟨(2, 0), .StmtEnd, (2, 0)⟩, ⟨(2, 1), .Ident c!"b", (2, 1)⟩] : List Span).map (·.tok) := by
  decide

/-! ## The lexer and layout

  Helper definitions (Lemmas/C09*.lean): `kind` erases every position of a `nextToken` result
  (`TokK.tok t rest` / `TokK.err (eraseLoc e)` / `TokK.eof`); `Layout p`: `p` is blanks then possibly one
  `#…` comment without newline; `CommentClosed p r`: if `p` contains a comment, `r` is empty or starts
  with a newline; `LexTo src ts rest`: lexing `src` yields the tokens `ts` and stops at the token boundary
  before `rest`; `RawEq a b`: same raw tokens and same kind of error from any position with any fuel;
  `SameTokens a b`: `lexAll a` and `lexAll b` agree up to positions. -/

theorem kind_tok_iff {res : TokRes} {t : Token} {r : List Char} :
    kind res = .tok t r ↔ ∃ sp s', res = .tok sp s' ∧ sp.tok = t ∧ s'.rest = r := by
  cases res with
  | eof => simp [kind]
  | err e => simp [kind]
  | tok sp s' =>
    simp only [kind, TokK.tok.injEq, TokRes.tok.injEq]
    constructor
    · rintro ⟨h1, h2⟩; exact ⟨sp, s', ⟨rfl, rfl⟩, h1, h2⟩
    · rintro ⟨_, _, ⟨rfl, rfl⟩, h1, h2⟩; exact ⟨h1, h2⟩

/-! ### L1: tokens do not depend on the scanner's line/column -/

/-- **L1** the token (kind and payload) and the remaining characters returned by `nextToken` depend
    only on the remaining characters of the scanner, not on its line/column; errors agree up to their
    location (same constructor, same character / raw-text payload) -/
theorem tokens_independent_of_position {s s' : Scanner} (h : s.rest = s'.rest) :
    (nextToken s = .eof ↔ nextToken s' = .eof) ∧
    (∀ sp t, nextToken s = .tok sp t →
      ∃ sp' t', nextToken s' = .tok sp' t' ∧ sp'.tok = sp.tok ∧ t'.rest = t.rest) ∧
    (∀ e, nextToken s = .err e → ∃ e', nextToken s' = .err e' ∧ eraseLoc e' = eraseLoc e) := by
  have hk := nextToken_kind_indep h
  cases h1 : nextToken s <;> cases h2 : nextToken s' <;> rw [h1, h2] at hk <;>
    simp only [kind, TokK.tok.injEq, TokK.err.injEq, reduceCtorEq] at hk <;>
    simp only [reduceCtorEq, TokRes.tok.injEq, TokRes.err.injEq, false_implies, implies_true,
      and_true, true_and, iff_self]
  · rintro sp t ⟨rfl, rfl⟩
    exact ⟨_, _, ⟨rfl, rfl⟩, hk.1.symm, hk.2.symm⟩
  · intro e he
    subst he
    exact ⟨_, rfl, hk.symm⟩

-- hypotheses satisfiable: the same text at two different places
example : (⟨c!"x = 1", 1, 1⟩ : Scanner).rest = (⟨c!"x = 1", 7, 3⟩ : Scanner).rest := rfl
example : ∃ sp t, nextToken ⟨c!"x = 1", 1, 1⟩ = .tok sp t := ⟨_, _, rfl⟩
example : ∃ e, nextToken ⟨c!"?", 1, 1⟩ = .err e := ⟨_, rfl⟩

/-- the location-erased error determines constructor and payload: only the location may differ -/
theorem eraseLoc_eq_iff (e e' : LexError) :
    eraseLoc e = eraseLoc e' ↔
      match e, e' with
      | .Unexpected _ a, .Unexpected _ b => a = b
      | .IntOverflow _ a, .IntOverflow _ b => a = b
      | .UnescapedDollar _, .UnescapedDollar _ => True
      | .InvalidInterpolationStart _ a, .InvalidInterpolationStart _ b => a = b
      | .InvalidEscapeChar _ a, .InvalidEscapeChar _ b => a = b
      | .InvalidHexChar _ a, .InvalidHexChar _ b => a = b
      | _, _ => False := by
  cases e <;> cases e' <;> simp [eraseLoc]

/-- **L1**, lifted: the raw token stream (positions erased) and the kind of the error that ends it
    depend only on the remaining characters -/
theorem lexRaw_independent_of_position (n : Nat) {s s' : Scanner} (h : s.rest = s'.rest) :
    (lexRaw n s).1.map Span.tok = (lexRaw n s').1.map Span.tok ∧
    (lexRaw n s).2.map eraseLoc = (lexRaw n s').2.map eraseLoc :=
  lexRaw_kind_indep n h

/-- the position-free pieces: the same holds for every sub-lexer -/
theorem sublexers_independent_of_position {s s' : Scanner} (h : s.rest = s'.rest) :
    s.skipWs.rest = s'.skipWs.rest ∧ exK (lexInt s) = exK (lexInt s') ∧
    (∀ interp, exK (lexStr interp s) = exK (lexStr interp s')) ∧
    (∀ interp a, accK (strLoop interp s.rest s.line s.col a) = accK (strLoop interp s'.rest s'.line s'.col a)) ∧
    (∀ c1, (lexSym c1 s).1 = (lexSym c1 s').1 ∧ (lexSym c1 s).2.rest = (lexSym c1 s').2.rest) :=
  ⟨Scanner.skipWs_rest_congr h, lexInt_indep h, fun i => lexStr_indep i h,
    fun i a => by rw [h]; exact strLoop_indep i _ _ _ _ _ a, fun c1 => lexSym_indep c1 h⟩

/-! ### L2: what `skipWs` removes -/

/-- **L2** `skipWs` removes a prefix `p` of blanks and at most one final comment (`Layout p`; a comment
    runs up to, not including, the next newline or to the end of input), and what is left does not
    start with a blank or `#`: the removed prefix is maximal -/
theorem skipWs_spec (s : Scanner) :
    ∃ p, s.rest = p ++ s.skipWs.rest ∧ Layout p ∧ CommentClosed p s.skipWs.rest ∧
      (∀ x, s.skipWs.rest.head? = some x → ¬ isBlank x ∧ x ≠ '#') :=
  skipWs_layout s.rest s.line s.col

/-- a layout text contains no newline (a newline is a token) -/
theorem layout_no_newline {p : List Char} (h : Layout p) : '\n' ∉ p :=
  fun hm => h.no_newline _ hm rfl

/-- **L2**, converse: such a decomposition is the one `skipWs` finds -/
theorem skipWs_spec_converse {p r : List Char} (hp : Layout p) (hc : CommentClosed p r)
    (hh : ∀ x, r.head? = some x → ¬ isBlank x ∧ x ≠ '#') (l c : Nat) :
    (Scanner.skipWs ⟨p ++ r, l, c⟩).rest = r :=
  skipWs_of_layout hp r hc hh l c

-- hypotheses satisfiable: two blanks, a tab and a comment before a newline
example : Layout c!"  \t# note" :=
  .blank (by decide) (.blank (by decide) (.blank (by decide) (.comment (by decide))))
example : CommentClosed c!"  \t# note" c!"\nx" := fun _ => Or.inr rfl
example : ∀ x, (c!"\nx" : List Char).head? = some x → ¬ isBlank x ∧ x ≠ '#' := by
  intro x hx; injection hx with hx; subst hx; decide
example : (Scanner.skipWs ⟨c!"  \t# note\nx", 1, 1⟩).rest = c!"\nx" := by decide

/-! ### L3: layout does not change the tokens -/

/-- **L3** layout in front of a token never changes the raw token stream (positions erased) nor the
    kind of error — whatever the starting positions and the fuel -/
theorem layout_invariance {p r : List Char} (hp : Layout p) (hc : CommentClosed p r)
    (n l c l' c' : Nat) :
    (lexRaw n ⟨p ++ r, l, c⟩).1.map Span.tok = (lexRaw n ⟨r, l', c'⟩).1.map Span.tok ∧
    (lexRaw n ⟨p ++ r, l, c⟩).2.map eraseLoc = (lexRaw n ⟨r, l', c'⟩).2.map eraseLoc :=
  lexRaw_skip_layout hp r hc n l c l' c'

/-- … and so the parser sees the same tokens for `p ++ r` as for `r` -/
theorem layout_invariance_lexAll {p r : List Char} (hp : Layout p) (hc : CommentClosed p r) :
    SameTokens (p ++ r) r :=
  RawEq.sameTokens (fun m l c l' c' => lexRaw_skip_layout hp r hc m l c l' c')

example : Layout c!"\t " ∧ CommentClosed c!"\t " c!"print(1)" :=
  ⟨.blank (by decide) (.blank (by decide) .nil), fun h => by revert h; decide⟩

/-- every prefix of the raw token stream ends at a token boundary (`LexTo` hypotheses are satisfiable
    for every text) -/
theorem token_boundaries_exist (n : Nat) (s : Scanner) (k : Nat) :
    ∃ rest, LexTo s.rest (((lexRaw n s).1.take k).map Span.tok) rest :=
  LexTo.of_lexRaw n s k

/-- a `LexTo` prefix is a prefix of the raw stream: with `n` units of fuel beyond the tokens of `ts`,
    `lexRaw` yields `ts` and then the stream of `rest` -/
theorem lexTo_lexRaw {src rest : List Char} {ts : List Token} (h : LexTo src ts rest)
    (n l c l' c' : Nat) :
    (lexRaw (ts.length + n) ⟨src, l, c⟩).1.map Span.tok =
        ts ++ (lexRaw n ⟨rest, l', c'⟩).1.map Span.tok ∧
    (lexRaw (ts.length + n) ⟨src, l, c⟩).2.map eraseLoc = (lexRaw n ⟨rest, l', c'⟩).2.map eraseLoc :=
  h.lexRaw n l c l' c'

/-- **token locality** (the lookahead lemma behind the boundary theorems): a token depends on its own
    characters and on how the following text starts, and a separator (blank, `#`, newline, `;`) there is
    as good as whatever followed before.  The exception is an unterminated string literal at the end of
    input (accepted by the model as by the implementation): it would swallow the inserted text. -/
theorem token_locality {a x y : List Char} {t : Token} (l c l' c' : Nat)
    (h : kind (nextToken ⟨a ++ x, l, c⟩) = .tok t x)
    (he : x.head? = y.head? ∨ ∃ e y', y = e :: y' ∧ isSep e)
    (hstr : x = [] → y = [] ∨ isStrTok t = false) :
    kind (nextToken ⟨a ++ y, l', c'⟩) = .tok t y :=
  nextToken_local l c l' c' h he hstr

example : kind (nextToken ⟨c!"ab" ++ c!"+1", 1, 1⟩) = .tok (.Ident c!"ab") c!"+1" := by decide
example : ∃ e y', c!" +1" = e :: y' ∧ isSep e := ⟨' ', c!"+1", rfl, by decide⟩
-- the excluded case is real: an unterminated literal at the end of input swallows appended layout
example : kind (nextToken ⟨c!"\"ab" ++ [], 1, 1⟩) = .tok (.StrLiteral c!"ab") [] ∧
    kind (nextToken ⟨c!"\"ab" ++ c!" ", 1, 1⟩) = .tok (.StrLiteral c!"ab ") [] := by decide

/-- **L3**, general: layout inserted at *any* token boundary changes neither the raw token stream nor
    the kind of error.  `pre` is lexed as `ts` up to the boundary before `r`; `p` is inserted there.
    Side conditions: a comment in `p` must be closed by `r` (newline or end of input); and if `r` is
    empty, the last token of `pre` must not be a string literal (it could be unterminated). -/
theorem layout_invariance_at_boundary {pre p r : List Char} {ts : List Token}
    (h : LexTo (pre ++ r) ts r) (hp : Layout p) (hc : CommentClosed p r)
    (hstr : r = [] → ∀ t, ts.getLast? = some t → isStrTok t = false) :
    RawEq (pre ++ (p ++ r)) (pre ++ r) := by
  cases hp with
  | nil => exact RawEq.refl _
  | @blank e p' hb hp' =>
    have h2 : LexTo (pre ++ (e :: p' ++ r)) ts (e :: p' ++ r) :=
      h.replace_rest pre rfl _ (Or.inr ⟨e, p' ++ r, rfl, Or.inl hb⟩) (fun hr => Or.inr (hstr hr))
    exact RawEq.of_lexTo h2 h (fun m l c l' c' =>
      lexRaw_skip_layout (Layout.blank hb hp') r hc m l c l' c')
  | @comment t ht =>
    have h2 : LexTo (pre ++ ('#' :: t ++ r)) ts ('#' :: t ++ r) :=
      h.replace_rest pre rfl _ (Or.inr ⟨'#', t ++ r, rfl, Or.inr (Or.inl rfl)⟩)
        (fun hr => Or.inr (hstr hr))
    exact RawEq.of_lexTo h2 h (fun m l c l' c' =>
      lexRaw_skip_layout (Layout.comment ht) r hc m l c l' c')

/-- … and so the parser sees the same tokens, up to positions -/
theorem layout_invariance_at_boundary_lexAll {pre p r : List Char} {ts : List Token}
    (h : LexTo (pre ++ r) ts r) (hp : Layout p) (hc : CommentClosed p r)
    (hstr : r = [] → ∀ t, ts.getLast? = some t → isStrTok t = false) :
    SameTokens (pre ++ (p ++ r)) (pre ++ r) :=
  (layout_invariance_at_boundary h hp hc hstr).sameTokens

-- hypotheses satisfiable: the boundary `x=` | `1`; and `x=` | `\n1`, where a comment may be inserted
-- (before `1` it could not: the comment would not be closed and would swallow the `1`)
example : LexTo (c!"x=" ++ c!"1") [.Ident c!"x", .Equals] c!"1" :=
  .cons 1 1 (mid := c!"=1") (by decide) (.cons 1 2 (mid := c!"1") (by decide) (.nil _))
example : LexTo (c!"x=" ++ c!"\n1") [.Ident c!"x", .Equals] c!"\n1" ∧ Layout c!" # c" ∧
    CommentClosed c!" # c" c!"\n1" :=
  ⟨.cons 1 1 (mid := c!"=\n1") (by decide) (.cons 1 2 (mid := c!"\n1") (by decide) (.nil _)),
   .blank (by decide) (.comment (by decide)), fun _ => Or.inr rfl⟩

-- the theorem applied, and the same fact checked by evaluation
example : SameTokens (c!"x=" ++ (c!" # c" ++ c!"\n1")) (c!"x=" ++ c!"\n1") :=
  layout_invariance_at_boundary_lexAll (ts := [.Ident c!"x", .Equals])
    (.cons 1 1 (mid := c!"=\n1") (by decide) (.cons 1 2 (mid := c!"\n1") (by decide) (.nil _)))
    (.blank (by decide) (.comment (by decide))) (fun _ => Or.inr rfl) (fun h => by cases h)
example : (lexAll c!"x= # c\n1").1.map Span.tok = [.Ident c!"x", .Equals, .IntLiteral 1] ∧
    (lexAll c!"x=\n1").1.map Span.tok = [.Ident c!"x", .Equals, .IntLiteral 1] := by decide

/-! ### L4: newline is `;` -/

/-- **L4** a newline and a `;` are the same token `StmtEnd`, leaving the same text -/
theorem newline_is_semicolon (r : List Char) (l c l' c' : Nat) :
    ∃ sp t sp' t', nextToken ⟨'\n' :: r, l, c⟩ = .tok sp t ∧ nextToken ⟨';' :: r, l', c'⟩ = .tok sp' t' ∧
      sp.tok = Token.StmtEnd ∧ sp'.tok = Token.StmtEnd ∧ t.rest = r ∧ t'.rest = r := by
  obtain ⟨sp, t, h1, h2, h3⟩ := kind_tok_iff.mp (nextToken_stmtEnd '\n' (Or.inl rfl) r l c)
  obtain ⟨sp', t', h1', h2', h3'⟩ := kind_tok_iff.mp (nextToken_stmtEnd ';' (Or.inr rfl) r l' c')
  exact ⟨sp, t, sp', t', h1, h1', h2, h2', h3, h3'⟩

theorem newline_is_semicolon_raw (r : List Char) : RawEq ('\n' :: r) (';' :: r) :=
  RawEq.of_kind (fun l c l' c' => by
    rw [nextToken_stmtEnd '\n' (Or.inl rfl), nextToken_stmtEnd ';' (Or.inr rfl)])

/-- **L4**, lifted: replacing a `;` at a token boundary (so: not inside a string literal) by a newline
    changes neither the raw token stream nor the kind of error -/
theorem newline_is_semicolon_at_boundary {pre r : List Char} {ts : List Token}
    (h : LexTo (pre ++ ';' :: r) ts (';' :: r)) : RawEq (pre ++ '\n' :: r) (pre ++ ';' :: r) := by
  have h2 : LexTo (pre ++ '\n' :: r) ts ('\n' :: r) :=
    h.replace_rest pre rfl _ (Or.inr ⟨'\n', r, rfl, Or.inr (Or.inr (Or.inl rfl))⟩)
      (fun hr => by cases hr)
  exact RawEq.of_lexTo h2 h (newline_is_semicolon_raw r)

/-- … and the other way round -/
theorem semicolon_is_newline_at_boundary {pre r : List Char} {ts : List Token}
    (h : LexTo (pre ++ '\n' :: r) ts ('\n' :: r)) : RawEq (pre ++ ';' :: r) (pre ++ '\n' :: r) := by
  have h2 : LexTo (pre ++ ';' :: r) ts (';' :: r) :=
    h.replace_rest pre rfl _ (Or.inr ⟨';', r, rfl, Or.inr (Or.inr (Or.inr rfl))⟩)
      (fun hr => by cases hr)
  exact RawEq.of_lexTo h2 h (newline_is_semicolon_raw r).symm

theorem newline_is_semicolon_lexAll {pre r : List Char} {ts : List Token}
    (h : LexTo (pre ++ ';' :: r) ts (';' :: r)) : SameTokens (pre ++ '\n' :: r) (pre ++ ';' :: r) :=
  (newline_is_semicolon_at_boundary h).sameTokens

example : LexTo (c!"a" ++ ';' :: c!"b") [.Ident c!"a"] (';' :: c!"b") :=
  .cons 1 1 (mid := c!";b") (by decide) (.nil _)

/-! ### L5: `_` digit separators -/

/-- **L5** a digit string `ds` and the same digits with `_` inserted anywhere after the first digit
    (`ds'`), followed by a character that is neither a digit nor `_` (or by the end of input), give the
    same `IntLiteral` token — or both overflow `i64` -/
theorem int_separators (ds ds' x : List Char) (hne : ds ≠ [])
    (hdig : ∀ ch ∈ ds, isAsciiDigit ch = true)
    (hfil : ds'.filter (fun ch => ch ≠ '_') = ds) (hhead : ds'.head? = ds.head?)
    (hall : ∀ ch ∈ ds', isAsciiDigit ch = true ∨ ch = '_')
    (hx : ∀ e, x.head? = some e → isIntChar e = false) (l c l' c' : Nat) :
    (decimalValue ds ≤ i64Max →
      kind (nextToken ⟨ds' ++ x, l, c⟩) = .tok (.IntLiteral (Int.ofNat (decimalValue ds))) x ∧
      kind (nextToken ⟨ds ++ x, l', c'⟩) = .tok (.IntLiteral (Int.ofNat (decimalValue ds))) x) ∧
    (¬ decimalValue ds ≤ i64Max →
      kind (nextToken ⟨ds' ++ x, l, c⟩) = .err (.IntOverflow (0, 0) ds') ∧
      kind (nextToken ⟨ds ++ x, l', c'⟩) = .err (.IntOverflow (0, 0) ds)) := by
  cases ds with
  | nil => exact absurd rfl hne
  | cons d ds0 =>
    cases ds' with
    | nil => simp at hhead
    | cons d' ds0' =>
      simp only [List.head?_cons, Option.some.injEq] at hhead
      subst hhead
      have hd : isAsciiDigit d' = true := hdig d' (List.mem_cons_self ..)
      have hall1 : ∀ ch ∈ d' :: ds0, isIntChar ch = true :=
        fun ch hc => isIntChar_of_digit (hdig ch hc)
      have hall2 : ∀ ch ∈ d' :: ds0', isIntChar ch = true := by
        intro ch hc
        rcases hall ch hc with h | h
        · exact isIntChar_of_digit h
        · subst h; rfl
      have e1 := nextToken_int d' ds0' x l c hd hall2 hx
      have e2 := nextToken_int d' ds0 x l' c' hd hall1 hx
      rw [hfil] at e1
      rw [filter_digits hdig] at e2
      constructor
      · intro hle
        rw [e1, e2]
        simp only [hle, if_true, and_self]
      · intro hle
        rw [e1, e2]
        simp only [hle, if_false, and_self]

/-- **L5**, lifted: the raw token streams coincide -/
theorem int_separators_raw (ds ds' x : List Char) (hne : ds ≠ [])
    (hdig : ∀ ch ∈ ds, isAsciiDigit ch = true)
    (hfil : ds'.filter (fun ch => ch ≠ '_') = ds) (hhead : ds'.head? = ds.head?)
    (hall : ∀ ch ∈ ds', isAsciiDigit ch = true ∨ ch = '_')
    (hx : ∀ e, x.head? = some e → isIntChar e = false) (hle : decimalValue ds ≤ i64Max) :
    RawEq (ds' ++ x) (ds ++ x) :=
  RawEq.of_tok (t := .IntLiteral (Int.ofNat (decimalValue ds))) (ra := x) (rb := x)
    (fun l c => ((int_separators ds ds' x hne hdig hfil hhead hall hx l c 0 0).1 hle).1)
    (fun l c => ((int_separators ds ds' x hne hdig hfil hhead hall hx 0 0 l c).1 hle).2)
    (RawEq.refl x)

/-- **L5** anywhere in a program: the digit string starts at a token boundary -/
theorem int_separators_at_boundary {pre : List Char} {ts : List Token} (ds ds' x : List Char)
    (hne : ds ≠ []) (hdig : ∀ ch ∈ ds, isAsciiDigit ch = true)
    (hfil : ds'.filter (fun ch => ch ≠ '_') = ds) (hhead : ds'.head? = ds.head?)
    (hall : ∀ ch ∈ ds', isAsciiDigit ch = true ∨ ch = '_')
    (hx : ∀ e, x.head? = some e → isIntChar e = false) (hle : decimalValue ds ≤ i64Max)
    (h : LexTo (pre ++ (ds ++ x)) ts (ds ++ x)) :
    RawEq (pre ++ (ds' ++ x)) (pre ++ (ds ++ x)) ∧ SameTokens (pre ++ (ds' ++ x)) (pre ++ (ds ++ x)) := by
  have hh : (ds ++ x).head? = (ds' ++ x).head? := by
    cases ds with
    | nil => exact absurd rfl hne
    | cons d ds0 =>
      cases ds' with
      | nil => simp at hhead
      | cons d' ds0' => simpa using hhead.symm
  have hnil : ds ++ x = [] → False := by
    intro h0; exact hne (List.append_eq_nil_iff.mp h0).1
  have h2 : LexTo (pre ++ (ds' ++ x)) ts (ds' ++ x) :=
    h.replace_rest pre rfl _ (Or.inl hh) (fun hr => (hnil hr).elim)
  have := RawEq.of_lexTo h2 h (int_separators_raw ds ds' x hne hdig hfil hhead hall hx hle)
  exact ⟨this, this.sameTokens⟩

-- hypotheses satisfiable: `1_000_` and `1000` before `)`
example :
    let ds := c!"1000"; let ds' := c!"1_000_"; let x := c!")"
    ds ≠ [] ∧ (∀ ch ∈ ds, isAsciiDigit ch = true) ∧ ds'.filter (fun ch => ch ≠ '_') = ds ∧
    ds'.head? = ds.head? ∧ (∀ ch ∈ ds', isAsciiDigit ch = true ∨ ch = '_') ∧
    (∀ e, x.head? = some e → isIntChar e = false) ∧ decimalValue ds ≤ i64Max := by
  refine ⟨by decide, by decide, by decide, by decide, by decide, ?_, by decide⟩
  intro e he; injection he with he; subst he; decide

end Seed.C09

/-! ## The lexer round trip (`lex_render`)

  Helper definitions (Lemmas/LexRTDefs.lean): `renderTok t` is the canonical spelling of the token `t` —
  symbols and keywords by inverse lookup in `Gen.tripleSym` / `Gen.doubleSym` / `Gen.singleSym` / `Gen.keywords`,
  an identifier as its text, an integer literal in decimal, a string literal `"…"` escaped as in C15
  (`escapeChars`), an interpolated literal `$"…"` with escaped pieces and raw `${…}` slots (C15 `render`),
  `StmtEnd` as `;`.  `renderToks ts` is the spellings separated by exactly one blank.  `TokWF t` (decidable):
  every symbol, keyword and `StmtEnd`; `Ident w` with `w` a non-empty identifier text that is not a keyword;
  `IntLiteral n` with `0 ≤ n ≤ i64::MAX` (the lexer never produces a negative literal: `-5` is `Sub`,
  `IntLiteral 5`); every `StrLiteral s`; `InterpStrLiteral s slots` whose slots cut `s` into pieces and
  brace-balanced `${…}` texts from which `s` and `slots` are rebuilt exactly. -/

namespace Seed.C09
open Seed Seed.LexRT

-- audit: Seed.LexRT.nextToken_render Seed.LexRT.nextToken_render_int Seed.LexRT.nextToken_render_ident Seed.LexRT.nextToken_render_str Seed.LexRT.nextToken_render_interp Seed.LexRT.nextToken_render_closed Seed.LexRT.natToChars_spec Seed.LexRT.tokWF_interp_of_pieces Seed.LexRT.splitSlots_decoded
-- audit: Seed.LexRT.lexTo_render Seed.LexRT.lexRaw_render Seed.LexRT.lexAll_render Seed.LexRT.lexAll_render_keepAll Seed.LexRT.suppress_map_tok Seed.LexRT.suppressT_spec Seed.LexRT.suppressT_of_keepAll Seed.LexRT.suppress_of_keepAll Seed.LexRT.keepAll_append

/-- **one token**: the spelling of a well-formed token, followed by the end of input or by a separator
    character (blank, `#`, newline, `;`), is lexed — from any position — as exactly that token, and the
    scanner stops right behind the spelling -/
theorem lex_render_token (t : Token) (h : TokWF t) (rest : List Char)
    (hr : rest = [] ∨ ∃ e r, rest = e :: r ∧ isSep e) (l c : Nat) :
    ∃ sp s', nextToken ⟨renderTok t ++ rest, l, c⟩ = .tok sp s' ∧ sp.tok = t ∧ s'.rest = rest :=
  kind_tok_iff.mp (nextToken_render t h rest hr l c)

example : TokWF (.InterpStrLiteral c!"a${x}$" [(1, 5)]) ∧
    ((c!" +" : List Char) = [] ∨ ∃ e r, (c!" +" : List Char) = e :: r ∧ isSep e) :=
  ⟨by decide, Or.inr ⟨' ', c!"+", rfl, by decide⟩⟩
example : kind (nextToken ⟨renderTok (.InterpStrLiteral c!"a${x}$" [(1, 5)]) ++ c!" +", 3, 7⟩) =
    .tok (.InterpStrLiteral c!"a${x}$" [(1, 5)]) c!" +" := by decide

/-- **`lex_render`**: for every list `ts` of well-formed tokens, lexing its spelling `renderToks ts` — from any
    position, with any fuel exceeding the number of tokens — yields raw tokens whose `.tok` projection is
    exactly `ts` (terminators included: this is the stream *before* suppression) and no lexical error.  No
    adjacency side condition: consecutive spellings are separated by a blank. -/
theorem lex_render (ts : List Token) (h : ∀ t ∈ ts, TokWF t) (n l c : Nat) (hn : ts.length < n) :
    (lexRaw n ⟨renderToks ts, l, c⟩).1.map Span.tok = ts ∧ (lexRaw n ⟨renderToks ts, l, c⟩).2 = none :=
  lexRaw_render ts h n l c hn

/-- the same, position- and fuel-free: the spelling is cut at token boundaries into exactly `ts`, and nothing
    is left (so the boundary theorems above — layout, newline for `;`, `_` in numbers — apply to it) -/
theorem lex_render_boundaries (ts : List Token) (h : ∀ t ∈ ts, TokWF t) : LexTo (renderToks ts) ts [] :=
  lexTo_render ts h

theorem dropsNow_eq_dropsAfter (o : Option Token) : dropsNow o = dropsAfter o := by
  cases o <;> rfl

/-- **`lex_render`, what the parser sees**: `lexAll (renderToks ts)` reports no error, and its tokens are `ts`
    without exactly those `StmtEnd`s that are first or directly follow (in `ts`) a `StmtEnd` or a continuation
    token — the rule of `suppress_spec`, on bare tokens -/
theorem lex_render_lexAll (ts : List Token) (h : ∀ t ∈ ts, TokWF t) :
    (lexAll (renderToks ts)).2 = none ∧
    (lexAll (renderToks ts)).1.map Span.tok =
      ((ts.zip (none :: ts.map some)).filter (fun p => p.1 != Token.StmtEnd || !dropsAfter p.2)).map Prod.fst := by
  obtain ⟨h1, h2⟩ := lexAll_render ts h
  refine ⟨h1, ?_⟩
  rw [h2, suppressT_spec]
  simp only [keptT, dropsNow_eq_dropsAfter]

/-- … in particular nothing is removed when no terminator of `ts` is first or follows a terminator or a
    continuation token (`keepAll true ts`); the printer of C08 only produces such lists -/
theorem lex_render_exact (ts : List Token) (h : ∀ t ∈ ts, TokWF t) (hk : keepAll true ts = true) :
    (lexAll (renderToks ts)).2 = none ∧ (lexAll (renderToks ts)).1.map Span.tok = ts :=
  lexAll_render_keepAll ts h hk

/-- every interpolated literal of C15's `slots_exact` (any pieces, brace-balanced slot texts) is well-formed,
    so the round trip covers every literal that theorem describes -/
theorem interp_literals_wf (p0 : List Char) (segs : List (List Char × List Char))
    (hb : ∀ x ∈ segs, C15.Balanced x.1) :
    TokWF (.InterpStrLiteral (C15.decoded p0 segs) (C15.slotsOf 0 p0 segs)) :=
  tokWF_interp_of_pieces p0 segs hb

example : ∀ x ∈ [(c!"f({})", c!"$")], C15.Balanced x.1 := by decide

/-- a token list with every token class: all 33 symbols, all 12 keywords, `;`, identifiers, integer literals
    (0 and `i64::MAX`), string literals (escapes, non-ASCII, braces), interpolated literals (no slot, two slots) -/
def sampleTokens : List Token := [
  .BraceClose, .BraceOpen, .BracketClose, .BracketOpen, .Colon, .Comma, .Div, .Dot, .Equals, .GreaterThan,
  .LessThan, .Mod, .Mul, .ParenClose, .ParenOpen, .Sub, .Sum, .AmpAmp, .BangEquals, .ColonEquals,
  .DashGreaterThan, .DivEquals, .DotDot, .EqualsEquals, .GreaterThanEquals, .LessThanEquals, .ModEquals,
  .MulEquals, .PipePipe, .SubEquals, .SumEquals, .EqualsEqualsEquals, .BangEqualsEquals,
  .Break, .Continue, .Else, .False, .Fn, .For, .If, .In, .Null, .Return, .True, .While,
  .StmtEnd, .StmtEnd, .Ident c!"x", .Ident c!"_whileX9", .IntLiteral 0, .IntLiteral 9223372036854775807,
  .StrLiteral [], .StrLiteral c!"aé\\\"$\n\r€{}😀 # ;", .InterpStrLiteral c!"$" [],
  .InterpStrLiteral c!"é${x}}{${f({\"k\": 1})}$" [(1, 5), (7, 21)], .StmtEnd]

example : ∀ t ∈ sampleTokens, TokWF t := by decide
example : sampleTokens.length < 100 := by decide
example : renderToks (sampleTokens.drop 45) =
    c!"; ; x _whileX9 0 9223372036854775807 \"\" \"aé\\\\\\\"\\$\\n\\r€{}😀 # ;\" $\"\\$\" $\"é${x}}{${f({\"k\": 1})}\\$\" ;" := by
  decide
-- the theorem applied, and the same fact by evaluation of the lexer model
example : (lexRaw 100 ⟨renderToks sampleTokens, 1, 1⟩).1.map Span.tok = sampleTokens :=
  (lex_render sampleTokens (by decide) 100 1 1 (by decide)).1
example : (lexRaw 100 ⟨renderToks sampleTokens, 1, 1⟩).1.map Span.tok = sampleTokens ∧
    (lexRaw 100 ⟨renderToks sampleTokens, 1, 1⟩).2 = none := by decide +kernel
-- what the parser sees: the terminators after `while`'s successor `;` … — the second of `; ;` is dropped, the
-- first (after the keyword `while`) and the last (after a literal) are kept
example : (lexAll (renderToks sampleTokens)).1.map Span.tok = sampleTokens.take 46 ++ sampleTokens.drop 47 := by
  decide +kernel
example : keepAll true [.Ident c!"x", .Equals, .Sub, .IntLiteral 5, .StmtEnd] = true ∧
    keepAll true [.Ident c!"x", .Equals, .StmtEnd, .IntLiteral 5] = false ∧
    keepAll true [.StmtEnd] = false := by decide
-- outside `TokWF` the spelling is lexed as something else, or not at all
example : (lexAll (renderTok (.Ident c!"while"))).1.map Span.tok = [.While] ∧
    (lexAll (renderTok (.Ident c!"a b"))).1.map Span.tok = [.Ident c!"a", .Ident c!"b"] ∧
    (lexAll (renderTok (.IntLiteral (-5)))).1.map Span.tok = [.IntLiteral 0] ∧
    (lexAll (renderTok (.IntLiteral 9223372036854775808))).2 =
      some (.IntOverflow (1, 1) c!"9223372036854775808") := by decide +kernel
-- a negative number is two tokens
example : (lexAll c!"-5").1.map Span.tok = [.Sub, .IntLiteral 5] := by decide

end Seed.C09

/-! ### the end of a text whose last token is a string literal (third session; `Lemmas/C09StrBoundary.lean`)

The boundary theorems above exclude, at the END of the text, a last token that is a string literal.  The exact condition is
`¬ Unterminated pre` (the text does not end inside a literal that is still open — the lexer, like `next_str_literal`, returns
such a literal as a token): `layout_invariance_at_boundary_term`, `newline_is_semicolon_at_end` hold under it,
`not_unterminated_of_last_not_str` shows the old hypothesis implies it, `boundary_not_unterminated` that it always holds
when something follows the boundary, and `layout_at_end_iff` / `unterminated_layout_matters` that it cannot be weakened
(appended layout is invisible at the end of `pre` if and only if `pre` is not unterminated).  Inside an open literal appended
text is literal text: `open_literal_swallows`, with the outcome per state of the string machine; a literal that was rejected
stays rejected with the same error whatever is appended (`str_error_stable`). -/
-- audit: Seed.C09.layout_invariance_at_boundary_term Seed.C09.layout_invariance_at_boundary_term_lexAll Seed.C09.newline_is_semicolon_at_end Seed.C09.boundary_not_unterminated Seed.C09.not_unterminated_of_last_not_str Seed.C09.unterminated_iff Seed.C09.unterminated_layout_matters Seed.C09.layout_at_end_iff
-- audit: Seed.C09.nextToken_closed_local Seed.C09.open_literal_is_a_token Seed.C09.open_literal_swallows Seed.C09.open_none_plain Seed.C09.open_escape_fails Seed.C09.open_hex_fails Seed.C09.open_interp_start_fails Seed.C09.str_error_stable
