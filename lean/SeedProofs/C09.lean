/-
  C09.lean — table facts and terminator-suppression lemmas for "newline equals `;`; layout never
  changes meaning".

  * `continuation_as_documented`: the extracted list of tokens after which a terminator is dropped is
    the documented one: `+ - * / % == != < <= > >= && || = := += -= *= /= %= , . ( [ {` and `StmtEnd`.
  * `suppress_*`: the model of `Iterator::next for Lexer` (`Seed.suppress`, SeedModel/Lex.lean) keeps every
    token that is not a terminator and drops a terminator exactly when it is first or follows a
    terminator or a continuation token; consequently extra terminators at those places, and the choice
    between `;` and newline (both are the token `StmtEnd`), do not change the stream the parser sees.

  Not in this file (DESIGN.md §6 C09): `skipWs_spec`, `int_separators`, `hex_escape_ascii`, `lex_render`.
-/
import SeedModel.Lex
namespace Seed.C09
open Seed

/-- the 25 documented continuation tokens -/
def documentedContinuation : List Token := [
  .Sum, .Sub, .Mul, .Div, .Mod,                                         -- + - * / %
  .EqualsEquals, .BangEquals, .LessThan, .LessThanEquals, .GreaterThan, .GreaterThanEquals,  -- == != < <= > >=
  .AmpAmp, .PipePipe,                                                   -- && ||
  .Equals, .ColonEquals, .SumEquals, .SubEquals, .MulEquals, .DivEquals, .ModEquals,         -- = := += -= *= /= %=
  .Comma, .Dot, .ParenOpen, .BracketOpen, .BraceOpen]                   -- , . ( [ {

/-- the same, as a predicate on all tokens (identifiers and literals included) -/
def isDocumentedContinuation : Token → Bool
  | .Sum | .Sub | .Mul | .Div | .Mod => true
  | .EqualsEquals | .BangEquals | .LessThan | .LessThanEquals | .GreaterThan | .GreaterThanEquals => true
  | .AmpAmp | .PipePipe => true
  | .Equals | .ColonEquals | .SumEquals | .SubEquals | .MulEquals | .DivEquals | .ModEquals => true
  | .Comma | .Dot | .ParenOpen | .BracketOpen | .BraceOpen => true
  | .StmtEnd => true
  | _ => false

/-- the extracted continuation list, as a set, is the 25 documented tokens plus `StmtEnd` -/
theorem continuation_as_documented :
    documentedContinuation.length = 25 ∧ documentedContinuation.Nodup ∧
    Gen.continuation.all ((Token.StmtEnd :: documentedContinuation).contains ·) = true ∧
    (Token.StmtEnd :: documentedContinuation).all (Gen.continuation.contains ·) = true := by
  refine ⟨rfl, by decide, by decide, by decide⟩

/-- … and as a predicate over *every* token: in particular `.. -> : === !== ) ] }`, identifiers,
    literals and keywords are not continuation tokens -/
theorem isContinuation_as_documented (t : Token) : isContinuation t = isDocumentedContinuation t := by
  cases t <;> rfl

theorem ineligible_not_continuation :
    isContinuation .DotDot = false ∧ isContinuation .DashGreaterThan = false ∧
    isContinuation .Colon = false ∧ isContinuation .EqualsEqualsEquals = false ∧
    isContinuation .BangEqualsEquals = false ∧ isContinuation .ParenClose = false ∧
    isContinuation .BracketClose = false ∧ isContinuation .BraceClose = false ∧
    (∀ s, isContinuation (.Ident s) = false) ∧ (∀ n, isContinuation (.IntLiteral n) = false) ∧
    (∀ s, isContinuation (.StrLiteral s) = false) ∧ (∀ s sl, isContinuation (.InterpStrLiteral s sl) = false) := by
  refine ⟨rfl, rfl, rfl, rfl, rfl, rfl, rfl, rfl, fun _ => rfl, fun _ => rfl, fun _ => rfl, fun _ _ => rfl⟩

/-! ### `suppress` -/

/-- "a terminator arriving now would be dropped": nothing has been emitted yet, or the last raw token
    was a continuation token (a terminator is one) -/
def dropsAfter : Option Token → Bool
  | none => true
  | some t => isContinuation t

/-- a token that is not a terminator is always kept -/
theorem suppress_keeps (last : Option Token) (sp : Span) (r : List Span) (h : sp.tok ≠ Token.StmtEnd) :
    suppress last (sp :: r) = sp :: suppress (some sp.tok) r := by
  rw [suppress.eq_def]; simp [h]

example : (⟨(1, 1), Token.Sum, (1, 1)⟩ : Span).tok ≠ Token.StmtEnd := by decide

/-- a terminator is dropped iff it is first or follows a terminator or a continuation token -/
theorem suppress_stmtEnd (last : Option Token) (sp : Span) (r : List Span) (h : sp.tok = Token.StmtEnd) :
    suppress last (sp :: r) =
      if dropsAfter last then suppress (some Token.StmtEnd) r else sp :: suppress (some Token.StmtEnd) r := by
  rw [suppress.eq_def]
  cases last with
  | none => simp [h, dropsAfter]
  | some t => cases hc : isContinuation t <;> simp [h, dropsAfter, hc]

example : (⟨(1, 2), Token.StmtEnd, (1, 2)⟩ : Span).tok = Token.StmtEnd := rfl

theorem dropsAfter_stmtEnd : dropsAfter (some Token.StmtEnd) = true := rfl

/-- whether `sp`, arriving after `prev`, survives suppression -/
def kept (prev : Option Token) (sp : Span) : Bool :=
  sp.tok ≠ Token.StmtEnd || !dropsAfter prev

/-- the token that precedes each element of `ts` in the raw stream -/
def prevs (last : Option Token) (ts : List Span) : List (Option Token) :=
  last :: ts.map (fun sp => some sp.tok)

/-- specification of `suppress`: it is the raw stream with exactly those terminators removed that are
    first or follow a terminator or a continuation token (looking at the *raw* predecessor, dropped
    terminators included); all other tokens are kept, in order -/
theorem suppress_spec (last : Option Token) (ts : List Span) :
    suppress last ts = ((ts.zip (prevs last ts)).filter (fun p => kept p.2 p.1)).map Prod.fst := by
  induction ts generalizing last with
  | nil => simp [suppress]
  | cons sp r ih =>
    by_cases h : sp.tok = Token.StmtEnd
    · rw [suppress_stmtEnd last sp r h, ← h, ih]
      cases hd : dropsAfter last <;> simp [prevs, kept, h, hd]
    · rw [suppress_keeps last sp r h, ih]
      simp [prevs, kept, h]

/-- `suppress` looks at the previous token only through `dropsAfter` -/
theorem suppress_congr_last (l1 l2 : Option Token) (ts : List Span) (h : dropsAfter l1 = dropsAfter l2) :
    suppress l1 ts = suppress l2 ts := by
  cases ts with
  | nil => simp [suppress]
  | cons sp r =>
    by_cases hs : sp.tok = Token.StmtEnd
    · rw [suppress_stmtEnd l1 sp r hs, suppress_stmtEnd l2 sp r hs, h]
    · rw [suppress_keeps l1 sp r hs, suppress_keeps l2 sp r hs]

example : dropsAfter none = dropsAfter (some Token.Comma) := rfl

/-- an extra terminator at the very start changes nothing -/
theorem suppress_insert_start (se : Span) (ts : List Span) (h : se.tok = Token.StmtEnd) :
    suppress none (se :: ts) = suppress none ts := by
  rw [suppress_stmtEnd none se ts h]
  simp only [dropsAfter, if_true]
  exact suppress_congr_last _ _ ts rfl

/-- an extra terminator where a terminator would be dropped anyway changes nothing to what follows -/
theorem suppress_insert_here (last : Option Token) (se : Span) (post : List Span)
    (h : se.tok = Token.StmtEnd) (hd : dropsAfter last = true) :
    suppress last (se :: post) = suppress last post := by
  rw [suppress_stmtEnd last se post h, hd]
  simp only [if_true]
  exact suppress_congr_last _ _ post (by rw [hd]; rfl)

/-- the last raw token after `pre`, starting from `last` -/
def lastTok : Option Token → List Span → Option Token
  | last, [] => last
  | _, sp :: r => lastTok (some sp.tok) r

theorem lastTok_cons (last : Option Token) (sp : Span) (pre : List Span) :
    lastTok last (sp :: pre) = lastTok (some sp.tok) pre := rfl

theorem lastTok_eq_getLast (last : Option Token) (pre : List Span) :
    lastTok last pre = match pre.getLast? with
      | none => last
      | some sp => some sp.tok := by
  induction pre generalizing last with
  | nil => rfl
  | cons a r ih =>
    rw [lastTok_cons, ih]
    cases r with
    | nil => rfl
    | cons b r' =>
      rw [List.getLast?_cons_cons]
      cases h : (b :: r').getLast? with
      | none => simp at h
      | some x => rfl

/-- inserting an extra terminator right after a terminator or a continuation token (or at the start),
    anywhere in the stream, does not change what the parser sees -/
theorem suppress_layout_invariant (last : Option Token) (pre post : List Span) (se : Span)
    (h : se.tok = Token.StmtEnd) (hd : dropsAfter (lastTok last pre) = true) :
    suppress last (pre ++ se :: post) = suppress last (pre ++ post) := by
  induction pre generalizing last with
  | nil => exact suppress_insert_here last se post h (by simpa [lastTok] using hd)
  | cons sp r ih =>
    rw [lastTok_cons] at hd
    simp only [List.cons_append]
    by_cases hs : sp.tok = Token.StmtEnd
    · have ih' := ih _ hd
      rw [hs] at ih'
      rw [suppress_stmtEnd last sp _ hs, suppress_stmtEnd last sp _ hs, ih']
    · rw [suppress_keeps last sp _ hs, suppress_keeps last sp _ hs, ih _ hd]

-- the hypotheses are satisfiable: `x = ⏎ 1` — a terminator after `=` is dropped
example :
    let x : Span := ⟨(1, 1), .Ident c!"x", (1, 1)⟩
    let eq : Span := ⟨(1, 3), .Equals, (1, 3)⟩
    let nl : Span := ⟨(2, 0), .StmtEnd, (2, 0)⟩
    let one : Span := ⟨(2, 1), .IntLiteral 1, (2, 1)⟩
    dropsAfter (lastTok none [x, eq]) = true ∧
    suppress none ([x, eq] ++ nl :: [one]) = suppress none ([x, eq] ++ [one]) := by
  decide

/-- conversely, a terminator after a token that is not a continuation token is kept: a line break
    there does split the statement -/
theorem suppress_break_splits (last : Option Token) (pre post : List Span) (se : Span)
    (h : se.tok = Token.StmtEnd) (hd : dropsAfter (lastTok last pre) = false) :
    suppress last (pre ++ se :: post) = suppress last pre ++ se :: suppress (some Token.StmtEnd) post := by
  induction pre generalizing last with
  | nil =>
    have : dropsAfter last = false := by simpa [lastTok] using hd
    rw [List.nil_append, suppress_stmtEnd last se post h, this]
    simp [suppress]
  | cons sp r ih =>
    rw [lastTok_cons] at hd
    simp only [List.cons_append]
    by_cases hs : sp.tok = Token.StmtEnd
    · have ih' := ih _ hd
      rw [hs] at ih'
      rw [suppress_stmtEnd last sp _ hs, suppress_stmtEnd last sp _ hs, ih']
      cases dropsAfter last <;> simp
    · rw [suppress_keeps last sp _ hs, suppress_keeps last sp _ hs, ih _ hd]
      simp

example : dropsAfter (lastTok none [(⟨(1, 1), .DotDot, (1, 2)⟩ : Span)]) = false := by decide

/-- `;` and newline are the same token: the suppressed stream, positions erased, depends only on the
    raw stream with positions erased -/
theorem suppress_tok_only (last : Option Token) (ts ts' : List Span)
    (h : ts.map (·.tok) = ts'.map (·.tok)) :
    (suppress last ts).map (·.tok) = (suppress last ts').map (·.tok) := by
  induction ts generalizing last ts' with
  | nil =>
    cases ts' with
    | nil => rfl
    | cons _ _ => simp at h
  | cons sp r ih =>
    cases ts' with
    | nil => simp at h
    | cons sp' r' =>
      simp only [List.map_cons, List.cons.injEq] at h
      obtain ⟨h1, h2⟩ := h
      by_cases hs : sp.tok = Token.StmtEnd
      · have hs' : sp'.tok = Token.StmtEnd := h1 ▸ hs
        rw [suppress_stmtEnd last sp r hs, suppress_stmtEnd last sp' r' hs']
        cases dropsAfter last
        · simp only [Bool.false_eq_true, if_false, List.map_cons, h1, ih _ _ h2]
        · simp only [if_true, ih _ _ h2]
      · have hs' : sp'.tok ≠ Token.StmtEnd := h1 ▸ hs
        rw [suppress_keeps last sp r hs, suppress_keeps last sp' r' hs']
        simp only [List.map_cons, h1, ih _ _ h2]

-- `a ; b` and `a ⏎ b`: same tokens, different positions
example :
    ([⟨(1, 1), .Ident c!"a", (1, 1)⟩, ⟨(1, 2), .StmtEnd, (1, 2)⟩, ⟨(1, 3), .Ident c!"b", (1, 3)⟩] : List Span).map (·.tok)
      = ([⟨(1, 1), .Ident c!"a", (2, 0)⟩, ⟨(2, 0), .StmtEnd, (2, 0)⟩, ⟨(2, 1), .Ident c!"b", (2, 1)⟩] : List Span).map (·.tok) := by
  decide

end Seed.C09
