/-
  C08.lean — table facts for "expressions group by fixed operator tiers".

  The parser model (`SeedModel/Parse.lean`) climbs the *extracted* table `Gen.binOps`
  (`opAt k t`), starts at `Gen.firstTier`, switches to the postfix productions at
  `Gen.postfixTier` and handles `..` in `rangeLoop`, outside (looser than) every tier.
  The theorems here say that the extracted tables are the documented ones:

      postfix {call, index, range-index, .name, ->name}           tier 5 (tightest)
      * / % == != < <= > >= === !==                               tier 4
      + -                                                         tier 3
      && ||                                                       tier 2
      ..                                                          no tier: loosest, handled after tier 2

  The print/parse round trip (`parse_print`, DESIGN.md §6 C08) is not in this file.
-/
import SeedModel.Parse
import SeedProofs.ParseProps
namespace Seed.C08

-- audit: Seed.parse_print Seed.left_assoc Seed.tighter_first_lt Seed.tighter_first_gt Seed.range_loosest_right Seed.range_loosest_left Seed.range_left_assoc Seed.neg_literal_operand Seed.neg_literal_after_operand Seed.neg_literal_after_operator Seed.no_unary_minus Seed.parens_override_left Seed.parens_override_right Seed.binOps_tiers Seed.roundtrip_rel Seed.roundtrip_parseExpr
open Seed

/-- the documented operator table: token ↦ (operator, tier) -/
def documentedOp : Token → Option (BinaryOp × Nat)
  | .Mul => some (.Mul, 4)
  | .Div => some (.Div, 4)
  | .Mod => some (.Mod, 4)
  | .EqualsEquals => some (.Eq, 4)
  | .BangEquals => some (.Ne, 4)
  | .LessThan => some (.Lt, 4)
  | .LessThanEquals => some (.Lte, 4)
  | .GreaterThan => some (.Gt, 4)
  | .GreaterThanEquals => some (.Gte, 4)
  | .EqualsEqualsEquals => some (.RefEq, 4)
  | .BangEqualsEquals => some (.RefNe, 4)
  | .Sum => some (.Sum, 3)
  | .Sub => some (.Sub, 3)
  | .AmpAmp => some (.And, 2)
  | .PipePipe => some (.Or, 2)
  | _ => none

/-- the same table as a list (any order) -/
def documentedOps : List (Token × BinaryOp × Nat) := [
  (.Mul, .Mul, 4), (.Div, .Div, 4), (.Mod, .Mod, 4),
  (.EqualsEquals, .Eq, 4), (.BangEquals, .Ne, 4),
  (.LessThan, .Lt, 4), (.LessThanEquals, .Lte, 4), (.GreaterThan, .Gt, 4), (.GreaterThanEquals, .Gte, 4),
  (.EqualsEqualsEquals, .RefEq, 4), (.BangEqualsEquals, .RefNe, 4),
  (.Sum, .Sum, 3), (.Sub, .Sub, 3),
  (.AmpAmp, .And, 2), (.PipePipe, .Or, 2)]

/-- the opening tokens of the five postfix forms: call, index, range-index, `.name`, `->name` -/
def documentedPostfix : List (Token × List Char) := [
  (.ParenOpen, c!"Call"), (.BracketOpen, c!"Index"), (.BracketOpen, c!"RangeIndex"),
  (.Dot, c!"Prop"), (.DashGreaterThan, c!"PropT")]

/-- the extracted operator table and the documented one contain the same entries (order irrelevant),
    no token is listed twice, the loosest tier is 2, the postfix tier is 5 (tighter than every
    binary operator), and the postfix forms are the five documented ones -/
theorem tiers_as_documented :
    Gen.binOps.all (documentedOps.contains ·) = true ∧
    documentedOps.all (Gen.binOps.contains ·) = true ∧
    (Gen.binOps.map (·.1)).Nodup ∧
    Gen.firstTier = 2 ∧ Gen.postfixTier = 5 ∧
    Gen.binOps.all (fun e => Gen.firstTier ≤ e.2.2 && e.2.2 < Gen.postfixTier) = true ∧
    Gen.postfixForms.all (documentedPostfix.contains ·) = true ∧
    documentedPostfix.all (Gen.postfixForms.contains ·) = true := by
  refine ⟨by decide, by decide, by decide, rfl, rfl, by decide, by decide, by decide⟩

/-- as a finite map: looking a token up in the extracted table gives the documented entry — for
    every token, including identifiers and literals (which are not operators) -/
theorem binOps_lookup_as_documented (t : Token) : lookupAssoc t Gen.binOps = documentedOp t := by
  cases t <;> rfl

/-- `..` is not in the tier table: it is parsed by `rangeLoop`, after (looser than) tier `firstTier` -/
theorem range_not_in_tiers : lookupAssoc Token.DotDot Gen.binOps = none := by
  rfl

/-- what the parser's table lookup `opAt k t` accepts at tier `k`: exactly the documented operators
    of that tier -/
theorem opAt_as_documented (k : Nat) (t : Token) (op : BinaryOp) :
    opAt k t = some op ↔ documentedOp t = some (op, k) := by
  unfold opAt
  rw [binOps_lookup_as_documented]
  cases h : documentedOp t with
  | none => simp
  | some p =>
    obtain ⟨o, k'⟩ := p
    simp only [Option.some.injEq, Prod.mk.injEq]
    constructor
    · intro h2
      split at h2
      · next hk => injection h2 with h2; exact ⟨h2, hk.symm⟩
      · cases h2
    · rintro ⟨rfl, rfl⟩
      simp

-- the hypotheses of `opAt_as_documented` are satisfiable on non-trivial values, both ways
example : opAt 4 Token.Mod = some BinaryOp.Mod := by decide
example : opAt 3 Token.Mod = none := by decide
example : documentedOp Token.LessThanEquals = some (BinaryOp.Lte, 4) := rfl

end Seed.C08
