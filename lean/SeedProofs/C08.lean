/-
  C08.lean — table facts for "expressions group by fixed operator tiers".

  The parser model (`SeedModel/Parse.lean`) climbs the *extracted* table `Gen.binOps`
  (`opAt k t`), starts at `Gen.firstTier`, switches to the postfix productions at
  `Gen.postfixTier` and handles `..` in `rangeLoop`, outside (looser than) every tier.
  The theorems here say that the extracted tables are the documented ones:

      postfix {call, index, range-index, .name, ->name}           tier 5 (tightest)
      * / % == != < <= > >= === !==                               tier 4
      + -                                                         tier 3
      && ||                                                       tier 2
      ..                                                          no tier: loosest, handled after tier 2

  The print/parse round trip (`parse_print`, DESIGN.md §6 C08) is not in this file.
-/
import SeedModel.Parse
import SeedProofs.ParseProps
import SeedProofs.Lemmas.ParseRT2Image
import SeedProofs.Lemmas.LexRTPrint
import SeedProofs.Lemmas.C08Necessary
namespace Seed.C08

/-! ### every printed parenthesis is necessary (third session; `Lemmas/C08Necessary*.lean`, whole grammar)

`parseExpr_paren_count` (one induction over the 22 parser functions): the parser never returns a tree whose printing has more
`(` than the tokens it consumed.  Hence `printed_paren_necessary` — delete ANY one pair of parentheses the printer put, at
any depth, in any construct, and no parse of what is left, at any fuel, gives the tree back (up to positions);
`printed_parens_minimal` — among all token lists that parse to a well-formed tree the printed one has the fewest `(`;
`prE_paren` / `operand_slots` — the printer parenthesises exactly a left operand of strictly lower tier, a right operand of
lower or equal tier, and `..` anywhere but at the loosest level; `ctx_paren_necessary` — the same at tree level for
one-hole contexts (operands of operators and of `..`, receivers of the five postfix forms, index expressions). -/
-- audit: Seed.C08N.parseExpr_paren_count Seed.C08N.parseStmts_paren_count Seed.C08N.parseProg_paren_count Seed.C08N.fewer_parens_never_parse Seed.C08N.fewer_parens_never_parse_prog Seed.C08N.printed_parens_minimal Seed.C08N.printed_parens_minimal_prog Seed.C08N.printed_paren_necessary Seed.C08N.printed_paren_necessary_prog Seed.C08N.printed_paren_necessary_parseProg Seed.C08N.prE_paren Seed.C08N.operand_slots Seed.C08N.ctx_paren_necessary Seed.C08N.ctx_no_paren

-- audit: Seed.parse_print Seed.left_assoc Seed.tighter_first_lt Seed.tighter_first_gt Seed.range_loosest_right Seed.range_loosest_left Seed.range_left_assoc Seed.neg_literal_operand Seed.neg_literal_after_operand Seed.neg_literal_after_operator Seed.no_unary_minus Seed.parens_override_left Seed.parens_override_right Seed.binOps_tiers Seed.roundtrip_rel Seed.roundtrip_parseExpr
open Seed

/-- the documented operator table: token ↦ (operator, tier) -/
def documentedOp : Token → Option (BinaryOp × Nat)
  | .Mul => some (.Mul, 4)
  | .Div => some (.Div, 4)
  | .Mod => some (.Mod, 4)
  | .EqualsEquals => some (.Eq, 4)
  | .BangEquals => some (.Ne, 4)
  | .LessThan => some (.Lt, 4)
  | .LessThanEquals => some (.Lte, 4)
  | .GreaterThan => some (.Gt, 4)
  | .GreaterThanEquals => some (.Gte, 4)
  | .EqualsEqualsEquals => some (.RefEq, 4)
  | .BangEqualsEquals => some (.RefNe, 4)
  | .Sum => some (.Sum, 3)
  | .Sub => some (.Sub, 3)
  | .AmpAmp => some (.And, 2)
  | .PipePipe => some (.Or, 2)
  | _ => none

/-- the same table as a list (any order) -/
def documentedOps : List (Token × BinaryOp × Nat) := [
  (.Mul, .Mul, 4), (.Div, .Div, 4), (.Mod, .Mod, 4),
  (.EqualsEquals, .Eq, 4), (.BangEquals, .Ne, 4),
  (.LessThan, .Lt, 4), (.LessThanEquals, .Lte, 4), (.GreaterThan, .Gt, 4), (.GreaterThanEquals, .Gte, 4),
  (.EqualsEqualsEquals, .RefEq, 4), (.BangEqualsEquals, .RefNe, 4),
  (.Sum, .Sum, 3), (.Sub, .Sub, 3),
  (.AmpAmp, .And, 2), (.PipePipe, .Or, 2)]

/-- the opening tokens of the five postfix forms: call, index, range-index, `.name`, `->name` -/
def documentedPostfix : List (Token × List Char) := [
  (.ParenOpen, c!"Call"), (.BracketOpen, c!"Index"), (.BracketOpen, c!"RangeIndex"),
  (.Dot, c!"Prop"), (.DashGreaterThan, c!"PropT")]

/-- the extracted operator table and the documented one contain the same entries (order irrelevant),
    no token is listed twice, the loosest tier is 2, the postfix tier is 5 (tighter than every
    binary operator), and the postfix forms are the five documented ones -/
theorem tiers_as_documented :
    Gen.binOps.all (documentedOps.contains ·) = true ∧
    documentedOps.all (Gen.binOps.contains ·) = true ∧
    (Gen.binOps.map (·.1)).Nodup ∧
    Gen.firstTier = 2 ∧ Gen.postfixTier = 5 ∧
    Gen.binOps.all (fun e => Gen.firstTier ≤ e.2.2 && e.2.2 < Gen.postfixTier) = true ∧
    Gen.postfixForms.all (documentedPostfix.contains ·) = true ∧
    documentedPostfix.all (Gen.postfixForms.contains ·) = true := by
  refine ⟨by decide, by decide, by decide, rfl, rfl, by decide, by decide, by decide⟩

/-- as a finite map: looking a token up in the extracted table gives the documented entry — for
    every token, including identifiers and literals (which are not operators) -/
theorem binOps_lookup_as_documented (t : Token) : lookupAssoc t Gen.binOps = documentedOp t := by
  cases t <;> rfl

/-- `..` is not in the tier table: it is parsed by `rangeLoop`, after (looser than) tier `firstTier` -/
theorem range_not_in_tiers : lookupAssoc Token.DotDot Gen.binOps = none := by
  rfl

/-- what the parser's table lookup `opAt k t` accepts at tier `k`: exactly the documented operators
    of that tier -/
theorem opAt_as_documented (k : Nat) (t : Token) (op : BinaryOp) :
    opAt k t = some op ↔ documentedOp t = some (op, k) := by
  unfold opAt
  rw [binOps_lookup_as_documented]
  cases h : documentedOp t with
  | none => simp
  | some p =>
    obtain ⟨o, k'⟩ := p
    simp only [Option.some.injEq, Prod.mk.injEq]
    constructor
    · intro h2
      split at h2
      · next hk => injection h2 with h2; exact ⟨h2, hk.symm⟩
      · cases h2
    · rintro ⟨rfl, rfl⟩
      simp

-- the hypotheses of `opAt_as_documented` are satisfiable on non-trivial values, both ways
example : opAt 4 Token.Mod = some BinaryOp.Mod := by decide
example : opAt 3 Token.Mod = none := by decide
example : documentedOp Token.LessThanEquals = some (BinaryOp.Lte, 4) := rfl

end Seed.C08

/-! ## The rest of the grammar: `parse (print t) = t` for every tree the parser can produce

  Lemmas/ParseRT2*.lean extend the round trip `parse_print` from the operator fragment to the whole grammar
  of SeedModel/Parse.lean, on the model's own syntax tree (SeedModel/Ast.lean):

    Defs     `prR k e` / `prE` / `prStmt` / `prStmts`   total token printers; parentheses exactly where the
                                                        level of a sub-expression is looser than its slot
             `stripR` / `stripE` / `stripStmts`         erase the stored positions
             `wfR` / `wfE` / `wfStmt` / `wfStmts`       decidable shape of the parser's image: a collecting
                                                        list / parameter list is non-empty, a block and an
                                                        `if` are non-empty, `op=` uses one of `Gen.assignOps`
    Rel, StmtRel   fuel-free relations, one constructor lemma per production of the parser
    Expr, Main     postfix forms, list / object / function literals, operators; `exprStep`, `rt_noFn`
    Brace          statements beginning with `{`: block / object-literal ambiguity (`BL`, `SE`, `pre_swap`)
    Stmt, Prog     statements; `rt_all`; `parse_print_expr`, `parse_print_prog`
    Sound          `parse_sound`: the parser only returns well-formed trees — so `parse ∘ print` is the
                   identity (up to positions) exactly on the parser's image
    Image          `image_iff`: well-formed = returned by the parser from some token list (up to positions);
                   `prStmts_injective`: different trees are never printed alike

  Levels of `prR k`: 1 = `..`, 2–4 = the tiers of `Gen.binOps`, 5 = postfix forms (`e[i]`, `e[a:b]`, `e.x`,
  `e->x`, `e(args)`) and atoms (literals, names, `[…]`, `{…}`, `fn(…){…}`, `(e)`): the operand of a postfix
  form is printed at level 5, so it is parenthesised iff it is a binary-operator or `..` expression — a
  negative literal, a list, an object or a function literal needs none.  Every other slot (index, argument,
  item, property key / value, parameter, condition, right-hand side, statement) takes level 1.
-/
namespace Seed.C08
open Seed

-- audit: Seed.parse_print_prog Seed.parse_print_prog_rel Seed.parse_print_expr Seed.parse_print_expr_rel Seed.parse_print_expr0 Seed.parse_print_expr0_rel Seed.rt_all Seed.rt_noFn Seed.exprStep Seed.stmtStep Seed.blStep Seed.SE_of_RT_BL Seed.BL_object Seed.PExpr1.pre_swap Seed.prR_starts
-- audit: Seed.image_iff Seed.image_iff_expr Seed.prStmts_injective Seed.prE_injective Seed.wfStmts_strip Seed.wfE_strip
-- audit: Seed.psoundAll Seed.parse_sound Seed.parseExpr_sound Seed.parseProg_sound Seed.parseExprTop_sound Seed.print_parse_section Seed.print_parse_section_expr
-- audit: Seed.RT_bin Seed.RT_range Seed.KeyPR_index Seed.KeyPR_rangeIndex Seed.KeyPR_prop Seed.KeyPR_call Seed.args_rt Seed.list_rt Seed.params_rt Seed.props_rt Seed.AtomicR_list Seed.AtomicR_object Seed.AtomicR_func Seed.AtomicR_paren Seed.StmtRT_block Seed.StmtRT_if Seed.StmtRT_for Seed.StmtRT_func Seed.stmts_rt_top

/-- C08, whole programs: for every well-formed program `p`, every token list spelling `prStmts p` — whatever
    positions the tokens carry — is parsed by `parseStmts` (what `parseProg` runs on the lexer's output), with
    the driver's fuel, to a program equal to `p` up to stored positions, consuming every token. -/
theorem roundtrip_program (p : List Stmt) (hwf : wfStmts true p = true) (ts : List Span)
    (hts : ts.map Span.tok = prStmts p) :
    ∃ p', parseStmts (parseFuel ts) false [] ts = .ok p' [] ∧ stripStmts p' = stripStmts p :=
  parse_print_prog p hwf ts hts

/-- the same through the front end `parseProg`: a source text whose tokens are the printed ones is parsed
    to `p` (up to positions) -/
theorem roundtrip_parseProg (p : List Stmt) (hwf : wfStmts true p = true) (src : List Char)
    (hlex : (lexAll src).2 = none) (hts : (lexAll src).1.map Span.tok = prStmts p) :
    ∃ p', parseProg src = .ok p' ∧ stripStmts p' = stripStmts p := by
  obtain ⟨p', hp, hs⟩ := parse_print_prog p hwf (lexAll src).1 hts
  refine ⟨p', ?_, hs⟩
  unfold parseProg
  generalize lexAll src = lx at hlex hp
  obtain ⟨ts, le⟩ := lx
  simp only at hlex hp
  subst hlex
  simp only [hp]

/-- C08, expressions: the same for every well-formed expression (postfix forms, literals of all kinds,
    function literals with their statements, operators), in the top-level expression slot -/
theorem roundtrip_expression (e : Expr) (hwf : wfE true e = true) (ts : List Span)
    (hts : ts.map Span.tok = prE 1 e) :
    ∃ e', parseExpr (parseFuel ts) false ts = .ok e' [] ∧ stripE e' = stripE e :=
  parse_print_expr e hwf ts hts

/-- … and inside any context: followed by a token that cannot extend an expression (a closing bracket,
    `,`, `:`, `;`, `{`, `in`, an assignment operator, or a spread marker where spreads are allowed), the
    expression parser returns the tree and stops exactly there -/
theorem roundtrip_expression_in_context (e : Expr) (hwf : wfE true e = true) (s : Bool) (ts rest : List Span)
    (hts : ts.map Span.tok = prE 1 e) (hst : stops s rest) (fuel : Nat) (hf : 10 * (ts ++ rest).length + 8 ≤ fuel) :
    ∃ e', parseExpr fuel s (ts ++ rest) = .ok e' rest ∧ stripE e' = stripE e := by
  obtain ⟨e', he', hp⟩ := parse_print_expr_rel e hwf s ts rest hts hst
  exact ⟨e', hp.at_fuel fuel hf, he'⟩

/-- the parser's image is well-formed: together with `roundtrip_program`, `parse ∘ print` is the identity
    (up to positions) exactly on what the front end can return -/
theorem image_wf {src : List Char} {p : List Stmt} (h : parseProg src = .ok p) : wfStmts true p = true :=
  parseProg_sound h

theorem print_is_section {src : List Char} {p : List Stmt} (h : parseProg src = .ok p) (ts : List Span)
    (hts : ts.map Span.tok = prStmts p) :
    ∃ p', parseStmts (parseFuel ts) false [] ts = .ok p' [] ∧ stripStmts p' = stripStmts p :=
  print_parse_section h ts hts

/-- the domain of the round trip is exactly the parser's image: `p` is well-formed iff some token list is
    parsed to `p` up to positions -/
theorem wf_iff_parsed (p : List Stmt) :
    wfStmts true p = true ↔
      ∃ ts p', parseStmts (parseFuel ts) false [] ts = .ok p' [] ∧ stripStmts p' = stripStmts p :=
  image_iff p

/-- the printed parentheses always suffice: two well-formed programs with the same printed tokens are equal
    up to positions -/
theorem print_injective (p q : List Stmt) (hp : wfStmts true p = true) (hq : wfStmts true q = true)
    (h : prStmts p = prStmts q) : stripStmts p = stripStmts q :=
  prStmts_injective p q hp hq h

/-! ### concrete instances (every hypothesis above is satisfiable; the printer's parentheses) -/

/-- the printed tokens at position zero -/
def spans0 (toks : List Token) : List Span := toks.map fun t => ⟨(0, 0), t, (0, 0)⟩

private def v (s : List Char) : Expr := .mk (.Var s) (0, 0)
private def n (k : Int) : Expr := .mk (.Int k) (0, 0)
private def bin (op : BinaryOp) (l r : Expr) : Expr := .mk (.BinaryOp op (0, 0) l r) (0, 0)
private def idx (e i : Expr) : Expr := .mk (.Index e i) (0, 0)

-- postfix binds tighter than every binary operator: `a * b[0]` needs no parentheses, `(a * b)[0]` does
example : prE 1 (bin .Mul (v c!"a") (idx (v c!"b") (n 0))) =
    [.Ident c!"a", .Mul, .Ident c!"b", .BracketOpen, .IntLiteral 0, .BracketClose] := by decide +kernel
example : prE 1 (idx (bin .Mul (v c!"a") (v c!"b")) (n 0)) =
    [.ParenOpen, .Ident c!"a", .Mul, .Ident c!"b", .ParenClose, .BracketOpen, .IntLiteral 0, .BracketClose] := by
  decide +kernel
example : wfE true (idx (bin .Mul (v c!"a") (v c!"b")) (n 0)) = true := by decide +kernel
-- and these parentheses are needed: without them the tokens are the other tree
example : parseExpr 200 false (spans0 [.Ident c!"a", .Mul, .Ident c!"b", .BracketOpen, .IntLiteral 0, .BracketClose]) =
    .ok (bin .Mul (v c!"a") (idx (v c!"b") (n 0))) [] := by rfl
example : parseExpr 200 false
    (spans0 [.ParenOpen, .Ident c!"a", .Mul, .Ident c!"b", .ParenClose, .BracketOpen, .IntLiteral 0, .BracketClose]) =
    .ok (idx (bin .Mul (v c!"a") (v c!"b")) (n 0)) [] := by rfl

-- a negative literal is an atom: `-1[0]` indexes the literal, `a - -1.x` subtracts a property of `-1`
example : prE 1 (idx (n (-1)) (n 0)) = [.Sub, .IntLiteral 1, .BracketOpen, .IntLiteral 0, .BracketClose] := by
  decide +kernel
example : parseExpr 200 false (spans0 [.Sub, .IntLiteral 1, .BracketOpen, .IntLiteral 0, .BracketClose]) =
    .ok (idx (n (-1)) (n 0)) [] := by rfl
example : parseExpr 200 false (spans0 [.Ident c!"a", .Sub, .Sub, .IntLiteral 1, .Dot, .Ident c!"x"]) =
    .ok (bin .Sub (v c!"a") (.mk (.Prop (n (-1)) c!"x" false) (0, 0))) [] := by rfl

-- there is no unary minus, so `-x[0]` is a syntax error at `x` (`no_unary_minus`)
example : parseExpr 200 false (spans0 [.Sub, .Ident c!"x", .BracketOpen, .IntLiteral 0, .BracketClose]) =
    .err (.tok ⟨(0, 0), .Ident c!"x", (0, 0)⟩) := by rfl
-- a trailing comma is accepted in lists, arguments, objects and parameters and leaves no trace (the printer
-- never emits one): `[a,]` `f(a,)` `{a,}`
example : parseExpr 200 false (spans0 [.BracketOpen, .Ident c!"a", .Comma, .BracketClose]) =
    .ok (.mk (.List [.mk (v c!"a") false] false) (0, 0)) [] := by rfl
example : parseExpr 200 false (spans0 [.Ident c!"f", .ParenOpen, .Ident c!"a", .Comma, .ParenClose]) =
    .ok (.mk (.Call (v c!"f") [.mk (v c!"a") false]) (0, 0)) [] := by rfl
example : parseExpr 200 false (spans0 [.BraceOpen, .Ident c!"a", .Comma, .BraceClose]) =
    .ok (.mk (.Object [.Single (v c!"a") false false]) (0, 0)) [] := by rfl
-- the collecting item of a list literal is its last item, after any number of ordinary items: `[a, ..b]`
example : parseExpr 200 false (spans0 [.BracketOpen, .Ident c!"a", .Comma, .DotDot, .Ident c!"b", .BracketClose]) =
    .ok (.mk (.List [.mk (v c!"a") false, .mk (v c!"b") false] true) (0, 0)) [] := by rfl

-- chains, type-function calls, spread arguments, range indices: `a.b[0](x, y..)->f(z)[:1]`
private def chain : Expr :=
  .mk (.RangeIndex (.mk (.Call (.mk (.Prop (.mk (.Call (idx (.mk (.Prop (v c!"a") c!"b" false) (0, 0)) (n 0))
    [.mk (v c!"x") false, .mk (v c!"y") true]) (0, 0)) c!"f" true) (0, 0)) [.mk (v c!"z") false]) (0, 0))
    none (some (n 1))) (0, 0)
example : prE 1 chain =
    [.Ident c!"a", .Dot, .Ident c!"b", .BracketOpen, .IntLiteral 0, .BracketClose, .ParenOpen, .Ident c!"x", .Comma,
      .Ident c!"y", .DotDot, .ParenClose, .DashGreaterThan, .Ident c!"f", .ParenOpen, .Ident c!"z", .ParenClose,
      .BracketOpen, .Colon, .IntLiteral 1, .BracketClose] := by decide +kernel
example : wfE true chain = true := by decide +kernel
example : parseExpr (parseFuel (spans0 (prE 1 chain))) false (spans0 (prE 1 chain)) = .ok chain [] := by rfl

-- list / object / function literals as operands and operands of postfix forms, no parentheses:
-- `[a, ..b..][0]`, `{k: 1, s, ..r}.k`, `fn(x, ..r) { return x; }(1)`
private def lits : Expr :=
  bin .Sum (idx (.mk (.List [.mk (v c!"a") false, .mk (v c!"b") true] true) (0, 0)) (n 0))
    (bin .Mul (.mk (.Prop (.mk (.Object [.Pair (v c!"k") (n 1), .Single (v c!"s") false false,
        .Single (v c!"r") false true]) (0, 0)) c!"k" false) (0, 0))
      (.mk (.Call (.mk (.Func [v c!"x", v c!"r"] true [.Return (0, 0) (v c!"x")]) (0, 0)) [.mk (n 1) false]) (0, 0)))
example : wfE true lits = true := by decide +kernel
example : prE 1 lits =
    [.BracketOpen, .Ident c!"a", .Comma, .DotDot, .Ident c!"b", .DotDot, .BracketClose, .BracketOpen, .IntLiteral 0,
      .BracketClose, .Sum,
      .BraceOpen, .Ident c!"k", .Colon, .IntLiteral 1, .Comma, .Ident c!"s", .Comma, .DotDot, .Ident c!"r", .BraceClose,
      .Dot, .Ident c!"k", .Mul,
      .Fn, .ParenOpen, .Ident c!"x", .Comma, .DotDot, .Ident c!"r", .ParenClose, .BraceOpen, .Return, .Ident c!"x",
      .StmtEnd, .BraceClose, .ParenOpen, .IntLiteral 1, .ParenClose] := by decide +kernel
example : parseExpr (parseFuel (spans0 (prE 1 lits))) false (spans0 (prE 1 lits)) = .ok lits [] := by rfl

-- statements; an expression statement or assignment target may begin with `{` (object literal, also nested as
-- the first key) without parentheses, a block is `{ stmt; … }`
private def prog : List Stmt := [
  .Declare (.mk (.Object [.Single (v c!"a") false false, .Single (v c!"b") true false]) (0, 0)) (v c!"o"),
  .Expr (.mk (.Prop (.mk (.Object [.Pair (.mk (.Prop (.mk (.Object []) (0, 0)) c!"k" false) (0, 0)) (n 1)]) (0, 0))
    c!"x" false) (0, 0)),
  .Block [.Expr (.mk (.Object [.Single (v c!"q") false false]) (0, 0)), .OpAssign (v c!"a") .Sum (0, 0) (n 2)],
  .If [.mk (bin .Lt (v c!"a") (n 1)) [.Break (0, 0)], .mk (v c!"c") []] (some [.Continue (0, 0)]),
  .For (v c!"i") (.mk (.Range (n 0) (n 3)) (0, 0)) [.While (v c!"t") [.Assign (idx (v c!"a") (v c!"i")) (n 0)]],
  .Func c!"g" (0, 0) [v c!"x"] false [.Return (0, 0) (v c!"x")]]
example : wfStmts true prog = true := by decide +kernel
example : (prStmts prog).take 16 =
    [.BraceOpen, .Ident c!"a", .Comma, .Ident c!"b", .DotDot, .BraceClose, .ColonEquals, .Ident c!"o", .StmtEnd,
      .BraceOpen, .BraceOpen, .BraceClose, .Dot, .Ident c!"k", .Colon, .IntLiteral 1] := by decide +kernel
set_option maxRecDepth 100000 in
example : parseStmts (parseFuel (spans0 (prStmts prog))) false [] (spans0 (prStmts prog)) = .ok prog [] := by rfl
example : stripStmts prog = prog := by rfl

-- through the lexer: the hypotheses of `roundtrip_parseProg` hold for a source text spelling the printed tokens
private def src : List Char := c!"{a, b} := o;\nx = {k: 1}.k[0](y..);"
private def srcProg : List Stmt := [
  .Declare (.mk (.Object [.Single (v c!"a") false false, .Single (v c!"b") false false]) (0, 0)) (v c!"o"),
  .Assign (v c!"x") (.mk (.Call (idx (.mk (.Prop (.mk (.Object [.Pair (v c!"k") (n 1)]) (0, 0)) c!"k" false) (0, 0))
    (n 0)) [.mk (v c!"y") true]) (0, 0))]
example : (lexAll src).2 = none ∧ (lexAll src).1.map Span.tok = prStmts srcProg ∧ wfStmts true srcProg = true := by
  decide +kernel
example : ∃ p', parseProg src = .ok p' ∧ stripStmts p' = stripStmts srcProg :=
  roundtrip_parseProg srcProg (by decide +kernel) src (by decide +kernel) (by decide +kernel)

-- outside the image: an empty block statement, a collecting list without items, `&&=`
example : wfStmt true (.Block []) = false := by decide +kernel
example : wfE true (.mk (.List [] true) (0, 0)) = false := by decide +kernel
example : wfStmt true (.OpAssign (v c!"a") .And (0, 0) (n 1)) = false := by decide +kernel
-- `{ }` in statement position is the empty object literal, never a block
example : parseStmts 200 false [] (spans0 [.BraceOpen, .BraceClose, .StmtEnd]) =
    .ok [.Expr (.mk (.Object []) (0, 0))] [] := by rfl

end Seed.C08

/-! ## Through the lexer: the printed *source text* of a program parses back to the program

  Lemmas/LexRT*.lean (C09 `lex_render`): `renderToks ts` spells a token list as text — every token in its canonical
  spelling (`renderTok`: symbols and keywords from the generated tables, names, decimal literals, escaped string
  literals, interpolated literals with their slots, `StmtEnd` as `;`), separated by one blank — and lexing that
  text gives `ts` back, for tokens satisfying the decidable `TokWF`.  Lemmas/LexRTPrint.lean: `prStmts p` never
  contains a terminator that the lexer's terminator suppression would drop (`keepAll true (prStmts p)`): a printed
  statement is non-empty and ends with a name, literal, keyword or closing bracket, never with a continuation
  token, and a block `{ … }` begins with a statement — so the `.tok` projection of `lexAll` is `prStmts p` itself
  and `parse_print_prog` applies to it.  The printer is not adapted. -/
namespace Seed.C08
open Seed Seed.LexRT

-- audit: Seed.LexRT.prStmts_keepAll Seed.LexRT.prE_keepAll Seed.LexRT.lexAll_printed Seed.LexRT.prR_good Seed.LexRT.prStmt_good Seed.LexRT.prStmts_semi Seed.LexRT.sepBody_good Seed.LexRT.ifTail_opt Seed.LexRT.lexAll_render_keepAll Seed.LexRT.lexAll_render Seed.LexRT.lexRaw_render Seed.LexRT.lexTo_render Seed.LexRT.nextToken_render Seed.LexRT.suppressT_of_keepAll Seed.LexRT.suppress_map_tok

/-- the source text of a program: its printed tokens, spelled and separated by one blank -/
def printSource (p : List Stmt) : List Char := renderToks (prStmts p)

/-- no statement terminator printed by `prStmts` is one the lexer would suppress: none is first, none follows
    a terminator or a continuation token (`{ ;`, `; ;`, `= ;` … never occur) — for every program -/
theorem printed_terminators_survive (p : List Stmt) : keepAll true (prStmts p) = true :=
  prStmts_keepAll p

/-- the printed source text is lexed without error, and the parser sees exactly the printed tokens -/
theorem printed_source_tokens (p : List Stmt) (htok : ∀ t ∈ prStmts p, TokWF t) :
    (lexAll (printSource p)).2 = none ∧ (lexAll (printSource p)).1.map Span.tok = prStmts p :=
  lexAll_printed p htok

/-- **`front_end_roundtrip`**: for every well-formed program `p` whose tokens are well-formed, the front end
    `parseProg` (lexer, terminator suppression, parser) applied to the printed source text of `p` returns `p`,
    up to stored positions -/
theorem front_end_roundtrip (p : List Stmt) (hwf : wfStmts true p = true) (htok : ∀ t ∈ prStmts p, TokWF t) :
    ∃ p', parseProg (renderToks (prStmts p)) = .ok p' ∧ stripStmts p' = stripStmts p := by
  obtain ⟨h1, h2⟩ := lexAll_printed p htok
  exact roundtrip_parseProg p hwf _ h1 h2

/-- the same for an expression through `parseExprTop` (the front end used for interpolation slots) -/
theorem front_end_roundtrip_expr (e : Expr) (hwf : wfE true e = true) (htok : ∀ t ∈ prE 1 e, TokWF t) :
    ∃ e', parseExprTop (renderToks (prE 1 e)) = .ok e' ∧ stripE e' = stripE e := by
  obtain ⟨h1, h2⟩ := lexAll_render_keepAll (prE 1 e) htok (prE_keepAll e 1)
  obtain ⟨e', hp, hs⟩ := parse_print_expr e hwf (lexAll (renderToks (prE 1 e))).1 h2
  refine ⟨e', ?_, hs⟩
  unfold parseExprTop
  generalize lexAll (renderToks (prE 1 e)) = lx at h1 hp
  obtain ⟨ts, le⟩ := lx
  simp only at h1 hp
  subst h1
  simp only [hp]

/-- printing the result of the front end and running the front end again is the identity up to positions:
    what `parseProg` returns from any source text is reproduced from its own printed source text (provided its
    tokens are well-formed — they are tokens the lexer produced) -/
theorem front_end_idempotent {src : List Char} {p : List Stmt} (h : parseProg src = .ok p)
    (htok : ∀ t ∈ prStmts p, TokWF t) :
    ∃ p', parseProg (renderToks (prStmts p)) = .ok p' ∧ stripStmts p' = stripStmts p :=
  front_end_roundtrip p (parseProg_sound h) htok

-- hypotheses satisfiable: the text `src` above is accepted, and the tokens of what is returned are well-formed
example : (match parseProg src with
    | .ok p => decide (∀ t ∈ prStmts p, TokWF t)
    | _ => false) = true := by decide +kernel

private def ex (r : RawExpr) : Expr := .mk r (0, 0)

/-- a program with every token class: all 33 symbols, all 12 keywords, `;`, names, integer literals (a negative
    one), a string literal with escapes, an interpolated literal with a slot -/
private def allProg : List Stmt := [
  .Func c!"f" (0, 0) [v c!"a", v c!"r"] true [.Return (0, 0) (v c!"a")],
  .Declare (v c!"x") (idx (ex (.List [.mk (n 1) false, .mk (n (-2)) false, .mk (v c!"xs") true] true)) (n 0)),
  .Declare (v c!"o") (ex (.Object [.Pair (v c!"k") (ex (.Str c!"s\n\"é" none)), .Single (v c!"t") false false,
    .Single (v c!"u") false true])),
  .Assign (v c!"y") (bin .Sub (bin .Sum (v c!"a") (v c!"b"))
    (bin .Mod (bin .Div (bin .Mul (v c!"c") (v c!"d")) (v c!"e")) (v c!"g"))),
  .Assign (v c!"z") (bin .Or (bin .Eq (v c!"a") (v c!"b")) (bin .And (bin .Ne (v c!"a") (v c!"b"))
    (bin .Lt (v c!"a") (v c!"b")))),
  .Assign (v c!"w") (bin .RefNe (bin .RefEq (bin .Lte (v c!"a") (v c!"b")) (bin .Gte (v c!"a") (v c!"b")))
    (bin .Gt (v c!"a") (ex .Null))),
  .Assign (v c!"s") (ex (.Str c!"p${x}q$" (some [(1, 5)]))),
  .Assign (v c!"t") (ex (.RangeIndex (ex (.Call (ex (.Prop (ex (.Prop (v c!"o") c!"k" false)) c!"len" true)) []))
    (some (n 1)) (some (n 2)))),
  .OpAssign (v c!"x") .Sum (0, 0) (n 1), .OpAssign (v c!"x") .Sub (0, 0) (n 1), .OpAssign (v c!"x") .Mul (0, 0) (n 2),
  .OpAssign (v c!"x") .Div (0, 0) (n 2), .OpAssign (v c!"x") .Mod (0, 0) (n 2),
  .If [.mk (v c!"a") [.Break (0, 0)], .mk (v c!"b") [.Continue (0, 0)]] (some [.Expr (ex .Null)]),
  .While (ex (.Bool true)) [.Expr (ex (.Bool false))],
  .For (v c!"i") (ex (.Range (n 0) (n 3))) [.Expr (v c!"i")]]

example : wfStmts true allProg = true := by decide +kernel
example : ∀ t ∈ prStmts allProg, TokWF t := by decide +kernel
-- every symbol and keyword occurs in it
example : ∀ t ∈ ([.BraceClose, .BraceOpen, .BracketClose, .BracketOpen, .Colon, .Comma, .Div, .Dot, .Equals,
    .GreaterThan, .LessThan, .Mod, .Mul, .ParenClose, .ParenOpen, .Sub, .Sum, .AmpAmp, .BangEquals, .ColonEquals,
    .DashGreaterThan, .DivEquals, .DotDot, .EqualsEquals, .GreaterThanEquals, .LessThanEquals, .ModEquals,
    .MulEquals, .PipePipe, .SubEquals, .SumEquals, .EqualsEqualsEquals, .BangEqualsEquals,
    .Break, .Continue, .Else, .False, .Fn, .For, .If, .In, .Null, .Return, .True, .While, .StmtEnd] : List Token),
    t ∈ prStmts allProg := by decide +kernel
example : printSource allProg =
    c!"fn f ( a , .. r ) { return a ; } ; x := [ 1 , - 2 , .. xs .. ] [ 0 ] ; o := { k : \"s\\n\\\"é\" , t , .. u } ; y = a + b - c * d / e % g ; z = a == b || ( a != b && a < b ) ; w = a <= b === ( a >= b ) !== ( a > null ) ; s = $\"p${x}q\\$\" ; t = o . k -> len ( ) [ 1 : 2 ] ; x += 1 ; x -= 1 ; x *= 2 ; x /= 2 ; x %= 2 ; if a { break ; } else if b { continue ; } else { null ; } ; while true { false ; } ; for i in 0 .. 3 { i ; } ;" := by
  decide +kernel
-- the theorem applied …
example : ∃ p', parseProg (renderToks (prStmts allProg)) = .ok p' ∧ stripStmts p' = stripStmts allProg :=
  front_end_roundtrip allProg (by decide +kernel) (by decide +kernel)
-- … and the same fact by evaluation of the model: the front end accepts the printed text and returns a well-formed
-- program that is printed like `allProg` (hence equal to it up to positions, `print_injective`)
example : (match parseProg (printSource allProg) with
    | .ok p' => wfStmts true p' && decide (prStmts p' = prStmts allProg)
    | _ => false) = true := by decide +kernel

-- an expression: `- 1 .. f ( $"a${x}" ) [ : 2 ]`
private def exE : Expr :=
  ex (.Range (n (-1)) (ex (.RangeIndex (ex (.Call (v c!"f") [.mk (ex (.Str c!"a${x}" (some [(1, 5)]))) false])) none
    (some (n 2)))))
example : wfE true exE = true ∧ ∀ t ∈ prE 1 exE, TokWF t := by decide +kernel
example : renderToks (prE 1 exE) = c!"- 1 .. f ( $\"a${x}\" ) [ : 2 ]" := by decide +kernel
example : ∃ e', parseExprTop (renderToks (prE 1 exE)) = .ok e' ∧ stripE e' = stripE exE :=
  front_end_roundtrip_expr exE (by decide +kernel) (by decide +kernel)

-- the token hypothesis matters: a variable named like a keyword is printed as the keyword and is not parsed back
example : wfStmts true [.Expr (v c!"while")] = true ∧ ¬ (∀ t ∈ prStmts [.Expr (v c!"while")], TokWF t) := by
  decide +kernel
example : (match parseProg (printSource [.Expr (v c!"while")]) with | .ok _ => true | _ => false) = false := by
  decide +kernel
-- the most negative integer has no literal: `- 9223372036854775808` overflows in the lexer (as in the implementation)
example : wfStmts true [.Expr (n (-9223372036854775808))] = true ∧
    ¬ (∀ t ∈ prStmts [.Expr (n (-9223372036854775808))], TokWF t) ∧
    (lexAll (printSource [.Expr (n (-9223372036854775808))])).2 =
      some (.IntOverflow (1, 3) c!"9223372036854775808") := by decide +kernel

end Seed.C08
