/-
  Lemmas/C17LineBound.lean — C17, lexer part of the line bound for diagnostics that come out of interpolation slots.

  `interpolate` (Eval.lean) cuts the text of a slot out of the *decoded* string literal.  Inside a slot (`StrState.Interpolate`
  of `strStep`) the lexer does no escape processing: every character from `${` up to the matching `}` is copied as it
  stands.  So the text of every slot of an interpolated-literal token is a contiguous piece (`<:+:`) of the source, even
  though the decoded literal as a whole is not (an escape `\n` outside a slot decodes to a line feed the source does not
  have).

  * `strLoop_slots` / `lexStr_slots`: the invariant of the string-literal loop and its consequence for the token.
  * `nextToken_slotsIn`, `lexAll_slotsIn`: every token of the token stream of `src` satisfies `Token.SlotsIn src`
    (for `InterpStrLiteral s slots`: every `slotText s sl`, `sl ∈ slots`, is an infix of `src`).
-/
import SeedProofs.Lemmas.C18EvalPosProg
namespace Seed

/-! ## slices -/

theorem sliceChars_infix (s : List Char) (a b : Nat) : sliceChars s a b <:+: s := by
  unfold sliceChars
  exact (List.take_prefix _ _).isInfix.trans (List.drop_suffix _ _).isInfix

/-- a slice that ends inside `xs` does not see what is appended to `xs` -/
theorem sliceChars_append_left {xs ys : List Char} {a b : Nat} (h : b ≤ xs.length) :
    sliceChars (xs ++ ys) a b = sliceChars xs a b := by
  unfold sliceChars
  by_cases ha : a ≤ xs.length
  · rw [List.drop_append_of_le_length ha, List.take_append_of_le_length (by rw [List.length_drop]; omega)]
  · have : b - a = 0 := by omega
    rw [this]; simp

theorem infix_snoc {x pre : List Char} (c : Char) (h : x <:+: pre) : x <:+: pre ++ [c] :=
  h.trans (List.prefix_append pre [c]).isInfix

/-! ## the invariant of the string-literal loop -/

/-- `pre` is the part of the source the loop has consumed since the opening quote.  The text of every finished slot
    is a contiguous piece of `pre`; while a slot is open (`state = Interpolate`, its `$` at index `curStart`), what was
    pushed after the `$` is exactly the end of `pre`. -/
structure SlotInv (pre : List Char) (a : StrAcc) : Prop where
  len : a.n = a.chars.length
  fin : ∀ sl, sl ∈ a.slots → sl.2 ≤ a.n ∧ sliceChars a.chars.reverse (sl.1 + 2) (sl.2 - 1) <:+: pre
  cur : a.state = .Interpolate → a.curStart < a.n ∧ a.chars.reverse.drop (a.curStart + 1) <:+ pre

theorem slotInv_init : SlotInv [] StrAcc.init :=
  ⟨rfl, (fun _ h => by cases h), (fun h => by cases h)⟩

namespace SlotInv
variable {pre : List Char} {a a' : StrAcc}

theorem fin_keep (hi : SlotInv pre a) (c : Char) (h1 : a'.chars = a.chars) (h2 : a'.n = a.n) (h3 : a'.slots = a.slots) :
    ∀ sl, sl ∈ a'.slots → sl.2 ≤ a'.n ∧ sliceChars a'.chars.reverse (sl.1 + 2) (sl.2 - 1) <:+: pre ++ [c] := by
  intro sl hsl
  rw [h3] at hsl
  rw [h1, h2]
  exact ⟨(hi.fin sl hsl).1, infix_snoc c (hi.fin sl hsl).2⟩

theorem fin_push (hi : SlotInv pre a) (c c' : Char) (h1 : a'.chars = c' :: a.chars) (h2 : a'.n = a.n + 1)
    (h3 : a'.slots = a.slots) :
    ∀ sl, sl ∈ a'.slots → sl.2 ≤ a'.n ∧ sliceChars a'.chars.reverse (sl.1 + 2) (sl.2 - 1) <:+: pre ++ [c] := by
  intro sl hsl
  rw [h3] at hsl
  have := hi.fin sl hsl
  rw [h1, h2, List.reverse_cons, sliceChars_append_left (by rw [List.length_reverse, ← hi.len]; omega)]
  exact ⟨by omega, infix_snoc c this.2⟩

/-- a step that pushes nothing and leaves the literal outside a slot -/
theorem keep (hi : SlotInv pre a) (c : Char) (h1 : a'.chars = a.chars) (h2 : a'.n = a.n) (h3 : a'.slots = a.slots)
    (h4 : a'.state ≠ .Interpolate) : SlotInv (pre ++ [c]) a' :=
  ⟨by rw [h1, h2]; exact hi.len, hi.fin_keep c h1 h2 h3, fun h => absurd h h4⟩

/-- a step that pushes one (decoded) character and leaves the literal outside a slot -/
theorem pushed (hi : SlotInv pre a) (c c' : Char) (h1 : a'.chars = c' :: a.chars) (h2 : a'.n = a.n + 1)
    (h3 : a'.slots = a.slots) (h4 : a'.state ≠ .Interpolate) : SlotInv (pre ++ [c]) a' :=
  ⟨by rw [h1, h2, hi.len]; rfl, hi.fin_push c c' h1 h2 h3, fun h => absurd h h4⟩

/-- the `$` that opens a slot -/
theorem opened (hi : SlotInv pre a) (c c' : Char) (h1 : a'.chars = c' :: a.chars) (h2 : a'.n = a.n + 1)
    (h3 : a'.slots = a.slots) (h5 : a'.curStart = a.n) : SlotInv (pre ++ [c]) a' := by
  refine ⟨by rw [h1, h2, hi.len]; rfl, hi.fin_push c c' h1 h2 h3, fun _ => ⟨by omega, ?_⟩⟩
  rw [h1, h5, List.reverse_cons, List.drop_of_length_le (by simp [hi.len])]
  exact List.nil_suffix

/-- a character inside an open slot is pushed as it stands -/
theorem inner (hi : SlotInv pre a) (hs : a.state = .Interpolate) (c : Char) (h1 : a'.chars = c :: a.chars)
    (h2 : a'.n = a.n + 1) (h3 : a'.slots = a.slots) (h5 : a'.curStart = a.curStart) : SlotInv (pre ++ [c]) a' := by
  obtain ⟨hlt, hsuf⟩ := hi.cur hs
  refine ⟨by rw [h1, h2, hi.len]; rfl, hi.fin_push c c h1 h2 h3, fun _ => ⟨by omega, ?_⟩⟩
  rw [h1, h5, List.reverse_cons, List.drop_append_of_le_length (by rw [List.length_reverse, ← hi.len]; omega)]
  obtain ⟨t, ht⟩ := hsuf
  exact ⟨t, by rw [← ht, List.append_assoc]⟩

/-- the `}` that closes a slot: the new entry of the slot table cuts out what was pushed after `${` -/
theorem closed (hi : SlotInv pre a) (hs : a.state = .Interpolate) (c : Char) (h1 : a'.chars = c :: a.chars)
    (h2 : a'.n = a.n + 1) (h3 : a'.slots = (a.curStart, a.n + 1) :: a.slots) (h4 : a'.state ≠ .Interpolate) :
    SlotInv (pre ++ [c]) a' := by
  obtain ⟨hlt, hsuf⟩ := hi.cur hs
  refine ⟨by rw [h1, h2, hi.len]; rfl, ?_, fun h => absurd h h4⟩
  intro sl hsl
  rw [h3] at hsl
  rcases List.mem_cons.mp hsl with rfl | hsl
  · refine ⟨by rw [h2]; exact Nat.le_refl _, ?_⟩
    rw [h1, List.reverse_cons, sliceChars_append_left (by rw [List.length_reverse, ← hi.len]; simp)]
    apply infix_snoc
    refine List.IsInfix.trans ?_ hsuf.isInfix
    unfold sliceChars
    have : List.drop (a.curStart + 2) a.chars.reverse = List.drop 1 (List.drop (a.curStart + 1) a.chars.reverse) := by
      rw [List.drop_drop]
    rw [this]
    exact (List.take_prefix _ _).isInfix.trans (List.drop_suffix _ _).isInfix
  · have := hi.fin sl hsl
    rw [h1, h2, List.reverse_cons, sliceChars_append_left (by rw [List.length_reverse, ← hi.len]; omega)]
    exact ⟨by omega, infix_snoc c this.2⟩

end SlotInv

/-- one iteration of the loop keeps the invariant, with the character it consumed added to `pre` -/
theorem strStep_cont_inv {interp : Bool} {a a' : StrAcc} {c : Char} {loc : Loc} {pre : List Char}
    (h : strStep interp a c loc = .cont a') (hi : SlotInv pre a) : SlotInv (pre ++ [c]) a' := by
  unfold strStep at h
  split at h
  · -- None
    repeat' split at h
    all_goals first
      | (injection h with h; subst h
         first
          | exact hi.opened c _ rfl rfl rfl rfl
          | (refine hi.keep c rfl rfl rfl ?_; simp [*]; done)
          | (refine hi.pushed c _ rfl rfl rfl ?_; simp [StrAcc.push, *]; done))
      | cases h
  · -- Escape
    repeat' split at h
    all_goals first
      | (injection h with h; subst h
         first
          | (refine hi.keep c rfl rfl rfl ?_; simp [*]; done)
          | (refine hi.pushed c _ rfl rfl rfl ?_; simp [StrAcc.push, *]; done))
      | cases h
  · -- Hex
    repeat' split at h
    all_goals first
      | (injection h with h; subst h
         first
          | (refine hi.keep c rfl rfl rfl ?_; simp [*]; done)
          | (refine hi.pushed c _ rfl rfl rfl ?_; simp [StrAcc.push, *]; done))
      | cases h
  · -- Interpolate
    next hs =>
    split at h
    · cases h
    · simp only at h
      repeat' split at h
      all_goals
        injection h with h; subst h
        first
          | (refine hi.closed hs c rfl rfl rfl ?_; simp [StrAcc.push]; done)
          | exact hi.inner hs c rfl rfl rfl rfl

theorem strStep_done {interp : Bool} {a a' : StrAcc} {c : Char} {loc : Loc} (h : strStep interp a c loc = .done a') :
    a' = a := by
  unfold strStep at h
  repeat' split at h
  all_goals first
    | (injection h with h; exact h.symm)
    | (simp only at h; split at h <;> cases h)
    | cases h

/-- when the loop ends, the text of every slot is a contiguous piece of what the loop was run on -/
theorem strLoop_slots {interp : Bool} {r : List Char} {l c : Nat} {a a' : StrAcc} {s' : Scanner}
    (h : strLoop interp r l c a = .ok (a', s')) (pre : List Char) (hi : SlotInv pre a) :
    ∀ sl, sl ∈ a'.slots → sliceChars a'.chars.reverse (sl.1 + 2) (sl.2 - 1) <:+: pre ++ r := by
  induction r generalizing l c a pre with
  | nil =>
    unfold strLoop at h
    injection h with h; injection h with h _
    subst h
    intro sl hsl
    rw [List.append_nil]
    exact (hi.fin sl hsl).2
  | cons ch r ih =>
    unfold strLoop at h
    simp only at h
    split at h
    · cases h
    · next a'' hs =>
      injection h with h; injection h with h _
      subst h
      have := strStep_done hs
      subst this
      intro sl hsl
      exact (hi.fin sl hsl).2.trans (List.prefix_append pre (ch :: r)).isInfix
    · next a'' hs =>
      have := ih h (pre ++ [ch]) (strStep_cont_inv hs hi)
      simpa using this

/-- **the slot texts of an interpolated literal are pieces of the source.**  `s` is the scanner on the opening quote -/
theorem lexStr_slots {s s' : Scanner} {cs : List Char} {slots : List (Nat × Nat)}
    (h : lexStr true s = .ok (.InterpStrLiteral cs slots, s')) : ∀ sl, sl ∈ slots → slotText cs sl <:+: s.rest := by
  unfold lexStr at h
  simp only at h
  split at h
  · cases h
  · next a s'' hl =>
    simp only [if_true, Except.ok.injEq, Prod.mk.injEq, Token.InterpStrLiteral.injEq] at h
    obtain ⟨⟨rfl, rfl⟩, _⟩ := h
    intro sl hsl
    have := strLoop_slots hl [] slotInv_init sl (List.mem_reverse.mp hsl)
    rw [List.nil_append, Scanner.next_rest] at this
    exact this.trans (List.drop_suffix _ _).isInfix

/-! ## tokens -/

/-- the slot texts of the token (if it is an interpolated literal) are contiguous pieces of `src` -/
def Token.SlotsIn (src : List Char) : Token → Prop
  | .InterpStrLiteral s slots => ∀ sl, sl ∈ slots → slotText s sl <:+: src
  | _ => _root_.True

/-- not an interpolated literal -/
def Token.plain : Token → Bool
  | .InterpStrLiteral _ _ => false
  | _ => true

theorem Token.SlotsIn.of_plain {src : List Char} {t : Token} (h : t.plain = true) : t.SlotsIn src := by
  cases t <;> first | exact _root_.True.intro | cases h

theorem Token.SlotsIn.mono {x y : List Char} {t : Token} (hxy : x <:+: y) (h : t.SlotsIn x) : t.SlotsIn y := by
  cases t <;> first | exact _root_.True.intro | exact fun sl hsl => (h sl hsl).trans hxy

theorem keywords_plain : Gen.keywords.all (fun p => p.2.plain) = true := by decide
theorem singleSym_plain : Gen.singleSym.all (fun p => p.2.plain) = true := by decide
theorem doubleSym_plain : Gen.doubleSym.all (fun p => p.2.plain) = true := by decide
theorem tripleSym_plain : Gen.tripleSym.all (fun p => p.2.plain) = true := by decide

theorem keywordOrIdent_plain (w : List Char) : (keywordOrIdent w).plain = true := by
  unfold keywordOrIdent
  split
  · next t ht => exact List.all_eq_true.mp keywords_plain _ (lookupAssoc_mem ht)
  · rfl

theorem matchSingle_plain {c : Char} {t : Token} (h : matchSingle c = some t) : t.plain = true :=
  List.all_eq_true.mp singleSym_plain _ (lookupAssoc_mem h)
theorem matchDouble_plain {a b : Char} {t : Token} (h : matchDouble a b = some t) : t.plain = true :=
  List.all_eq_true.mp doubleSym_plain _ (lookupAssoc_mem h)
theorem matchTriple_plain {a b c : Char} {t : Token} (h : matchTriple a b c = some t) : t.plain = true :=
  List.all_eq_true.mp tripleSym_plain _ (lookupAssoc_mem h)

theorem lexMultiSym_plain {c1 : Char} {s s' : Scanner} {t : Token} (h : lexMultiSym c1 s = (some t, s')) :
    t.plain = true := by
  unfold lexMultiSym at h
  simp only at h
  repeat' split at h
  all_goals
    injection h with h1 h2
    first
      | exact matchTriple_plain h1
      | (injection h1 with h1; subst h1
         first | exact matchDouble_plain ‹_› | exact matchTriple_plain ‹_›)
      | cases h1

theorem lexSym_plain {c1 : Char} {s s' : Scanner} {t : Token} (h : lexSym c1 s = (some t, s')) : t.plain = true := by
  unfold lexSym at h
  split at h
  · exact lexMultiSym_plain h
  · simp only at h
    repeat' split at h
    all_goals
      injection h with h1 h2
      injection h1 with h1; subst h1
      first | exact matchSingle_plain ‹_› | exact matchDouble_plain ‹_› | exact matchTriple_plain ‹_›

/-- the token `nextToken` returns from the scanner `s0`: if it is an interpolated literal, its slot texts are
    contiguous pieces of the remaining input `s0.rest` -/
theorem nextToken_slotsIn {s0 s' : Scanner} {sp : Span} (h : nextToken s0 = .tok sp s') : sp.tok.SlotsIn s0.rest := by
  obtain ⟨m, hm⟩ := s0.skipWs_advance
  have hsuf : s0.skipWs.rest <:+ s0.rest := by rw [hm, Scanner.advance_rest]; exact List.drop_suffix _ _
  unfold nextToken at h
  simp only at h
  generalize s0.skipWs = s at h hsuf
  split at h
  · cases h
  · next c r hr =>
    split at h
    · cases h
    · next t s'' hres =>
      injection h with h1 h2
      subst h1
      show t.SlotsIn s0.rest
      split at hres
      · injection hres with hres; injection hres with hres _
        subst hres; trivial
      · split at hres
        · injection hres with hres; injection hres with hres _
          subst hres
          exact Token.SlotsIn.of_plain (keywordOrIdent_plain _)
        · split at hres
          · unfold lexInt at hres
            simp only at hres
            split at hres
            · injection hres with hres; injection hres with hres _
              subst hres; trivial
            · cases hres
          · split at hres
            · unfold lexStr at hres
              simp only at hres
              split at hres
              · cases hres
              · simp only [Bool.false_eq_true, if_false] at hres
                injection hres with hres; injection hres with hres _
                subst hres; trivial
            · split at hres
              · cases t with
                | InterpStrLiteral cs slots =>
                  intro sl hsl
                  refine ((lexStr_slots hres sl hsl).trans ?_).trans hsuf.isInfix
                  rw [Scanner.next_rest]
                  exact (List.drop_suffix _ _).isInfix
                | _ => trivial
              · split at hres
                · next t' s3 hsym =>
                  injection hres with hres; injection hres with hres _
                  subst hres
                  exact Token.SlotsIn.of_plain (lexSym_plain hsym)
                · cases hres

/-- **every token of the token stream of `src`**: the texts of the slots of an interpolated literal are contiguous
    pieces of `src` -/
theorem lexAll_slotsIn {src : List Char} {sp : Span} (h : sp ∈ (lexAll src).1) : sp.tok.SlotsIn src := by
  have hraw : sp ∈ (lexRaw (src.length + 1) ((Scanner.new src).advance 0)).1 := suppress_subset _ _ _ h
  obtain ⟨k', s', _, hn⟩ := lexRaw_mem_reach src _ 0 sp hraw
  have := nextToken_slotsIn hn
  rw [scan_rest] at this
  exact this.mono (List.drop_suffix _ _).isInfix

/-- a concrete instance: the slot text keeps the raw line feeds and the raw escape of the source; the decoded
    prefix `a\n` has a line feed the source does not have -/
example : (lexAll c!"$\"a\\n${\n\"\\n\" + x}\"").1.map (·.tok) =
    [Token.InterpStrLiteral c!"a\n${\n\"\\n\" + x}" [(2, 14)]] ∧
    slotText c!"a\n${\n\"\\n\" + x}" (2, 14) = c!"\n\"\\n\" + x" := by decide +kernel

end Seed
