/-
  Lemmas/LexRTDefs.lean — the canonical spelling of a token (`renderTok`), of a token list (`renderToks`:
  the spellings separated by exactly one blank) and the decidable predicate `tokWF` on tokens under which the
  spelling lexes back to the token (`nextToken_render`, Lemmas/LexRTTok.lean; `lex_render`, Lemmas/LexRT.lean).

  Symbols and keywords are spelled by *inverse lookup* in the generated tables (`Gen.tripleSym`,
  `Gen.doubleSym`, `Gen.singleSym`, `Gen.keywords`); string literals with the escaping of C15
  (`escapeChars`); interpolated literals with their slots copied raw (`C15.render`).
-/
import SeedModel.Lex
import SeedProofs.Lemmas.C15Lex
namespace Seed.LexRT
open Seed

/-! ### symbols and keywords: inverse lookup in the generated tables -/

/-- the first key whose value is `t` -/
def keyOf {α} (t : Token) : List (α × Token) → Option α
  | [] => none
  | (k, v) :: r => if v = t then some k else keyOf t r

/-- spelling of a symbol or keyword token, read off the generated tables (longest symbols first; the order is
    immaterial, no token occurs in two tables) -/
def tableSpelling (t : Token) : Option (List Char) :=
  match keyOf t Gen.tripleSym with
  | some (a, b, c) => some [a, b, c]
  | none =>
    match keyOf t Gen.doubleSym with
    | some (a, b) => some [a, b]
    | none =>
      match keyOf t Gen.singleSym with
      | some a => some [a]
      | none => keyOf t Gen.keywords

/-! ### interpolated literals: pieces and slot texts from the decoded text and the slot list -/

/-- cut the decoded text `s` (whose first character has offset `off`) at the slots: the piece before the first
    slot, and for every slot `(a, b)` the text between its `${` and `}` together with the piece that follows -/
def splitSlots (s : List Char) (off : Nat) : List (Nat × Nat) → List Char × List (List Char × List Char)
  | [] => (s, [])
  | (a, b) :: r =>
    let q := splitSlots (s.drop (b - off)) b r
    (s.take (a - off), ((s.drop (a - off + 2)).take (b - a - 3), q.1) :: q.2)

/-! ### the spelling of one token -/

def renderTok : Token → List Char
  | .Ident w => w
  | .IntLiteral n => natToChars n.toNat
  | .StrLiteral s => '"' :: (C15.escapeChars s ++ ['"'])
  | .InterpStrLiteral s slots =>
    '$' :: '"' :: (C15.render (splitSlots s 0 slots).1 (splitSlots s 0 slots).2 ++ ['"'])
  | .StmtEnd => [';']
  | t => (tableSpelling t).getD []

/-- the spellings, separated by exactly one blank (none before the first, none after the last) -/
def renderToks : List Token → List Char
  | [] => []
  | [t] => renderTok t
  | t :: ts => renderTok t ++ ' ' :: renderToks ts

theorem renderToks_cons_cons (t u : Token) (ts : List Token) :
    renderToks (t :: u :: ts) = renderTok t ++ ' ' :: renderToks (u :: ts) := rfl

/-! ### well-formed tokens -/

/-- an identifier text: non-empty, begins with a letter or `_`, continues with letters, digits, `_`, and is not
    a keyword -/
def identWF : List Char → Bool
  | [] => false
  | ch :: r => (isAsciiAlpha ch || ch = '_') && r.all isIdentChar && (lookupAssoc (ch :: r) Gen.keywords).isNone

/-- the slot list of an interpolated literal is consistent with its text: cutting the text at the slots gives
    pieces and brace-balanced slot texts from which the text and the slot list are rebuilt exactly
    (every slot `(a, b)` delimits `${…}` in the decoded text, in order, without overlap) -/
def interpWF (s : List Char) (slots : List (Nat × Nat)) : Bool :=
  let q := splitSlots s 0 slots
  decide (C15.decoded q.1 q.2 = s) && decide (C15.slotsOf 0 q.1 q.2 = slots) &&
    q.2.all (fun x => decide (C15.Balanced x.1))

/-- the tokens the round trip covers: every symbol, keyword and terminator; identifiers that are identifier
    texts and not keywords; integer literals in `0 ..= i64::MAX` (a negative number is the two tokens `-` and a
    literal); every plain string literal (any Unicode text); interpolated literals with a consistent slot list -/
def tokWF : Token → Bool
  | .Ident w => identWF w
  | .IntLiteral n => decide (0 ≤ n) && decide (n ≤ (i64Max : Int))
  | .StrLiteral _ => true
  | .InterpStrLiteral s slots => interpWF s slots
  | _ => true

def TokWF (t : Token) : Prop := tokWF t = true

instance (t : Token) : Decidable (TokWF t) := by unfold TokWF; infer_instance

/-! ### the spellings of the tables, on examples -/

example : renderTok .EqualsEqualsEquals = c!"===" ∧ renderTok .DashGreaterThan = c!"->" ∧
    renderTok .BraceOpen = c!"{" ∧ renderTok .While = c!"while" ∧ renderTok .StmtEnd = c!";" := by decide
example : renderTok (.IntLiteral 9223372036854775807) = c!"9223372036854775807" := by decide
example : renderTok (.StrLiteral c!"a\"$\n") = c!"\"a\\\"\\$\\n\"" := by decide
example : renderTok (.InterpStrLiteral c!"é${x}}{${f({})}$" [(1, 5), (7, 15)]) = c!"$\"é${x}}{${f({})}\\$\"" := by
  decide
example : TokWF (.InterpStrLiteral c!"é${x}}{${f({})}$" [(1, 5), (7, 15)]) := by decide
example : ¬ TokWF (.InterpStrLiteral c!"é${x}" [(0, 4)]) ∧ ¬ TokWF (.InterpStrLiteral c!"${{}" [(0, 4)]) := by decide
example : TokWF (.Ident c!"_a1") ∧ ¬ TokWF (.Ident c!"1a") ∧ ¬ TokWF (.Ident c!"while") ∧ ¬ TokWF (.Ident c!"a b") ∧
    ¬ TokWF (.Ident []) := by decide
example : TokWF (.IntLiteral 0) ∧ ¬ TokWF (.IntLiteral (-1)) ∧ ¬ TokWF (.IntLiteral 9223372036854775808) := by
  decide
example : renderToks [.Ident c!"x", .Equals, .Sub, .IntLiteral 5, .StmtEnd] = c!"x = - 5 ;" := by decide

end Seed.LexRT
