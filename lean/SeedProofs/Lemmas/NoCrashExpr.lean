/-
  NoCrashExpr.lean — G4, part 3b: the induction step of `SafeAll` for the expression-level functions
  (`evalExpr`, `evalOptIndex`, `evalListItems`, `evalProps`, `evalCall`, `evalTo*`, `interpolate`).
-/
import SeedProofs.Lemmas.NoCrashDefs
namespace Seed

theorem safe_evalExpr {n : Nat} (ih : SafeAll n) (σ : State) (sc : List Addr) (e : Expr) (hw : WF σ) (hs : ScOK σ sc) :
    Safe SValOK σ (evalExpr (n + 1) σ sc e) := by
  unfold evalExpr
  obtain ⟨raw, loc⟩ := e
  cases raw with
  | Null => exact Safe.ok_same hw (SValOK.plain trivial)
  | Bool b => exact Safe.ok_same hw (SValOK.plain trivial)
  | Int i => exact Safe.ok_same hw (SValOK.plain trivial)
  | Str s slots =>
    cases slots with
    | none => exact Safe.ok_same hw (SValOK.plain trivial)
    | some slots =>
      dsimp only []
      apply Safe.bind (ih.interpolate _ _ _ _ _ _ _ hw hs); intro cs σ1 hw1 he1 _
      exact Safe.ok_same hw1 (SValOK.plain trivial)
  | Var name =>
    dsimp only []
    split
    · exact Safe.ok_same hw (scopeGet_ok hw (by assumption))
    · exact Safe.errAt
  | BinaryOp op opLoc lhs rhs =>
    dsimp only []
    apply Safe.bind (ih.evalExpr _ _ _ hw hs); intro l σ1 hw1 he1 hl
    apply Safe.bind (ih.evalExpr _ _ _ hw1 (hs.mono he1)); intro r σ2 hw2 he2 hr
    apply Safe.bind (applyBinOp_safe n _ _ hw2 (hl.mono he2).1 hr.1); intro v σ3 hw3 he3 hv
    exact Safe.ok_same hw3 (SValOK.plain hv)
  | List items collect =>
    dsimp only []
    split
    · exact Safe.errAt
    · apply Safe.bind (ih.evalListItems _ _ _ _ hw hs ListOK.nil); intro vals σ1 hw1 he1 hv
      rcases h : σ1.alloc (.list vals) with ⟨a, σ2⟩
      obtain ⟨hw2, he2, ht2⟩ := alloc_spec h hw1 (c := .list vals) hv
      exact Safe.ok hw2 he2 (SValOK.plain ht2)
  | Index ex locat =>
    dsimp only []
    apply Safe.bind (ih.evalExpr _ _ _ hw hs); intro src σ1 hw1 he1 hsrc
    have hs1 := hs.mono he1
    split
    · apply Safe.bind (ih.evalToIndex _ _ _ hw1 hs1); intro i σ2 hw2 he2 _
      split
      · exact Safe.ok_same hw2 (SValOK.plain trivial)
      · exact Safe.errAt
    · rename_i a heq
      have ha := hsrc.1.list_tag heq
      apply Safe.bind (ih.evalToIndex _ _ _ hw1 hs1); intro i σ2 hw2 he2 _
      obtain ⟨items, hi⟩ := getList_of_tag (tag_mono ha he2)
      rw [hi]; dsimp only []
      split
      · exact Safe.ok_same hw2 ((hw2.list hi).getElem? (by assumption))
      · exact Safe.errAt
    · rename_i a heq
      have ha := hsrc.1.obj_tag heq
      apply Safe.bind (ih.evalToStr _ _ _ _ hw1 hs1); intro name σ2 hw2 he2 _
      obtain ⟨props, hp⟩ := getObj_of_tag (tag_mono ha he2)
      rw [hp]; dsimp only []
      split
      · exact Safe.ok_same hw2 (SValOK.withSrc (objGet_ok (hw2.obj hp) (by assumption)).1 (hsrc.mono he2).1)
      · exact Safe.errAt
    · exact Safe.errAt
  | RangeIndex ex start stop =>
    dsimp only []
    apply Safe.bind (ih.evalOptIndex _ _ _ hw hs); intro a σ1 hw1 he1 _
    apply Safe.bind (ih.evalOptIndex _ _ _ hw1 (hs.mono he1)); intro b σ2 hw2 he2 _
    apply Safe.bind (ih.evalExpr _ _ _ hw2 (hs.mono (he1.trans he2))); intro src σ3 hw3 he3 hsrc
    split
    · split
      · exact Safe.ok_same hw3 (SValOK.plain trivial)
      · exact Safe.errAt
    · rename_i addr heq
      obtain ⟨items, hi⟩ := getList_of_tag (hsrc.1.list_tag heq)
      rw [hi]; dsimp only []
      split
      · rcases h : σ3.alloc (.list (List.take (b.getD items.length - a.getD 0) (List.drop (a.getD 0) items))) with ⟨na, σ4⟩
        obtain ⟨hw4, he4, ht4⟩ := alloc_spec h hw3 (c := .list _) (((hw3.list hi).drop _).take _)
        exact Safe.ok hw4 he4 (SValOK.plain ht4)
      · exact Safe.errAt
    · exact Safe.errAt
  | Range start stop =>
    dsimp only []
    apply Safe.bind (ih.evalToInt _ _ _ _ hw hs); intro a σ1 hw1 he1 _
    apply Safe.bind (ih.evalToInt _ _ _ _ hw1 (hs.mono he1)); intro b σ2 hw2 he2 _
    rcases h : σ2.alloc (.list (intRange a b)) with ⟨na, σ3⟩
    obtain ⟨hw3, he3, ht3⟩ := alloc_spec h hw2 (c := .list _) (intRange_ok _ _ _)
    exact Safe.ok hw3 he3 (SValOK.plain ht3)
  | Object props =>
    dsimp only []
    apply Safe.bind (ih.evalProps _ _ _ _ _ hw hs ObjOK.nil Sorted.nil); intro m σ1 hw1 he1 hm
    rcases h : σ1.alloc (.obj m) with ⟨na, σ2⟩
    obtain ⟨hw2, he2, ht2⟩ := alloc_spec h hw1 (c := .obj m) hm
    exact Safe.ok hw2 he2 (SValOK.plain ht2)
  | «Prop» ex name typeProp =>
    dsimp only []
    apply Safe.bind (ih.evalExpr _ _ _ hw hs); intro src σ1 hw1 he1 hsrc
    split
    · split
      · exact Safe.errAt
      · split
        · exact Safe.ok_same hw1 (SValOK.withSrc (typeFnLookup_ok (by assumption)) hsrc.1)
        · exact Safe.errAt
    · split
      · rename_i a heq
        obtain ⟨props, hp⟩ := getObj_of_tag (hsrc.1.obj_tag heq)
        rw [hp]; dsimp only []
        split
        · exact Safe.ok_same hw1 (SValOK.withSrc (objGet_ok (hw1.obj hp) (by assumption)).1 hsrc.1)
        · exact Safe.errAt
      · exact Safe.errAt
  | Func args collect stmts =>
    dsimp only []
    rcases h : σ.alloc (.func ⟨none, args, collect, stmts, sc⟩) with ⟨a, σ1⟩
    obtain ⟨hw1, he1, ht1⟩ := alloc_spec h hw (c := .func _) hs
    exact Safe.ok hw1 he1 (SValOK.plain ht1)
  | Call f args => exact ih.evalCall _ _ _ _ _ hw hs

theorem safe_evalOptIndex {n : Nat} (ih : SafeAll n) (σ : State) (sc : List Addr) (e : Option Expr) (hw : WF σ) (hs : ScOK σ sc) :
    Safe Triv σ (evalOptIndex (n + 1) σ sc e) := by
  unfold evalOptIndex
  cases e with
  | none => exact Safe.ok_same hw trivial
  | some e => exact Safe.map (ih.evalToIndex _ _ _ hw hs) (fun _ _ _ => trivial)

theorem safe_evalListItems {n : Nat} (ih : SafeAll n) (σ : State) (sc : List Addr) (items : List ListItem) (acc : List SVal)
    (hw : WF σ) (hs : ScOK σ sc) (ha : ListOK σ acc) : Safe ListOK σ (evalListItems (n + 1) σ sc items acc) := by
  unfold evalListItems
  cases items with
  | nil => exact Safe.ok_same hw ha
  | cons it r =>
    obtain ⟨e, spread⟩ := it
    dsimp only []
    apply Safe.bind (ih.evalExpr _ _ _ hw hs); intro v σ1 hw1 he1 hv
    have hs1 := hs.mono he1
    have ha1 := ha.mono he1
    split
    · exact ih.evalListItems _ _ _ _ hw1 hs1 (ListOK.append ha1 (ListOK.cons hv ListOK.nil))
    · split
      · rename_i a heq
        obtain ⟨xs, hx⟩ := getList_of_tag (hv.1.list_tag heq)
        rw [hx]; dsimp only []
        exact ih.evalListItems _ _ _ _ hw1 hs1 (ListOK.append ha1 (hw1.list hx))
      · exact Safe.errAt

theorem safe_evalProps {n : Nat} (ih : SafeAll n) (σ : State) (sc : List Addr) (objLoc : Loc) (props : List PropItem) (acc : ObjMap)
    (hw : WF σ) (hs : ScOK σ sc) (ha : ObjOK σ acc) (hso : Sorted acc) :
    Safe (fun σ' m => ObjOK σ' m ∧ Sorted m) σ (evalProps (n + 1) σ sc objLoc props acc) := by
  unfold evalProps
  cases props with
  | nil => exact Safe.ok_same hw ⟨ha, hso⟩
  | cons p r =>
    cases p with
    | Pair nameE value =>
      dsimp only []
      apply Safe.bind (ih.evalToStr _ _ _ _ hw hs); intro name σ1 hw1 he1 _
      apply Safe.bind (ih.evalExpr _ _ _ hw1 (hs.mono he1)); intro v σ2 hw2 he2 hv
      exact ih.evalProps _ _ _ _ _ hw2 (hs.mono (he1.trans he2)) (objInsert_ok (ha.mono (he1.trans he2)) hv)
        (objInsert_sorted hso)
    | Single e spread collect =>
      dsimp only []
      split
      · exact Safe.errAt
      · split
        · apply Safe.bind (ih.evalExpr _ _ _ hw hs); intro v σ1 hw1 he1 hv
          split
          · rename_i a heq
            obtain ⟨m, hm⟩ := getObj_of_tag (hv.1.obj_tag heq)
            rw [hm]; dsimp only []
            exact ih.evalProps _ _ _ _ _ hw1 (hs.mono he1) (objInsert_foldl_ok m (hw1.obj hm) (ha.mono he1))
              (objInsert_foldl_sorted m hso)
          · exact Safe.errAt
        · split
          · split
            · exact ih.evalProps _ _ _ _ _ hw hs (objInsert_ok ha (scopeGet_ok hw (by assumption)))
                (objInsert_sorted hso)
            · exact Safe.errAt
          · exact Safe.errAt

theorem safe_evalToStr {n : Nat} (ih : SafeAll n) (σ : State) (sc : List Addr) (d : List Char) (e : Expr) (hw : WF σ)
    (hs : ScOK σ sc) : Safe Triv σ (evalToStr (n + 1) σ sc d e) := by
  unfold evalToStr
  apply Safe.bind (ih.evalExpr _ _ _ hw hs); intro v σ1 hw1 he1 hv
  repeat' first
    | exact Safe.errAt
    | exact Safe.ok_same hw1 trivial
    | split

theorem safe_evalToBool {n : Nat} (ih : SafeAll n) (σ : State) (sc : List Addr) (d : List Char) (e : Expr) (hw : WF σ)
    (hs : ScOK σ sc) : Safe Triv σ (evalToBool (n + 1) σ sc d e) := by
  unfold evalToBool
  apply Safe.bind (ih.evalExpr _ _ _ hw hs); intro v σ1 hw1 he1 hv
  repeat' first
    | exact Safe.errAt
    | exact Safe.ok_same hw1 trivial
    | split

theorem safe_evalToInt {n : Nat} (ih : SafeAll n) (σ : State) (sc : List Addr) (d : List Char) (e : Expr) (hw : WF σ)
    (hs : ScOK σ sc) : Safe Triv σ (evalToInt (n + 1) σ sc d e) := by
  unfold evalToInt
  apply Safe.bind (ih.evalExpr _ _ _ hw hs); intro v σ1 hw1 he1 hv
  repeat' first
    | exact Safe.errAt
    | exact Safe.ok_same hw1 trivial
    | split

theorem safe_evalToIndex {n : Nat} (ih : SafeAll n) (σ : State) (sc : List Addr) (e : Expr) (hw : WF σ)
    (hs : ScOK σ sc) : Safe Triv σ (evalToIndex (n + 1) σ sc e) := by
  unfold evalToIndex
  apply Safe.bind (ih.evalToInt _ _ _ _ hw hs); intro v σ1 hw1 he1 hv
  repeat' first
    | exact Safe.errAt
    | exact Safe.ok_same hw1 trivial
    | split

theorem safe_interpolate {n : Nat} (ih : SafeAll n) (σ : State) (sc : List Addr) (s : List Char) (slots : List (Nat × Nat))
    (loc : Loc) (last : Nat) (acc : List Char) (hw : WF σ) (hs : ScOK σ sc) :
    Safe Triv σ (interpolate (n + 1) σ sc s slots loc last acc) := by
  unfold interpolate
  cases slots with
  | nil => exact Safe.ok_same hw trivial
  | cons sl r =>
    obtain ⟨start, stop⟩ := sl
    dsimp only []
    split
    · exact Safe.timeout
    · exact Safe.err
    · apply Safe.bind (Safe.mapErr (ih.evalExpr _ _ _ hw hs)); intro v σ1 hw1 he1 hv
      repeat' first
        | exact Safe.err
        | exact ih.interpolate _ _ _ _ _ _ _ hw1 (hs.mono he1)
        | split

theorem callArgs_ok {σ2 : State} (hw2 : WF σ2) {argVals : List SVal} (hargs2 : ListOK σ2 argVals) (k : Nat) :
    WF (σ2.alloc (.list (argVals.drop k))).2 ∧ Ext σ2 (σ2.alloc (.list (argVals.drop k))).2 ∧
      ListOK (σ2.alloc (.list (argVals.drop k))).2 (argVals.take k ++ [SVal.plain (.list (σ2.alloc (.list (argVals.drop k))).1)]) :=
  ⟨alloc_wf (c := .list _) hw2 (hargs2.drop k), alloc_ext _ _,
    ListOK.append ((hargs2.take k).mono (alloc_ext _ _)) (ListOK.cons (SValOK.plain (alloc_tag _ _)) ListOK.nil)⟩

theorem safe_evalCall {n : Nat} (ih : SafeAll n) (σ : State) (sc : List Addr) (f : Expr) (args : List ListItem) (loc : Loc)
    (hw : WF σ) (hs : ScOK σ sc) : Safe SValOK σ (evalCall (n + 1) σ sc f args loc) := by
  unfold evalCall
  apply Safe.bind (ih.evalListItems _ _ _ _ hw hs ListOK.nil); intro argVals σ1 hw1 he1 hargs
  apply Safe.bind (ih.evalExpr _ _ _ hw1 (hs.mono he1)); intro fv σ2 hw2 he2 hfv
  have hargs2 := hargs.mono he2
  obtain ⟨fvv, fsrc⟩ := fv
  dsimp only []
  split
  · exact Safe.mapErr (callBuiltin_safe n _ hw2 hargs2)
  · rename_i a
    obtain ⟨fr, hf⟩ := getFunc_of_tag hfv.1
    rw [hf]; dsimp only []
    split
    · exact Safe.errAt
    split
    · exact Safe.errAt
    have hcl := (hw2.func hf).2
    cases fsrc with
    | none =>
      cases hc : fr.collect with
      | false =>
        simp only [Bool.false_eq_true, ↓reduceIte]
        apply Safe.bind (Safe.mapErr (ih.evalBlock _ _ _ _ hw2 hcl (BindsOK.zip _ hargs2))); intro esc σ4 hw4 he4 hesc
        cases esc <;> first | exact Safe.errAt | exact Safe.ok_same hw4 (SValOK.plain trivial) | exact Safe.ok_same hw4 hesc
      | true =>
        simp only [↓reduceIte]
        obtain ⟨hw3, he3, hpl⟩ := callArgs_ok hw2 hargs2 (fr.args.length - 1)
        refine Safe.weaken ?_ he3
        apply Safe.bind (Safe.mapErr (ih.evalBlock _ _ _ _ hw3 (hcl.mono he3) (BindsOK.zip _ hpl))); intro esc σ4 hw4 he4 hesc
        cases esc <;> first | exact Safe.errAt | exact Safe.ok_same hw4 (SValOK.plain trivial) | exact Safe.ok_same hw4 hesc
    | some this =>
      have hthis : ValOK σ2 this := hfv.2 this rfl
      cases hc : fr.collect with
      | false =>
        simp only [Bool.false_eq_true, ↓reduceIte]
        apply Safe.bind (Safe.mapErr (ih.evalBlock _ _ _ _ hw2 hcl
          (BindsOK.append (BindsOK.zip _ hargs2) (BindsOK.cons (SValOK.plain hthis) BindsOK.nil))))
        intro esc σ4 hw4 he4 hesc
        cases esc <;> first | exact Safe.errAt | exact Safe.ok_same hw4 (SValOK.plain trivial) | exact Safe.ok_same hw4 hesc
      | true =>
        simp only [↓reduceIte]
        obtain ⟨hw3, he3, hpl⟩ := callArgs_ok hw2 hargs2 (fr.args.length - 1)
        refine Safe.weaken ?_ he3
        apply Safe.bind (Safe.mapErr (ih.evalBlock _ _ _ _ hw3 (hcl.mono he3)
          (BindsOK.append (BindsOK.zip _ hpl) (BindsOK.cons (SValOK.plain (hthis.mono he3)) BindsOK.nil))))
        intro esc σ4 hw4 he4 hesc
        cases esc <;> first | exact Safe.errAt | exact Safe.ok_same hw4 (SValOK.plain trivial) | exact Safe.ok_same hw4 hesc
  · exact Safe.errAt
end Seed
