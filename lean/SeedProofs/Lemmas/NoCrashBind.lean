/-
  NoCrashBind.lean — G4, part 3d: the induction step of `SafeAll` for the binding functions
  (`bindNext`, `bindProp`, `bindRangeIndex`, `bindList`, `bindObject`, `bindObjectProp`).

  `bindList` reads the source list live at every step; its `index` crash is dead because list cells never
  change length (`Ext`), so the length check made by `bindNext` before the loop stays valid (`LenOK`).
-/
import SeedProofs.Lemmas.NoCrashDefs
namespace Seed

theorem safe_bindProp {n : Nat} (_ih : SafeAll n) (σ : State) (a : Addr) (name : List Char) (loc : Loc) (rhs : SVal)
    (op : Option (BinaryOp × Loc)) (names : List (List Char)) (vi : Bool) (hw : WF σ) (ha : σ.tagAt a = some .obj)
    (hr : SValOK σ rhs) : Safe Triv σ (bindProp (n + 1) σ a name loc rhs op names vi) := by
  unfold bindProp
  obtain ⟨props, hp⟩ := getObj_of_tag ha
  rw [hp]; dsimp only []
  split
  · apply Safe.bind (opAssignValue_safe n op hw (objGet_ok (hw.obj hp) (by assumption)) hr); intro v σ1 hw1 he1 hv
    obtain ⟨props', hp'⟩ := getObj_of_tag (tag_mono ha he1)
    rw [hp']; dsimp only []
    exact Safe.ok (set_obj_wf hw1 hp' (objInsert_ok (hw1.obj hp') hv) (objInsert_sorted (hw1.sorted hp'))) (set_ext_obj _ hp') trivial
  · split
    · split <;> exact Safe.errAt
    · exact Safe.ok (set_obj_wf hw hp (objInsert_ok (hw.obj hp) hr) (objInsert_sorted (hw.sorted hp))) (set_ext_obj _ hp) trivial

theorem safe_bindRangeIndex {n : Nat} (ih : SafeAll n) (σ : State) (sc : List Addr) (a : Addr) (start stop : Option Expr)
    (loc : Loc) (rhsItems : List SVal) (names : List (List Char)) (hw : WF σ) (hs : ScOK σ sc)
    (ha : σ.tagAt a = some .list) (hr : ListOK σ rhsItems) :
    Safe Triv σ (bindRangeIndex (n + 1) σ sc a start stop loc rhsItems names) := by
  unfold bindRangeIndex
  apply Safe.bind (ih.evalOptIndex _ _ _ hw hs); intro s σ1 hw1 he1 _
  apply Safe.bind (ih.evalOptIndex _ _ _ hw1 (hs.mono he1)); intro e σ2 hw2 he2 _
  obtain ⟨items, hi⟩ := getList_of_tag (tag_mono ha (he1.trans he2))
  rw [hi]; dsimp only []
  split
  · exact Safe.errAt
  split
  · exact Safe.errAt
  split
  · exact Safe.errAt
  split
  · exact Safe.errAt
  rename_i h1 h2 h3 h4
  refine Safe.ok (set_list_wf hw2 hi (listSplice_ok _ (hw2.list hi) (hr.mono (he1.trans he2))))
    (set_ext_list hi (listSplice_length items (s.getD 0) (e.getD items.length) rhsItems ?_ ?_ ?_)) trivial
  · omega
  · omega
  · omega

theorem safe_bindObjectProp {n : Nat} (ih : SafeAll n) (σ : State) (sc : List Addr) (names : List (List Char)) (lhs : Expr)
    (b : Addr) (pname : List Char) (ploc : Loc) (decl : Bool) (hw : WF σ) (hs : ScOK σ sc) (hb : σ.tagAt b = some .obj) :
    Safe Triv σ (bindObjectProp (n + 1) σ sc names lhs b pname ploc decl) := by
  unfold bindObjectProp
  obtain ⟨m, hm⟩ := getObj_of_tag hb
  rw [hm]; dsimp only []
  split
  · exact Safe.errAt
  · exact ih.bindNext _ _ _ _ _ _ _ hw hs (objGet_ok (hw.obj hm) (by assumption))

theorem safe_bindObject {n : Nat} (ih : SafeAll n) (σ : State) (sc : List Addr) (names : List (List Char))
    (props : List PropItem) (b : Addr) (decl : Bool) (i total : Nat) (remaining : List (List Char)) (hw : WF σ)
    (hs : ScOK σ sc) (hb : σ.tagAt b = some .obj) :
    Safe Triv σ (bindObject (n + 1) σ sc names props b decl i total remaining) := by
  unfold bindObject
  cases props with
  | nil => exact Safe.ok_same hw trivial
  | cons p r =>
    cases p with
    | Single e spread collect =>
      dsimp only []
      split
      · exact Safe.errAt
      split
      · rename_i pname _
        split
        · split
          · exact Safe.errAt
          · obtain ⟨m, hm⟩ := getObj_of_tag hb
            rw [hm]; dsimp only []
            rcases h : σ.alloc (.obj (m.filter fun kv => remaining.contains kv.1)) with ⟨ra, σ1⟩
            obtain ⟨hw1, he1, ht1⟩ := alloc_spec h hw (c := .obj _) ⟨(hw.obj hm).filter _, (hw.sorted hm).filter _⟩
            dsimp only []
            refine Safe.weaken ?_ he1
            apply Safe.bind (bindNextName_safe n _ _ _ _ _ hw1 (hs.mono he1) (SValOK.plain (v := .obj ra) ht1))
            intro names' σ2 hw2 he2 _
            exact ih.bindObject _ _ _ _ _ _ _ _ _ hw2 (hs.mono (he1.trans he2)) (tag_mono hb (he1.trans he2))
        · split
          · exact ih.bindObject _ _ _ _ _ _ _ _ _ hw hs hb
          · apply Safe.bind (ih.bindObjectProp _ _ _ _ _ _ _ _ hw hs hb); intro names' σ1 hw1 he1 _
            exact ih.bindObject _ _ _ _ _ _ _ _ _ hw1 (hs.mono he1) (tag_mono hb he1)
      · exact Safe.errAt
    | Pair nameE newLhs =>
      dsimp only []
      apply Safe.bind (ih.evalToStr _ _ _ _ hw hs); intro pname σ1 hw1 he1 _
      apply Safe.bind (ih.bindObjectProp _ _ _ _ _ _ _ _ hw1 (hs.mono he1) (tag_mono hb he1)); intro names' σ2 hw2 he2 _
      exact ih.bindObject _ _ _ _ _ _ _ _ _ hw2 (hs.mono (he1.trans he2)) (tag_mono hb (he1.trans he2))

theorem safe_bindList {n : Nat} (ih : SafeAll n) (σ : State) (sc : List Addr) (names : List (List Char)) (items : List ListItem)
    (collect : Bool) (lhsLoc : Loc) (b : Addr) (decl : Bool) (i lhsLen : Nat) (hw : WF σ) (hs : ScOK σ sc)
    (hlen : i + items.length = lhsLen) (hl : LenOK σ b collect lhsLen) :
    Safe Triv σ (bindList (n + 1) σ sc names items collect lhsLoc b decl i lhsLen) := by
  unfold bindList
  cases items with
  | nil => exact Safe.ok_same hw trivial
  | cons it r =>
    obtain ⟨e, spread⟩ := it
    dsimp only []
    split
    · exact Safe.errAt
    have hl' := hl
    obtain ⟨xs, hx, hc1, hc2⟩ := hl'
    rw [hx]; dsimp only []
    have hlen' : i + 1 + r.length = lhsLen := by simp only [List.length_cons] at hlen; omega
    split
    · rcases h : σ.alloc (.list (xs.drop (lhsLen - 1))) with ⟨ra, σ1⟩
      obtain ⟨hw1, he1, ht1⟩ := alloc_spec h hw (c := .list _) ((hw.list hx).drop _)
      dsimp only []
      refine Safe.weaken ?_ he1
      apply Safe.bind (ih.bindNext _ _ _ _ _ _ _ hw1 (hs.mono he1) (SValOK.plain (v := .list ra) ht1))
      intro names' σ2 hw2 he2 _
      exact ih.bindList _ _ _ _ _ _ _ _ _ _ hw2 (hs.mono (he1.trans he2)) hlen' (hl.mono (he1.trans he2))
    · rename_i hnc
      split
      · rename_i hnone
        exfalso
        have hge : xs.length ≤ i := by
          rcases Nat.lt_or_ge i xs.length with hlt | hge
          · rw [List.getElem?_eq_getElem hlt] at hnone; cases hnone
          · exact hge
        cases collect with
        | true =>
          have := hc1 rfl
          simp only [Bool.true_and, decide_eq_true_eq] at hnc
          omega
        | false =>
          have := hc2 rfl
          omega
      · apply Safe.bind (ih.bindNext _ _ _ _ _ _ _ hw hs ((hw.list hx).getElem? (by assumption)))
        intro names' σ1 hw1 he1 _
        exact ih.bindList _ _ _ _ _ _ _ _ _ _ hw1 (hs.mono he1) hlen' (hl.mono he1)

theorem safe_bindNext {n : Nat} (ih : SafeAll n) (σ : State) (sc : List Addr) (names : List (List Char)) (lhs : Expr) (rhs : SVal)
    (op : Option (BinaryOp × Loc)) (decl : Bool) (hw : WF σ) (hs : ScOK σ sc) (hr : SValOK σ rhs) :
    Safe Triv σ (bindNext (n + 1) σ sc names lhs rhs op decl) := by
  unfold bindNext
  obtain ⟨raw, loc⟩ := lhs
  cases raw
  case Var name => exact bindNextName_safe n _ _ _ _ _ hw hs hr
  case Index ex locat =>
    dsimp only []
    apply Safe.bind (ih.evalExpr _ _ _ hw hs); intro tgt σ1 hw1 he1 htgt
    have hs1 := hs.mono he1
    split
    · rename_i a heq
      have ha := htgt.1.list_tag heq
      apply Safe.bind (ih.evalToIndex _ _ _ hw1 hs1); intro i σ2 hw2 he2 _
      obtain ⟨items, hi⟩ := getList_of_tag (tag_mono ha he2)
      rw [hi]; dsimp only []
      split
      · exact Safe.errAt
      · apply Safe.bind (opAssignValue_safe n op hw2 ((hw2.list hi).getElem? (by assumption)) (hr.mono (he1.trans he2)))
        intro v σ3 hw3 he3 hv
        obtain ⟨items', hi'⟩ := getList_of_tag (tag_mono ha (he2.trans he3))
        rw [hi']; dsimp only []
        exact Safe.ok (set_list_wf hw3 hi' (listSet_ok (hw3.list hi') hv)) (set_ext_list hi' (listSet_length _ _ _)) trivial
    · rename_i a heq
      have ha := htgt.1.obj_tag heq
      apply Safe.bind (ih.evalToStr _ _ _ _ hw1 hs1); intro name σ2 hw2 he2 _
      exact ih.bindProp _ _ _ _ _ _ _ _ hw2 (tag_mono ha he2) (hr.mono (he1.trans he2))
    · exact Safe.errAt
  case RangeIndex ex start stop =>
    dsimp only []
    split
    · exact Safe.errAt
    · apply Safe.bind (ih.evalExpr _ _ _ hw hs); intro tgt σ1 hw1 he1 htgt
      have hs1 := hs.mono he1
      split
      · rename_i a heq
        have ha := htgt.1.list_tag heq
        split
        · rename_i b heqb
          obtain ⟨rhsItems, hb⟩ := getList_of_tag ((hr.mono he1).1.list_tag heqb)
          rw [hb]; dsimp only []
          exact ih.bindRangeIndex _ _ _ _ _ _ _ _ hw1 hs1 ha (hw1.list hb)
        · exact ih.bindRangeIndex _ _ _ _ _ _ _ _ hw1 hs1 ha (strItems_ok _ _)
        · exact Safe.errAt
      · exact Safe.errAt
  case «Prop» ex name typeProp =>
    dsimp only []
    split
    · exact Safe.errAt
    · apply Safe.bind (ih.evalExpr _ _ _ hw hs); intro tgt σ1 hw1 he1 htgt
      split
      · rename_i a heq
        exact ih.bindProp _ _ _ _ _ _ _ _ hw1 (htgt.1.obj_tag heq) (hr.mono he1)
      · exact Safe.errAt
  case Object props =>
    dsimp only []
    split
    · exact Safe.errAt
    · split
      · rename_i b heqb
        have hb := hr.1.obj_tag heqb
        obtain ⟨m, hm⟩ := getObj_of_tag hb
        rw [hm]; dsimp only []
        exact ih.bindObject _ _ _ _ _ _ _ _ _ hw hs hb
      · exact Safe.errAt
  case List items collect =>
    dsimp only []
    split
    · exact Safe.errAt
    · split
      · rename_i b heqb
        obtain ⟨rhsItems, hb⟩ := getList_of_tag (hr.1.list_tag heqb)
        rw [hb]; dsimp only []
        split
        · exact Safe.errAt
        split
        · exact Safe.errAt
        rename_i h1 h2
        refine ih.bindList _ _ _ _ _ _ _ _ _ _ hw hs (by simp) ⟨rhsItems, hb, ?_, ?_⟩
        · intro hc; subst hc
          simp only [Bool.true_and, decide_eq_true_eq] at h1
          omega
        · intro hc; subst hc
          simp only [Bool.not_false, Bool.true_and, decide_eq_true_eq] at h2
          omega
      · exact Safe.errAt
  all_goals (dsimp only [invalidBindDescr]; exact Safe.errAt)

end Seed
