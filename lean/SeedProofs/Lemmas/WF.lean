/-
  WF.lean — well-formed states (G4, part 1): every address stored in a value, a cell or a scope chain
  denotes a heap cell of the expected kind, and every object cell is strictly sorted by key (`Sorted`, C12).
  Definitions, monotonicity under heap extension, and the
  preservation lemmas for the state-changing primitives (`alloc`, `set`, `print`, `scopeDeclare`,
  `scopeAssign`).

  Everything here depends on a state only through `State.tagAt`, so monotonicity is proved once for the
  relation `TagLe` ("every tagged address keeps its tag") and instantiated for `HeapGrows` and `Ext`.
-/
import SeedProofs.Lemmas.Instances
import SeedProofs.Lemmas.C12Map
namespace Seed

/-! ### definitions -/

/-- the address inside a value denotes a cell of the kind the value claims -/
def ValOK (σ : State) : Val → Prop
  | .null => True
  | .bool _ => True
  | .int _ => True
  | .str _ => True
  | .list a => σ.tagAt a = some .list
  | .obj a => σ.tagAt a = some .obj
  | .builtin _ _ => True
  | .func a => σ.tagAt a = some .func

def SValOK (σ : State) (sv : SVal) : Prop := ValOK σ sv.v ∧ ∀ s, sv.src = some s → ValOK σ s

def ListOK (σ : State) (xs : List SVal) : Prop := ∀ x ∈ xs, SValOK σ x
def ObjOK (σ : State) (m : ObjMap) : Prop := ∀ kv ∈ m, SValOK σ kv.2
def ScopeMapOK (σ : State) (m : ScopeMap) : Prop := ∀ e ∈ m, SValOK σ e.2.1

/-- every address of the chain is a scope cell -/
def ScTags (σ : State) (sc : List Addr) : Prop := ∀ a ∈ sc, σ.tagAt a = some .scope
/-- a usable scope chain: non-empty, all scope cells -/
def ScOK (σ : State) (sc : List Addr) : Prop := sc ≠ [] ∧ ScTags σ sc

def CellOK (σ : State) : Cell → Prop
  | .list xs => ListOK σ xs
  | .obj m => ObjOK σ m ∧ Sorted m
  | .func f => ScOK σ f.closure
  | .scope m => ScopeMapOK σ m

/-- well-formed state: every cell only refers to cells of the right kind, and every object cell is strictly
    sorted by key (`Sorted`, the `BTreeMap` order) -/
def WF (σ : State) : Prop := ∀ (a : Addr) (cell : Cell), σ.heap[a]? = some cell → CellOK σ cell

/-- list cells keep their length -/
def LenStable (σ σ' : State) : Prop :=
  ∀ a xs, σ.getList a = some xs → ∃ ys, σ'.getList a = some ys ∧ ys.length = xs.length

/-- `σ'` extends `σ`: `HeapGrows` and, additionally, list cells keep their length -/
def Ext (σ σ' : State) : Prop := HeapGrows σ σ' ∧ LenStable σ σ'

/-- every tagged address keeps its tag -/
def TagLe (σ σ' : State) : Prop := ∀ a t, σ.tagAt a = some t → σ'.tagAt a = some t

/-! ### basic facts about `tagAt` and the getters -/

theorem tagAt_lt {σ : State} {a : Addr} {t : CellTag} (h : σ.tagAt a = some t) : a < σ.heap.size := by
  cases Nat.lt_or_ge a σ.heap.size with
  | inl hlt => exact hlt
  | inr hge =>
    have : σ.heap[a]? = none := by simp; omega
    simp [State.tagAt, this] at h

theorem tagAt_of_heap {σ : State} {a : Addr} {c : Cell} (h : σ.heap[a]? = some c) : σ.tagAt a = some c.tag := by
  simp [State.tagAt, h]

theorem getList_iff {σ : State} {a : Addr} {xs : List SVal} : σ.getList a = some xs ↔ σ.heap[a]? = some (.list xs) := by
  unfold State.getList
  constructor
  · intro h; split at h <;> simp_all
  · intro h; simp [h]

theorem getObj_iff {σ : State} {a : Addr} {m : ObjMap} : σ.getObj a = some m ↔ σ.heap[a]? = some (.obj m) := by
  unfold State.getObj
  constructor
  · intro h; split at h <;> simp_all
  · intro h; simp [h]

theorem getFunc_iff {σ : State} {a : Addr} {f : FuncRec} : σ.getFunc a = some f ↔ σ.heap[a]? = some (.func f) := by
  unfold State.getFunc
  constructor
  · intro h; split at h <;> simp_all
  · intro h; simp [h]

theorem getScope_iff {σ : State} {a : Addr} {m : ScopeMap} : σ.getScope a = some m ↔ σ.heap[a]? = some (.scope m) := by
  unfold State.getScope
  constructor
  · intro h; split at h <;> simp_all
  · intro h; simp [h]

theorem getFunc_tag {σ : State} {a : Addr} {f : FuncRec} (h : σ.getFunc a = some f) : σ.tagAt a = some .func :=
  tagAt_of_heap (getFunc_iff.1 h)

theorem getList_of_tag {σ : State} {a : Addr} (h : σ.tagAt a = some .list) : ∃ xs, σ.getList a = some xs := by
  unfold State.tagAt at h
  cases hc : σ.heap[a]? with
  | none => simp [hc] at h
  | some c =>
    cases c with
    | list xs => exact ⟨xs, getList_iff.2 hc⟩
    | obj m => simp [hc, Cell.tag] at h
    | func f => simp [hc, Cell.tag] at h
    | scope m => simp [hc, Cell.tag] at h

theorem getObj_of_tag {σ : State} {a : Addr} (h : σ.tagAt a = some .obj) : ∃ m, σ.getObj a = some m := by
  unfold State.tagAt at h
  cases hc : σ.heap[a]? with
  | none => simp [hc] at h
  | some c =>
    cases c with
    | list xs => simp [hc, Cell.tag] at h
    | obj m => exact ⟨m, getObj_iff.2 hc⟩
    | func f => simp [hc, Cell.tag] at h
    | scope m => simp [hc, Cell.tag] at h

theorem getFunc_of_tag {σ : State} {a : Addr} (h : σ.tagAt a = some .func) : ∃ f, σ.getFunc a = some f := by
  unfold State.tagAt at h
  cases hc : σ.heap[a]? with
  | none => simp [hc] at h
  | some c =>
    cases c with
    | list xs => simp [hc, Cell.tag] at h
    | obj m => simp [hc, Cell.tag] at h
    | func f => exact ⟨f, getFunc_iff.2 hc⟩
    | scope m => simp [hc, Cell.tag] at h

theorem getScope_of_tag {σ : State} {a : Addr} (h : σ.tagAt a = some .scope) : ∃ m, σ.getScope a = some m := by
  unfold State.tagAt at h
  cases hc : σ.heap[a]? with
  | none => simp [hc] at h
  | some c =>
    cases c with
    | list xs => simp [hc, Cell.tag] at h
    | obj m => simp [hc, Cell.tag] at h
    | func f => simp [hc, Cell.tag] at h
    | scope m => exact ⟨m, getScope_iff.2 hc⟩

/-- the "dangling address" branches of the evaluator are dead for OK values -/
theorem getList_ne_none {σ : State} {a : Addr} (h : σ.tagAt a = some .list) : σ.getList a ≠ none := by
  obtain ⟨xs, hx⟩ := getList_of_tag h; simp [hx]
theorem getObj_ne_none {σ : State} {a : Addr} (h : σ.tagAt a = some .obj) : σ.getObj a ≠ none := by
  obtain ⟨xs, hx⟩ := getObj_of_tag h; simp [hx]
theorem getFunc_ne_none {σ : State} {a : Addr} (h : σ.tagAt a = some .func) : σ.getFunc a ≠ none := by
  obtain ⟨xs, hx⟩ := getFunc_of_tag h; simp [hx]
theorem getScope_ne_none {σ : State} {a : Addr} (h : σ.tagAt a = some .scope) : σ.getScope a ≠ none := by
  obtain ⟨xs, hx⟩ := getScope_of_tag h; simp [hx]

/-! ### monotonicity -/

theorem TagLe.refl (σ : State) : TagLe σ σ := fun _ _ h => h
theorem TagLe.trans {a b c : State} (h1 : TagLe a b) (h2 : TagLe b c) : TagLe a c := fun x t h => h2 x t (h1 x t h)

theorem HeapGrows.tagLe {σ σ' : State} (h : HeapGrows σ σ') : TagLe σ σ' := by
  intro a t ha
  rw [h.2 a (tagAt_lt ha)]; exact ha

theorem Ext.tagLe {σ σ' : State} (h : Ext σ σ') : TagLe σ σ' := h.1.tagLe
theorem Ext.heapGrows {σ σ' : State} (h : Ext σ σ') : HeapGrows σ σ' := h.1

theorem ValOK.tagLe {σ σ' : State} {v : Val} (h : ValOK σ v) (ht : TagLe σ σ') : ValOK σ' v := by
  cases v <;> first | trivial | exact ht _ _ h

theorem SValOK.tagLe {σ σ' : State} {v : SVal} (h : SValOK σ v) (ht : TagLe σ σ') : SValOK σ' v :=
  ⟨h.1.tagLe ht, fun s hs => (h.2 s hs).tagLe ht⟩

theorem ListOK.tagLe {σ σ' : State} {xs : List SVal} (h : ListOK σ xs) (ht : TagLe σ σ') : ListOK σ' xs :=
  fun x hx => (h x hx).tagLe ht
theorem ObjOK.tagLe {σ σ' : State} {m : ObjMap} (h : ObjOK σ m) (ht : TagLe σ σ') : ObjOK σ' m :=
  fun x hx => (h x hx).tagLe ht
theorem ScopeMapOK.tagLe {σ σ' : State} {m : ScopeMap} (h : ScopeMapOK σ m) (ht : TagLe σ σ') : ScopeMapOK σ' m :=
  fun x hx => (h x hx).tagLe ht
theorem ScTags.tagLe {σ σ' : State} {sc : List Addr} (h : ScTags σ sc) (ht : TagLe σ σ') : ScTags σ' sc :=
  fun a ha => ht _ _ (h a ha)
theorem ScOK.tagLe {σ σ' : State} {sc : List Addr} (h : ScOK σ sc) (ht : TagLe σ σ') : ScOK σ' sc :=
  ⟨h.1, h.2.tagLe ht⟩
theorem CellOK.tagLe {σ σ' : State} {c : Cell} (h : CellOK σ c) (ht : TagLe σ σ') : CellOK σ' c := by
  cases c with
  | list xs => exact ListOK.tagLe h ht
  | obj m => exact ⟨ObjOK.tagLe h.1 ht, h.2⟩
  | func f => exact ScOK.tagLe h ht
  | scope m => exact ScopeMapOK.tagLe h ht

/-- the versions asked for: monotonicity under `HeapGrows` -/
theorem ValOK.mono_heapGrows {σ σ' : State} {v : Val} (h : ValOK σ v) (hg : HeapGrows σ σ') : ValOK σ' v := h.tagLe hg.tagLe
theorem SValOK.mono_heapGrows {σ σ' : State} {v : SVal} (h : SValOK σ v) (hg : HeapGrows σ σ') : SValOK σ' v := h.tagLe hg.tagLe
theorem ScOK.mono_heapGrows {σ σ' : State} {sc : List Addr} (h : ScOK σ sc) (hg : HeapGrows σ σ') : ScOK σ' sc := h.tagLe hg.tagLe

/-- and under `Ext` (the relation the evaluator proof threads) -/
theorem ValOK.mono {σ σ' : State} {v : Val} (h : ValOK σ v) (he : Ext σ σ') : ValOK σ' v := h.tagLe he.tagLe
theorem SValOK.mono {σ σ' : State} {v : SVal} (h : SValOK σ v) (he : Ext σ σ') : SValOK σ' v := h.tagLe he.tagLe
theorem ListOK.mono {σ σ' : State} {xs : List SVal} (h : ListOK σ xs) (he : Ext σ σ') : ListOK σ' xs := h.tagLe he.tagLe
theorem ObjOK.mono {σ σ' : State} {m : ObjMap} (h : ObjOK σ m) (he : Ext σ σ') : ObjOK σ' m := h.tagLe he.tagLe
theorem ScTags.mono {σ σ' : State} {sc : List Addr} (h : ScTags σ sc) (he : Ext σ σ') : ScTags σ' sc := h.tagLe he.tagLe
theorem ScOK.mono {σ σ' : State} {sc : List Addr} (h : ScOK σ sc) (he : Ext σ σ') : ScOK σ' sc := h.tagLe he.tagLe
theorem tag_mono {σ σ' : State} {a : Addr} {t : CellTag} (h : σ.tagAt a = some t) (he : Ext σ σ') : σ'.tagAt a = some t :=
  he.tagLe _ _ h

theorem Ext.refl (σ : State) : Ext σ σ := ⟨heapGrows_good.refl σ, fun _ xs h => ⟨xs, h, rfl⟩⟩

theorem Ext.trans {a b c : State} (h1 : Ext a b) (h2 : Ext b c) : Ext a c := by
  refine ⟨heapGrows_good.trans h1.1 h2.1, fun x xs hx => ?_⟩
  obtain ⟨ys, hy, hl⟩ := h1.2 x xs hx
  obtain ⟨zs, hz, hl'⟩ := h2.2 x ys hy
  exact ⟨zs, hz, hl'.trans hl⟩

theorem Ext.getList {σ σ' : State} {a : Addr} {xs : List SVal} (he : Ext σ σ') (h : σ.getList a = some xs) :
    ∃ ys, σ'.getList a = some ys ∧ ys.length = xs.length := he.2 a xs h

/-! ### reading from a well-formed state -/

theorem WF.list {σ : State} {a : Addr} {xs : List SVal} (h : WF σ) (hg : σ.getList a = some xs) : ListOK σ xs :=
  h a _ (getList_iff.1 hg)
theorem WF.obj {σ : State} {a : Addr} {m : ObjMap} (h : WF σ) (hg : σ.getObj a = some m) : ObjOK σ m :=
  (h a _ (getObj_iff.1 hg)).1
/-- every object cell of a well-formed state is strictly sorted by key -/
theorem WF.sorted {σ : State} {a : Addr} {m : ObjMap} (h : WF σ) (hg : σ.getObj a = some m) : Sorted m :=
  (h a _ (getObj_iff.1 hg)).2
theorem WF.func {σ : State} {a : Addr} {f : FuncRec} (h : WF σ) (hg : σ.getFunc a = some f) : ScOK σ f.closure :=
  h a _ (getFunc_iff.1 hg)
theorem WF.scope {σ : State} {a : Addr} {m : ScopeMap} (h : WF σ) (hg : σ.getScope a = some m) : ScopeMapOK σ m :=
  h a _ (getScope_iff.1 hg)

theorem wf_init : WF State.init := by
  intro a c h
  simp [State.init] at h

/-! ### small closure facts about values -/

theorem SValOK.plain {σ : State} {v : Val} (h : ValOK σ v) : SValOK σ (SVal.plain v) :=
  ⟨h, fun s hs => by simp [SVal.plain] at hs⟩

theorem SValOK.withSrc {σ : State} {v s : Val} (hv : ValOK σ v) (hs : ValOK σ s) : SValOK σ ⟨v, some s⟩ :=
  ⟨hv, fun s' h => by cases h; exact hs⟩

theorem ListOK.nil {σ : State} : ListOK σ [] := fun _ h => by cases h
theorem ListOK.cons {σ : State} {x : SVal} {xs : List SVal} (hx : SValOK σ x) (h : ListOK σ xs) : ListOK σ (x :: xs) := by
  intro y hy
  rcases List.mem_cons.1 hy with rfl | hy
  · exact hx
  · exact h y hy
theorem ListOK.append {σ : State} {xs ys : List SVal} (hx : ListOK σ xs) (hy : ListOK σ ys) : ListOK σ (xs ++ ys) := by
  intro y h
  rcases List.mem_append.1 h with h | h
  · exact hx y h
  · exact hy y h
theorem ListOK.take {σ : State} {xs : List SVal} (n : Nat) (hx : ListOK σ xs) : ListOK σ (xs.take n) :=
  fun y h => hx y (List.mem_of_mem_take h)
theorem ListOK.drop {σ : State} {xs : List SVal} (n : Nat) (hx : ListOK σ xs) : ListOK σ (xs.drop n) :=
  fun y h => hx y (List.mem_of_mem_drop h)
theorem ListOK.getElem? {σ : State} {xs : List SVal} {i : Nat} {v : SVal} (hx : ListOK σ xs) (h : xs[i]? = some v) : SValOK σ v :=
  hx v (List.mem_of_getElem? h)

theorem ObjOK.nil {σ : State} : ObjOK σ [] := fun _ h => by cases h

theorem objGet_ok {σ : State} {k : List Char} {m : ObjMap} {v : SVal} (hm : ObjOK σ m) (h : objGet k m = some v) : SValOK σ v := by
  induction m with
  | nil => simp [objGet] at h
  | cons kv r ih =>
    obtain ⟨k', v'⟩ := kv
    unfold objGet at h
    split at h
    · injection h with h; subst h; exact hm (k', v') (List.mem_cons_self)
    · exact ih (fun x hx => hm x (List.mem_cons_of_mem _ hx)) h

theorem objInsert_ok {σ : State} {k : List Char} {v : SVal} {m : ObjMap} (hm : ObjOK σ m) (hv : SValOK σ v) :
    ObjOK σ (objInsert k v m) := by
  induction m with
  | nil =>
    intro kv h
    simp [objInsert] at h; subst h; exact hv
  | cons kv r ih =>
    obtain ⟨k', v'⟩ := kv
    have hr : ObjOK σ r := fun x hx => hm x (List.mem_cons_of_mem _ hx)
    have hh : SValOK σ v' := hm (k', v') (List.mem_cons_self)
    unfold objInsert
    split
    · intro x hx
      rcases List.mem_cons.1 hx with rfl | hx
      · exact hv
      · exact hr x hx
    · split
      · intro x hx
        rcases List.mem_cons.1 hx with rfl | hx
        · exact hv
        · exact hm x hx
      · intro x hx
        rcases List.mem_cons.1 hx with rfl | hx
        · exact hh
        · exact ih hr x hx

theorem objInsert_foldl_ok {σ : State} (m : ObjMap) {acc : ObjMap} (hm : ObjOK σ m) (ha : ObjOK σ acc) :
    ObjOK σ (m.foldl (fun acc kv => objInsert kv.1 kv.2 acc) acc) := by
  induction m generalizing acc with
  | nil => exact ha
  | cons kv r ih =>
    simp only [List.foldl_cons]
    exact ih (fun x hx => hm x (List.mem_cons_of_mem _ hx)) (objInsert_ok ha (hm kv (List.mem_cons_self)))

theorem objInsert_foldl_sorted (m : ObjMap) {acc : ObjMap} (ha : Sorted acc) :
    Sorted (m.foldl (fun acc kv => objInsert kv.1 kv.2 acc) acc) := by
  induction m generalizing acc with
  | nil => exact ha
  | cons kv r ih =>
    simp only [List.foldl_cons]
    exact ih (objInsert_sorted ha)

theorem ObjOK.filter {σ : State} {m : ObjMap} (p : List Char × SVal → Bool) (hm : ObjOK σ m) : ObjOK σ (m.filter p) :=
  fun x hx => hm x (List.mem_filter.1 hx).1

theorem scopeLookup_ok {σ : State} {k : List Char} {m : ScopeMap} {v : SVal} {l : Loc} (hm : ScopeMapOK σ m)
    (h : scopeLookup k m = some (v, l)) : SValOK σ v := by
  induction m with
  | nil => simp [scopeLookup] at h
  | cons e r ih =>
    obtain ⟨k', v', l'⟩ := e
    unfold scopeLookup at h
    split at h
    · injection h with h; injection h with h1 h2
      rw [← h1]; exact hm (k', v', l') (List.mem_cons_self)
    · exact ih (fun x hx => hm x (List.mem_cons_of_mem _ hx)) h

theorem scopeSetVal_ok {σ : State} {k : List Char} {v : SVal} {m : ScopeMap} (hm : ScopeMapOK σ m) (hv : SValOK σ v) :
    ScopeMapOK σ (scopeSetVal k v m) := by
  induction m with
  | nil => exact hm
  | cons e r ih =>
    obtain ⟨k', v', l'⟩ := e
    have hr : ScopeMapOK σ r := fun x hx => hm x (List.mem_cons_of_mem _ hx)
    unfold scopeSetVal
    split
    · intro x hx
      rcases List.mem_cons.1 hx with rfl | hx
      · exact hv
      · exact hr x hx
    · intro x hx
      rcases List.mem_cons.1 hx with hx | hx
      · subst hx; exact hm (k', v', l') (List.mem_cons_self)
      · exact ih hr x hx

theorem scopeGet_ok {σ : State} {sc : List Addr} {k : List Char} {v : SVal} (hw : WF σ) (h : scopeGet σ sc k = some v) :
    SValOK σ v := by
  induction sc with
  | nil => simp [scopeGet] at h
  | cons a r ih =>
    unfold scopeGet at h
    split at h
    · simp at h
    · rename_i m hm
      split at h
      · rename_i v' l hl
        injection h with h; subst h
        exact scopeLookup_ok (hw.scope hm) hl
      · exact ih h

/-! ### the state-changing primitives -/

theorem alloc_heap_self (σ : State) (c : Cell) : (σ.alloc c).2.heap[(σ.alloc c).1]? = some c := by
  show (σ.heap.push c)[σ.heap.size]? = some c
  simp

theorem alloc_tag (σ : State) (c : Cell) : (σ.alloc c).2.tagAt (σ.alloc c).1 = some c.tag :=
  tagAt_of_heap (alloc_heap_self σ c)

theorem alloc_ext (σ : State) (c : Cell) : Ext σ (σ.alloc c).2 := by
  refine ⟨heapGrows_good.alloc σ c, fun a xs h => ⟨xs, ?_, rfl⟩⟩
  have hlt : a < σ.heap.size := tagAt_lt (getList_tag h)
  rw [getList_iff] at h ⊢
  rw [alloc_heap_lt σ c hlt]; exact h

theorem alloc_wf {σ : State} {c : Cell} (hw : WF σ) (hc : CellOK σ c) : WF (σ.alloc c).2 := by
  intro a cell h
  have ht : TagLe σ (σ.alloc c).2 := (alloc_ext σ c).tagLe
  have hp : (σ.alloc c).2.heap[a]? = if a = σ.heap.size then some c else σ.heap[a]? := by
    show (σ.heap.push c)[a]? = _
    exact Array.getElem?_push
  rw [hp] at h
  split at h
  · injection h with h; subst h; exact hc.tagLe ht
  · exact (hw a cell h).tagLe ht

/-- the form used after `split` on `let (a, σ') := σ.alloc c` -/
theorem alloc_spec {σ σ' : State} {c : Cell} {a : Addr} (he : σ.alloc c = (a, σ')) (hw : WF σ) (hc : CellOK σ c) :
    WF σ' ∧ Ext σ σ' ∧ σ'.tagAt a = some c.tag := by
  have h1 : σ' = (σ.alloc c).2 := by rw [he]
  have h2 : a = (σ.alloc c).1 := by rw [he]
  subst h1; subst h2
  exact ⟨alloc_wf hw hc, alloc_ext σ c, alloc_tag σ c⟩

theorem heap_set (σ : State) (a b : Addr) (c : Cell) :
    (σ.set a c).heap[b]? = if a = b then (if a < σ.heap.size then some c else none) else σ.heap[b]? := by
  unfold State.set
  simp only [Array.getElem?_setIfInBounds]

theorem set_tagLe {σ : State} {a : Addr} {c : Cell} (ht : σ.tagAt a = some c.tag) : TagLe σ (σ.set a c) := by
  intro b t hb
  rw [tagAt_set_same σ a c ht b]; exact hb

theorem set_wf {σ : State} {a : Addr} {c : Cell} (hw : WF σ) (ht : σ.tagAt a = some c.tag) (hc : CellOK σ c) :
    WF (σ.set a c) := by
  intro b cell h
  rw [heap_set] at h
  split at h
  · split at h
    · injection h with h; subst h; exact hc.tagLe (set_tagLe ht)
    · cases h
  · exact (hw b cell h).tagLe (set_tagLe ht)

theorem set_heapGrows {σ : State} {a : Addr} {c : Cell} (ht : σ.tagAt a = some c.tag) : HeapGrows σ (σ.set a c) :=
  ⟨by rw [set_size]; exact Nat.le_refl _, fun b _ => tagAt_set_same σ a c ht b⟩

theorem set_ext_list {σ : State} {a : Addr} {xs ys : List SVal} (hg : σ.getList a = some xs) (hl : ys.length = xs.length) :
    Ext σ (σ.set a (.list ys)) := by
  refine ⟨set_heapGrows (getList_tag hg), fun b zs hb => ?_⟩
  by_cases hab : a = b
  · subst hab
    rw [hg] at hb; injection hb with hb; subst hb
    refine ⟨ys, ?_, hl⟩
    rw [getList_iff, heap_set]
    simp [tagAt_lt (getList_tag hg)]
  · refine ⟨zs, ?_, rfl⟩
    rw [getList_iff] at hb ⊢
    rw [heap_set]; simp [hab, hb]

theorem set_ext_other {σ : State} {a : Addr} {c : Cell} (ht : σ.tagAt a = some c.tag) (hn : c.tag ≠ .list) :
    Ext σ (σ.set a c) := by
  refine ⟨set_heapGrows ht, fun b zs hb => ⟨zs, ?_, rfl⟩⟩
  have hab : a ≠ b := by
    intro hab; subst hab
    rw [getList_tag hb] at ht
    injection ht with ht; exact hn ht.symm
  rw [getList_iff] at hb ⊢
  rw [heap_set]; simp [hab, hb]

theorem set_ext_obj {σ : State} {a : Addr} {m : ObjMap} (m' : ObjMap) (hg : σ.getObj a = some m) : Ext σ (σ.set a (.obj m')) :=
  set_ext_other (c := .obj m') (getObj_tag hg) (by simp [Cell.tag])

theorem set_ext_scope {σ : State} {a : Addr} {m : ScopeMap} (m' : ScopeMap) (hg : σ.getScope a = some m) :
    Ext σ (σ.set a (.scope m')) :=
  set_ext_other (c := .scope m') (getScope_tag hg) (by simp [Cell.tag])

theorem set_list_wf {σ : State} {a : Addr} {xs ys : List SVal} (hw : WF σ) (hg : σ.getList a = some xs) (hy : ListOK σ ys) :
    WF (σ.set a (.list ys)) := set_wf (c := .list ys) hw (getList_tag hg) hy
theorem set_obj_wf {σ : State} {a : Addr} {m m' : ObjMap} (hw : WF σ) (hg : σ.getObj a = some m) (hy : ObjOK σ m')
    (hs : Sorted m') : WF (σ.set a (.obj m')) := set_wf (c := .obj m') hw (getObj_tag hg) ⟨hy, hs⟩
theorem set_scope_wf {σ : State} {a : Addr} {m m' : ScopeMap} (hw : WF σ) (hg : σ.getScope a = some m) (hy : ScopeMapOK σ m') :
    WF (σ.set a (.scope m')) := set_wf (c := .scope m') hw (getScope_tag hg) hy

theorem print_wf {σ : State} (l : List Char) (hw : WF σ) : WF (σ.print l) := hw
theorem print_ext (σ : State) (l : List Char) : Ext σ (σ.print l) := ⟨heapGrows_good.print σ l, fun _ xs h => ⟨xs, h, rfl⟩⟩

theorem scopeAssign_spec {σ σ' : State} {sc : List Addr} {k : List Char} {v : SVal} (hw : WF σ) (hv : SValOK σ v)
    (he : scopeAssign σ sc k v = some σ') : WF σ' ∧ Ext σ σ' := by
  induction sc with
  | nil => simp [scopeAssign] at he
  | cons a r ih =>
    unfold scopeAssign at he
    split at he
    · simp at he
    · rename_i m hm
      split at he
      · injection he with he; subst he
        exact ⟨set_scope_wf hw hm (scopeSetVal_ok (hw.scope hm) hv), set_ext_scope _ hm⟩
      · exact ih he

theorem scopeDeclare_spec {σ σ' : State} {sc : List Addr} {k : List Char} {loc : Loc} {v : SVal} (hw : WF σ) (hv : SValOK σ v)
    (he : scopeDeclare σ sc k loc v = .ok σ') : WF σ' ∧ Ext σ σ' := by
  unfold scopeDeclare at he
  split at he
  · simp at he
  · split at he
    · simp at he
    · rename_i m hm
      split at he
      · simp at he
      · injection he with he; subst he
        refine ⟨set_scope_wf hw hm ?_, set_ext_scope _ hm⟩
        intro e hx
        rcases List.mem_cons.1 hx with rfl | hx
        · exact hv
        · exact hw.scope hm e hx

theorem scopeDeclare_ne_bad {σ : State} {sc : List Addr} (k : List Char) (loc : Loc) (v : SVal) (hs : ScOK σ sc) :
    scopeDeclare σ sc k loc v ≠ .bad := by
  unfold scopeDeclare
  split
  · exact absurd rfl hs.1
  · rename_i a r
    split
    · rename_i hn
      exact absurd hn (getScope_ne_none (hs.2 a (List.mem_cons_self)))
    · split <;> simp

/-! ### list updates keep length and OK-ness -/

theorem listSet_length {α} (xs : List α) (i : Nat) (v : α) : (listSet xs i v).length = xs.length := by
  induction xs generalizing i with
  | nil => rfl
  | cons x r ih =>
    cases i with
    | zero => rfl
    | succ i => simp [listSet, ih]

theorem listSet_ok {σ : State} {xs : List SVal} {i : Nat} {v : SVal} (hx : ListOK σ xs) (hv : SValOK σ v) :
    ListOK σ (listSet xs i v) := by
  induction xs generalizing i with
  | nil => exact hx
  | cons x r ih =>
    have hr : ListOK σ r := fun y hy => hx y (List.mem_cons_of_mem _ hy)
    cases i with
    | zero => exact ListOK.cons hv hr
    | succ i => exact ListOK.cons (hx x (List.mem_cons_self)) (ih hr)

theorem listSplice_length {α} (xs : List α) (lo hi : Nat) (vals : List α) (h1 : lo < hi) (h2 : hi ≤ xs.length)
    (h3 : hi - lo = vals.length) : (listSplice xs lo vals).length = xs.length := by
  unfold listSplice
  simp only [List.length_append, List.length_take, List.length_drop]
  omega

theorem listSplice_ok {σ : State} {xs vals : List SVal} (lo : Nat) (hx : ListOK σ xs) (hv : ListOK σ vals) :
    ListOK σ (listSplice xs lo vals) :=
  ListOK.append (ListOK.append (hx.take _) hv) (hx.drop _)

end Seed

