/-
  Lemmas/C17LineBound3.lean — C17: **the line of every position of a run-time diagnostic lies in the source, for every
  program, interpolation slots included** (`diag_line_in_source`; C17.lean has the `_partial` form for `NoSlots`).

  Why the bound `l.1 ≤ 1 + src.count '\n'` survives slots although the positions inside a slot are relative to the slot
  text (line 1 = first line of the slot text; known findings K2/K4) and although the decoded literal can have more line
  feeds than the source (escape `\n`):

  * the lexer copies the inside of a slot verbatim, so a slot's text is a contiguous piece of the text the literal was
    lexed from (C17LineBound.lean, `lexAll_slotsIn`);
  * every interpolated literal of a parsed tree is a token of the parsed text (C17LineBound2.lean, `strAll`);
  * hence, by induction over `ProgMark` (the marks reachable by run-time slot parsing, C18EvalPosProg.lean): the text of
    every slot that is ever parsed at run time — at any nesting depth — is a contiguous piece of `src`, and every position
    is a token start of `src` or of such a piece `t`, whose line is at most `1 + t.count '\n' ≤ 1 + src.count '\n'`.
-/
import SeedProofs.Lemmas.C17LineBound2
namespace Seed

/-! ## plain forms of the parser theorem -/

theorem parseStmts_str {n : Nat} {c : Bool} {ts rest : List Span} {stmts : List Stmt}
    (h : parseStmts n c [] ts = .ok stmts rest) : ∀ st, st ∈ stmts → StmtStrOK ts st :=
  (((strAll ts n).parseStmts c [] ts (Suf.refl ts) all_nil).elim h).2

theorem parseExpr_str {n : Nat} {s : Bool} {ts rest : List Span} {e : Expr} (h : parseExpr n s ts = .ok e rest) :
    StrOK ts e :=
  (((strAll ts n).parseExpr s ts (Suf.refl ts)).elim h).2

/-- **`str_tok`.**  every interpolated string literal of the syntax tree of a program is (the payload of) a token of
    the program's token stream -/
theorem str_tok {src : List Char} {stmts : List Stmt} (h : parseProg src = .ok stmts) :
    ∀ st, st ∈ stmts → StmtStrOK (lexAll src).1 st := by
  unfold parseProg at h
  generalize lexAll src = p at h ⊢
  obtain ⟨ts, le⟩ := p
  simp only at h
  cases hp : parseStmts (parseFuel ts) false [] ts with
  | timeout => rw [hp] at h; cases h
  | err e => rw [hp] at h; cases h
  | ok a rest =>
    rw [hp] at h
    cases le with
    | some e => cases h
    | none =>
      simp only [Front.ok.injEq] at h
      subst h
      exact parseStmts_str hp

/-- the same for the expression entry point (interpolation slots) -/
theorem str_tok_expr {src : List Char} {e : Expr} (h : parseExprTop src = .ok e) : StrOK (lexAll src).1 e := by
  unfold parseExprTop at h
  generalize lexAll src = p at h ⊢
  obtain ⟨ts, le⟩ := p
  simp only at h
  cases hp : parseExpr (parseFuel ts) false ts with
  | timeout => rw [hp] at h; cases h
  | err e => rw [hp] at h; cases h
  | ok a rest =>
    rw [hp] at h
    cases rest with
    | cons sp r => cases h
    | nil =>
      cases le with
      | some e => cases h
      | none =>
        simp only [Front.ok.injEq] at h
        subst h
        exact parseExpr_str hp

/-- the hypotheses are satisfiable: a slot text as `interpolate` would parse it, with a literal inside -/
example : ∃ e, parseExprTop c!"f($\"a${x}\") + 1" = .ok e ∧ StrOK (lexAll c!"f($\"a${x}\") + 1").1 e :=
  ⟨_, rfl, str_tok_expr rfl⟩

/-! ## from the tree predicate to marks -/

/-- `str` marks are tokens of `T` (nothing is said about `loc` marks) -/
def StrM (T : List Span) : Mark → Prop
  | .loc _ => True
  | .str s slots _ => StrTok T s slots

mutual
theorem RawStrOK.marks {T : List Span} : ∀ {r : RawExpr}, RawStrOK T r → Marked (StrM T) r.marks
  | _, .null => marked_nil
  | _, .bool => marked_nil
  | _, .int => marked_nil
  | _, .strPlain => marked_nil
  | _, .strInterp _ => marked_nil
  | _, .var => marked_nil
  | _, .binop hl hr => by
    simp only [RawExpr.marks, marked_cons, marked_append]; exact ⟨True.intro, hl.marks, hr.marks⟩
  | _, .list h => by
    simp only [RawExpr.marks]; exact marked_itemsL fun x hx => (h x hx).marks
  | _, .index he hi => by
    simp only [RawExpr.marks, marked_append]; exact ⟨he.marks, hi.marks⟩
  | _, .rangeIndex he ha hb => by
    simp only [RawExpr.marks, marked_append]
    exact ⟨he.marks, marked_optE fun x hx => (ha x hx).marks, marked_optE fun x hx => (hb x hx).marks⟩
  | _, .range ha hb => by
    simp only [RawExpr.marks, marked_append]; exact ⟨ha.marks, hb.marks⟩
  | _, .object h => by
    simp only [RawExpr.marks]; exact marked_propsL fun x hx => (h x hx).marks
  | _, .prop he => by
    simp only [RawExpr.marks]; exact he.marks
  | _, .func ha hs => by
    simp only [RawExpr.marks, marked_append]
    exact ⟨marked_exprsL fun x hx => (ha x hx).marks, marked_stmtsL fun x hx => (hs x hx).marks⟩
  | _, .call hf ha => by
    simp only [RawExpr.marks, marked_append]
    exact ⟨hf.marks, marked_itemsL fun x hx => (ha x hx).marks⟩
theorem StrOK.marks {T : List Span} : ∀ {e : Expr}, StrOK T e → Marked (StrM T) e.marks
  | .mk raw l, .mk hr => by
    simp only [Expr.marks, marked_cons, marked_append]
    refine ⟨True.intro, ?_, hr.marks⟩
    intro m hm
    cases hr <;> simp [RawExpr.strMark] at hm
    subst hm; assumption
theorem ItemStrOK.marks {T : List Span} : ∀ {e : ListItem}, ItemStrOK T e → Marked (StrM T) e.marks
  | _, .mk h => by simp only [ListItem.marks]; exact h.marks
theorem PropStrOK.marks {T : List Span} : ∀ {e : PropItem}, PropStrOK T e → Marked (StrM T) e.marks
  | _, .pair hn hv => by simp only [PropItem.marks, marked_append]; exact ⟨hn.marks, hv.marks⟩
  | _, .single h => by simp only [PropItem.marks]; exact h.marks
theorem StmtStrOK.marks {T : List Span} : ∀ {s : Stmt}, StmtStrOK T s → Marked (StrM T) s.marks
  | _, .block h => by simp only [Stmt.marks]; exact marked_stmtsL fun x hx => (h x hx).marks
  | _, .expr h => by simp only [Stmt.marks]; exact h.marks
  | _, .declare hl hr => by simp only [Stmt.marks, marked_append]; exact ⟨hl.marks, hr.marks⟩
  | _, .assign hl hr => by simp only [Stmt.marks, marked_append]; exact ⟨hl.marks, hr.marks⟩
  | _, .opAssign hl hr => by simp only [Stmt.marks, marked_cons, marked_append]; exact ⟨True.intro, hl.marks, hr.marks⟩
  | .If bs els, .ifs hb he => by
    simp only [Stmt.marks, marked_append]
    exact ⟨marked_branchesL fun x hx => (hb x hx).marks, marked_stmtsLO fun s hs x hx => (he s hs x hx).marks⟩
  | _, .whiles hc hs => by
    simp only [Stmt.marks, marked_append]; exact ⟨hc.marks, marked_stmtsL fun x hx => (hs x hx).marks⟩
  | _, .fors hl hi hs => by
    simp only [Stmt.marks, marked_append]; exact ⟨hl.marks, hi.marks, marked_stmtsL fun x hx => (hs x hx).marks⟩
  | _, .brk => by simp only [Stmt.marks, marked_cons]; exact ⟨True.intro, marked_nil⟩
  | _, .cont => by simp only [Stmt.marks, marked_cons]; exact ⟨True.intro, marked_nil⟩
  | _, .func ha hs => by
    simp only [Stmt.marks, marked_cons, marked_append]
    exact ⟨True.intro, marked_exprsL fun x hx => (ha x hx).marks, marked_stmtsL fun x hx => (hs x hx).marks⟩
  | _, .ret he => by simp only [Stmt.marks, marked_cons]; exact ⟨True.intro, he.marks⟩
theorem BranchStrOK.marks {T : List Span} : ∀ {b : Branch}, BranchStrOK T b → Marked (StrM T) b.marks
  | _, .mk hc hs => by
    simp only [Branch.marks, marked_append]; exact ⟨hc.marks, marked_stmtsL fun x hx => (hs x hx).marks⟩
end

/-! ## the slot texts of a parsed tree are pieces of the parsed text -/

/-- the text of every slot of the literal is a contiguous piece of `src` (nothing is said about `loc` marks) -/
def SlotsM (src : List Char) : Mark → Prop
  | .loc _ => True
  | .str s slots _ => ∀ sl, sl ∈ slots → slotText s sl <:+: src

theorem strM_slotsM {src : List Char} {m : Mark} (h : StrM (lexAll src).1 m) : SlotsM src m := by
  cases m with
  | loc l => exact True.intro
  | str s slots l =>
    obtain ⟨sp, hm, ht⟩ := h
    have := lexAll_slotsIn hm
    rw [ht] at this
    exact this

/-- **every slot of every interpolated literal of a parsed program is a contiguous piece of the source** (function
    bodies, parameter patterns, property names … included) -/
theorem parseProg_strs {src : List Char} {stmts : List Stmt} (h : parseProg src = .ok stmts) :
    Marked (SlotsM src) (Stmt.marksL stmts) :=
  (marked_stmtsL fun x hx => (str_tok h x hx).marks).mono fun _ => strM_slotsM

/-- … and every slot of every literal of an expression parsed at run time is a contiguous piece of the text it was
    parsed from -/
theorem parseExprTop_strs {src : List Char} {e : Expr} (h : parseExprTop src = .ok e) : Marked (SlotsM src) e.marks :=
  (str_tok_expr h).marks.mono fun _ => strM_slotsM

/-! ## the induction over the marks reachable at run time -/

theorem infix_count_le {t src : List Char} (h : t <:+: src) (c : Char) : t.count c ≤ src.count c :=
  h.sublist.count_le c

/-- a token start of a contiguous piece of `src` has a line of `src` -/
theorem TokStart.line_of_infix {t src : List Char} {l : Loc} (ht : t <:+: src) (h : TokStart t l) :
    1 ≤ l.1 ∧ l.1 ≤ 1 + src.count '\n' := by
  have h1 := h.line
  have h2 := infix_count_le ht '\n'
  omega

/-- what holds of every mark reachable from a parsed program: its line is a line of the source, and (for a literal)
    its slot texts are contiguous pieces of the source -/
def LineM (src : List Char) (m : Mark) : Prop :=
  (1 ≤ m.pos.1 ∧ m.pos.1 ≤ 1 + src.count '\n') ∧ SlotsM src m

/-- **the invariant of run-time slot parsing** -/
theorem progMark_lineM {src : List Char} {stmts : List Stmt} (hp : parseProg src = .ok stmts) {m : Mark}
    (hm : ProgMark stmts m) : LineM src m := by
  induction hm with
  | tree hm => exact ⟨(locOK_tokStart (parseProg_marks hp _ hm)).line, parseProg_strs hp _ hm⟩
  | slotCol _ _ ih => exact ⟨ih.1, True.intro⟩
  | @slotAst s slots loc sl ast m _ hsl hpe hmem ih =>
    have hpiece : slotText s sl <:+: src := ih.2 sl hsl
    refine ⟨(locOK_tokStart (parseExprTop_marks hpe _ hmem)).line_of_infix hpiece, ?_⟩
    have := parseExprTop_strs hpe _ hmem
    cases m with
    | loc l => exact True.intro
    | str s' slots' l' => exact fun sl' hsl' => (this sl' hsl').trans hpiece

/-- every slot text that `interpolate` can ever hand to `parseExprTop` while the program runs — slots of literals of the
    tree, slots of literals inside slot texts, and so on — is a contiguous piece of the source; in particular it has no
    more line feeds than the source -/
theorem progMark_slot_piece {src : List Char} {stmts : List Stmt} (hp : parseProg src = .ok stmts) {s : List Char}
    {slots : List (Nat × Nat)} {loc : Loc} (hm : ProgMark stmts (.str s slots loc)) {sl : Nat × Nat} (hsl : sl ∈ slots) :
    slotText s sl <:+: src ∧ (slotText s sl).count '\n' ≤ src.count '\n' :=
  ⟨(progMark_lineM hp hm).2 sl hsl, infix_count_le ((progMark_lineM hp hm).2 sl hsl) '\n'⟩

/-! ## the headline theorem -/

/-- **`diag_line_in_source`** (full statement of C17's `diag_line_in_source_partial`: no `NoSlots` hypothesis).  a
    source that parses and fails at run time: every position in the error — the `line:col` of every `atLoc` node, the
    call position of every call frame, at any depth, positions produced inside interpolation slots (at any nesting
    depth) included — has a line between 1 and the number of lines of the source (a position in the leaf's payload has
    such a line or is the `0:0` of the built-in `print`) -/
theorem diag_line_in_source {src : List Char} {stmts : List Stmt} {n : Nat} {e : Err} {σ : State}
    (hp : parseProg src = .ok stmts) (h : evalProg n stmts = .err e σ) :
    e.AllPos (fun l => 1 ≤ l.1 ∧ l.1 ≤ 1 + src.count '\n') :=
  (eval_uses_node_pos h).mono fun _ hl => (progMark_lineM hp hl).1

/-- non-vacuity, with nested slots: the outer literal is on line 1, its slot text starts with a line feed, the inner
    literal (line 2 *of the outer slot text*) has three escaped line feeds before its slot, whose text has two raw line
    feeds, and the undefined `y` is on line 3 *of the inner slot text*.  The source has 4 lines. -/
example : ∃ stmts e σ, parseProg c!"print($\"${\n$\"\\n\\n\\n${\n\ny}\"}\");" = .ok stmts ∧ ¬ NoSlots stmts ∧
    evalProg 60 stmts = .err e σ ∧ e.positions = [(1, 11), (2, 8), (3, 1)] ∧
    1 + (c!"print($\"${\n$\"\\n\\n\\n${\n\ny}\"}\");").count '\n' = 4 := by
  obtain ⟨e, σ, he, hpos⟩ := errOf_map (n := 60) (stmts := progOf c!"print($\"${\n$\"\\n\\n\\n${\n\ny}\"}\");")
    (f := Err.positions) (x := [(1, 11), (2, 8), (3, 1)]) (by decide +kernel)
  exact ⟨_, e, σ, parseProg_progOf (by decide +kernel), by decide +kernel, he, hpos, by decide +kernel⟩

/-- the position the diagnostic line starts with has a line of the source -/
theorem diag_head_line_in_source {src : List Char} {stmts : List Stmt} {n : Nat} {e : Err} {σ : State} {l : Loc}
    (hp : parseProg src = .ok stmts) (h : evalProg n stmts = .err e σ) (hl : e.headPos = some l) :
    1 ≤ l.1 ∧ l.1 ≤ 1 + src.count '\n' :=
  (diag_line_in_source hp h).headPos hl

example : ∃ stmts e σ, parseProg c!"x := 1;\nprint($\"a\\n\\n${\n\nx + y}\");" = .ok stmts ∧
    evalProg 60 stmts = .err e σ ∧ e.headPos = some (2, 14) := by
  obtain ⟨e, σ, he, hpos⟩ := errOf_map (n := 60) (stmts := progOf c!"x := 1;\nprint($\"a\\n\\n${\n\nx + y}\");")
    (f := Err.headPos) (x := some (2, 14)) (by decide +kernel)
  exact ⟨_, e, σ, parseProg_progOf (by decide +kernel), he, hpos⟩

/-- the bound is about the *source*, not about the decoded literal: a literal whose decoded text has four line feeds on
    a one-line source; the failure inside its slot is still reported on line 1 -/
example : ∃ stmts e σ, parseProg c!"print($\"a\\n\\n\\n\\n${x}\");" = .ok stmts ∧
    evalProg 60 stmts = .err e σ ∧ e.positions = [(1, 16), (1, 1)] ∧
    (c!"print($\"a\\n\\n\\n\\n${x}\");").count '\n' = 0 ∧
    (Stmt.strsL stmts).map (fun x => x.1.count '\n') = [4] := by
  obtain ⟨e, σ, he, hpos⟩ := errOf_map (n := 60) (stmts := progOf c!"print($\"a\\n\\n\\n\\n${x}\");")
    (f := Err.positions) (x := [(1, 16), (1, 1)]) (by decide +kernel)
  exact ⟨_, e, σ, parseProg_progOf (by decide +kernel), he, hpos, by decide +kernel, by decide +kernel⟩

end Seed
