/-
  Lemmas/C04Rename.lean — renaming of the keys of scope cells, and equivariance of the scope layer and of
  `bindNextName` under an injective renaming.
-/
import SeedProofs.Lemmas.C04Scope
namespace Seed
namespace Ren
open ScopeL
open Gen (Leaf)

def map (π : List Char → List Char) (m : ScopeMap) : ScopeMap := List.map (fun p => (π p.1, p.2.1, p.2.2)) m

def cell (π : List Char → List Char) : Cell → Cell
  | .scope m => .scope (map π m)
  | .list xs => .list xs
  | .obj m => .obj m
  | .func f => .func f

def state (π : List Char → List Char) (σ : State) : State := { σ with heap := σ.heap.map (cell π) }

def decl (π : List Char → List Char) : DeclRes → DeclRes
  | .ok σ => .ok (state π σ)
  | .dup p => .dup p
  | .bad => .bad

/-- the diagnostics that mention a variable name -/
def leaf (π : List Char → List Char) : Leaf → Leaf
  | .Undefined n => .Undefined (π n)
  | .AlreadyInBinding n => .AlreadyInBinding (π n)
  | .AlreadyInScope n l c => .AlreadyInScope (π n) l c
  | l => l

def err (π : List Char → List Char) : Err → Err
  | .leaf l => .leaf (leaf π l)
  | .atLoc l c e => .atLoc l c (err π e)
  | .funcCall n cl e => .funcCall n cl (err π e)
  | .builtinCall n cl e => .builtinCall n cl (err π e)

def res (π : List Char → List Char) : Res (List (List Char)) → Res (List (List Char))
  | .ok ns σ => .ok (ns.map π) (state π σ)
  | .err e σ => .err (err π e) (state π σ)
  | .crash w σ => .crash w (state π σ)
  | .timeout => .timeout

variable (π : List Char → List Char)

theorem getScope_state (σ : State) (a : Addr) : (state π σ).getScope a = (σ.getScope a).map (map π) := by
  unfold State.getScope state
  simp only [Array.getElem?_map]
  cases σ.heap[a]? with
  | none => rfl
  | some c => cases c <;> rfl

theorem state_set (σ : State) (a : Addr) (c : Cell) : state π (σ.set a c) = (state π σ).set a (cell π c) := by
  unfold state State.set
  simp [Array.map_setIfInBounds]

theorem lookup_map (hπ : ∀ a b, π a = π b → a = b) (k : List Char) :
    ∀ m : ScopeMap, scopeLookup (π k) (map π m) = scopeLookup k m
  | [] => rfl
  | (k', v, l) :: r => by
    unfold map; rw [List.map_cons]
    unfold scopeLookup
    by_cases hk : k = k'
    · subst hk; simp only [if_true]
    · have : π k ≠ π k' := fun e => hk (hπ _ _ e)
      simp only [hk, this, if_false]
      exact lookup_map hπ k r

theorem setVal_map (hπ : ∀ a b, π a = π b → a = b) (k : List Char) (v : SVal) :
    ∀ m : ScopeMap, scopeSetVal (π k) v (map π m) = map π (scopeSetVal k v m)
  | [] => rfl
  | (k', v', l) :: r => by
    unfold map; rw [List.map_cons]
    unfold scopeSetVal
    by_cases hk : k = k'
    · subst hk; simp only [if_true, List.map_cons]
    · have : π k ≠ π k' := fun e => hk (hπ _ _ e)
      simp only [hk, this, if_false, List.map_cons]
      congr 1
      exact setVal_map hπ k v r

theorem scopeGet_ren (hπ : ∀ a b, π a = π b → a = b) (σ : State) (sc : List Addr) (x : List Char) :
    scopeGet (state π σ) sc (π x) = scopeGet σ sc x := by
  induction sc with
  | nil => rfl
  | cons a r ih =>
    rw [scopeGet_cons, scopeGet_cons, getScope_state]
    cases σ.getScope a with
    | none => rfl
    | some m =>
      simp only [Option.map, lookup_map π hπ]
      cases scopeLookup x m with
      | none => exact ih
      | some p => rfl

theorem scopeAssign_ren (hπ : ∀ a b, π a = π b → a = b) (σ : State) (sc : List Addr) (x : List Char) (v : SVal) :
    scopeAssign (state π σ) sc (π x) v = (scopeAssign σ sc x v).map (state π) := by
  induction sc with
  | nil => rfl
  | cons a r ih =>
    rw [scopeAssign_cons, scopeAssign_cons, getScope_state]
    cases σ.getScope a with
    | none => rfl
    | some m =>
      simp only [Option.map, lookup_map π hπ]
      cases scopeLookup x m with
      | none => exact ih
      | some p => simp only [state_set, cell, setVal_map π hπ]

theorem scopeDeclare_ren (hπ : ∀ a b, π a = π b → a = b) (σ : State) (sc : List Addr) (x : List Char) (loc : Loc) (v : SVal) :
    scopeDeclare (state π σ) sc (π x) loc v = decl π (scopeDeclare σ sc x loc v) := by
  cases sc with
  | nil => rfl
  | cons a r =>
    rw [scopeDeclare_cons, scopeDeclare_cons, getScope_state]
    cases σ.getScope a with
    | none => rfl
    | some m =>
      simp only [Option.map, lookup_map π hπ]
      cases scopeLookup x m with
      | none => simp only [decl, state_set, cell, map, List.map_cons]
      | some p => rfl

theorem contains_map (hπ : ∀ a b, π a = π b → a = b) (x : List Char) (names : List (List Char)) :
    (names.map π).contains (π x) = names.contains x := by
  induction names with
  | nil => rfl
  | cons n r ih =>
    rw [List.map_cons, List.contains_cons, List.contains_cons, ih]
    have : (π x == π n) = (x == n) := by
      by_cases h : x = n
      · subst h; simp
      · have h' : π x ≠ π n := fun e => h (hπ _ _ e)
        rw [beq_eq_false_iff_ne.mpr h, beq_eq_false_iff_ne.mpr h']
    rw [this]

theorem bindNextName_ren (hπ : ∀ a b, π a = π b → a = b) (hu : ∀ a, π a = c!"_" ↔ a = c!"_")
    (fuel : Nat) (σ : State) (sc : List Addr) (names : List (List Char)) (x : List Char) (loc : Loc) (rhs : SVal) (d : Bool) :
    bindNextName fuel (state π σ) sc (names.map π) (π x) loc rhs none d =
      res π (bindNextName fuel σ sc names x loc rhs none d) := by
  unfold bindNextName
  by_cases hx : x = c!"_"
  · have := (hu x).mpr hx
    simp only [hx, if_true] at *
    simp only [this, if_true]; rfl
  · have hx' : ¬ π x = c!"_" := fun e => hx ((hu x).mp e)
    simp only [hx, hx', if_false, contains_map π hπ]
    cases hc : names.contains x with
    | true => simp only [if_true]; rfl
    | false =>
      simp only [Bool.false_eq_true, if_false]
      cases d with
      | true =>
        simp only [if_true, scopeDeclare_ren π hπ]
        cases scopeDeclare σ sc x loc rhs <;> rfl
      | false =>
        simp only [Bool.false_eq_true, if_false, scopeAssign_ren π hπ]
        cases scopeAssign σ sc x rhs <;> rfl

end Ren
end Seed
