/-
  ParseMono.lean — P1: fuel monotonicity of the parser.  "One more unit of fuel changes nothing but
  time-outs", for every function of the mutual parser block; one induction on the fuel over the
  conjunction of all functions (same recipe as EvalMono.lean).
-/
import SeedModel.Parse
namespace Seed

/-- `r ⊑ r'`: `r` is a time-out or the same as `r'` -/
def PRes.Le {α} (r r' : PRes α) : Prop := r = .timeout ∨ r = r'

namespace PRes.Le
theorem refl {α} (r : PRes α) : PRes.Le r r := Or.inr rfl
theorem timeout {α} (r : PRes α) : PRes.Le .timeout r := Or.inl rfl

theorem bind {α β} {r r' : PRes α} {f g : α → List Span → PRes β} (h : PRes.Le r r')
    (hf : ∀ a ts, PRes.Le (f a ts) (g a ts)) : PRes.Le (r.bind f) (r'.bind g) := by
  rcases h with h | h
  · subst h; exact Or.inl rfl
  · subst h
    cases r with
    | ok a ts => exact hf a ts
    | err e => exact Or.inr rfl
    | timeout => exact Or.inl rfl

theorem map {α β} {r r' : PRes α} (f : α → β) (h : PRes.Le r r') : PRes.Le (r.map f) (r'.map f) := by
  rcases h with h | h
  · subst h; exact Or.inl rfl
  · subst h; exact Or.inr rfl

theorem trans {α} {a b c : PRes α} (h1 : PRes.Le a b) (h2 : PRes.Le b c) : PRes.Le a c := by
  rcases h1 with h | h
  · exact Or.inl h
  · subst h; exact h2

/-- a result that is not a time-out is kept by the larger fuel -/
theorem eq_of_ne {α} {a b : PRes α} (h : PRes.Le a b) (hne : a ≠ .timeout) : b = a := by
  rcases h with h | h
  · exact absurd h hne
  · exact h.symm

theorem ok {α} {a b : PRes α} {x : α} {rest : List Span} (h : PRes.Le a b) (hok : a = .ok x rest) :
    b = .ok x rest := by
  rcases h with h | h
  · rw [h] at hok; cases hok
  · rw [← h]; exact hok
end PRes.Le

/-- unfold the function on both sides of a `Le` goal exactly once -/
macro "punfold_le " f:ident : tactic =>
  `(tactic| ((conv => arg 1; unfold $f); (conv => arg 2; unfold $f)))

structure PMonoAll (n : Nat) : Prop where
  parseAtom : ∀ pre ts, PRes.Le (parseAtom n pre ts) (parseAtom (n + 1) pre ts)
  parsePostfix : ∀ l pre ts, PRes.Le (parsePostfix n l pre ts) (parsePostfix (n + 1) l pre ts)
  postfixLoop : ∀ l acc ts, PRes.Le (postfixLoop n l acc ts) (postfixLoop (n + 1) l acc ts)
  parseIndexTail : ∀ e ts, PRes.Le (parseIndexTail n e ts) (parseIndexTail (n + 1) e ts)
  parseRangeEnd : ∀ e s ts, PRes.Le (parseRangeEnd n e s ts) (parseRangeEnd (n + 1) e s ts)
  parseTier : ∀ k l pre ts, PRes.Le (parseTier n k l pre ts) (parseTier (n + 1) k l pre ts)
  tierLoop : ∀ k l acc ts, PRes.Le (tierLoop n k l acc ts) (tierLoop (n + 1) k l acc ts)
  parseExpr1 : ∀ s l pre ts, PRes.Le (parseExpr1 n s l pre ts) (parseExpr1 (n + 1) s l pre ts)
  rangeLoop : ∀ s l acc ts, PRes.Le (rangeLoop n s l acc ts) (rangeLoop (n + 1) s l acc ts)
  parseExpr : ∀ s ts, PRes.Le (parseExpr n s ts) (parseExpr (n + 1) s ts)
  parseArgs : ∀ acc ts, PRes.Le (parseArgs n acc ts) (parseArgs (n + 1) acc ts)
  parseExprList : ∀ acc ts, PRes.Le (parseExprList n acc ts) (parseExprList (n + 1) acc ts)
  parseParams : ∀ acc ts, PRes.Le (parseParams n acc ts) (parseParams (n + 1) acc ts)
  parsePropItems : ∀ acc ts, PRes.Le (parsePropItems n acc ts) (parsePropItems (n + 1) acc ts)
  parsePropTail : ∀ acc ts, PRes.Le (parsePropTail n acc ts) (parsePropTail (n + 1) acc ts)
  parseBlock : ∀ ts, PRes.Le (parseBlock n ts) (parseBlock (n + 1) ts)
  parseStmts : ∀ c acc ts, PRes.Le (parseStmts n c acc ts) (parseStmts (n + 1) c acc ts)
  parseIf : ∀ ts, PRes.Le (parseIf n ts) (parseIf (n + 1) ts)
  parseStmtTail : ∀ lhs ts, PRes.Le (parseStmtTail n lhs ts) (parseStmtTail (n + 1) lhs ts)
  parseExprStmt : ∀ amb l pre ts, PRes.Le (parseExprStmt n amb l pre ts) (parseExprStmt (n + 1) amb l pre ts)
  parseRawStmt : ∀ amb ts, PRes.Le (parseRawStmt n amb ts) (parseRawStmt (n + 1) amb ts)
  parseBraceStmt : ∀ amb l ts, PRes.Le (parseBraceStmt n amb l ts) (parseBraceStmt (n + 1) amb l ts)

macro "pmono_leaf " ih:ident : tactic =>
  `(tactic| first
    | exact PRes.Le.refl _
    | apply PMonoAll.parseAtom $ih | apply PMonoAll.parsePostfix $ih | apply PMonoAll.postfixLoop $ih
    | apply PMonoAll.parseIndexTail $ih | apply PMonoAll.parseRangeEnd $ih | apply PMonoAll.parseTier $ih
    | apply PMonoAll.tierLoop $ih | apply PMonoAll.parseExpr1 $ih | apply PMonoAll.rangeLoop $ih
    | apply PMonoAll.parseExpr $ih | apply PMonoAll.parseArgs $ih | apply PMonoAll.parseExprList $ih
    | apply PMonoAll.parseParams $ih | apply PMonoAll.parsePropItems $ih | apply PMonoAll.parsePropTail $ih
    | apply PMonoAll.parseBlock $ih | apply PMonoAll.parseStmts $ih | apply PMonoAll.parseIf $ih
    | apply PMonoAll.parseStmtTail $ih | apply PMonoAll.parseExprStmt $ih | apply PMonoAll.parseRawStmt $ih
    | apply PMonoAll.parseBraceStmt $ih)

macro "pmono_auto " ih:ident : tactic =>
  `(tactic| repeat' first
    | pmono_leaf $ih
    | apply PRes.Le.bind
    | intro _ _
    | (dsimp only [])
    | apply PRes.Le.map
    | split)

theorem pmonoAll_zero : PMonoAll 0 := by
  constructor <;> intros <;> left
  · unfold parseAtom; rfl
  · unfold parsePostfix; rfl
  · unfold postfixLoop; rfl
  · unfold parseIndexTail; rfl
  · unfold parseRangeEnd; rfl
  · unfold parseTier; rfl
  · unfold tierLoop; rfl
  · unfold parseExpr1; rfl
  · unfold rangeLoop; rfl
  · unfold parseExpr; rfl
  · unfold parseArgs; rfl
  · unfold parseExprList; rfl
  · unfold parseParams; rfl
  · unfold parsePropItems; rfl
  · unfold parsePropTail; rfl
  · unfold parseBlock; rfl
  · unfold parseStmts; rfl
  · unfold parseIf; rfl
  · unfold parseStmtTail; rfl
  · unfold parseExprStmt; rfl
  · unfold parseRawStmt; rfl
  · unfold parseBraceStmt; rfl

theorem pmonoAll_succ (n : Nat) (ih : PMonoAll n) : PMonoAll (n + 1) := by
  constructor
  · intro pre ts; punfold_le parseAtom; pmono_auto ih
  · intro l pre ts; punfold_le parsePostfix; pmono_auto ih
  · intro l acc ts; punfold_le postfixLoop; pmono_auto ih
  · intro e ts; punfold_le parseIndexTail; pmono_auto ih
  · intro e s ts; punfold_le parseRangeEnd; pmono_auto ih
  · intro k l pre ts; punfold_le parseTier; pmono_auto ih
  · intro k l acc ts; punfold_le tierLoop; pmono_auto ih
  · intro s l pre ts; punfold_le parseExpr1; pmono_auto ih
  · intro s l acc ts; punfold_le rangeLoop; pmono_auto ih
  · intro s ts; punfold_le parseExpr; pmono_auto ih
  · intro acc ts; punfold_le parseArgs; pmono_auto ih
  · intro acc ts; punfold_le parseExprList; pmono_auto ih
  · intro acc ts; punfold_le parseParams; pmono_auto ih
  · intro acc ts; punfold_le parsePropItems; pmono_auto ih
  · intro acc ts; punfold_le parsePropTail; pmono_auto ih
  · intro ts; punfold_le parseBlock; pmono_auto ih
  · intro c acc ts; punfold_le parseStmts; pmono_auto ih
  · intro ts; punfold_le parseIf; pmono_auto ih
  · intro lhs ts; punfold_le parseStmtTail; pmono_auto ih
  · intro amb l pre ts; punfold_le parseExprStmt; pmono_auto ih
  · intro amb ts; punfold_le parseRawStmt; pmono_auto ih
  · intro amb l ts; punfold_le parseBraceStmt; pmono_auto ih

theorem pmonoAll (n : Nat) : PMonoAll n := by
  induction n with
  | zero => exact pmonoAll_zero
  | succ n ih => exact pmonoAll_succ n ih

/-! ### `m ≤ n` forms -/

/-- lift a one-step monotonicity statement to `m ≤ n` -/
theorem PRes.Le.of_step {α} (f : Nat → PRes α) (h : ∀ n, PRes.Le (f n) (f (n + 1))) {m n : Nat} (hmn : m ≤ n) :
    PRes.Le (f m) (f n) := by
  induction hmn with
  | refl => exact PRes.Le.refl _
  | step _ ih => exact PRes.Le.trans ih (h _)

theorem parseAtom_mono {m n} (h : m ≤ n) (pre ts) : PRes.Le (parseAtom m pre ts) (parseAtom n pre ts) :=
  PRes.Le.of_step (fun n => parseAtom n pre ts) (fun n => (pmonoAll n).parseAtom pre ts) h
theorem parsePostfix_mono {m n} (h : m ≤ n) (l pre ts) : PRes.Le (parsePostfix m l pre ts) (parsePostfix n l pre ts) :=
  PRes.Le.of_step (fun n => parsePostfix n l pre ts) (fun n => (pmonoAll n).parsePostfix l pre ts) h
theorem postfixLoop_mono {m n} (h : m ≤ n) (l acc ts) : PRes.Le (postfixLoop m l acc ts) (postfixLoop n l acc ts) :=
  PRes.Le.of_step (fun n => postfixLoop n l acc ts) (fun n => (pmonoAll n).postfixLoop l acc ts) h
theorem parseTier_mono {m n} (h : m ≤ n) (k l pre ts) : PRes.Le (parseTier m k l pre ts) (parseTier n k l pre ts) :=
  PRes.Le.of_step (fun n => parseTier n k l pre ts) (fun n => (pmonoAll n).parseTier k l pre ts) h
theorem tierLoop_mono {m n} (h : m ≤ n) (k l acc ts) : PRes.Le (tierLoop m k l acc ts) (tierLoop n k l acc ts) :=
  PRes.Le.of_step (fun n => tierLoop n k l acc ts) (fun n => (pmonoAll n).tierLoop k l acc ts) h
theorem parseExpr1_mono {m n} (h : m ≤ n) (s l pre ts) : PRes.Le (parseExpr1 m s l pre ts) (parseExpr1 n s l pre ts) :=
  PRes.Le.of_step (fun n => parseExpr1 n s l pre ts) (fun n => (pmonoAll n).parseExpr1 s l pre ts) h
theorem rangeLoop_mono {m n} (h : m ≤ n) (s l acc ts) : PRes.Le (rangeLoop m s l acc ts) (rangeLoop n s l acc ts) :=
  PRes.Le.of_step (fun n => rangeLoop n s l acc ts) (fun n => (pmonoAll n).rangeLoop s l acc ts) h
theorem parseExpr_mono {m n} (h : m ≤ n) (s ts) : PRes.Le (parseExpr m s ts) (parseExpr n s ts) :=
  PRes.Le.of_step (fun n => parseExpr n s ts) (fun n => (pmonoAll n).parseExpr s ts) h
theorem parseStmts_mono {m n} (h : m ≤ n) (c acc ts) : PRes.Le (parseStmts m c acc ts) (parseStmts n c acc ts) :=
  PRes.Le.of_step (fun n => parseStmts n c acc ts) (fun n => (pmonoAll n).parseStmts c acc ts) h
theorem parseRawStmt_mono {m n} (h : m ≤ n) (amb ts) : PRes.Le (parseRawStmt m amb ts) (parseRawStmt n amb ts) :=
  PRes.Le.of_step (fun n => parseRawStmt n amb ts) (fun n => (pmonoAll n).parseRawStmt amb ts) h
theorem parseBlock_mono {m n} (h : m ≤ n) (ts) : PRes.Le (parseBlock m ts) (parseBlock n ts) :=
  PRes.Le.of_step (fun n => parseBlock n ts) (fun n => (pmonoAll n).parseBlock ts) h

end Seed
