/-
  C01FnCtx4.lean — congruence through function bodies, part 4: concrete instances (non-vacuity), and the concrete
  counterexample showing that the conclusion cannot be "equal results": the two final heaps differ in a stored body.
-/
import SeedProofs.Lemmas.C01FnCtx3
namespace Seed.C01
open Seed Seed.C07

/-- `true` at position `l` -/
def ttAt (l : Loc) : Expr := .mk (.Bool true) l

/-- the statement `true;` is equivalent to no statement at all, up to fuel, in every state and scope chain (an instance
    of the hypothesis `UptoEq s t`; the two lists have different lengths and need different fuel) -/
theorem true_skip_upto (l : Loc) : UptoEq [.Expr (ttAt l)] [] := by
  intro σ sc
  refine FuelEq.of_shift (fun k => (monoAll k).evalStmts _ _ _) (fun k => (monoAll k).evalStmts _ _ _) 2 fun m hm => ?_
  obtain ⟨k, rfl⟩ : ∃ k, m = k + 2 := ⟨m - 2, by omega⟩
  have hs : evalStmt (k + 2) σ sc (.Expr (ttAt l)) = .ok .none σ := by unfold evalStmt; unfold evalExpr; rfl
  show evalStmts (k + 2 + 1) σ sc [.Expr (ttAt l)] = evalStmts (k + 2) σ sc []
  rw [stmts_cons, hs]; rfl

/-! ### example 1: the hole in the body of a `fn` statement

    fn f() {            fn f() {
     true;
     print(1);           print(1);
    }                   }
    f();                f();
-/

def print1 : Stmt := .Expr (.mk (.Call (.mk (.Var c!"print") (3, 2)) [.mk (.mk (.Int 1) (3, 8)) false]) (3, 2))
def callF : Stmt := .Expr (.mk (.Call (.mk (.Var c!"f") (5, 1)) []) (5, 1))

/-- `fn f() { □ print(1); }  f();` -/
def K1 : FCtx := .seq [] (.fnBody c!"f" (1, 4) [] false (.seq [] .hole [print1])) [callF]

def src1 : List Char := c!"fn f() {\n true;\n print(1);\n}\nf();\n"
def src1' : List Char := c!"fn f() {\n      \n print(1);\n}\nf();\n"

theorem parse1 : parseProg src1 = .ok (K1.plug [.Expr (ttAt (2, 2))]) := by rfl
theorem parse1' : parseProg src1' = .ok (K1.plug []) := by rfl

/-- the two scripts have the same outcomes (instance of `fn_ctx_run`) -/
example (path : List Char) (o : Outcome) (ho : o.status ≠ .timeout) :
    (∃ n, run n path src1 = o) ↔ (∃ n, run n path src1' = o) :=
  fn_ctx_run K1 (true_skip_upto (2, 2)) path src1 src1' parse1 parse1' o ho

/-- … and that outcome is reached: both print `1` and succeed (the hypotheses of the theorem are not vacuous) -/
example : (run 60 c!"t.sd" src1).out = [c!"1"] ∧ (run 60 c!"t.sd" src1).status = .success := by decide +kernel
example : (run 60 c!"t.sd" src1').out = [c!"1"] ∧ (run 60 c!"t.sd" src1').status = .success := by decide +kernel

/-- the number of statements of the body stored at address `a` in the final heap -/
def bodyLenAt (a : Addr) : Res Unit → Option Nat
  | .ok _ σ => (σ.getFunc a).map fun fr => fr.stmts.length
  | _ => none

theorem bodyLen1 : bodyLenAt 1 (evalProg 60 (K1.plug [.Expr (ttAt (2, 2))])) = some 2 := by decide +kernel
theorem bodyLen1' : bodyLenAt 1 (evalProg 60 (K1.plug [])) = some 1 := by decide +kernel

/-- **why the conclusion is "up to function bodies"**: the two runs end in different heaps (the cell of `f` holds two
    statements in one and one statement in the other), so `stmt_ctx_congr_upto` (equal results) is FALSE for a context
    with a function-body hole -/
theorem results_differ_in_a_body : evalProg 60 (K1.plug [.Expr (ttAt (2, 2))]) ≠ evalProg 60 (K1.plug []) := by
  intro h
  have := congrArg (bodyLenAt 1) h
  rw [bodyLen1, bodyLen1'] at this
  cases this

/-- hence `UptoEq` itself is not preserved by `K1` — only the equivalence up to function bodies is -/
theorem uptoEq_not_preserved_by_fn_bodies : ¬ UptoEq (K1.plug [.Expr (ttAt (2, 2))]) (K1.plug []) := by
  intro h
  have hb : ∀ (r : Res Escape), (∃ σ, r = .ok .none σ ∧ (σ.getFunc 1).map (fun fr => fr.stmts.length) = some 2) → r ≠ .timeout := by
    rintro r ⟨σ, rfl, _⟩ hh; cases hh
  -- run the two lists in the scope that `evalProg` sets up
  let σ0 : State := (State.init.alloc (.scope [(c!"print", SVal.plain (.builtin c!"print" .print), (0, 0))])).2
  have h1 : ∃ σ, evalStmts 50 σ0 [0] (K1.plug [.Expr (ttAt (2, 2))]) = .ok .none σ ∧
      (σ.getFunc 1).map (fun fr => fr.stmts.length) = some 2 := ⟨_, by with_unfolding_all rfl, by with_unfolding_all rfl⟩
  obtain ⟨σ, hσ, hlen⟩ := h1
  obtain ⟨m, hm⟩ := (h σ0 [0] _ (hb _ ⟨σ, rfl, hlen⟩)).1 ⟨50, hσ⟩
  have h2 : ∃ σ', evalStmts 50 σ0 [0] (K1.plug []) = .ok .none σ' ∧
      (σ'.getFunc 1).map (fun fr => fr.stmts.length) = some 1 := ⟨_, by with_unfolding_all rfl, by with_unfolding_all rfl⟩
  obtain ⟨σ', hσ', hlen'⟩ := h2
  have hm' : evalStmts (max m 50) σ0 [0] (K1.plug []) = .ok .none σ :=
    fuel_stable (mono_stmts _ _ _) hm (by intro hh; cases hh) (Nat.le_max_left _ _)
  have hm'' : evalStmts (max m 50) σ0 [0] (K1.plug []) = .ok .none σ' :=
    fuel_stable (mono_stmts _ _ _) hσ' (by intro hh; cases hh) (Nat.le_max_right _ _)
  rw [hm'] at hm''
  cases hm''
  rw [hlen] at hlen'
  cases hlen'

/-! ### example 2: the hole in a function literal stored in an object (a method), called through a property access

    o := {"m": fn(x) { true; return x; }};        o := {"m": fn(x) {       return x; }};
    print(o.m(7));                                 print(o.m(7));
-/

def retX : Stmt := .Return (1, 26) (.mk (.Var c!"x") (1, 33))
def printOm : Stmt :=
  .Expr (.mk (.Call (.mk (.Var c!"print") (2, 1))
    [.mk (.mk (.Call (.mk (.Prop (.mk (.Var c!"o") (2, 7)) c!"m" false) (2, 7)) [.mk (.mk (.Int 7) (2, 11)) false]) (2, 7)) false]) (2, 1))

/-- `o := {"m": fn(x) { □ return x; }};  print(o.m(7));` -/
def K2 : FCtx :=
  .seq [] (.declare (.mk (.Var c!"o") (1, 1))
      (.objVal [] (.mk (.Str c!"m" none) (1, 7)) (.fn [.mk (.Var c!"x") (1, 15)] false (.seq [] .hole [retX]) (1, 12)) [] (1, 6)))
    [printOm]

def src2 : List Char := c!"o := {\"m\": fn(x) { true; return x; }};\nprint(o.m(7));\n"
def src2' : List Char := c!"o := {\"m\": fn(x) {       return x; }};\nprint(o.m(7));\n"

theorem parse2 : parseProg src2 = .ok (K2.plug [.Expr (ttAt (1, 20))]) := by rfl
theorem parse2' : parseProg src2' = .ok (K2.plug []) := by rfl

example (path : List Char) (o : Outcome) (ho : o.status ≠ .timeout) :
    (∃ n, run n path src2 = o) ↔ (∃ n, run n path src2' = o) :=
  fn_ctx_run K2 (true_skip_upto (1, 20)) path src2 src2' parse2 parse2' o ho

example : (run 60 c!"t.sd" src2).out = [c!"7"] ∧ (run 60 c!"t.sd" src2).status = .success := by decide +kernel
example : (run 60 c!"t.sd" src2').out = [c!"7"] ∧ (run 60 c!"t.sd" src2').status = .success := by decide +kernel

/-! ### example 3: several holes at once (the relation `RStmts` is not limited to one-hole contexts)

    fn f() { true; print(1); }  true; f();      ⊒      fn f() { print(1); }  f();
-/

example (path : List Char) (n : Nat)
    (hne : (progOutcome n path [.Func c!"f" (1, 4) [] false [.Expr (ttAt (2, 2)), print1], .Expr (ttAt (4, 1)), callF]).status ≠ .timeout) :
    ∃ m, progOutcome m path [.Func c!"f" (1, 4) [] false [print1], callF] =
      progOutcome n path [.Func c!"f" (1, 4) [] false [.Expr (ttAt (2, 2)), print1], .Expr (ttAt (4, 1)), callF] :=
  prog_outcome_refines
    (.cons (.func c!"f" (1, 4) false .nil (RStmts.suffix [print1] (.hole (uptoEq_iff.1 (true_skip_upto (2, 2))).1)))
      (RStmts.suffix [callF] (.hole (uptoEq_iff.1 (true_skip_upto (4, 1))).1)))
    path n hne

/-! ### example 4: the hole inside a PATTERN (the index expression of an assignment target)

    xs := [0];                                      xs := [0];
    xs[(fn() { true; return 0; })()] = 5;           xs[(fn() {       return 0; })()] = 5;
    print(xs[0]);                                   print(xs[0]);
-/

def declXs : Stmt := .Declare (.mk (.Var c!"xs") (1, 1)) (.mk (.List [.mk (.mk (.Int 0) (1, 8)) false] false) (1, 7))
def printXs0 : Stmt :=
  .Expr (.mk (.Call (.mk (.Var c!"print") (3, 1))
    [.mk (.mk (.Index (.mk (.Var c!"xs") (3, 7)) (.mk (.Int 0) (3, 10))) (3, 7)) false]) (3, 1))

/-- `xs := [0];  xs[(fn() { □ return 0; })()] = 5;  print(xs[0]);` -/
def K4 : FCtx :=
  .seq [declXs]
    (.assignLhs (.indexI (.mk (.Var c!"xs") (2, 1))
        (.callee (.fn [] false (.seq [] .hole [.Return (2, 18) (.mk (.Int 0) (2, 25))]) (2, 4)) [] (2, 4)) (2, 1))
      (.mk (.Int 5) (2, 36)))
    [printXs0]

def src4 : List Char := c!"xs := [0];\nxs[(fn() { true; return 0; })()] = 5;\nprint(xs[0]);\n"
def src4' : List Char := c!"xs := [0];\nxs[(fn() {       return 0; })()] = 5;\nprint(xs[0]);\n"

theorem parse4 : parseProg src4 = .ok (K4.plug [.Expr (ttAt (2, 12))]) := by rfl
theorem parse4' : parseProg src4' = .ok (K4.plug []) := by rfl

example (path : List Char) (o : Outcome) (ho : o.status ≠ .timeout) :
    (∃ n, run n path src4 = o) ↔ (∃ n, run n path src4' = o) :=
  fn_ctx_run K4 (true_skip_upto (2, 12)) path src4 src4' parse4 parse4' o ho

example : (run 80 c!"t.sd" src4).out = [c!"5"] ∧ (run 80 c!"t.sd" src4).status = .success := by decide +kernel
example : (run 80 c!"t.sd" src4').out = [c!"5"] ∧ (run 80 c!"t.sd" src4').status = .success := by decide +kernel

end Seed.C01
