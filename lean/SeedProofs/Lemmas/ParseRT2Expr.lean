/-
  ParseRT2Expr.lean — the print/parse round trip for the whole expression grammar: atoms, the 15 binary
  operators, `..`, parentheses, the postfix forms (index, range index, `.name`, `->name`, call with spread
  arguments), list literals (spread items, collecting last item), object literals (pairs, shorthand, spread,
  collect) and — given the round trip of its body — function literals.

  Architecture (as ParseRoundTrip.lean, on the model's own tree, positions erased by `stripR`):
    KeyPR r    : parsing `prR 5 r ++ rest` at the postfix level = continuing the postfix loop on `rest`
                 with `r` accumulated
    KeyTR r k  : the same for the tier-`k` operator loop,   Key1R r : the same for the `..` loop
    RT r       : all of them;  one lemma per production;  `exprStep` is the case analysis of the induction.
-/
import SeedProofs.Lemmas.ParseRT2Rel
set_option linter.unusedSimpArgs false
namespace Seed

private theorem hP5 : Gen.postfixTier = 5 := rfl
private theorem hF2 : Gen.firstTier = 2 := rfl

/-! ### the first token of a printed expression -/

/-- tokens that can begin an expression -/
def isStarter : Token → Bool
  | .Null | .True | .False | .Ident _ | .IntLiteral _ | .StrLiteral _ | .InterpStrLiteral _ _
  | .Sub | .ParenOpen | .BracketOpen | .BraceOpen | .Fn => true
  | _ => false

/-- non-empty, beginning with a starter; and `fn` is followed by `(` (never by a name) -/
def Starts (l : List Token) : Prop :=
  ∃ t l', l = t :: l' ∧ isStarter t = true ∧ (t = Token.Fn → ∃ l'', l' = Token.ParenOpen :: l'')

theorem Starts.append {a : List Token} (b : List Token) (h : Starts a) : Starts (a ++ b) := by
  obtain ⟨t, l', rfl, ht, hf⟩ := h
  refine ⟨t, l' ++ b, rfl, ht, fun h => ?_⟩
  obtain ⟨l'', rfl⟩ := hf h
  exact ⟨l'' ++ b, rfl⟩

theorem Starts.cons {t : Token} (l : List Token) (h : isStarter t = true) (hf : t ≠ Token.Fn := by intro h; cases h) :
    Starts (t :: l) := ⟨t, l, rfl, h, fun h => absurd h hf⟩

mutual
/-- every printed expression is non-empty and begins with a token that can begin an expression -/
theorem prR_starts : (r : RawExpr) → (k : Nat) → Starts (prR k r)
  | .Null, _ => Starts.cons _ rfl
  | .Bool true, _ => Starts.cons _ rfl
  | .Bool false, _ => Starts.cons _ rfl
  | .Int (.ofNat _), _ => Starts.cons _ rfl
  | .Int (.negSucc _), _ => Starts.cons _ rfl
  | .Str _ none, _ => Starts.cons _ rfl
  | .Str _ (some _), _ => Starts.cons _ rfl
  | .Var _, _ => Starts.cons _ rfl
  | .BinaryOp op _ l r, k => by
    simp only [prR, paren]
    split
    · exact Starts.cons _ rfl
    · exact (prE_starts l _).append _
  | .Range l r, k => by
    simp only [prR, paren]
    split
    · exact Starts.cons _ rfl
    · exact (prE_starts l _).append _
  | .List _ _, _ => Starts.cons _ rfl
  | .Index e _, _ => by simp only [prR]; exact (prE_starts e _).append _
  | .RangeIndex e _ _, _ => by simp only [prR]; exact (prE_starts e _).append _
  | .Prop e _ _, _ => by simp only [prR]; exact (prE_starts e _).append _
  | .Call e _, _ => by simp only [prR]; exact (prE_starts e _).append _
  | .Object _, _ => Starts.cons _ rfl
  | .Func _ _ _, _ => ⟨_, _, rfl, rfl, fun _ => ⟨_, rfl⟩⟩
theorem prE_starts : (e : Expr) → (k : Nat) → Starts (prE k e)
  | .mk r _, k => by simp only [prE]; exact prR_starts r k
end

theorem starter_ne {t t' : Token} (h : isStarter t = true) (h' : isStarter t' = false) : t ≠ t' := by
  intro e
  rw [e, h'] at h
  cases h

/-- a token list spelling a printed expression is non-empty and begins with a starter -/
theorem spans_start {ts : List Span} {toks : List Token} (h : ts.map Span.tok = toks) (hs : Starts toks) :
    ∃ sp ts', ts = sp :: ts' ∧ isStarter sp.tok = true := by
  obtain ⟨t, l, rfl, ht, _⟩ := hs
  obtain ⟨sp, ts', rfl, hsp, _⟩ := map_tok_cons h
  exact ⟨sp, ts', rfl, by rw [hsp]; exact ht⟩

theorem starter_not_follow {sp : Span} {r : List Span} (h : isStarter sp.tok = true) :
    isSpreadFollow (sp :: r) = false := by
  unfold isSpreadFollow
  cases ht : sp.tok <;> simp [ht, isStarter] at h ⊢

/-! ### what may follow an expression -/

/-- the `..` loop stops: the next token is not `..`, or (with `spreadOk`) it is a spread marker -/
def rangeStop (s : Bool) : List Span → Prop
  | [] => True
  | sp :: r => sp.tok = .DotDot → (s && isSpreadFollow r) = true

/-- the token after the expression (if any) cannot extend it -/
def stops (s : Bool) (rest : List Span) : Prop := noPostfix rest ∧ headTier rest = 0 ∧ rangeStop s rest

theorem rangeLoop_stop' (n : Nat) (s : Bool) (loc : Loc) (acc : RawExpr) (ts : List Span) (h : rangeStop s ts) :
    rangeLoop (n + 1) s loc acc ts = .ok acc ts := by
  unfold rangeLoop
  cases ts with
  | nil => rfl
  | cons sp r =>
    by_cases hd : sp.tok = .DotDot
    · have h' := h hd
      simp only [hd, if_true, h']
    · simp only [hd, if_false]

theorem RLoop.stop' {s : Bool} {loc : Loc} {acc : RawExpr} {ts : List Span} (h : rangeStop s ts) :
    RLoop s loc acc ts acc ts := ⟨1, rangeLoop_stop' 0 s loc acc ts h⟩

/-- closing brackets, separators, `{`, `in`, `;` and the assignment operators end an expression -/
def isStopTok : Token → Bool
  | .ParenClose | .BracketClose | .BraceClose | .StmtEnd | .Comma | .Colon | .Equals | .ColonEquals
  | .BraceOpen | .In | .SumEquals | .SubEquals | .MulEquals | .DivEquals | .ModEquals => true
  | _ => false

theorem stops_nil (s : Bool) : stops s [] := ⟨True.intro, rfl, True.intro⟩

theorem stops_of_tok {s : Bool} {sp : Span} {r : List Span} (h : isStopTok sp.tok = true) : stops s (sp :: r) := by
  unfold stops noPostfix headTier rangeStop
  cases ht : sp.tok <;> simp [ht, isStopTok] at h <;> simp [ht, isPostfixOpen, lookupAssoc, Gen.binOps]

/-- a spread marker: `..` directly before `,` `]` `)` `}` (only where spreads are allowed) -/
theorem stops_spread {sp : Span} {r : List Span} (h : sp.tok = .DotDot) (hf : isSpreadFollow r = true) :
    stops true (sp :: r) := by
  unfold stops noPostfix headTier rangeStop
  simp [h, hf, isPostfixOpen, lookupAssoc, Gen.binOps]

/-- the spans of an optional spread marker -/
theorem mark_spans {tsm : List Span} {s : Bool} (h : tsm.map Span.tok = spreadMark s) :
    ∃ sp2 : Span, sp2.tok = .DotDot ∧ tsm = if s then [sp2] else [] := by
  cases s with
  | false =>
    refine ⟨⟨(0, 0), .DotDot, (0, 0)⟩, rfl, ?_⟩
    simpa [spreadMark] using h
  | true =>
    simp only [spreadMark, if_true] at h
    obtain ⟨sp2, t', rfl, h2, h3⟩ := map_tok_cons h
    obtain rfl := map_tok_nil h3
    exact ⟨sp2, h2, rfl⟩

/-- what follows an item of a comma-separated list stops the item's expression -/
theorem stops_item {s : Bool} {sp2 sp3 : Span} {r3 : List Span} (hs : sp2.tok = .DotDot)
    (h3 : isSpreadFollow (sp3 :: r3) = true) (h3' : isStopTok sp3.tok = true) :
    stops true ((if s then [sp2] else []) ++ sp3 :: r3) := by
  cases s with
  | false => exact stops_of_tok h3'
  | true => exact stops_spread hs h3

/-! ### the invariants -/

def KeyPR (r : RawExpr) : Prop :=
  ∀ (loc : Loc) (ts rest : List Span), ts.map Span.tok = prR 5 r →
    ∃ raw, stripR raw = stripR r ∧ ∀ X r', PLoop loc raw rest X r' → PPost loc none (ts ++ rest) X r'

def KeyTR (r : RawExpr) (k : Nat) : Prop :=
  ∀ (loc : Loc) (ts rest : List Span), ts.map Span.tok = prR k r → noPostfix rest → headTier rest ≤ k →
    ∃ raw, stripR raw = stripR r ∧ ∀ X r', TLoop k loc raw rest X r' → PTier k loc none (ts ++ rest) X r'

def FTR (r : RawExpr) (k : Nat) : Prop :=
  ∀ (loc : Loc) (ts rest : List Span), ts.map Span.tok = prR k r → noPostfix rest → headTier rest < k →
    ∃ raw, stripR raw = stripR r ∧ PTier k loc none (ts ++ rest) raw rest

def Key1R (r : RawExpr) : Prop :=
  ∀ (s : Bool) (loc : Loc) (ts rest : List Span), ts.map Span.tok = prR 1 r → noPostfix rest → headTier rest = 0 →
    ∃ raw, stripR raw = stripR r ∧ ∀ X r', RLoop s loc raw rest X r' → PExpr1 s loc none (ts ++ rest) X r'

def F1R (r : RawExpr) : Prop :=
  ∀ (s : Bool) (loc : Loc) (ts rest : List Span), ts.map Span.tok = prR 1 r → stops s rest →
    ∃ raw, stripR raw = stripR r ∧ PExpr1 s loc none (ts ++ rest) raw rest

/-- `r` printed as `toks` is an atom of the grammar -/
def AtomicR (r : RawExpr) (toks : List Token) : Prop :=
  ∀ (ts rest : List Span), ts.map Span.tok = toks →
    ∃ raw, stripR raw = stripR r ∧ PAtom none (ts ++ rest) raw rest

/-- the round-trip invariants of a raw expression at every level -/
structure RT (r : RawExpr) : Prop where
  post : KeyPR r
  tier : ∀ k, 2 ≤ k → k ≤ 5 → KeyTR r k
  one : Key1R r

/-- round trip of a positioned expression in any expression slot: `parseExpr` on the printed tokens,
    followed by anything that cannot extend the expression, gives the expression back -/
def FEE (e : Expr) : Prop :=
  ∀ (s : Bool) (ts rest : List Span), ts.map Span.tok = prE 1 e → stops s rest →
    ∃ e', stripE e' = stripE e ∧ PExpr s (ts ++ rest) e' rest

theorem FTR_of_KeyTR {r : RawExpr} {k : Nat} (h : KeyTR r k) : FTR r k := by
  intro loc ts rest hts hp hh
  obtain ⟨raw, he, hk⟩ := h loc ts rest hts hp (by omega)
  exact ⟨raw, he, hk raw rest (TLoop.stop (by omega))⟩

theorem F1R_of_Key1R {r : RawExpr} (h : Key1R r) : F1R r := by
  intro s loc ts rest hts hst
  obtain ⟨raw, he, hk⟩ := h s loc ts rest hts hst.1 hst.2.1
  exact ⟨raw, he, hk raw rest (RLoop.stop' hst.2.2)⟩

theorem FEE_of_RT {r : RawExpr} {l : Loc} (h : RT r) : FEE (.mk r l) := by
  intro s ts rest hts hst
  simp only [prE] at hts
  obtain ⟨raw, he, hp⟩ := F1R_of_Key1R h.one s (headLoc (ts ++ rest)) ts rest hts hst
  exact ⟨.mk raw (headLoc (ts ++ rest)), by simp only [stripE, he], PExpr.mk hp⟩

theorem KeyPR_of_AtomicR {r : RawExpr} {toks : List Token} (hpr : prR 5 r = toks) (h : AtomicR r toks) :
    KeyPR r := by
  intro loc ts rest hts
  obtain ⟨raw, he, ha⟩ := h ts rest (hpr ▸ hts)
  exact ⟨raw, he, fun X r' hX => PPost.mk ha hX⟩

/-- a form of the postfix level at any tier `k`, printed the same way -/
theorem KeyTR_of_KeyPR {r : RawExpr} {k : Nat} (hpr : prR k r = prR 5 r) (h : KeyPR r) : KeyTR r k := by
  intro loc ts rest hts hp hh
  obtain ⟨raw, he, hk⟩ := h loc ts rest (hpr ▸ hts)
  refine ⟨raw, he, fun X r' hX => ?_⟩
  have h5 : PTier Gen.postfixTier loc none (ts ++ rest) raw rest :=
    PTier.post (Nat.le_refl _) (hk raw rest (PLoop.stop hp))
  by_cases hk5 : k < Gen.postfixTier
  · exact PTier.step hk5 (h5.descend (Nat.le_refl _) (k + 1) (by omega) (Or.inl (by omega))) hX
  · obtain ⟨rfl, rfl⟩ := TLoop.high (by omega) hX
    exact PTier.post (by omega) (hk _ _ (PLoop.stop hp))

/-- a looser level than the one at which `r` round-trips, printed the same way -/
theorem KeyTR_of_FTR {r : RawExpr} {k j : Nat} (hpr : prR k r = prR j r) (hkj : k < j) (hj : j ≤ Gen.postfixTier)
    (h : FTR r j) : KeyTR r k := by
  intro loc ts rest hts hp hh
  obtain ⟨raw, he, hPj⟩ := h loc ts rest (hpr ▸ hts) hp (by omega)
  refine ⟨raw, he, fun X r' hX => ?_⟩
  exact PTier.step (by omega) (hPj.descend hj (k + 1) (by omega) (Or.inl (by omega))) hX

theorem Key1R_of_FTR {r : RawExpr} (hpr : prR 1 r = prR Gen.firstTier r) (h : FTR r Gen.firstTier) : Key1R r := by
  intro s loc ts rest hts hp hh
  obtain ⟨raw, he, hP2⟩ := h loc ts rest (hpr ▸ hts) hp (by have := hF2; omega)
  exact ⟨raw, he, fun X r' hX => PExpr1.mk hP2 hX⟩

/-- everything follows from the postfix-level invariant for forms printed the same at every level -/
theorem RT_of_KeyPR {r : RawExpr} (hpr : ∀ k, prR k r = prR 5 r) (h : KeyPR r) : RT r where
  post := h
  tier := fun k _ _ => KeyTR_of_KeyPR (hpr k) h
  one := Key1R_of_FTR (by rw [hpr 1, hpr Gen.firstTier]) (FTR_of_KeyTR (KeyTR_of_KeyPR (hpr _) h))

theorem RT_of_AtomicR {r : RawExpr} {toks : List Token} (hpr : ∀ k, prR k r = toks) (h : AtomicR r toks) : RT r :=
  RT_of_KeyPR (fun k => by rw [hpr k, hpr 5]) (KeyPR_of_AtomicR (hpr 5) h)

/-- a parenthesised expression is an atom -/
theorem AtomicR_paren {r : RawExpr} (h : F1R r) :
    AtomicR r (Token.ParenOpen :: (prR 1 r ++ [Token.ParenClose])) := by
  intro ts rest hts
  obtain ⟨sl, ts1, rfl, hsl, h1⟩ := map_tok_cons hts
  obtain ⟨tsi, ts2, rfl, hi, h2⟩ := map_tok_append h1
  obtain ⟨sr, ts3, rfl, hsr, h3⟩ := map_tok_cons h2
  obtain rfl := map_tok_nil h3
  obtain ⟨raw, he, hpe⟩ := h false (headLoc (tsi ++ sr :: rest)) tsi (sr :: rest) hi
    (stops_of_tok (by rw [hsr]; rfl))
  refine ⟨raw, he, ?_⟩
  have := PAtom.paren (sp := sl) hsl hpe hsr
  simpa [List.append_assoc] using this

/-! ### single-token atoms and negative literals -/

theorem prR_atom {a : RawExpr} {toks : List Token} (h : atomToks a = some toks) (k : Nat) : prR k a = toks := by
  cases a with
  | Null => simp only [atomToks, Option.some.injEq] at h; subst h; simp only [prR]
  | Bool b => cases b <;> (simp only [atomToks, Option.some.injEq] at h; subst h; simp only [prR])
  | Var x => simp only [atomToks, Option.some.injEq] at h; subst h; simp only [prR]
  | Int n => cases n <;> (simp only [atomToks, Option.some.injEq] at h; subst h; simp only [prR])
  | Str s o => cases o <;> (simp only [atomToks, Option.some.injEq] at h; subst h; simp only [prR])
  | _ => simp [atomToks] at h

theorem RT_atom {a : RawExpr} {toks : List Token} (h : atomToks a = some toks) : RT a :=
  RT_of_AtomicR (prR_atom h) (fun _ _ hts => ⟨a, rfl, PAtom.ofToks h hts⟩)

/-! ### binary operators and `..` -/

/-- the production `tier t ::= tier t  op  tier (t+1)` -/
theorem KeyTR_bin {op : BinaryOp} {ol ll rl : Loc} {l r : RawExpr} (hl : KeyTR l (tierOf op))
    (hr : FTR r (tierOf op + 1)) : KeyTR (.BinaryOp op ol (.mk l ll) (.mk r rl)) (tierOf op) := by
  intro loc ts rest hts hp hh
  have hlook := lookup_tokOf op
  simp only [prR, prE, paren, Nat.lt_irrefl, decide_false, Bool.false_eq_true, if_false] at hts
  obtain ⟨tsl, ts2, rfl, htl, h2⟩ := map_tok_append hts
  obtain ⟨sop, tsr, rfl, hsop, htr⟩ := map_tok_cons h2
  have hlook' : lookupAssoc sop.tok Gen.binOps = some (op, tierOf op) := by rw [hsop]; exact hlook
  obtain ⟨rawr, her, hpr⟩ := hr (headLoc (tsr ++ rest)) tsr rest htr hp (by omega)
  obtain ⟨rawl, hel, hkl⟩ := hl loc tsl (sop :: (tsr ++ rest)) htl (noPostfix_op hlook')
    (by rw [headTier_op hlook']; exact Nat.le_refl _)
  refine ⟨.BinaryOp op sop.start (.mk rawl loc) (.mk rawr (headLoc (tsr ++ rest))), ?_, ?_⟩
  · simp only [stripR, stripE, hel, her]
  · intro X r' hX
    have := hkl X r' (TLoop.step hlook' hpr hX)
    simpa [List.append_assoc] using this

theorem RT_bin {op : BinaryOp} {ol ll rl : Loc} {l r : RawExpr} (hl : RT l) (hr : RT r) :
    RT (.BinaryOp op ol (.mk l ll) (.mk r rl)) := by
  have f := binOp_facts (lookup_tokOf op)
  have hown : KeyTR (.BinaryOp op ol (.mk l ll) (.mk r rl)) (tierOf op) :=
    KeyTR_bin (hl.tier _ f.1 (by omega)) (FTR_of_KeyTR (hr.tier _ (by omega) (by omega)))
  have hbare : ∀ k, k ≤ tierOf op →
      prR k (.BinaryOp op ol (.mk l ll) (.mk r rl)) = prR (tierOf op) (.BinaryOp op ol (.mk l ll) (.mk r rl)) := by
    intro k hk
    have h1 : ¬ tierOf op < k := by omega
    simp only [prR, paren, h1, Nat.lt_irrefl, decide_false]
  have hpar : ∀ k, tierOf op < k → prR k (.BinaryOp op ol (.mk l ll) (.mk r rl)) =
      Token.ParenOpen :: (prR 1 (.BinaryOp op ol (.mk l ll) (.mk r rl)) ++ [Token.ParenClose]) := by
    intro k hk
    have h3 : ¬ tierOf op < 1 := by omega
    simp only [prR, paren, hk, h3, decide_true, decide_false, if_true, Bool.false_eq_true, if_false]
  have hloose : ∀ k, 1 ≤ k → k ≤ tierOf op → KeyTR (.BinaryOp op ol (.mk l ll) (.mk r rl)) k := by
    intro k _ hk
    by_cases hkt : k = tierOf op
    · rw [hkt]; exact hown
    · exact KeyTR_of_FTR (hbare k hk) (by omega) (by have := hP5; omega) (FTR_of_KeyTR hown)
  have h1 : Key1R (.BinaryOp op ol (.mk l ll) (.mk r rl)) :=
    Key1R_of_FTR (by rw [hbare 1 (by omega), hbare Gen.firstTier (by have := hF2; omega)])
      (FTR_of_KeyTR (hloose _ (by have := hF2; omega) (by have := hF2; omega)))
  have hpost : KeyPR (.BinaryOp op ol (.mk l ll) (.mk r rl)) :=
    KeyPR_of_AtomicR (hpar 5 (by omega)) (AtomicR_paren (F1R_of_Key1R h1))
  refine ⟨hpost, fun k hk2 hk5 => ?_, h1⟩
  by_cases hk : k ≤ tierOf op
  · exact hloose k (by omega) hk
  · exact KeyTR_of_KeyPR (by rw [hpar k (by omega), hpar 5 (by omega)]) hpost

/-- the production `range ::= range  ..  tier 2` -/
theorem Key1R_range {ll rl : Loc} {l r : RawExpr} (hl : Key1R l) (hr : FTR r Gen.firstTier) :
    Key1R (.Range (.mk l ll) (.mk r rl)) := by
  intro s loc ts rest hts hp hh
  simp only [prR, prE, paren, Nat.lt_irrefl, decide_false, Bool.false_eq_true, if_false] at hts
  obtain ⟨tsl, ts2, rfl, htl, h2⟩ := map_tok_append hts
  obtain ⟨sd, tsr, rfl, hsd, htr⟩ := map_tok_cons h2
  have hnp : noPostfix (sd :: (tsr ++ rest)) := by simp [noPostfix, hsd, isPostfixOpen]
  have hht : headTier (sd :: (tsr ++ rest)) = 0 := by simp [headTier, hsd, lookupAssoc, Gen.binOps]
  obtain ⟨rawr, her, hpr⟩ := hr (headLoc (tsr ++ rest)) tsr rest htr hp (by have := hF2; omega)
  obtain ⟨rawl, hel, hkl⟩ := hl s loc tsl (sd :: (tsr ++ rest)) htl hnp hht
  refine ⟨.Range (.mk rawl loc) (.mk rawr (headLoc (tsr ++ rest))), ?_, ?_⟩
  · simp only [stripR, stripE, hel, her]
  · intro X r' hX
    obtain ⟨sr, tsr', rfl, hst⟩ := spans_start htr (prR_starts r _)
    have hsf : (s && isSpreadFollow ((sr :: tsr') ++ rest)) = false := by
      rw [List.cons_append, starter_not_follow hst, Bool.and_false]
    have := hkl X r' (RLoop.step hsd hsf hpr hX)
    simpa [List.append_assoc] using this

theorem RT_range {ll rl : Loc} {l r : RawExpr} (hl : RT l) (hr : RT r) : RT (.Range (.mk l ll) (.mk r rl)) := by
  have h1 : Key1R (.Range (.mk l ll) (.mk r rl)) :=
    Key1R_range hl.one (FTR_of_KeyTR (hr.tier _ (by have := hF2; omega) (by have := hF2; omega)))
  have hpar : ∀ k, 1 < k → prR k (.Range (.mk l ll) (.mk r rl)) =
      Token.ParenOpen :: (prR 1 (.Range (.mk l ll) (.mk r rl)) ++ [Token.ParenClose]) := by
    intro k hk
    simp only [prR, paren, hk, Nat.lt_irrefl, decide_true, decide_false, if_true, Bool.false_eq_true, if_false]
  have hpost : KeyPR (.Range (.mk l ll) (.mk r rl)) :=
    KeyPR_of_AtomicR (hpar 5 (by omega)) (AtomicR_paren (F1R_of_Key1R h1))
  exact ⟨hpost, fun k hk2 hk5 => KeyTR_of_KeyPR (by rw [hpar k (by omega), hpar 5 (by omega)]) hpost, h1⟩

/-! ### postfix forms -/

/-- `e [ i ]` -/
theorem KeyPR_index {e : RawExpr} {le : Loc} {i : Expr} (he : KeyPR e) (hi : FEE i) :
    KeyPR (.Index (.mk e le) i) := by
  intro loc ts rest hts
  simp only [prR, prE] at hts
  obtain ⟨tse, ts2, rfl, hte, h2⟩ := map_tok_append hts
  obtain ⟨sb, ts3, rfl, hsb, h3⟩ := map_tok_cons h2
  obtain ⟨tsi, ts4, rfl, hti, h4⟩ := map_tok_append h3
  obtain ⟨sc, ts5, rfl, hsc, h5⟩ := map_tok_cons h4
  obtain rfl := map_tok_nil h5
  obtain ⟨i', hi', hpi⟩ := hi false tsi (sc :: rest) hti (stops_of_tok (by rw [hsc]; rfl))
  obtain ⟨raw, hraw, hk⟩ := he loc tse (sb :: (tsi ++ sc :: rest)) hte
  refine ⟨.Index (.mk raw loc) i', by simp only [stripR, stripE, hraw, hi'], fun X r' hX => ?_⟩
  obtain ⟨si, tsi', rfl, hst⟩ := spans_start hti (prE_starts i 1)
  have := hk X r' (PLoop.index hsb (PIdx.index (starter_ne hst rfl) hpi hsc) hX)
  simpa [List.append_assoc] using this

/-- the end of a range index, `]` or `j ]` -/
theorem rend_rt {b : Option Expr} (hb : ∀ x, b = some x → FEE x) (e0 : Expr) (st : Option Expr)
    (tsb : List Span) (sc : Span) (rest : List Span) (htb : tsb.map Span.tok = prO b) (hsc : sc.tok = .BracketClose) :
    ∃ b', stripO b' = stripO b ∧ PREnd e0 st (tsb ++ sc :: rest) (.RangeIndex e0 st b') rest := by
  cases b with
  | none =>
    obtain rfl := map_tok_nil (by simpa [prO] using htb)
    exact ⟨none, rfl, PREnd.none hsc⟩
  | some j =>
    simp only [prO] at htb
    obtain ⟨j', hj', hpj⟩ := hb j rfl false tsb (sc :: rest) htb (stops_of_tok (by rw [hsc]; rfl))
    obtain ⟨sj, tsj', rfl, hst⟩ := spans_start htb (prE_starts j 1)
    exact ⟨some j', by simp only [stripO, hj'], PREnd.some (starter_ne hst rfl) hpj hsc⟩

/-- `e [ a? : b? ]` -/
theorem KeyPR_rangeIndex {e : RawExpr} {le : Loc} {a b : Option Expr} (he : KeyPR e)
    (ha : ∀ x, a = some x → FEE x) (hb : ∀ x, b = some x → FEE x) : KeyPR (.RangeIndex (.mk e le) a b) := by
  intro loc ts rest hts
  simp only [prR, prE] at hts
  obtain ⟨tse, ts2, rfl, hte, h2⟩ := map_tok_append hts
  obtain ⟨sb, ts3, rfl, hsb, h3⟩ := map_tok_cons h2
  obtain ⟨tsa, ts4, rfl, hta, h4⟩ := map_tok_append h3
  obtain ⟨sco, ts5, rfl, hsco, h5⟩ := map_tok_cons h4
  obtain ⟨tsb, ts6, rfl, htb, h6⟩ := map_tok_append h5
  obtain ⟨sc, ts7, rfl, hsc, h7⟩ := map_tok_cons h6
  obtain rfl := map_tok_nil h7
  obtain ⟨raw, hraw, hk⟩ := he loc tse (sb :: (tsa ++ sco :: (tsb ++ sc :: rest))) hte
  cases a with
  | none =>
    obtain rfl := map_tok_nil (by simpa [prO] using hta)
    obtain ⟨b', hb', hpb⟩ := rend_rt hb (.mk raw loc) none tsb sc rest htb hsc
    refine ⟨.RangeIndex (.mk raw loc) none b', by simp only [stripR, stripE, stripO, hraw, hb'], fun X r' hX => ?_⟩
    have := hk X r' (PLoop.index hsb (PIdx.colon hsco hpb) hX)
    simpa [List.append_assoc] using this
  | some i =>
    simp only [prO] at hta
    obtain ⟨i', hi', hpi⟩ := ha i rfl false tsa (sco :: (tsb ++ sc :: rest)) hta (stops_of_tok (by rw [hsco]; rfl))
    obtain ⟨b', hb', hpb⟩ := rend_rt hb (.mk raw loc) (some i') tsb sc rest htb hsc
    refine ⟨.RangeIndex (.mk raw loc) (some i') b', by simp only [stripR, stripE, stripO, hraw, hb', hi'],
      fun X r' hX => ?_⟩
    obtain ⟨si, tsi', rfl, hst⟩ := spans_start hta (prE_starts i 1)
    have := hk X r' (PLoop.index hsb (PIdx.range (starter_ne hst rfl) hpi hsco hpb) hX)
    simpa [List.append_assoc] using this

/-- `e . name` and `e -> name` -/
theorem KeyPR_prop {e : RawExpr} {le : Loc} {name : List Char} {tp : Bool} (he : KeyPR e) :
    KeyPR (.Prop (.mk e le) name tp) := by
  intro loc ts rest hts
  simp only [prR, prE] at hts
  obtain ⟨tse, ts2, rfl, hte, h2⟩ := map_tok_append hts
  obtain ⟨sd, ts3, rfl, hsd, h3⟩ := map_tok_cons h2
  obtain ⟨sn, ts4, rfl, hsn, h4⟩ := map_tok_cons h3
  obtain rfl := map_tok_nil h4
  obtain ⟨raw, hraw, hk⟩ := he loc tse (sd :: sn :: rest) hte
  refine ⟨.Prop (.mk raw loc) name tp, by simp only [stripR, stripE, hraw], fun X r' hX => ?_⟩
  have := hk X r' (PLoop.prop tp hsd hsn hX)
  simpa [List.append_assoc] using this

/-! ### comma-separated lists -/

theorem isStop_comma : isStopTok Token.Comma = true := rfl

/-- call arguments after `(` -/
theorem args_rt (items : List ListItem) (h : ∀ i ∈ items, FEE i.e) :
    ∀ (acc : List ListItem) (ts rest : List Span),
      ts.map Span.tok = sepBody .ParenClose false (items.map prItem) →
      ∃ items', items'.map stripItem = items.map stripItem ∧ PArgs acc (ts ++ rest) (acc.reverse ++ items') rest := by
  induction items with
  | nil =>
    intro acc ts rest hts
    simp only [List.map_nil, sepBody] at hts
    obtain ⟨sp, t', rfl, hsp, h'⟩ := map_tok_cons hts
    obtain rfl := map_tok_nil h'
    exact ⟨[], rfl, by simpa using PArgs.nil (acc := acc) (r := rest) hsp⟩
  | cons i is ih =>
    intro acc ts rest hts
    obtain ⟨e, s⟩ := i
    have he : FEE e := h (.mk e s) (List.mem_cons_self ..)
    cases is with
    | nil =>
      simp only [List.map_cons, List.map_nil, sepBody, prItem, if_false, Bool.false_eq_true, List.nil_append] at hts
      obtain ⟨tsi, ts2, rfl, hti, h2⟩ := map_tok_append hts
      obtain ⟨tse, tsm, rfl, hte, htm⟩ := map_tok_append hti
      obtain ⟨sp3, t', rfl, hsp3, h'⟩ := map_tok_cons h2
      obtain rfl := map_tok_nil h'
      obtain ⟨sp2, hsp2, rfl⟩ := mark_spans htm
      obtain ⟨e', he', hpe⟩ := he true tse ((if s then [sp2] else []) ++ sp3 :: rest) hte
        (stops_item hsp2 (by simp [isSpreadFollow, hsp3]) (by rw [hsp3]; rfl))
      obtain ⟨se, tse', rfl, hst⟩ := spans_start hte (prE_starts e 1)
      refine ⟨[.mk e' s], by simp only [List.map_cons, List.map_nil, stripItem, he'], ?_⟩
      have := PArgs.last (acc := acc) s (starter_ne hst rfl) hpe rfl hsp2 hsp3
      simpa [List.append_assoc] using this
    | cons j js =>
      simp only [List.map_cons, sepBody, prItem] at hts
      obtain ⟨tsi, ts2, rfl, hti, h2⟩ := map_tok_append hts
      obtain ⟨tse, tsm, rfl, hte, htm⟩ := map_tok_append hti
      obtain ⟨sp3, ts3, rfl, hsp3, h3⟩ := map_tok_cons h2
      obtain ⟨sp2, hsp2, rfl⟩ := mark_spans htm
      obtain ⟨e', he', hpe⟩ := he true tse ((if s then [sp2] else []) ++ sp3 :: (ts3 ++ rest)) hte
        (stops_item hsp2 (by simp [isSpreadFollow, hsp3]) (by rw [hsp3]; rfl))
      obtain ⟨se, tse', rfl, hst⟩ := spans_start hte (prE_starts e 1)
      obtain ⟨items', hi', hpa⟩ := ih (fun i hi => h i (List.mem_cons_of_mem _ hi)) (.mk e' s :: acc) ts3 rest
        (by simpa [List.map_cons, prItem] using h3)
      refine ⟨.mk e' s :: items', by simp only [List.map_cons, stripItem, he', hi'], ?_⟩
      have := PArgs.more (acc := acc) s (starter_ne hst rfl) hpe rfl hsp2 hsp3
        (by simpa using hpa)
      simpa [List.append_assoc] using this

/-- `f ( args )` -/
theorem KeyPR_call {f : RawExpr} {lf : Loc} {args : List ListItem} (hf : KeyPR f) (hargs : ∀ i ∈ args, FEE i.e) :
    KeyPR (.Call (.mk f lf) args) := by
  intro loc ts rest hts
  simp only [prR, prE, prItems_map] at hts
  obtain ⟨tsf, ts2, rfl, htf, h2⟩ := map_tok_append hts
  obtain ⟨sp, tsa, rfl, hsp, hta⟩ := map_tok_cons h2
  obtain ⟨args', ha', hpa⟩ := args_rt args hargs [] tsa rest hta
  obtain ⟨raw, hraw, hk⟩ := hf loc tsf (sp :: (tsa ++ rest)) htf
  refine ⟨.Call (.mk raw loc) args', by simp only [stripR, stripE, stripItems_map, hraw, ha'], fun X r' hX => ?_⟩
  have := hk X r' (PLoop.call hsp (by simpa using hpa) hX)
  simpa [List.append_assoc] using this

/-- the items of a list literal after `[` -/
theorem list_rt (c : Bool) (items : List ListItem) (h : ∀ i ∈ items, FEE i.e) (hc : c = true → items ≠ []) :
    ∀ (acc : List ListItem) (ts rest : List Span),
      ts.map Span.tok = sepBody .BracketClose c (items.map prItem) →
      ∃ items', items'.map stripItem = items.map stripItem ∧
        PList acc (ts ++ rest) (acc.reverse ++ items', c) rest := by
  induction items with
  | nil =>
    intro acc ts rest hts
    have hcf : c = false := by cases c; rfl; exact absurd rfl (hc rfl)
    subst hcf
    simp only [List.map_nil, sepBody] at hts
    obtain ⟨sp, t', rfl, hsp, h'⟩ := map_tok_cons hts
    obtain rfl := map_tok_nil h'
    exact ⟨[], rfl, by simpa using PList.nil (acc := acc) (r := rest) hsp⟩
  | cons i is ih =>
    intro acc ts rest hts
    obtain ⟨e, s⟩ := i
    have he : FEE e := h (.mk e s) (List.mem_cons_self ..)
    cases is with
    | nil =>
      simp only [List.map_cons, List.map_nil, sepBody, prItem] at hts
      obtain ⟨tsc, ts1, rfl, htc, h1⟩ := map_tok_append hts
      obtain ⟨tsi, ts2, rfl, hti, h2⟩ := map_tok_append h1
      obtain ⟨tse, tsm, rfl, hte, htm⟩ := map_tok_append hti
      obtain ⟨sp3, t', rfl, hsp3, h'⟩ := map_tok_cons h2
      obtain rfl := map_tok_nil h'
      obtain ⟨sp2, hsp2, rfl⟩ := mark_spans htm
      obtain ⟨e', he', hpe⟩ := he true tse ((if s then [sp2] else []) ++ sp3 :: rest) hte
        (stops_item hsp2 (by simp [isSpreadFollow, hsp3]) (by rw [hsp3]; rfl))
      refine ⟨[.mk e' s], by simp only [List.map_cons, List.map_nil, stripItem, he'], ?_⟩
      cases c with
      | false =>
        obtain rfl := map_tok_nil (by simpa using htc)
        obtain ⟨se, tse', rfl, hst⟩ := spans_start hte (prE_starts e 1)
        have := PList.last (acc := acc) s (starter_ne hst rfl) (starter_ne hst rfl) hpe rfl hsp2 hsp3
        simpa [List.append_assoc] using this
      | true =>
        simp only [if_true] at htc
        obtain ⟨sd, t'', rfl, hsd, h''⟩ := map_tok_cons htc
        obtain rfl := map_tok_nil h''
        have := PList.collect (acc := acc) (sp := sd) s hsd hpe rfl hsp2 hsp3
        simpa [List.append_assoc] using this
    | cons j js =>
      simp only [List.map_cons, sepBody, prItem] at hts
      obtain ⟨tsi, ts2, rfl, hti, h2⟩ := map_tok_append hts
      obtain ⟨tse, tsm, rfl, hte, htm⟩ := map_tok_append hti
      obtain ⟨sp3, ts3, rfl, hsp3, h3⟩ := map_tok_cons h2
      obtain ⟨sp2, hsp2, rfl⟩ := mark_spans htm
      obtain ⟨e', he', hpe⟩ := he true tse ((if s then [sp2] else []) ++ sp3 :: (ts3 ++ rest)) hte
        (stops_item hsp2 (by simp [isSpreadFollow, hsp3]) (by rw [hsp3]; rfl))
      obtain ⟨se, tse', rfl, hst⟩ := spans_start hte (prE_starts e 1)
      obtain ⟨items', hi', hpa⟩ := ih (fun i hi => h i (List.mem_cons_of_mem _ hi)) (fun _ => List.cons_ne_nil _ _)
        (.mk e' s :: acc) ts3 rest (by simpa [List.map_cons, prItem] using h3)
      refine ⟨.mk e' s :: items', by simp only [List.map_cons, stripItem, he', hi'], ?_⟩
      have := PList.more (acc := acc) s (starter_ne hst rfl) (starter_ne hst rfl) hpe rfl hsp2 hsp3
        (by simpa using hpa)
      simpa [List.append_assoc] using this

/-- `[ items ]` -/
theorem AtomicR_list {items : List ListItem} {c : Bool} (h : ∀ i ∈ items, FEE i.e) (hc : c = true → items ≠ []) :
    AtomicR (.List items c) (prR 5 (.List items c)) := by
  intro ts rest hts
  simp only [prR, prItems_map] at hts
  obtain ⟨sp, tsa, rfl, hsp, hta⟩ := map_tok_cons hts
  obtain ⟨items', hi', hpl⟩ := list_rt c items h hc [] tsa rest hta
  exact ⟨.List items' c, by simp only [stripR, stripItems_map, hi'], PAtom.list hsp (by simpa using hpl)⟩

/-- the parameters of a function after `(` -/
theorem params_rt (c : Bool) (args : List Expr) (h : ∀ e ∈ args, FEE e) (hc : c = true → args ≠ []) :
    ∀ (acc : List Expr) (ts rest : List Span),
      ts.map Span.tok = sepBody .ParenClose c (args.map (prE 1)) →
      ∃ args', args'.map stripE = args.map stripE ∧ PParams acc (ts ++ rest) (acc.reverse ++ args', c) rest := by
  induction args with
  | nil =>
    intro acc ts rest hts
    have hcf : c = false := by cases c; rfl; exact absurd rfl (hc rfl)
    subst hcf
    simp only [List.map_nil, sepBody] at hts
    obtain ⟨sp, t', rfl, hsp, h'⟩ := map_tok_cons hts
    obtain rfl := map_tok_nil h'
    exact ⟨[], rfl, by simpa using PParams.nil (acc := acc) (r := rest) hsp⟩
  | cons e is ih =>
    intro acc ts rest hts
    have he : FEE e := h e (List.mem_cons_self ..)
    cases is with
    | nil =>
      simp only [List.map_cons, List.map_nil, sepBody] at hts
      obtain ⟨tsc, ts1, rfl, htc, h1⟩ := map_tok_append hts
      obtain ⟨tse, ts2, rfl, hte, h2⟩ := map_tok_append h1
      obtain ⟨sp3, t', rfl, hsp3, h'⟩ := map_tok_cons h2
      obtain rfl := map_tok_nil h'
      obtain ⟨e', he', hpe⟩ := he false tse (sp3 :: rest) hte (stops_of_tok (by rw [hsp3]; rfl))
      refine ⟨[e'], by simp only [List.map_cons, List.map_nil, he'], ?_⟩
      cases c with
      | false =>
        obtain rfl := map_tok_nil (by simpa using htc)
        obtain ⟨se, tse', rfl, hst⟩ := spans_start hte (prE_starts e 1)
        have := PParams.last (acc := acc) (starter_ne hst rfl) (starter_ne hst rfl) hpe hsp3
        simpa [List.append_assoc] using this
      | true =>
        simp only [if_true] at htc
        obtain ⟨sd, t'', rfl, hsd, h''⟩ := map_tok_cons htc
        obtain rfl := map_tok_nil h''
        have := PParams.collect (acc := acc) (sp := sd) hsd hpe hsp3
        simpa [List.append_assoc] using this
    | cons j js =>
      simp only [List.map_cons, sepBody] at hts
      obtain ⟨tse, ts2, rfl, hte, h2⟩ := map_tok_append hts
      obtain ⟨sp3, ts3, rfl, hsp3, h3⟩ := map_tok_cons h2
      obtain ⟨e', he', hpe⟩ := he false tse (sp3 :: (ts3 ++ rest)) hte (stops_of_tok (by rw [hsp3]; rfl))
      obtain ⟨se, tse', rfl, hst⟩ := spans_start hte (prE_starts e 1)
      obtain ⟨args', hi', hpa⟩ := ih (fun i hi => h i (List.mem_cons_of_mem _ hi)) (fun _ => List.cons_ne_nil _ _)
        (e' :: acc) ts3 rest (by simpa [List.map_cons] using h3)
      refine ⟨e' :: args', by simp only [List.map_cons, he', hi'], ?_⟩
      have := PParams.more (acc := acc) (starter_ne hst rfl) (starter_ne hst rfl) hpe hsp3 (by simpa using hpa)
      simpa [List.append_assoc] using this

/-! ### object literals -/

/-- round trip of the expressions of a property item -/
def FEP : PropItem → Prop
  | .Pair k v => FEE k ∧ FEE v
  | .Single e _ _ => FEE e

/-- one property item, followed by `,` or `}` -/
theorem prop_rt (p : PropItem) (hp : FEP p) (acc : List PropItem) (tsp : List Span) (sp3 : Span) (r3 : List Span)
    (htp : tsp.map Span.tok = prProp p) (h3 : sp3.tok = .Comma ∨ sp3.tok = .BraceClose) :
    ∃ p', stripProp p' = stripProp p ∧
      ∀ res r', PPropTail (p' :: acc) (sp3 :: r3) res r' → PProps acc (tsp ++ sp3 :: r3) res r' := by
  have hf3 : isSpreadFollow (sp3 :: r3) = true := by rcases h3 with h | h <;> simp [isSpreadFollow, h]
  have hs3 : isStopTok sp3.tok = true := by rcases h3 with h | h <;> (rw [h]; rfl)
  have hnd : sp3.tok ≠ .DotDot := by rcases h3 with h | h <;> (rw [h]; decide)
  have hnc : sp3.tok ≠ .Colon := by rcases h3 with h | h <;> (rw [h]; decide)
  cases p with
  | Pair k v =>
    simp only [prProp] at htp
    obtain ⟨tsk, ts2, rfl, htk, h2⟩ := map_tok_append htp
    obtain ⟨sc, tsv, rfl, hsc, htv⟩ := map_tok_cons h2
    obtain ⟨k', hk', hpk⟩ := hp.1 true tsk (sc :: (tsv ++ sp3 :: r3)) htk (stops_of_tok (by rw [hsc]; rfl))
    obtain ⟨v', hv', hpv⟩ := hp.2 false tsv (sp3 :: r3) htv (stops_of_tok hs3)
    obtain ⟨sk, tsk', rfl, hst⟩ := spans_start htk (prE_starts k 1)
    refine ⟨.Pair k' v', by simp only [stripProp, hk', hv'], fun res r' hT => ?_⟩
    have := PProps.pair (acc := acc) (starter_ne hst rfl) (starter_ne hst rfl) hpk hsc hpv hT
    simpa [List.append_assoc] using this
  | Single e s c =>
    simp only [prProp] at htp
    obtain ⟨tsc, ts1, rfl, htc, h1⟩ := map_tok_append htp
    obtain ⟨tse, tsm, rfl, hte, htm⟩ := map_tok_append h1
    obtain ⟨sp2, hsp2, rfl⟩ := mark_spans htm
    obtain ⟨e', he', hpe⟩ := hp true tse ((if s then [sp2] else []) ++ sp3 :: r3) hte (stops_item hsp2 hf3 hs3)
    refine ⟨.Single e' s c, by simp only [stripProp, he'], fun res r' hT => ?_⟩
    cases c with
    | false =>
      obtain rfl := map_tok_nil (by simpa [spreadMark] using htc)
      obtain ⟨se, tse', rfl, hst⟩ := spans_start hte (prE_starts e 1)
      have := PProps.single (acc := acc) s (starter_ne hst rfl) (starter_ne hst rfl) hpe rfl hsp2 hnd hnc hT
      simpa [List.append_assoc] using this
    | true =>
      simp only [spreadMark, if_true] at htc
      obtain ⟨sd, t'', rfl, hsd, h''⟩ := map_tok_cons htc
      obtain rfl := map_tok_nil h''
      have := PProps.collect (acc := acc) (sp := sd) s hsd hpe rfl hsp2 hnd hT
      simpa [List.append_assoc] using this

/-- the items of an object literal after `{` -/
theorem props_rt (props : List PropItem) (h : ∀ p ∈ props, FEP p) :
    ∀ (acc : List PropItem) (ts rest : List Span),
      ts.map Span.tok = sepBody .BraceClose false (props.map prProp) →
      ∃ props', props'.map stripProp = props.map stripProp ∧
        PProps acc (ts ++ rest) (acc.reverse ++ props') rest := by
  induction props with
  | nil =>
    intro acc ts rest hts
    simp only [List.map_nil, sepBody] at hts
    obtain ⟨sp, t', rfl, hsp, h'⟩ := map_tok_cons hts
    obtain rfl := map_tok_nil h'
    exact ⟨[], rfl, by simpa using PProps.nil (acc := acc) (r := rest) hsp⟩
  | cons p ps ih =>
    intro acc ts rest hts
    have hp : FEP p := h p (List.mem_cons_self ..)
    cases ps with
    | nil =>
      simp only [List.map_cons, List.map_nil, sepBody, if_false, Bool.false_eq_true, List.nil_append] at hts
      obtain ⟨tsp, ts2, rfl, htp, h2⟩ := map_tok_append hts
      obtain ⟨sp3, t', rfl, hsp3, h'⟩ := map_tok_cons h2
      obtain rfl := map_tok_nil h'
      obtain ⟨p', hp', hk⟩ := prop_rt p hp acc tsp sp3 rest htp (Or.inr hsp3)
      refine ⟨[p'], by simp only [List.map_cons, List.map_nil, hp'], ?_⟩
      have := hk _ _ (PPropTail.close hsp3)
      simpa [List.append_assoc] using this
    | cons q qs =>
      simp only [List.map_cons, sepBody] at hts
      obtain ⟨tsp, ts2, rfl, htp, h2⟩ := map_tok_append hts
      obtain ⟨sp3, ts3, rfl, hsp3, h3⟩ := map_tok_cons h2
      obtain ⟨p', hp', hk⟩ := prop_rt p hp acc tsp sp3 (ts3 ++ rest) htp (Or.inl hsp3)
      obtain ⟨props', hi', hpa⟩ := ih (fun i hi => h i (List.mem_cons_of_mem _ hi)) (p' :: acc) ts3 rest
        (by simpa [List.map_cons] using h3)
      refine ⟨p' :: props', by simp only [List.map_cons, hp', hi'], ?_⟩
      have := hk _ _ (PPropTail.comma hsp3 hpa)
      simpa [List.append_assoc] using this

/-- `{ props }` in expression position -/
theorem AtomicR_object {props : List PropItem} (h : ∀ p ∈ props, FEP p) :
    AtomicR (.Object props) (prR 5 (.Object props)) := by
  intro ts rest hts
  simp only [prR, prProps_map] at hts
  obtain ⟨sp, tsa, rfl, hsp, hta⟩ := map_tok_cons hts
  obtain ⟨props', hi', hpl⟩ := props_rt props h [] tsa rest hta
  exact ⟨.Object props', by simp only [stripR, stripProps_map, hi'], PAtom.object hsp (by simpa using hpl)⟩

/-! ### function literals, given the round trip of the body -/

/-- round trip of a block `{ stmts }` -/
def BlockRT (stmts : List Stmt) : Prop :=
  ∀ (ts rest : List Span), ts.map Span.tok = prBlock stmts →
    ∃ stmts', stripStmts stmts' = stripStmts stmts ∧ PBlock (ts ++ rest) stmts' rest

/-- `fn ( params ) { stmts }` -/
theorem AtomicR_func {args : List Expr} {c : Bool} {stmts : List Stmt} (h : ∀ e ∈ args, FEE e)
    (hc : c = true → args ≠ []) (hb : BlockRT stmts) :
    AtomicR (.Func args c stmts) (prR 5 (.Func args c stmts)) := by
  intro ts rest hts
  simp only [prR, prEs_map] at hts
  obtain ⟨sf, ts1, rfl, hsf, h1⟩ := map_tok_cons hts
  obtain ⟨so, ts2, rfl, hso, h2⟩ := map_tok_cons h1
  obtain ⟨tsp, tsb, rfl, htp, htb⟩ := map_tok_append h2
  obtain ⟨stmts', hs', hpb⟩ := hb tsb rest htb
  obtain ⟨args', ha', hpp⟩ := params_rt c args h hc [] tsp (tsb ++ rest) htp
  refine ⟨.Func args' c stmts', by simp only [stripR, stripEs_map, ha', hs'], ?_⟩
  have := PAtom.func hsf hso (by simpa using hpp) hpb
  simpa [List.append_assoc] using this

end Seed
