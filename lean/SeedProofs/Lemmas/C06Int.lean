/-
  Lemmas/C06Int.lean — integer facts used by C06: the 64-bit range as inequalities, bounds and sign of the
  truncating remainder, bounds of the truncating quotient, decimal values of digit strings.
-/
import SeedModel.Prim
import SeedModel.Eval
import SeedModel.Lex
namespace Seed.C06
open Seed

/-! ### the 64-bit range -/

theorem inI64_iff (n : Int) : inI64 n = true ↔ -9223372036854775808 ≤ n ∧ n ≤ 9223372036854775807 := by
  unfold inI64 i64Min i64MaxI
  rw [Bool.and_eq_true, decide_eq_true_eq, decide_eq_true_eq]

theorem not_inI64_iff (n : Int) : inI64 n = false ↔ n < -9223372036854775808 ∨ 9223372036854775807 < n := by
  cases h : inI64 n
  · simp only [true_iff]
    have hn : ¬ (-9223372036854775808 ≤ n ∧ n ≤ 9223372036854775807) := fun hc => by
      have := (inI64_iff n).mpr hc
      rw [h] at this
      exact Bool.false_ne_true this
    omega
  · have := (inI64_iff n).mp h
    simp only [Bool.true_eq_false, false_iff]
    omega

/-! ### truncating division -/

/-- the remainder has the dividend's sign and is smaller in magnitude than the divisor -/
theorem tmod_bounds (a b : Int) (hb : b ≠ 0) :
    (0 ≤ a → 0 ≤ Int.tmod a b ∧ Int.tmod a b < b.natAbs) ∧
    (a ≤ 0 → -(b.natAbs : Int) < Int.tmod a b ∧ Int.tmod a b ≤ 0) := by
  constructor
  · intro ha
    have := (Int.tdiv_tmod_unique (q := Int.tdiv a b) (r := Int.tmod a b) ha hb).mp ⟨rfl, rfl⟩
    exact ⟨this.2.1, this.2.2⟩
  · intro ha
    have := (Int.tdiv_tmod_unique' (q := Int.tdiv a b) (r := Int.tmod a b) ha hb).mp ⟨rfl, rfl⟩
    exact ⟨this.2.1, this.2.2⟩

/-- the remainder is no larger in magnitude than the dividend -/
theorem tmod_natAbs_le (a b : Int) : (Int.tmod a b).natAbs ≤ a.natAbs := by
  rw [Int.natAbs_tmod]
  exact Nat.mod_le _ _

/-- the remainder lies between 0 and the dividend -/
theorem tmod_between (a b : Int) :
    (0 ≤ a → 0 ≤ Int.tmod a b ∧ Int.tmod a b ≤ a) ∧ (a ≤ 0 → a ≤ Int.tmod a b ∧ Int.tmod a b ≤ 0) := by
  have hle := tmod_natAbs_le a b
  constructor
  · intro ha
    have h0 : 0 ≤ Int.tmod a b := Int.tmod_nonneg b ha
    omega
  · intro ha
    have h0 : Int.tmod a b ≤ 0 := by
      have := Int.tmod_nonneg (a := -a) b (by omega)
      rw [Int.neg_tmod] at this
      omega
    omega

theorem tmod_inI64 {a : Int} (b : Int) (ha : inI64 a = true) : inI64 (Int.tmod a b) = true := by
  rw [inI64_iff] at *
  have := tmod_between a b
  omega

/-- the quotient is no larger in magnitude than the dividend -/
theorem tdiv_between (a b : Int) : (Int.tdiv a b).natAbs ≤ a.natAbs := Int.natAbs_tdiv_le_natAbs a b

/-! ### decimal digit strings -/

theorem decimalValue_nil : decimalValue [] = 0 := rfl

theorem foldl_dec_append (ds es : List Char) (acc : Nat) :
    (ds ++ es).foldl (fun acc c => acc * 10 + digitVal c) acc =
      es.foldl (fun acc c => acc * 10 + digitVal c) (ds.foldl (fun acc c => acc * 10 + digitVal c) acc) := by
  simp [List.foldl_append]

/-- appending a digit multiplies by ten and adds the digit -/
theorem decimalValue_snoc (ds : List Char) (d : Char) : decimalValue (ds ++ [d]) = decimalValue ds * 10 + digitVal d := by
  simp [decimalValue, List.foldl_append]

theorem foldl_dec_zero_cons (ds : List Char) :
    decimalValue ('0' :: ds) = decimalValue ds := by
  simp [decimalValue, digitVal]

/-- value of the digit string `ds` started from the accumulator `acc`:  acc·10^|ds| + value ds -/
theorem foldl_dec_acc (ds : List Char) (acc : Nat) :
    ds.foldl (fun acc c => acc * 10 + digitVal c) acc = acc * 10 ^ ds.length + decimalValue ds := by
  induction ds generalizing acc with
  | nil => simp [decimalValue]
  | cons d r ih =>
    simp only [List.foldl_cons, List.length_cons, decimalValue]
    rw [ih, ih (0 * 10 + digitVal d)]
    rw [Nat.pow_succ]
    simp only [Nat.zero_mul, Nat.zero_add]
    rw [Nat.add_mul, Nat.add_assoc, Nat.mul_assoc, Nat.mul_comm 10]

/-- positional value: the first digit weighs 10^(number of digits after it) -/
theorem decimalValue_cons (d : Char) (ds : List Char) :
    decimalValue (d :: ds) = digitVal d * 10 ^ ds.length + decimalValue ds := by
  have := foldl_dec_acc ds (0 * 10 + digitVal d)
  simp only [Nat.zero_mul, Nat.zero_add] at this
  simpa [decimalValue] using this

end Seed.C06
