/-
  Lemmas/Scan.lean — helper lemmas about the scanner/lexer model of SeedModel/Lex.lean.

  Part A: every scanner-transforming function only ever *advances* the scanner.
  Part B: `posOf`, a scanner-independent specification of line/column, and the invariant
          `scan_pos : ((Scanner.new src).advance k).loc = posOf src k`.
  Part C: the shape of `nextToken` results in terms of `advance`.
-/
import SeedModel.Lex
namespace Seed

/-! ## Part A: advancing -/

theorem Scanner.advance_zero (s : Scanner) : s.advance 0 = s := rfl

theorem Scanner.advance_succ (s : Scanner) (n : Nat) : s.advance (n + 1) = s.next.advance n := rfl

theorem Scanner.advance_one (s : Scanner) : s.advance 1 = s.next := rfl

theorem Scanner.advance_add (s : Scanner) (m n : Nat) :
    (s.advance m).advance n = s.advance (m + n) := by
  induction m generalizing s with
  | zero => simp [Scanner.advance]
  | succ m ih =>
    have : m + 1 + n = (m + n) + 1 := by omega
    rw [this, Scanner.advance_succ, Scanner.advance_succ, ih]

theorem Scanner.advance_succ' (s : Scanner) (n : Nat) : s.advance (n + 1) = (s.advance n).next := by
  rw [← Scanner.advance_one (s.advance n), Scanner.advance_add]

theorem Scanner.next_rest (s : Scanner) : s.next.rest = s.rest.drop 1 := by
  unfold Scanner.next
  split
  · next h => simp [h]
  · next h => simp [h]

theorem Scanner.advance_rest (s : Scanner) (n : Nat) : (s.advance n).rest = s.rest.drop n := by
  induction n generalizing s with
  | zero => simp [Scanner.advance]
  | succ n ih =>
    rw [Scanner.advance_succ, ih, Scanner.next_rest, List.drop_drop]
    congr 1; omega

theorem Scanner.advance_rest_length (s : Scanner) (n : Nat) :
    (s.advance n).rest.length = s.rest.length - n := by
  rw [Scanner.advance_rest, List.length_drop]

/-- at the end of input `next` is the identity -/
theorem Scanner.next_of_rest_nil (s : Scanner) (h : s.rest = []) : s.next = s := by
  unfold Scanner.next; simp [h]

theorem Scanner.advance_of_rest_nil (s : Scanner) (h : s.rest = []) (n : Nat) : s.advance n = s := by
  induction n with
  | zero => rfl
  | succ n ih => rw [Scanner.advance_succ, Scanner.next_of_rest_nil s h, ih]

/-- advancing past the end is the same as advancing to the end -/
theorem Scanner.advance_min (s : Scanner) (n : Nat) : s.advance n = s.advance (min n s.rest.length) := by
  by_cases h : n ≤ s.rest.length
  · rw [Nat.min_eq_left h]
  · have h' : s.rest.length ≤ n := by omega
    rw [Nat.min_eq_right h']
    obtain ⟨d, rfl⟩ : ∃ d, n = s.rest.length + d := ⟨n - s.rest.length, by omega⟩
    rw [← Scanner.advance_add]
    apply Scanner.advance_of_rest_nil
    rw [Scanner.advance_rest]; simp

theorem advance_add (s : Scanner) (m n : Nat) : (s.advance m).advance n = s.advance (m + n) :=
  s.advance_add m n
theorem advance_rest (s : Scanner) (n : Nat) : (s.advance n).rest = s.rest.drop n := s.advance_rest n
theorem advance_rest_length (s : Scanner) (n : Nat) : (s.advance n).rest.length = s.rest.length - n :=
  s.advance_rest_length n

theorem Scanner.next_mk_cons (ch : Char) (r : List Char) (l c : Nat) :
    (Scanner.mk (ch :: r) l c).next = ⟨r, (locAfter l c r.head?).1, (locAfter l c r.head?).2⟩ := rfl

theorem Scanner.next_eq_advance (s : Scanner) : ∃ n, s.next = s.advance n := ⟨1, rfl⟩

theorem Scanner.advance_eq_advance (s : Scanner) (k : Nat) : ∃ n, s.advance k = s.advance n := ⟨k, rfl⟩

theorem skipComment_advance (r : List Char) (l c : Nat) :
    ∃ n, skipComment r l c = (Scanner.mk r l c).advance n := by
  induction r generalizing l c with
  | nil => exact ⟨0, rfl⟩
  | cons ch r ih =>
    unfold skipComment
    split
    · exact ⟨0, rfl⟩
    · obtain ⟨n, hn⟩ := ih (locAfter l c r.head?).1 (locAfter l c r.head?).2
      exact ⟨n + 1, by rw [Scanner.advance_succ, Scanner.next_mk_cons]; exact hn⟩

theorem skipWs_advance (r : List Char) (l c : Nat) :
    ∃ n, skipWs r l c = (Scanner.mk r l c).advance n := by
  induction r generalizing l c with
  | nil => exact ⟨0, rfl⟩
  | cons ch r ih =>
    unfold skipWs
    split
    · exact skipComment_advance _ _ _
    · split
      · exact ⟨0, rfl⟩
      · obtain ⟨n, hn⟩ := ih (locAfter l c r.head?).1 (locAfter l c r.head?).2
        exact ⟨n + 1, by rw [Scanner.advance_succ, Scanner.next_mk_cons]; exact hn⟩

theorem Scanner.skipWs_advance (s : Scanner) : ∃ n, s.skipWs = s.advance n :=
  Seed.skipWs_advance s.rest s.line s.col

/-- the character a lexical error complains about (`none` for `IntOverflow`, which is about a whole literal) -/
def LexError.offender : LexError → Option Char
  | .Unexpected _ c => some c
  | .IntOverflow _ _ => none
  | .UnescapedDollar _ => some '$'
  | .InvalidInterpolationStart _ c => some c
  | .InvalidEscapeChar _ c => some c
  | .InvalidHexChar _ c => some c

/-- the errors raised inside string literals -/
def LexError.isStr : LexError → Bool
  | .Unexpected _ _ => false
  | .IntOverflow _ _ => false
  | _ => true

theorem strStep_fail {interp : Bool} {a : StrAcc} {ch : Char} {loc : Loc} {e : LexError}
    (h : strStep interp a ch loc = .fail e) :
    e.loc = loc ∧ e.offender = some ch ∧ e.isStr = true := by
  unfold strStep at h
  repeat' split at h
  all_goals first
    | (injection h with h; subst h; simp [LexError.loc, LexError.offender, LexError.isStr, *])
    | cases h
    | (simp only at h; split at h <;> cases h)

theorem strLoop_ok_advance {interp : Bool} {r : List Char} {l c : Nat} {a a' : StrAcc} {s' : Scanner}
    (h : strLoop interp r l c a = .ok (a', s')) : ∃ n, s' = (Scanner.mk r l c).advance n := by
  induction r generalizing l c a with
  | nil =>
    unfold strLoop at h
    injection h with h; injection h with _ h
    exact ⟨0, h.symm⟩
  | cons ch r ih =>
    unfold strLoop at h
    simp only at h
    split at h
    · cases h
    · injection h with h; injection h with _ h
      exact ⟨1, h.symm⟩
    · obtain ⟨n, hn⟩ := ih h
      exact ⟨n + 1, by rw [Scanner.advance_succ, Scanner.next_mk_cons]; exact hn⟩

theorem strLoop_error {interp : Bool} {r : List Char} {l c : Nat} {a : StrAcc} {e : LexError}
    (h : strLoop interp r l c a = .error e) :
    ∃ n ch, ((Scanner.mk r l c).advance n).rest.head? = some ch ∧
      e.loc = ((Scanner.mk r l c).advance n).loc ∧ e.offender = some ch ∧ e.isStr = true := by
  induction r generalizing l c a with
  | nil => unfold strLoop at h; cases h
  | cons ch r ih =>
    unfold strLoop at h
    simp only at h
    split at h
    · next hs =>
      injection h with h; subst h
      obtain ⟨h1, h2, h3⟩ := strStep_fail hs
      exact ⟨0, ch, rfl, h1, h2, h3⟩
    · cases h
    · obtain ⟨n, ch', h1, h2, h3, h4⟩ := ih h
      exact ⟨n + 1, ch', by rw [Scanner.advance_succ, Scanner.next_mk_cons]; exact ⟨h1, h2, h3, h4⟩⟩

theorem lexStr_ok_advance {interp : Bool} {s s' : Scanner} {t : Token}
    (h : lexStr interp s = .ok (t, s')) : ∃ n, 1 ≤ n ∧ s' = s.advance n := by
  unfold lexStr at h
  simp only at h
  split at h
  · cases h
  · next a s'' hl =>
    have hs : s' = s'' := by
      split at h <;> (injection h with h; injection h with _ h; exact h.symm)
    obtain ⟨n, hn⟩ := strLoop_ok_advance hl
    refine ⟨1 + n, by omega, ?_⟩
    rw [hs, hn, ← Scanner.advance_add, Scanner.advance_one]

theorem lexStr_error {interp : Bool} {s : Scanner} {e : LexError}
    (h : lexStr interp s = .error e) :
    ∃ n ch, 1 ≤ n ∧ (s.advance n).rest.head? = some ch ∧ e.loc = (s.advance n).loc ∧
      e.offender = some ch ∧ e.isStr = true := by
  unfold lexStr at h
  simp only at h
  split at h
  · next e' hl =>
    injection h with h; subst h
    obtain ⟨n, ch, h1, h2, h3, h4⟩ := strLoop_error hl
    refine ⟨1 + n, ch, by omega, ?_⟩
    rw [← Scanner.advance_add, Scanner.advance_one]
    exact ⟨h1, h2, h3, h4⟩
  · split at h <;> cases h

theorem lexInt_ok {s s' : Scanner} {t : Token} (h : lexInt s = .ok (t, s')) :
    s' = s.advance (s.rest.takeWhile isIntChar).length := by
  unfold lexInt at h
  simp only at h
  split at h
  · injection h with h; injection h with _ h; exact h.symm
  · cases h

theorem lexInt_ok_advance {s s' : Scanner} {t : Token} (h : lexInt s = .ok (t, s')) :
    ∃ n, s' = s.advance n := ⟨_, lexInt_ok h⟩

theorem lexInt_error {s : Scanner} {e : LexError} (h : lexInt s = .error e) :
    e = LexError.IntOverflow s.loc (s.rest.takeWhile isIntChar) := by
  unfold lexInt at h
  simp only at h
  split at h
  · cases h
  · injection h with h; exact h.symm

theorem lexMultiSym_advance {c1 : Char} {s s' : Scanner} {o : Option Token}
    (h : lexMultiSym c1 s = (o, s')) : ∃ n, 1 ≤ n ∧ s' = s.advance n := by
  unfold lexMultiSym at h
  simp only at h
  repeat' split at h
  all_goals
    injection h with _ h
    first
      | exact ⟨1, by omega, h.symm⟩
      | exact ⟨2, by omega, h.symm⟩
      | exact ⟨3, by omega, h.symm⟩

theorem lexSym_advance {c1 : Char} {s s' : Scanner} {o : Option Token}
    (h : lexSym c1 s = (o, s')) : ∃ n, 1 ≤ n ∧ s' = s.advance n := by
  unfold lexSym at h
  simp only at h
  split at h
  · exact lexMultiSym_advance h
  · repeat' split at h
    all_goals
      injection h with _ h
      first
        | exact ⟨1, by omega, h.symm⟩
        | exact ⟨2, by omega, h.symm⟩
        | exact ⟨3, by omega, h.symm⟩

/-! ## Part B: the position specification -/

/-- line number at the end of the text `l` (lines count from 1): one more than its number of newlines -/
def lineOf (l : List Char) : Nat := 1 + l.count '\n'

/-- column at the end of the text `l`: the number of characters after its last newline -/
def colOf (l : List Char) : Nat := (l.reverse.takeWhile (· ≠ '\n')).length

/-- line/column of the character at offset `k` of `src`, as the scanner reports it:
    line = 1 + number of '\n' among `src[0..k]` inclusive; col = number of chars after the last
    '\n' in `src[0..k]` inclusive (so a '\n' itself has col 0, on the *next* line).  For
    `k ≥ src.length` it is the position of the last character (`take` saturates), and `(1,1)` for
    the empty source.  Every character other than '\n' counts as one column. -/
def posOf (src : List Char) (k : Nat) : Nat × Nat :=
  match src with
  | [] => (1, 1)
  | _ :: _ => (lineOf (src.take (k + 1)), colOf (src.take (k + 1)))

theorem lineOf_snoc (l : List Char) (c : Char) :
    lineOf (l ++ [c]) = if c = '\n' then lineOf l + 1 else lineOf l := by
  unfold lineOf
  rw [List.count_append]
  by_cases h : c = '\n'
  · subst h; simp; omega
  · simp [h]

theorem colOf_snoc (l : List Char) (c : Char) :
    colOf (l ++ [c]) = if c = '\n' then 0 else colOf l + 1 := by
  unfold colOf
  rw [List.reverse_append]
  by_cases h : c = '\n'
  · subst h; simp
  · simp [h]

theorem lineOf_append (p t : List Char) : lineOf (p ++ t) = lineOf p + t.count '\n' := by
  unfold lineOf; rw [List.count_append]; omega

theorem takeWhile_append_of_exists {α} (p : α → Bool) (l₁ l₂ : List α) (h : ∃ a ∈ l₁, p a = false) :
    (l₁ ++ l₂).takeWhile p = l₁.takeWhile p := by
  induction l₁ with
  | nil => obtain ⟨a, ha, _⟩ := h; cases ha
  | cons x l ih =>
    simp only [List.cons_append, List.takeWhile_cons]
    cases hx : p x with
    | false => rfl
    | true =>
      simp only [↓reduceIte]
      congr 1
      apply ih
      obtain ⟨a, ha, hpa⟩ := h
      rcases List.mem_cons.mp ha with rfl | ha
      · rw [hx] at hpa; cases hpa
      · exact ⟨a, ha, hpa⟩

theorem colOf_append_of_mem (p t : List Char) (h : '\n' ∈ t) : colOf (p ++ t) = colOf t := by
  unfold colOf
  rw [List.reverse_append, takeWhile_append_of_exists]
  exact ⟨'\n', by simpa using h, by simp⟩

theorem colOf_append_of_not_mem (p t : List Char) (h : '\n' ∉ t) :
    colOf (p ++ t) = colOf p + t.length := by
  unfold colOf
  rw [List.reverse_append, List.takeWhile_append_of_pos]
  · simp; omega
  · intro a ha
    have : a ≠ '\n' := by intro e; subst e; exact h (by simpa using ha)
    simpa using this

theorem colOf_nil : colOf [] = 0 := rfl
theorem lineOf_nil : lineOf [] = 1 := rfl

theorem colOf_of_not_mem (t : List Char) (h : '\n' ∉ t) : colOf t = t.length := by
  have := colOf_append_of_not_mem [] t h
  simpa [colOf_nil] using this

theorem posOf_nil (k : Nat) : posOf [] k = (1, 1) := rfl

theorem posOf_of_ne_nil {src : List Char} (h : src ≠ []) (k : Nat) :
    posOf src k = (lineOf (src.take (k + 1)), colOf (src.take (k + 1))) := by
  cases src with
  | nil => exact absurd rfl h
  | cons => rfl

theorem posOf_zero (src : List Char) : posOf src 0 = (Scanner.new src).loc := by
  cases src with
  | nil => rfl
  | cons c r =>
    by_cases h : c = '\n'
    · subst h; rfl
    · have : Scanner.new (c :: r) = ⟨c :: r, 1, 1⟩ := by
        unfold Scanner.new
        split
        · next heq => injection heq with h1 _; exact absurd h1 h
        · rfl
      rw [this]
      simp [posOf, Scanner.loc, lineOf, colOf, h]

/-- recursive characterisation of `posOf`: exactly the scanner's update rule -/
theorem posOf_succ (src : List Char) (k : Nat) :
    posOf src (k + 1) = locAfter (posOf src k).1 (posOf src k).2 src[k + 1]? := by
  cases src with
  | nil => rfl
  | cons c r =>
    simp only [posOf]
    rw [List.take_add_one (i := k + 1)]
    cases h : (c :: r)[k + 1]? with
    | none => simp [locAfter]
    | some ch =>
      simp only [Option.toList_some, lineOf_snoc, colOf_snoc, locAfter]
      split <;> rfl

theorem posOf_of_length_le (src : List Char) (k : Nat) (h : src.length ≤ k + 1) :
    posOf src k = posOf src (src.length - 1) := by
  cases src with
  | nil => rfl
  | cons c r =>
    simp only [posOf]
    rw [List.take_of_length_le h, List.take_of_length_le (by simp)]

theorem Scanner.next_loc (s : Scanner) :
    s.next.loc = locAfter s.line s.col (s.rest.drop 1).head? := by
  unfold Scanner.next
  split
  · next h => simp [h, locAfter, Scanner.loc]
  · next h => simp [h, Scanner.loc]

theorem Scanner.new_rest (src : List Char) : (Scanner.new src).rest = src := by
  unfold Scanner.new; split <;> rfl

theorem scan_rest (src : List Char) (k : Nat) : ((Scanner.new src).advance k).rest = src.drop k := by
  rw [Scanner.advance_rest, Scanner.new_rest]

/-- the scanner invariant: after `k` steps the scanner reports the position of offset `k`
    (for `k ≥ src.length` that of the last character, where it stays put) -/
theorem scan_pos (src : List Char) (k : Nat) : ((Scanner.new src).advance k).loc = posOf src k := by
  induction k with
  | zero => exact (posOf_zero src).symm
  | succ k ih =>
    rw [Scanner.advance_succ', Scanner.next_loc, posOf_succ, scan_rest, List.drop_drop,
      List.head?_drop, ← ih]
    rfl

theorem scan_pos_of_length_le (src : List Char) (k : Nat) (h : src.length ≤ k) :
    ((Scanner.new src).advance k).loc = posOf src (src.length - 1) := by
  rw [scan_pos]; exact posOf_of_length_le src k (by omega)

theorem scan_head (src : List Char) (k : Nat) : ((Scanner.new src).advance k).rest.head? = src[k]? := by
  rw [scan_rest, List.head?_drop]

theorem posOf_line_le (src : List Char) (k : Nat) : (posOf src k).1 ≤ 1 + src.count '\n' := by
  cases src with
  | nil => simp [posOf]
  | cons c r =>
    simp only [posOf, lineOf]
    have := (List.take_sublist (k + 1) (c :: r)).count_le '\n'
    omega

theorem posOf_line_ge_one (src : List Char) (k : Nat) : 1 ≤ (posOf src k).1 := by
  cases src with
  | nil => simp [posOf]
  | cons c r => simp only [posOf, lineOf]; omega

theorem line_le (src : List Char) (k : Nat) :
    ((Scanner.new src).advance k).line ≤ 1 + src.count '\n' := by
  have := posOf_line_le src k
  rw [← scan_pos] at this; exact this

theorem line_ge_one (src : List Char) (k : Nat) : 1 ≤ ((Scanner.new src).advance k).line := by
  have := posOf_line_ge_one src k
  rw [← scan_pos] at this; exact this

/-! ## Part C: the shape of `nextToken` -/

theorem takeWhile_length_pos {α} (p : α → Bool) (c : α) (r : List α) (h : p c = true) :
    1 ≤ ((c :: r).takeWhile p).length := by
  simp [h]

theorem isIdentChar_of_start {c : Char} (h : (isAsciiAlpha c || c = '_') = true) : isIdentChar c = true := by
  unfold isIdentChar
  simp only [Bool.or_eq_true, decide_eq_true_eq] at h ⊢
  rcases h with h | h
  · exact Or.inl (Or.inl h)
  · exact Or.inr h

theorem isIntChar_of_digit {c : Char} (h : isAsciiDigit c = true) : isIntChar c = true := by
  unfold isIntChar; simp [h]

/-- a token: starts at the scanner position after whitespace, consumes at least one character -/
theorem nextToken_tok_shape {s0 s' : Scanner} {sp : Span} (h : nextToken s0 = .tok sp s') :
    s0.skipWs.rest ≠ [] ∧ sp.start = s0.skipWs.loc ∧ sp.stop = endLoc s' ∧
      ∃ j, 1 ≤ j ∧ s' = s0.skipWs.advance j := by
  unfold nextToken at h
  simp only at h
  generalize s0.skipWs = s at h ⊢
  split at h
  · cases h
  · next c r hr =>
    split at h
    · cases h
    · next t s'' hres =>
      injection h with h1 h2
      subst h2
      refine ⟨by simp [hr], by rw [← h1], by rw [← h1], ?_⟩
      clear h1
      split at hres
      · injection hres with hres; injection hres with _ hres
        exact ⟨1, Nat.le_refl _, hres.symm⟩
      · split at hres
        · next hc =>
          injection hres with hres; injection hres with _ hres
          refine ⟨_, ?_, hres.symm⟩
          rw [hr]; exact takeWhile_length_pos _ _ _ (isIdentChar_of_start hc)
        · split at hres
          · next hc =>
            refine ⟨_, ?_, lexInt_ok hres⟩
            rw [hr]; exact takeWhile_length_pos _ _ _ (isIntChar_of_digit hc)
          · split at hres
            · exact lexStr_ok_advance hres
            · split at hres
              · obtain ⟨n, hn, he⟩ := lexStr_ok_advance hres
                refine ⟨1 + n, by omega, ?_⟩
                rw [← Scanner.advance_add, Scanner.advance_one]; exact he
              · split at hres
                · next t' s3 hsym =>
                  injection hres with hres; injection hres with _ hres
                  subst hres
                  exact lexSym_advance hsym
                · cases hres

/-- a lexical error is one of: `Unexpected` at the token start, about the token's first character;
    `IntOverflow` at the token start, which is a digit; or a string-literal error pointing at its
    offending character, strictly after the token start -/
theorem nextToken_err_shape {s0 : Scanner} {e : LexError} (h : nextToken s0 = .err e) :
    ∃ c r, s0.skipWs.rest = c :: r ∧
      (e = LexError.Unexpected s0.skipWs.loc c ∨
       (isAsciiDigit c = true ∧
          e = LexError.IntOverflow s0.skipWs.loc (s0.skipWs.rest.takeWhile isIntChar)) ∨
       (e.isStr = true ∧ ∃ j ch, 1 ≤ j ∧ (s0.skipWs.advance j).rest.head? = some ch ∧
          e.loc = (s0.skipWs.advance j).loc ∧ e.offender = some ch)) := by
  unfold nextToken at h
  simp only at h
  generalize s0.skipWs = s at h ⊢
  split at h
  · cases h
  · next c r hr =>
    refine ⟨c, r, hr, ?_⟩
    split at h
    · next e' hres =>
      injection h with h; subst h
      split at hres
      · cases hres
      · split at hres
        · cases hres
        · split at hres
          · next hc => exact Or.inr (Or.inl ⟨hc, lexInt_error hres⟩)
          · split at hres
            · obtain ⟨n, ch, hn, h1, h2, h3, h4⟩ := lexStr_error hres
              exact Or.inr (Or.inr ⟨h4, n, ch, hn, h1, h2, h3⟩)
            · split at hres
              · obtain ⟨n, ch, hn, h1, h2, h3, h4⟩ := lexStr_error hres
                refine Or.inr (Or.inr ⟨h4, 1 + n, ch, by omega, ?_⟩)
                rw [← Scanner.advance_add, Scanner.advance_one]
                exact ⟨h1, h2, h3⟩
              · split at hres
                · cases hres
                · injection hres with hres; subst hres
                  exact Or.inl rfl
    · cases h

/-- the location of a lexical error is the location of some scanner reachable from the token start -/
theorem nextToken_err_loc {s0 : Scanner} {e : LexError} (h : nextToken s0 = .err e) :
    ∃ j, e.loc = (s0.skipWs.advance j).loc := by
  obtain ⟨c, r, _, h | ⟨_, h⟩ | ⟨_, j, _, _, _, h, _⟩⟩ := nextToken_err_shape h
  · exact ⟨0, by rw [h]; rfl⟩
  · exact ⟨0, by rw [h]; rfl⟩
  · exact ⟨j, h⟩

theorem nextToken_eof_shape {s0 : Scanner} (h : nextToken s0 = .eof) : s0.skipWs.rest = [] := by
  unfold nextToken at h
  simp only at h
  generalize s0.skipWs = s at h ⊢
  split at h
  · assumption
  · split at h <;> cases h

/-- `nextToken` only advances, and strictly so -/
theorem nextToken_advance {s s' : Scanner} {sp : Span} (h : nextToken s = .tok sp s') :
    ∃ n, 1 ≤ n ∧ n ≤ s.rest.length ∧ s' = s.advance n := by
  obtain ⟨hne, _, _, j, hj, hs'⟩ := nextToken_tok_shape h
  obtain ⟨m, hm⟩ := s.skipWs_advance
  rw [hm, Scanner.advance_add] at hs'
  rw [hm, Scanner.advance_rest] at hne
  have hlen : m < s.rest.length := by
    apply Nat.lt_of_not_le; intro hle; exact hne (List.drop_of_length_le hle)
  refine ⟨min (m + j) s.rest.length, by omega, Nat.min_le_right _ _, ?_⟩
  rw [← Scanner.advance_min]; exact hs'

/-- token start/stop and resulting scanner, relative to a reachable scanner -/
theorem nextToken_tok_reach {src : List Char} {k : Nat} {s' : Scanner} {sp : Span}
    (h : nextToken ((Scanner.new src).advance k) = .tok sp s') :
    ∃ i j, k ≤ i ∧ i < j ∧ i < src.length ∧ j ≤ src.length ∧
      ((Scanner.new src).advance k).skipWs = (Scanner.new src).advance i ∧
      sp.start = ((Scanner.new src).advance i).loc ∧
      s' = (Scanner.new src).advance j ∧ sp.stop = endLoc s' := by
  obtain ⟨hne, hstart, hstop, j, hj, hs'⟩ := nextToken_tok_shape h
  obtain ⟨m, hm⟩ := ((Scanner.new src).advance k).skipWs_advance
  rw [Scanner.advance_add] at hm
  rw [hm] at hne hstart hs'
  rw [Scanner.advance_add, Scanner.advance_min, Scanner.new_rest] at hs'
  have hlt : k + m < src.length := by
    rw [scan_rest] at hne
    apply Nat.lt_of_not_le; intro hle; exact hne (List.drop_of_length_le hle)
  exact ⟨k + m, min (k + m + j) src.length, by omega, by omega, hlt, Nat.min_le_right _ _,
    hm, hstart, hs', hstop⟩

/-- a lexical error, relative to a reachable scanner, with positions given by `posOf` -/
theorem nextToken_err_reach {src : List Char} {k : Nat} {e : LexError}
    (h : nextToken ((Scanner.new src).advance k) = .err e) :
    ∃ i c, k ≤ i ∧ ((Scanner.new src).advance k).skipWs = (Scanner.new src).advance i ∧
      src[i]? = some c ∧
      (e = LexError.Unexpected (posOf src i) c ∨
       (isAsciiDigit c = true ∧
          e = LexError.IntOverflow (posOf src i) ((src.drop i).takeWhile isIntChar)) ∨
       (e.isStr = true ∧ ∃ i' ch, i < i' ∧ src[i']? = some ch ∧ e.loc = posOf src i' ∧
          e.offender = some ch)) := by
  obtain ⟨c, r, hr, hcases⟩ := nextToken_err_shape h
  obtain ⟨m, hm⟩ := ((Scanner.new src).advance k).skipWs_advance
  rw [Scanner.advance_add] at hm
  rw [hm] at hr hcases
  have hc : src[k + m]? = some c := by rw [← scan_head, hr]; rfl
  refine ⟨k + m, c, by omega, hm, hc, ?_⟩
  rw [scan_pos, scan_rest] at hcases
  rcases hcases with h1 | h2 | ⟨h3, j, ch, hj, hh, hl, ho⟩
  · exact Or.inl h1
  · exact Or.inr (Or.inl h2)
  · rw [Scanner.advance_add, scan_pos] at hl
    rw [Scanner.advance_add, scan_head] at hh
    exact Or.inr (Or.inr ⟨h3, k + m + j, ch, by omega, hh, hl, ho⟩)

theorem endLoc_line (s : Scanner) : (endLoc s).1 = s.line := by
  unfold endLoc; split <;> rfl

/-- the end location of a token whose scanner stops at offset `j`: the position of the last
    consumed character `j - 1` — unless the next character is a newline, in which case it is the
    newline's own position `(line + 1, 0)` -/
theorem endLoc_reach (src : List Char) (j : Nat) (h1 : 1 ≤ j) (h2 : j ≤ src.length) :
    endLoc ((Scanner.new src).advance j) =
      if src[j]? = some '\n' then posOf src j else posOf src (j - 1) := by
  obtain ⟨j, rfl⟩ : ∃ j', j = j' + 1 := ⟨j - 1, by omega⟩
  have hloc := scan_pos src (j + 1)
  have hrest := scan_rest src (j + 1)
  generalize (Scanner.new src).advance (j + 1) = s at hloc hrest
  have hsucc := posOf_succ src j
  simp only [Nat.add_sub_cancel]
  unfold endLoc
  cases hj : src[j + 1]? with
  | none =>
    have hlen : src.length ≤ j + 1 := by
      rcases Nat.lt_or_ge (j + 1) src.length with hlt | hge
      · rw [List.getElem?_eq_getElem hlt] at hj; cases hj
      · exact hge
    rw [hrest, List.drop_of_length_le hlen]
    simp only [ne_eq, not_true_eq_false, decide_false, Bool.false_and, Bool.false_eq_true,
      ↓reduceIte, reduceCtorEq]
    rw [hj] at hsucc
    change s.loc = _
    rw [hloc, hsucc]; rfl
  | some ch =>
    rw [hj] at hsucc
    simp only [locAfter] at hsucc
    have hl : s.line = (posOf src (j + 1)).1 := by rw [← hloc]; rfl
    have hc : s.col = (posOf src (j + 1)).2 := by rw [← hloc]; rfl
    by_cases hnl : ch = '\n'
    · subst hnl
      simp only [↓reduceIte] at hsucc ⊢
      have : s.col = 0 := by rw [hc, hsucc]
      simp only [this, Nat.lt_irrefl, gt_iff_lt, decide_false, Bool.and_false, Bool.false_eq_true,
        ↓reduceIte]
      rw [← this]; exact hloc
    · simp only [hnl, ↓reduceIte, Option.some.injEq] at hsucc ⊢
      have hne : s.rest ≠ [] := by
        rw [hrest]; intro h0
        have := List.drop_eq_nil_iff.mp h0
        rw [List.getElem?_eq_none this] at hj; cases hj
      have hcol : s.col = (posOf src j).2 + 1 := by rw [hc, hsucc]
      have hline : s.line = (posOf src j).1 := by rw [hl, hsucc]
      simp [hne, hcol, hline]

/-- all line numbers the lexer reports satisfy `P` as soon as all reachable scanner lines do -/
theorem lexRaw_lines_bounded (src : List Char) (P : Nat → Prop)
    (hP : ∀ k, P ((Scanner.new src).advance k).line) (n k : Nat) :
    (∀ sp ∈ (lexRaw n ((Scanner.new src).advance k)).1, P sp.start.1 ∧ P sp.stop.1) ∧
    (∀ e, (lexRaw n ((Scanner.new src).advance k)).2 = some e → P e.loc.1) := by
  induction n generalizing k with
  | zero => unfold lexRaw; simp
  | succ n ih =>
    unfold lexRaw
    cases h : nextToken ((Scanner.new src).advance k) with
    | eof => simp
    | err e =>
      simp only [List.not_mem_nil, false_implies, implies_true, true_and, Option.some.injEq]
      intro e' he'; subst he'
      obtain ⟨j, hloc⟩ := nextToken_err_loc h
      obtain ⟨m, hm⟩ := ((Scanner.new src).advance k).skipWs_advance
      rw [hm, Scanner.advance_add, Scanner.advance_add] at hloc
      rw [hloc]; exact hP _
    | tok sp s' =>
      obtain ⟨i, j, _, _, _, _, _, hstart, hs', hstop⟩ := nextToken_tok_reach h
      subst hs'
      simp only
      refine ⟨?_, (ih j).2⟩
      intro sp' hsp'
      rcases List.mem_cons.mp hsp' with rfl | hsp'
      · rw [hstart, hstop, endLoc_line]; exact ⟨hP _, hP _⟩
      · exact (ih j).1 sp' hsp'

/-- every span of the raw stream is the result of `nextToken` on a later reachable scanner -/
theorem lexRaw_mem_reach (src : List Char) (n k : Nat) (sp : Span)
    (h : sp ∈ (lexRaw n ((Scanner.new src).advance k)).1) :
    ∃ k' s', k ≤ k' ∧ nextToken ((Scanner.new src).advance k') = .tok sp s' := by
  induction n generalizing k with
  | zero => unfold lexRaw at h; cases h
  | succ n ih =>
    unfold lexRaw at h
    cases ht : nextToken ((Scanner.new src).advance k) with
    | eof => rw [ht] at h; cases h
    | err e => rw [ht] at h; cases h
    | tok sp0 s' =>
      rw [ht] at h
      simp only at h
      rcases List.mem_cons.mp h with rfl | h
      · exact ⟨k, s', Nat.le_refl _, ht⟩
      · obtain ⟨i, j, _, _, _, _, _, _, hs', _⟩ := nextToken_tok_reach ht
        subst hs'
        obtain ⟨k', s'', hk', hn⟩ := ih j h
        exact ⟨k', s'', by omega, hn⟩

/-- the error ending the raw stream is the result of `nextToken` on a later reachable scanner -/
theorem lexRaw_err_reach (src : List Char) (n k : Nat) (e : LexError)
    (h : (lexRaw n ((Scanner.new src).advance k)).2 = some e) :
    ∃ k', k ≤ k' ∧ nextToken ((Scanner.new src).advance k') = .err e := by
  induction n generalizing k with
  | zero => unfold lexRaw at h; cases h
  | succ n ih =>
    unfold lexRaw at h
    cases ht : nextToken ((Scanner.new src).advance k) with
    | eof => rw [ht] at h; cases h
    | err e' =>
      rw [ht] at h
      injection h with h; subst h
      exact ⟨k, Nat.le_refl _, ht⟩
    | tok sp0 s' =>
      rw [ht] at h
      simp only at h
      obtain ⟨i, j, _, _, _, _, _, _, hs', _⟩ := nextToken_tok_reach ht
      subst hs'
      obtain ⟨k', hk', hn⟩ := ih j h
      exact ⟨k', by omega, hn⟩

end Seed
