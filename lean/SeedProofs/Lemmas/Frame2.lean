/-
  Frame2.lean — a variant of the generic preservation theorem of Frame.lean for invariants that only some cells may
  break: the relation has to be closed under allocation of the *kinds of cell the evaluator allocates* (list, object,
  function, empty scope), under replacing list / object contents, under printing, and under `bindNextName` (the only
  place where scope cells are written) — given as a hypothesis.  Only successful results are constrained (`RelOk`): an
  invariant is needed to reason about what is evaluated next, and nothing is evaluated after an error.
-/
import SeedModel.Eval
namespace Seed

/-- the final state of a *successful* `r` is `R`-related to `σ0` -/
def Res.RelOk {α} (R : State → State → Prop) (σ0 : State) : Res α → Prop
  | .ok _ σ' => R σ0 σ'
  | _ => True

namespace Res.RelOk
variable {R : State → State → Prop} {σ0 : State}
theorem bind {α β} {r : Res α} {f : α → State → Res β} (h : Res.RelOk R σ0 r)
    (hf : ∀ a σ1, R σ0 σ1 → Res.RelOk R σ0 (f a σ1)) : Res.RelOk R σ0 (r.bind f) := by
  cases r with
  | ok a σ1 => exact hf a σ1 h
  | err e σ1 => trivial
  | crash w σ1 => trivial
  | timeout => trivial
theorem map {α β} {r : Res α} (f : α → β) (h : Res.RelOk R σ0 r) : Res.RelOk R σ0 (r.map f) := by
  cases r <;> first | exact h | trivial
theorem mapErr {α} {r : Res α} (f : Err → Err) (h : Res.RelOk R σ0 r) : Res.RelOk R σ0 (r.mapErr f) := by
  cases r <;> first | exact h | trivial
theorem ok {α} {a : α} {σ : State} (h : R σ0 σ) : Res.RelOk R σ0 (.ok a σ) := h
theorem errAt {α} {loc : Loc} {l : Gen.Leaf} {σ : State} : Res.RelOk R σ0 (Seed.errAt loc l σ : Res α) := trivial
theorem crashHeap {α} {σ : State} : Res.RelOk R σ0 (Seed.crashHeap σ : Res α) := trivial
end Res.RelOk

structure GoodRelC (R : State → State → Prop) : Prop where
  refl : ∀ σ, R σ σ
  trans : ∀ {a b c}, R a b → R b c → R a c
  allocList : ∀ σ xs, R σ (σ.alloc (.list xs)).2
  allocObj : ∀ σ m, R σ (σ.alloc (.obj m)).2
  allocFunc : ∀ σ f, R σ (σ.alloc (.func f)).2
  allocScope : ∀ σ, R σ (σ.alloc (.scope [])).2
  print : ∀ σ l, R σ (σ.print l)
  setList : ∀ σ a ys, R σ (σ.set a (.list ys))
  setObj : ∀ σ a m', R σ (σ.set a (.obj m'))
  bindName : ∀ n σ σ' sc names names' name loc rhs op decl,
    bindNextName n σ sc names name loc rhs op decl = .ok names' σ' → R σ σ'

section
variable {R : State → State → Prop} (hR : GoodRelC R) {σ0 : State}
include hR

theorem GoodRelC.s_allocList {σ : State} (xs : List SVal) (h : R σ0 σ) : R σ0 (σ.alloc (.list xs)).2 := hR.trans h (hR.allocList σ xs)
theorem GoodRelC.s_allocObj {σ : State} (m : ObjMap) (h : R σ0 σ) : R σ0 (σ.alloc (.obj m)).2 := hR.trans h (hR.allocObj σ m)
theorem GoodRelC.s_allocFunc {σ : State} (f : FuncRec) (h : R σ0 σ) : R σ0 (σ.alloc (.func f)).2 := hR.trans h (hR.allocFunc σ f)
theorem GoodRelC.s_allocScope {σ : State} (h : R σ0 σ) : R σ0 (σ.alloc (.scope [])).2 := hR.trans h (hR.allocScope σ)
theorem GoodRelC.s_allocList_eq {σ σ' : State} {xs : List SVal} {a : Addr} (he : σ.alloc (.list xs) = (a, σ')) (h : R σ0 σ) : R σ0 σ' := by
  have := hR.s_allocList xs h; rw [he] at this; exact this
theorem GoodRelC.s_allocObj_eq {σ σ' : State} {m : ObjMap} {a : Addr} (he : σ.alloc (.obj m) = (a, σ')) (h : R σ0 σ) : R σ0 σ' := by
  have := hR.s_allocObj m h; rw [he] at this; exact this
theorem GoodRelC.s_allocFunc_eq {σ σ' : State} {f : FuncRec} {a : Addr} (he : σ.alloc (.func f) = (a, σ')) (h : R σ0 σ) : R σ0 σ' := by
  have := hR.s_allocFunc f h; rw [he] at this; exact this
theorem GoodRelC.s_allocScope_eq {σ σ' : State} {a : Addr} (he : σ.alloc (.scope []) = (a, σ')) (h : R σ0 σ) : R σ0 σ' := by
  have := hR.s_allocScope h; rw [he] at this; exact this
theorem GoodRelC.s_print {σ : State} (l : List Char) (h : R σ0 σ) : R σ0 (σ.print l) := hR.trans h (hR.print σ l)
theorem GoodRelC.s_setList {σ : State} (a : Addr) (ys : List SVal) (h : R σ0 σ) : R σ0 (σ.set a (.list ys)) := hR.trans h (hR.setList σ a ys)
theorem GoodRelC.s_setObj {σ : State} (a : Addr) (m' : ObjMap) (h : R σ0 σ) : R σ0 (σ.set a (.obj m')) := hR.trans h (hR.setObj σ a m')

theorem applyBinOp_relOk (n : Nat) {σ : State} (op : BinaryOp) (loc : Loc) (a b : Val) (h : R σ0 σ) :
    Res.RelOk R σ0 (applyBinOp n σ op loc a b) := by
  unfold applyBinOp
  cases op <;> simp only [] <;> (repeat' split) <;>
    first
      | exact h
      | trivial
      | (unfold arith; simp only []; (repeat' split) <;> first | exact h | trivial)
      | exact hR.s_allocList _ h

theorem callBuiltin_relOk (n : Nat) {σ : State} (f : BuiltinId) (this : Option SVal) (args : List SVal) (h : R σ0 σ) :
    Res.RelOk R σ0 (callBuiltin n σ f this args) := by
  unfold callBuiltin
  cases f <;> simp only [] <;> (repeat' split) <;>
    first
      | exact h
      | trivial
      | exact hR.s_print _ h

theorem opAssignValue_relOk (n : Nat) {σ : State} (cur rhs : SVal) (op : Option (BinaryOp × Loc)) (h : R σ0 σ) :
    Res.RelOk R σ0 (opAssignValue n σ cur rhs op) := by
  unfold opAssignValue
  split
  · exact h
  · exact Res.RelOk.map _ (applyBinOp_relOk hR n _ _ _ _ h)

omit hR in
theorem validateArgsRes_relOk (n : Nat) {σ : State} (args : List Expr) (h : R σ0 σ) :
    Res.RelOk R σ0 (validateArgsRes n args σ) := by
  unfold validateArgsRes
  split <;> first | exact h | trivial

theorem bindNextName_relOk (n : Nat) {σ : State} (sc : List Addr) (names : List (List Char)) (name : List Char) (loc : Loc)
    (rhs : SVal) (op : Option (BinaryOp × Loc)) (decl : Bool) (h : R σ0 σ) :
    Res.RelOk R σ0 (bindNextName n σ sc names name loc rhs op decl) := by
  cases hb : bindNextName n σ sc names name loc rhs op decl with
  | ok names' σ' => exact hR.trans h (hR.bindName n σ σ' sc names names' name loc rhs op decl hb)
  | err e σ' => trivial
  | crash w σ' => trivial
  | timeout => trivial

end

structure RelOkAll (R : State → State → Prop) (n : Nat) : Prop where
  evalExpr : ∀ σ0 σ sc e, R σ0 σ → Res.RelOk R σ0 (evalExpr n σ sc e)
  evalOptIndex : ∀ σ0 σ sc e, R σ0 σ → Res.RelOk R σ0 (evalOptIndex n σ sc e)
  evalListItems : ∀ σ0 σ sc items acc, R σ0 σ → Res.RelOk R σ0 (evalListItems n σ sc items acc)
  evalProps : ∀ σ0 σ sc l props acc, R σ0 σ → Res.RelOk R σ0 (evalProps n σ sc l props acc)
  evalCall : ∀ σ0 σ sc f args loc, R σ0 σ → Res.RelOk R σ0 (evalCall n σ sc f args loc)
  evalToStr : ∀ σ0 σ sc d e, R σ0 σ → Res.RelOk R σ0 (evalToStr n σ sc d e)
  evalToBool : ∀ σ0 σ sc d e, R σ0 σ → Res.RelOk R σ0 (evalToBool n σ sc d e)
  evalToInt : ∀ σ0 σ sc d e, R σ0 σ → Res.RelOk R σ0 (evalToInt n σ sc d e)
  evalToIndex : ∀ σ0 σ sc e, R σ0 σ → Res.RelOk R σ0 (evalToIndex n σ sc e)
  interpolate : ∀ σ0 σ sc s slots loc last acc, R σ0 σ → Res.RelOk R σ0 (interpolate n σ sc s slots loc last acc)
  evalBlock : ∀ σ0 σ sc bs stmts, R σ0 σ → Res.RelOk R σ0 (evalBlock n σ sc bs stmts)
  declareAll : ∀ σ0 σ sc bs, R σ0 σ → Res.RelOk R σ0 (declareAll n σ sc bs)
  evalStmts : ∀ σ0 σ sc stmts, R σ0 σ → Res.RelOk R σ0 (evalStmts n σ sc stmts)
  evalStmt : ∀ σ0 σ sc st, R σ0 σ → Res.RelOk R σ0 (evalStmt n σ sc st)
  evalIf : ∀ σ0 σ sc bs els, R σ0 σ → Res.RelOk R σ0 (evalIf n σ sc bs els)
  evalWhile : ∀ σ0 σ sc c stmts, R σ0 σ → Res.RelOk R σ0 (evalWhile n σ sc c stmts)
  evalFor : ∀ σ0 σ sc lhs pairs stmts, R σ0 σ → Res.RelOk R σ0 (evalFor n σ sc lhs pairs stmts)
  bindNext : ∀ σ0 σ sc names lhs rhs op decl, R σ0 σ → Res.RelOk R σ0 (bindNext n σ sc names lhs rhs op decl)
  bindProp : ∀ σ0 σ a name loc rhs op names vi, R σ0 σ → Res.RelOk R σ0 (bindProp n σ a name loc rhs op names vi)
  bindRangeIndex : ∀ σ0 σ sc a start stop loc rhsItems names, R σ0 σ →
    Res.RelOk R σ0 (bindRangeIndex n σ sc a start stop loc rhsItems names)
  bindList : ∀ σ0 σ sc names items collect lhsLoc b decl i lhsLen, R σ0 σ →
    Res.RelOk R σ0 (bindList n σ sc names items collect lhsLoc b decl i lhsLen)
  bindObject : ∀ σ0 σ sc names props b decl i total remaining, R σ0 σ →
    Res.RelOk R σ0 (bindObject n σ sc names props b decl i total remaining)
  bindObjectProp : ∀ σ0 σ sc names lhs b pname ploc decl, R σ0 σ →
    Res.RelOk R σ0 (bindObjectProp n σ sc names lhs b pname ploc decl)

macro "relc_state " hR:ident : tactic =>
  `(tactic| first
    | assumption
    | (apply GoodRelC.s_allocList $hR; assumption)
    | (apply GoodRelC.s_allocObj $hR; assumption)
    | (apply GoodRelC.s_allocFunc $hR; assumption)
    | (apply GoodRelC.s_allocScope $hR; assumption)
    | (apply GoodRelC.s_allocList_eq $hR (by assumption); assumption)
    | (apply GoodRelC.s_allocObj_eq $hR (by assumption); assumption)
    | (apply GoodRelC.s_allocFunc_eq $hR (by assumption); assumption)
    | (apply GoodRelC.s_allocScope_eq $hR (by assumption); assumption)
    | (apply GoodRelC.s_print $hR; assumption)
    | (apply GoodRelC.s_setList $hR; assumption)
    | (apply GoodRelC.s_setObj $hR; assumption))

macro "relc_leaf " hR:ident ih:ident : tactic =>
  `(tactic| first
    | trivial
    | (apply Res.RelOk.ok; relc_state $hR)
    | (apply RelOkAll.evalExpr $ih; relc_state $hR) | (apply RelOkAll.evalOptIndex $ih; relc_state $hR)
    | (apply RelOkAll.evalListItems $ih; relc_state $hR) | (apply RelOkAll.evalProps $ih; relc_state $hR)
    | (apply RelOkAll.evalCall $ih; relc_state $hR) | (apply RelOkAll.evalToStr $ih; relc_state $hR)
    | (apply RelOkAll.evalToBool $ih; relc_state $hR) | (apply RelOkAll.evalToInt $ih; relc_state $hR)
    | (apply RelOkAll.evalToIndex $ih; relc_state $hR) | (apply RelOkAll.interpolate $ih; relc_state $hR)
    | (apply RelOkAll.evalBlock $ih; relc_state $hR) | (apply RelOkAll.declareAll $ih; relc_state $hR)
    | (apply RelOkAll.evalStmts $ih; relc_state $hR) | (apply RelOkAll.evalStmt $ih; relc_state $hR)
    | (apply RelOkAll.evalIf $ih; relc_state $hR) | (apply RelOkAll.evalWhile $ih; relc_state $hR)
    | (apply RelOkAll.evalFor $ih; relc_state $hR) | (apply RelOkAll.bindNext $ih; relc_state $hR)
    | (apply RelOkAll.bindProp $ih; relc_state $hR) | (apply RelOkAll.bindRangeIndex $ih; relc_state $hR)
    | (apply RelOkAll.bindList $ih; relc_state $hR) | (apply RelOkAll.bindObject $ih; relc_state $hR)
    | (apply RelOkAll.bindObjectProp $ih; relc_state $hR)
    | (apply applyBinOp_relOk $hR; relc_state $hR) | (apply callBuiltin_relOk $hR; relc_state $hR)
    | (apply opAssignValue_relOk $hR; relc_state $hR) | (apply bindNextName_relOk $hR; relc_state $hR)
    | (apply validateArgsRes_relOk; relc_state $hR))

macro "relc_auto " hR:ident ih:ident : tactic =>
  `(tactic| repeat' first
    | (cases ‹(_, _) = (_, _)›)
    | relc_leaf $hR $ih
    | apply Res.RelOk.bind
    | intro _ _ _
    | apply Res.RelOk.map
    | apply Res.RelOk.mapErr
    | split
    | (dsimp only []))

theorem relOkAll_zero {R : State → State → Prop} : RelOkAll R 0 := by
  constructor <;> intros
  · unfold evalExpr; trivial
  · unfold evalOptIndex; trivial
  · unfold evalListItems; trivial
  · unfold evalProps; trivial
  · unfold evalCall; trivial
  · unfold evalToStr; trivial
  · unfold evalToBool; trivial
  · unfold evalToInt; trivial
  · unfold evalToIndex; trivial
  · unfold interpolate; trivial
  · unfold evalBlock; trivial
  · unfold declareAll; trivial
  · unfold evalStmts; trivial
  · unfold evalStmt; trivial
  · unfold evalIf; trivial
  · unfold evalWhile; trivial
  · unfold evalFor; trivial
  · unfold bindNext; trivial
  · unfold bindProp; trivial
  · unfold bindRangeIndex; trivial
  · unfold bindList; trivial
  · unfold bindObject; trivial
  · unfold bindObjectProp; trivial

theorem relOkAll_succ {R : State → State → Prop} (hR : GoodRelC R) (n : Nat) (ih : RelOkAll R n) : RelOkAll R (n + 1) := by
  constructor
  · intro σ0 σ sc e h; unfold evalExpr; relc_auto hR ih
  · intro σ0 σ sc e h; unfold evalOptIndex; relc_auto hR ih
  · intro σ0 σ sc items acc h; unfold evalListItems; relc_auto hR ih
  · intro σ0 σ sc l props acc h; unfold evalProps; relc_auto hR ih
  · intro σ0 σ sc f args loc h; unfold evalCall; relc_auto hR ih
  · intro σ0 σ sc d e h; unfold evalToStr; relc_auto hR ih
  · intro σ0 σ sc d e h; unfold evalToBool; relc_auto hR ih
  · intro σ0 σ sc d e h; unfold evalToInt; relc_auto hR ih
  · intro σ0 σ sc e h; unfold evalToIndex; relc_auto hR ih
  · intro σ0 σ sc s slots loc last acc h; unfold interpolate; relc_auto hR ih
  · intro σ0 σ sc bs stmts h; unfold evalBlock; relc_auto hR ih
  · intro σ0 σ sc bs h; unfold declareAll; relc_auto hR ih
  · intro σ0 σ sc stmts h; unfold evalStmts; relc_auto hR ih
  · intro σ0 σ sc st h; unfold evalStmt; relc_auto hR ih
  · intro σ0 σ sc bs els h; unfold evalIf; relc_auto hR ih
  · intro σ0 σ sc c stmts h; unfold evalWhile; relc_auto hR ih
  · intro σ0 σ sc lhs pairs stmts h; unfold evalFor; relc_auto hR ih
  · intro σ0 σ sc names lhs rhs op decl h; unfold bindNext; relc_auto hR ih
  · intro σ0 σ a name loc rhs op names vi h; unfold bindProp; relc_auto hR ih
  · intro σ0 σ sc a start stop loc rhsItems names h; unfold bindRangeIndex; relc_auto hR ih
  · intro σ0 σ sc names items collect lhsLoc b decl i lhsLen h; unfold bindList; relc_auto hR ih
  · intro σ0 σ sc names props b decl i total remaining h; unfold bindObject; relc_auto hR ih
  · intro σ0 σ sc names lhs b pname ploc decl h; unfold bindObjectProp; relc_auto hR ih

theorem relOkAll {R : State → State → Prop} (hR : GoodRelC R) (n : Nat) : RelOkAll R n := by
  induction n with
  | zero => exact relOkAll_zero
  | succ n ih => exact relOkAll_succ hR n ih

end Seed
