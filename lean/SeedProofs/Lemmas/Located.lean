/-
  Located.lean — G5: every error an evaluator function returns carries a position: below any number of
  call frames there is an `atLoc` (or a builtin-call node, which carries the call position) above the leaf.
-/
import SeedModel.Run
namespace Seed

def Located : Err → Prop
  | .leaf _ => False
  | .atLoc _ _ _ => True
  | .builtinCall _ _ _ => True
  | .funcCall _ _ e => Located e

/-- the error of `r`, if any, satisfies `P` -/
def Res.ErrP {α} (P : Err → Prop) : Res α → Prop
  | .err e _ => P e
  | _ => True

namespace Res.ErrP
variable {P : Err → Prop}
theorem bind {α β} {r : Res α} {f : α → State → Res β} (h : Res.ErrP P r) (hf : ∀ a σ, Res.ErrP P (f a σ)) :
    Res.ErrP P (r.bind f) := by
  cases r with
  | ok a σ => exact hf a σ
  | err e σ => exact h
  | crash w σ => trivial
  | timeout => trivial
theorem map {α β} {r : Res α} (f : α → β) (h : Res.ErrP P r) : Res.ErrP P (r.map f) := by
  cases r <;> first | exact h | trivial
theorem mapErr {α} {r : Res α} {f : Err → Err} (h : Res.ErrP P r) (hf : ∀ e, P e → P (f e)) : Res.ErrP P (r.mapErr f) := by
  cases r with
  | err e σ => exact hf e h
  | ok a σ => trivial
  | crash w σ => trivial
  | timeout => trivial
theorem mapErr_always {α} {r : Res α} {f : Err → Err} (hf : ∀ e, P (f e)) : Res.ErrP P (r.mapErr f) := by
  cases r with
  | err e σ => exact hf e
  | ok a σ => trivial
  | crash w σ => trivial
  | timeout => trivial
end Res.ErrP

theorem located_at (loc : Loc) (l : Gen.Leaf) : Located (Err.at loc l) := trivial

theorem errAt_located {α} (loc : Loc) (l : Gen.Leaf) (σ : State) : Res.ErrP Located (errAt loc l σ : Res α) := trivial

theorem mapErr_funcCall_located {α} {r : Res α} {name : Option (List Char)} {loc : Loc} (h : Res.ErrP Located r) :
    Res.ErrP Located (r.mapErr (Err.funcCall name loc)) :=
  Res.ErrP.mapErr h (fun _ he => he)

theorem applyBinOp_located (n : Nat) (σ : State) (op : BinaryOp) (loc : Loc) (a b : Val) :
    Res.ErrP Located (applyBinOp n σ op loc a b) := by
  unfold applyBinOp
  cases op <;> simp only [] <;> (repeat' split) <;>
    first
      | trivial
      | (unfold arith; simp only []; (repeat' split) <;> trivial)

theorem opAssignValue_located (n : Nat) (σ : State) (cur rhs : SVal) (op : Option (BinaryOp × Loc)) :
    Res.ErrP Located (opAssignValue n σ cur rhs op) := by
  unfold opAssignValue
  split
  · trivial
  · exact Res.ErrP.map _ (applyBinOp_located _ _ _ _ _ _)

theorem bindNextName_located (n : Nat) (σ : State) (sc : List Addr) (names : List (List Char)) (name : List Char) (loc : Loc)
    (rhs : SVal) (op : Option (BinaryOp × Loc)) (decl : Bool) :
    Res.ErrP Located (bindNextName n σ sc names name loc rhs op decl) := by
  unfold bindNextName
  repeat' first
    | trivial
    | (apply Res.ErrP.bind (applyBinOp_located _ _ _ _ _ _); intro _ _)
    | split
    | (dsimp only [])

theorem propsToQueue_located (loc : Loc) (props : List PropItem) (acc : List Expr) (e : Err)
    (h : propsToQueue loc props acc = .error e) : Located e := by
  induction props generalizing acc with
  | nil => simp [propsToQueue] at h
  | cons p r ih =>
    cases p with
    | Pair n v => exact ih _ (by simpa [propsToQueue] using h)
    | Single ex sp co =>
      unfold propsToQueue at h
      split at h
      · injection h with h; subst h; trivial
      · exact ih _ h

theorem itemsToQueue_located (loc : Loc) (items : List ListItem) (acc : List Expr) (e : Err)
    (h : itemsToQueue loc items acc = .error e) : Located e := by
  induction items generalizing acc with
  | nil => simp [itemsToQueue] at h
  | cons p r ih =>
    cases p with
    | mk ex sp =>
      unfold itemsToQueue at h
      split at h
      · injection h with h; subst h; trivial
      · exact ih _ h

theorem validateArgs_located (n : Nat) (q : List Expr) (names : List (List Char × Loc)) (e : Err)
    (h : validateArgs n q names = some (some e)) : Located e := by
  induction n generalizing q names with
  | zero => simp [validateArgs] at h
  | succ n ih =>
    unfold validateArgs at h
    split at h
    · simp at h
    · split at h
      · split at h
        · simp at h
        · split at h
          · simp at h; subst h; trivial
          · exact ih _ _ h
      · split at h
        · simp at h; subst h; exact propsToQueue_located _ _ _ _ (by assumption)
        · exact ih _ _ h
      · split at h
        · simp at h; subst h; exact itemsToQueue_located _ _ _ _ (by assumption)
        · exact ih _ _ h
      · split at h
        · simp at h; subst h; trivial
        · simp at h

theorem validateArgsRes_located (n : Nat) (args : List Expr) (σ : State) : Res.ErrP Located (validateArgsRes n args σ) := by
  unfold validateArgsRes
  split
  · trivial
  · exact validateArgs_located _ _ _ _ (by assumption)
  · trivial

structure LocAll (n : Nat) : Prop where
  evalExpr : ∀ σ sc e, Res.ErrP Located (evalExpr n σ sc e)
  evalOptIndex : ∀ σ sc e, Res.ErrP Located (evalOptIndex n σ sc e)
  evalListItems : ∀ σ sc items acc, Res.ErrP Located (evalListItems n σ sc items acc)
  evalProps : ∀ σ sc l props acc, Res.ErrP Located (evalProps n σ sc l props acc)
  evalCall : ∀ σ sc f args loc, Res.ErrP Located (evalCall n σ sc f args loc)
  evalToStr : ∀ σ sc d e, Res.ErrP Located (evalToStr n σ sc d e)
  evalToBool : ∀ σ sc d e, Res.ErrP Located (evalToBool n σ sc d e)
  evalToInt : ∀ σ sc d e, Res.ErrP Located (evalToInt n σ sc d e)
  evalToIndex : ∀ σ sc e, Res.ErrP Located (evalToIndex n σ sc e)
  interpolate : ∀ σ sc s slots loc last acc, Res.ErrP Located (interpolate n σ sc s slots loc last acc)
  evalBlock : ∀ σ sc bs stmts, Res.ErrP Located (evalBlock n σ sc bs stmts)
  declareAll : ∀ σ sc bs, Res.ErrP Located (declareAll n σ sc bs)
  evalStmts : ∀ σ sc stmts, Res.ErrP Located (evalStmts n σ sc stmts)
  evalStmt : ∀ σ sc st, Res.ErrP Located (evalStmt n σ sc st)
  evalIf : ∀ σ sc bs els, Res.ErrP Located (evalIf n σ sc bs els)
  evalWhile : ∀ σ sc c stmts, Res.ErrP Located (evalWhile n σ sc c stmts)
  evalFor : ∀ σ sc lhs pairs stmts, Res.ErrP Located (evalFor n σ sc lhs pairs stmts)
  bindNext : ∀ σ sc names lhs rhs op decl, Res.ErrP Located (bindNext n σ sc names lhs rhs op decl)
  bindProp : ∀ σ a name loc rhs op names vi, Res.ErrP Located (bindProp n σ a name loc rhs op names vi)
  bindRangeIndex : ∀ σ sc a start stop loc rhsItems names,
    Res.ErrP Located (bindRangeIndex n σ sc a start stop loc rhsItems names)
  bindList : ∀ σ sc names items collect lhsLoc b decl i lhsLen,
    Res.ErrP Located (bindList n σ sc names items collect lhsLoc b decl i lhsLen)
  bindObject : ∀ σ sc names props b decl i total remaining,
    Res.ErrP Located (bindObject n σ sc names props b decl i total remaining)
  bindObjectProp : ∀ σ sc names lhs b pname ploc decl,
    Res.ErrP Located (bindObjectProp n σ sc names lhs b pname ploc decl)

macro "loc_leaf " ih:ident : tactic =>
  `(tactic| first
    | trivial
    | apply LocAll.evalExpr $ih | apply LocAll.evalOptIndex $ih | apply LocAll.evalListItems $ih
    | apply LocAll.evalProps $ih | apply LocAll.evalCall $ih | apply LocAll.evalToStr $ih
    | apply LocAll.evalToBool $ih | apply LocAll.evalToInt $ih | apply LocAll.evalToIndex $ih
    | apply LocAll.interpolate $ih | apply LocAll.evalBlock $ih | apply LocAll.declareAll $ih
    | apply LocAll.evalStmts $ih | apply LocAll.evalStmt $ih | apply LocAll.evalIf $ih
    | apply LocAll.evalWhile $ih | apply LocAll.evalFor $ih | apply LocAll.bindNext $ih
    | apply LocAll.bindProp $ih | apply LocAll.bindRangeIndex $ih | apply LocAll.bindList $ih
    | apply LocAll.bindObject $ih | apply LocAll.bindObjectProp $ih
    | exact applyBinOp_located _ _ _ _ _ _ | exact opAssignValue_located _ _ _ _ _
    | exact bindNextName_located _ _ _ _ _ _ _ _ _ | exact validateArgsRes_located _ _ _
    | exact errAt_located _ _ _)

macro "loc_auto " ih:ident : tactic =>
  `(tactic| repeat' first
    | loc_leaf $ih
    | apply Res.ErrP.bind
    | intro _ _
    | apply Res.ErrP.map
    | (apply Res.ErrP.mapErr_always; intro _; trivial)
    | apply mapErr_funcCall_located
    | split
    | (dsimp only []))

theorem locAll_zero : LocAll 0 := by
  constructor <;> intros
  · unfold evalExpr; trivial
  · unfold evalOptIndex; trivial
  · unfold evalListItems; trivial
  · unfold evalProps; trivial
  · unfold evalCall; trivial
  · unfold evalToStr; trivial
  · unfold evalToBool; trivial
  · unfold evalToInt; trivial
  · unfold evalToIndex; trivial
  · unfold interpolate; trivial
  · unfold evalBlock; trivial
  · unfold declareAll; trivial
  · unfold evalStmts; trivial
  · unfold evalStmt; trivial
  · unfold evalIf; trivial
  · unfold evalWhile; trivial
  · unfold evalFor; trivial
  · unfold bindNext; trivial
  · unfold bindProp; trivial
  · unfold bindRangeIndex; trivial
  · unfold bindList; trivial
  · unfold bindObject; trivial
  · unfold bindObjectProp; trivial

theorem locAll_succ (n : Nat) (ih : LocAll n) : LocAll (n + 1) := by
  constructor
  · intro σ sc e; unfold evalExpr; loc_auto ih
  · intro σ sc e; unfold evalOptIndex; loc_auto ih
  · intro σ sc items acc; unfold evalListItems; loc_auto ih
  · intro σ sc l props acc; unfold evalProps; loc_auto ih
  · intro σ sc f args loc; unfold evalCall; loc_auto ih
  · intro σ sc d e; unfold evalToStr; loc_auto ih
  · intro σ sc d e; unfold evalToBool; loc_auto ih
  · intro σ sc d e; unfold evalToInt; loc_auto ih
  · intro σ sc e; unfold evalToIndex; loc_auto ih
  · intro σ sc s slots loc last acc; unfold interpolate; loc_auto ih
  · intro σ sc bs stmts; unfold evalBlock; loc_auto ih
  · intro σ sc bs; unfold declareAll; loc_auto ih
  · intro σ sc stmts; unfold evalStmts; loc_auto ih
  · intro σ sc st; unfold evalStmt; loc_auto ih
  · intro σ sc bs els; unfold evalIf; loc_auto ih
  · intro σ sc c stmts; unfold evalWhile; loc_auto ih
  · intro σ sc lhs pairs stmts; unfold evalFor; loc_auto ih
  · intro σ sc names lhs rhs op decl; unfold bindNext; loc_auto ih
  · intro σ a name loc rhs op names vi; unfold bindProp; loc_auto ih
  · intro σ sc a start stop loc rhsItems names; unfold bindRangeIndex; loc_auto ih
  · intro σ sc names items collect lhsLoc b decl i lhsLen; unfold bindList; loc_auto ih
  · intro σ sc names props b decl i total remaining; unfold bindObject; loc_auto ih
  · intro σ sc names lhs b pname ploc decl; unfold bindObjectProp; loc_auto ih

theorem locAll (n : Nat) : LocAll n := by
  induction n with
  | zero => exact locAll_zero
  | succ n ih => exact locAll_succ n ih

/-- G5: every error `evalProg` returns is located -/
theorem evalProg_located (n : Nat) (stmts : List Stmt) : Res.ErrP Located (evalProg n stmts) := by
  unfold evalProg
  apply Res.ErrP.bind ((locAll n).evalBlock _ _ _ _)
  intro esc σ
  cases esc <;> trivial

end Seed
