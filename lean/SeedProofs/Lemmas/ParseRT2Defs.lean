/-
  ParseRT2Defs.lean — the whole-grammar printer.  Definitions for the extended print/parse round trip
  (ParseRT2*.lean): position erasure `stripR/stripE/…` on the model's own syntax tree, the decidable
  well-formedness predicate `wfR/wfE/wfStmt/…` (the shape of the trees the parser can produce) and the
  minimal-parenthesis token printer `prR/prE/prStmt/prStmts/…`, all total functions by structural recursion
  on the (nested, mutual) syntax tree of SeedModel/Ast.lean.

  Levels of the printer (`prR k e` prints `e` where level `k` or tighter is accepted):
    1 = `..` (parseExpr1), 2–4 = the operator tiers of `Gen.binOps`, 5 = postfix forms and atoms.
-/
import SeedProofs.Lemmas.ParseRoundTrip
namespace Seed

/-! ### position erasure -/

mutual
/-- set every stored position to `(0, 0)` -/
def stripR : RawExpr → RawExpr
  | .Null => .Null
  | .Bool b => .Bool b
  | .Int n => .Int n
  | .Str s sl => .Str s sl
  | .Var x => .Var x
  | .BinaryOp op _ l r => .BinaryOp op (0, 0) (stripE l) (stripE r)
  | .List items c => .List (stripItems items) c
  | .Index e i => .Index (stripE e) (stripE i)
  | .RangeIndex e a b => .RangeIndex (stripE e) (stripO a) (stripO b)
  | .Range a b => .Range (stripE a) (stripE b)
  | .Object props => .Object (stripProps props)
  | .Prop e n t => .Prop (stripE e) n t
  | .Func args c stmts => .Func (stripEs args) c (stripStmts stmts)
  | .Call f args => .Call (stripE f) (stripItems args)
def stripE : Expr → Expr
  | .mk r _ => .mk (stripR r) (0, 0)
def stripO : Option Expr → Option Expr
  | none => none
  | some e => some (stripE e)
def stripItems : List ListItem → List ListItem
  | [] => []
  | .mk e s :: r => .mk (stripE e) s :: stripItems r
def stripProps : List PropItem → List PropItem
  | [] => []
  | .Pair k v :: r => .Pair (stripE k) (stripE v) :: stripProps r
  | .Single e s c :: r => .Single (stripE e) s c :: stripProps r
def stripEs : List Expr → List Expr
  | [] => []
  | e :: r => stripE e :: stripEs r
def stripStmts : List Stmt → List Stmt
  | [] => []
  | s :: r => stripStmt s :: stripStmts r
def stripStmt : Stmt → Stmt
  | .Block b => .Block (stripStmts b)
  | .Expr e => .Expr (stripE e)
  | .Declare l r => .Declare (stripE l) (stripE r)
  | .Assign l r => .Assign (stripE l) (stripE r)
  | .OpAssign l op _ r => .OpAssign (stripE l) op (0, 0) (stripE r)
  | .If bs none => .If (stripBs bs) none
  | .If bs (some els) => .If (stripBs bs) (some (stripStmts els))
  | .While c s => .While (stripE c) (stripStmts s)
  | .For l i s => .For (stripE l) (stripE i) (stripStmts s)
  | .Break _ => .Break (0, 0)
  | .Continue _ => .Continue (0, 0)
  | .Func n _ args c s => .Func n (0, 0) (stripEs args) c (stripStmts s)
  | .Return _ e => .Return (0, 0) (stripE e)
def stripBs : List Branch → List Branch
  | [] => []
  | .mk c s :: r => .mk (stripE c) (stripStmts s) :: stripBs r
end

def stripItem : ListItem → ListItem
  | .mk e s => .mk (stripE e) s
def stripProp : PropItem → PropItem
  | .Pair k v => .Pair (stripE k) (stripE v)
  | .Single e s c => .Single (stripE e) s c
def stripB : Branch → Branch
  | .mk c s => .mk (stripE c) (stripStmts s)

theorem stripItems_map (l : List ListItem) : stripItems l = l.map stripItem := by
  induction l with
  | nil => rfl
  | cons i l ih => cases i; simp only [stripItems, List.map_cons, stripItem, ih]

theorem stripProps_map (l : List PropItem) : stripProps l = l.map stripProp := by
  induction l with
  | nil => rfl
  | cons i l ih => cases i <;> simp only [stripProps, List.map_cons, stripProp, ih]

theorem stripEs_map (l : List Expr) : stripEs l = l.map stripE := by
  induction l with
  | nil => rfl
  | cons i l ih => simp only [stripEs, List.map_cons, ih]

theorem stripStmts_map (l : List Stmt) : stripStmts l = l.map stripStmt := by
  induction l with
  | nil => rfl
  | cons i l ih => simp only [stripStmts, List.map_cons, ih]

theorem stripBs_map (l : List Branch) : stripBs l = l.map stripB := by
  induction l with
  | nil => rfl
  | cons i l ih => cases i; simp only [stripBs, List.map_cons, stripB, ih]

/-! ### well-formedness: the shape of the parser's image

  `fn = false` additionally excludes function literals (the statement-free fragment). -/

/-- spelling of an op-assignment operator, read off the generated table -/
def assignTokOf (op : BinaryOp) : Option Token :=
  match Gen.assignOps.find? (fun x => x.2 = op) with
  | some x => some x.1
  | none => none

mutual
def wfR (fn : Bool) : RawExpr → Bool
  | .Null => true
  | .Bool _ => true
  | .Int _ => true
  | .Str _ _ => true
  | .Var _ => true
  | .BinaryOp _ _ l r => wfE fn l && wfE fn r
  | .List items c => (!c || !items.isEmpty) && wfItems fn items
  | .Index e i => wfE fn e && wfE fn i
  | .RangeIndex e a b => wfE fn e && wfO fn a && wfO fn b
  | .Range a b => wfE fn a && wfE fn b
  | .Object props => wfProps fn props
  | .Prop e _ _ => wfE fn e
  | .Func args c stmts => fn && (!c || !args.isEmpty) && wfEs fn args && wfStmts fn stmts
  | .Call f args => wfE fn f && wfItems fn args
def wfE (fn : Bool) : Expr → Bool
  | .mk r _ => wfR fn r
def wfO (fn : Bool) : Option Expr → Bool
  | none => true
  | some e => wfE fn e
def wfItems (fn : Bool) : List ListItem → Bool
  | [] => true
  | .mk e _ :: r => wfE fn e && wfItems fn r
def wfProps (fn : Bool) : List PropItem → Bool
  | [] => true
  | .Pair k v :: r => wfE fn k && wfE fn v && wfProps fn r
  | .Single e _ _ :: r => wfE fn e && wfProps fn r
def wfEs (fn : Bool) : List Expr → Bool
  | [] => true
  | e :: r => wfE fn e && wfEs fn r
def wfStmts (fn : Bool) : List Stmt → Bool
  | [] => true
  | s :: r => wfStmt fn s && wfStmts fn r
def wfStmt (fn : Bool) : Stmt → Bool
  | .Block b => !b.isEmpty && wfStmts fn b
  | .Expr e => wfE fn e
  | .Declare l r => wfE fn l && wfE fn r
  | .Assign l r => wfE fn l && wfE fn r
  | .OpAssign l op _ r => (assignTokOf op).isSome && wfE fn l && wfE fn r
  | .If bs none => !bs.isEmpty && wfBs fn bs
  | .If bs (some els) => !bs.isEmpty && wfBs fn bs && wfStmts fn els
  | .While c s => wfE fn c && wfStmts fn s
  | .For l i s => wfE fn l && wfE fn i && wfStmts fn s
  | .Break _ => true
  | .Continue _ => true
  | .Func _ _ args c s => (!c || !args.isEmpty) && wfEs fn args && wfStmts fn s
  | .Return _ e => wfE fn e
def wfBs (fn : Bool) : List Branch → Bool
  | [] => true
  | .mk c s :: r => wfE fn c && wfStmts fn s && wfBs fn r
end

/-! ### the printer -/

/-- comma-separated items closed by `close`; with `c` the last item is preceded by the collect marker `..`.
    No trailing comma is printed. -/
def sepBody (close : Token) (c : Bool) : List (List Token) → List Token
  | [] => [close]
  | [t] => (if c then [Token.DotDot] else []) ++ (t ++ [close])
  | t :: rest => t ++ Token.Comma :: sepBody close c rest

/-- what follows the first `if`: `b₁ else if b₂ … (else e)?`, each `bᵢ` being the tokens of a condition and
    its block -/
def ifTail : List (List Token) → Option (List Token) → List Token
  | [], none => []
  | [], some e => Token.Else :: e
  | [b], none => b
  | [b], some e => b ++ Token.Else :: e
  | b :: bs, els => b ++ Token.Else :: Token.If :: ifTail bs els

def ifBody (bs : List (List Token)) (els : Option (List Token)) : List Token := Token.If :: ifTail bs els

def spreadMark (s : Bool) : List Token := if s then [Token.DotDot] else []

mutual
def prR : Nat → RawExpr → List Token
  | _, .Null => [.Null]
  | _, .Bool true => [.True]
  | _, .Bool false => [.False]
  | _, .Int (.ofNat n) => [.IntLiteral (.ofNat n)]
  | _, .Int (.negSucc n) => [.Sub, .IntLiteral (.ofNat (n + 1))]
  | _, .Str s none => [.StrLiteral s]
  | _, .Str s (some sl) => [.InterpStrLiteral s sl]
  | _, .Var x => [.Ident x]
  | k, .BinaryOp op _ l r =>
    paren (decide (tierOf op < k)) (prE (tierOf op) l ++ tokOf op :: prE (tierOf op + 1) r)
  | k, .Range l r => paren (decide (1 < k)) (prE 1 l ++ Token.DotDot :: prE Gen.firstTier r)
  | _, .List items c => Token.BracketOpen :: sepBody .BracketClose c (prItems items)
  | _, .Index e i => prE 5 e ++ Token.BracketOpen :: (prE 1 i ++ [Token.BracketClose])
  | _, .RangeIndex e a b => prE 5 e ++ Token.BracketOpen :: (prO a ++ Token.Colon :: (prO b ++ [Token.BracketClose]))
  | _, .Prop e name tp => prE 5 e ++ [if tp then Token.DashGreaterThan else Token.Dot, Token.Ident name]
  | _, .Call f args => prE 5 f ++ Token.ParenOpen :: sepBody .ParenClose false (prItems args)
  | _, .Object props => Token.BraceOpen :: sepBody .BraceClose false (prProps props)
  | _, .Func args c stmts =>
    Token.Fn :: Token.ParenOpen :: (sepBody .ParenClose c (prEs args) ++ Token.BraceOpen :: (prStmts stmts ++ [Token.BraceClose]))
def prE : Nat → Expr → List Token
  | k, .mk r _ => prR k r
def prO : Option Expr → List Token
  | none => []
  | some e => prE 1 e
def prItems : List ListItem → List (List Token)
  | [] => []
  | .mk e s :: r => (prE 1 e ++ spreadMark s) :: prItems r
def prProps : List PropItem → List (List Token)
  | [] => []
  | .Pair k v :: r => (prE 1 k ++ Token.Colon :: prE 1 v) :: prProps r
  | .Single e s c :: r => (spreadMark c ++ (prE 1 e ++ spreadMark s)) :: prProps r
def prEs : List Expr → List (List Token)
  | [] => []
  | e :: r => prE 1 e :: prEs r
def prStmts : List Stmt → List Token
  | [] => []
  | s :: r => prStmt s ++ Token.StmtEnd :: prStmts r
def prStmt : Stmt → List Token
  | .Block b => Token.BraceOpen :: (prStmts b ++ [Token.BraceClose])
  | .Expr e => prE 1 e
  | .Declare l r => prE 1 l ++ Token.ColonEquals :: prE 1 r
  | .Assign l r => prE 1 l ++ Token.Equals :: prE 1 r
  | .OpAssign l op _ r => prE 1 l ++ (assignTokOf op).getD Token.Equals :: prE 1 r
  | .If bs none => ifBody (prBs bs) none
  | .If bs (some els) => ifBody (prBs bs) (some (Token.BraceOpen :: (prStmts els ++ [Token.BraceClose])))
  | .While c s => Token.While :: (prE 1 c ++ Token.BraceOpen :: (prStmts s ++ [Token.BraceClose]))
  | .For l i s =>
    Token.For :: (prE 1 l ++ Token.In :: (prE 1 i ++ Token.BraceOpen :: (prStmts s ++ [Token.BraceClose])))
  | .Break _ => [Token.Break]
  | .Continue _ => [Token.Continue]
  | .Func n _ args c s =>
    Token.Fn :: Token.Ident n :: Token.ParenOpen ::
      (sepBody .ParenClose c (prEs args) ++ Token.BraceOpen :: (prStmts s ++ [Token.BraceClose]))
  | .Return _ e => Token.Return :: prE 1 e
def prBs : List Branch → List (List Token)
  | [] => []
  | .mk c s :: r => (prE 1 c ++ Token.BraceOpen :: (prStmts s ++ [Token.BraceClose])) :: prBs r
end

def prBlock (stmts : List Stmt) : List Token := Token.BraceOpen :: (prStmts stmts ++ [Token.BraceClose])

def prItem : ListItem → List Token
  | .mk e s => prE 1 e ++ spreadMark s
def prProp : PropItem → List Token
  | .Pair k v => prE 1 k ++ Token.Colon :: prE 1 v
  | .Single e s c => spreadMark c ++ (prE 1 e ++ spreadMark s)
def prB : Branch → List Token
  | .mk c s => prE 1 c ++ prBlock s

theorem prItems_map (l : List ListItem) : prItems l = l.map prItem := by
  induction l with
  | nil => rfl
  | cons i l ih => cases i; simp only [prItems, List.map_cons, prItem, ih]

theorem prProps_map (l : List PropItem) : prProps l = l.map prProp := by
  induction l with
  | nil => rfl
  | cons i l ih => cases i <;> simp only [prProps, List.map_cons, prProp, ih]

theorem prEs_map (l : List Expr) : prEs l = l.map (prE 1) := by
  induction l with
  | nil => rfl
  | cons i l ih => simp only [prEs, List.map_cons, ih]

theorem prBs_map (l : List Branch) : prBs l = l.map prB := by
  induction l with
  | nil => rfl
  | cons i l ih => cases i; simp only [prBs, List.map_cons, prB, prBlock, ih]

/-! ### the printer on concrete trees -/

private def v (s : List Char) : Expr := .mk (.Var s) (0, 0)
private def n (k : Int) : Expr := .mk (.Int k) (0, 0)

-- `a.b[0](x, y..).c`
example : prE 1 (.mk (.Prop (.mk (.Call (.mk (.Index (.mk (.Prop (v c!"a") c!"b" false) (0, 0)) (n 0)) (0, 0))
      [.mk (v c!"x") false, .mk (v c!"y") true]) (0, 0)) c!"c" false) (0, 0)) =
    [.Ident c!"a", .Dot, .Ident c!"b", .BracketOpen, .IntLiteral 0, .BracketClose, .ParenOpen, .Ident c!"x",
      .Comma, .Ident c!"y", .DotDot, .ParenClose, .Dot, .Ident c!"c"] := by decide +kernel
-- `(a + b)[-1]`, `a + b[1]`
example : prE 1 (.mk (.Index (.mk (.BinaryOp .Sum (0, 0) (v c!"a") (v c!"b")) (0, 0)) (n (-1))) (0, 0)) =
    [.ParenOpen, .Ident c!"a", .Sum, .Ident c!"b", .ParenClose, .BracketOpen, .Sub, .IntLiteral 1, .BracketClose] := by
  decide +kernel
example : prE 1 (.mk (.BinaryOp .Sum (0, 0) (v c!"a") (.mk (.Index (v c!"b") (n 1)) (0, 0))) (0, 0)) =
    [.Ident c!"a", .Sum, .Ident c!"b", .BracketOpen, .IntLiteral 1, .BracketClose] := by decide +kernel
-- `[a, ..b..]`, `x[:1]`
example : prE 1 (.mk (.List [.mk (v c!"a") false, .mk (v c!"b") true] true) (0, 0)) =
    [.BracketOpen, .Ident c!"a", .Comma, .DotDot, .Ident c!"b", .DotDot, .BracketClose] := by decide +kernel
example : prE 1 (.mk (.RangeIndex (v c!"x") none (some (n 1))) (0, 0)) =
    [.Ident c!"x", .BracketOpen, .Colon, .IntLiteral 1, .BracketClose] := by decide +kernel
-- `{a: 1, b, ..c}`
example : prE 1 (.mk (.Object [.Pair (v c!"a") (n 1), .Single (v c!"b") false false, .Single (v c!"c") false true])
      (0, 0)) =
    [.BraceOpen, .Ident c!"a", .Colon, .IntLiteral 1, .Comma, .Ident c!"b", .Comma, .DotDot, .Ident c!"c",
      .BraceClose] := by decide +kernel
-- `f := fn(x, ..r) { return x; };`  `{}.a;`  `{a, b} := o;`
example : prStmts [.Declare (v c!"f") (.mk (.Func [v c!"x", v c!"r"] true [.Return (0, 0) (v c!"x")]) (0, 0)),
      .Expr (.mk (.Prop (.mk (.Object []) (0, 0)) c!"a" false) (0, 0)),
      .Declare (.mk (.Object [.Single (v c!"a") false false, .Single (v c!"b") false false]) (0, 0)) (v c!"o")] =
    [.Ident c!"f", .ColonEquals, .Fn, .ParenOpen, .Ident c!"x", .Comma, .DotDot, .Ident c!"r", .ParenClose,
      .BraceOpen, .Return, .Ident c!"x", .StmtEnd, .BraceClose, .StmtEnd,
      .BraceOpen, .BraceClose, .Dot, .Ident c!"a", .StmtEnd,
      .BraceOpen, .Ident c!"a", .Comma, .Ident c!"b", .BraceClose, .ColonEquals, .Ident c!"o", .StmtEnd] := by
  decide +kernel

end Seed
