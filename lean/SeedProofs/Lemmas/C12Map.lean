/-
  C12Map.lean — object maps as strictly sorted association lists: the order `keyLt`, the invariant
  `Sorted`, and the finite-map laws of `objGet` / `objInsert` / `objRemove`.
-/
import SeedModel.Eval
namespace Seed

/-! ### `keyLt` is a strict total order on `List Char` -/

theorem keyLt_irrefl (a : List Char) : keyLt a a = false := by
  induction a with
  | nil => rfl
  | cons c cs ih => simp [keyLt, ih]

theorem keyLt_trans {a b c : List Char} (h1 : keyLt a b = true) (h2 : keyLt b c = true) : keyLt a c = true := by
  induction a generalizing b c with
  | nil =>
    cases b with
    | nil => simp [keyLt] at h1
    | cons y ys =>
      cases c with
      | nil => simp [keyLt] at h2
      | cons z zs => simp [keyLt]
  | cons x xs ih =>
    cases b with
    | nil => simp [keyLt] at h1
    | cons y ys =>
      cases c with
      | nil => simp [keyLt] at h2
      | cons z zs =>
        simp only [keyLt] at h1 h2 ⊢
        by_cases hxy : x.toNat < y.toNat
        · by_cases hyz : y.toNat < z.toNat
          · have : x.toNat < z.toNat := by omega
            simp [this]
          · by_cases hzy : z.toNat < y.toNat
            · simp [hyz, hzy] at h2
            · have : x.toNat < z.toNat := by omega
              simp [this]
        · by_cases hyx : y.toNat < x.toNat
          · simp [hxy, hyx] at h1
          · simp only [hxy, hyx, if_false] at h1
            by_cases hyz : y.toNat < z.toNat
            · have : x.toNat < z.toNat := by omega
              simp [this]
            · by_cases hzy : z.toNat < y.toNat
              · simp [hyz, hzy] at h2
              · simp only [hyz, hzy, if_false] at h2
                have e1 : ¬ x.toNat < z.toNat := by omega
                have e2 : ¬ z.toNat < x.toNat := by omega
                simp only [e1, e2, if_false]
                exact ih h1 h2

theorem char_eq_of_toNat_eq {a b : Char} (h : a.toNat = b.toNat) : a = b := by
  apply Char.ext
  apply UInt32.toNat_inj.mp
  exact h

/-- trichotomy: two keys that are not related either way are equal -/
theorem keyLt_total {a b : List Char} (h1 : keyLt a b = false) (h2 : keyLt b a = false) : a = b := by
  induction a generalizing b with
  | nil =>
    cases b with
    | nil => rfl
    | cons y ys => simp [keyLt] at h1
  | cons x xs ih =>
    cases b with
    | nil => simp [keyLt] at h2
    | cons y ys =>
      simp only [keyLt] at h1 h2
      by_cases hxy : x.toNat < y.toNat
      · simp [hxy] at h1
      · by_cases hyx : y.toNat < x.toNat
        · simp [hyx] at h2
        · simp only [hxy, hyx, if_false] at h1 h2
          have : x = y := char_eq_of_toNat_eq (by omega)
          rw [this, ih h1 h2]

theorem keyLt_asymm {a b : List Char} (h : keyLt a b = true) : keyLt b a = false := by
  cases h' : keyLt b a with
  | false => rfl
  | true => have := keyLt_trans h h'; rw [keyLt_irrefl] at this; cases this

theorem keyLt_ne {a b : List Char} (h : keyLt a b = true) : a ≠ b := by
  intro e; subst e; rw [keyLt_irrefl] at h; cases h

/-- exactly one of `a < b`, `a = b`, `b < a` -/
theorem keyLt_trichotomy (a b : List Char) : keyLt a b = true ∨ a = b ∨ keyLt b a = true := by
  cases h1 : keyLt a b with
  | true => exact .inl rfl
  | false =>
    cases h2 : keyLt b a with
    | true => exact .inr (.inr rfl)
    | false => exact .inr (.inl (keyLt_total h1 h2))

/-! ### the invariant -/

/-- strictly increasing keys (`BTreeMap` iteration order) -/
def Sorted (m : ObjMap) : Prop := m.Pairwise fun p q => keyLt p.1 q.1 = true

theorem Sorted.nil : Sorted [] := List.Pairwise.nil

theorem sorted_cons {p : List Char × SVal} {m : ObjMap} :
    Sorted (p :: m) ↔ (∀ q ∈ m, keyLt p.1 q.1 = true) ∧ Sorted m := List.pairwise_cons

theorem Sorted.tail {p : List Char × SVal} {m : ObjMap} (h : Sorted (p :: m)) : Sorted m := (sorted_cons.mp h).2

theorem objGet_none_of_lt {k : List Char} {m : ObjMap} (h : ∀ q ∈ m, keyLt k q.1 = true) : objGet k m = none := by
  induction m with
  | nil => rfl
  | cons p r ih =>
    obtain ⟨k', v'⟩ := p
    have hk : k ≠ k' := keyLt_ne (h (k', v') (List.mem_cons_self))
    simp only [objGet, hk, if_false]
    exact ih fun q hq => h q (List.mem_cons_of_mem _ hq)

theorem objGet_head_tail_none {k : List Char} {v : SVal} {m : ObjMap} (h : Sorted ((k, v) :: m)) : objGet k m = none :=
  objGet_none_of_lt (sorted_cons.mp h).1

theorem mem_objInsert {k : List Char} {v : SVal} {m : ObjMap} {q : List Char × SVal} (h : q ∈ objInsert k v m) :
    q = (k, v) ∨ q ∈ m := by
  induction m with
  | nil => simp [objInsert] at h; exact .inl h
  | cons p r ih =>
    obtain ⟨k', v'⟩ := p
    simp only [objInsert] at h
    split at h
    · rcases List.mem_cons.mp h with h | h
      · exact .inl h
      · exact .inr (List.mem_cons_of_mem _ h)
    · split at h
      · rcases List.mem_cons.mp h with h | h
        · exact .inl h
        · exact .inr h
      · rcases List.mem_cons.mp h with h | h
        · exact .inr (h ▸ List.mem_cons_self)
        · rcases ih h with h | h
          · exact .inl h
          · exact .inr (List.mem_cons_of_mem _ h)

/-- `objInsert` keeps the list strictly sorted -/
theorem objInsert_sorted {k : List Char} {v : SVal} {m : ObjMap} (h : Sorted m) : Sorted (objInsert k v m) := by
  induction m with
  | nil => exact sorted_cons.mpr ⟨by simp, Sorted.nil⟩
  | cons p r ih =>
    obtain ⟨k', v'⟩ := p
    obtain ⟨hlt, hr⟩ := sorted_cons.mp h
    simp only [objInsert]
    split
    · rename_i e
      exact sorted_cons.mpr ⟨fun q hq => by rw [e]; exact hlt q hq, hr⟩
    · rename_i ne
      split
      · rename_i lt
        refine sorted_cons.mpr ⟨fun q hq => ?_, h⟩
        rcases List.mem_cons.mp hq with e | hq
        · rw [e]; exact lt
        · exact keyLt_trans lt (hlt q hq)
      · rename_i nlt
        have hgt : keyLt k' k = true := by
          rcases keyLt_trichotomy k k' with h | h | h
          · exact absurd h nlt
          · exact absurd h ne
          · exact h
        refine sorted_cons.mpr ⟨fun q hq => ?_, ih hr⟩
        rcases mem_objInsert hq with e | hq
        · rw [e]; exact hgt
        · exact hlt q hq

/-- lookup after insert -/
theorem objGet_objInsert (k k' : List Char) (v : SVal) (m : ObjMap) :
    objGet k' (objInsert k v m) = if k' = k then some v else objGet k' m := by
  induction m with
  | nil => simp [objInsert, objGet]
  | cons p r ih =>
    obtain ⟨k1, v1⟩ := p
    simp only [objInsert]
    split
    · rename_i e
      subst e
      simp only [objGet]
      split <;> rfl
    · rename_i ne
      split
      · simp only [objGet]
      · simp only [objGet, ih]
        by_cases h1 : k' = k1
        · have : k' ≠ k := fun e => ne (e.symm.trans h1)
          simp [h1]
          intro e; exact absurd e.symm ne
        · simp [h1]

theorem objGet_objInsert_same (k : List Char) (v : SVal) (m : ObjMap) : objGet k (objInsert k v m) = some v := by
  rw [objGet_objInsert]; simp

theorem objGet_objInsert_other {k k' : List Char} (h : k' ≠ k) (v : SVal) (m : ObjMap) :
    objGet k' (objInsert k v m) = objGet k' m := by
  rw [objGet_objInsert]; simp [h]

/-- the number of properties grows by one exactly when the key was absent -/
theorem objInsert_length (k : List Char) (v : SVal) {m : ObjMap} (h : Sorted m) :
    (objInsert k v m).length = m.length + (if (objGet k m).isSome then 0 else 1) := by
  induction m with
  | nil => simp [objInsert, objGet]
  | cons p r ih =>
    obtain ⟨k1, v1⟩ := p
    simp only [objInsert]
    split
    · rename_i e; simp [objGet, e]
    · rename_i ne
      split
      · rename_i lt
        have : objGet k r = none :=
          objGet_none_of_lt fun q hq => keyLt_trans lt ((sorted_cons.mp h).1 q hq)
        simp [objGet, ne, this]
      · simp only [List.length_cons, ih h.tail, objGet, ne, if_false]; omega

/-- extensionality: sorted maps with the same lookups are the same list -/
theorem sorted_ext {m m' : ObjMap} (h : Sorted m) (h' : Sorted m') (e : ∀ k, objGet k m = objGet k m') : m = m' := by
  induction m generalizing m' with
  | nil =>
    cases m' with
    | nil => rfl
    | cons p r => obtain ⟨k, v⟩ := p; have := e k; simp [objGet] at this
  | cons p r ih =>
    obtain ⟨k, v⟩ := p
    cases m' with
    | nil => have := e k; simp [objGet] at this
    | cons p' r' =>
      obtain ⟨k', v'⟩ := p'
      have hk : k = k' := by
        rcases keyLt_trichotomy k k' with lt | eq | gt
        · have h1 : objGet k ((k', v') :: r') = none :=
            objGet_none_of_lt fun q hq => by
              rcases List.mem_cons.mp hq with e | hq
              · rw [e]; exact lt
              · exact keyLt_trans lt ((sorted_cons.mp h').1 q hq)
          have := e k; rw [h1] at this; simp [objGet] at this
        · exact eq
        · have h1 : objGet k' ((k, v) :: r) = none :=
            objGet_none_of_lt fun q hq => by
              rcases List.mem_cons.mp hq with e | hq
              · rw [e]; exact gt
              · exact keyLt_trans gt ((sorted_cons.mp h).1 q hq)
          have := e k'; rw [h1] at this; simp [objGet] at this
      subst hk
      have hv : v = v' := by have := e k; simpa [objGet] using this
      subst hv
      have : r = r' := by
        apply ih h.tail h'.tail
        intro x
        by_cases hx : x = k
        · subst hx; rw [objGet_head_tail_none h, objGet_head_tail_none h']
        · have := e x; simpa [objGet, hx] using this
      rw [this]

/-- inserts under different keys commute -/
theorem objInsert_comm {k1 k2 : List Char} (hne : k1 ≠ k2) (v1 v2 : SVal) {m : ObjMap} (h : Sorted m) :
    objInsert k1 v1 (objInsert k2 v2 m) = objInsert k2 v2 (objInsert k1 v1 m) := by
  apply sorted_ext (objInsert_sorted (objInsert_sorted h)) (objInsert_sorted (objInsert_sorted h))
  intro k
  simp only [objGet_objInsert]
  by_cases a : k = k1
  · have : k ≠ k2 := fun e => hne (a.symm.trans e)
    simp [a, hne]
  · simp [a]

/-- inserting the same key twice keeps the later value -/
theorem objInsert_overwrite (k : List Char) (v1 v2 : SVal) {m : ObjMap} (h : Sorted m) :
    objInsert k v2 (objInsert k v1 m) = objInsert k v2 m := by
  apply sorted_ext (objInsert_sorted (objInsert_sorted h)) (objInsert_sorted h)
  intro x
  simp only [objGet_objInsert]
  split <;> rfl

/-- building a map by a sequence of inserts -/
def insertAll (acc : ObjMap) (ps : List (List Char × SVal)) : ObjMap :=
  ps.foldl (fun acc kv => objInsert kv.1 kv.2 acc) acc

theorem insertAll_sorted {acc : ObjMap} (h : Sorted acc) (ps : List (List Char × SVal)) : Sorted (insertAll acc ps) := by
  induction ps generalizing acc with
  | nil => exact h
  | cons p r ih => exact ih (objInsert_sorted h)

/-- keys pairwise different -/
def DistinctKeys (ps : List (List Char × SVal)) : Prop := ps.Pairwise fun p q => p.1 ≠ q.1

theorem Sorted.distinct {m : ObjMap} (h : Sorted m) : DistinctKeys m :=
  List.Pairwise.imp (fun h => keyLt_ne h) h

theorem DistinctKeys.perm {ps qs : List (List Char × SVal)} (p : ps.Perm qs) (h : DistinctKeys ps) : DistinctKeys qs :=
  List.Perm.pairwise p h (fun h => Ne.symm h)

/-- **order independence**: any two orders of the same inserts (distinct keys) give the same list -/
theorem insertAll_perm {ps qs : List (List Char × SVal)} (p : ps.Perm qs) (hd : DistinctKeys ps)
    {acc : ObjMap} (h : Sorted acc) : insertAll acc ps = insertAll acc qs := by
  induction p generalizing acc with
  | nil => rfl
  | cons x _ ih =>
    exact ih (List.Pairwise.of_cons hd) (objInsert_sorted h)
  | swap x y l =>
    simp only [insertAll, List.foldl_cons]
    have hne : y.1 ≠ x.1 := (List.pairwise_cons.mp hd).1 x (List.mem_cons_self)
    rw [objInsert_comm hne.symm _ _ h]
  | trans p1 _ ih1 ih2 =>
    exact (ih1 hd h).trans (ih2 (hd.perm p1) h)

/-- lookup in a sequence of inserts into a map: a key of the (distinct-key) sequence gives its value -/
theorem objGet_insertAll_sorted (k : List Char) {m : ObjMap} (hm : Sorted m) (acc : ObjMap) :
    objGet k (insertAll acc m) = match objGet k m with | some v => some v | none => objGet k acc := by
  induction m generalizing acc with
  | nil => rfl
  | cons p r ih =>
    obtain ⟨k1, v1⟩ := p
    simp only [insertAll, List.foldl_cons]
    have := ih hm.tail (objInsert k1 v1 acc)
    simp only [insertAll] at this
    rw [this, objGet_objInsert]
    by_cases e : k = k1
    · subst e; simp [objGet, objGet_head_tail_none hm]
    · simp [objGet, e]

/-- a sorted map is what inserting its own pairs, in any order, builds -/
theorem insertAll_self {m : ObjMap} (h : Sorted m) : insertAll [] m = m := by
  apply sorted_ext (insertAll_sorted Sorted.nil m) h
  intro k
  rw [objGet_insertAll_sorted k h]
  cases objGet k m <;> rfl

/-! ### `objRemove`, filters -/

theorem objGet_filter_key (p : List Char → Bool) (k : List Char) (m : ObjMap) :
    objGet k (m.filter fun kv => p kv.1) = if p k then objGet k m else none := by
  induction m with
  | nil => simp [objGet]
  | cons q r ih =>
    obtain ⟨k1, v1⟩ := q
    simp only [List.filter_cons]
    by_cases hp : p k1 = true
    · simp only [hp, if_true, objGet]
      by_cases e : k = k1
      · subst e; simp [hp]
      · simp [e, ih]
    · simp only [hp, objGet]
      by_cases e : k = k1
      · subst e; simp [hp, ih]
      · simp [e, ih]

theorem Sorted.filter {m : ObjMap} (h : Sorted m) (p : List Char × SVal → Bool) : Sorted (m.filter p) :=
  List.Pairwise.filter p h

theorem objRemove_eq_filter {m : ObjMap} (h : Sorted m) (k : List Char) :
    objRemove k m = m.filter fun kv => kv.1 ≠ k := by
  induction m with
  | nil => rfl
  | cons q r ih =>
    obtain ⟨k1, v1⟩ := q
    simp only [objRemove, List.filter_cons]
    by_cases e : k = k1
    · subst e
      simp only [if_true, ne_eq, not_true_eq_false, decide_false]
      symm
      apply List.filter_eq_self.mpr
      intro q hq
      have := keyLt_ne ((sorted_cons.mp h).1 q hq)
      simp [Ne.symm this]
    · have : k1 ≠ k := Ne.symm e
      simp [e, this, ih h.tail]

end Seed
