/-
  ParseRT2Stmt.lean — the print/parse round trip for statements and whole programs, and with them for
  function literals: `parseStmts (prStmts p) = p` up to positions, for every well-formed program.

  `StmtRT st`: parsing `prStmt st ++ ; ++ rest` with `parseRawStmt` (in either ambiguity mode) gives `st`
  back and stops before the `;`.  One lemma per statement production; `stmtStep` is the case analysis;
  `rt_all` the joint induction (on the size of the tree) over expressions and statements.
-/
import SeedProofs.Lemmas.ParseRT2Brace
set_option linter.unusedSimpArgs false
namespace Seed

/-! ### the head of an expression statement -/

/-- the assignment target / expression statement `r`, followed by the rest of the statement -/
theorem lhs_rt {r : RawExpr} (l : Loc) (h : SE r) (amb : Bool) (tsl rest : List Span)
    (hts : tsl.map Span.tok = prR 1 r) (hst : stops amb rest) :
    ∃ e', stripE e' = stripE (.mk r l) ∧
      ∀ st r', PStmtTail e' rest st r' → PRawStmt amb (tsl ++ rest) st r' := by
  obtain ⟨sp, tsl', rfl, _⟩ := spans_start hts (prR_starts r 1)
  obtain ⟨raw, he, _, hk⟩ := h amb sp tsl' rest hts hst
  exact ⟨.mk raw sp.start, by simp only [stripE, he], fun st r' hT => by simpa using hk st r' hT⟩

/-! ### statements -/

/-- round trip of one statement, in either ambiguity mode, followed by its terminator -/
def StmtRT (st : Stmt) : Prop :=
  ∀ (amb : Bool) (ts : List Span) (se : Span) (rest : List Span), ts.map Span.tok = prStmt st → se.tok = .StmtEnd →
    ∃ st', stripStmt st' = stripStmt st ∧ PRawStmt amb (ts ++ se :: rest) st' (se :: rest)

theorem stops_stmtEnd {s : Bool} {se : Span} {rest : List Span} (h : se.tok = .StmtEnd) : stops s (se :: rest) :=
  stops_of_tok (by rw [h]; rfl)

theorem StmtRT_expr {r : RawExpr} {l : Loc} (h : SE r) : StmtRT (.Expr (.mk r l)) := by
  intro amb ts se rest hts hse
  simp only [prStmt, prE] at hts
  obtain ⟨e', he', hk⟩ := lhs_rt l h amb ts (se :: rest) hts (stops_stmtEnd hse)
  exact ⟨.Expr e', by simp only [stripStmt, he'], hk _ _ (PStmtTail.none hse)⟩

theorem StmtRT_declare {l : RawExpr} {ll : Loc} {r : Expr} (hl : SE l) (hr : FEE r) :
    StmtRT (.Declare (.mk l ll) r) := by
  intro amb ts se rest hts hse
  simp only [prStmt, prE] at hts
  obtain ⟨tsl, ts2, rfl, htl, h2⟩ := map_tok_append hts
  obtain ⟨so, tsr, rfl, hso, htr⟩ := map_tok_cons h2
  obtain ⟨r', hr', hpr⟩ := hr false tsr (se :: rest) htr (stops_stmtEnd hse)
  obtain ⟨e', he', hk⟩ := lhs_rt ll hl amb tsl (so :: (tsr ++ se :: rest)) htl (stops_of_tok (by rw [hso]; rfl))
  refine ⟨.Declare e' r', by simp only [stripStmt, he', hr'], ?_⟩
  have := hk _ _ (PStmtTail.declare hso hpr)
  simpa [List.append_assoc] using this

theorem StmtRT_assign {l : RawExpr} {ll : Loc} {r : Expr} (hl : SE l) (hr : FEE r) :
    StmtRT (.Assign (.mk l ll) r) := by
  intro amb ts se rest hts hse
  simp only [prStmt, prE] at hts
  obtain ⟨tsl, ts2, rfl, htl, h2⟩ := map_tok_append hts
  obtain ⟨so, tsr, rfl, hso, htr⟩ := map_tok_cons h2
  obtain ⟨r', hr', hpr⟩ := hr false tsr (se :: rest) htr (stops_stmtEnd hse)
  obtain ⟨e', he', hk⟩ := lhs_rt ll hl amb tsl (so :: (tsr ++ se :: rest)) htl (stops_of_tok (by rw [hso]; rfl))
  refine ⟨.Assign e' r', by simp only [stripStmt, he', hr'], ?_⟩
  have := hk _ _ (PStmtTail.assign hso hpr)
  simpa [List.append_assoc] using this

/-- the spelling of an op-assignment operator is recognised by the parser's table lookup -/
theorem assignTok_facts {op : BinaryOp} {t : Token} (h : assignTokOf op = some t) :
    assignOpOf t = some op ∧ t ≠ .ColonEquals ∧ t ≠ .Equals ∧ isStopTok t = true := by
  cases op <;> simp [assignTokOf, Gen.assignOps] at h <;> subst h <;>
    simp [assignOpOf, lookupAssoc, Gen.assignOps, isStopTok]

theorem StmtRT_opAssign {l : RawExpr} {ll ol : Loc} {op : BinaryOp} {r : Expr} (hop : (assignTokOf op).isSome = true)
    (hl : SE l) (hr : FEE r) : StmtRT (.OpAssign (.mk l ll) op ol r) := by
  intro amb ts se rest hts hse
  obtain ⟨t, ht⟩ := Option.isSome_iff_exists.mp hop
  have f := assignTok_facts ht
  simp only [prStmt, prE, ht, Option.getD_some] at hts
  obtain ⟨tsl, ts2, rfl, htl, h2⟩ := map_tok_append hts
  obtain ⟨so, tsr, rfl, hso, htr⟩ := map_tok_cons h2
  obtain ⟨r', hr', hpr⟩ := hr false tsr (se :: rest) htr (stops_stmtEnd hse)
  obtain ⟨e', he', hk⟩ := lhs_rt ll hl amb tsl (so :: (tsr ++ se :: rest)) htl (stops_of_tok (by rw [hso]; exact f.2.2.2))
  refine ⟨.OpAssign e' op so.start r', by simp only [stripStmt, he', hr'], ?_⟩
  have := hk _ _ (PStmtTail.opAssign (by rw [hso]; exact f.1) (by rw [hso]; exact f.2.1) (by rw [hso]; exact f.2.2.1) hpr)
  simpa [List.append_assoc] using this

theorem StmtRT_break {l : Loc} : StmtRT (.Break l) := by
  intro amb ts se rest hts hse
  simp only [prStmt] at hts
  obtain ⟨sp, t', rfl, hsp, h'⟩ := map_tok_cons hts
  obtain rfl := map_tok_nil h'
  exact ⟨.Break sp.start, rfl, PRawStmt.break_ hsp⟩

theorem StmtRT_continue {l : Loc} : StmtRT (.Continue l) := by
  intro amb ts se rest hts hse
  simp only [prStmt] at hts
  obtain ⟨sp, t', rfl, hsp, h'⟩ := map_tok_cons hts
  obtain rfl := map_tok_nil h'
  exact ⟨.Continue sp.start, rfl, PRawStmt.continue_ hsp⟩

theorem StmtRT_return {l : Loc} {e : Expr} (he : FEE e) : StmtRT (.Return l e) := by
  intro amb ts se rest hts hse
  simp only [prStmt] at hts
  obtain ⟨sp, tse, rfl, hsp, hte⟩ := map_tok_cons hts
  obtain ⟨e', he', hpe⟩ := he false tse (se :: rest) hte (stops_stmtEnd hse)
  exact ⟨.Return sp.start e', by simp only [stripStmt, he'], PRawStmt.return_ hsp hpe⟩

/-! ### statement lists and blocks -/

/-- the first token of a printed statement -/
theorem prStmt_head (st : Stmt) : ∃ t l, prStmt st = t :: l ∧ t ≠ Token.BraceClose ∧ t ≠ Token.DotDot := by
  have hE : ∀ (e : Expr) (tl : List Token),
      ∃ t l, prE 1 e ++ tl = t :: l ∧ t ≠ Token.BraceClose ∧ t ≠ Token.DotDot := by
    intro e tl
    obtain ⟨t, l, h, hs, _⟩ := prE_starts e 1
    exact ⟨t, l ++ tl, by rw [h]; rfl, starter_ne hs rfl, starter_ne hs rfl⟩
  cases st with
  | Block b => exact ⟨_, _, rfl, by decide, by decide⟩
  | Expr e => simpa [prStmt] using hE e []
  | Declare l r => simpa [prStmt] using hE l _
  | Assign l r => simpa [prStmt] using hE l _
  | OpAssign l op ol r => simpa [prStmt] using hE l _
  | If bs els => cases els <;> exact ⟨_, _, rfl, by decide, by decide⟩
  | While c s => exact ⟨_, _, rfl, by decide, by decide⟩
  | For l i s => exact ⟨_, _, rfl, by decide, by decide⟩
  | Break l => exact ⟨_, _, rfl, by decide, by decide⟩
  | Continue l => exact ⟨_, _, rfl, by decide, by decide⟩
  | Func n l a c s => exact ⟨_, _, rfl, by decide, by decide⟩
  | Return l e => exact ⟨_, _, rfl, by decide, by decide⟩

/-- the statements of a block, up to and including the closing brace -/
theorem stmts_rt_block (stmts : List Stmt) (h : ∀ st ∈ stmts, StmtRT st) :
    ∀ (acc : List Stmt) (ts : List Span) (sc : Span) (rest : List Span),
      ts.map Span.tok = prStmts stmts → sc.tok = .BraceClose →
      ∃ stmts', stmts'.map stripStmt = stmts.map stripStmt ∧
        PStmts true acc (ts ++ sc :: rest) (acc.reverse ++ stmts') rest := by
  induction stmts with
  | nil =>
    intro acc ts sc rest hts hsc
    obtain rfl := map_tok_nil (by simpa [prStmts] using hts)
    exact ⟨[], rfl, by simpa using PStmts.close (acc := acc) (r := rest) hsc⟩
  | cons st stmts ih =>
    intro acc ts sc rest hts hsc
    simp only [prStmts] at hts
    obtain ⟨tss, ts2, rfl, hts1, h2⟩ := map_tok_append hts
    obtain ⟨se, ts3, rfl, hse, h3⟩ := map_tok_cons h2
    obtain ⟨st', hst', hp⟩ := h st (List.mem_cons_self ..) false tss se (ts3 ++ sc :: rest) hts1 hse
    obtain ⟨stmts', hs', hps⟩ := ih (fun s hs => h s (List.mem_cons_of_mem _ hs)) (st' :: acc) ts3 sc rest h3 hsc
    obtain ⟨t, l, hhead, hnc, _⟩ := prStmt_head st
    rw [hhead] at hts1
    obtain ⟨s1, tss', rfl, hs1, _⟩ := map_tok_cons hts1
    refine ⟨st' :: stmts', by simp only [List.map_cons, hst', hs'], ?_⟩
    have := PStmts.cons (acc := acc) (by rw [hs1]; exact hnc) hp hse (by simpa using hps)
    simpa [List.append_assoc] using this

/-- the statements of a program, up to the end of input -/
theorem stmts_rt_top (stmts : List Stmt) (h : ∀ st ∈ stmts, StmtRT st) :
    ∀ (acc : List Stmt) (ts : List Span), ts.map Span.tok = prStmts stmts →
      ∃ stmts', stmts'.map stripStmt = stmts.map stripStmt ∧ PStmts false acc ts (acc.reverse ++ stmts') [] := by
  induction stmts with
  | nil =>
    intro acc ts hts
    obtain rfl := map_tok_nil (by simpa [prStmts] using hts)
    exact ⟨[], rfl, by simpa using PStmts.eof (acc := acc)⟩
  | cons st stmts ih =>
    intro acc ts hts
    simp only [prStmts] at hts
    obtain ⟨tss, ts2, rfl, hts1, h2⟩ := map_tok_append hts
    obtain ⟨se, ts3, rfl, hse, h3⟩ := map_tok_cons h2
    obtain ⟨st', hst', hp⟩ := h st (List.mem_cons_self ..) false tss se ts3 hts1 hse
    obtain ⟨stmts', hs', hps⟩ := ih (fun s hs => h s (List.mem_cons_of_mem _ hs)) (st' :: acc) ts3 h3
    obtain ⟨t, l, hhead, hnc, _⟩ := prStmt_head st
    rw [hhead] at hts1
    obtain ⟨s1, tss', rfl, hs1, _⟩ := map_tok_cons hts1
    refine ⟨st' :: stmts', by simp only [List.map_cons, hst', hs'], ?_⟩
    have := PStmts.cons (acc := acc) (by rw [hs1]; exact hnc) hp hse (by simpa using hps)
    simpa [List.append_assoc] using this

theorem block_rt {stmts : List Stmt} (h : ∀ st ∈ stmts, StmtRT st) : BlockRT stmts := by
  intro ts rest hts
  simp only [prBlock] at hts
  obtain ⟨so, ts1, rfl, hso, h1⟩ := map_tok_cons hts
  obtain ⟨tss, ts2, rfl, htss, h2⟩ := map_tok_append h1
  obtain ⟨sc, t', rfl, hsc, h'⟩ := map_tok_cons h2
  obtain rfl := map_tok_nil h'
  obtain ⟨stmts', hs', hps⟩ := stmts_rt_block stmts h [] tss sc rest htss hsc
  refine ⟨stmts', by simp only [stripStmts_map, hs'], ?_⟩
  have := PBlock.mk hso (by simpa using hps)
  simpa [List.append_assoc] using this

/-- `{ stmt ; … }` in statement position -/
theorem StmtRT_block {st0 : Stmt} {b : List Stmt} (h : ∀ st ∈ st0 :: b, StmtRT st) : StmtRT (.Block (st0 :: b)) := by
  intro amb ts se rest hts hse
  simp only [prStmt, prStmts] at hts
  obtain ⟨so, ts1, rfl, hso, h1⟩ := map_tok_cons hts
  obtain ⟨tsb, ts2, rfl, htsb, h2⟩ := map_tok_append h1
  obtain ⟨sc, t', rfl, hsc, h'⟩ := map_tok_cons h2
  obtain rfl := map_tok_nil h'
  obtain ⟨ts0, ts3, rfl, hts0, h3⟩ := map_tok_append htsb
  obtain ⟨se0, ts4, rfl, hse0, h4⟩ := map_tok_cons h3
  obtain ⟨st0', hst0', hp0⟩ := h st0 (List.mem_cons_self ..) true ts0 se0 (ts4 ++ sc :: se :: rest) hts0 hse0
  obtain ⟨b', hb', hpb⟩ := stmts_rt_block b (fun s hs => h s (List.mem_cons_of_mem _ hs)) [st0'] ts4 sc (se :: rest) h4 hsc
  obtain ⟨t, l, hhead, hnc, hnd⟩ := prStmt_head st0
  rw [hhead] at hts0
  obtain ⟨s1, ts0', rfl, hs1, _⟩ := map_tok_cons hts0
  refine ⟨.Block (st0' :: b'), by simp only [stripStmt, stripStmts_map, List.map_cons, hst0', hb'], ?_⟩
  have := PRawStmt.brace (amb := amb) hso
    (PBraceStmt.block (amb := amb) (loc := so.start) (by rw [hs1]; exact hnc) (by rw [hs1]; exact hnd) hp0 hse0
      (by simpa using hpb))
  simpa [List.append_assoc] using this

/-! ### compound statements -/

theorem isStop_braceOpen : isStopTok Token.BraceOpen = true := rfl

/-- a condition and its block -/
theorem branch_rt {cond : Expr} {stmts : List Stmt} (hc : FEE cond) (hb : BlockRT stmts) (tsb rest : List Span)
    (hts : tsb.map Span.tok = prE 1 cond ++ prBlock stmts) :
    ∃ cond' stmts' r, stripE cond' = stripE cond ∧ stripStmts stmts' = stripStmts stmts ∧
      PExpr false (tsb ++ rest) cond' r ∧ PBlock r stmts' rest := by
  obtain ⟨tsc, tsk, rfl, htc, htk⟩ := map_tok_append hts
  obtain ⟨stmts', hs', hpb⟩ := hb tsk rest htk
  have hk0 := htk
  simp only [prBlock] at hk0
  obtain ⟨so, tsk', rfl, hso, _⟩ := map_tok_cons hk0
  obtain ⟨cond', hc', hpc⟩ := hc false tsc ((so :: tsk') ++ rest) htc (stops_of_tok (by rw [hso]; rfl))
  exact ⟨cond', stmts', _, hc', hs', by simpa [List.append_assoc] using hpc, hpb⟩

def BranchRT : Branch → Prop
  | .mk cond stmts => FEE cond ∧ BlockRT stmts

/-- what follows the keyword `if` -/
theorem if_rt (els : Option (List Stmt)) (hels : ∀ e, els = some e → BlockRT e) (bs : List Branch)
    (hbs : ∀ b ∈ bs, BranchRT b) (hne : bs ≠ []) :
    ∀ (ts : List Span) (se : Span) (rest : List Span),
      ts.map Span.tok = ifTail (bs.map prB) (els.map prBlock) → se.tok = .StmtEnd →
      ∃ bs' els', bs'.map stripB = bs.map stripB ∧ els'.map stripStmts = els.map stripStmts ∧
        PIf (ts ++ se :: rest) (bs', els') (se :: rest) := by
  induction bs with
  | nil => exact absurd rfl hne
  | cons b bs ih =>
    intro ts se rest hts hse
    obtain ⟨cond, stmts⟩ := b
    have hb : BranchRT (.mk cond stmts) := hbs _ (List.mem_cons_self ..)
    cases bs with
    | nil =>
      cases els with
      | none =>
        simp only [List.map_cons, List.map_nil, Option.map_none, ifTail, prB] at hts
        obtain ⟨cond', stmts', r, hc', hs', hpc, hpb⟩ := branch_rt hb.1 hb.2 ts (se :: rest) hts
        exact ⟨[.mk cond' stmts'], none, by simp only [List.map_cons, List.map_nil, stripB, hc', hs'], rfl,
          PIf.last hpc hpb (by rw [hse]; decide)⟩
      | some e =>
        simp only [List.map_cons, List.map_nil, Option.map_some, ifTail, prB] at hts
        obtain ⟨tsb, ts2, rfl, htb, h2⟩ := map_tok_append hts
        obtain ⟨sl, tse, rfl, hsl, hte⟩ := map_tok_cons h2
        obtain ⟨e', he', hpe⟩ := hels e rfl tse (se :: rest) hte
        have hk0 := hte
        simp only [prBlock] at hk0
        obtain ⟨so, tse', rfl, hso, _⟩ := map_tok_cons hk0
        obtain ⟨cond', stmts', r, hc', hs', hpc, hpb⟩ :=
          branch_rt hb.1 hb.2 tsb (sl :: ((so :: tse') ++ se :: rest)) htb
        refine ⟨[.mk cond' stmts'], some e', by simp only [List.map_cons, List.map_nil, stripB, hc', hs'],
          by simp only [Option.map_some, he'], ?_⟩
        have := PIf.elseBlock hpc hpb hsl (by rw [hso]; decide) hpe
        simpa [List.append_assoc] using this
    | cons b2 bs2 =>
      simp only [List.map_cons, ifTail] at hts
      obtain ⟨tsb, ts2, rfl, htb, h2⟩ := map_tok_append hts
      simp only [prB] at htb
      obtain ⟨sl, ts3, rfl, hsl, h3⟩ := map_tok_cons h2
      obtain ⟨si, ts4, rfl, hsi, h4⟩ := map_tok_cons h3
      obtain ⟨bs', els', hbs', hels', hpi⟩ := ih (fun b hb => hbs b (List.mem_cons_of_mem _ hb))
        (List.cons_ne_nil _ _) ts4 se rest (by simpa only [List.map_cons] using h4) hse
      obtain ⟨cond', stmts', r, hc', hs', hpc, hpb⟩ :=
        branch_rt hb.1 hb.2 tsb (sl :: si :: (ts4 ++ se :: rest)) htb
      refine ⟨.mk cond' stmts' :: bs', els', by simp only [List.map_cons, stripB, hc', hs', hbs'], hels', ?_⟩
      have := PIf.elseIf hpc hpb hsl hsi hpi
      simpa [List.append_assoc] using this

theorem StmtRT_if {bs : List Branch} {els : Option (List Stmt)} (hbs : ∀ b ∈ bs, BranchRT b) (hne : bs ≠ [])
    (hels : ∀ e, els = some e → BlockRT e) : StmtRT (.If bs els) := by
  intro amb ts se rest hts hse
  have hts' : ts.map Span.tok = Token.If :: ifTail (bs.map prB) (els.map prBlock) := by
    cases els <;> simpa [prStmt, ifBody, prBs_map, prBlock] using hts
  obtain ⟨si, ts1, rfl, hsi, h1⟩ := map_tok_cons hts'
  obtain ⟨bs', els', hbs', hels', hpi⟩ := if_rt els hels bs hbs hne ts1 se rest h1 hse
  refine ⟨.If bs' els', ?_, PRawStmt.if_ hsi hpi⟩
  cases els with
  | none =>
    cases els' with
    | none => simp only [stripStmt, stripBs_map, hbs']
    | some x => simp at hels'
  | some e =>
    cases els' with
    | none => simp at hels'
    | some x =>
      simp only [Option.map_some, Option.some.injEq] at hels'
      simp only [stripStmt, stripBs_map, hbs', hels']

theorem StmtRT_while {cond : Expr} {stmts : List Stmt} (hc : FEE cond) (hb : BlockRT stmts) :
    StmtRT (.While cond stmts) := by
  intro amb ts se rest hts hse
  have hts' : ts.map Span.tok = Token.While :: (prE 1 cond ++ prBlock stmts) := by
    simpa [prStmt, prBlock] using hts
  obtain ⟨sw, ts1, rfl, hsw, h1⟩ := map_tok_cons hts'
  obtain ⟨cond', stmts', r, hc', hs', hpc, hpb⟩ := branch_rt hc hb ts1 (se :: rest) h1
  exact ⟨.While cond' stmts', by simp only [stripStmt, hc', hs'], PRawStmt.while_ hsw hpc hpb⟩

theorem StmtRT_for {lhs iter : Expr} {stmts : List Stmt} (hl : FEE lhs) (hi : FEE iter) (hb : BlockRT stmts) :
    StmtRT (.For lhs iter stmts) := by
  intro amb ts se rest hts hse
  have hts' : ts.map Span.tok = Token.For :: (prE 1 lhs ++ Token.In :: (prE 1 iter ++ prBlock stmts)) := by
    simpa [prStmt, prBlock] using hts
  obtain ⟨sf, ts1, rfl, hsf, h1⟩ := map_tok_cons hts'
  obtain ⟨tsl, ts2, rfl, htl, h2⟩ := map_tok_append h1
  obtain ⟨sn, ts3, rfl, hsn, h3⟩ := map_tok_cons h2
  obtain ⟨iter', stmts', r, hi', hs', hpi, hpb⟩ := branch_rt hi hb ts3 (se :: rest) h3
  obtain ⟨lhs', hl', hpl⟩ := hl false tsl (sn :: (ts3 ++ se :: rest)) htl (stops_of_tok (by rw [hsn]; rfl))
  refine ⟨.For lhs' iter' stmts', by simp only [stripStmt, hl', hi', hs'], ?_⟩
  have := PRawStmt.for_ (amb := amb) hsf hpl hsn hpi hpb
  simpa [List.append_assoc] using this

theorem StmtRT_func {name : List Char} {nl : Loc} {args : List Expr} {c : Bool} {stmts : List Stmt}
    (h : ∀ e ∈ args, FEE e) (hc : c = true → args ≠ []) (hb : BlockRT stmts) :
    StmtRT (.Func name nl args c stmts) := by
  intro amb ts se rest hts hse
  have hts' : ts.map Span.tok = Token.Fn :: Token.Ident name :: Token.ParenOpen ::
      (sepBody .ParenClose c (args.map (prE 1)) ++ prBlock stmts) := by
    simpa [prStmt, prBlock, prEs_map] using hts
  obtain ⟨sf, ts1, rfl, hsf, h1⟩ := map_tok_cons hts'
  obtain ⟨sn, ts2, rfl, hsn, h2⟩ := map_tok_cons h1
  obtain ⟨so, ts3, rfl, hso, h3⟩ := map_tok_cons h2
  obtain ⟨tsp, tsb, rfl, htp, htb⟩ := map_tok_append h3
  obtain ⟨stmts', hs', hpb⟩ := hb tsb (se :: rest) htb
  obtain ⟨args', ha', hpp⟩ := params_rt c args h hc [] tsp (tsb ++ se :: rest) htp
  refine ⟨.Func name sn.start args' c stmts', by simp only [stripStmt, stripEs_map, ha', hs'], ?_⟩
  have := PRawStmt.func (amb := amb) hsf hsn hso (by simpa using hpp) hpb
  simpa [List.append_assoc] using this

end Seed
