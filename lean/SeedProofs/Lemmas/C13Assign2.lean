/-
  C13Assign2.lean — nested patterns in ASSIGNMENT mode, part 2: the fuel-free engine `amatch` succeeds exactly when
  the value has the shape of the pattern (`proj` is defined), the leaf names are pairwise distinct and not yet
  bound in this pattern, and every leaf name is declared somewhere in the scope chain; its final state is then
  `proj`'s state (the source plus the fresh rest cells) with the leaf assignments made one after the other
  (`assignAll`).

  The engine interleaves assignments (writes into scope cells) with the reads of the source cells and the
  allocation of the rest cells; `proj` does all reads and allocations on the un-assigned state.  The two agree
  because `proj` is blind to scope cells (`proj_set`: rewriting a scope cell commutes with `proj`) and only
  pushes list / object cells (`proj_next`), so that the walk of the scope chain is the same before and after.
-/
import SeedProofs.Lemmas.C13Assign
namespace Seed.C13N
open Seed Gen

/-! ### `NExt`: list and object cells pushed, nothing else -/

/-- `σ'` is `σ` with cells pushed, none of them a scope cell -/
def NExt (σ σ' : State) : Prop := PExt σ σ' ∧ ∀ b, σ'.getScope b = σ.getScope b

theorem NExt.refl (σ : State) : NExt σ σ := ⟨PExt.refl σ, fun _ => rfl⟩

theorem NExt.trans {a b c : State} (h1 : NExt a b) (h2 : NExt b c) : NExt a c :=
  ⟨h1.1.trans h2.1, fun x => (h2.2 x).trans (h1.2 x)⟩

theorem NExt.allocList (σ : State) (xs : List SVal) : NExt σ (σ.alloc (.list xs)).2 := by
  refine ⟨PExt.alloc σ _, fun b => ?_⟩
  simp only [State.getScope, State.alloc, Array.getElem?_push]
  by_cases hb : b = σ.heap.size
  · subst hb; simp
  · simp [hb]

theorem NExt.allocObj (σ : State) (o : ObjMap) : NExt σ (σ.alloc (.obj o)).2 := by
  refine ⟨PExt.alloc σ _, fun b => ?_⟩
  simp only [State.getScope, State.alloc, Array.getElem?_push]
  by_cases hb : b = σ.heap.size
  · subst hb; simp
  · simp [hb]

theorem NExt.sameKeys {σ σ' : State} (h : NExt σ σ') : SameKeys σ σ' := SameKeys.of_getScope h.2

theorem NExt.nearest {σ σ' : State} (h : NExt σ σ') (x : List Char) : ∀ (sc : List Addr),
    nearest σ' sc x = nearest σ sc x
  | [] => rfl
  | a :: r => by
    simp only [Seed.C13N.nearest, h.2 a, NExt.nearest h x r]

/-! ### every piece of `proj` relates its two states by any relation closed under pushing list / object cells -/

structure StRel (R : State → State → Prop) : Prop where
  refl : ∀ σ, R σ σ
  trans : ∀ {a b c}, R a b → R b c → R a c
  allocList : ∀ σ xs, R σ (σ.alloc (.list xs)).2
  allocObj : ∀ σ o, R σ (σ.alloc (.obj o)).2

theorem seqP_rel {R : State → State → Prop} (hR : StRel R) {σ : State} {q : Option (List Bnd × State)}
    {g : State → Option (List Bnd × State)} {bs : List Bnd}
    {σ' : State} (h : seqP q g = some (bs, σ')) (hq : ∀ bs1 σ1, q = some (bs1, σ1) → R σ σ1)
    (hg : ∀ σ1 bs2 σ2, g σ1 = some (bs2, σ2) → R σ1 σ2) : R σ σ' := by
  obtain ⟨bs1, σ1, bs2, e1, e2, _⟩ := seqP_some.mp h
  exact hR.trans (hq _ _ e1) (hg _ _ _ e2)

theorem projName_state {σ : State} {x : List Char} {l : Loc} {v : SVal} {bs : List Bnd} {σ' : State}
    (h : projName σ x l v = some (bs, σ')) : σ' = σ := by
  unfold projName at h
  split at h <;> (cases h; rfl)

mutual
theorem proj_rel {R : State → State → Prop} (hR : StRel R) : (p : Pat) → ∀ (σ : State) (v : SVal) (bs : List Bnd)
    (σ' : State), proj p σ v = some (bs, σ') → R σ σ'
  | .var x l, σ, v, bs, σ', h => by
    rw [proj] at h; rw [projName_state h]; exact hR.refl _
  | .list ps c l, σ, v, bs, σ', h => by
    rw [proj] at h
    split at h
    · split at h
      · cases h
      · split at h
        · cases h
        · split at h
          · cases h
          · exact projList_rel hR ps _ _ _ _ _ _ _ h
    · cases h
  | .obj pr l, σ, v, bs, σ', h => by
    rw [proj] at h
    split at h
    · split at h
      · cases h
      · exact projProps_rel hR pr _ _ _ _ _ _ _ h
    · cases h
theorem projList_rel {R : State → State → Prop} (hR : StRel R) : (ps : PatList) → ∀ (c : Bool) (xs : List SVal)
    (i len : Nat) (σ : State) (bs : List Bnd) (σ' : State), projList ps c xs i len σ = some (bs, σ') → R σ σ'
  | .nil, c, xs, i, len, σ, bs, σ', h => by
    rw [projList] at h; cases h; exact hR.refl _
  | .cons p r, c, xs, i, len, σ, bs, σ', h => by
    rw [projList] at h
    split at h
    · exact hR.trans (hR.allocList σ _)
        (seqP_rel hR h (fun _ _ e => proj_rel hR p _ _ _ _ e) (fun _ _ _ e => projList_rel hR r _ _ _ _ _ _ _ e))
    · split at h
      · cases h
      · exact seqP_rel hR h (fun _ _ e => proj_rel hR p _ _ _ _ e) (fun _ _ _ e => projList_rel hR r _ _ _ _ _ _ _ e)
theorem projProps_rel {R : State → State → Prop} (hR : StRel R) : (pr : PatProps) → ∀ (o : ObjMap) (i total : Nat)
    (rem : List (List Char)) (σ : State) (bs : List Bnd) (σ' : State),
    projProps pr o i total rem σ = some (bs, σ') → R σ σ'
  | .nil, o, i, total, rem, σ, bs, σ', h => by
    rw [projProps] at h; cases h; exact hR.refl _
  | .short x l r, o, i, total, rem, σ, bs, σ', h => by
    rw [projProps] at h
    refine seqP_rel hR h (fun bs1 σ1 e => ?_) (fun _ _ _ e => projProps_rel hR r _ _ _ _ _ _ _ e)
    split at e
    · cases e; exact hR.refl _
    · split at e
      · cases e
      · rw [projName_state e]; exact hR.refl _
  | .pair k lk p r, o, i, total, rem, σ, bs, σ', h => by
    rw [projProps] at h
    refine seqP_rel hR h (fun bs1 σ1 e => ?_) (fun _ _ _ e => projProps_rel hR r _ _ _ _ _ _ _ e)
    split at e
    · cases e
    · exact proj_rel hR p _ _ _ _ e
  | .rest x l r, o, i, total, rem, σ, bs, σ', h => by
    rw [projProps] at h
    split at h
    · cases h
    · exact hR.trans (hR.allocObj σ _)
        (seqP_rel hR h (fun _ _ e => by rw [projName_state e]; exact hR.refl _)
          (fun _ _ _ e => projProps_rel hR r _ _ _ _ _ _ _ e))
end

theorem nextRel : StRel NExt := ⟨NExt.refl, NExt.trans, NExt.allocList, NExt.allocObj⟩

/-- `proj` only pushes list and object cells -/
theorem proj_next {p : Pat} {σ : State} {v : SVal} {bs : List Bnd} {σ' : State} (h : proj p σ v = some (bs, σ')) :
    NExt σ σ' := proj_rel nextRel p σ v bs σ' h

/-! ### `proj` is blind to scope cells: rewriting one commutes with it -/

/-- the result with scope cell `a` rewritten -/
def smap (a : Addr) (m1 : ScopeMap) (q : Option (List Bnd × State)) : Option (List Bnd × State) :=
  q.map fun r => (r.1, r.2.set a (.scope m1))

theorem seqP_set {a : Addr} {m1 : ScopeMap} {q q' : Option (List Bnd × State)} {g : State → Option (List Bnd × State)}
    (hq : q' = smap a m1 q)
    (hg : ∀ bs1 σ1, q = some (bs1, σ1) → g (σ1.set a (.scope m1)) = smap a m1 (g σ1)) :
    seqP q' g = smap a m1 (seqP q g) := by
  subst hq
  cases q with
  | none => rfl
  | some r =>
    obtain ⟨bs1, σ1⟩ := r
    have h := hg bs1 σ1 rfl
    simp only [seqP, smap, Option.map_some] at h ⊢
    rw [h]
    cases g σ1 with
    | none => rfl
    | some r2 => rfl

theorem projName_set (a : Addr) (m1 : ScopeMap) (σ : State) (x : List Char) (l : Loc) (v : SVal) :
    projName (σ.set a (.scope m1)) x l v = smap a m1 (projName σ x l v) := by
  unfold projName
  split <;> rfl

mutual
theorem proj_set (a : Addr) (m1 : ScopeMap) : (p : Pat) → ∀ (σ : State) (v : SVal), IsScope σ a →
    proj p (σ.set a (.scope m1)) v = smap a m1 (proj p σ v)
  | .var x l, σ, v, hs => by
    rw [proj, proj]; exact projName_set a m1 σ x l v
  | .list ps c l, σ, v, hs => by
    rw [proj, proj]
    cases v.v <;> try rfl
    rename_i b
    dsimp only
    rw [getList_setScope hs]
    cases σ.getList b with
    | none => rfl
    | some xs =>
      dsimp only
      by_cases h1 : (c && decide (ps.length - 1 > xs.length)) = true
      · rw [if_pos h1, if_pos h1]; rfl
      · rw [if_neg h1, if_neg h1]
        by_cases h2 : (!c && decide (ps.length ≠ xs.length)) = true
        · rw [if_pos h2, if_pos h2]; rfl
        · rw [if_neg h2, if_neg h2]
          exact projList_set a m1 ps c xs 0 ps.length σ hs
  | .obj pr l, σ, v, hs => by
    rw [proj, proj]
    cases v.v <;> try rfl
    rename_i b
    dsimp only
    rw [getObj_setScope hs]
    cases σ.getObj b with
    | none => rfl
    | some o => exact projProps_set a m1 pr o 0 pr.length (o.map Prod.fst) σ hs
theorem projList_set (a : Addr) (m1 : ScopeMap) : (ps : PatList) → ∀ (c : Bool) (xs : List SVal) (i len : Nat)
    (σ : State), IsScope σ a →
    projList ps c xs i len (σ.set a (.scope m1)) = smap a m1 (projList ps c xs i len σ)
  | .nil, c, xs, i, len, σ, hs => by
    rw [projList, projList]; rfl
  | .cons p r, c, xs, i, len, σ, hs => by
    rw [projList, projList]
    by_cases h1 : (c && decide (i = len - 1)) = true
    · rw [if_pos h1, if_pos h1, alloc_set σ _ _ hs.lt, State.size_set]
      dsimp only
      exact seqP_set (proj_set a m1 p _ _ (hs.alloc _))
        (fun bs1 σ1 e => projList_set a m1 r c xs (i + 1) len σ1 ((hs.alloc _).ext (proj_ext p _ _ _ _ e)))
    · rw [if_neg h1, if_neg h1]
      cases xs[i]? with
      | none => rfl
      | some v =>
        dsimp only
        exact seqP_set (proj_set a m1 p σ v hs)
          (fun bs1 σ1 e => projList_set a m1 r c xs (i + 1) len σ1 (hs.ext (proj_ext p _ _ _ _ e)))
theorem projProps_set (a : Addr) (m1 : ScopeMap) : (pr : PatProps) → ∀ (o : ObjMap) (i total : Nat)
    (rem : List (List Char)) (σ : State), IsScope σ a →
    projProps pr o i total rem (σ.set a (.scope m1)) = smap a m1 (projProps pr o i total rem σ)
  | .nil, o, i, total, rem, σ, hs => by
    rw [projProps, projProps]; rfl
  | .short x l r, o, i, total, rem, σ, hs => by
    rw [projProps, projProps]
    refine seqP_set ?_ (fun bs1 σ1 e => projProps_set a m1 r o (i + 1) total _ σ1 ?_)
    · by_cases hx : x = c!"_"
      · rw [if_pos hx, if_pos hx]; rfl
      · rw [if_neg hx, if_neg hx]
        cases objGet x o with
        | none => rfl
        | some v => exact projName_set a m1 σ x l v
    · by_cases hx : x = c!"_"
      · rw [if_pos hx] at e; cases e; exact hs
      · rw [if_neg hx] at e
        cases ho : objGet x o with
        | none => rw [ho] at e; cases e
        | some v => rw [ho] at e; rw [projName_state e]; exact hs
  | .pair k lk p r, o, i, total, rem, σ, hs => by
    rw [projProps, projProps]
    refine seqP_set ?_ (fun bs1 σ1 e => projProps_set a m1 r o (i + 1) total _ σ1 ?_)
    · cases objGet k o with
      | none => rfl
      | some v => exact proj_set a m1 p σ v hs
    · cases ho : objGet k o with
      | none => rw [ho] at e; cases e
      | some v => rw [ho] at e; exact hs.ext (proj_ext p _ _ _ _ e)
  | .rest x l r, o, i, total, rem, σ, hs => by
    rw [projProps, projProps]
    by_cases h1 : i ≠ total - 1
    · rw [if_pos h1, if_pos h1]; rfl
    · rw [if_neg h1, if_neg h1, alloc_set σ _ _ hs.lt, State.size_set]
      dsimp only
      exact seqP_set (projName_set a m1 _ x l _)
        (fun bs1 σ1 e => projProps_set a m1 r o i total rem σ1 (by rw [projName_state e]; exact hs.alloc _))
end

/-- a piece of `proj`: pushes list / object cells only and does not look at scope cells -/
structure Blind (g : State → Option (List Bnd × State)) : Prop where
  next : ∀ σ bs σ', g σ = some (bs, σ') → NExt σ σ'
  set : ∀ σ a m1, IsScope σ a → g (σ.set a (.scope m1)) = smap a m1 (g σ)

theorem blind_proj (p : Pat) (v : SVal) : Blind (fun σ => proj p σ v) :=
  ⟨fun σ bs σ' h => proj_rel nextRel p σ v bs σ' h, fun σ a m1 hs => proj_set a m1 p σ v hs⟩

theorem blind_projList (ps : PatList) (c : Bool) (xs : List SVal) (i len : Nat) :
    Blind (fun σ => projList ps c xs i len σ) :=
  ⟨fun σ bs σ' h => projList_rel nextRel ps c xs i len σ bs σ' h, fun σ a m1 hs => projList_set a m1 ps c xs i len σ hs⟩

theorem blind_projProps (pr : PatProps) (o : ObjMap) (i total : Nat) (rem : List (List Char)) :
    Blind (fun σ => projProps pr o i total rem σ) :=
  ⟨fun σ bs σ' h => projProps_rel nextRel pr o i total rem σ bs σ' h,
   fun σ a m1 hs => projProps_set a m1 pr o i total rem σ hs⟩

/-- an assignment made before a piece of `proj` can be made after it instead -/
theorem Blind.scopeAssign {g : State → Option (List Bnd × State)} (hb : Blind g) {σ1 S1 : State} {sc : List Addr}
    {x : List Char} {w : SVal} (h : scopeAssign σ1 sc x w = some S1) (bs2 : List Bnd) (S2 : State) :
    g S1 = some (bs2, S2) ↔ ∃ σ2, g σ1 = some (bs2, σ2) ∧ scopeAssign σ2 sc x w = some S2 := by
  rw [scopeAssign_eq] at h
  cases hn : nearest σ1 sc x with
  | none => rw [hn] at h; cases h
  | some am =>
    obtain ⟨a, m⟩ := am
    rw [hn] at h
    cases h
    obtain ⟨_, hs, _⟩ := nearest_some hn
    dsimp only
    rw [hb.set σ1 a _ ⟨m, hs⟩]
    constructor
    · intro h
      cases hg : g σ1 with
      | none => rw [hg] at h; cases h
      | some r =>
        obtain ⟨bs', σ2⟩ := r
        rw [hg] at h
        cases h
        refine ⟨σ2, rfl, ?_⟩
        rw [scopeAssign_eq, (hb.next _ _ _ hg).nearest, hn]
        rfl
    · rintro ⟨σ2, hg, ha⟩
      rw [scopeAssign_eq, (hb.next _ _ _ hg).nearest, hn] at ha
      cases ha
      rw [hg]
      rfl

theorem Blind.assignAll {g : State → Option (List Bnd × State)} (hb : Blind g) (sc : List Addr) :
    ∀ (bs1 : List Bnd) {σ1 S1 : State}, assignAll σ1 sc bs1 = some S1 → ∀ (bs2 : List Bnd) (S2 : State),
    (g S1 = some (bs2, S2) ↔ ∃ σ2, g σ1 = some (bs2, σ2) ∧ assignAll σ2 sc bs1 = some S2)
  | [], σ1, S1, h, bs2, S2 => by
    cases h
    constructor
    · intro h; exact ⟨S2, h, rfl⟩
    · rintro ⟨σ2, h, e⟩; cases e; exact h
  | (x, w, l) :: r, σ1, S1, h, bs2, S2 => by
    simp only [Seed.C13N.assignAll] at h
    cases ha : Seed.scopeAssign σ1 sc x w with
    | none => rw [ha] at h; cases h
    | some T1 =>
      rw [ha] at h
      rw [Blind.assignAll hb sc r h bs2 S2]
      constructor
      · rintro ⟨T2, hg, hr⟩
        obtain ⟨σ2, hg', ha'⟩ := (hb.scopeAssign ha bs2 T2).mp hg
        exact ⟨σ2, hg', by simp only [Seed.C13N.assignAll, ha']; exact hr⟩
      · rintro ⟨σ2, hg, hr⟩
        simp only [Seed.C13N.assignAll] at hr
        cases ha' : Seed.scopeAssign σ2 sc x w with
        | none => rw [ha'] at hr; cases hr
        | some T2 =>
          rw [ha'] at hr
          exact ⟨T2, (hb.scopeAssign ha bs2 T2).mpr ⟨σ2, hg, ha'⟩, hr⟩

/-! ### the condition on the leaf names -/

/-- the leaf names are pairwise different, none was bound before in this pattern, each satisfies `D`
    (= is declared in the scope chain) -/
def AGood (D : List Char → Prop) (names : List (List Char)) (bs : List Bnd) : Prop :=
  (bs.map Prod.fst).Nodup ∧ ∀ x ∈ bs.map Prod.fst, x ∉ names ∧ D x

theorem AGood_append (D : List Char → Prop) (names : List (List Char)) (bs1 bs2 : List Bnd) :
    AGood D names (bs1 ++ bs2) ↔ AGood D names bs1 ∧ AGood D (bndNames bs1 ++ names) bs2 := by
  unfold AGood bndNames
  simp only [List.map_append, List.nodup_append, List.mem_append, List.mem_reverse]
  constructor
  · rintro ⟨⟨n1, n2, dj⟩, h⟩
    exact ⟨⟨n1, fun x hx => h x (Or.inl hx)⟩, n2, fun x hx =>
      ⟨fun hm => hm.elim (fun h1 => dj x h1 x hx rfl) (h x (Or.inr hx)).1, (h x (Or.inr hx)).2⟩⟩
  · rintro ⟨⟨n1, h1⟩, n2, h2⟩
    exact ⟨⟨n1, n2, fun a ha b hb e => (h2 b hb).1 (Or.inl (e ▸ ha))⟩, fun x hx =>
      hx.elim (h1 x) (fun hb => ⟨fun hn => (h2 x hb).1 (Or.inr hn), (h2 x hb).2⟩)⟩

theorem AGood.congr {D D' : List Char → Prop} (h : ∀ x, D x ↔ D' x) {names : List (List Char)} {bs : List Bnd}
    (hg : AGood D names bs) : AGood D' names bs :=
  ⟨hg.1, fun x hx => ⟨(hg.2 x hx).1, (h x).mp (hg.2 x hx).2⟩⟩

/-- all names declared: the assignments go through -/
theorem assignAll_of_declared (sc : List Addr) : ∀ (bs : List Bnd) (σ : State),
    (∀ x ∈ bs.map Prod.fst, Declared σ sc x) → ∃ S, assignAll σ sc bs = some S
  | [], σ, _ => ⟨σ, rfl⟩
  | (x, v, l) :: r, σ, h => by
    obtain ⟨σ1, h1⟩ := (scopeAssign_isSome_iff v).mpr (h x (by simp))
    have hk := (scopeAssign_keeps h1).1
    obtain ⟨S, hS⟩ := assignAll_of_declared sc r σ1
      (fun y hy => (hk.declared sc y).mp (h y (by simp only [List.map_cons, List.mem_cons]; exact Or.inr hy)))
    exact ⟨S, by simp only [assignAll, h1]; exact hS⟩

/-- … and conversely -/
theorem declared_of_assignAll (sc : List Addr) : ∀ (bs : List Bnd) (σ : State) {S : State},
    assignAll σ sc bs = some S → ∀ x ∈ bs.map Prod.fst, Declared σ sc x
  | [], σ, S, _, x, hx => by cases hx
  | (y, v, l) :: r, σ, S, h, x, hx => by
    simp only [assignAll] at h
    cases h1 : scopeAssign σ sc y v with
    | none => rw [h1] at h; cases h
    | some σ1 =>
      rw [h1] at h
      simp only [List.map_cons, List.mem_cons] at hx
      rcases hx with e | e
      · subst e; exact (scopeAssign_isSome_iff v).mp ⟨σ1, h1⟩
      · exact ((scopeAssign_keeps h1).1.declared sc x).mpr (declared_of_assignAll sc r σ1 h x e)

/-! ### `amatch` succeeds iff `proj` is defined, the names are good, and then it has assigned the leaves -/

/-- `r` is ok exactly when `q` is defined with good leaves; `r`'s state is then `q`'s with the leaves assigned -/
def AAgree (sc : List Addr) (r : Res (List (List Char))) (names : List (List Char)) (σ : State)
    (q : Option (List Bnd × State)) : Prop :=
  ∀ N S, r = .ok N S ↔
    ∃ bs σp, q = some (bs, σp) ∧ AGood (Declared σ sc) names bs ∧ N = bndNames bs ++ names ∧ assignAll σp sc bs = some S

theorem AAgree.err (sc : List Addr) (loc : Loc) (leaf : Leaf) (σ' : State) (names : List (List Char)) (σ : State) :
    AAgree sc (errAt loc leaf σ') names σ none := by
  intro N S
  constructor
  · intro h; cases h
  · rintro ⟨_, _, h, _⟩; cases h

theorem AAgree.crash (sc : List Addr) (w : List Char) (σ' : State) (names : List (List Char)) (σ : State) :
    AAgree sc (.crash w σ') names σ none := by
  intro N S
  constructor
  · intro h; cases h
  · rintro ⟨_, _, h, _⟩; cases h

theorem AAgree.ok_nil (sc : List Addr) (names : List (List Char)) (σ : State) :
    AAgree sc (.ok names σ) names σ (some ([], σ)) := by
  intro N S
  constructor
  · intro h; cases h
    exact ⟨[], σ, rfl, ⟨List.nodup_nil, fun x hx => by cases hx⟩, by simp [bndNames], rfl⟩
  · rintro ⟨bs, σp, h, _, hN, hS⟩
    cases h
    simp only [bndNames, List.map_nil, List.reverse_nil, List.nil_append] at hN
    cases hS
    rw [hN]

/-- the names may be looked up in any state with the same names in its scope cells -/
theorem AAgree.of_sameKeys {sc : List Addr} {r : Res (List (List Char))} {names : List (List Char)} {σ τ : State}
    {q : Option (List Bnd × State)} (hk : SameKeys σ τ) (h : AAgree sc r names τ q) : AAgree sc r names σ q := by
  intro N S
  rw [h N S]
  constructor
  · rintro ⟨bs, σp, e, g, hN, hS⟩
    exact ⟨bs, σp, e, g.congr (fun x => (hk.declared sc x).symm), hN, hS⟩
  · rintro ⟨bs, σp, e, g, hN, hS⟩
    exact ⟨bs, σp, e, g.congr (fun x => hk.declared sc x), hN, hS⟩

theorem agree_aName (sc : List Addr) (names : List (List Char)) (σ : State) (x : List Char) (l : Loc) (v : SVal) :
    AAgree sc (aName sc names σ x l v) names σ (projName σ x l v) := by
  unfold aName projName
  by_cases hx : x = c!"_"
  · rw [if_pos hx, if_pos hx]; exact AAgree.ok_nil sc names σ
  · rw [if_neg hx, if_neg hx]
    intro N S
    by_cases hc : names.contains x = true
    · rw [if_pos hc]
      constructor
      · intro h; cases h
      · rintro ⟨bs, σp, h, hg, _⟩
        cases h
        exact absurd (List.contains_iff_mem.mp hc) (hg.2 x (by simp)).1
    · rw [if_neg hc]
      have hnm : x ∉ names := fun h => hc (List.contains_iff_mem.mpr h)
      cases ha : scopeAssign σ sc x v with
      | none =>
        dsimp only
        constructor
        · intro h; cases h
        · rintro ⟨bs, σp, h, hg, _⟩
          cases h
          obtain ⟨σ', h'⟩ := (scopeAssign_isSome_iff v).mpr (hg.2 x (by simp)).2
          rw [ha] at h'; cases h'
      | some σ2 =>
        dsimp only
        constructor
        · intro h; cases h
          refine ⟨[(x, v, l)], σ, rfl, ⟨by simp, fun y hy => ?_⟩, by simp [bndNames], by simp [assignAll, ha]⟩
          simp only [List.map_cons, List.map_nil, List.mem_singleton] at hy
          subst hy
          exact ⟨hnm, (scopeAssign_isSome_iff v).mp ⟨_, ha⟩⟩
        · rintro ⟨bs, σp, h, _, hN, hS⟩
          cases h
          simp only [assignAll, ha, Option.some.injEq] at hS
          simp only [bndNames, List.map_cons, List.map_nil, List.reverse_cons, List.reverse_nil, List.nil_append,
            List.cons_append] at hN
          rw [hN, hS]

/-- sequencing: the second piece runs on the state the first left, assignments included, on the engine's side and on
    `proj`'s state on the declarative side -/
theorem AAgree.seq {sc : List Addr} {r : Res (List (List Char))} {names : List (List Char)} {σ : State}
    {q : Option (List Bnd × State)} {f : List (List Char) → State → Res (List (List Char))}
    {g : State → Option (List Bnd × State)} (hb : Blind g) (hq : ∀ bs1 σ1, q = some (bs1, σ1) → NExt σ σ1)
    (h1 : AAgree sc r names σ q)
    (h2 : ∀ n1 S1 bs1 σ1, q = some (bs1, σ1) → assignAll σ1 sc bs1 = some S1 → AAgree sc (f n1 S1) n1 S1 (g S1)) :
    AAgree sc (r.bind f) names σ (seqP q g) := by
  intro N S
  constructor
  · intro h
    cases r with
    | ok n1 S1 =>
      simp only [Res.bind] at h
      obtain ⟨bs1, σ1, e1, g1, rfl, a1⟩ := (h1 n1 S1).mp rfl
      obtain ⟨bs2, S2, e2, g2, rfl, a2⟩ := (h2 _ S1 bs1 σ1 e1 a1 N S).mp h
      obtain ⟨σ2, e2', a1'⟩ := (hb.assignAll sc bs1 a1 bs2 S2).mp e2
      have hk : SameKeys σ S1 := (hq _ _ e1).sameKeys.trans (assignAll_keeps sc bs1 a1).1
      refine ⟨bs1 ++ bs2, σ2, seqP_some.mpr ⟨bs1, σ1, bs2, e1, e2', rfl⟩,
        (AGood_append _ names bs1 bs2).mpr ⟨g1, g2.congr (fun x => (hk.declared sc x).symm)⟩, ?_, ?_⟩
      · rw [bndNames_append, List.append_assoc]
      · rw [assignAll_append, a1']; exact a2
    | err e S1 => simp only [Res.bind] at h; cases h
    | crash w S1 => simp only [Res.bind] at h; cases h
    | timeout => simp only [Res.bind] at h; cases h
  · rintro ⟨bs, σ2, e, gd, rfl, aa⟩
    obtain ⟨bs1, σ1, bs2, e1, e2, rfl⟩ := seqP_some.mp e
    obtain ⟨g1, g2⟩ := (AGood_append _ names bs1 bs2).mp gd
    have hk1 : SameKeys σ σ1 := (hq _ _ e1).sameKeys
    obtain ⟨S1, a1⟩ := assignAll_of_declared sc bs1 σ1 (fun x hx => (hk1.declared sc x).mp (g1.2 x hx).2)
    rw [assignAll_append] at aa
    cases a1' : assignAll σ2 sc bs1 with
    | none => rw [a1'] at aa; cases aa
    | some S2 =>
      rw [a1'] at aa
      dsimp only at aa
      have e2' := (hb.assignAll sc bs1 a1 bs2 S2).mpr ⟨σ2, e2, a1'⟩
      have hr := (h1 (bndNames bs1 ++ names) S1).mpr ⟨bs1, σ1, e1, g1, rfl, a1⟩
      subst hr
      simp only [Res.bind]
      have hk : SameKeys σ S1 := hk1.trans (assignAll_keeps sc bs1 a1).1
      refine (h2 _ S1 bs1 σ1 e1 a1 _ S).mpr ⟨bs2, S2, e2', g2.congr (fun x => hk.declared sc x), ?_, aa⟩
      rw [bndNames_append, List.append_assoc]

/-- the source cells survive what the engine does between two reads -/
theorem keepList {σ σ1 S1 : State} {sc : List Addr} {bs1 : List Bnd} {b : Addr} {xs : List SVal} (hn : NExt σ σ1)
    (ha : assignAll σ1 sc bs1 = some S1) (hb : σ.getList b = some xs) : S1.getList b = some xs := by
  rw [(assignAll_keeps sc bs1 ha).2.1 b]; exact hn.1.getList hb

theorem keepObj {σ σ1 S1 : State} {sc : List Addr} {bs1 : List Bnd} {b : Addr} {o : ObjMap} (hn : NExt σ σ1)
    (ha : assignAll σ1 sc bs1 = some S1) (hb : σ.getObj b = some o) : S1.getObj b = some o := by
  rw [(assignAll_keeps sc bs1 ha).2.2.1 b]; exact hn.1.getObj hb

mutual
theorem amatch_agree (sc : List Addr) : (p : Pat) → ∀ (names : List (List Char)) (σ : State) (v : SVal),
    AAgree sc (amatch sc p names σ v) names σ (proj p σ v)
  | .var x l, names, σ, v => by
    rw [amatch, proj]; exact agree_aName sc names σ x l v
  | .list ps c l, names, σ, v => by
    rw [amatch, proj]
    cases v.v <;> try exact AAgree.err _ _ _ _ _ _
    rename_i b
    dsimp only
    cases hb : σ.getList b with
    | none => exact AAgree.crash _ _ _ _ _
    | some xs =>
      dsimp only
      by_cases h1 : (c && decide (ps.length - 1 > xs.length)) = true
      · rw [if_pos h1, if_pos h1]; exact AAgree.err _ _ _ _ _ _
      · rw [if_neg h1, if_neg h1]
        by_cases h2 : (!c && decide (ps.length ≠ xs.length)) = true
        · rw [if_pos h2, if_pos h2]; exact AAgree.err _ _ _ _ _ _
        · rw [if_neg h2, if_neg h2]; exact amatchList_agree sc ps c l b xs 0 ps.length names σ hb
  | .obj pr l, names, σ, v => by
    rw [amatch, proj]
    cases v.v <;> try exact AAgree.err _ _ _ _ _ _
    rename_i b
    dsimp only
    cases hb : σ.getObj b with
    | none => exact AAgree.crash _ _ _ _ _
    | some o => exact amatchProps_agree sc pr b o 0 pr.length (o.map Prod.fst) names σ hb
theorem amatchList_agree (sc : List Addr) : (ps : PatList) → ∀ (c : Bool) (l : Loc) (b : Addr) (xs : List SVal)
    (i len : Nat) (names : List (List Char)) (σ : State), σ.getList b = some xs →
    AAgree sc (amatchList sc ps c l b i len names σ) names σ (projList ps c xs i len σ)
  | .nil, c, l, b, xs, i, len, names, σ, hb => by
    rw [amatchList, projList]; exact AAgree.ok_nil sc names σ
  | .cons p r, c, l, b, xs, i, len, names, σ, hb => by
    rw [amatchList, projList, hb]
    dsimp only
    by_cases h1 : (c && decide (i = len - 1)) = true
    · rw [if_pos h1, if_pos h1]
      have hn := NExt.allocList σ (xs.drop (len - 1))
      refine AAgree.of_sameKeys hn.sameKeys
        (AAgree.seq (blind_projList r c xs (i + 1) len) (fun _ _ e => proj_next e) (amatch_agree sc p names _ _) ?_)
      intro n1 S1 bs1 σ1 e a
      exact amatchList_agree sc r c l b xs (i + 1) len n1 S1 (keepList (hn.trans (proj_next e)) a hb)
    · rw [if_neg h1, if_neg h1]
      cases xs[i]? with
      | none => exact AAgree.crash _ _ _ _ _
      | some v =>
        dsimp only
        refine AAgree.seq (blind_projList r c xs (i + 1) len) (fun _ _ e => proj_next e) (amatch_agree sc p names σ v) ?_
        intro n1 S1 bs1 σ1 e a
        exact amatchList_agree sc r c l b xs (i + 1) len n1 S1 (keepList (proj_next e) a hb)
theorem amatchProps_agree (sc : List Addr) : (pr : PatProps) → ∀ (b : Addr) (o : ObjMap) (i total : Nat)
    (rem : List (List Char)) (names : List (List Char)) (σ : State), σ.getObj b = some o →
    AAgree sc (amatchProps sc pr b i total rem names σ) names σ (projProps pr o i total rem σ)
  | .nil, b, o, i, total, rem, names, σ, hb => by
    rw [amatchProps, projProps]; exact AAgree.ok_nil sc names σ
  | .short x l r, b, o, i, total, rem, names, σ, hb => by
    rw [amatchProps, projProps]
    have hq : ∀ bs1 σ1, (if x = c!"_" then some (([] : List Bnd), σ)
        else match objGet x o with
          | none => none
          | some v => projName σ x l v) = some (bs1, σ1) → NExt σ σ1 := by
      intro bs1 σ1 e
      by_cases hx : x = c!"_"
      · rw [if_pos hx] at e; cases e; exact NExt.refl _
      · rw [if_neg hx] at e
        cases ho : objGet x o with
        | none => rw [ho] at e; cases e
        | some v => rw [ho] at e; rw [projName_state e]; exact NExt.refl _
    refine AAgree.seq (blind_projProps r o (i + 1) total _) hq ?_ ?_
    · by_cases hx : x = c!"_"
      · rw [if_pos hx, if_pos hx]; exact AAgree.ok_nil sc names σ
      · rw [if_neg hx, if_neg hx, hb]
        dsimp only
        cases objGet x o with
        | none => exact AAgree.err _ _ _ _ _ _
        | some v => exact agree_aName sc names σ x l v
    · intro n1 S1 bs1 σ1 e a
      exact amatchProps_agree sc r b o (i + 1) total _ n1 S1 (keepObj (hq _ _ e) a hb)
  | .pair k lk p r, b, o, i, total, rem, names, σ, hb => by
    rw [amatchProps, projProps, hb]
    dsimp only
    have hq : ∀ bs1 σ1, (match objGet k o with
          | none => none
          | some v => proj p σ v) = some (bs1, σ1) → NExt σ σ1 := by
      intro bs1 σ1 e
      cases ho : objGet k o with
      | none => rw [ho] at e; cases e
      | some v => rw [ho] at e; exact proj_next e
    refine AAgree.seq (blind_projProps r o (i + 1) total _) hq ?_ ?_
    · cases objGet k o with
      | none => exact AAgree.err _ _ _ _ _ _
      | some v => exact amatch_agree sc p names σ v
    · intro n1 S1 bs1 σ1 e a
      exact amatchProps_agree sc r b o (i + 1) total _ n1 S1 (keepObj (hq _ _ e) a hb)
  | .rest x l r, b, o, i, total, rem, names, σ, hb => by
    rw [amatchProps, projProps]
    by_cases h1 : i ≠ total - 1
    · rw [if_pos h1, if_pos h1]; exact AAgree.err _ _ _ _ _ _
    · rw [if_neg h1, if_neg h1, hb]
      dsimp only
      have hn := NExt.allocObj σ (o.filter fun kv => rem.contains kv.1)
      refine AAgree.of_sameKeys hn.sameKeys
        (AAgree.seq (blind_projProps r o i total rem) (fun _ _ e => by rw [projName_state e]; exact NExt.refl _)
          (agree_aName sc names _ x l _) ?_)
      intro n1 S1 bs1 σ1 e a
      refine amatchProps_agree sc r b o i total rem n1 S1 (keepObj (σ := σ) ?_ a hb)
      rw [projName_state e]; exact hn
end

end Seed.C13N
