/-
  ParseRT2StmtRel.lean — fuel-free view of the statement parser: relations `PStmts`, `PIf`, `PStmtTail`,
  `PExprStmt`, `PRawStmt`, `PBraceStmt` (and `PBlock` of ParseRT2Rel.lean), one constructor lemma per
  production.
-/
import SeedProofs.Lemmas.ParseRT2Rel
set_option linter.unusedSimpArgs false
namespace Seed

def PStmts (closing : Bool) (acc : List Stmt) (ts : List Span) (res : List Stmt) (r : List Span) : Prop :=
  ∃ f, parseStmts f closing acc ts = .ok res r
def PIf (ts : List Span) (res : List Branch × Option (List Stmt)) (r : List Span) : Prop :=
  ∃ f, parseIf f ts = .ok res r
def PStmtTail (lhs : Expr) (ts : List Span) (st : Stmt) (r : List Span) : Prop :=
  ∃ f, parseStmtTail f lhs ts = .ok st r
def PExprStmt (amb : Bool) (loc : Loc) (pre : Option RawExpr) (ts : List Span) (st : Stmt) (r : List Span) : Prop :=
  ∃ f, parseExprStmt f amb loc pre ts = .ok st r
def PRawStmt (amb : Bool) (ts : List Span) (st : Stmt) (r : List Span) : Prop :=
  ∃ f, parseRawStmt f amb ts = .ok st r
def PBraceStmt (amb : Bool) (loc : Loc) (ts : List Span) (st : Stmt) (r : List Span) : Prop :=
  ∃ f, parseBraceStmt f amb loc ts = .ok st r

/-! ### blocks and statement lists -/

theorem PBlock.mk {sp : Span} {r r' : List Span} {stmts : List Stmt} (h : sp.tok = .BraceOpen)
    (h1 : PStmts true [] r stmts r') : PBlock (sp :: r) stmts r' := by
  obtain ⟨f1, hf1⟩ := h1
  refine ⟨f1 + 1, ?_⟩
  unfold parseBlock
  simp only [expectTok, h, if_true, PRes.bind, hf1]

/-- end of input at top level -/
theorem PStmts.eof {acc : List Stmt} : PStmts false acc [] acc.reverse [] := by
  refine ⟨1, ?_⟩
  unfold parseStmts
  simp

/-- the closing brace of a block -/
theorem PStmts.close {acc : List Stmt} {sp : Span} {r : List Span} (h : sp.tok = .BraceClose) :
    PStmts true acc (sp :: r) acc.reverse r := by
  refine ⟨1, ?_⟩
  unfold parseStmts
  simp [h]

/-- `stmt ; …` -/
theorem PStmts.cons {closing : Bool} {acc res : List Stmt} {st : Stmt} {sp sp2 : Span} {r r3 r' : List Span}
    (hc : sp.tok ≠ .BraceClose) (h1 : PRawStmt false (sp :: r) st (sp2 :: r3)) (h2 : sp2.tok = .StmtEnd)
    (h3 : PStmts closing (st :: acc) r3 res r') : PStmts closing acc (sp :: r) res r' := by
  obtain ⟨f1, hf1⟩ := h1
  obtain ⟨f3, hf3⟩ := h3
  refine ⟨f1 + f3 + 1, ?_⟩
  unfold parseStmts
  simp [hc, parseRawStmt_ok_mono (Nat.le_add_right f1 f3) hf1, PRes.bind, expectTok, h2,
    parseStmts_ok_mono (Nat.le_add_left f3 f1) hf3]

/-! ### `if` -/

/-- `cond { … }` not followed by `else` -/
theorem PIf.last {ts r : List Span} {cond : Expr} {stmts : List Stmt} {sp : Span} {r3 : List Span}
    (h1 : PExpr false ts cond r) (h2 : PBlock r stmts (sp :: r3)) (h3 : sp.tok ≠ .Else) :
    PIf ts ([.mk cond stmts], none) (sp :: r3) := by
  obtain ⟨f1, hf1⟩ := h1
  obtain ⟨f2, hf2⟩ := h2
  refine ⟨f1 + f2 + 1, ?_⟩
  unfold parseIf
  simp [parseExpr_ok_mono (Nat.le_add_right f1 f2) hf1, PRes.bind,
    parseBlock_ok_mono (Nat.le_add_left f2 f1) hf2, h3]

/-- `cond { … } else { … }` -/
theorem PIf.elseBlock {ts r : List Span} {cond : Expr} {stmts els : List Stmt} {sp sp2 : Span} {r4 r5 : List Span}
    (h1 : PExpr false ts cond r) (h2 : PBlock r stmts (sp :: sp2 :: r4)) (h3 : sp.tok = .Else)
    (h4 : sp2.tok ≠ .If) (h5 : PBlock (sp2 :: r4) els r5) : PIf ts ([.mk cond stmts], some els) r5 := by
  obtain ⟨f1, hf1⟩ := h1
  obtain ⟨f2, hf2⟩ := h2
  obtain ⟨f5, hf5⟩ := h5
  refine ⟨f1 + f2 + f5 + 1, ?_⟩
  unfold parseIf
  simp [parseExpr_ok_mono (by omega : f1 ≤ f1 + f2 + f5) hf1, PRes.bind,
    parseBlock_ok_mono (by omega : f2 ≤ f1 + f2 + f5) hf2, h3, h4,
    parseBlock_ok_mono (by omega : f5 ≤ f1 + f2 + f5) hf5]

/-- `cond { … } else if …` -/
theorem PIf.elseIf {ts r : List Span} {cond : Expr} {stmts : List Stmt} {bs : List Branch}
    {els : Option (List Stmt)} {sp sp2 : Span} {r4 r5 : List Span}
    (h1 : PExpr false ts cond r) (h2 : PBlock r stmts (sp :: sp2 :: r4)) (h3 : sp.tok = .Else)
    (h4 : sp2.tok = .If) (h5 : PIf r4 (bs, els) r5) : PIf ts (.mk cond stmts :: bs, els) r5 := by
  obtain ⟨f1, hf1⟩ := h1
  obtain ⟨f2, hf2⟩ := h2
  obtain ⟨f5, hf5⟩ := h5
  refine ⟨f1 + f2 + f5 + 1, ?_⟩
  unfold parseIf
  simp [parseExpr_ok_mono (by omega : f1 ≤ f1 + f2 + f5) hf1, PRes.bind,
    parseBlock_ok_mono (by omega : f2 ≤ f1 + f2 + f5) hf2, h3, h4,
    parseIf_ok_mono (by omega : f5 ≤ f1 + f2 + f5) hf5]

/-! ### expression statements, declarations and assignments -/

/-- a plain expression statement: the next token is `;` -/
theorem PStmtTail.none {lhs : Expr} {sp : Span} {r : List Span} (h : sp.tok = .StmtEnd) :
    PStmtTail lhs (sp :: r) (.Expr lhs) (sp :: r) := by
  refine ⟨1, ?_⟩
  unfold parseStmtTail
  simp [h, assignOpOf, lookupAssoc, Gen.assignOps]

theorem PStmtTail.declare {lhs rhs : Expr} {sp : Span} {r r2 : List Span} (h : sp.tok = .ColonEquals)
    (h1 : PExpr false r rhs r2) : PStmtTail lhs (sp :: r) (.Declare lhs rhs) r2 := by
  obtain ⟨f1, hf1⟩ := h1
  refine ⟨f1 + 1, ?_⟩
  unfold parseStmtTail
  simp [h, hf1, PRes.bind]

theorem PStmtTail.assign {lhs rhs : Expr} {sp : Span} {r r2 : List Span} (h : sp.tok = .Equals)
    (h1 : PExpr false r rhs r2) : PStmtTail lhs (sp :: r) (.Assign lhs rhs) r2 := by
  obtain ⟨f1, hf1⟩ := h1
  refine ⟨f1 + 1, ?_⟩
  unfold parseStmtTail
  simp [h, hf1, PRes.bind]

theorem PStmtTail.opAssign {lhs rhs : Expr} {op : BinaryOp} {sp : Span} {r r2 : List Span}
    (h : assignOpOf sp.tok = some op) (hne : sp.tok ≠ .ColonEquals) (hne' : sp.tok ≠ .Equals)
    (h1 : PExpr false r rhs r2) : PStmtTail lhs (sp :: r) (.OpAssign lhs op sp.start rhs) r2 := by
  obtain ⟨f1, hf1⟩ := h1
  refine ⟨f1 + 1, ?_⟩
  unfold parseStmtTail
  simp [h, hne, hne', hf1, PRes.bind]

theorem PExprStmt.mk {amb : Bool} {loc : Loc} {pre : Option RawExpr} {ts r r' : List Span} {e : RawExpr} {st : Stmt}
    (h1 : PExpr1 amb loc pre ts e r) (h2 : PStmtTail (.mk e loc) r st r') : PExprStmt amb loc pre ts st r' := by
  obtain ⟨f1, hf1⟩ := h1
  obtain ⟨f2, hf2⟩ := h2
  refine ⟨f1 + f2 + 1, ?_⟩
  unfold parseExprStmt
  simp only [parseExpr1_ok_mono (Nat.le_add_right f1 f2) hf1, PRes.bind,
    parseStmtTail_ok_mono (Nat.le_add_left f2 f1) hf2]

/-! ### statements -/

/-- tokens that begin an expression statement without further ado -/
def isExprStmtStart : Token → Bool
  | .Null | .True | .False | .Ident _ | .IntLiteral _ | .StrLiteral _ | .InterpStrLiteral _ _
  | .Sub | .ParenOpen | .BracketOpen => true
  | _ => false

theorem PRawStmt.expr {amb : Bool} {sp : Span} {r r' : List Span} {st : Stmt} (h : isExprStmtStart sp.tok = true)
    (h1 : PExprStmt amb sp.start none (sp :: r) st r') : PRawStmt amb (sp :: r) st r' := by
  obtain ⟨f1, hf1⟩ := h1
  refine ⟨f1 + 1, ?_⟩
  unfold parseRawStmt
  cases ht : sp.tok <;> simp [ht, isExprStmtStart] at h <;> simp only [ht, hf1]

/-- an expression statement beginning with a function literal: `fn (` -/
theorem PRawStmt.exprFn {amb : Bool} {sp sp2 : Span} {r r' : List Span} {st : Stmt} (h : sp.tok = .Fn)
    (h2 : sp2.tok = .ParenOpen) (h1 : PExprStmt amb sp.start none (sp :: sp2 :: r) st r') :
    PRawStmt amb (sp :: sp2 :: r) st r' := by
  obtain ⟨f1, hf1⟩ := h1
  refine ⟨f1 + 1, ?_⟩
  unfold parseRawStmt
  simp only [h, h2, hf1]

theorem PRawStmt.brace {amb : Bool} {sp : Span} {r r' : List Span} {st : Stmt} (h : sp.tok = .BraceOpen)
    (h1 : PBraceStmt amb sp.start r st r') : PRawStmt amb (sp :: r) st r' := by
  obtain ⟨f1, hf1⟩ := h1
  refine ⟨f1 + 1, ?_⟩
  unfold parseRawStmt
  simp only [h, hf1]

theorem PRawStmt.if_ {amb : Bool} {sp : Span} {r r' : List Span} {bs : List Branch} {els : Option (List Stmt)}
    (h : sp.tok = .If) (h1 : PIf r (bs, els) r') : PRawStmt amb (sp :: r) (.If bs els) r' := by
  obtain ⟨f1, hf1⟩ := h1
  refine ⟨f1 + 1, ?_⟩
  unfold parseRawStmt
  simp only [h, hf1, PRes.bind]

theorem PRawStmt.while_ {amb : Bool} {sp : Span} {r r2 r' : List Span} {cond : Expr} {stmts : List Stmt}
    (h : sp.tok = .While) (h1 : PExpr false r cond r2) (h2 : PBlock r2 stmts r') :
    PRawStmt amb (sp :: r) (.While cond stmts) r' := by
  obtain ⟨f1, hf1⟩ := h1
  obtain ⟨f2, hf2⟩ := h2
  refine ⟨f1 + f2 + 1, ?_⟩
  unfold parseRawStmt
  simp only [h, parseExpr_ok_mono (Nat.le_add_right f1 f2) hf1, PRes.bind,
    parseBlock_ok_mono (Nat.le_add_left f2 f1) hf2]

theorem PRawStmt.for_ {amb : Bool} {sp sp2 : Span} {r r3 r4 r' : List Span} {lhs iter : Expr} {stmts : List Stmt}
    (h : sp.tok = .For) (h1 : PExpr false r lhs (sp2 :: r3)) (h2 : sp2.tok = .In) (h3 : PExpr false r3 iter r4)
    (h4 : PBlock r4 stmts r') : PRawStmt amb (sp :: r) (.For lhs iter stmts) r' := by
  obtain ⟨f1, hf1⟩ := h1
  obtain ⟨f3, hf3⟩ := h3
  obtain ⟨f4, hf4⟩ := h4
  refine ⟨f1 + f3 + f4 + 1, ?_⟩
  unfold parseRawStmt
  simp [h, parseExpr_ok_mono (by omega : f1 ≤ f1 + f3 + f4) hf1, PRes.bind, expectTok, h2,
    parseExpr_ok_mono (by omega : f3 ≤ f1 + f3 + f4) hf3, parseBlock_ok_mono (by omega : f4 ≤ f1 + f3 + f4) hf4]

theorem PRawStmt.break_ {amb : Bool} {sp : Span} {r : List Span} (h : sp.tok = .Break) :
    PRawStmt amb (sp :: r) (.Break sp.start) r := by
  refine ⟨1, ?_⟩
  unfold parseRawStmt
  simp only [h]

theorem PRawStmt.continue_ {amb : Bool} {sp : Span} {r : List Span} (h : sp.tok = .Continue) :
    PRawStmt amb (sp :: r) (.Continue sp.start) r := by
  refine ⟨1, ?_⟩
  unfold parseRawStmt
  simp only [h]

theorem PRawStmt.return_ {amb : Bool} {sp : Span} {r r' : List Span} {e : Expr} (h : sp.tok = .Return)
    (h1 : PExpr false r e r') : PRawStmt amb (sp :: r) (.Return sp.start e) r' := by
  obtain ⟨f1, hf1⟩ := h1
  refine ⟨f1 + 1, ?_⟩
  unfold parseRawStmt
  simp only [h, hf1, PRes.bind]

/-- `fn name ( params ) { … }` -/
theorem PRawStmt.func {amb : Bool} {sp sp2 sp3 : Span} {r r4 r' : List Span} {name : List Char} {args : List Expr}
    {c : Bool} {stmts : List Stmt} (h : sp.tok = .Fn) (h2 : sp2.tok = .Ident name) (h3 : sp3.tok = .ParenOpen)
    (h4 : PParams [] r (args, c) r4) (h5 : PBlock r4 stmts r') :
    PRawStmt amb (sp :: sp2 :: sp3 :: r) (.Func name sp2.start args c stmts) r' := by
  obtain ⟨f4, hf4⟩ := h4
  obtain ⟨f5, hf5⟩ := h5
  refine ⟨f4 + f5 + 1, ?_⟩
  unfold parseRawStmt
  simp [h, h2, expectTok, h3, PRes.bind, parseParams_ok_mono (Nat.le_add_right f4 f5) hf4,
    parseBlock_ok_mono (Nat.le_add_left f5 f4) hf5]

/-- `{ stmt ; … }` in statement position is a block: the first statement is followed by `;` -/
theorem PBraceStmt.block {amb : Bool} {loc : Loc} {sp sp2 : Span} {r r3 r' : List Span} {st : Stmt}
    {stmts : List Stmt} (hc : sp.tok ≠ .BraceClose) (hd : sp.tok ≠ .DotDot)
    (h1 : PRawStmt true (sp :: r) st (sp2 :: r3)) (h2 : sp2.tok = .StmtEnd) (h3 : PStmts true [st] r3 stmts r') :
    PBraceStmt amb loc (sp :: r) (.Block stmts) r' := by
  obtain ⟨f1, hf1⟩ := h1
  obtain ⟨f3, hf3⟩ := h3
  refine ⟨f1 + f3 + 1, ?_⟩
  unfold parseBraceStmt
  cases st <;>
    simp [hc, hd, parseRawStmt_ok_mono (Nat.le_add_right f1 f3) hf1, PRes.bind, expectTok, h2,
      parseStmts_ok_mono (Nat.le_add_left f3 f1) hf3]

theorem PStmts.at_fuel {c : Bool} {acc res : List Stmt} {ts r : List Span} (h : PStmts c acc ts res r) (fuel : Nat)
    (hf : 10 * ts.length + 10 ≤ fuel) : parseStmts fuel c acc ts = .ok res r :=
  PRes.at_fuel_of_step (g := fun n => parseStmts n c acc ts) (fun n => (pmonoAll n).parseStmts c acc ts) h fuel
    ((ptotAll fuel).parseStmts c acc ts hf)

end Seed
