/-
  C08NecessaryCost.lean — counting opening parentheses.

  `pw t` is 1 for the token `(` and 0 for every other token; `wt` / `ws` sum it over a token list / a list of
  spans.  This file computes the number of `(` in what the whole-grammar printer `prR / prE / prStmt / prStmts`
  (Lemmas/ParseRT2Defs.lean) emits, constructor by constructor (`cR_…`, `cStmt_…`), and the three facts about
  the level argument of the printer that the parser proof (C08NecessaryInv.lean) needs:

    cR_mono     k ≤ j → cR k r ≤ cR j r          a tighter slot never needs fewer parentheses
    cR_le_one   cR k r ≤ 1 + cR 1 r              a slot costs at most the one pair around the sub-expression
    cR_high     5 ≤ k → cR k r = cR 5 r          nothing is tighter than the postfix level
-/
import SeedProofs.Lemmas.ParseRT2Image
namespace Seed.C08N
open Seed

/-! ### the weight -/

/-- 1 for an opening parenthesis, 0 for every other token -/
def pw : Token → Nat
  | .ParenOpen => 1
  | _ => 0

/-- number of `(` in a token list -/
def wt : List Token → Nat
  | [] => 0
  | t :: ts => pw t + wt ts

/-- number of `(` in a list of positioned tokens -/
def ws : List Span → Nat
  | [] => 0
  | sp :: ts => pw sp.tok + ws ts

theorem pw_ParenOpen : pw .ParenOpen = 1 := rfl

theorem wt_nil : wt [] = 0 := rfl
theorem wt_cons (t : Token) (ts : List Token) : wt (t :: ts) = pw t + wt ts := rfl
theorem ws_nil : ws [] = 0 := rfl
theorem ws_cons (sp : Span) (ts : List Span) : ws (sp :: ts) = pw sp.tok + ws ts := rfl

theorem wt_append (a b : List Token) : wt (a ++ b) = wt a + wt b := by
  induction a with
  | nil => simp only [List.nil_append, wt, Nat.zero_add]
  | cons t a ih => simp only [List.cons_append, wt, ih, Nat.add_assoc]

theorem ws_append (a b : List Span) : ws (a ++ b) = ws a + ws b := by
  induction a with
  | nil => simp only [List.nil_append, ws, Nat.zero_add]
  | cons t a ih => simp only [List.cons_append, ws, ih, Nat.add_assoc]

theorem ws_map_tok (ts : List Span) : wt (ts.map Span.tok) = ws ts := by
  induction ts with
  | nil => rfl
  | cons sp ts ih => simp only [List.map_cons, wt, ws, ih]

theorem wt_paren (b : Bool) (ts : List Token) : wt (paren b ts) = (if b then 1 else 0) + wt ts := by
  cases b <;> simp [paren, wt, wt_append, pw]

/-- sum of `f` over a list (own definition: reversal and append lemmas below) -/
def sumW {α} (f : α → Nat) : List α → Nat
  | [] => 0
  | a :: l => f a + sumW f l

theorem sumW_nil {α} (f : α → Nat) : sumW f [] = 0 := rfl
theorem sumW_cons {α} (f : α → Nat) (a : α) (l : List α) : sumW f (a :: l) = f a + sumW f l := rfl

theorem sumW_append {α} (f : α → Nat) (a b : List α) : sumW f (a ++ b) = sumW f a + sumW f b := by
  induction a with
  | nil => simp only [List.nil_append, sumW, Nat.zero_add]
  | cons t a ih => simp only [List.cons_append, sumW, ih, Nat.add_assoc]

theorem sumW_reverse {α} (f : α → Nat) (l : List α) : sumW f l.reverse = sumW f l := by
  induction l with
  | nil => rfl
  | cons a l ih => simp only [List.reverse_cons, sumW_append, sumW, ih]; omega

theorem sumW_map {α β} (f : β → Nat) (g : α → β) (l : List α) : sumW f (l.map g) = sumW (fun a => f (g a)) l := by
  induction l with
  | nil => rfl
  | cons a l ih => simp only [List.map_cons, sumW, ih]

/-! ### separators, `if` chains -/

theorem wt_sepBody (close : Token) (c : Bool) (L : List (List Token)) :
    wt (sepBody close c L) = pw close + sumW wt L := by
  induction L with
  | nil => simp [sepBody, wt, sumW]
  | cons t rest ih =>
    cases rest with
    | nil => cases c <;> simp [sepBody, wt, wt_append, sumW, pw] <;> omega
    | cons u rest =>
      simp only [sepBody] at ih ⊢
      simp only [wt_append, wt_cons, ih, sumW, pw]
      omega

theorem wt_spreadMark (s : Bool) : wt (spreadMark s) = 0 := by
  cases s <;> rfl

def optW : Option (List Token) → Nat
  | none => 0
  | some e => wt e

theorem wt_ifTail (bs : List (List Token)) (els : Option (List Token)) :
    wt (ifTail bs els) = sumW wt bs + optW els := by
  induction bs with
  | nil => cases els <;> simp [ifTail, wt, sumW, optW, pw]
  | cons b rest ih =>
    cases rest with
    | nil => cases els <;> simp [ifTail, wt, wt_append, sumW, optW, pw]
    | cons b2 rest =>
      simp only [ifTail] at ih ⊢
      simp only [wt_append, wt_cons, ih, sumW, pw]
      omega

theorem wt_ifBody (bs : List (List Token)) (els : Option (List Token)) :
    wt (ifBody bs els) = sumW wt bs + optW els := by
  simp only [ifBody, wt_cons, wt_ifTail, pw, Nat.zero_add]

/-! ### operators -/

theorem pw_tokOf (op : BinaryOp) : pw (tokOf op) = 0 := by
  cases op <;> rfl

theorem pw_assignTok (op : BinaryOp) : pw ((assignTokOf op).getD Token.Equals) = 0 := by
  cases op <;> rfl

theorem tierOf_ge (op : BinaryOp) : 2 ≤ tierOf op := by
  cases op <;> decide

theorem tierOf_lt (op : BinaryOp) : tierOf op < 5 := by
  cases op <;> decide

/-- the operator the parser's table lookup accepts at tier `k` has tier `k` -/
theorem tierOf_of_opAt {k : Nat} {t : Token} {op : BinaryOp} (h : opAt k t = some op) : tierOf op = k := by
  unfold opAt at h
  split at h
  · rename_i op' k' hl
    split at h
    · rename_i hk
      injection h with h
      subst h; subst hk
      cases t <;> simp [lookupAssoc, Gen.binOps] at hl <;> (obtain ⟨rfl, rfl⟩ := hl; rfl)
    · cases h
  · cases h

/-! ### the cost of a tree: the number of `(` in its printed form -/

/-- `(` in `prR k r`: `r` printed in a slot of level `k` -/
def cR (k : Nat) (r : RawExpr) : Nat := wt (prR k r)
def cE (k : Nat) (e : Expr) : Nat := wt (prE k e)
def cO (o : Option Expr) : Nat := wt (prO o)
def cItem (i : ListItem) : Nat := wt (prItem i)
def cProp (p : PropItem) : Nat := wt (prProp p)
def cStmt (s : Stmt) : Nat := wt (prStmt s)
def cB (b : Branch) : Nat := wt (prB b)
def cItems (l : List ListItem) : Nat := sumW cItem l
def cProps (l : List PropItem) : Nat := sumW cProp l
def cEs (l : List Expr) : Nat := sumW (cE 1) l
def cStmts (l : List Stmt) : Nat := sumW cStmt l
def cBs (l : List Branch) : Nat := sumW cB l
def cOS : Option (List Stmt) → Nat
  | none => 0
  | some l => cStmts l
/-- an atom handed over to the expression parser has been paid for -/
def cPre : Option RawExpr → Nat
  | none => 0
  | some a => cR 5 a

theorem cE_mk (k : Nat) (r : RawExpr) (p : Loc) : cE k (.mk r p) = cR k r := by
  simp only [cE, cR, prE]

theorem cO_none : cO none = 0 := by simp only [cO, prO, wt]
theorem cO_some (e : Expr) : cO (some e) = cE 1 e := by simp only [cO, prO, cE]

theorem cPre_none : cPre none = 0 := rfl
theorem cPre_some (a : RawExpr) : cPre (some a) = cR 5 a := rfl
theorem cOS_none : cOS none = 0 := rfl
theorem cOS_some (l : List Stmt) : cOS (some l) = cStmts l := rfl

theorem cItem_mk (e : Expr) (s : Bool) : cItem (.mk e s) = cE 1 e := by
  simp only [cItem, prItem, wt_append, wt_spreadMark, cE, Nat.add_zero]

theorem cProp_pair (k v : Expr) : cProp (.Pair k v) = cE 1 k + cE 1 v := by
  simp only [cProp, prProp, wt_append, wt_cons, cE, pw, Nat.zero_add]

theorem cProp_single (e : Expr) (s c : Bool) : cProp (.Single e s c) = cE 1 e := by
  simp only [cProp, prProp, wt_append, wt_spreadMark, cE, Nat.add_zero, Nat.zero_add]

theorem cItems_nil : cItems [] = 0 := rfl
theorem cItems_cons (e : Expr) (s : Bool) (l : List ListItem) : cItems (.mk e s :: l) = cE 1 e + cItems l := by
  simp only [cItems, sumW, cItem_mk]
theorem cItems_reverse (l : List ListItem) : cItems l.reverse = cItems l := sumW_reverse _ _

theorem cProps_nil : cProps [] = 0 := rfl
theorem cProps_pair (k v : Expr) (l : List PropItem) : cProps (.Pair k v :: l) = cE 1 k + cE 1 v + cProps l := by
  simp only [cProps, sumW, cProp_pair]
theorem cProps_single (e : Expr) (s c : Bool) (l : List PropItem) :
    cProps (.Single e s c :: l) = cE 1 e + cProps l := by
  simp only [cProps, sumW, cProp_single]
theorem cProps_reverse (l : List PropItem) : cProps l.reverse = cProps l := sumW_reverse _ _

theorem cEs_nil : cEs [] = 0 := rfl
theorem cEs_cons (e : Expr) (l : List Expr) : cEs (e :: l) = cE 1 e + cEs l := rfl
theorem cEs_reverse (l : List Expr) : cEs l.reverse = cEs l := sumW_reverse _ _

theorem cStmts_nil : cStmts [] = 0 := rfl
theorem cStmts_cons (s : Stmt) (l : List Stmt) : cStmts (s :: l) = cStmt s + cStmts l := rfl
theorem cStmts_reverse (l : List Stmt) : cStmts l.reverse = cStmts l := sumW_reverse _ _

theorem cBs_nil : cBs [] = 0 := rfl
theorem cBs_cons (b : Branch) (l : List Branch) : cBs (b :: l) = cB b + cBs l := rfl

theorem wt_prItems (l : List ListItem) : sumW wt (prItems l) = cItems l := by
  rw [prItems_map, sumW_map]; rfl

theorem wt_prProps (l : List PropItem) : sumW wt (prProps l) = cProps l := by
  rw [prProps_map, sumW_map]; rfl

theorem wt_prEs (l : List Expr) : sumW wt (prEs l) = cEs l := by
  rw [prEs_map, sumW_map]; rfl

theorem wt_prBs (l : List Branch) : sumW wt (prBs l) = cBs l := by
  rw [prBs_map, sumW_map]; rfl

theorem wt_prStmts (l : List Stmt) : wt (prStmts l) = cStmts l := by
  induction l with
  | nil => simp only [prStmts, wt, cStmts, sumW]
  | cons s l ih => simp only [prStmts, wt_append, wt_cons, ih, cStmts, sumW, cStmt, pw, Nat.zero_add]

/-! ### expressions, constructor by constructor -/

theorem cR_null (k : Nat) : cR k .Null = 0 := by simp [cR, prR, wt, pw]
theorem cR_bool (k : Nat) (b : Bool) : cR k (.Bool b) = 0 := by cases b <;> simp [cR, prR, wt, pw]
theorem cR_int (k : Nat) (z : Int) : cR k (.Int z) = 0 := by cases z <;> simp [cR, prR, wt, pw]
theorem cR_str (k : Nat) (s : List Char) (o : Option (List (Nat × Nat))) : cR k (.Str s o) = 0 := by
  cases o <;> simp [cR, prR, wt, pw]
theorem cR_var (k : Nat) (x : List Char) : cR k (.Var x) = 0 := by simp [cR, prR, wt, pw]

/-- a binary operation: one pair iff its tier is looser than the slot, plus the two operands in their slots -/
theorem cR_bin (k : Nat) (op : BinaryOp) (p : Loc) (l r : Expr) :
    cR k (.BinaryOp op p l r) =
      (if tierOf op < k then 1 else 0) + (cE (tierOf op) l + cE (tierOf op + 1) r) := by
  simp only [cR, prR, wt_paren, wt_append, wt_cons, pw_tokOf, cE, Nat.zero_add, decide_eq_true_eq]

theorem cR_range (k : Nat) (l r : Expr) :
    cR k (.Range l r) = (if 1 < k then 1 else 0) + (cE 1 l + cE Gen.firstTier r) := by
  simp only [cR, prR, wt_paren, wt_append, wt_cons, cE, pw, Nat.zero_add, decide_eq_true_eq]

theorem cR_list (k : Nat) (items : List ListItem) (c : Bool) : cR k (.List items c) = cItems items := by
  simp only [cR, prR, wt_cons, wt_sepBody, wt_prItems, pw, Nat.zero_add]

theorem cR_index (k : Nat) (e i : Expr) : cR k (.Index e i) = cE 5 e + cE 1 i := by
  simp only [cR, prR, wt_append, wt_cons, wt_nil, cE, pw, Nat.zero_add, Nat.add_zero]

theorem cR_rangeIndex (k : Nat) (e : Expr) (a b : Option Expr) :
    cR k (.RangeIndex e a b) = cE 5 e + (cO a + cO b) := by
  simp only [cR, prR, wt_append, wt_cons, wt_nil, cE, cO, pw, Nat.zero_add, Nat.add_zero]

theorem cR_prop (k : Nat) (e : Expr) (name : List Char) (tp : Bool) : cR k (.Prop e name tp) = cE 5 e := by
  cases tp <;> simp [cR, prR, wt_append, wt, cE, pw]

theorem cR_call (k : Nat) (f : Expr) (args : List ListItem) : cR k (.Call f args) = cE 5 f + (1 + cItems args) := by
  simp only [cR, prR, wt_append, wt_cons, wt_sepBody, wt_prItems, cE, pw, Nat.zero_add]

theorem cR_object (k : Nat) (props : List PropItem) : cR k (.Object props) = cProps props := by
  simp only [cR, prR, wt_cons, wt_sepBody, wt_prProps, pw, Nat.zero_add]

theorem cR_func (k : Nat) (args : List Expr) (c : Bool) (stmts : List Stmt) :
    cR k (.Func args c stmts) = 1 + (cEs args + cStmts stmts) := by
  simp only [cR, prR, wt_append, wt_cons, wt_nil, wt_sepBody, wt_prEs, wt_prStmts, pw, Nat.zero_add, Nat.add_zero]

/-- at its own tier a binary operation is printed bare -/
theorem cR_bin_own (op : BinaryOp) (p : Loc) (l r : Expr) :
    cR (tierOf op) (.BinaryOp op p l r) = cE (tierOf op) l + cE (tierOf op + 1) r := by
  rw [cR_bin, if_neg (Nat.lt_irrefl _), Nat.zero_add]

theorem cR_range_one (l r : Expr) : cR 1 (.Range l r) = cE 1 l + cE Gen.firstTier r := by
  rw [cR_range, if_neg (Nat.lt_irrefl _), Nat.zero_add]

/-! ### the level of the slot -/

theorem cR_mono {k j : Nat} (h : k ≤ j) (r : RawExpr) : cR k r ≤ cR j r := by
  cases r <;> simp only [cR_null, cR_bool, cR_int, cR_str, cR_var, cR_bin, cR_range, cR_list, cR_index,
    cR_rangeIndex, cR_prop, cR_call, cR_object, cR_func, Nat.le_refl]
  · split <;> split <;> omega
  · split <;> split <;> omega

theorem cR_le_one (k : Nat) (r : RawExpr) : cR k r ≤ 1 + cR 1 r := by
  cases r <;> simp only [cR_null, cR_bool, cR_int, cR_str, cR_var, cR_bin, cR_range, cR_list, cR_index,
    cR_rangeIndex, cR_prop, cR_call, cR_object, cR_func]
  all_goals first | omega | (split <;> split <;> omega)

theorem cR_high {k : Nat} (h : 5 ≤ k) (r : RawExpr) : cR k r = cR 5 r := by
  cases r <;> simp only [cR_null, cR_bool, cR_int, cR_str, cR_var, cR_bin, cR_range, cR_list, cR_index,
    cR_rangeIndex, cR_prop, cR_call, cR_object, cR_func]
  · rename_i op _ _ _
    have := tierOf_lt op
    rw [if_pos (by omega), if_pos (by omega)]
  · rw [if_pos (by omega), if_pos (by omega)]

/-! ### statements, constructor by constructor -/

theorem cStmt_block (b : List Stmt) : cStmt (.Block b) = cStmts b := by
  simp only [cStmt, prStmt, wt_append, wt_cons, wt_nil, wt_prStmts, pw, Nat.zero_add, Nat.add_zero]
theorem cStmt_expr (e : Expr) : cStmt (.Expr e) = cE 1 e := by simp only [cStmt, prStmt, cE]
theorem cStmt_declare (l r : Expr) : cStmt (.Declare l r) = cE 1 l + cE 1 r := by
  simp only [cStmt, prStmt, wt_append, wt_cons, cE, pw, Nat.zero_add]
theorem cStmt_assign (l r : Expr) : cStmt (.Assign l r) = cE 1 l + cE 1 r := by
  simp only [cStmt, prStmt, wt_append, wt_cons, cE, pw, Nat.zero_add]
theorem cStmt_opAssign (l : Expr) (op : BinaryOp) (p : Loc) (r : Expr) :
    cStmt (.OpAssign l op p r) = cE 1 l + cE 1 r := by
  simp only [cStmt, prStmt, wt_append, wt_cons, cE, pw_assignTok, Nat.zero_add]
theorem cStmt_if (bs : List Branch) (els : Option (List Stmt)) : cStmt (.If bs els) = cBs bs + cOS els := by
  cases els <;>
    simp only [cStmt, prStmt, wt_ifBody, wt_prBs, optW, cOS, wt_append, wt_cons, wt_nil, wt_prStmts, pw, Nat.zero_add,
      Nat.add_zero]
theorem cStmt_while (c : Expr) (s : List Stmt) : cStmt (.While c s) = cE 1 c + cStmts s := by
  simp only [cStmt, prStmt, wt_append, wt_cons, wt_nil, wt_prStmts, cE, pw, Nat.zero_add, Nat.add_zero]
theorem cStmt_for (l i : Expr) (s : List Stmt) : cStmt (.For l i s) = cE 1 l + (cE 1 i + cStmts s) := by
  simp only [cStmt, prStmt, wt_append, wt_cons, wt_nil, wt_prStmts, cE, pw, Nat.zero_add, Nat.add_zero]
theorem cStmt_break (p : Loc) : cStmt (.Break p) = 0 := by simp [cStmt, prStmt, wt, pw]
theorem cStmt_continue (p : Loc) : cStmt (.Continue p) = 0 := by simp [cStmt, prStmt, wt, pw]
theorem cStmt_func (n : List Char) (p : Loc) (args : List Expr) (c : Bool) (s : List Stmt) :
    cStmt (.Func n p args c s) = 1 + (cEs args + cStmts s) := by
  simp only [cStmt, prStmt, wt_append, wt_cons, wt_nil, wt_sepBody, wt_prEs, wt_prStmts, pw, Nat.zero_add, Nat.add_zero]
theorem cStmt_return (p : Loc) (e : Expr) : cStmt (.Return p e) = cE 1 e := by
  simp only [cStmt, prStmt, wt_cons, cE, pw, Nat.zero_add]
theorem cB_mk (c : Expr) (s : List Stmt) : cB (.mk c s) = cE 1 c + cStmts s := by
  simp only [cB, prB, prBlock, wt_append, wt_cons, wt_nil, wt_prStmts, cE, pw, Nat.zero_add, Nat.add_zero]

end Seed.C08N
