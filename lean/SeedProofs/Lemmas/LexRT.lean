/-
  Lemmas/LexRT.lean — the lexer round trip on token lists: `renderToks ts` (the spellings of well-formed
  tokens separated by one blank) is lexed, from any position and with any sufficient fuel, to exactly the raw
  tokens `ts`, without error (`lexRaw_render`); what the parser sees (`lexAll`) is `ts` after terminator
  suppression, described on tokens by `suppressT` (`lexAll_render`); and suppression removes nothing when no
  terminator is first or follows a terminator or a continuation token (`keepAll`, `suppressT_of_keepAll`).
-/
import SeedProofs.Lemmas.LexRTTok
import SeedProofs.Lemmas.C09Raw
namespace Seed.LexRT
open Seed Seed.C09

/-! ### the token list -/

/-- a blank in front of a token changes nothing -/
theorem LexTo.blank_cons {r rest : List Char} {t : Token} {ts : List Token} (h : LexTo r (t :: ts) rest) :
    LexTo (' ' :: r) (t :: ts) rest := by
  cases h with
  | @cons _ mid _ _ _ l c hk htail =>
    refine LexTo.cons l c ?_ htail
    rw [← hk]
    exact nextToken_skip_layout (p := [' ']) (.blank (Or.inl rfl) .nil) r (fun h => by simp at h) l c l c

/-- **the lexer round trip**, position-free form: the spelled token list is lexed token by token to `ts`, and
    nothing is left -/
theorem lexTo_render : ∀ (ts : List Token), (∀ t ∈ ts, TokWF t) → LexTo (renderToks ts) ts []
  | [], _ => LexTo.nil []
  | [t], h => by
    have hk := nextToken_render t (h t (List.mem_cons_self ..)) [] EndOK.nil 0 0
    rw [List.append_nil] at hk
    exact LexTo.cons 0 0 hk (LexTo.nil [])
  | t :: u :: ts, h => by
    have ih := lexTo_render (u :: ts) (fun x hx => h x (List.mem_cons_of_mem _ hx))
    rw [renderToks_cons_cons]
    exact LexTo.cons 0 0
      (nextToken_render t (h t (List.mem_cons_self ..)) _ (EndOK.blank _) 0 0) (LexTo.blank_cons ih)

theorem lexRaw_nil (n l c : Nat) : lexRaw n ⟨[], l, c⟩ = ([], none) := by
  cases n with
  | zero => rfl
  | succ n => simp [lexRaw, nextToken, Scanner.skipWs, skipWs]

/-- there are at least as many characters as tokens -/
theorem length_le_renderToks (ts : List Token) (h : ∀ t ∈ ts, TokWF t) : ts.length ≤ (renderToks ts).length := by
  have := (lexTo_render ts h).length_le
  simpa using this

/-- **the lexer round trip**, raw stream: from any position, with more fuel than tokens, `lexRaw` yields
    exactly the tokens `ts` and no error -/
theorem lexRaw_render (ts : List Token) (h : ∀ t ∈ ts, TokWF t) (n l c : Nat) (hn : ts.length < n) :
    (lexRaw n ⟨renderToks ts, l, c⟩).1.map Span.tok = ts ∧ (lexRaw n ⟨renderToks ts, l, c⟩).2 = none := by
  obtain ⟨m, rfl⟩ : ∃ m, n = ts.length + m := ⟨n - ts.length, by omega⟩
  obtain ⟨h1, h2⟩ := (lexTo_render ts h).lexRaw m l c 0 0
  rw [lexRaw_nil] at h1 h2
  simp only [List.map_nil, List.append_nil, Option.map_none] at h1 h2
  refine ⟨h1, ?_⟩
  cases hx : (lexRaw (ts.length + m) ⟨renderToks ts, l, c⟩).2 with
  | none => rfl
  | some e => rw [hx] at h2; cases h2

example : (∀ t ∈ [Token.Ident c!"x", .ColonEquals, .StrLiteral c!"é"], TokWF t) ∧
    [Token.Ident c!"x", .ColonEquals, .StrLiteral c!"é"].length < 4 := by decide
example : (lexRaw 4 ⟨renderToks [.Ident c!"x", .ColonEquals, .StrLiteral c!"é"], 1, 1⟩).1.map Span.tok =
    [.Ident c!"x", .ColonEquals, .StrLiteral c!"é"] := by decide

/-! ### terminator suppression on tokens -/

/-- `suppress` on bare tokens -/
def suppressT : Option Token → List Token → List Token
  | _, [] => []
  | last, t :: r =>
    if t ≠ Token.StmtEnd then t :: suppressT (some t) r
    else
      match last with
      | none => suppressT (some t) r
      | some u => if isContinuation u then suppressT (some t) r else t :: suppressT (some t) r

theorem suppress_map_tok (last : Option Token) (sps : List Span) :
    (suppress last sps).map Span.tok = suppressT last (sps.map Span.tok) := by
  induction sps generalizing last with
  | nil => rfl
  | cons sp r ih =>
    rw [suppress.eq_def]
    simp only [List.map_cons, suppressT]
    by_cases hs : sp.tok = Token.StmtEnd
    · have hs' : ¬ (sp.tok ≠ Token.StmtEnd) := fun h => h hs
      rw [if_neg hs', if_neg hs']
      cases last with
      | none => exact ih _
      | some u =>
        simp only
        cases hc : isContinuation u
        · simp only [Bool.false_eq_true, if_false, List.map_cons, ih]
        · simp only [if_true, ih]
    · rw [if_pos hs, if_pos hs, List.map_cons, ih]

/-- no terminator of `ts` would be dropped: none is first (`d = true`: "a terminator arriving now is dropped")
    and none follows a terminator or a continuation token -/
def keepAll : Bool → List Token → Bool
  | _, [] => true
  | d, t :: r => (t != Token.StmtEnd || !d) && keepAll (isContinuation t) r

/-- "a terminator arriving now would be dropped" -/
def dropsNow : Option Token → Bool
  | none => true
  | some t => isContinuation t

theorem suppressT_of_keepAll (last : Option Token) (ts : List Token) (h : keepAll (dropsNow last) ts = true) :
    suppressT last ts = ts := by
  induction ts generalizing last with
  | nil => rfl
  | cons t r ih =>
    simp only [keepAll, Bool.and_eq_true, Bool.or_eq_true, bne_iff_ne, ne_eq, Bool.not_eq_true'] at h
    obtain ⟨h1, h2⟩ := h
    have ih' := ih (some t) h2
    simp only [suppressT]
    split
    · rw [ih']
    · next hs =>
      have hd : dropsNow last = false := by
        rcases h1 with h1 | h1
        · exact absurd h1 hs
        · exact h1
      cases last with
      | none => cases hd
      | some u =>
        simp only [dropsNow] at hd
        simp only [hd, Bool.false_eq_true, if_false, ih']

example : keepAll (dropsNow (some .ParenClose)) [.StmtEnd, .Ident c!"x", .StmtEnd] = true ∧
    keepAll (dropsNow none) [.StmtEnd] = false ∧ keepAll (dropsNow none) [.Comma, .StmtEnd] = false := by decide

/-- if nothing is dropped, the spans themselves are untouched -/
theorem suppress_of_keepAll (last : Option Token) (sps : List Span)
    (h : keepAll (dropsNow last) (sps.map Span.tok) = true) : suppress last sps = sps := by
  induction sps generalizing last with
  | nil => rfl
  | cons sp r ih =>
    simp only [List.map_cons, keepAll, Bool.and_eq_true, Bool.or_eq_true, bne_iff_ne, ne_eq,
      Bool.not_eq_true'] at h
    obtain ⟨h1, h2⟩ := h
    have ih' := ih (some sp.tok) h2
    rw [suppress.eq_def]
    simp only
    split
    · rw [ih']
    · next hs =>
      have hd : dropsNow last = false := by
        rcases h1 with h1 | h1
        · exact absurd h1 hs
        · exact h1
      cases last with
      | none => cases hd
      | some u =>
        simp only [dropsNow] at hd
        simp only [hd, Bool.false_eq_true, if_false, ih']

/-- whether the token `t`, arriving after `prev`, survives suppression -/
def keptT (prev : Option Token) (t : Token) : Bool := t != Token.StmtEnd || !dropsNow prev

/-- specification of `suppressT` (as C09 `suppress_spec`): exactly those terminators are removed that are first
    or follow a terminator or a continuation token, looking at the raw predecessor -/
theorem suppressT_spec (last : Option Token) (ts : List Token) :
    suppressT last ts = ((ts.zip (last :: ts.map some)).filter (fun p => keptT p.2 p.1)).map Prod.fst := by
  induction ts generalizing last with
  | nil => rfl
  | cons t r ih =>
    simp only [suppressT, List.map_cons, List.zip_cons_cons, List.filter_cons, keptT]
    by_cases hs : t = Token.StmtEnd
    · subst hs
      cases last with
      | none => simp [dropsNow, ih, keptT]
      | some u => cases hc : isContinuation u <;> simp [dropsNow, hc, ih, keptT]
    · simp [hs, ih, keptT]

theorem keepAll_append (d : Bool) (a b : List Token) :
    keepAll d (a ++ b) = (keepAll d a && keepAll (match a.getLast? with | none => d | some t => isContinuation t) b) := by
  induction a generalizing d with
  | nil => simp [keepAll]
  | cons t r ih =>
    simp only [List.cons_append, keepAll, ih, Bool.and_assoc]
    cases r with
    | nil => rfl
    | cons u r' =>
      rw [List.getLast?_cons_cons]
      cases h : (u :: r').getLast? with
      | none => simp at h
      | some x => rfl

/-! ### what the parser sees -/

/-- **the lexer round trip**, through `lexAll`: no lexical error, and the parser sees `ts` after terminator
    suppression -/
theorem lexAll_render (ts : List Token) (h : ∀ t ∈ ts, TokWF t) :
    (lexAll (renderToks ts)).2 = none ∧ (lexAll (renderToks ts)).1.map Span.tok = suppressT none ts := by
  have en : Scanner.new (renderToks ts) =
      ⟨renderToks ts, (Scanner.new (renderToks ts)).line, (Scanner.new (renderToks ts)).col⟩ := by
    unfold Scanner.new; split <;> rfl
  obtain ⟨h1, h2⟩ := lexRaw_render ts h ((renderToks ts).length + 1) (Scanner.new (renderToks ts)).line
    (Scanner.new (renderToks ts)).col (by have := length_le_renderToks ts h; omega)
  rw [← en] at h1 h2
  unfold lexAll
  simp only
  exact ⟨h2, by rw [suppress_map_tok, h1]⟩

/-- … and exactly `ts` when no terminator of `ts` is first or follows a terminator or a continuation token -/
theorem lexAll_render_keepAll (ts : List Token) (h : ∀ t ∈ ts, TokWF t) (hk : keepAll true ts = true) :
    (lexAll (renderToks ts)).2 = none ∧ (lexAll (renderToks ts)).1.map Span.tok = ts := by
  obtain ⟨h1, h2⟩ := lexAll_render ts h
  exact ⟨h1, by rw [h2, suppressT_of_keepAll none ts hk]⟩

end Seed.LexRT
