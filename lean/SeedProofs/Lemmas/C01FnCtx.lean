/-
  C01FnCtx.lean — congruence through FUNCTION BODIES, part 1: definitions and the state layer.

  `C01Ctx.lean` proves that statement lists that are equivalent up to fuel are interchangeable in every context made of
  sequences, blocks, `if` / `while` / `for` bodies.  A hole in the body of a function (`fn f() { □ }`, `fn() { □ }`)
  is different: the body is stored in the heap when the `fn` is evaluated, so the two programs run in DIFFERENT states
  and the results cannot be equal — they are equal up to the bodies of the stored functions.  This file sets up the
  two-run simulation:

  * `RStmts`, `RExpr`, … : "the same syntax, except that at any number of statement-list positions (at any depth, also
    inside function literals and `fn` statements) the left program has `x` where the right one has `y`, with
    `Refines x y`" (`x`, `y` may differ from hole to hole).  Every syntactic position is covered, patterns included
    (parameter lists, the left-hand sides of `:=`, `=`, `op=` and of `for`).
  * `wb β σ` : the state `σ` with the code (parameter patterns and body) of the function cell at address `a` replaced by
    `β a`; `Good β σ` : every replaced code is related (`RExprs` / `RStmts`) to the original.  ("The two heaps are identical except for related function
    bodies" is `σ₂ = wb β σ₁ ∧ Good β σ₁`: same addresses, same sizes, same lists / objects / scopes / output.)
  * `Ev r g` : the left run has result `r`; if that is not a time-out, the right run `g` (a function of the fuel) yields,
    from some fuel on, the result `wbRes β' r` for some `β'` with `Good β' …` — the same value / error, in a state that
    is again identical up to related function bodies.  Its congruence rules (`Ev.bind`, …) need no monotonicity side
    conditions.
  * the primitives (`==`, rendering, binary operations, builtins, scope walks, the name binder) do not look at function
    bodies: they commute with `wb β` at the same fuel.
-/
import SeedProofs.Lemmas.C01Ctx
import SeedProofs.Lemmas.C04EquivDefs
namespace Seed.C01
open Seed Seed.C07 Seed.ScopeL
open Seed.Eqv (allocS alloc_pair getFunc_heap)

/-! ### the relation on syntax -/

mutual
inductive RRaw : RawExpr → RawExpr → Prop
  | null : RRaw .Null .Null
  | bool (b : Bool) : RRaw (.Bool b) (.Bool b)
  | int (n : Int) : RRaw (.Int n) (.Int n)
  | str (s : List Char) (sl : Option (List (Nat × Nat))) : RRaw (.Str s sl) (.Str s sl)
  | var (x : List Char) : RRaw (.Var x) (.Var x)
  | binop (op : BinaryOp) (l : Loc) {a a' b b' : Expr} : RExpr a a' → RExpr b b' →
      RRaw (.BinaryOp op l a b) (.BinaryOp op l a' b')
  | list {is is' : List ListItem} (c : Bool) : RItems is is' → RRaw (.List is c) (.List is' c)
  | index {e e' i i' : Expr} : RExpr e e' → RExpr i i' → RRaw (.Index e i) (.Index e' i')
  | rangeIndex {e e' : Expr} {a a' b b' : Option Expr} : RExpr e e' → ROpt a a' → ROpt b b' →
      RRaw (.RangeIndex e a b) (.RangeIndex e' a' b')
  | range {a a' b b' : Expr} : RExpr a a' → RExpr b b' → RRaw (.Range a b) (.Range a' b')
  | object {ps ps' : List PropItem} : RProps ps ps' → RRaw (.Object ps) (.Object ps')
  | prop {e e' : Expr} (n : List Char) (t : Bool) : RExpr e e' → RRaw (.Prop e n t) (.Prop e' n t)
  | func {args args' : List Expr} (c : Bool) {ss ss' : List Stmt} : RExprs args args' → RStmts ss ss' →
      RRaw (.Func args c ss) (.Func args' c ss')
  | call {f f' : Expr} {as as' : List ListItem} : RExpr f f' → RItems as as' → RRaw (.Call f as) (.Call f' as')
inductive RExpr : Expr → Expr → Prop
  | mk {r r' : RawExpr} (l : Loc) : RRaw r r' → RExpr (.mk r l) (.mk r' l)
inductive RExprs : List Expr → List Expr → Prop
  | nil : RExprs [] []
  | cons {e e' : Expr} {r r' : List Expr} : RExpr e e' → RExprs r r' → RExprs (e :: r) (e' :: r')
inductive ROpt : Option Expr → Option Expr → Prop
  | none : ROpt none none
  | some {e e' : Expr} : RExpr e e' → ROpt (some e) (some e')
inductive RItems : List ListItem → List ListItem → Prop
  | nil : RItems [] []
  | cons {e e' : Expr} (s : Bool) {r r' : List ListItem} : RExpr e e' → RItems r r' → RItems (.mk e s :: r) (.mk e' s :: r')
inductive RProps : List PropItem → List PropItem → Prop
  | nil : RProps [] []
  | pair {n n' v v' : Expr} {r r' : List PropItem} : RExpr n n' → RExpr v v' → RProps r r' →
      RProps (.Pair n v :: r) (.Pair n' v' :: r')
  | single {e e' : Expr} (s c : Bool) {r r' : List PropItem} : RExpr e e' → RProps r r' →
      RProps (.Single e s c :: r) (.Single e' s c :: r')
inductive RStmt : Stmt → Stmt → Prop
  | block {b b' : List Stmt} : RStmts b b' → RStmt (.Block b) (.Block b')
  | expr {e e' : Expr} : RExpr e e' → RStmt (.Expr e) (.Expr e')
  | declare {l l' r r' : Expr} : RExpr l l' → RExpr r r' → RStmt (.Declare l r) (.Declare l' r')
  | assign {l l' r r' : Expr} : RExpr l l' → RExpr r r' → RStmt (.Assign l r) (.Assign l' r')
  | opAssign (op : BinaryOp) (ol : Loc) {l l' r r' : Expr} : RExpr l l' → RExpr r r' →
      RStmt (.OpAssign l op ol r) (.OpAssign l' op ol r')
  | ifs {bs bs' : List Branch} {els els' : Option (List Stmt)} : RBranches bs bs' → ROptStmts els els' →
      RStmt (.If bs els) (.If bs' els')
  | whileS {c c' : Expr} {ss ss' : List Stmt} : RExpr c c' → RStmts ss ss' → RStmt (.While c ss) (.While c' ss')
  | forS {l l' i i' : Expr} {ss ss' : List Stmt} : RExpr l l' → RExpr i i' → RStmts ss ss' →
      RStmt (.For l i ss) (.For l' i' ss')
  | brk (l : Loc) : RStmt (.Break l) (.Break l)
  | cont (l : Loc) : RStmt (.Continue l) (.Continue l)
  | func (name : List Char) (nl : Loc) {args args' : List Expr} (c : Bool) {ss ss' : List Stmt} : RExprs args args' →
      RStmts ss ss' → RStmt (.Func name nl args c ss) (.Func name nl args' c ss')
  | ret (l : Loc) {e e' : Expr} : RExpr e e' → RStmt (.Return l e) (.Return l e')
/-- statement lists: related statement by statement, or — the hole — any `x`, `y` with `Refines x y` -/
inductive RStmts : List Stmt → List Stmt → Prop
  | nil : RStmts [] []
  | cons {s s' : Stmt} {r r' : List Stmt} : RStmt s s' → RStmts r r' → RStmts (s :: r) (s' :: r')
  | hole {x y : List Stmt} : Refines x y → RStmts x y
inductive ROptStmts : Option (List Stmt) → Option (List Stmt) → Prop
  | none : ROptStmts none none
  | some {ss ss' : List Stmt} : RStmts ss ss' → ROptStmts (some ss) (some ss')
inductive RBranches : List Branch → List Branch → Prop
  | nil : RBranches [] []
  | cons {c c' : Expr} {ss ss' : List Stmt} {r r' : List Branch} : RExpr c c' → RStmts ss ss' → RBranches r r' →
      RBranches (.mk c ss :: r) (.mk c' ss' :: r')
end

mutual
theorem RRaw.refl : (r : RawExpr) → RRaw r r
  | .Null => .null
  | .Bool b => .bool b
  | .Int n => .int n
  | .Str s sl => .str s sl
  | .Var x => .var x
  | .BinaryOp op l a b => .binop op l (RExpr.refl a) (RExpr.refl b)
  | .List is c => .list c (RItems.refl is)
  | .Index e i => .index (RExpr.refl e) (RExpr.refl i)
  | .RangeIndex e a b => .rangeIndex (RExpr.refl e) (ROpt.refl a) (ROpt.refl b)
  | .Range a b => .range (RExpr.refl a) (RExpr.refl b)
  | .Object ps => .object (RProps.refl ps)
  | .Prop e n t => .prop n t (RExpr.refl e)
  | .Func args c ss => .func c (RExprs.refl args) (RStmts.refl ss)
  | .Call f as => .call (RExpr.refl f) (RItems.refl as)
theorem RExpr.refl : (e : Expr) → RExpr e e
  | .mk r l => .mk l (RRaw.refl r)
theorem RExprs.refl : (l : List Expr) → RExprs l l
  | [] => .nil
  | e :: r => .cons (RExpr.refl e) (RExprs.refl r)
theorem ROpt.refl : (e : Option Expr) → ROpt e e
  | none => .none
  | some e => .some (RExpr.refl e)
theorem RItems.refl : (l : List ListItem) → RItems l l
  | [] => .nil
  | .mk e s :: r => .cons s (RExpr.refl e) (RItems.refl r)
theorem RProps.refl : (l : List PropItem) → RProps l l
  | [] => .nil
  | .Pair n v :: r => .pair (RExpr.refl n) (RExpr.refl v) (RProps.refl r)
  | .Single e s c :: r => .single s c (RExpr.refl e) (RProps.refl r)
theorem RStmt.refl : (s : Stmt) → RStmt s s
  | .Block b => .block (RStmts.refl b)
  | .Expr e => .expr (RExpr.refl e)
  | .Declare l r => .declare (RExpr.refl l) (RExpr.refl r)
  | .Assign l r => .assign (RExpr.refl l) (RExpr.refl r)
  | .OpAssign l op ol r => .opAssign op ol (RExpr.refl l) (RExpr.refl r)
  | .If bs els => .ifs (RBranches.refl bs) (ROptStmts.refl els)
  | .While c ss => .whileS (RExpr.refl c) (RStmts.refl ss)
  | .For l i ss => .forS (RExpr.refl l) (RExpr.refl i) (RStmts.refl ss)
  | .Break l => .brk l
  | .Continue l => .cont l
  | .Func name nl args c ss => .func name nl c (RExprs.refl args) (RStmts.refl ss)
  | .Return l e => .ret l (RExpr.refl e)
/-- built from `nil` / `cons` only -/
theorem RStmts.refl : (l : List Stmt) → RStmts l l
  | [] => .nil
  | s :: r => .cons (RStmt.refl s) (RStmts.refl r)
theorem ROptStmts.refl : (e : Option (List Stmt)) → ROptStmts e e
  | none => .none
  | some ss => .some (RStmts.refl ss)
theorem RBranches.refl : (l : List Branch) → RBranches l l
  | [] => .nil
  | .mk c ss :: r => .cons (RExpr.refl c) (RStmts.refl ss) (RBranches.refl r)
end

/-! ### the action on states -/

/-- the code of a function: its parameter patterns and its body -/
abbrev Code := List Expr × List Stmt
/-- a replacement code for every address -/
abbrev Repl := Addr → Code

/-- the function record with other code -/
def setCode (c : Code) (fr : FuncRec) : FuncRec := ⟨fr.name, c.1, fr.collect, c.2, fr.closure⟩

def wbCell (β : Repl) (a : Addr) : Cell → Cell
  | .func fr => .func (setCode (β a) fr)
  | .list xs => .list xs
  | .obj m => .obj m
  | .scope m => .scope m

/-- `σ` with the code of every function cell replaced: the cell at address `a` gets the patterns and the body `β a` -/
def wb (β : Repl) (σ : State) : State := ⟨σ.heap.mapIdx (wbCell β), σ.out⟩

/-- every replaced code is related to the original one -/
def Good (β : Repl) (σ : State) : Prop :=
  ∀ a fr, σ.getFunc a = some fr → RExprs fr.args (β a).1 ∧ RStmts fr.stmts (β a).2

def wbRes {α} (β : Repl) : Res α → Res α
  | .ok a σ => .ok a (wb β σ)
  | .err e σ => .err e (wb β σ)
  | .crash w σ => .crash w (wb β σ)
  | .timeout => .timeout

def GoodRes {α} (β : Repl) : Res α → Prop
  | .ok _ σ => Good β σ
  | _ => True

@[simp] theorem size_wb (β : Repl) (σ : State) : (wb β σ).heap.size = σ.heap.size := by simp [wb]
@[simp] theorem out_wb (β : Repl) (σ : State) : (wb β σ).out = σ.out := rfl

theorem heap_wb (β : Repl) (σ : State) (a : Addr) : (wb β σ).heap[a]? = (σ.heap[a]?).map (wbCell β a) := by
  simp [wb]

@[simp] theorem getList_wb (β : Repl) (σ : State) (a : Addr) : (wb β σ).getList a = σ.getList a := by
  unfold State.getList; rw [heap_wb]
  cases σ.heap[a]? with
  | none => rfl
  | some c => cases c <;> rfl

@[simp] theorem getObj_wb (β : Repl) (σ : State) (a : Addr) : (wb β σ).getObj a = σ.getObj a := by
  unfold State.getObj; rw [heap_wb]
  cases σ.heap[a]? with
  | none => rfl
  | some c => cases c <;> rfl

@[simp] theorem getScope_wb (β : Repl) (σ : State) (a : Addr) : (wb β σ).getScope a = σ.getScope a := by
  unfold State.getScope; rw [heap_wb]
  cases σ.heap[a]? with
  | none => rfl
  | some c => cases c <;> rfl

theorem getFunc_wb (β : Repl) (σ : State) (a : Addr) : (wb β σ).getFunc a = (σ.getFunc a).map (setCode (β a)) := by
  unfold State.getFunc; rw [heap_wb]
  cases σ.heap[a]? with
  | none => rfl
  | some c => cases c <;> rfl

theorem allocS_wb (β : Repl) (σ : State) (c : Cell) :
    allocS (wb β σ) (wbCell β σ.heap.size c) = wb β (allocS σ c) := by
  simp [allocS, State.alloc, wb, Array.mapIdx_push]

@[simp] theorem allocS_wb_list (β : Repl) (σ : State) (xs : List SVal) :
    allocS (wb β σ) (.list xs) = wb β (allocS σ (.list xs)) := allocS_wb β σ (.list xs)
@[simp] theorem allocS_wb_obj (β : Repl) (σ : State) (m : ObjMap) :
    allocS (wb β σ) (.obj m) = wb β (allocS σ (.obj m)) := allocS_wb β σ (.obj m)
@[simp] theorem allocS_wb_scope (β : Repl) (σ : State) (m : ScopeMap) :
    allocS (wb β σ) (.scope m) = wb β (allocS σ (.scope m)) := allocS_wb β σ (.scope m)

theorem set_wb (β : Repl) (σ : State) (a : Addr) (c : Cell) :
    (wb β σ).set a (wbCell β a c) = wb β (σ.set a c) := by
  simp [State.set, wb, Array.mapIdx_setIfInBounds]

@[simp] theorem set_wb_list (β : Repl) (σ : State) (a : Addr) (xs : List SVal) :
    (wb β σ).set a (.list xs) = wb β (σ.set a (.list xs)) := set_wb β σ a (.list xs)
@[simp] theorem set_wb_obj (β : Repl) (σ : State) (a : Addr) (m : ObjMap) :
    (wb β σ).set a (.obj m) = wb β (σ.set a (.obj m)) := set_wb β σ a (.obj m)
@[simp] theorem set_wb_scope (β : Repl) (σ : State) (a : Addr) (m : ScopeMap) :
    (wb β σ).set a (.scope m) = wb β (σ.set a (.scope m)) := set_wb β σ a (.scope m)

@[simp] theorem print_wb (β : Repl) (σ : State) (l : List Char) : (wb β σ).print l = wb β (σ.print l) := rfl

/-- `β` with the code for address `k` set to `b` -/
def upd (β : Repl) (k : Addr) (b : Code) : Repl := fun a => if a = k then b else β a

/-- allocating a function cell: the new address gets its own replacement body -/
theorem allocS_wb_func (β : Repl) (σ : State) (fr : FuncRec) (b : Code) :
    allocS (wb β σ) (.func (setCode b fr)) = wb (upd β σ.heap.size b) (allocS σ (.func fr)) := by
  have h1 : σ.heap.mapIdx (wbCell (upd β σ.heap.size b)) = σ.heap.mapIdx (wbCell β) := by
    apply Array.ext_getElem?
    intro i
    simp only [Array.getElem?_mapIdx]
    cases hi : σ.heap[i]? with
    | none => rfl
    | some c =>
      have hlt : i < σ.heap.size := (Array.getElem?_eq_some_iff.mp hi).1
      have hne : i ≠ σ.heap.size := Nat.ne_of_lt hlt
      cases c <;> simp [wbCell, upd, hne]
  simp only [allocS, State.alloc, wb, Array.mapIdx_push, h1]
  simp [wbCell, upd]

/-! ### `Good` is kept by every write -/

theorem good_init (β : Repl) : Good β State.init := by
  intro a fr h
  simp [State.getFunc, State.init] at h

theorem good_allocS {β : Repl} {σ : State} (h : Good β σ) (c : Cell) (hc : ∀ fr, c ≠ .func fr) : Good β (allocS σ c) := by
  intro a fr ha
  have ha' := getFunc_heap.mp ha
  by_cases hlt : a < σ.heap.size
  · rw [allocS, alloc_old σ c hlt] at ha'
    exact h a fr (getFunc_heap.mpr ha')
  · have hlt2 : a < (allocS σ c).heap.size := (Array.getElem?_eq_some_iff.mp ha').1
    rw [allocS, alloc_size] at hlt2
    have heq : a = σ.heap.size := Nat.le_antisymm (Nat.le_of_lt_succ hlt2) (Nat.le_of_not_lt hlt)
    subst heq
    rw [allocS, alloc_new] at ha'
    exact absurd (by cases ha'; rfl) (hc fr)

theorem good_allocS_list {β : Repl} {σ : State} (xs : List SVal) (h : Good β σ) : Good β (allocS σ (.list xs)) :=
  good_allocS h _ (fun _ e => by cases e)
theorem good_allocS_obj {β : Repl} {σ : State} (m : ObjMap) (h : Good β σ) : Good β (allocS σ (.obj m)) :=
  good_allocS h _ (fun _ e => by cases e)
theorem good_allocS_scope {β : Repl} {σ : State} (m : ScopeMap) (h : Good β σ) : Good β (allocS σ (.scope m)) :=
  good_allocS h _ (fun _ e => by cases e)

theorem good_allocS_func {β : Repl} {σ : State} (fr : FuncRec) {b : Code} (h : Good β σ)
    (hargs : RExprs fr.args b.1) (hb : RStmts fr.stmts b.2) : Good (upd β σ.heap.size b) (allocS σ (.func fr)) := by
  intro a fr' ha
  have ha' := getFunc_heap.mp ha
  by_cases hlt : a < σ.heap.size
  · rw [allocS, alloc_old σ _ hlt] at ha'
    have := h a fr' (getFunc_heap.mpr ha')
    simpa [upd, Nat.ne_of_lt hlt] using this
  · have hlt2 : a < (allocS σ (.func fr)).heap.size := (Array.getElem?_eq_some_iff.mp ha').1
    rw [allocS, alloc_size] at hlt2
    have heq : a = σ.heap.size := Nat.le_antisymm (Nat.le_of_lt_succ hlt2) (Nat.le_of_not_lt hlt)
    subst heq
    rw [allocS, alloc_new] at ha'
    have : fr' = fr := by cases ha'; rfl
    subst this
    simpa [upd] using And.intro hargs hb

theorem good_set {β : Repl} {σ : State} (h : Good β σ) (a : Addr) (c : Cell) (hc : ∀ fr, c ≠ .func fr) :
    Good β (σ.set a c) := by
  intro b fr hb
  have hb' := getFunc_heap.mp hb
  by_cases hba : b = a
  · subst hba
    by_cases hlt : b < σ.heap.size
    · rw [set_same σ b c hlt] at hb'
      exact absurd (by cases hb'; rfl) (hc fr)
    · rw [set_same_oob σ b c hlt] at hb; exact h b fr hb
  · rw [set_other σ a c hba] at hb'
    exact h b fr (getFunc_heap.mpr hb')

theorem good_set_list {β : Repl} {σ : State} (a : Addr) (xs : List SVal) (h : Good β σ) : Good β (σ.set a (.list xs)) :=
  good_set h a _ (fun _ e => by cases e)
theorem good_set_obj {β : Repl} {σ : State} (a : Addr) (m : ObjMap) (h : Good β σ) : Good β (σ.set a (.obj m)) :=
  good_set h a _ (fun _ e => by cases e)
theorem good_set_scope {β : Repl} {σ : State} (a : Addr) (m : ScopeMap) (h : Good β σ) : Good β (σ.set a (.scope m)) :=
  good_set h a _ (fun _ e => by cases e)
theorem good_print {β : Repl} {σ : State} (l : List Char) (h : Good β σ) : Good β (σ.print l) := h

/-! ### `Ev`: the right run eventually yields the left result, up to function bodies -/

/-- `r` is the result of the left run; unless it is a time-out, the right run `g` yields from some fuel on the same
    result in a state that differs only in (related) function bodies -/
def Ev {α} (r : Res α) (g : Nat → Res α) : Prop :=
  r ≠ .timeout → ∃ β, GoodRes β r ∧ ∃ m₀, ∀ m, m₀ ≤ m → g m = wbRes β r

namespace Ev
variable {α γ : Type}

theorem timeout {g : Nat → Res α} : Ev (.timeout : Res α) g := fun h => absurd rfl h

theorem of_eq {β : Repl} {r : Res α} {g : Nat → Res α} (h : ∀ m, g m = wbRes β r) (hg : GoodRes β r) : Ev r g :=
  fun _ => ⟨β, hg, 0, fun m _ => h m⟩

theorem ok {β : Repl} {a : α} {σ : State} (hg : Good β σ) : Ev (.ok a σ) (fun _ => .ok a (wb β σ)) :=
  of_eq (β := β) (fun _ => rfl) hg

/-- an operation that commutes with `wb β` at every fuel and is monotone in the fuel -/
theorem of_exact {β : Repl} {f : Nat → State → Res α} {σ : State} (n : Nat)
    (hmono : ∀ k, Res.Le (f k σ) (f (k + 1) σ)) (heq : ∀ m, f m (wb β σ) = wbRes β (f m σ))
    (hg : ∀ m, GoodRes β (f m σ)) : Ev (f n σ) (fun m => f m (wb β σ)) := by
  intro hne
  refine ⟨β, hg n, n, fun m hm => ?_⟩
  show f m (wb β σ) = _
  rw [heq m, fuel_stable (f := fun k => f k σ) hmono rfl hne hm]

theorem shift {r : Res α} {g : Nat → Res α} (h : Ev r (fun m => g (m + 1))) : Ev r g := by
  intro hne
  obtain ⟨β, hg, m₀, hm⟩ := h hne
  refine ⟨β, hg, m₀ + 1, fun m hmm => ?_⟩
  obtain ⟨k, rfl⟩ : ∃ k, m = k + 1 := ⟨m - 1, by omega⟩
  exact hm k (by omega)

theorem bind {r : Res α} {g : Nat → Res α} {k : α → State → Res γ} {k' : Nat → α → State → Res γ}
    (h : Ev r g) (hk : ∀ β a σ, Good β σ → Ev (k a σ) (fun m => k' m a (wb β σ))) :
    Ev (r.bind k) (fun m => (g m).bind (k' m)) := by
  intro hne
  cases r with
  | timeout => exact absurd rfl hne
  | ok a σ =>
    obtain ⟨β, hg, m₀, hm⟩ := h (by intro h; cases h)
    obtain ⟨β', hg', m₁, hm'⟩ := hk β a σ hg hne
    refine ⟨β', hg', max m₀ m₁, fun m hmm => ?_⟩
    show (g m).bind (k' m) = _
    rw [hm m (by omega)]
    exact hm' m (by omega)
  | err e σ =>
    obtain ⟨β, _, m₀, hm⟩ := h (by intro h; cases h)
    exact ⟨β, trivial, m₀, fun m hmm => by dsimp only; rw [hm m hmm]; rfl⟩
  | crash w σ =>
    obtain ⟨β, _, m₀, hm⟩ := h (by intro h; cases h)
    exact ⟨β, trivial, m₀, fun m hmm => by dsimp only; rw [hm m hmm]; rfl⟩

theorem map {r : Res α} {g : Nat → Res α} (f : α → γ) (h : Ev r g) : Ev (r.map f) (fun m => (g m).map f) := by
  intro hne
  cases r with
  | timeout => exact absurd rfl hne
  | ok a σ =>
    obtain ⟨β, hg, m₀, hm⟩ := h (by intro h; cases h)
    exact ⟨β, hg, m₀, fun m hmm => by dsimp only; rw [hm m hmm]; rfl⟩
  | err e σ =>
    obtain ⟨β, _, m₀, hm⟩ := h (by intro h; cases h)
    exact ⟨β, trivial, m₀, fun m hmm => by dsimp only; rw [hm m hmm]; rfl⟩
  | crash w σ =>
    obtain ⟨β, _, m₀, hm⟩ := h (by intro h; cases h)
    exact ⟨β, trivial, m₀, fun m hmm => by dsimp only; rw [hm m hmm]; rfl⟩

theorem mapErr {r : Res α} {g : Nat → Res α} (f : Err → Err) (h : Ev r g) : Ev (r.mapErr f) (fun m => (g m).mapErr f) := by
  intro hne
  cases r with
  | timeout => exact absurd rfl hne
  | ok a σ =>
    obtain ⟨β, hg, m₀, hm⟩ := h (by intro h; cases h)
    exact ⟨β, hg, m₀, fun m hmm => by dsimp only; rw [hm m hmm]; rfl⟩
  | err e σ =>
    obtain ⟨β, _, m₀, hm⟩ := h (by intro h; cases h)
    exact ⟨β, trivial, m₀, fun m hmm => by dsimp only; rw [hm m hmm]; rfl⟩
  | crash w σ =>
    obtain ⟨β, _, m₀, hm⟩ := h (by intro h; cases h)
    exact ⟨β, trivial, m₀, fun m hmm => by dsimp only; rw [hm m hmm]; rfl⟩

end Ev

/-! ### the primitives do not read function bodies -/

theorem eq_wb (β : Repl) (n : Nat) :
    (∀ σ a b, eqVal n (wb β σ) a b = eqVal n σ a b) ∧
    (∀ σ i xs ys, eqItems n (wb β σ) i xs ys = eqItems n σ i xs ys) ∧
    (∀ σ xs ys, eqProps n (wb β σ) xs ys = eqProps n σ xs ys) := by
  induction n with
  | zero =>
    refine ⟨?_, ?_, ?_⟩ <;> intros
    · unfold eqVal; rfl
    · unfold eqItems; rfl
    · unfold eqProps; rfl
  | succ n ih =>
    obtain ⟨ihV, ihI, ihP⟩ := ih
    refine ⟨?_, ?_, ?_⟩ <;> intros
    · unfold eqVal; simp only [getList_wb, getObj_wb, ihI, ihP]
    · unfold eqItems; simp only [ihV, ihI]
    · unfold eqProps; simp only [ihV, ihP]

@[simp] theorem eqVal_wb (β : Repl) (n : Nat) (σ : State) (a b : Val) : eqVal n (wb β σ) a b = eqVal n σ a b :=
  (eq_wb β n).1 σ a b

theorem render_wb_all (β : Repl) (n : Nat) :
    (∀ σ held v, render n (wb β σ) held v = render n σ held v) ∧
    (∀ σ held items, renderItems n (wb β σ) held items = renderItems n σ held items) ∧
    (∀ σ held props, renderProps n (wb β σ) held props = renderProps n σ held props) := by
  induction n with
  | zero =>
    refine ⟨?_, ?_, ?_⟩ <;> intros
    · unfold render; rfl
    · unfold renderItems; rfl
    · unfold renderProps; rfl
  | succ n ih =>
    obtain ⟨ihV, ihI, ihP⟩ := ih
    refine ⟨?_, ?_, ?_⟩ <;> intros
    · rename_i σ held v
      unfold render
      simp only [getList_wb, getObj_wb, getFunc_wb, ihI, ihP]
      cases v <;> try rfl
      rename_i a
      simp only []
      cases σ.getFunc a <;> rfl
    · unfold renderItems; simp only [ihV, ihI]
    · unfold renderProps; simp only [ihV, ihP]

@[simp] theorem render_wb (β : Repl) (n : Nat) (σ : State) (held : List Addr) (v : Val) :
    render n (wb β σ) held v = render n σ held v := (render_wb_all β n).1 σ held v

@[simp] theorem toPairs_wb (β : Repl) (σ : State) (v : Val) : toPairs (wb β σ) v = toPairs σ v := by
  unfold toPairs; simp only [getList_wb, getObj_wb]

/-- an exact-fuel commutation fact together with the invariant -/
def Comm {α} (β : Repl) (r' r : Res α) : Prop := r' = wbRes β r ∧ GoodRes β r

theorem Comm.of_eq {α} {β : Repl} {r' r : Res α} (h : r' = wbRes β r) (hg : GoodRes β r) : Comm β r' r := ⟨h, hg⟩

theorem arith_comm {β : Repl} (op : BinaryOp) (loc : Loc) (a b : Int) {σ : State} (hg : Good β σ) :
    Comm β (arith op loc a b (wb β σ)) (arith op loc a b σ) := by
  unfold arith
  cases op <;> simp only [] <;> (repeat' split) <;> exact Comm.of_eq rfl (by first | exact hg | trivial)

theorem applyBinOp_comm {β : Repl} (n : Nat) (op : BinaryOp) (loc : Loc) (a b : Val) {σ : State} (hg : Good β σ) :
    Comm β (applyBinOp n (wb β σ) op loc a b) (applyBinOp n σ op loc a b) := by
  unfold applyBinOp
  cases op <;> simp only [eqVal_wb, getList_wb, alloc_pair, allocS_wb_list, size_wb] <;> (repeat' split) <;>
    first
      | exact arith_comm _ _ _ _ hg
      | exact Comm.of_eq rfl (by first | exact hg | trivial | exact good_allocS_list _ hg)

theorem callBuiltin_comm {β : Repl} (n : Nat) (f : BuiltinId) (this : Option SVal) (args : List SVal) {σ : State}
    (hg : Good β σ) : Comm β (callBuiltin n (wb β σ) f this args) (callBuiltin n σ f this args) := by
  unfold callBuiltin
  cases f <;> simp only [render_wb, print_wb] <;> (repeat' split) <;>
    exact Comm.of_eq rfl (by first | exact hg | trivial | exact good_print _ hg)

theorem opAssignValue_comm {β : Repl} (n : Nat) (cur rhs : SVal) (op : Option (BinaryOp × Loc)) {σ : State}
    (hg : Good β σ) : Comm β (opAssignValue n (wb β σ) cur rhs op) (opAssignValue n σ cur rhs op) := by
  unfold opAssignValue
  split
  · exact Comm.of_eq rfl hg
  · obtain ⟨h1, h2⟩ := applyBinOp_comm n ‹BinaryOp› ‹Loc› cur.v rhs.v hg
    rw [h1]
    cases hr : applyBinOp n σ ‹BinaryOp› ‹Loc› cur.v rhs.v <;> rw [hr] at h2 <;>
      exact Comm.of_eq rfl (by first | exact h2 | trivial)

/-! ### parameter validation looks only at the shape of the patterns -/

theorem RExprs.length_eq : ∀ {a a' : List Expr}, RExprs a a' → a'.length = a.length := by
  intro a
  induction a with
  | nil => intro a' h; cases h; rfl
  | cons e r ih => intro a' h; cases h with | cons he hr => simp [ih hr]

theorem RExprs.append : ∀ {a a' b b' : List Expr}, RExprs a a' → RExprs b b' → RExprs (a ++ b) (a' ++ b') := by
  intro a
  induction a with
  | nil => intro a' b b' h1 h2; cases h1; exact h2
  | cons e r ih => intro a' b b' h1 h2; cases h1 with | cons he hr => exact .cons he (ih hr h2)

theorem RExprs.reverse : ∀ {a a' : List Expr}, RExprs a a' → RExprs a.reverse a'.reverse := by
  intro a
  induction a with
  | nil => intro a' h; cases h; exact .nil
  | cons e r ih =>
    intro a' h
    cases h with
    | cons he hr =>
      simp only [List.reverse_cons]
      exact RExprs.append (ih hr) (.cons he .nil)

/-- equal errors, or related queues -/
def QRel : Except Err (List Expr) → Except Err (List Expr) → Prop
  | .error e, .error e' => e = e'
  | .ok m, .ok m' => RExprs m m'
  | _, _ => False

theorem propsToQueue_rel (loc : Loc) : ∀ {ps ps' : List PropItem}, RProps ps ps' → ∀ {acc acc' : List Expr}, RExprs acc acc' →
    QRel (propsToQueue loc ps acc) (propsToQueue loc ps' acc') := by
  intro ps
  induction ps with
  | nil => intro ps' h acc acc' ha; cases h; simp only [propsToQueue, QRel]; exact ha.reverse
  | cons p r ih =>
    intro ps' h acc acc' ha
    cases h with
    | pair hn hv hr => simp only [propsToQueue]; exact ih hr (.cons hv ha)
    | single s c he hr =>
      simp only [propsToQueue]
      cases s with
      | true => simp [QRel]
      | false => simp only [Bool.false_eq_true, if_false]; exact ih hr (.cons he ha)

theorem itemsToQueue_rel (loc : Loc) : ∀ {is is' : List ListItem}, RItems is is' → ∀ {acc acc' : List Expr}, RExprs acc acc' →
    QRel (itemsToQueue loc is acc) (itemsToQueue loc is' acc') := by
  intro is
  induction is with
  | nil => intro is' h acc acc' ha; cases h; simp only [itemsToQueue, QRel]; exact ha.reverse
  | cons p r ih =>
    intro is' h acc acc' ha
    cases h with
    | cons s he hr =>
      simp only [itemsToQueue]
      cases s with
      | true => simp [QRel]
      | false => simp only [Bool.false_eq_true, if_false]; exact ih hr (.cons he ha)

theorem validateArgs_rel (n : Nat) : ∀ {q q' : List Expr} (names : List (List Char × Loc)), RExprs q q' →
    validateArgs n q' names = validateArgs n q names := by
  induction n with
  | zero => intro q q' names _; unfold validateArgs; rfl
  | succ n ih =>
    intro q q' names h
    cases h with
    | nil => rfl
    | cons he hr =>
      cases he with
      | mk loc hraw =>
        cases hraw with
        | var x =>
          unfold validateArgs
          dsimp only []
          split
          · rfl
          · split
            · rfl
            · exact ih _ hr
        | object hps =>
          rename_i ps ps'
          unfold validateArgs
          dsimp only []
          have := propsToQueue_rel loc hps .nil
          cases h1 : propsToQueue loc ps [] <;> cases h2 : propsToQueue loc ps' [] <;> rw [h1, h2] at this <;>
            simp only [QRel] at this
          · rw [this]
          · exact ih _ (RExprs.append hr this)
        | list c his =>
          rename_i is is'
          unfold validateArgs
          dsimp only []
          have := itemsToQueue_rel loc his .nil
          cases h1 : itemsToQueue loc is [] <;> cases h2 : itemsToQueue loc is' [] <;> rw [h1, h2] at this <;>
            simp only [QRel] at this
          · rw [this]
          · exact ih _ (RExprs.append hr this)
        | _ => unfold validateArgs; rfl

theorem validateArgsRes_comm {β : Repl} (n : Nat) {args args' : List Expr} (ha : RExprs args args') {σ : State} (hg : Good β σ) :
    Comm β (validateArgsRes n args' (wb β σ)) (validateArgsRes n args σ) := by
  unfold validateArgsRes
  rw [validateArgs_rel n [] ha]
  repeat' split
  all_goals exact Comm.of_eq rfl (by first | exact hg | trivial)

/-! ### the scope walks and the name binder -/

@[simp] theorem scopeGet_wb (β : Repl) (σ : State) (sc : List Addr) (k : List Char) :
    scopeGet (wb β σ) sc k = scopeGet σ sc k := by
  induction sc with
  | nil => rfl
  | cons a r ih => simp only [scopeGet, getScope_wb, ih]

theorem scopeAssign_wb (β : Repl) (σ : State) (sc : List Addr) (k : List Char) (v : SVal) :
    scopeAssign (wb β σ) sc k v = (scopeAssign σ sc k v).map (wb β) := by
  induction sc with
  | nil => rfl
  | cons a r ih =>
    simp only [scopeAssign, getScope_wb, ih]
    cases σ.getScope a with
    | none => rfl
    | some m =>
      simp only []
      cases scopeLookup k m <;> simp [set_wb_scope]

theorem good_scopeAssign {β : Repl} {σ σ' : State} {sc : List Addr} {k : List Char} {v : SVal} (hg : Good β σ)
    (h : scopeAssign σ sc k v = some σ') : Good β σ' := by
  induction sc with
  | nil => simp [scopeAssign] at h
  | cons a r ih =>
    simp only [scopeAssign] at h
    cases hs : σ.getScope a with
    | none => simp [hs] at h
    | some m =>
      simp only [hs] at h
      cases hl : scopeLookup k m with
      | none => simp only [hl] at h; exact ih h
      | some p =>
        simp only [hl] at h
        cases h
        exact good_set_scope _ _ hg

theorem bindNextName_comm {β : Repl} (n : Nat) (sc : List Addr) (names : List (List Char)) (name : List Char) (loc : Loc)
    (rhs : SVal) (op : Option (BinaryOp × Loc)) (decl : Bool) {σ : State} (hg : Good β σ) :
    Comm β (bindNextName n (wb β σ) sc names name loc rhs op decl) (bindNextName n σ sc names name loc rhs op decl) := by
  have hstore : ∀ (v : SVal) (σ1 : State), Good β σ1 →
      Comm β (match scopeAssign (wb β σ1) sc name v with
          | some σ2 => Res.ok (name :: names) σ2
          | none => errAt loc (Gen.Leaf.Undefined name) (wb β σ1))
        (match scopeAssign σ1 sc name v with
          | some σ2 => Res.ok (name :: names) σ2
          | none => errAt loc (Gen.Leaf.Undefined name) σ1) := by
    intro v σ1 hg1
    rw [scopeAssign_wb]
    cases hs : scopeAssign σ1 sc name v with
    | none => exact Comm.of_eq rfl trivial
    | some σ2 => exact Comm.of_eq rfl (good_scopeAssign hg1 hs)
  unfold bindNextName
  split
  · exact Comm.of_eq rfl hg
  · split
    · exact Comm.of_eq rfl trivial
    · cases decl with
      | true =>
        simp only [if_true]
        cases op with
        | some o => exact Comm.of_eq rfl trivial
        | none =>
          simp only []
          unfold scopeDeclare
          cases sc with
          | nil => exact Comm.of_eq rfl trivial
          | cons a r =>
            simp only [getScope_wb]
            cases σ.getScope a with
            | none => exact Comm.of_eq rfl trivial
            | some m =>
              simp only []
              cases scopeLookup name m with
              | some p => exact Comm.of_eq rfl trivial
              | none => simp only [set_wb_scope]; exact Comm.of_eq rfl (good_set_scope _ _ hg)
      | false =>
        simp only [Bool.false_eq_true, if_false]
        cases op with
        | none => exact hstore rhs σ hg
        | some o =>
          obtain ⟨ob, ol⟩ := o
          simp only [scopeGet_wb]
          cases scopeGet σ sc name with
          | none => exact Comm.of_eq rfl trivial
          | some cur =>
            simp only []
            obtain ⟨h1, h2⟩ := applyBinOp_comm n ob ol cur.v rhs.v hg
            rw [h1]
            cases hr : applyBinOp n σ ob ol cur.v rhs.v with
            | ok v σ1 => rw [hr] at h2; exact hstore (SVal.plain v) σ1 h2
            | err e σ1 => exact Comm.of_eq rfl trivial
            | crash w σ1 => exact Comm.of_eq rfl trivial
            | timeout => exact Comm.of_eq rfl trivial

/-- from an exact-fuel commutation fact to `Ev` -/
theorem Ev.of_comm {α} {β : Repl} {f : Nat → State → Res α} {σ : State} (n : Nat)
    (hmono : ∀ k, Res.Le (f k σ) (f (k + 1) σ)) (h : ∀ m, Comm β (f m (wb β σ)) (f m σ)) :
    Ev (f n σ) (fun m => f m (wb β σ)) :=
  Ev.of_exact n hmono (fun m => (h m).1) (fun m => (h m).2)

theorem applyBinOp_ev {β : Repl} (n : Nat) (op : BinaryOp) (loc : Loc) (a b : Val) {σ : State} (hg : Good β σ) :
    Ev (applyBinOp n σ op loc a b) (fun m => applyBinOp m (wb β σ) op loc a b) :=
  Ev.of_comm (f := fun k s => applyBinOp k s op loc a b) n (fun k => applyBinOp_mono k σ op loc a b)
    (fun m => applyBinOp_comm m op loc a b hg)

theorem callBuiltin_ev {β : Repl} (n : Nat) (f : BuiltinId) (this : Option SVal) (args : List SVal) {σ : State}
    (hg : Good β σ) : Ev (callBuiltin n σ f this args) (fun m => callBuiltin m (wb β σ) f this args) :=
  Ev.of_comm (f := fun k s => callBuiltin k s f this args) n (fun k => callBuiltin_mono k σ f this args)
    (fun m => callBuiltin_comm m f this args hg)

theorem opAssignValue_ev {β : Repl} (n : Nat) (cur rhs : SVal) (op : Option (BinaryOp × Loc)) {σ : State}
    (hg : Good β σ) : Ev (opAssignValue n σ cur rhs op) (fun m => opAssignValue m (wb β σ) cur rhs op) :=
  Ev.of_comm (f := fun k s => opAssignValue k s cur rhs op) n (fun k => opAssignValue_mono k σ cur rhs op)
    (fun m => opAssignValue_comm m cur rhs op hg)

theorem validateArgsRes_ev {β : Repl} (n : Nat) {args args' : List Expr} (ha : RExprs args args') {σ : State} (hg : Good β σ) :
    Ev (validateArgsRes n args σ) (fun m => validateArgsRes m args' (wb β σ)) := by
  intro hne
  refine ⟨β, (validateArgsRes_comm n ha hg).2, n, fun m hm => ?_⟩
  show validateArgsRes m args' (wb β σ) = _
  rw [(validateArgsRes_comm m ha hg).1,
    fuel_stable (f := fun k => validateArgsRes k args σ) (fun k => validateArgsRes_mono k args σ) rfl hne hm]

theorem bindNextName_ev {β : Repl} (n : Nat) (sc : List Addr) (names : List (List Char)) (name : List Char) (loc : Loc)
    (rhs : SVal) (op : Option (BinaryOp × Loc)) (decl : Bool) {σ : State} (hg : Good β σ) :
    Ev (bindNextName n σ sc names name loc rhs op decl) (fun m => bindNextName m (wb β σ) sc names name loc rhs op decl) :=
  Ev.of_comm (f := fun k s => bindNextName k s sc names name loc rhs op decl) n
    (fun k => bindNextName_mono k σ sc names name loc rhs op decl)
    (fun m => bindNextName_comm m sc names name loc rhs op decl hg)

/-! ### bindings (`evalBlock`, `declareAll`): related patterns, the same values -/

inductive RBinds : List (Expr × SVal) → List (Expr × SVal) → Prop
  | nil : RBinds [] []
  | cons {e e' : Expr} (v : SVal) {r r' : List (Expr × SVal)} : RExpr e e' → RBinds r r' → RBinds ((e, v) :: r) ((e', v) :: r')

theorem RBinds.refl : (l : List (Expr × SVal)) → RBinds l l
  | [] => .nil
  | (e, v) :: r => .cons v (RExpr.refl e) (RBinds.refl r)

theorem RBinds.zip : ∀ {es es' : List Expr}, RExprs es es' → ∀ (vs : List SVal), RBinds (es.zip vs) (es'.zip vs) := by
  intro es
  induction es with
  | nil => intro es' h vs; cases h; exact .nil
  | cons e r ih =>
    intro es' h vs
    cases h with
    | cons he hr =>
      cases vs with
      | nil => exact .nil
      | cons v vs => exact .cons v he (ih hr vs)

theorem RBinds.append : ∀ {a a' b b' : List (Expr × SVal)}, RBinds a a' → RBinds b b' → RBinds (a ++ b) (a' ++ b') := by
  intro a
  induction a with
  | nil => intro a' b b' h1 h2; cases h1; exact h2
  | cons e r ih => intro a' b b' h1 h2; cases h1 with | cons v he hr => exact .cons v he (ih hr h2)

end Seed.C01
